CONSTANTS KFSkip = {}  Impl = "asfound"
SPECIFICATION Spec
CONSTRAINT JudgeOnly
INVARIANT JudgeOK
CHECK_DEADLOCK FALSE
