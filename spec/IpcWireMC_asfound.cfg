CONSTANTS KFSkip = {}  Impl = "asfound"  Big = FALSE
SPECIFICATION Spec
CONSTRAINT JudgeOnly
INVARIANT JudgeOK
CHECK_DEADLOCK FALSE
