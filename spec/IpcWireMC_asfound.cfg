CONSTANTS KFSkip = {}  Impl = "asfound"
SPECIFICATION Spec
INVARIANT JudgeOK
CHECK_DEADLOCK FALSE
