----------------------------- MODULE IpcAdmitMC -----------------------------
(* Design check for C05: the documented admission mechanism, step by step, as a
   refinement of IpcAdmit's events (every mechanism step that changes the file
   system is an Observe(S) for one specific S).  TLC explores every credential /
   accept decision / auth_set choice / transport and every interleaving of the
   clients' handshakes, and evaluates IpcAdmit's invariants in every state.

   The mechanism is modelled as the code is (lib/ipc_setup.c handle_new_connection,
   ipc_shm.c qb_ipcs_shm_connect, ipc_socket.c qb_ipcs_us_connect, unix.c
   open_mmap_file):
     mkdtemp (0700, server's ids) ; chmod 0770 ; chown to the peer's ids ;
     accept callback ; [refused: rmdir]
     accepted: shared memory transport: chown the directory to the authorised ids
               (the socket transport does not: KF_DirNotRechowned) ;
     per file: create with the owner's read/write bits of the chosen mode (chosen & 0600) and the
               server's ids ; chown to the authorised ids ; chmod to the chosen mode.
               (As found, every file was created 0600 whatever mode was chosen: CreateAsFound = TRUE, the
               *_asfound configuration, which must still yield the counterexample; KF-C05-3, repaired.)
   The KF_ predicates name the triggers of findings that were recorded and have been repaired; the registered
   configurations exclude nothing.                                              *)
EXTENDS IpcAdmit

CONSTANTS Uids, Gids, Modes, Errs, ShmFiles, SockFiles, SrvUid, SrvGid,
          CreateAsFound    \* TRUE: files are created 0600 (the code before KF-C05-3 was repaired)

VARIABLES pc,    \* [Clients -> 0..8] position of the server in k's handshake
          fs     \* [Clients -> [file class -> 0 absent, 1 created, 2 chowned, 3 chmoded, 4 removed]]

mvars == <<vars, pc, fs>>

MCUids  == {0, 1, 1000}
MCGids  == {0, 50, 1000}
MCModes == {384, 432, 416, 438, 288}   \* 0600 0660 0640 0666 0440
MCErrs  == {-13, -1, -11, 1}           \* -EACCES -EPERM -EAGAIN and a positive value
MC2Uids == {0, 1000}
MC2Gids == {0, 50}
MC2Modes == {432}
MC2Errs  == {-13}

Files == IF transport = 1 THEN ShmFiles ELSE SockFiles
Asets == {<<>>} \cup {<<u, g, m>> : u \in Uids, g \in Gids, m \in Modes}

Dir(k) == CHOOSE e \in Of(k) : IsDir(e)
HasDir(k) == \E e \in Of(k) : IsDir(e)
FileOf(k, f) == CHOOSE e \in Of(k) : e[2] = f
Replace(old, new) == (res \ {old}) \cup {new}

(* triggers of the recorded findings *)
KF_DirNotRechowned == \E k \in Clients : transport = 2 /\ cl[k].st \in {"acc", "est"} /\ Auth(k) # cl[k].cred
KF_CreateMode      == \E k \in Clients : cl[k].st \in {"acc", "est"} /\ ~SubMode(OwnerOnly, Chosen(k))
NoKF == ~KF_DirNotRechowned /\ ~KF_CreateMode
NoKF_Dir  == ~KF_DirNotRechowned
NoKF_Mode == ~KF_CreateMode

(* the mode a file is created with: the owner's read and write bits of the chosen mode (open(..., mode & 0600)) *)
OwnerRW(m) == LET o == (m \div 64) % 8 IN 64 * (4 * ((o \div 4) % 2) + 2 * ((o \div 2) % 2))
CreateMode(k) == IF CreateAsFound THEN OwnerOnly ELSE OwnerRW(Chosen(k))

MInit == Init /\ pc = [k \in Clients |-> 0] /\ fs = [k \in Clients |-> [f \in ShmFiles \cup SockFiles |-> 0]]

MServer == \E t \in {1, 2} : Server(t, SrvUid, SrvGid) /\ UNCHANGED <<pc, fs>>
MSpawn(k) == \E u \in Uids, g \in Gids : Spawn(k, u, g) /\ UNCHANGED <<pc, fs>>

Step(k, from, to) == pc[k] = from /\ pc' = [pc EXCEPT ![k] = to]

MMkdir(k) ==
  /\ cl[k].st = "conn" /\ Step(k, 0, 1)
  /\ Observe(res \cup {<<k, DirClass, srv[1], srv[2], 448>>})            \* mkdtemp: 0700
  /\ UNCHANGED fs
MChmodDir(k) ==
  /\ Step(k, 1, 2)
  /\ LET d == Dir(k) IN Observe(Replace(d, <<k, DirClass, d[3], d[4], 504>>))   \* 0770
  /\ UNCHANGED fs
MChownDir(k) ==
  /\ Step(k, 2, 3)
  /\ LET d == Dir(k) IN Observe(Replace(d, <<k, DirClass, cl[k].cred[1], cl[k].cred[2], d[5]>>))
  /\ UNCHANGED fs
MAccept(k) ==
  /\ Step(k, 3, 4)
  /\ \E ret \in {0} \cup Errs, aset \in Asets : AcceptCb(k, cl[k].cred[1], cl[k].cred[2], ret, aset)
  /\ UNCHANGED fs
(* refused *)
MRmdir(k) ==
  /\ cl[k].st = "ref" /\ Step(k, 4, 5)
  /\ Observe(res \ {Dir(k)})
  /\ UNCHANGED fs
MHandledRef(k) ==
  /\ cl[k].st = "ref" /\ Step(k, 5, 8)
  /\ Handled(k) /\ UNCHANGED fs
(* accepted *)
MRechownDir(k) ==
  /\ cl[k].st = "acc" /\ Step(k, 4, 5)
  /\ LET d == Dir(k) IN Observe(Replace(d, <<k, DirClass, Auth(k)[1], Auth(k)[2], d[5]>>))   \* both transports (socket: since 7a77652)
  /\ UNCHANGED fs
MCreate(k, f) ==
  /\ cl[k].st = "acc" /\ pc[k] = 5 /\ f \in Files /\ fs[k][f] = 0
  /\ fs' = [fs EXCEPT ![k][f] = 1]
  /\ Observe(res \cup {<<k, f, srv[1], srv[2], CreateMode(k)>>})
  /\ UNCHANGED pc
MChown(k, f) ==
  /\ pc[k] = 5 /\ f \in Files /\ fs[k][f] = 1
  /\ fs' = [fs EXCEPT ![k][f] = 2]
  /\ LET e == FileOf(k, f) IN Observe(Replace(e, <<k, f, Auth(k)[1], Auth(k)[2], e[5]>>))
  /\ UNCHANGED pc
MChmod(k, f) ==
  /\ pc[k] = 5 /\ f \in Files /\ fs[k][f] = 2
  /\ fs' = [fs EXCEPT ![k][f] = 3]
  /\ LET e == FileOf(k, f) IN Observe(Replace(e, <<k, f, e[3], e[4], Chosen(k)>>))
  /\ UNCHANGED pc
MHandledAcc(k) ==
  /\ cl[k].st = "acc" /\ Step(k, 5, 6)
  /\ \A f \in Files : fs[k][f] = 3
  /\ Handled(k) /\ UNCHANGED fs
(* the client's connect call returns what the server answered *)
MResult(k) ==
  /\ cl[k].st \in {"est", "gone"}
  /\ IF cl[k].dec = 0 THEN Result(k, 1, 0) ELSE Result(k, 0, -cl[k].dec)
  /\ UNCHANGED <<pc, fs>>
MMsg(k) ==
  /\ cl[k].st = "est" /\ pc[k] = 6 /\ cl[k].msgs = 0
  /\ Msg(k) /\ UNCHANGED <<pc, fs>>
(* the client leaves: the server removes the files in any order, then the directory *)
MLeave(k) == cl[k].st = "est" /\ Step(k, 6, 7) /\ UNCHANGED <<vars, fs>>
MRemove(k, f) ==
  /\ pc[k] = 7 /\ f \in Files /\ fs[k][f] = 3
  /\ fs' = [fs EXCEPT ![k][f] = 4]
  /\ Observe(res \ {FileOf(k, f)})
  /\ UNCHANGED pc
MRmdirEnd(k) ==
  /\ Step(k, 7, 8) /\ \A f \in Files : fs[k][f] = 4
  /\ Observe(res \ {Dir(k)})
  /\ UNCHANGED fs

MNext ==
  \/ MServer
  \/ \E k \in Clients : \/ MSpawn(k) \/ MMkdir(k) \/ MChmodDir(k) \/ MChownDir(k) \/ MAccept(k)
                        \/ MRmdir(k) \/ MHandledRef(k) \/ MRechownDir(k)
                        \/ MHandledAcc(k) \/ MResult(k) \/ MMsg(k) \/ MLeave(k) \/ MRmdirEnd(k)
  \/ \E k \in Clients, f \in ShmFiles \cup SockFiles : MCreate(k, f) \/ MChown(k, f) \/ MChmod(k, f) \/ MRemove(k, f)

MSpec == MInit /\ [][MNext]_mvars
=============================================================================
