------------------------------ MODULE ArrayGen ------------------------------
EXTENDS Array, Json, IOUtils
VARIABLES hist, done
Depth == atoi(IOEnv.DEPTH)
Idxs == {-1, 0, 1, 15, 16, 17, 31, 32, 255, 4096, 65535, 65536, 70000}
Grows == {0, 1, 16, 17, 33, 4097, 65536, 65537}
Vals == {1, 2}
GenOps == {<<"Index", i>> : i \in Idxs} \cup {<<"Grow", n>> : n \in Grows}
          \cup {<<"Write", i, v>> : i \in DOMAIN addr, v \in Vals}
GDo(op) ==
  CASE op[1] = "Index" -> Index(op[2], IF IndexRc(op[2]) = "ok" THEN 0 ELSE -1, op[2] + 2)
    [] op[1] = "Grow"  -> Grow(op[2], IF op[2] > MaxIdx THEN EINVAL ELSE 0)
    [] op[1] = "Write" -> Write(op[2], op[3])
GenInit == /\ created = TRUE /\ elemSize = atoi(IOEnv.ESIZE) /\ maxE = atoi(IOEnv.MAXE) /\ autogrow = atoi(IOEnv.AG)
           /\ addr = <<>> /\ content = <<>> /\ holder = 0 /\ hist = <<>> /\ done = FALSE
GenNext == \/ /\ Len(hist) < Depth /\ UNCHANGED done
              /\ \E op \in GenOps : GDo(op) /\ hist' = Append(hist, op)
           \/ /\ Len(hist) = Depth /\ ~done /\ done' = TRUE /\ UNCHANGED <<vars, hist>>
GenSpec == GenInit /\ [][GenNext]_<<vars, hist, done>>
Emit == done => PrintT(<<"GEN", ToJson(hist)>>)
=============================================================================
