CONSTANTS MaxObj = 6  MaxRef = 4  MaxSlot = 2
SPECIFICATION GenSpec
CONSTRAINT Emit
CHECK_DEADLOCK FALSE
