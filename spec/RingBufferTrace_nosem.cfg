CONSTANTS W = 1024  UseSem = FALSE  Flat = FALSE  Full = FALSE
SPECIFICATION TraceSpec
INVARIANT TypeOK
INVARIANT FifoExactlyOnceUntorn
POSTCONDITION TraceAccepted
CHECK_DEADLOCK FALSE
