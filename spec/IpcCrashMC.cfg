CONSTANTS Roles = {0, 1}  SlackMs = 1500  ImmediateMs = 500  RoundMs = 2000  MaxRounds = 2  MaxStale = 2  MaxPend = 1  Bug = 0
SPECIFICATION FairSpec
INVARIANT MTypeOK
INVARIANT GuardsHold
INVARIANT QuiescentClean
INVARIANT FreedClean
INVARIANT OnceOnly
INVARIANT CallGuards
INVARIANT CallbackSanity
PROPERTY EventuallyClean
PROPERTY CallReturns
PROPERTY OthersUntouched
CHECK_DEADLOCK FALSE
