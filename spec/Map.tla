------------------------------- MODULE Map -------------------------------
(* qb_map_* over hashtable / skiplist / trie  (lib/map.c, hashtable.c,
   skiplist.c, trie.c) -- properties C17 (dictionary + notifiers) and
   C18 (iterators under mutation).

   The state is the dictionary the property talks about, the registered
   notifiers, and for every open iterator the bookkeeping the C18 statement is
   phrased in: which keys were present for its whole life, which were present
   at some time of its life, which it has already returned, and whether an
   insertion happened under it.  Implementation freedom that the property
   leaves open (iteration order of the hashtable, which of several admissible
   keys an iterator under mutation returns next) is nondeterminism here and is
   resolved by the recorded result in trace validation.

   Keys are indices into KeyStr (byte strings), values are 1..NVal, 0 = none. *)
EXTENDS Naturals, Integers, Sequences, FiniteSets, TLC

CONSTANTS Impl,      \* "hash" | "skip" | "trie"
          Keys,      \* subset of DOMAIN KeyStr explored
          NVal,      \* values 1..NVal
          MaxIter,   \* iterator ids 1..MaxIter
          Masks,     \* event masks (subsets of del=1|rep=2|ins=4) used for notifiers
          UseFree,   \* BOOLEAN: explore the value-release (FREE) notifier
          Tags       \* user-data tags: the same (scope, events) may be registered once per tag (callers sharing one handler)

(* the key alphabet: one key a prefix of another, shared prefixes, single
   characters, a byte >= 0x80, a 40-character key *)
Long == [i \in 1..40 |-> IF i = 1 THEN 97 ELSE IF i = 2 THEN 98 ELSE 113]
KeyStr == << <<97>>, <<97, 98>>, <<97, 98, 99>>, <<97, 98, 100>>, <<98>>, <<128, 122>>, <<126>>, Long >>

VARIABLES dict,    \* [Keys -> 0..NVal]
          notif,   \* set of [scope, mask, rec, free, tag]   scope 0 = whole map
          iters,   \* [1..MaxIter -> iterator record]
          live     \* FALSE once destroyed

vars == <<dict, notif, iters, live>>

EvDel == 1  EvRep == 2  EvIns == 4  EvRec == 8  EvFree == 16
ENOENT == -2  EEXIST == -17  EINVAL == -22

Present == {k \in Keys : dict[k] # 0}
IsPref(p, s) == Len(p) <= Len(s) /\ \A i \in 1..Len(p) : p[i] = s[i]
HasPrefix(k, p) == IsPref(KeyStr[p], KeyStr[k])

(* byte-wise order; signed = bytes >= 128 sort before the others *)
B(x, signed) == IF signed /\ x >= 128 THEN x - 256 ELSE x
LexLt(a, b, signed) ==
  \E i \in 1..(Len(a) + 1) :
     /\ \A j \in 1..(i - 1) : j <= Len(b) /\ a[j] = b[j]
     /\ \/ (i = Len(a) + 1 /\ Len(b) >= i)
        \/ (i <= Len(a) /\ i <= Len(b) /\ B(a[i], signed) < B(b[i], signed))
(* a must come before b in an ordered iteration.  Skiplist: strcmp order.
   Trie: only where signed and unsigned byte order agree (DESIGN.md 4.0).    *)
MustPrecede(a, b) ==
  CASE Impl = "hash" -> FALSE
    [] Impl = "skip" -> LexLt(KeyStr[a], KeyStr[b], FALSE)
    [] Impl = "trie" -> LexLt(KeyStr[a], KeyStr[b], FALSE) /\ LexLt(KeyStr[a], KeyStr[b], TRUE)

NoIter == [open |-> FALSE, pref |-> 0, always |-> {}, cand |-> {}, seen |-> {}, onlyRm |-> TRUE, ended |-> FALSE]

Init == /\ dict = [k \in Keys |-> 0] /\ notif = {} /\ live = TRUE
        /\ iters = [i \in 1..MaxIter |-> NoIter]

-----------------------------------------------------------------------------
(* Notifier calls.  A call is <<event, key, old, new, ud>>; the identity ud of
   a notifier encodes what it was registered with.                          *)
Ud(nf) == nf.scope * 1000 + nf.tag * 100 + nf.mask * 10 + (IF nf.rec THEN 1 ELSE 0) + (IF nf.free THEN 5 ELSE 0)

Fires(nf, ev, k) ==
  /\ ~nf.free
  /\ (nf.mask \div ev) % 2 = 1
  /\ IF nf.scope = 0 THEN (Impl = "trie" => nf.rec)    \* trie: map-wide notifiers must be recursive
     ELSE \/ nf.scope = k
          \/ (Impl = "trie" /\ nf.rec /\ HasPrefix(k, nf.scope))

Calls(ev, k, old, new) ==
  {<<ev, k, old, new, Ud(nf)>> : nf \in {x \in notif : Fires(x, ev, k)}}
  \cup (IF ev \in {EvDel, EvRep}
          THEN {<<EvFree, k, old, 0, Ud(nf)>> : nf \in {x \in notif : x.free}} ELSE {})

(* per-key notifiers of hashtable/skiplist live in the entry and die with it *)
NotifAfterRm(k) == IF Impl = "trie" THEN notif ELSE {nf \in notif : nf.scope # k}

-----------------------------------------------------------------------------
(* iterator bookkeeping on mutation *)
OnInsert(k) == [i \in 1..MaxIter |->
   IF iters[i].open THEN [iters[i] EXCEPT !.cand = @ \cup {k}, !.onlyRm = FALSE] ELSE iters[i]]
OnRemove(k) == [i \in 1..MaxIter |->
   IF iters[i].open THEN [iters[i] EXCEPT !.always = @ \ {k}] ELSE iters[i]]

Put(k, v) ==
  /\ live
  /\ dict' = [dict EXCEPT ![k] = v]
  /\ iters' = IF dict[k] = 0 THEN OnInsert(k) ELSE iters
  /\ UNCHANGED <<notif, live>>
PutRes(k, v) == <<Calls(IF dict[k] = 0 THEN EvIns ELSE EvRep, k, dict[k], v)>>

Get(k) == live /\ UNCHANGED vars
GetRes(k) == <<dict[k]>>

Rm(k) ==
  /\ live
  /\ IF dict[k] # 0
       THEN /\ dict' = [dict EXCEPT ![k] = 0]
            /\ notif' = NotifAfterRm(k)
            /\ iters' = OnRemove(k)
       ELSE UNCHANGED <<dict, notif, iters>>
  /\ UNCHANGED live
RmRes(k) == IF dict[k] # 0 THEN <<1, Calls(EvDel, k, dict[k], 0)>> ELSE <<0, {}>>

Count == live /\ UNCHANGED vars
CountRes == <<Cardinality(Present)>>

(* a traversal (complete, abandoned after `stop` entries, or restricted to a
   prefix) over an unchanging map: distinct present keys with their values, in
   an admissible order, complete unless abandoned                            *)
Scope(p) == IF p = 0 THEN Present ELSE {k \in Present : HasPrefix(k, p)}
TraversalOK(seq, stop, p) ==
  LET ks == {seq[i][1] : i \in 1..Len(seq)} IN
  /\ \A i \in 1..Len(seq) : seq[i][1] \in Scope(p) /\ seq[i][2] = dict[seq[i][1]]
  /\ \A i, j \in 1..Len(seq) : i < j => seq[i][1] # seq[j][1] /\ ~MustPrecede(seq[j][1], seq[i][1])
  /\ Len(seq) = (IF stop = 0 \/ stop > Cardinality(Scope(p)) THEN Cardinality(Scope(p)) ELSE stop)
  /\ \A k \in Scope(p) \ ks : \A r \in ks : ~MustPrecede(k, r)
IterAll(stop, p) == live /\ UNCHANGED vars

(* notifier registration: a registration is identified by (scope, events, callback, user data); the harness uses
   one callback, so the user data is the tag *)
NF(scope, mask, rec, free, tag) == [scope |-> scope, mask |-> mask, rec |-> rec, free |-> free, tag |-> tag]
NotifyAddRc(scope, mask, rec, free, tag) ==
  IF scope # 0 /\ free THEN EINVAL
  ELSE IF scope # 0 /\ dict[scope] = 0 /\ Impl = "hash" THEN ENOENT
  ELSE IF scope # 0 /\ dict[scope] = 0 /\ Impl = "skip" THEN EINVAL
  ELSE IF NF(scope, mask, rec, free, tag) \in notif THEN EEXIST
  ELSE IF free /\ \E nf \in notif : nf.free /\ nf.mask = mask /\ nf.rec = rec THEN EEXIST    \* only one value-release notifier
  ELSE 0
NotifyAdd(scope, mask, rec, free, tag) ==
  /\ live
  /\ notif' = IF NotifyAddRc(scope, mask, rec, free, tag) = 0
                THEN notif \cup {NF(scope, mask, rec, free, tag)} ELSE notif
  /\ UNCHANGED <<dict, iters, live>>

(* qb_map_notify_del_2: exactly the registration with that user data *)
NotifyDelRc(scope, mask, rec, free, tag) ==
  IF NF(scope, mask, rec, free, tag) \in notif THEN 0 ELSE ENOENT
NotifyDel(scope, mask, rec, free, tag) ==
  /\ live
  /\ notif' = notif \ {NF(scope, mask, rec, free, tag)}
  /\ UNCHANGED <<dict, iters, live>>

(* qb_map_notify_del: every registration of that callback for those events on that scope, whatever its user data *)
SameShape(scope, mask, rec, free) == {nf \in notif : nf.scope = scope /\ nf.mask = mask /\ nf.rec = rec /\ nf.free = free}
NotifyDelAnyRc(scope, mask, rec, free) == IF SameShape(scope, mask, rec, free) # {} THEN 0 ELSE ENOENT
NotifyDelAny(scope, mask, rec, free) ==
  /\ live
  /\ notif' = notif \ SameShape(scope, mask, rec, free)
  /\ UNCHANGED <<dict, iters, live>>

(* destroy: every value still in the map leaves it *)
Destroy ==
  /\ live /\ \A i \in 1..MaxIter : ~iters[i].open
  /\ live' = FALSE /\ dict' = [k \in Keys |-> 0] /\ notif' = {}
  /\ UNCHANGED iters
DestroyRes == <<UNION {Calls(EvDel, k, dict[k], 0) : k \in Present}>>

-----------------------------------------------------------------------------
(* incremental iterators (C18) *)
IterCreate(i, p) ==
  /\ live /\ ~iters[i].open
  /\ iters' = [iters EXCEPT ![i] = [open |-> TRUE, pref |-> p, always |-> Scope(p), cand |-> Scope(p),
                                     seen |-> {}, onlyRm |-> TRUE, ended |-> FALSE]]
  /\ UNCHANGED <<dict, notif, live>>

(* IterNext returning key k (0 = end of iteration) with value v *)
IterNextOK(i, k, v) ==
  LET it == iters[i] IN
  /\ it.open /\ ~it.ended
  /\ IF k = 0
       THEN it.always \subseteq it.seen                  \* nothing present throughout was skipped
       ELSE /\ k \in it.cand                               \* was present at some time of this iteration
            /\ (it.pref # 0 => HasPrefix(k, it.pref))
            /\ (it.onlyRm => k \notin it.seen)             \* exactly once when only removals happened
            /\ (dict[k] # 0 => v = dict[k])
IterNext(i, k) ==
  /\ live
  /\ iters' = [iters EXCEPT ![i] = IF k = 0 THEN [@ EXCEPT !.ended = TRUE] ELSE [@ EXCEPT !.seen = @ \cup {k}]]
  /\ UNCHANGED <<dict, notif, live>>

IterFree(i) ==
  /\ live /\ iters[i].open
  /\ iters' = [iters EXCEPT ![i] = NoIter]
  /\ UNCHANGED <<dict, notif, live>>

-----------------------------------------------------------------------------
NotifShapes == {<<s, m, r, FALSE>> : s \in {0} \cup Keys, m \in Masks, r \in (IF Impl = "trie" THEN BOOLEAN ELSE {FALSE})}
               \cup (IF UseFree THEN {<<0, 0, FALSE, TRUE>>} ELSE {})

APut       == \E k \in Keys, v \in 1..NVal : Put(k, v)
AGet       == \E k \in Keys : Get(k)
ARm        == \E k \in Keys : Rm(k)
ACount     == Count
ANotifyAdd == \E s \in NotifShapes, t \in Tags : NotifyAdd(s[1], s[2], s[3], s[4], t)
ANotifyDel == \E s \in NotifShapes, t \in Tags : NotifyDel(s[1], s[2], s[3], s[4], t)
ANotifyDelAny == \E s \in NotifShapes : NotifyDelAny(s[1], s[2], s[3], s[4])
ADestroy   == Destroy
AIterCreate == \E i \in 1..MaxIter, p \in {0} \cup (IF Impl = "trie" THEN Keys ELSE {}) : IterCreate(i, p)
AIterNext  == \E i \in 1..MaxIter, k \in {0} \cup Keys :
                 /\ IterNextOK(i, k, IF k = 0 THEN 0 ELSE dict[k]) /\ IterNext(i, k)
AIterFree  == \E i \in 1..MaxIter : IterFree(i)

Next == APut \/ AGet \/ ARm \/ ACount \/ ANotifyAdd \/ ANotifyDel \/ ANotifyDelAny \/ ADestroy
        \/ AIterCreate \/ AIterNext \/ AIterFree
Spec == Init /\ [][Next]_vars

-----------------------------------------------------------------------------
(* Invariants of the design *)
TypeOK == /\ dict \in [Keys -> 0..NVal] /\ live \in BOOLEAN
          /\ \A nf \in notif : nf.scope \in {0} \cup Keys
IterBook == \A i \in 1..MaxIter : iters[i].open =>
               /\ iters[i].always \subseteq iters[i].cand
               /\ iters[i].always \subseteq Present
               /\ iters[i].seen \subseteq iters[i].cand
(* an iterator that ended under removals only has returned exactly the keys that were there throughout,
   plus possibly some that were removed later *)
EndedComplete == \A i \in 1..MaxIter : (iters[i].open /\ iters[i].ended) => iters[i].always \subseteq iters[i].seen
(* entry-scoped notifiers never outlive their entry (hashtable, skiplist) *)
NotifScope == Impl # "trie" => \A nf \in notif : nf.scope # 0 => dict[nf.scope] # 0
(* exactly-once: distinct notifiers have distinct identities, so a set of calls is a faithful record *)
UdInjective == \A a, b \in notif : Ud(a) = Ud(b) => a = b
FreeOnlyGlobal == \A nf \in notif : nf.free => nf.scope = 0
=============================================================================
