---------------------------- MODULE LogFormatVec ----------------------------
(* Test-vector alphabets shared by the design check (LogFormatMC) and the
   behaviour generator (LogFormatGen): which limits, tokens, field lengths,
   call-site data and messages are offered in a state.  Lengths and widths are
   chosen RELATIVE to the line limit in force, so that every vector sits on a
   boundary (0, 1, limit-1, limit, limit+5).                                 *)
EXTENDS LogFormat

CONSTANTS Limits,    \* values offered to SetLimit
          Widths,    \* directive widths: w < 10000 absolute, otherwise limit + (w - 10100)
          Lens,      \* field text lengths, same encoding
          Dirs,      \* directive letters offered
          LitSyms,   \* literal bytes offered (120 'x', 10 newline, 32 blank)
          MaxTok     \* longest format (tokens)
Abs(x) == IF x < 10000 THEN x ELSE limit + (x - 10100)
AWidths == {w \in {Abs(x) : x \in Widths} : w >= 0}
ALens == {w \in {Abs(x) : x \in Lens} : w >= 0}
LitLens == {n \in {1, 3, limit - 1, limit + 5} : n >= 1}
Tokens == UNION {{<<0, s, n>> : n \in IF s = 120 THEN LitLens ELSE {1}} : s \in LitSyms}
          \cup {<<c, m, w>> : c \in Dirs, m \in {0, 1}, w \in AWidths}
RECURSIVE TokSeqs(_)
TokSeqs(k) == IF k = 0 THEN {<<>>}
              ELSE LET s == TokSeqs(k - 1) IN s \cup {Append(x, t) : x \in {y \in s : Len(y) = k - 1}, t \in Tokens}
(* an unfinished directive can only be the last token *)
WellFormed(f) == \A i \in 1..(Len(f) - 1) : IsLit(f[i]) \/ f[i][1] # 1
Uses(f, c) == \E i \in 1..Len(f) : ~IsLit(f[i]) /\ f[i][1] = c
LenFor(f, c) == IF Uses(f, c) THEN ALens ELSE {1}
TS1 == <<1, 1, 0, 0, 0, 0>>
TS2 == <<12, 31, 23, 59, 58, 999>>
Envs(f) == {<<a, b, <<7, c>>>> : a \in LenFor(f, 78), b \in {x \in LenFor(f, 72) : x <= 254},
                                 c \in IF Uses(f, 80) THEN {1, 7} ELSE {1}}
CallData(f) == {<<a, b, <<7, c>>, p, t, g>> :
                   a \in LenFor(f, 110), b \in {x \in LenFor(f, 102) : x >= 1},
                   c \in IF Uses(f, 108) THEN {1, 9} ELSE {1},
                   p \in IF Uses(f, 112) THEN {0, 4, 8, 9} ELSE {6},
                   t \in IF Uses(f, 116) \/ Uses(f, 84) THEN {TS1, TS2} ELSE {TS1},
                   g \in IF Uses(f, 103) THEN ALens \cup {-1} ELSE {-1}}
Msgs(f) == IF Uses(f, 98) THEN {Rep(98, n) : n \in ALens} \cup {RCat(Rep(98, n), Rep(NL, 1)) : n \in ALens}
           ELSE {Rep(98, 1)}
(* call sites for real log calls: the line number determines the rest, as in real C *)
LogCalls == {<<2, 3, <<7, 1>>, 6, TS1, -1>>, <<3, 1, <<7, 2>>, 3, TS2, 2>>}
LogMsgs == {M \in {<<k, p, x, q, n>> : k \in {0, 1, 2}, p \in ALens, x \in {0, 1}, q \in {0, 2}, n \in {0, 1}} :
               M[1] # 2 \/ M[2] >= 1}
=============================================================================
