----------------------------- MODULE HdbTrace -----------------------------
(* Trace validation: the recorded calls of the real qb_hdb_* functions must be
   a behaviour of Hdb, with every logged result equal to Res(op).            *)
EXTENDS Hdb, Json, IOUtils
Tr == ndJsonDeserialize(IOEnv.TRACE)
VARIABLE l
TraceInit == Init /\ l = 1
ResetState == obj' = <<>> /\ n' = 0 /\ nslots' = 0 /\ dtor' = <<>> /\ iter' = 0
TraceNext ==
  /\ l <= Len(Tr) /\ l' = l + 1
  /\ LET ev == Tr[l] IN
     IF ev.e = "Reset" THEN ResetState
     ELSE LET op == <<ev.e>> \o ev.a IN Res(op) = ev.r /\ Do(op)
TraceSpec == TraceInit /\ [][TraceNext]_<<vars, l>>
TraceAccepted == TLCGet("stats").diameter - 1 = Len(Tr)
=============================================================================
