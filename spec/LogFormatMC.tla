----------------------------- MODULE LogFormatMC -----------------------------
(* Design check.  One behaviour = one test vector: limit, ellipsis, format,
   call data are chosen through the public calls of LogFormat; then the line
   is produced by a token-level transcription of the formatter (the loop of
   qb_log_target_format with _strcpy_cutoff's pad / chop / clamp arithmetic,
   in the shape the property requires: every store below the limit, no load
   before the buffer, truncation remembered) and handed to Format(), which
   accepts it only if it is the line the property prescribes.                *)
EXTENDS LogFormatVec

VARIABLES pc,      \* stage of the vector
          cD, cmsg,\* call data / message of the formatting call in progress
          i,       \* next token
          idx,     \* output index (bytes stored so far)
          out,     \* bytes 0..idx-1 of the buffer, as runs
          trunc,   \* something did not fit
          hist     \* <<highest index stored to, lowest index loaded from>> (-1 / limit: none yet)
avars == <<pc, cD, cmsg, i, idx, out, trunc, hist>>
allvars == <<vars, avars>>

Min(a, b) == IF a < b THEN a ELSE b
Max(a, b) == IF a > b THEN a ELSE b
NoD == <<0, 1, <<7, 1>>, 6, TS1, -1>>

MCInit == Init /\ pc = "limit" /\ cD = NoD /\ cmsg = <<>> /\ i = 0 /\ idx = 0 /\ out = <<>> /\ trunc = FALSE
          /\ hist = <<-1, 0>>
Keep == UNCHANGED <<cD, cmsg, i, idx, out, trunc, hist>>

ASetLimit    == pc = "limit" /\ pc' = "ell" /\ Keep /\ \E n \in Limits : SetLimit(n, ModelRes(<<"SetLimit", n>>))
ASetEllipsis == pc = "ell" /\ pc' = "fmt" /\ Keep /\ \E b \in {0, 1} : SetEllipsis(b, <<0>>)
ASetFormat   == pc = "fmt" /\ pc' = "call" /\ Keep
                /\ \E f \in TokSeqs(MaxTok) : WellFormed(f) /\ \E e \in Envs(f) : SetFormat(f, e, <<>>)
ASetFormatDefault == pc = "fmt" /\ pc' = "call" /\ Keep /\ SetFormatDefault(<<>>)
(* a formatting call starts: qb_log_target_format(t, cs(D), ts, msg, buffer[limit]) *)
ACall == /\ pc = "call" /\ pc' = "loop"
         /\ \E D \in CallData(fmt), m \in Msgs(fmt) : cD' = D /\ cmsg' = m
         /\ i' = 1 /\ idx' = 0 /\ out' = <<>> /\ trunc' = FALSE /\ hist' = <<-1, limit>>
         /\ UNCHANGED vars
(* literal bytes: stored while idx < limit-1, the rest only marks truncation *)
ATokLit == /\ pc = "loop" /\ i <= Len(fmt) /\ IsLit(fmt[i])
           /\ LET k == Min(fmt[i][3], limit - 1 - idx) IN
              /\ out' = RCat(out, Rep(fmt[i][2], k))
              /\ idx' = idx + k
              /\ trunc' = (trunc \/ k < fmt[i][3])
              /\ hist' = <<IF k > 0 THEN Max(hist[1], idx + k - 1) ELSE hist[1], hist[2]>>
           /\ i' = i + 1 /\ UNCHANGED <<vars, pc, cD, cmsg>>
(* a directive: _strcpy_cutoff(dest = buffer + idx, p, cutoff = width, ralign = minus, buf_len = limit - idx) *)
ATokDir == /\ pc = "loop" /\ i <= Len(fmt) /\ ~IsLit(fmt[i])
           /\ LET p == FieldTxt(fmt[i][1], cD, cmsg, env)
                  len == RLen(p)
                  room == limit - idx
                  want == IF fmt[i][3] = 0 THEN len ELSE fmt[i][3]
                  cut == Min(want, room - 1)
                  l == Min(len, cut) IN
              IF room <= 1
                THEN /\ trunc' = (trunc \/ want > 0) /\ UNCHANGED <<out, idx, hist>>
                ELSE /\ out' = RCat(out, IF fmt[i][2] = 1 THEN RCat(Rep(SP, cut - l), RTake(p, l))
                                                          ELSE RCat(RTake(p, l), Rep(SP, cut - l)))
                     /\ idx' = idx + cut
                     /\ trunc' = (trunc \/ want > room - 1)
                     /\ hist' = <<Max(hist[1], idx + cut), hist[2]>>       \* dest[cutoff] = NUL
           /\ i' = i + 1 /\ UNCHANGED <<vars, pc, cD, cmsg>>
(* end of the format: ellipsis over the last three bytes of a truncated line,
   else one trailing newline dropped; then the terminating NUL *)
ATail == /\ pc = "loop" /\ i > Len(fmt) /\ pc' = "check"
         /\ IF trunc /\ ell = 1 /\ idx >= 3
              THEN /\ out' = RCat(RTake(out, idx - 3), Rep(DOT, 3)) /\ idx' = idx
                   /\ hist' = <<Max(hist[1], idx), hist[2]>>
              ELSE IF idx > 0 /\ RLastSym(out) = NL
              THEN /\ out' = RChop1(out) /\ idx' = idx - 1
                   /\ hist' = <<Max(hist[1], idx - 1), Min(hist[2], idx - 1)>>
              ELSE /\ UNCHANGED <<out, idx>>
                   /\ hist' = <<Max(hist[1], idx), IF idx > 0 THEN Min(hist[2], idx - 1) ELSE hist[2]>>
         /\ UNCHANGED <<vars, cD, cmsg, i, trunc>>
(* the produced line is handed to the specification: enabled iff it is a line the property admits *)
AFormat == pc = "check" /\ pc' = "done" /\ Keep /\ Format(cD, cmsg, <<idx, out>>)
(* real log calls *)
LogFormat1(f) == f = DefaultFmt \/ Len(f) = 0 \/ (Len(f) = 1 /\ (IsLit(f[1]) \/ f[1][1] = 98))
ASetExtended == pc = "call" /\ pc' = "log" /\ Keep /\ LogFormat1(fmt) /\ \E b \in {0, 1} : SetExtended(b, <<0>>)
ALog == pc = "log" /\ pc' = "done" /\ Keep
        /\ \E D \in LogCalls, M \in LogMsgs : Log(D, M, ModelRes(<<"Log", D, M>>))

MCNext == ASetLimit \/ ASetEllipsis \/ ASetFormat \/ ASetFormatDefault \/ ACall \/ ATokLit \/ ATokDir \/ ATail
          \/ AFormat \/ ASetExtended \/ ALog
MCSpec == MCInit /\ [][MCNext]_allvars

(* every store lands inside the buffer, no load before it *)
StoreBound == pc \in {"loop", "check"} => hist[1] < limit /\ idx <= limit - 1
LoadBound == pc \in {"loop", "check"} => hist[2] >= 0
(* the transcription produces exactly a line the property admits *)
AlgConforms == pc = "check" => LineOK(fmt, cD, cmsg, env, limit, ell, idx, out)
(* a truncated line is full *)
TruncFull == pc \in {"loop", "check"} /\ trunc => idx = limit - 1 \/ (pc = "check" /\ idx = limit - 2)
=============================================================================
