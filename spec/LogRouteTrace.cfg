CONSTANTS NT = 28  TagVals = {1}  MaxRules = 1000000  MaxTag = 1000000  MaxKnown = 1000000
CONSTANTS Sites <- Empty  Rules <- Empty  TRules <- Empty  Bugs <- NoBugs
SPECIFICATION TraceSpec
INVARIANT DeliveryIffSelected
INVARIANT Routing
INVARIANT TagRouting
INVARIANT Twins
INVARIANT UnusedClean
POSTCONDITION TraceAccepted
CHECK_DEADLOCK FALSE
