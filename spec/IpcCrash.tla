------------------------------ MODULE IpcCrash ------------------------------
(* C03 -- IPC: death of the peer at any point is detected and fully cleaned up.

   Property-level specification.  The state is what the property talks about:

   client-death scenarios (the server survives)
     cst[r]    0 client r not started, 1 alive, 2 dead
     cphase[r] what the client was doing (connecting, idle, sending, in
               sendv_recv, in event_recv, disconnecting, handle released)
     cb[r]     how far the server's callbacks for r's connection got:
               None < Accepted < Created < Closed < Destroyed
     held[r]   <<descriptors, /dev/shm files, /dev/shm directories>> the
               server process holds for r
   server-death scenarios (the client survives)
     salive    server process alive
     cconn     0 no connection, 1 connected, 2 a disconnect error has been
               returned to the caller, 3 handle released by qb_ipcc_disconnect
     okAfter   number of calls that still returned data after the death

   Every action is  Guard /\ Do.  The guards ARE the property: a recorded
   callback, census or call result for which no guard holds is not a step of
   this specification (trace validation rejects it).  ClientDie is enabled in
   every client phase, SrvDie in every state with a live server.  The guards
   say nothing about WHEN the server notices, only what must be true once it
   has nothing left to do (Quiesce), and what a client call may return.

   Reading decisions (where the statement leaves a choice, the reading under
   which correct code cannot be flagged is taken):
   * a request queued before the death may or may not be delivered (Msg after
     ClientDie is allowed); a connection that never got as far as the accept
     callback may or may not see a destroyed callback;
   * "later calls fail immediately": after a call has returned a disconnect
     error every later call returns an error, within ImmediateMs -- except a
     plain receive with a positive timeout, which may use its timeout;
   * data that was already queued when the server died may still be returned
     (at most MaxStale times) before the disconnect error;
   * the directory of a dead SERVER is not required to disappear (the
     statement names the shared-memory files); connection statistics are
     recorded but not judged.                                               *)
EXTENDS Integers, Sequences, FiniteSets, TLC

CONSTANTS Roles,        \* connections of a client-death scenario: 0 bystander, 1 the dying client, 2 control client
          SlackMs,      \* scheduling margin granted on every deadline
          ImmediateMs,  \* what "immediately" means
          RoundMs,      \* length of one liveness round (QB_IPC_MAX_WAIT_MS)
          MaxRounds,    \* liveness rounds a wait-forever call may take once the server is dead
          MaxStale      \* calls that may still return queued data after the death

None == 0  Accepted == 1  Created == 2  Closed == 3  Destroyed == 4
ClosedAgain == 5     \* connection_closed ran and returned non-zero: it is to be run again before anything else
PNot == 0  PConn == 1  PIdle == 2  PSend == 3  PSendRecv == 4  PEvRecv == 5  PDisc == 6  PDone == 7
Phases == PNot..PDone
OpSend == 1  OpRecv == 2  OpSendvRecv == 3  OpEventRecv == 4
Zero == <<0, 0, 0>>

VARIABLES kind, cst, cphase, cb, held, salive, cconn, okAfter
vars == <<kind, cst, cphase, cb, held, salive, cconn, okAfter>>
cvars == <<cst, cphase, cb, held>>
svars == <<salive, cconn, okAfter>>

Init ==
  /\ kind = 0
  /\ cst = [r \in Roles |-> 0] /\ cphase = [r \in Roles |-> PNot]
  /\ cb = [r \in Roles |-> None] /\ held = [r \in Roles |-> Zero]
  /\ salive = TRUE /\ cconn = 0 /\ okAfter = 0

TypeOK ==
  /\ kind \in 0..3
  /\ cst \in [Roles -> 0..2] /\ cphase \in [Roles -> Phases] /\ cb \in [Roles -> None..ClosedAgain]
  /\ \A r \in Roles : held[r] \in Nat \X Nat \X Nat
  /\ salive \in BOOLEAN /\ cconn \in 0..3 /\ okAfter \in Nat

(* the client is dead, or has itself asked for / finished the disconnect *)
Gone(r) == cst[r] = 2 \/ cphase[r] >= PDisc
(* the server has no further obligations towards a client that is gone only once everything is released *)
Released(r) == held[r] = Zero /\ cb[r] \in {None, Destroyed}

(* errors that mean "the peer is gone" -- everything that is not try-again, timed-out, interrupted or a size/argument error *)
Disc(res) == res < 0 /\ res \notin {0 - 11, 0 - 110, 0 - 4, 0 - 90, 0 - 42, 0 - 22}

-----------------------------------------------------------------------------
(* scenario selection *)
Begin(k) == kind = 0 /\ k \in 1..3 /\ kind' = k /\ UNCHANGED <<cvars, svars>>

(* ---- client side of a client-death scenario ---- *)
Spawn(r) == kind \in {1, 2} /\ cst[r] = 0
            /\ cst' = [cst EXCEPT ![r] = 1] /\ cphase' = [cphase EXCEPT ![r] = PConn]
            /\ UNCHANGED <<kind, cb, held, svars>>
Phase(r, ph) == cst[r] = 1 /\ ph \in PConn..PDone
                /\ cphase' = [cphase EXCEPT ![r] = ph] /\ UNCHANGED <<kind, cst, cb, held, svars>>
(* death: possible in EVERY phase of a live client *)
ClientDie(r, ph) == cst[r] = 1 /\ ph \in Phases
                    /\ cst' = [cst EXCEPT ![r] = 2] /\ cphase' = [cphase EXCEPT ![r] = ph]
                    /\ UNCHANGED <<kind, cb, held, svars>>
(* a client that lives in the harness reports its connect result: a live server keeps serving *)
GConnected(r, ok) == cst[r] = 1 /\ salive /\ ok = 1
Connected(r, ok) == GConnected(r, ok) /\ cphase' = [cphase EXCEPT ![r] = PIdle] /\ UNCHANGED <<kind, cst, cb, held, svars>>
GServe(r, ok) == cst[r] = 1 /\ cb[r] = Created /\ ok = 1
Serve(r, ok) == GServe(r, ok) /\ UNCHANGED vars
Disconnect(r) == cst[r] = 1 /\ cphase' = [cphase EXCEPT ![r] = PDone] /\ UNCHANGED <<kind, cst, cb, held, svars>>

(* ---- server callbacks ---- *)
GAccept(r) == kind \in {1, 2} /\ salive /\ cst[r] # 0 /\ cb[r] = None
DoCb(r, v) == cb' = [cb EXCEPT ![r] = v] /\ UNCHANGED <<kind, cst, cphase, held, svars>>
EvAccept(r) == GAccept(r) /\ DoCb(r, Accepted)
GCreated(r) == cb[r] = Accepted
EvCreated(r) == GCreated(r) /\ DoCb(r, Created)
GMsg(r) == cb[r] = Created
EvMsg(r) == GMsg(r) /\ UNCHANGED vars
(* closed only for a client that is gone, and only after created was reported *)
GClosed(r) == cb[r] \in {Created, ClosedAgain} /\ Gone(r)
EvClosed(r) == GClosed(r) /\ DoCb(r, Closed)
(* ... with the value the application returned: non-zero = "not yet, call me again" (the destroyed callback must wait) *)
EvClosedRet(r, ret) == GClosed(r) /\ DoCb(r, IF ret = 0 THEN Closed ELSE ClosedAgain)
(* destroyed exactly once; after closed if created had been reported, without closed otherwise; only for a client that is gone *)
GDestroyed(r) == cst[r] # 0 /\ (cb[r] = Closed \/ (cb[r] \in {None, Accepted} /\ Gone(r)))
EvDestroyed(r) == GDestroyed(r) /\ DoCb(r, Destroyed)

(* ---- what the server holds, observed after each of its steps ---- *)
GStep(r, h, lost) ==
  /\ lost = 0                                                \* never a descriptor of somebody else
  /\ (cst[r] = 0 => h = Zero)
  /\ (cb[r] = Destroyed => h = Zero)                          \* the step that ran destroyed has released everything
DoStep(r, h) == held' = [held EXCEPT ![r] = h] /\ UNCHANGED <<kind, cst, cphase, cb, svars>>
EvStep(r, h, lost) == GStep(r, h, lost) /\ DoStep(r, h)

(* the server has nothing left to do: every client that is dead or has released its handle is fully cleaned up *)
GQuiesce(capped) == capped = 0 /\ \A r \in Roles : (cst[r] = 2 \/ cphase[r] = PDone) => Released(r)
EvQuiesce(capped) == GQuiesce(capped) /\ UNCHANGED vars
GEndC(extra, lost, files, dirs) == extra = 0 /\ lost = 0 /\ files = 0 /\ dirs = 0 /\ \A r \in Roles : cb[r] \in {None, Destroyed}
EvEndC(extra, lost, files, dirs) == kind \in {1, 2} /\ GEndC(extra, lost, files, dirs) /\ UNCHANGED vars

(* ---- server-death scenario ---- *)
SrvDie == kind = 3 /\ salive /\ salive' = FALSE /\ UNCHANGED <<kind, cvars, cconn, okAfter>>
(* post = 1: the server was dead when the call returned *)
GCConnect(ok, post) == kind = 3 /\ cconn = 0 /\ (salive \/ post = 1) /\ (ok = 1 \/ post = 1)
CConnect(ok, post) == GCConnect(ok, post) /\ cconn' = (IF ok = 1 THEN 1 ELSE 0) /\ salive' = (post = 0)
                      /\ UNCHANGED <<kind, cvars, okAfter>>
GCCall(op, tmo, res, ms, post) ==
  /\ kind = 3 /\ cconn \in {1, 2} /\ (salive \/ post = 1)
  /\ (tmo >= 0 => ms <= tmo + SlackMs)                                       \* a finite timeout is a deadline, dead server or not
  /\ ((tmo < 0 /\ op \in {OpSendvRecv, OpEventRecv} /\ post = 1)             \* wait-forever calls notice the death
        => (ms <= MaxRounds * RoundMs + SlackMs /\ (res >= 0 \/ Disc(res))))
  /\ (cconn = 2 => (res < 0 /\ ((op # OpRecv \/ tmo = 0) => ms <= ImmediateMs)))   \* later calls fail immediately
  /\ ((~salive /\ res >= 0) => okAfter < MaxStale)
CCall(op, tmo, res, ms, post) ==
  /\ GCCall(op, tmo, res, ms, post)
  /\ cconn' = (IF Disc(res) THEN 2 ELSE cconn)
  /\ okAfter' = (IF ~salive /\ res >= 0 THEN okAfter + 1 ELSE okAfter)
  /\ salive' = (post = 0)
  /\ UNCHANGED <<kind, cvars>>
(* qb_ipcc_disconnect: the files a dead server left behind are gone afterwards *)
GCDisconnect(files) == kind = 3 /\ cconn \in {1, 2} /\ (~salive => files = 0)
CDisconnect(files) == GCDisconnect(files) /\ cconn' = 3 /\ UNCHANGED <<kind, cvars, salive, okAfter>>
GEndS(files) == cconn \in {0, 3} /\ (cconn = 3 => files = 0)
EvEndS(files) == kind = 3 /\ GEndS(files) /\ UNCHANGED vars

(* ---- invariants over any behaviour ---- *)
CallbackSanity == \A r \in Roles : (cst[r] = 0 => cb[r] = None) /\ (cb[r] \in {Closed, ClosedAgain} => Gone(r))
=============================================================================
