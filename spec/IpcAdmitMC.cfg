CONSTANTS Clients = {1}  SrvUid = 0  SrvGid = 0
  CreateAsFound = FALSE
  ShmFiles = {1, 2, 3}  SockFiles = {7}
CONSTANT Uids <- MCUids
CONSTANT Gids <- MCGids
CONSTANT Modes <- MCModes
CONSTANT Errs <- MCErrs
SPECIFICATION MSpec
INVARIANT TypeOK
INVARIANT AcceptArgsAreKernelCreds
INVARIANT RefusalReported
INVARIANT NoConnectionWithoutAccept
INVARIANT NoMsgFromRefused
INVARIANT RefusedLeavesNothing
INVARIANT ResKnown
INVARIANT DirNoOther
INVARIANT FileModeWithinChosen
INVARIANT OwnerAuthorised
CHECK_DEADLOCK FALSE
