------------------------- MODULE LogThreadFreeTrace -------------------------
(* Trace validation of the free-running executions of harness/h_logthread.c against LogThreadFree. *)
EXTENDS LogThreadFree, Json, IOUtils
Tr == ndJsonDeserialize(IOEnv.TRACE)
VARIABLE l
TraceInit == FInit /\ l = 1
ResetState == /\ enabled' = FALSE /\ threaded' = FALSE /\ started' = FALSE /\ called' = 0 /\ size' = <<>> /\ backlog' = 0
              /\ written' = <<>> /\ mayDrop' = {} /\ mdu' = 0 /\ opt' = {} /\ lostRep' = 0 /\ cur' = 0 /\ fin' = FALSE
              /\ second' = 0 /\ written2' = <<>> /\ closedCb' = FALSE
TraceNext ==
  /\ l <= Len(Tr) /\ l' = l + 1
  /\ LET ev == Tr[l] IN
     CASE ev.e = "Reset" -> ResetState
       [] ev.e = "Inv"   -> Inv(ev.a[1], ev.a[2], ev.a[3])
       [] ev.e = "Ret"   -> Ret(ev.a[1], ev.r[1])
       [] ev.e = "Write" -> Write(ev.a[1])
       [] ev.e = "Write2" -> Write2(ev.a[1])
       [] ev.e = "CloseCb" -> CloseCb
       [] ev.e = "Lost"  -> Lost(ev.a[1])
       [] OTHER -> FALSE
TraceSpec == TraceInit /\ [][TraceNext]_<<fvars, l>>
TraceAccepted == TLCGet("stats").diameter - 1 = Len(Tr)
=============================================================================
