---------------------------- MODULE LogThreadGen ----------------------------
(* Behaviour generator for the controlled harness: LogThread's own actions plus the schedule line of each
   step (which thread is granted the step; for the application thread between calls, which call it begins).
   Used with TLC -simulate for constants beyond the exhaustively covered graph.  The random gates below only
   shape the sampling (fewer control calls, fini mostly after some logging); they are not part of the oracle. *)
EXTENDS LogThread, Json, IOUtils
VARIABLES hist, done
Depth == atoi(IOEnv.DEPTH)
Rec(line) == hist' = Append(hist, line)
Sometimes(k) == RandomElement(1..k) = 1
GenStep ==
  \/ CallInit /\ Rec(<<"A", "Init">>)
  \/ CallStart /\ Rec(<<"A", "Start">>)
  \/ CallLog /\ Rec(<<"A", "Log", posted + 1>>)
  \/ CallLogSync /\ Rec(<<"A", "Log", posted + 1>>)
  \/ CallFini /\ (posted = NMsgs \/ Sometimes(6)) /\ Rec(<<"A", "Fini">>)
  \/ CtlEnable0 /\ Sometimes(5) /\ Rec(<<"A", "Enable", 0>>)
  \/ CtlEnable1 /\ (tstate # "enabled" \/ Sometimes(4)) /\ Rec(<<"A", "Enable", 1>>)
  \/ CtlConf /\ Sometimes(3) /\ Rec(<<"A", "Conf">>)
  \/ CtlThreaded0 /\ Sometimes(6) /\ Rec(<<"A", "SetThreaded", 0>>)
  \/ CtlThreaded1 /\ (~threaded \/ Sometimes(6)) /\ Rec(<<"A", "SetThreaded", 1>>)
  \/ CtlClose /\ Sometimes(12) /\ Rec(<<"A", "Close">>)
  \/ AStep /\ Rec(<<"A">>)
  \/ WNext /\ Rec(<<"W">>)
GenInit == Init /\ hist = <<>> /\ done = FALSE
GenNext == \/ /\ Len(hist) < Depth /\ ~done /\ UNCHANGED done /\ GenStep
           \/ /\ ~done /\ (Len(hist) = Depth \/ ~ENABLED Next) /\ done' = TRUE /\ UNCHANGED <<vars, hist>>
GenSpec == GenInit /\ [][GenNext]_<<vars, hist, done>>
Emit == done => PrintT("GEN " \o ToJson(hist))
=============================================================================
