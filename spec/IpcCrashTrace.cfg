CONSTANTS Roles = {0, 1, 2}  SlackMs = 1500  ImmediateMs = 500  RoundMs = 2000  MaxRounds = 2  MaxStale = 8
SPECIFICATION TraceSpec
INVARIANT TypeOK
INVARIANT CallbackSanity
POSTCONDITION TraceAccepted
CHECK_DEADLOCK FALSE
