----------------------------- MODULE IpcMsgGen -----------------------------
(* Behaviour generator (spec -> code): IpcMsg's own actions with the outcome a
   roomy connection would give (accept whenever the specification allows it,
   notification bytes always written), plus the history of the calls taken.
   Every history of length DEPTH is printed as JSON; vlib/checks/c02.py turns the
   per-dispatch events (SPoll, CbBegin .. CbEnd, DispEnd) into the harness's
   "Cb <ret> <nested calls>" lines + "SPoll".  The real run need not follow the
   model's predicted results: it is validated against IpcMsg by IpcMsgTrace.   *)
EXTENDS IpcMsg, Json, IOUtils
CONSTANTS GenLens, GenRates, GenFcMax     \* alphabets: message lengths, rate limits, client thresholds
VARIABLES hist, done
Depth == atoi(IOEnv.DEPTH)
gvars == <<vars, hist, done>>

LenTok(len) == IF len = MaxMsgMC THEN "M" ELSE IF len = MaxMsgMC + 1 THEN "M+1"
               ELSE IF len = MaxMsgMC - 1 THEN "M-1" ELSE ToString(len)
H(op) == hist' = Append(hist, op)
AppMay == disp = 0 \/ cur # <<>>      \* the single thread runs application code: outside the dispatch function or inside msg_process
RealClip == IF prio = 0 THEN 50 ELSE IF prio = 1 THEN 5 ELSE 1

CanSend(len) == len <= maxMsg /\ ~FcBlocks /\ Len(req) < Cap
GCSend == \E len \in GenLens : AppMay /\ Len(accReq) < MaxSends /\
            LET m == MsgFor(accReq, len) IN
            /\ CSend(m, IF CanSend(len) THEN len ELSE -11)
            /\ H(<<IF Len(accReq) % 2 = 0 THEN "CSend" ELSE "CSendv", LenTok(len)>>)
GCSendvRecv == \E len \in GenLens : AppMay /\ Len(accReq) < MaxSends /\
            LET m == MsgFor(accReq, len) IN
            /\ CSendvRecv(m, IF CanSend(len) /\ resp # <<>> THEN <<Head(resp)[2], Head(resp)>> ELSE <<-110>>)
            /\ (CanSend(len) => req' # req)
            /\ H(<<"CSendvRecv", LenTok(len)>>)
GCRecv   == AppMay /\ CRecv(IF resp # <<>> THEN <<Head(resp)[2], Head(resp)>> ELSE <<-110>>) /\ H(<<"CRecv">>)
GCEvRecv == AppMay /\ CEvRecv(IF evt # <<>> /\ ClientReadable THEN <<Head(evt)[2], Head(evt)>> ELSE <<-11>>) /\ H(<<"CEvRecv">>)
GCFcMax  == \E n \in GenFcMax : AppMay /\ CFcMax(n, IF n \in 0..2 THEN 0 ELSE -22) /\ H(<<"CFcMax", ToString(n)>>)
GSResp   == \E len \in GenLens : Len(accResp) < MaxSends /\
            LET m == MsgFor(accResp, len) IN
            /\ SResp(m, IF len <= maxMsg /\ Len(resp) < Cap THEN len ELSE -11)
            /\ H(<<IF Len(accResp) % 2 = 0 THEN "SResp" ELSE "SRespv", LenTok(len)>>)
GSEvent  == \E len \in GenLens : Len(accEvt) < MaxSends /\
            LET m == MsgFor(accEvt, len) IN
            /\ SEvent(m, IF len <= maxMsg /\ Len(evt) < Cap THEN len ELSE -11)
            /\ outstanding' = 0
            /\ H(<<IF Len(accEvt) % 2 = 0 THEN "SEvent" ELSE "SEventv", LenTok(len)>>)
GSRate   == \E rl \in GenRates : SRate(rl) /\ H(<<"SRate", ToString(rl)>>)
(* the loop calls the dispatch function when the descriptor is readable *)
GDispBegin == ServerReadable /\ DispBegin(POLLIN) /\ H(<<"SPoll">>)
GCbBegin   == fc = 0 /\ got < RealClip /\ req # <<>> /\ CbBegin(Head(req)) /\ H(<<"CbBegin">>)
GCbEnd     == cur # <<>> /\ \E ret \in {0, -105} : CbEnd(ret, cur[1]) /\ H(<<"CbEnd", ToString(ret)>>)
(* the dispatch function returns when nothing more is to be done *)
GDispEnd   == (fc # 0 \/ got >= RealClip \/ req = <<>>) /\ DispEnd(0) /\ H(<<"DispEnd">>)

GenInit == /\ \E s \in BOOLEAN : Fresh(s, MaxMsgMC) /\ hist = <<<<"Connect", IF s THEN "shm" ELSE "sock", "8192">>>>
           /\ done = FALSE
GenStep == GCSend \/ GCSendvRecv \/ GCRecv \/ GCEvRecv \/ GCFcMax \/ GSResp \/ GSEvent \/ GSRate
           \/ GDispBegin \/ GCbBegin \/ GCbEnd \/ GDispEnd
GenNext == \/ Len(hist) <= Depth /\ GenStep /\ UNCHANGED done
           \/ Len(hist) = Depth + 1 /\ ~done /\ done' = TRUE /\ UNCHANGED <<vars, hist>>
GenSpec == GenInit /\ [][GenNext]_gvars
Emit == done => PrintT("GEN " \o ToJson(hist))
=============================================================================
