----------------------------- MODULE LogFormat -----------------------------
(* Log line formatting (lib/log_format.c: qb_log_format_set,
   qb_log_target_format_static, qb_log_target_format, _strcpy_cutoff;
   lib/log.c: cs_format, qb_log_real_va_, QB_LOG_CONF_MAX_LINE_LEN/ELLIPSIS)
   -- property C13.

   Everything is written at TOKEN level.  A text is a run list
   << <<sym, count>>, ... >> (sym = byte value, count > 0, neighbouring runs
   differ), so a 4096 byte line costs a handful of tuples.  A format string is
   a sequence of tokens
       <<0, sym, n>>        n literal bytes `sym'
       <<c, minus, width>>  the directive  % [-] [width] c   (c = byte value
                            of the directive letter; any letter outside
                            n f l p t T b g N P H is "unknown", e.g. 37 "%%",
                            122 "%z"; c = 1 stands for a directive cut short
                            by the end of the string)
   One target is modelled: its line limit, ellipsis and extended options, the
   format it was given, and the "static" data (%N %H %P) seen when the format
   was set.  Every public call is one action Step(op, r): `r' is the observable
   result, and the action is enabled only for results the property admits
   (where the property leaves freedom, several results are admitted and the
   recorded one binds the choice).

   Reading decisions (property text is silent or ambiguous):
   * '-' flushes the text RIGHT (tests/check_log.c "%-15f"); a width chops
     from the right end of the text.
   * no text is prescribed for unknown / unfinished directives and for
     priorities above LOG_TRACE: only the bounds are required (Unspecified).
   * "truncated to the limit": the first limit-1 bytes of the complete text;
     when the cut falls inside a right-flushed padded field, the field
     re-fitted into the remaining room is admitted as well (Cuts).
   * the ellipsis marks a TRUNCATED line (its last three bytes become "...");
     a line that fits is not marked.  With fewer than three bytes of room
     nothing is prescribed beyond the bounds.
   * one trailing newline of a line / message that fits is dropped; when the
     cut leaves a newline at the end, dropping it is optional.
   * QB_LOG_CONF_MAX_LINE_LEN: values above 4096 must be refused; whatever is
     accepted must then be respected by every line (so accepting a value < 1
     cannot be right: LimitSane).                                            *)
EXTENDS Naturals, Integers, Sequences, FiniteSets, TLC

VARIABLES limit,   \* configured maximum line length of the target
          ell,     \* ellipsis option (0/1)
          ext,     \* extended-information option (0/1)
          fmt,     \* token sequence given to the last qb_log_format_set
          env,     \* <<nameLen, hostLen, <<pidDigit, pidCount>>>> seen by that call
          last     \* the last call and its result: <<"name", r>>

vars == <<limit, ell, ext, fmt, env, last>>

EINVAL == -22
SP == 32   NL == 10   DOT == 46   XC == 7   BAR == 124
AbsMax == 4096            \* QB_LOG_ABSOLUTE_MAX_LEN
DefaultLimit == 512       \* QB_LOG_MAX_LEN

-----------------------------------------------------------------------------
(* run lists                                                                *)
Rep(s, n) == IF n <= 0 THEN <<>> ELSE << <<s, n>> >>
RECURSIVE RLen(_)
RLen(t) == IF t = <<>> THEN 0 ELSE t[1][2] + RLen(Tail(t))
RCat(a, b) ==
  IF a = <<>> THEN b ELSE IF b = <<>> THEN a
  ELSE IF a[Len(a)][1] = b[1][1]
       THEN SubSeq(a, 1, Len(a) - 1) \o << <<b[1][1], a[Len(a)][2] + b[1][2]>> >> \o Tail(b)
       ELSE a \o b
RECURSIVE RTake(_, _)
RTake(t, k) == IF k <= 0 \/ t = <<>> THEN <<>>
               ELSE IF t[1][2] >= k THEN << <<t[1][1], k>> >>
               ELSE <<t[1]>> \o RTake(Tail(t), k - t[1][2])
RLastSym(t) == IF t = <<>> THEN -1 ELSE t[Len(t)][1]
RChop1(t) == IF t = <<>> THEN <<>>
             ELSE IF t[Len(t)][2] = 1 THEN SubSeq(t, 1, Len(t) - 1)
             ELSE SubSeq(t, 1, Len(t) - 1) \o << <<t[Len(t)][1], t[Len(t)][2] - 1>> >>
(* one trailing newline removed *)
Strip(t) == IF RLastSym(t) = NL THEN RChop1(t) ELSE t
RECURSIVE Str(_)
Str(codes) == IF codes = <<>> THEN <<>> ELSE RCat(Rep(codes[1], 1), Str(Tail(codes)))
(* byte at position p (1-based), -1 beyond the end *)
RECURSIVE RAt(_, _)
RAt(t, p) == IF t = <<>> \/ p <= 0 THEN -1 ELSE IF p <= t[1][2] THEN t[1][1] ELSE RAt(Tail(t), p - t[1][2])
Canonical(t) == /\ \A i \in 1..Len(t) : t[i][2] > 0
                /\ \A i \in 1..(Len(t) - 1) : t[i][1] # t[i + 1][1]

-----------------------------------------------------------------------------
(* field texts                                                              *)
PrioNames == <<
  <<101, 109, 101, 114, 103>>,           \* emerg
  <<97, 108, 101, 114, 116>>,            \* alert
  <<99, 114, 105, 116>>,                 \* crit
  <<101, 114, 114, 111, 114>>,           \* error
  <<119, 97, 114, 110, 105, 110, 103>>,  \* warning
  <<110, 111, 116, 105, 99, 101>>,       \* notice
  <<105, 110, 102, 111>>,                \* info
  <<100, 101, 98, 117, 103>>,            \* debug
  <<116, 114, 97, 99, 101>> >>           \* trace
MonthNames == <<
  <<74, 97, 110>>, <<70, 101, 98>>, <<77, 97, 114>>, <<65, 112, 114>>, <<77, 97, 121>>, <<74, 117, 110>>,
  <<74, 117, 108>>, <<65, 117, 103>>, <<83, 101, 112>>, <<79, 99, 116>>, <<78, 111, 118>>, <<68, 101, 99>> >>
D2(x) == RCat(Rep(48 + (x \div 10), 1), Rep(48 + (x % 10), 1))
D3(x) == RCat(Rep(48 + (x \div 100), 1), D2(x % 100))
RECURSIVE CatAll(_)
CatAll(ts) == IF ts = <<>> THEN <<>> ELSE RCat(ts[1], CatAll(Tail(ts)))
(* ts = <<month 1..12, day, hour, minute, second, millisecond>> : "Mon DD HH:MM:SS[.mmm]" *)
TimeTxt(ts, ms) ==
  CatAll(<<Str(MonthNames[ts[1]]), Rep(SP, 1), D2(ts[2]), Rep(SP, 1), D2(ts[3]), Rep(58, 1), D2(ts[4]),
           Rep(58, 1), D2(ts[5])>> \o (IF ms THEN <<Rep(DOT, 1), D3(ts[6])>> ELSE <<>>))

(* call-site data D = <<fnLen, fileLen, <<lineDigit, lineCount>>, priority, ts, tagsLen>>
   (tagsLen = -1: no tag stringifier installed) *)
KnownDirs == {110, 102, 108, 112, 116, 84, 98, 103, 78, 80, 72}   \* n f l p t T b g N P H
StaticDirs == {78, 80, 72}
IsLit(tok) == tok[1] = 0
FieldTxt(c, D, msg, e) ==
  CASE c = 110 -> Rep(110, D[1])
    [] c = 102 -> Rep(102, D[2])
    [] c = 108 -> Rep(48 + D[3][1], D[3][2])
    [] c = 112 -> IF D[4] \in 0..8 THEN Str(PrioNames[D[4] + 1]) ELSE <<>>
    [] c = 116 -> TimeTxt(D[5], FALSE)
    [] c = 84  -> TimeTxt(D[5], TRUE)
    [] c = 98  -> msg
    [] c = 103 -> Rep(103, D[6])
    [] c = 78  -> Rep(78, e[1])
    [] c = 72  -> Rep(72, e[2])
    [] c = 80  -> Rep(48 + e[3][1], e[3][2])
    [] OTHER   -> <<>>
(* "any number between % and character specify field length to pad or chop";
   with '-' the text is flushed right (tests/check_log.c: "%-15f") *)
PadChop(t, minus, w) ==
  IF w = 0 THEN t
  ELSE IF RLen(t) >= w THEN RTake(t, w)
  ELSE IF minus = 1 THEN RCat(Rep(SP, w - RLen(t)), t) ELSE RCat(t, Rep(SP, w - RLen(t)))
TokTxt(tok, D, msg, e) ==
  IF IsLit(tok) THEN Rep(tok[2], tok[3]) ELSE PadChop(FieldTxt(tok[1], D, msg, e), tok[2], tok[3])
RECURSIVE Full(_, _, _, _)
Full(f, D, msg, e) == IF f = <<>> THEN <<>> ELSE RCat(TokTxt(f[1], D, msg, e), Full(Tail(f), D, msg, e))

(* inputs for which the documentation prescribes no text: unknown or unfinished
   directives, a priority beyond LOG_TRACE.  Only the bounds are required there. *)
Unspecified(f, D) == \E i \in 1..Len(f) : ~IsLit(f[i]) /\
                        (f[i][1] \notin KnownDirs \/ (f[i][1] = 112 /\ D[4] \notin 0..8))

(* Where the line is cut inside a field, two texts are admitted: the padded /
   chopped field cut at the limit, or the field re-fitted into the room that is
   left ("pad/chop clamps to the remaining room").  They differ only for a
   right-flushed field that still has padding.                              *)
Refit(tok, D, msg, e, room) ==
  IF IsLit(tok) THEN Rep(tok[2], room) ELSE PadChop(FieldTxt(tok[1], D, msg, e), tok[2], room)
RECURSIVE CutRefit(_, _, _, _, _, _)
CutRefit(f, acc, D, msg, e, lim) ==
  IF f = <<>> THEN acc
  ELSE LET t == TokTxt(f[1], D, msg, e) IN
       IF RLen(acc) + RLen(t) > lim - 1 THEN RCat(acc, Refit(f[1], D, msg, e, lim - 1 - RLen(acc)))
       ELSE CutRefit(Tail(f), RCat(acc, t), D, msg, e, lim)
Cuts(f, D, msg, e, lim) == {RTake(Full(f, D, msg, e), lim - 1), CutRefit(f, <<>>, D, msg, e, lim)}

(* The line the property requires for format f, call data D, message msg:
   NUL inside the buffer (len = -1 records "no NUL in the first lim bytes"),
   length <= lim - 1; the complete text when it fits (minus one trailing
   newline), otherwise its first lim-1 bytes, the last three replaced by
   "..." with the ellipsis option.                                          *)
LineOK(f, D, msg, e, lim, el, len, runs) ==
  LET full == Full(f, D, msg, e) IN
  /\ lim >= 1
  /\ len >= 0 /\ len <= lim - 1
  /\ len = RLen(runs)
  /\ IF Unspecified(f, D) THEN TRUE
     ELSE IF RLen(full) <= lim - 1 THEN runs = Strip(full)
     ELSE IF el = 1 THEN (IF lim >= 4 THEN \E c \in Cuts(f, D, msg, e, lim) : runs = RCat(RTake(c, lim - 4), Rep(DOT, 3))
                          ELSE TRUE)
     ELSE \E c \in Cuts(f, D, msg, e, lim) : runs \in {c, Strip(c)}
(* one admissible line, for the model's own bookkeeping *)
ExpOut(full, lim, el) ==
  IF RLen(full) <= lim - 1 THEN Strip(full)
  ELSE IF el = 1 /\ lim >= 4 THEN RCat(RTake(full, lim - 4), Rep(DOT, 3))
  ELSE Strip(RTake(full, lim - 1))

-----------------------------------------------------------------------------
(* message expansion: M = <<kind, pre, xc, post, nl>>
   kind 0: the printf format is the text itself; 1: "%s" with the text as
   argument; 2: the first `pre' bytes come from "%*d" (pre-1 blanks and '7').
   text = pre bytes, [the extended-information marker], post bytes 'c', [newline] *)
MsgTxt(M) ==
  LET p == IF M[1] = 2 THEN (IF M[2] >= 1 THEN RCat(Rep(SP, M[2] - 1), Rep(55, 1)) ELSE <<>>) ELSE Rep(98, M[2])
  IN RCat(RCat(RCat(p, Rep(XC, M[3])), Rep(99, M[4])), Rep(NL, M[5]))
XcIdx(m) == IF \E i \in 1..Len(m) : m[i][1] = XC THEN CHOOSE i \in 1..Len(m) : m[i][1] = XC ELSE 0
(* <<delivered?, text the target's logger receives>> *)
Deliver(m, x) ==
  LET i == XcIdx(m) IN
  IF i = 0 THEN <<1, m>>
  ELSE IF i = 1 /\ x = 0 THEN <<0, <<>>>>
  ELSE IF x = 1 /\ i < Len(m) THEN <<1, RCat(RCat(SubSeq(m, 1, i - 1), Rep(BAR, 1)), SubSeq(m, i + 1, Len(m)))>>
  ELSE <<1, SubSeq(m, 1, i - 1)>>
(* texts the expansion may be cut to: the limit bounds it; one trailing newline goes *)
MsgCands(M, lim) ==
  LET full == MsgTxt(M) IN
  IF RLen(full) <= lim - 1 THEN {Strip(full)} ELSE {RTake(full, lim - 1), Strip(RTake(full, lim - 1))}

-----------------------------------------------------------------------------
DefaultFmt == << <<0, 91, 1>>, <<112, 0, 0>>, <<0, 93, 1>>, <<0, SP, 1>>, <<98, 0, 0>> >>   \* "[%p] %b"
Init == /\ limit = DefaultLimit /\ ell = 0 /\ ext = 1 /\ fmt = DefaultFmt
        /\ env = <<0, 0, <<1, 1>>>> /\ last = <<"Init", <<>>>>

(* qb_log_ctl(t, QB_LOG_CONF_MAX_LINE_LEN, n): more than the absolute maximum
   is refused; what is accepted becomes the limit every later line must respect *)
SetLimit(n, r) ==
  /\ r \in {<<0>>, <<EINVAL>>}
  /\ n > AbsMax => r = <<EINVAL>>
  /\ limit' = IF r = <<0>> THEN n ELSE limit
  /\ last' = <<"SetLimit", r>>
  /\ UNCHANGED <<ell, ext, fmt, env>>
SetEllipsis(b, r) == r = <<0>> /\ ell' = b /\ last' = <<"SetEllipsis", r>> /\ UNCHANGED <<limit, ext, fmt, env>>
SetExtended(b, r) == r = <<0>> /\ ext' = b /\ last' = <<"SetExtended", r>> /\ UNCHANGED <<limit, ell, fmt, env>>
(* qb_log_format_set(t, string of f) with name/hostname/pid e in force *)
SetFormat(f, e, r) == /\ r = <<>> /\ fmt' = f /\ env' = e /\ last' = <<"SetFormat", r>>
                      /\ UNCHANGED <<limit, ell, ext>>
SetFormatDefault(r) == /\ r = <<>> /\ fmt' = DefaultFmt /\ last' = <<"SetFormatDefault", r>>
                       /\ UNCHANGED <<limit, ell, ext, env>>
(* qb_log_target_format(t, cs(D), ts, msg, buffer of `limit' bytes): r = <<len, runs>> *)
Format(D, msg, r) ==
  /\ LineOK(fmt, D, msg, env, limit, ell, r[1], r[2])
  /\ last' = <<"Format", r>>
  /\ UNCHANGED <<limit, ell, ext, fmt, env>>
(* a log call (qb_log_from_external_source) whose format/arguments expand to M, call site D;
   r = <<delivered?, text received by the logger, len, runs of the line it formats>> *)
Log(D, M, r) ==
  /\ limit >= 1
  /\ \E m0 \in MsgCands(M, limit) :
        LET dv == Deliver(m0, ext) IN
        /\ r[1] = dv[1]
        /\ IF dv[1] = 0 THEN r = <<0, <<>>, 0, <<>>>>
           ELSE /\ r[2] = dv[2]
                /\ LineOK(fmt, D, dv[2], env, limit, ell, r[3], r[4])
  /\ last' = <<"Log", r>>
  /\ UNCHANGED <<limit, ell, ext, fmt, env>>

Step(op, r) ==
  CASE op[1] = "SetLimit"         -> SetLimit(op[2], r)
    [] op[1] = "SetEllipsis"      -> SetEllipsis(op[2], r)
    [] op[1] = "SetExtended"      -> SetExtended(op[2], r)
    [] op[1] = "SetFormat"        -> SetFormat(op[2], <<op[3], op[4], op[5]>>, r)
    [] op[1] = "SetFormatDefault" -> SetFormatDefault(r)
    [] op[1] = "Format"           -> Format(op[2], op[3], r)
    [] op[1] = "Log"              -> Log(op[2], op[3], r)
    [] OTHER                      -> FALSE    \* e.g. the harness event "Crash": no call may end that way

(* the result the model itself takes (one admissible result per call) *)
ModelRes(op) ==
  CASE op[1] = "SetLimit" -> IF op[2] > AbsMax \/ op[2] < 1 THEN <<EINVAL>> ELSE <<0>>
    [] op[1] \in {"SetEllipsis", "SetExtended"} -> <<0>>
    [] op[1] \in {"SetFormat", "SetFormatDefault"} -> <<>>
    [] op[1] = "Format" -> LET o == ExpOut(Full(fmt, op[2], op[3], env), limit, ell) IN <<RLen(o), o>>
    [] op[1] = "Log" ->
         LET full == MsgTxt(op[3])
             m0 == IF RLen(full) <= limit - 1 THEN Strip(full) ELSE Strip(RTake(full, limit - 1))
             dv == Deliver(m0, ext) IN
         IF dv[1] = 0 THEN <<0, <<>>, 0, <<>>>>
         ELSE LET o == ExpOut(Full(fmt, op[2], dv[2], env), limit, ell) IN <<1, dv[2], RLen(o), o>>

-----------------------------------------------------------------------------
(* The property over the abstract state.                                    *)
TypeOK == /\ limit \in Int /\ ell \in {0, 1} /\ ext \in {0, 1}
          /\ \A i \in 1..Len(fmt) : Len(fmt[i]) = 3
(* only limits under which a line can be terminated are ever in force *)
LimitSane == limit >= 1 /\ limit <= AbsMax
(* the line handed out is NUL terminated within the limit *)
LineBounded == last[1] = "Format" => last[2][1] <= limit - 1 /\ RLen(last[2][2]) = last[2][1]
LogBounded == last[1] = "Log" /\ last[2][1] = 1 => RLen(last[2][2]) <= limit - 1 /\ last[2][3] <= limit - 1
(* texts are kept in canonical run-length form (what the harness records) *)
LineCanonical == /\ last[1] = "Format" => Canonical(last[2][2])
                 /\ last[1] = "Log" => Canonical(last[2][2]) /\ Canonical(last[2][4])
(* the delivered message never carries the raw extended-information marker *)
NoRawMarker == last[1] = "Log" => XcIdx(last[2][2]) = 0
=============================================================================
