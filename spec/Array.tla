------------------------------- MODULE Array -------------------------------
(* qb_array (lib/array.c) -- property C19.
   Caller's view: indices 0..65535, an element address per index that never
   changes, disjoint element storage, zero-initialised elements, contents that
   survive growth, range errors as documented.  Locking discipline (what makes
   concurrent index/grow calls safe): the bin table is only read or replaced by
   the thread that holds the grow lock.  The hook events LOCKED / UNLOCK /
   TABLE_READ / TABLE_WRITE recorded from the real code are checked against
   that discipline on every execution, whatever the schedule was.            *)
EXTENDS Naturals, Integers, Sequences, FiniteSets, TLC

CONSTANTS MaxIdx     \* QB_ARRAY_MAX_ELEMENTS (65536)

VARIABLES created, elemSize, maxE, autogrow,
          addr,      \* [idx -> address id] for indices handed out so far
          content,   \* [idx -> value id] last value written (absent = never written)
          holder     \* thread holding the grow lock, 0 = none
vars == <<created, elemSize, maxE, autogrow, addr, content, holder>>

ERANGE == -34
EINVAL == -22

Init == created = FALSE /\ elemSize = 0 /\ maxE = 0 /\ autogrow = 0 /\ addr = <<>> /\ content = <<>> /\ holder = 0

Create(max, esize, ag) ==
  /\ ~created /\ created' = TRUE /\ elemSize' = esize /\ maxE' = max /\ autogrow' = ag
  /\ addr' = <<>> /\ content' = <<>> /\ holder' = 0

(* what qb_array_index must return: rc, and on success the element's address id `p`, the distance
   `dist` in bytes to the nearest other element handed out so far (0 = none), and its contents `val` *)
IndexRc(idx) ==
  IF idx < 0 \/ idx >= MaxIdx THEN "fail"
  ELSE IF idx >= maxE /\ autogrow = 0 THEN "range"
  ELSE "ok"
IndexOK(idx, rc, p, dist, val) ==
  CASE IndexRc(idx) = "fail"  -> rc # 0
    [] IndexRc(idx) = "range" -> rc = ERANGE
    [] IndexRc(idx) = "ok"    ->
         /\ rc = 0
         /\ IF idx \in DOMAIN addr THEN p = addr[idx]                               \* stable
            ELSE \A j \in DOMAIN addr : addr[j] # p                                 \* distinct indices, distinct storage
         /\ (dist = 0 \/ dist >= elemSize)                                          \* never overlapping
         /\ val = (IF idx \in DOMAIN content THEN content[idx] ELSE 0)              \* zero until written, kept afterwards
Ext(f, k, v) == [x \in DOMAIN f \cup {k} |-> IF x = k THEN v ELSE f[x]]
Index(idx, rc, p) ==
  /\ created /\ holder = 0
  /\ IF rc = 0 THEN /\ addr' = Ext(addr, idx, p)
                    /\ maxE' = IF idx >= maxE THEN idx + 1 ELSE maxE
               ELSE UNCHANGED <<addr, maxE>>
  /\ UNCHANGED <<created, elemSize, autogrow, content, holder>>

Write(idx, v) == /\ created /\ idx \in DOMAIN addr /\ content' = Ext(content, idx, v)
                 /\ UNCHANGED <<created, elemSize, maxE, autogrow, addr, holder>>

GrowOK(n, rc) == IF n > MaxIdx THEN rc = EINVAL ELSE rc = 0
Grow(n, rc) ==
  /\ created /\ holder = 0
  /\ maxE' = IF rc = 0 /\ n > maxE THEN n ELSE maxE
  /\ UNCHANGED <<created, elemSize, autogrow, addr, content, holder>>

(* locking discipline *)
HLocked(t)  == holder = 0 /\ holder' = t /\ UNCHANGED <<created, elemSize, maxE, autogrow, addr, content>>
HUnlock(t)  == holder = t /\ holder' = 0 /\ UNCHANGED <<created, elemSize, maxE, autogrow, addr, content>>
HTable(t)   == holder = t /\ UNCHANGED vars          \* table read or replaced: only by the lock holder

TypeOK == created \in BOOLEAN /\ holder \in Nat
Disjoint == \A i, j \in DOMAIN addr : i # j => addr[i] # addr[j]
=============================================================================
