------------------------------ MODULE LogRoute ------------------------------
(* Log routing (lib/log.c, lib/log_dcs.c, include/qb/qblog.h) -- property C12.

   "A log call is delivered to a target iff that target is enabled at the time
   of the call and the target's filters currently select the call site ...
   The outcome does not depend on whether the call site was first executed
   before or after the filter was added or the target was enabled, each
   selected target receives the message exactly once per call, and tag filters
   set the tag value reported with the message in the same way."

   The REQUIRED routing is the pure function Sel(rules[t], site) (and
   TagOf(tagRules, site)); it depends only on the attributes of the call site,
   never on when the call site was created.  The MECHANISM (what the anchored
   code keeps: a target bitmap and a tag word per call site, updated when
   filters change and filled in by replaying the stored rules when a call site
   is first seen) is modelled next to it, one action per public call, and the
   property is the set of invariants tying the two together.

   Text is a sequence of character codes (ASCII), so that exact match,
   comma-separated alternatives, substring and a POSIX-basic-regex subset are
   ordinary TLA+ definitions.  Targets are the dynamic slots 1..NT (slot s is
   libqb target s+3; the four static targets stay disabled and unobserved).

   Bugs = {} is the mechanism the property requires.  Bugs # {} switches on
   the deviations found in the unchanged tree (model-level reproducers only):
     "kf1" stored rules are replayed onto a new call site only for enabled targets
     "kf2" closing a target keeps its stored rules and call-site bits
     "kf3" REMOVE / TAG_CLEAR un-apply the removed rule's matches instead of
           re-evaluating the remaining rules
     "kf4" REMOVE / TAG_CLEAR of a regex rule do not touch existing call sites *)
EXTENDS Naturals, Integers, Sequences, FiniteSets, TLC

CONSTANTS NT,        \* number of dynamic target slots
          Sites,     \* call-site universe for exploration: <<file, func, line, prio, fmt>>
          Rules,     \* target filter universe: <<type, text, hi, lo>>
          TRules,    \* tag filter universe: <<type, text, hi, lo>>
          TagVals,   \* tag values (positive)
          MaxRules, MaxTag, MaxKnown,   \* exploration bounds
          Bugs

VARIABLES tstate,    \* [1..NT -> {S_UNUSED, S_DISABLED, S_ENABLED}]
          rules,     \* [1..NT -> Seq(rule)]  the target's filters (ADDed, not yet removed)
          tagRules,  \* Seq(<<rule, value>>)  the tag filters
          bits,      \* [known call sites -> SUBSET 1..NT]  mechanism: target bitmap
          tagv       \* [known call sites -> tag value]     mechanism: tag word

vars == <<tstate, rules, tagRules, bits, tagv>>

S_UNUSED == 1  S_DISABLED == 2  S_ENABLED == 3          \* enum qb_log_target_state
EBADF == -9  EEXIST == -17
T == 1..NT
Known == DOMAIN bits
Used(t) == t \in T /\ tstate[t] # S_UNUSED

(* ---- call-site and rule fields ---- *)
File(s) == s[1]  Func(s) == s[2]  Line(s) == s[3]  Prio(s) == s[4]  Fmt(s) == s[5]
Type(r) == r[1]  Text(r) == r[2]  Hi(r) == r[3]    Lo(r) == r[4]
TFILE == 0  TFUNC == 1  TFORMAT == 2  TFILE_RE == 3  TFUNC_RE == 4  TFORMAT_RE == 5
Comma == 44  StarC == 42  Dot == 46  Caret == 94  Dollar == 36
Star == <<StarC>>
IsRe(r) == Type(r) >= TFILE_RE

(* ---- text matching ---- *)
(* comma-separated alternatives *)
Tokens(txt) ==
  LET B == {0, Len(txt) + 1} \cup {i \in 1..Len(txt) : txt[i] = Comma} IN
  {SubSeq(txt, a + 1, b - 1) : <<a, b>> \in {p \in B \X B : p[1] < p[2] /\ \A c \in B : ~(p[1] < c /\ c < p[2])}}

Substr(p, s) == \E i \in 0..(Len(s) - Len(p)) : SubSeq(s, i + 1, i + Len(p)) = p

(* POSIX basic regular expressions, the subset: literal, '.', <atom>'*', leading '^', trailing '$' *)
AtomEq(a, c) == a = Dot \/ a = c
RECURSIVE MatchHere(_, _, _, _)
MatchHere(re, i, s, j) ==
  IF i > Len(re) THEN TRUE
  ELSE IF re[i] = Dollar /\ i = Len(re) THEN j > Len(s)
  ELSE IF i < Len(re) /\ re[i + 1] = StarC
    THEN \E k \in j..(Len(s) + 1) : (\A m \in j..(k - 1) : AtomEq(re[i], s[m])) /\ MatchHere(re, i + 2, s, k)
    ELSE j <= Len(s) /\ AtomEq(re[i], s[j]) /\ MatchHere(re, i + 1, s, j + 1)
ReMatch(re, s) ==
  IF Len(re) > 0 /\ re[1] = Caret THEN MatchHere(re, 2, s, 1)
  ELSE \E j \in 1..(Len(s) + 1) : MatchHere(re, 1, s, j)

(* "a filter selects by priority window plus exact file name, exact function name
   (comma-separated alternatives allowed), format substring, or the corresponding
   regular expression, and '*' selects everything" *)
Match(r, s) ==
  /\ Hi(r) <= Prio(s) /\ Prio(s) <= Lo(r)
  /\ IF Text(r) = Star THEN TRUE
     ELSE CASE Type(r) = TFILE      -> File(s) \in Tokens(Text(r))
            [] Type(r) = TFUNC      -> Func(s) \in Tokens(Text(r))
            [] Type(r) = TFORMAT    -> Substr(Text(r), Fmt(s))
            [] Type(r) = TFILE_RE   -> ReMatch(Text(r), File(s))
            [] Type(r) = TFUNC_RE   -> ReMatch(Text(r), Func(s))
            [] Type(r) = TFORMAT_RE -> ReMatch(Text(r), Fmt(s))
            [] OTHER -> FALSE

(* THE REQUIRED ROUTING: the target's filters select the call site *)
Sel(rs, s) == \E i \in 1..Len(rs) : Match(rs[i], s)
(* THE REQUIRED TAG: value of the most recently set tag filter selecting the call site, else 0 *)
TagOf(trs, s) ==
  LET M == {i \in 1..Len(trs) : Match(trs[i][1], s)} IN
  IF M = {} THEN 0 ELSE trs[CHOOSE i \in M : \A j \in M : j <= i][2]

Range(q) == {q[i] : i \in 1..Len(q)}
DelAt(q, k) == [i \in 1..(Len(q) - 1) |-> IF i < k THEN q[i] ELSE q[i + 1]]
(* which stored rule a REMOVE / TAG_CLEAR with parameters r takes out: the first one of the same
   type whose window lies inside r's and whose text is r's (or r's text is '*'); 0 = none *)
Covered(r, f) == Type(f) = Type(r) /\ Lo(f) <= Lo(r) /\ Hi(f) >= Hi(r) /\ (Text(f) = Text(r) \/ Text(r) = Star)
FirstCov(r, q) == LET C == {i \in 1..Len(q) : Covered(r, q[i])} IN
                  IF C = {} THEN 0 ELSE CHOOSE i \in C : \A j \in C : i <= j
RulesAfterRemove(t, r) == LET k == FirstCov(r, rules[t]) IN IF k = 0 THEN rules[t] ELSE DelAt(rules[t], k)
TagRulesAfterClear(r) == LET q == [i \in 1..Len(tagRules) |-> tagRules[i][1]] k == FirstCov(r, q) IN
                         IF k = 0 THEN tagRules ELSE DelAt(tagRules, k)
(* as-is: a regex REMOVE is applied to existing call sites without a compiled expression *)
MatchAsIs(r, s) == IF IsRe(r) /\ Text(r) # Star /\ "kf4" \in Bugs THEN FALSE ELSE Match(r, s)
AsIsRemove == Bugs \cap {"kf3", "kf4"} # {}

Init == /\ tstate = [t \in T |-> S_UNUSED] /\ rules = [t \in T |-> <<>>] /\ tagRules = <<>>
        /\ bits = <<>> /\ tagv = <<>>

(* bitmap a call site gets when it is first seen: the stored rules replayed *)
Replay(s) == {t \in T : (IF "kf1" \in Bugs THEN tstate[t] = S_ENABLED ELSE Used(t)) /\ Sel(rules[t], s)}
BitsOf(s) == IF s \in Known THEN bits[s] ELSE Replay(s)
(* a call site may pass a tag of its own (here: line numbers from 100 on stand for "own tag = line - 100"); that tag is
   what is reported, whatever the tag rules say and whenever they were added *)
OwnTag(s) == IF Line(s) >= 100 THEN Line(s) - 100 ELSE 0
TagSeen(s) == IF OwnTag(s) # 0 THEN OwnTag(s) ELSE IF s \in Known THEN tagv[s] ELSE TagOf(tagRules, s)
(* the targets whose logger callback runs for a log call from s *)
Delivery(s) == {t \in BitsOf(s) : tstate[t] = S_ENABLED}

-----------------------------------------------------------------------------
Open(t) == /\ t \in T /\ tstate[t] = S_UNUSED
           /\ tstate' = [tstate EXCEPT ![t] = S_DISABLED]
           /\ UNCHANGED <<rules, tagRules, bits, tagv>>

Close(t) ==
  IF Used(t)
    THEN /\ tstate' = [tstate EXCEPT ![t] = S_UNUSED]
         /\ IF "kf2" \in Bugs THEN UNCHANGED <<rules, bits>>
            ELSE /\ rules' = [rules EXCEPT ![t] = <<>>]
                 /\ bits' = [s \in Known |-> bits[s] \ {t}]
         /\ UNCHANGED <<tagRules, tagv>>
    ELSE UNCHANGED vars

SetState(t, st) == /\ IF Used(t) THEN tstate' = [tstate EXCEPT ![t] = st] ELSE UNCHANGED tstate
                   /\ UNCHANGED <<rules, tagRules, bits, tagv>>
Enable(t) == SetState(t, S_ENABLED)
Disable(t) == SetState(t, S_DISABLED)

Add(t, r) ==
  IF Used(t) /\ r \notin Range(rules[t])
    THEN /\ rules' = [rules EXCEPT ![t] = Append(@, r)]
         /\ bits' = [s \in Known |-> IF Match(r, s) THEN bits[s] \cup {t} ELSE bits[s]]
         /\ UNCHANGED <<tstate, tagRules, tagv>>
    ELSE UNCHANGED vars

Remove(t, r) ==
  IF Used(t)
    THEN LET r1 == RulesAfterRemove(t, r) IN
         /\ rules' = [rules EXCEPT ![t] = r1]
         /\ bits' = IF AsIsRemove
                      THEN [s \in Known |-> IF ~MatchAsIs(r, s) THEN bits[s]
                                            ELSE IF "kf3" \notin Bugs /\ Sel(r1, s) THEN bits[s] \cup {t} ELSE bits[s] \ {t}]
                      ELSE [s \in Known |-> IF Sel(r1, s) THEN bits[s] \cup {t} ELSE bits[s] \ {t}]
         /\ UNCHANGED <<tstate, tagRules, tagv>>
    ELSE UNCHANGED vars

ClearAll(t) ==
  IF Used(t)
    THEN /\ rules' = [rules EXCEPT ![t] = <<>>]
         /\ bits' = [s \in Known |-> bits[s] \ {t}]
         /\ UNCHANGED <<tstate, tagRules, tagv>>
    ELSE UNCHANGED vars

TagSet(v, r) ==
  IF <<r, v>> \notin Range(tagRules)
    THEN /\ tagRules' = Append(tagRules, <<r, v>>)
         /\ tagv' = [s \in Known |-> IF Match(r, s) THEN v ELSE tagv[s]]
         /\ UNCHANGED <<tstate, rules, bits>>
    ELSE UNCHANGED vars

TagClear(r) ==
  LET q1 == TagRulesAfterClear(r) IN
  /\ tagRules' = q1
  /\ tagv' = IF AsIsRemove
               THEN [s \in Known |-> IF ~MatchAsIs(r, s) THEN tagv[s]
                                     ELSE IF "kf3" \notin Bugs THEN TagOf(q1, s) ELSE 0]
               ELSE [s \in Known |-> TagOf(q1, s)]
  /\ UNCHANGED <<tstate, rules, bits>>

TagClearAll == /\ tagRules' = <<>> /\ tagv' = [s \in Known |-> 0] /\ UNCHANGED <<tstate, rules, bits>>

(* a log call: the first use creates the call site (stored rules replayed); delivery itself changes nothing *)
Log(s) ==
  /\ IF s \in Known THEN UNCHANGED <<bits, tagv>>
     ELSE /\ bits' = [x \in Known \cup {s} |-> IF x = s THEN Replay(s) ELSE bits[x]]
          /\ tagv' = [x \in Known \cup {s} |-> IF x = s THEN TagOf(tagRules, s) ELSE tagv[x]]
  /\ UNCHANGED <<tstate, rules, tagRules>>

-----------------------------------------------------------------------------
(* Uniform op interface (generator, trace specification).
   <<"Open", t>> <<"Close", t>> <<"Enable", t>> <<"Disable", t>> <<"ClearAll", t>>
   <<"Add", t, type, text, hi, lo>> <<"Remove", t, type, text, hi, lo>>
   <<"TagSet", v, type, text, hi, lo>> <<"TagClear", type, text, hi, lo>> <<"TagClearAll">>
   <<"Log", file, func, line, prio, fmt>>                                    *)
RuleAt(op, k) == <<op[k], op[k + 1], op[k + 2], op[k + 3]>>
SiteOf(op) == <<op[2], op[3], op[4], op[5], op[6]>>

Do(op) ==
  CASE op[1] = "Open"        -> Open(op[2])
    [] op[1] = "Close"       -> Close(op[2])
    [] op[1] = "Enable"      -> Enable(op[2])
    [] op[1] = "Disable"     -> Disable(op[2])
    [] op[1] = "Add"         -> Add(op[2], RuleAt(op, 3))
    [] op[1] = "Remove"      -> Remove(op[2], RuleAt(op, 3))
    [] op[1] = "ClearAll"    -> ClearAll(op[2])
    [] op[1] = "TagSet"      -> TagSet(op[2], RuleAt(op, 3))
    [] op[1] = "TagClear"    -> TagClear(RuleAt(op, 2))
    [] op[1] = "TagClearAll" -> TagClearAll
    [] op[1] = "Log"         -> Log(SiteOf(op))

Rc(t) == IF Used(t) THEN 0 ELSE EBADF

(* what the property requires of a log call's observable outcome r = << list of callback runs >>,
   one run = <<target, tag, file, func, line, prio, fmt, message>> : exactly the enabled targets whose
   filters select the call site, each exactly once (in any order), with the call site's own attributes,
   the tag the tag filters give it, and the message *)
LogOK(s, r) ==
  /\ Len(r) = 1
  /\ LET ds == r[1] D == Delivery(s) IN
     /\ Len(ds) = Cardinality(D)
     /\ {ds[i][1] : i \in 1..Len(ds)} = D
     /\ \A i \in 1..Len(ds) : ds[i] = <<ds[i][1], TagSeen(s), File(s), Func(s), Line(s), Prio(s), Fmt(s), Fmt(s)>>

(* is r an admissible result of op in the current state?  (return codes: 0 on success, -EBADF for a
   slot that is not open; the code for adding a rule that is already there is left open) *)
ResOK(op, r) ==
  CASE op[1] = "Open"        -> r = <<0>>
    [] op[1] = "Close"       -> r = <<>>
    [] op[1] \in {"Enable", "Disable", "Remove", "ClearAll"} -> r = <<Rc(op[2])>>
    [] op[1] = "Add"         -> IF Used(op[2]) /\ RuleAt(op, 3) \in Range(rules[op[2]])
                                  THEN Len(r) = 1 /\ r[1] \in {0, EEXIST} ELSE r = <<Rc(op[2])>>
    [] op[1] = "TagSet"      -> IF <<RuleAt(op, 3), op[2]>> \in Range(tagRules)
                                  THEN Len(r) = 1 /\ r[1] \in {0, EEXIST} ELSE r = <<0>>
    [] op[1] \in {"TagClear", "TagClearAll"} -> r = <<0>>
    [] op[1] = "Log"         -> LogOK(SiteOf(op), r)

-----------------------------------------------------------------------------
(* Triggers of the recorded findings, as predicates on (state, op).  `act` is the set of findings
   still present in the implementation under test; generators leave out exactly these steps.  *)
KFMatch(act, r, s) == IF IsRe(r) /\ Text(r) # Star /\ 4 \in act THEN FALSE ELSE Match(r, s)
KF1(op) == op[1] = "Log" /\ SiteOf(op) \notin Known
           /\ \E t \in T : tstate[t] = S_DISABLED /\ Sel(rules[t], SiteOf(op))
KF2(op) == op[1] = "Close" /\ Used(op[2]) /\ rules[op[2]] # <<>>
KF3(act, op) ==
  \/ /\ op[1] = "Remove" /\ Used(op[2])
     /\ \E s \in Known : KFMatch(act, RuleAt(op, 3), s) /\ Sel(RulesAfterRemove(op[2], RuleAt(op, 3)), s)
  \/ /\ op[1] = "TagClear"
     /\ \E s \in Known : KFMatch(act, RuleAt(op, 2), s) /\ TagOf(TagRulesAfterClear(RuleAt(op, 2)), s) # 0
KF4(op) ==
  \/ /\ op[1] = "Remove" /\ Used(op[2]) /\ IsRe(RuleAt(op, 3)) /\ Text(RuleAt(op, 3)) # Star
     /\ \E s \in Known : op[2] \in bits[s] /\ ~Sel(RulesAfterRemove(op[2], RuleAt(op, 3)), s)
  \/ /\ op[1] = "TagClear" /\ IsRe(RuleAt(op, 2)) /\ Text(RuleAt(op, 2)) # Star
     /\ \E s \in Known : tagv[s] # TagOf(TagRulesAfterClear(RuleAt(op, 2)), s)
KFTrigger(act, op) == \/ (1 \in act /\ KF1(op))
                      \/ (2 \in act /\ KF2(op))
                      \/ (3 \in act /\ KF3(act, op))
                      \/ (4 \in act /\ KF4(op))

-----------------------------------------------------------------------------
(* Exploration: one named action per public call. *)
AOpen        == \E t \in T : Open(t)
AClose       == \E t \in T : Close(t)
AEnable      == \E t \in T : Enable(t)
ADisable     == \E t \in T : Disable(t)
AAdd         == \E t \in T, r \in Rules : Len(rules[t]) < MaxRules /\ Add(t, r)
ARemove      == \E t \in T, r \in Rules : Remove(t, r)
AClearAll    == \E t \in T : ClearAll(t)
ATagSet      == \E v \in TagVals, r \in TRules : Len(tagRules) < MaxTag /\ TagSet(v, r)
ATagClear    == \E r \in TRules : TagClear(r)
ATagClearAll == TagClearAll
ALog         == \E s \in Sites : (s \in Known \/ Cardinality(Known) < MaxKnown) /\ Log(s)

(* the same calls as data (generator, as-is cross-check) *)
Ops == {<<o, t>> : o \in {"Open", "Close", "Enable", "Disable", "ClearAll"}, t \in T}
       \cup {<<o, t, r[1], r[2], r[3], r[4]>> : o \in {"Add", "Remove"}, t \in T, r \in Rules}
       \cup {<<"TagSet", v, r[1], r[2], r[3], r[4]>> : v \in TagVals, r \in TRules}
       \cup {<<"TagClear", r[1], r[2], r[3], r[4]>> : r \in TRules} \cup {<<"TagClearAll">>}
       \cup {<<"Log", s[1], s[2], s[3], s[4], s[5]>> : s \in Sites}
OpOK(op) == /\ (op[1] = "Open" => tstate[op[2]] = S_UNUSED)
            /\ (op[1] = "Add" => Len(rules[op[2]]) < MaxRules)
            /\ (op[1] = "TagSet" => Len(tagRules) < MaxTag)
            /\ (op[1] = "Log" => (SiteOf(op) \in Known \/ Cardinality(Known) < MaxKnown))

Next == AOpen \/ AClose \/ AEnable \/ ADisable \/ AAdd \/ ARemove \/ AClearAll
        \/ ATagSet \/ ATagClear \/ ATagClearAll \/ ALog
Spec == Init /\ [][Next]_vars

-----------------------------------------------------------------------------
(* The property. *)
TypeOK ==
  /\ tstate \in [T -> {S_UNUSED, S_DISABLED, S_ENABLED}]
  /\ \A t \in T : Len(rules[t]) <= MaxRules
  /\ Len(tagRules) <= MaxTag
  /\ DOMAIN tagv = Known
  /\ \A s \in Known : bits[s] \subseteq T

(* (file, line) -> function is functional, as in real C *)
ASSUME \A a, b \in Sites : File(a) = File(b) /\ Line(a) = Line(b) => Func(a) = Func(b)

(* "delivered to a target iff that target is enabled at the time of the call and the target's filters
   currently select the call site" -- for every call site, whether it was already executed (Known) or
   would be executed for the first time now *)
DeliveryIffSelected ==
  \A s \in Sites \cup Known : Delivery(s) = {t \in T : tstate[t] = S_ENABLED /\ Sel(rules[t], s)}

(* the mechanism state agrees with the required routing at all times, not only while enabled:
   "does not depend on whether the call site was first executed before or after the filter was added
   or the target was enabled" *)
Routing == \A s \in Known, t \in T : (t \in bits[s]) <=> (Used(t) /\ Sel(rules[t], s))

(* "tag filters set the tag value reported with the message in the same way" *)
TagRouting == \A s \in Sites \cup Known : TagSeen(s) = (IF OwnTag(s) # 0 THEN OwnTag(s) ELSE TagOf(tagRules, s))

(* order independence stated directly on twins: call sites with identical attributes (created at
   different points of the history, differing only in the line) are treated identically *)
SameAttrs(a, b) == File(a) = File(b) /\ Func(a) = Func(b) /\ Prio(a) = Prio(b) /\ Fmt(a) = Fmt(b) /\ OwnTag(a) = OwnTag(b)
Twins == \A a, b \in Sites \cup Known : SameAttrs(a, b) => Delivery(a) = Delivery(b) /\ TagSeen(a) = TagSeen(b)

(* a slot that is not open has no filters: a re-opened slot starts empty *)
UnusedClean == \A t \in T : tstate[t] = S_UNUSED => rules[t] = <<>> /\ \A s \in Known : t \notin bits[s]
=============================================================================
