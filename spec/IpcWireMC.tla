---------------------------- MODULE IpcWireMC ----------------------------
(* Design check of IpcWire.

   (1) The protocol machine: one raw peer and one well-behaved client over small
       universes (prefix lengths below / at / above the record size, id AUTH or
       not, writes in pieces, every callback and read-back the guards admit,
       candidate censuses equal and unequal to the baseline); the property's
       invariants are checked on every reachable state, and the environment can
       always finish a history (a peer can always leave, a census that equals the
       baseline is always admissible once everybody left).

   (2) The raw-request class product (transport x negotiated maximum x actual
       length x header length field at boundary values) against two class-level
       transcriptions of what the receive path does with one request:
         Impl = "asfound"  lib/ipc_socket.c:qb_ipc_us_recv_at_most + lib/ipcs.c:
                           _process_request_ as they are in the unchanged tree
         Impl = "checked"  the same with the bounds of proposed_fixes/C06-1..3
       An outcome is <<written, reported>>: how far into the connection's receive
       buffer the server writes, and the length it reports (-1: no callback).
       JudgeOK is M1/M2 of IpcWire on that outcome.  With Impl = "asfound"
       JudgeOK fails exactly on the recorded triggers KF1..KF3 (TriggersExact)
       (IpcWireMC.cfg leaves the triggered classes out through KFSkip;
       IpcWireMC_asfound.cfg does not and must yield the counterexample).                                *)
EXTENDS IpcWire
CONSTANTS Impl,     \* which transcription of the receive path is judged
          Big       \* the larger protocol universe (thorough tier)

U(x) == IF x < 0 THEN CAP ELSE x          \* an int32 converted to size_t

(* ---- the receive path, per request <<t, mx, actual, hsz>> ---- *)
AsFound(t, mx, actual, hsz) ==
  IF t = SHM
    THEN IF actual = 0 THEN <<0, -1>>                 \* qb_rb_chunk_peek: nothing there
         ELSE <<0, U(EffH(t, actual, hsz))>>          \* msg_process(c, hdr, hdr->size)
    ELSE LET peek == Min(actual, HS)                  \* recv(sock, buf, 16, MSG_PEEK)
             torecv == IF actual >= HS THEN U(hsz) ELSE 0
             got == Min(actual, torecv)               \* recv(sock, buf, to_recv, MSG_WAITALL) on a datagram
         IN IF got = 0 THEN <<peek, -1>>              \* "recv == 0 -> ENOTCONN"
            ELSE <<Max(peek, got), U(hsz)>>

Checked(t, mx, actual, hsz) ==
  IF t = SHM
    THEN IF actual = 0 THEN <<0, -1>>
         ELSE IF actual < HS \/ actual > mx \/ hsz < HS \/ hsz > actual THEN <<0, -1>>     \* refused: -EINVAL, disconnect
         ELSE <<0, hsz>>
    ELSE LET peek == Min(Min(actual, HS), mx)
             torecv == IF peek >= HS THEN (IF hsz < 0 \/ hsz > mx THEN mx ELSE hsz) ELSE 0
             got == Min(actual, torecv)
         IN IF got = 0 THEN <<peek, -1>>
            ELSE IF got < HS \/ hsz < HS \/ hsz > got THEN <<Max(peek, got), -1>>
            ELSE <<Max(peek, got), hsz>>

Outcome(c) == IF Impl = "asfound" THEN AsFound(c[1], c[2], c[3], c[4]) ELSE Checked(c[1], c[2], c[3], c[4])

MaxVals == {0, 1, 15, 16, 17, 100, 8192}
ActVals(mx) == {0, 1, 8, 9, 11, 12, 15, 16, 17, 24} \cup {x \in {mx - 1, mx, mx + 1, 2 * mx + 5} : x >= 0}
HszVals(mx, a) == {-2147483647, -1, 0, 1, 15, 16, 17, 256, 65536, 2147483647} \cup {x \in {a - 1, a, a + 1, mx, mx + 1} : x >= 0}
Requests == UNION { UNION { {<<t, mx, a, h>> : h \in HszVals(mx, a)} : a \in ActVals(mx)} : t \in {SOCK, SHM}, mx \in MaxVals}

VARIABLE judged       \* <<request, outcome>> of the request class judged last
mvars == <<vars, judged>>

(* the server never writes past the buffer (its size is the negotiated maximum), and what it reports is bounded *)
JudgeOK == judged # <<>> =>
             LET c == judged[1]  o == judged[2] IN
             /\ o[1] <= c[2]
             /\ o[2] = -1 \/ (o[2] >= 0 /\ o[2] <= Min(c[3], c[2]))
(* the triggers are exactly where the unchanged receive path breaks the property *)
TriggersExact == (Impl = "asfound" /\ judged # <<>>) =>
                   LET c == judged[1] IN
                   (KF1(c[1], c[2], c[3], c[4]) \/ KF2(c[1], c[2], c[3], c[4]) \/ KF3(c[1], c[2], c[3], c[4])) <=> ~JudgeOK
(* request classes under a recorded finding (KFSkip) are not judged *)
AJudge == judged = <<>> /\ ~up /\ peers = <<>> /\ \E c \in Requests : ~Skipped(c[1], c[2], c[3], c[4]) /\ judged' = <<c, Outcome(c)>> /\ UNCHANGED vars

(* ---- the protocol machine ---- *)
B0 == <<6, 1000, 0>>
Censuses == {B0, <<7, 1000, 0>>, <<6, 1040, 0>>, <<6, 1000, 1>>}
Raw == 1
Good == 2
AUp == judged = <<>> /\ UNCHANGED judged /\ \E t \in {SOCK, SHM} : Up(t, 0, B0)
AConnect == judged = <<>> /\ UNCHANGED judged /\
            \/ \E id \in {AUTH, 0}, total \in (IF Big THEN {10, RS, RS + 16} ELSE {10, RS}) : Connect(Raw, 0, id, RS, 100, total, 0)
            \/ Connect(Good, 1, AUTH, RS, 12328, RS, 0)
AWrite == judged = <<>> /\ UNCHANGED judged /\
          \E p \in DOMAIN peers : \E n \in {10, peers[p].total - peers[p].sent} :
             n > 0 /\ n <= peers[p].total - peers[p].sent /\ \E w \in {n, -32} : Write(p, n, w)
AClose == judged = <<>> /\ UNCHANGED judged /\ \E p \in DOMAIN peers : Close(p)
AResp == judged = <<>> /\ UNCHANGED judged /\ \E kind \in (IF Big THEN 0..3 ELSE 0..2), err \in {0, -13} : Resp(Raw, kind, err, 100, tr)
AAttach == judged = <<>> /\ UNCHANGED judged /\ \E rc \in {0, -22} : Attach(Raw, rc)
RawSends == IF Big THEN {<<16, 16>>, <<100, 16>>, <<16, 100>>, <<100, -1>>, <<101, 101>>, <<0, 0>>}
                   ELSE {<<16, 16>>, <<16, 100>>, <<100, -1>>, <<101, 101>>}
ASend == judged = <<>> /\ UNCHANGED judged /\
         \/ \E m \in RawSends, note \in {0, 1} : \E rc \in {m[1], -11} : Send(Raw, m[1], 5, m[2], note, rc)
         \/ Send(Good, 64, 5, 64, 1, 64)
AKick == judged = <<>> /\ UNCHANGED judged /\ Kick(Raw, 1)
AGCont == judged = <<>> /\ UNCHANGED judged /\ GCont(Good, 0, 12328)
AGRecv == judged = <<>> /\ UNCHANGED judged /\ GRecv(Good, RespLen)
AAccept == judged = <<>> /\ UNCHANGED judged /\ \E p \in DOMAIN peers : Accept(p)
ACreated == judged = <<>> /\ UNCHANGED judged /\ \E p \in DOMAIN peers : Created(p)
AMsg == judged = <<>> /\ UNCHANGED judged /\ \E p \in DOMAIN peers : peers[p].infl # <<>> /\
           \E size \in {16, peers[p].infl[1], peers[p].infl[1] + 1}, off \in {8} : Msg(p, size, off, 24576)
AMsgRead == judged = <<>> /\ UNCHANGED judged /\ reading # <<>> /\ \E nv \in {reading[2], reading[2] + 4} : MsgRead(reading[1], nv)
AClosed == judged = <<>> /\ UNCHANGED judged /\ \E p \in DOMAIN peers : Closed(p)
ADestroyed == judged = <<>> /\ UNCHANGED judged /\ \E p \in DOMAIN peers : Destroyed(p)
ACensus == judged = <<>> /\ UNCHANGED judged /\ \E c \in Censuses : Census(c)
AExit == judged = <<>> /\ UNCHANGED judged /\ Exit(0, 0)

Next == AUp \/ AConnect \/ AWrite \/ AClose \/ AResp \/ AAttach \/ ASend \/ AKick \/ AGCont \/ AGRecv
        \/ AAccept \/ ACreated \/ AMsg \/ AMsgRead \/ AClosed \/ ADestroyed \/ ACensus \/ AExit \/ AJudge
(* the request-class configurations explore the judgements only *)
JudgeOnly == ~up
MCInit == Init /\ judged = <<>>
Spec == MCInit /\ [][Next]_mvars

(* the environment is never stuck by the specification: while the server is alive a peer that exists can
   still leave, and once all have left (and the admitted connections were destroyed) the baseline census is admissible *)
CanFinish == Live /\ reading = <<>> =>
               /\ \A p \in DOMAIN peers : peers[p].open => ENABLED Close(p)
               /\ (AllGone /\ \A p \in DOMAIN peers : peers[p].acc => peers[p].gone) => ENABLED Census(base)
(* a census that differs from the baseline is never admissible once everybody left *)
LeakRefused == (Live /\ reading = <<>> /\ AllGone) => \A c \in Censuses : c # base => ~ENABLED Census(c)
=============================================================================
