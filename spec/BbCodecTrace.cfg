\* stand-alone trace validation (TRACE=<ndjson> in the environment).  vlib/checks/c14.py writes its own copy with
\* KF = the findings currently recorded as known; KF = {} is the full requirement.
CONSTANTS AsIs = {}  KF = {}  MaxTok = 0  Ms = {}  Ss = {}
CONSTANT Toks = {}
SPECIFICATION TraceSpec
POSTCONDITION TraceAccepted
CHECK_DEADLOCK FALSE
