---------------------------- MODULE IpcAdmitGen ----------------------------
(* Scenario generator for C05.  A scenario is a server (transport, umask,
   stepping policy of the harness) and 1..n clients that connect concurrently,
   each with its credentials, the way it changes them (cvar 0: real = effective =
   saved ids, 1: only the effective ids change), its kind (0: qb_ipcc_connect,
   1: speaks the handshake itself and then tries to push a request through
   whatever it can reach) and the accept callback's plan for it (return value,
   optional auth_set(uid, gid, mode)).
     op <<1, transport, umask, policy>>
     op <<2, k, uid, gid, cvar, kind, ret, has_aset, auid, agid, amode>>
   BFS mode (SIM = 0) enumerates every scenario of DEPTH-1 clients over the
   universes below (FULL = 1) or the two exhaustive families (FULL = 0):
     refusals: all credentials x all error values x both kinds x {no auth_set, one auth_set}
     accepts:  all credentials x every auth_set choice (qb_ipcc_connect clients)
   Simulation mode draws the fields at random (mixes of accepted and refused
   clients, 2..DEPTH-1 of them).
   KFSKIP = 1 excludes exactly the triggers of the recorded findings.        *)
EXTENDS IpcAdmit, Json, IOUtils
VARIABLES hist, done

GClients == 1..8
GUids  == {0, 1, 65534, 1000}
GGids  == {0, 1, 1000}
GModes == {384, 432, 416, 438, 288}     \* 0600 0660 0640 0666 0440
GErrs  == {-13, -1, -11, 1}             \* -EACCES -EPERM -EAGAIN, and a positive value
GAsets == {<<0, 0, 0, 0>>} \cup {<<1, u, g, m>> : u \in GUids, g \in GGids, m \in GModes}

Depth  == atoi(IOEnv.DEPTH)
Sim    == IOEnv.SIM = "1"
Full   == IOEnv.FULL = "1"
KfSkip == IOEnv.KFSKIP = "1"

(* triggers of the recorded findings, as predicates on a client op in a scenario of transport t *)
KF_RealIds(op)       == op[5] = 1 /\ (op[3] # 0 \/ op[4] # 0)                  \* effective ids differ from the real ids (server runs as 0:0)
KF_SockDirOwner(t, op) == t = 2 /\ op[7] = 0 /\ op[8] = 1 /\ <<op[9], op[10]>> # <<op[3], op[4]>>
KF_CreateMode(op)    == op[7] = 0 /\ op[8] = 1 /\ ~SubMode(OwnerOnly, op[11])
KF(t, op) == (IOEnv.KF1 = "1" /\ KF_RealIds(op)) \/ (IOEnv.KF2 = "1" /\ KF_SockDirOwner(t, op)) \/ (IOEnv.KF3 = "1" /\ KF_CreateMode(op))

Family(op) ==
  \/ Full
  \/ op[7] # 0 /\ (op[8] = 0 \/ <<op[9], op[10], op[11]>> = <<0, 0, 438>>)
  \/ op[7] = 0 /\ op[6] = 0 /\ op[5] = 0
  \/ op[7] = 0 /\ op[8] = 0

ClientOps(k) == {<<2, k, u, g, cv, kind, ret, a[1], a[2], a[3], a[4]>> :
                   u \in GUids, g \in GGids, cv \in {0, 1}, kind \in {0, 1}, ret \in {0} \cup GErrs, a \in GAsets}
Pick(S) == RandomElement(S)
RandomClient(k) ==
  LET a == IF Pick({0, 1}) = 0 THEN <<0, 0, 0, 0>> ELSE <<1, Pick(GUids), Pick(GGids), Pick(GModes)>>
      ret == IF Pick({0, 1, 2}) = 0 THEN Pick(GErrs) ELSE 0
  IN <<2, k, Pick(GUids), Pick(GGids), Pick({0, 0, 1}), IF ret = 0 THEN Pick({0, 0, 0, 1}) ELSE Pick({0, 1}), ret, a[1], a[2], a[3], a[4]>>

GenInit == Init /\ hist = <<>> /\ done = FALSE
T0 == hist[1][2]
AddClient(op) ==
  /\ (KfSkip => ~KF(T0, op))
  /\ Spawn(op[2], op[3], op[4])
  /\ hist' = Append(hist, op)
GenNext ==
  \/ /\ hist = <<>> /\ UNCHANGED done
     /\ \E t \in {1, 2}, p \in (IF Sim THEN {Pick(0..7)} ELSE {0}) :
          Server(t, 0, 0) /\ hist' = <<<<1, t, 0, p>>>>
  \/ /\ hist # <<>> /\ Len(hist) < Depth /\ ~done /\ UNCHANGED done
     /\ IF Sim THEN \E op \in {RandomClient(Len(hist)) : i \in 1..6} : AddClient(op)
               ELSE \E op \in ClientOps(Len(hist)) : Family(op) /\ AddClient(op)
  \/ /\ (Len(hist) = Depth \/ (Sim /\ Len(hist) >= 3 /\ Pick({0, 1, 2}) = 0)) /\ ~done
     /\ done' = TRUE /\ UNCHANGED <<vars, hist>>
     /\ PrintT("GEN " \o ToJson(hist))
GenSpec == GenInit /\ [][GenNext]_<<vars, hist, done>>
=============================================================================
