------------------------------ MODULE IpcMsgMC ------------------------------
(* Design check of IpcMsg: every reachable state of the bounded model.      *)
EXTENDS IpcMsg
=============================================================================
