\* the code as found (no repair), with exactly the triggers of findings 11, 12, 13 left out
CONSTANTS NMsgs = 3  Limit = 2  MaxInits = 2
CONSTANT Fixes = {}
CONSTANT Skip = {11, 12, 13}
SPECIFICATION Spec
INVARIANT TypeOK
INVARIANT InOrderOnce
INVARIANT AllWrittenAtFini
INVARIANT DroppedReported
INVARIANT NeverOverReported
INVARIANT LockLive
INVARIANT InLoggerSafe
INVARIANT NoEmptyDequeue
INVARIANT MemConsistent
INVARIANT StopPathOK
CHECK_DEADLOCK FALSE
