--------------------------- MODULE BbCodecTrace ---------------------------
(* Trace validation: the recorded calls of the real codec (harness/h_bbcodec.c) must be a
   behaviour of BbCodec: every Enc result obeys the record contract, the decoder reads exactly
   the record, the decoded text equals printf's text whenever it fits, the blackbox path prints
   it.  A tolerated known-finding outcome (-3, -4, -6) is accepted only under that finding's
   trigger predicate and only if the finding is listed in KF.                                *)
EXTENDS BbCodec, Json, IOUtils
Tr == ndJsonDeserialize(IOEnv.TRACE)
VARIABLE l
TraceInit == Init /\ l = 1
ResetState == vec' = <<>> /\ lens' = <<>> /\ encs' = <<>>
TDo(ev) ==
  LET a == ev.a  r == ev.r IN
  CASE ev.e = "Vec" -> VecOK(a, r[3], r[1], r[2]) /\ ~NullPrec(a) /\ Vec(a, r[3])
    [] ev.e = "Enc" -> /\ a[1] >= 1 /\ a[1] \notin DOMAIN encs
                       /\ IF r = <<-4>> THEN EncSkipOK(a[1]) /\ Enc(a[1], a[1])
                          ELSE EncOK(vec, a[1], r[1]) /\ Enc(a[1], r[1])
    [] ev.e = "Ext" -> ExtOK(a[1], r[1]) /\ UNCHANGED vars
    [] ev.e = "Dec" -> DecOK(a[1], a[2], r) /\ UNCHANGED vars
    [] ev.e = "Bb"  -> BbOK(r) /\ UNCHANGED vars
TraceNext ==
  /\ l <= Len(Tr) /\ l' = l + 1
  /\ IF Tr[l].e = "Reset" THEN ResetState ELSE TDo(Tr[l])
TraceSpec == TraceInit /\ [][TraceNext]_<<vars, l>>
TraceAccepted == TLCGet("stats").diameter - 1 = Len(Tr)
=============================================================================
