CONSTANTS Sizes = {}  Ticks = {}  MaxIdx = 0  MaxSplits = 0
SPECIFICATION TraceSpec
INVARIANT TypeOK
INVARIANT Ordered
INVARIANT Room
INVARIANT NewestReadable
POSTCONDITION TraceAccepted
CHECK_DEADLOCK FALSE
