CONSTANTS Sizes = {0, 1, 2, 3, 5}  Ticks = {1, 7, 1000, 999999}  MaxIdx = 8  MaxSplits = 12
SPECIFICATION GenSpec
CONSTRAINT Emit
CHECK_DEADLOCK FALSE
