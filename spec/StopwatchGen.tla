--------------------------- MODULE StopwatchGen ---------------------------
(* Behaviour generator: every history of Depth operations, printed as JSON. *)
EXTENDS Stopwatch, Json, IOUtils
VARIABLES hist, done
Depth == atoi(IOEnv.DEPTH)
GenInit == Init /\ hist = <<>> /\ done = FALSE
GenNext == \/ /\ Len(hist) < Depth /\ UNCHANGED done
              /\ \E op \in Ops : OpOK(op) /\ (op[1] = "Split" => N < MaxSplits) /\ Do(op) /\ hist' = Append(hist, op)
           \/ /\ Len(hist) = Depth /\ ~done /\ done' = TRUE /\ UNCHANGED <<vars, hist>>
GenSpec == GenInit /\ [][GenNext]_<<vars, hist, done>>
Emit == done => PrintT(<<"GEN", ToJson(hist)>>)
=============================================================================
