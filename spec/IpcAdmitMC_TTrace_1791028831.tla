---- MODULE IpcAdmitMC_TTrace_1791028831 ----
EXTENDS Sequences, TLCExt, Toolbox, Naturals, TLC, IpcAdmitMC

_expression ==
    LET IpcAdmitMC_TEExpression == INSTANCE IpcAdmitMC_TEExpression
    IN IpcAdmitMC_TEExpression!expression
----

_trace ==
    LET IpcAdmitMC_TETrace == INSTANCE IpcAdmitMC_TETrace
    IN IpcAdmitMC_TETrace!trace
----

_inv ==
    ~(
        TLCGet("level") = Len(_TETrace)
        /\
        res = ({<<1, 0, 0, 0, 504>>, <<1, 7, 0, 0, 384>>})
        /\
        pc = (<<5>>)
        /\
        srv = (<<0, 0>>)
        /\
        cl = (<<[st |-> "acc", cred |-> <<0, 0>>, dec |-> 0, msgs |-> 0, args |-> <<0, 0>>, auth |-> <<0, 0, 288>>, result |-> <<>>]>>)
        /\
        transport = (2)
        /\
        fs = (<<(1 :> 0 @@ 2 :> 0 @@ 3 :> 0 @@ 7 :> 1)>>)
    )
----

_init ==
    /\ srv = _TETrace[1].srv
    /\ cl = _TETrace[1].cl
    /\ pc = _TETrace[1].pc
    /\ res = _TETrace[1].res
    /\ fs = _TETrace[1].fs
    /\ transport = _TETrace[1].transport
----

_next ==
    /\ \E i,j \in DOMAIN _TETrace:
        /\ \/ /\ j = i + 1
              /\ i = TLCGet("level")
        /\ srv  = _TETrace[i].srv
        /\ srv' = _TETrace[j].srv
        /\ cl  = _TETrace[i].cl
        /\ cl' = _TETrace[j].cl
        /\ pc  = _TETrace[i].pc
        /\ pc' = _TETrace[j].pc
        /\ res  = _TETrace[i].res
        /\ res' = _TETrace[j].res
        /\ fs  = _TETrace[i].fs
        /\ fs' = _TETrace[j].fs
        /\ transport  = _TETrace[i].transport
        /\ transport' = _TETrace[j].transport

\* Uncomment the ASSUME below to write the states of the error trace
\* to the given file in Json format. Note that you can pass any tuple
\* to `JsonSerialize`. For example, a sub-sequence of _TETrace.
    \* ASSUME
    \*     LET J == INSTANCE Json
    \*         IN J!JsonSerialize("IpcAdmitMC_TTrace_1791028831.json", _TETrace)

=============================================================================

 Note that you can extract this module `IpcAdmitMC_TEExpression`
  to a dedicated file to reuse `expression` (the module in the 
  dedicated `IpcAdmitMC_TEExpression.tla` file takes precedence 
  over the module `IpcAdmitMC_TEExpression` below).

---- MODULE IpcAdmitMC_TEExpression ----
EXTENDS Sequences, TLCExt, Toolbox, Naturals, TLC, IpcAdmitMC

expression == 
    [
        \* To hide variables of the `IpcAdmitMC` spec from the error trace,
        \* remove the variables below.  The trace will be written in the order
        \* of the fields of this record.
        srv |-> srv
        ,cl |-> cl
        ,pc |-> pc
        ,res |-> res
        ,fs |-> fs
        ,transport |-> transport
        
        \* Put additional constant-, state-, and action-level expressions here:
        \* ,_stateNumber |-> _TEPosition
        \* ,_srvUnchanged |-> srv = srv'
        
        \* Format the `srv` variable as Json value.
        \* ,_srvJson |->
        \*     LET J == INSTANCE Json
        \*     IN J!ToJson(srv)
        
        \* Lastly, you may build expressions over arbitrary sets of states by
        \* leveraging the _TETrace operator.  For example, this is how to
        \* count the number of times a spec variable changed up to the current
        \* state in the trace.
        \* ,_srvModCount |->
        \*     LET F[s \in DOMAIN _TETrace] ==
        \*         IF s = 1 THEN 0
        \*         ELSE IF _TETrace[s].srv # _TETrace[s-1].srv
        \*             THEN 1 + F[s-1] ELSE F[s-1]
        \*     IN F[_TEPosition - 1]
    ]

=============================================================================



Parsing and semantic processing can take forever if the trace below is long.
 In this case, it is advised to uncomment the module below to deserialize the
 trace from a generated binary file.

\*
\*---- MODULE IpcAdmitMC_TETrace ----
\*EXTENDS IOUtils, TLC, IpcAdmitMC
\*
\*trace == IODeserialize("IpcAdmitMC_TTrace_1791028831.bin", TRUE)
\*
\*=============================================================================
\*

---- MODULE IpcAdmitMC_TETrace ----
EXTENDS TLC, IpcAdmitMC

trace == 
    <<
    ([res |-> {},pc |-> <<0>>,srv |-> <<0, 0>>,cl |-> <<[st |-> "idle", cred |-> <<0, 0>>, dec |-> 0, msgs |-> 0, args |-> <<>>, auth |-> <<0, 0, 384>>, result |-> <<>>]>>,transport |-> 0,fs |-> <<(1 :> 0 @@ 2 :> 0 @@ 3 :> 0 @@ 7 :> 0)>>]),
    ([res |-> {},pc |-> <<0>>,srv |-> <<0, 0>>,cl |-> <<[st |-> "idle", cred |-> <<0, 0>>, dec |-> 0, msgs |-> 0, args |-> <<>>, auth |-> <<0, 0, 384>>, result |-> <<>>]>>,transport |-> 2,fs |-> <<(1 :> 0 @@ 2 :> 0 @@ 3 :> 0 @@ 7 :> 0)>>]),
    ([res |-> {},pc |-> <<0>>,srv |-> <<0, 0>>,cl |-> <<[st |-> "conn", cred |-> <<0, 0>>, dec |-> 0, msgs |-> 0, args |-> <<>>, auth |-> <<0, 0, 384>>, result |-> <<>>]>>,transport |-> 2,fs |-> <<(1 :> 0 @@ 2 :> 0 @@ 3 :> 0 @@ 7 :> 0)>>]),
    ([res |-> {<<1, 0, 0, 0, 448>>},pc |-> <<1>>,srv |-> <<0, 0>>,cl |-> <<[st |-> "conn", cred |-> <<0, 0>>, dec |-> 0, msgs |-> 0, args |-> <<>>, auth |-> <<0, 0, 384>>, result |-> <<>>]>>,transport |-> 2,fs |-> <<(1 :> 0 @@ 2 :> 0 @@ 3 :> 0 @@ 7 :> 0)>>]),
    ([res |-> {<<1, 0, 0, 0, 504>>},pc |-> <<2>>,srv |-> <<0, 0>>,cl |-> <<[st |-> "conn", cred |-> <<0, 0>>, dec |-> 0, msgs |-> 0, args |-> <<>>, auth |-> <<0, 0, 384>>, result |-> <<>>]>>,transport |-> 2,fs |-> <<(1 :> 0 @@ 2 :> 0 @@ 3 :> 0 @@ 7 :> 0)>>]),
    ([res |-> {<<1, 0, 0, 0, 504>>},pc |-> <<3>>,srv |-> <<0, 0>>,cl |-> <<[st |-> "conn", cred |-> <<0, 0>>, dec |-> 0, msgs |-> 0, args |-> <<>>, auth |-> <<0, 0, 384>>, result |-> <<>>]>>,transport |-> 2,fs |-> <<(1 :> 0 @@ 2 :> 0 @@ 3 :> 0 @@ 7 :> 0)>>]),
    ([res |-> {<<1, 0, 0, 0, 504>>},pc |-> <<4>>,srv |-> <<0, 0>>,cl |-> <<[st |-> "acc", cred |-> <<0, 0>>, dec |-> 0, msgs |-> 0, args |-> <<0, 0>>, auth |-> <<0, 0, 288>>, result |-> <<>>]>>,transport |-> 2,fs |-> <<(1 :> 0 @@ 2 :> 0 @@ 3 :> 0 @@ 7 :> 0)>>]),
    ([res |-> {<<1, 0, 0, 0, 504>>},pc |-> <<5>>,srv |-> <<0, 0>>,cl |-> <<[st |-> "acc", cred |-> <<0, 0>>, dec |-> 0, msgs |-> 0, args |-> <<0, 0>>, auth |-> <<0, 0, 288>>, result |-> <<>>]>>,transport |-> 2,fs |-> <<(1 :> 0 @@ 2 :> 0 @@ 3 :> 0 @@ 7 :> 0)>>]),
    ([res |-> {<<1, 0, 0, 0, 504>>, <<1, 7, 0, 0, 384>>},pc |-> <<5>>,srv |-> <<0, 0>>,cl |-> <<[st |-> "acc", cred |-> <<0, 0>>, dec |-> 0, msgs |-> 0, args |-> <<0, 0>>, auth |-> <<0, 0, 288>>, result |-> <<>>]>>,transport |-> 2,fs |-> <<(1 :> 0 @@ 2 :> 0 @@ 3 :> 0 @@ 7 :> 1)>>])
    >>
----


=============================================================================

---- CONFIG IpcAdmitMC_TTrace_1791028831 ----
CONSTANTS
    Clients = { 1 }
    SrvUid = 0
    SrvGid = 0
    CreateAsFound = TRUE
    ShmFiles = { 1 , 2 , 3 }
    SockFiles = { 7 }
    Uids <- MCUids
    Gids <- MCGids
    Modes <- MCModes
    Errs <- MCErrs

INVARIANT
    _inv

CHECK_DEADLOCK
    \* CHECK_DEADLOCK off because of PROPERTY or INVARIANT above.
    FALSE

INIT
    _init

NEXT
    _next

CONSTANT
    _TETrace <- _trace

ALIAS
    _expression
=============================================================================
\* Generated on Sat Oct 03 12:00:32 UTC 2026