---------------------------- MODULE TimerHeapTrace ----------------------------
(* the real include/tlist.h heap must go through exactly the arrays the transcription predicts *)
EXTENDS TimerHeap, Json, IOUtils
Tr == ndJsonDeserialize(IOEnv.TRACE)
VARIABLE l
TraceInit == Init /\ l = 1
TDo(ev) ==
  /\ CASE ev.e = "Add" -> Add(ev.a[1]) /\ ev.r[1] = 0
       [] ev.e = "Del" -> Del(ev.a[1])
       [] ev.e = "Pop" -> Pop
  /\ heap' = ev.r[2]                \* the array after the call, entry by entry
  /\ ev.r[3] = 1                    \* timerlist_debug_is_valid_heap
TraceNext == /\ l <= Len(Tr) /\ l' = l + 1
             /\ IF Tr[l].e = "Reset" THEN heap' = <<>> /\ nextId' = 1 ELSE TDo(Tr[l])
TraceSpec == TraceInit /\ [][TraceNext]_<<vars, l>>
TraceAccepted == TLCGet("stats").diameter - 1 = Len(Tr)
=============================================================================
