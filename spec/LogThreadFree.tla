---------------------------- MODULE LogThreadFree ----------------------------
(* Property C16 at the level of calls, for FREE-RUNNING executions (no scheduler, real timing):
   what may be observed when one application thread logs to a threaded target while the logging
   thread writes.  Guards are the property, not the algorithm:
     - a message is written at most once, after its qb_log call began, and in the order logged;
     - when qb_log_fini returns, every message was written, except (a) messages whose call found
       the backlog over the limit -- as many of those as were not written must have been reported
       as lost -- and (b) messages pending when the target was disabled / un-threaded / closed;
     - nothing is written after qb_log_fini returned.
   The backlog a call finds is bounded from above by the bytes of all earlier messages not yet
   written (the logging thread un-accounts a record before it writes it), so "over the limit"
   is required of every dropped message, never of a written one.                              *)
EXTENDS Naturals, Integers, Sequences, FiniteSets, TLC
CONSTANT LimitBytes     \* 512000

VARIABLES enabled, threaded, started,   \* configuration as the calls made it
          called,        \* number of qb_log calls begun (ids 1..called)
          size,          \* bytes accounted for each message's record
          backlog,       \* bytes of messages logged and not yet written
          written,       \* ids written, in order of the writes
          mayDrop,       \* ids whose call may have found the backlog over the limit
          mdu,           \* how many of them are not written (kept as a counter: traces are long)
          opt,           \* ids the property no longer demands (control operation while pending)
          lostRep,       \* sum of the "N messages lost" reports
          cur,           \* call in progress, 0 = none
          fin,           \* qb_log_fini has returned
          second,        \* a second threaded target exists: 0 = no, k+1 = opened when k messages had been logged;
                         \* it is enabled and threaded from then on and selected by the same call sites
          written2,      \* ids written to it, in order of the writes
          closedCb       \* the target's close function has run (qb_log_custom_close): its logger is not called any more
fvars == <<enabled, threaded, started, called, size, backlog, written, mayDrop, mdu, opt, lostRep, cur, fin, second, written2, closedCb>>

OP_INIT == 1  OP_SETTHREADED == 2  OP_ENABLE == 3  OP_CONF == 4  OP_CLOSE == 5  OP_START == 6  OP_LOG == 7  OP_FINI == 8  OP_SECOND == 9
Range(s) == {s[i] : i \in DOMAIN s}
PendingF == (1..called) \ Range(written)

FInit == /\ enabled = FALSE /\ threaded = FALSE /\ started = FALSE /\ called = 0 /\ size = <<>> /\ backlog = 0
         /\ written = <<>> /\ mayDrop = {} /\ mdu = 0 /\ opt = {} /\ lostRep = 0 /\ cur = 0 /\ fin = FALSE
         /\ second = 0 /\ written2 = <<>> /\ closedCb = FALSE

Inv(op, arg, sz) ==
  /\ cur = 0 /\ cur' = op /\ ~fin
  /\ CASE op = OP_LOG ->
            /\ enabled /\ threaded /\ started /\ arg = called + 1
            /\ called' = arg /\ size' = Append(size, sz) /\ backlog' = backlog + sz
            /\ mayDrop' = IF backlog + sz > LimitBytes THEN mayDrop \cup {arg} ELSE mayDrop
            /\ mdu' = IF backlog + sz > LimitBytes THEN mdu + 1 ELSE mdu
            /\ UNCHANGED <<enabled, threaded, started, opt>>
       [] op = OP_ENABLE ->
            /\ enabled' = (arg = 1) /\ opt' = IF arg = 1 THEN opt ELSE opt \cup PendingF
            /\ UNCHANGED <<threaded, started, called, size, backlog, mayDrop, mdu>>
       [] op = OP_SETTHREADED ->
            /\ threaded' = (arg = 1) /\ opt' = IF arg = 1 THEN opt ELSE opt \cup PendingF
            /\ UNCHANGED <<enabled, started, called, size, backlog, mayDrop, mdu>>
       [] op = OP_CLOSE ->
            /\ enabled' = FALSE /\ opt' = opt \cup PendingF
            /\ UNCHANGED <<threaded, started, called, size, backlog, mayDrop, mdu>>
       [] op = OP_START ->
            /\ started' = TRUE /\ UNCHANGED <<enabled, threaded, called, size, backlog, mayDrop, mdu, opt>>
       [] op \in {OP_INIT, OP_CONF, OP_FINI, OP_SECOND} ->
            UNCHANGED <<enabled, threaded, started, called, size, backlog, mayDrop, mdu, opt>>
  /\ second' = IF op = OP_SECOND /\ second = 0 THEN called + 1 ELSE second
  /\ UNCHANGED <<written, lostRep, fin, written2, closedCb>>

Ret(op, rc) ==
  /\ cur = op /\ cur' = 0 /\ rc = 0
  /\ fin' = (op = OP_FINI)
  /\ UNCHANGED <<enabled, threaded, started, called, size, backlog, written, mayDrop, mdu, opt, lostRep, second, written2, closedCb>>

CloseCb ==
  /\ cur \in {OP_CLOSE, OP_FINI} /\ ~closedCb /\ closedCb' = TRUE       \* (qb_log_fini closes the targets that are still open)
  /\ UNCHANGED <<enabled, threaded, started, called, size, backlog, written, mayDrop, mdu, opt, lostRep, cur, fin, second, written2>>

Write(m) ==
  /\ ~fin /\ started /\ ~closedCb
  /\ m \in 1..called
  /\ (written # <<>> => m > written[Len(written)])
  /\ written' = Append(written, m) /\ backlog' = backlog - size[m]
  /\ mdu' = IF m \in mayDrop THEN mdu - 1 ELSE mdu
  /\ UNCHANGED <<enabled, threaded, started, called, size, mayDrop, opt, lostRep, cur, fin, second, written2, closedCb>>

(* the second target's logger is called with message m: at most once per message, in the order logged *)
Write2(m) ==
  /\ ~fin /\ started /\ second > 0
  /\ m \in 1..called
  /\ (written2 # <<>> => m > written2[Len(written2)])
  /\ written2' = Append(written2, m)
  /\ UNCHANGED <<enabled, threaded, started, called, size, backlog, written, mayDrop, mdu, opt, lostRep, cur, fin, second, closedCb>>

Lost(n) ==
  /\ ~fin /\ n > 0 /\ lostRep' = lostRep + n
  /\ UNCHANGED <<enabled, threaded, started, called, size, backlog, written, mayDrop, mdu, opt, cur, fin, second, written2, closedCb>>

Unwritten == (1..called) \ Range(written)
DeliveredAtFini ==
  fin => /\ Unwritten \subseteq (mayDrop \cup opt)
         /\ Cardinality(Unwritten \ opt) <= lostRep
(* every message logged since the second target exists reached it as well (it is never reconfigured) *)
Unwritten2 == IF second = 0 THEN {} ELSE (second..called) \ Range(written2)
DeliveredAtFini2 == fin => Unwritten2 \subseteq mayDrop /\ Cardinality(Unwritten2) <= lostRep
NeverOverReportedF == lostRep <= mdu
CounterOK == fin => mdu = Cardinality(mayDrop \ Range(written))
=============================================================================
