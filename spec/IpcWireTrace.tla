--------------------------- MODULE IpcWireTrace ---------------------------
(* Trace validation: the events recorded by harness/h_ipc_raw.c (the raw peers'
   steps, the well-behaved client's API results, the server's callbacks, the
   censuses and the fate of the server process) must be a behaviour of IpcWire.
   One step per event; Reset starts the next history.                         *)
EXTENDS IpcWire, Json, IOUtils
Tr == ndJsonDeserialize(IOEnv.TRACE)
VARIABLE l
TraceInit == Init /\ l = 1
ResetState == up' = FALSE /\ tr' = 0 /\ base' = <<>> /\ peers' = <<>> /\ reading' = <<>> /\ last' = <<>> /\ exited' = FALSE
TDo(ev) ==
  LET a == ev.a  r == ev.r IN
  CASE ev.e = "Up"        -> Up(a[1], a[2], r)
    [] ev.e = "Connect"   -> Connect(a[1], a[2], a[3], a[4], a[5], a[6], r[1])
    [] ev.e = "Write"     -> Write(a[1], a[2], r[1])
    [] ev.e = "HalfClose" -> HalfClose(a[1])
    [] ev.e = "Close"     -> Close(a[1])
    [] ev.e = "Resp"      -> Resp(a[1], r[1], r[2], r[3], r[4])
    [] ev.e = "Attach"    -> Attach(a[1], r[1])
    [] ev.e = "Send"      -> Send(a[1], a[3], a[4], a[5], a[6], r[1])
    [] ev.e = "Kick"      -> Kick(a[1], a[2])
    [] ev.e = "Rewrite"   -> Rewrite(a[1])
    [] ev.e = "GCont"     -> GCont(a[1], r[1], r[2])
    [] ev.e = "GRecv"     -> GRecv(a[1], r[1])
    [] ev.e = "Accept"    -> Accept(a[1])
    [] ev.e = "Created"   -> Created(a[1])
    [] ev.e = "Msg"       -> Msg(a[1], a[2], r[1], r[2])
    [] ev.e = "MsgRead"   -> MsgRead(a[1], r[1])
    [] ev.e = "Closed"    -> Closed(a[1])
    [] ev.e = "Destroyed" -> Destroyed(a[1])
    [] ev.e = "Census"    -> Census(r)
    [] ev.e = "Exit"      -> Exit(r[1], r[2])
TraceNext ==
  /\ l <= Len(Tr) /\ l' = l + 1
  /\ IF Tr[l].e = "Reset" THEN ResetState ELSE TDo(Tr[l])
TraceSpec == TraceInit /\ [][TraceNext]_<<vars, l>>
TraceAccepted == TLCGet("stats").diameter - 1 = Len(Tr)
=============================================================================
