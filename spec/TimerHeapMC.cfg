CONSTANTS Expiries = {1, 2, 3, 4}  MaxTimers = 7
SPECIFICATION Spec
CONSTRAINT Bound
INVARIANT HeapOrdered
INVARIANT HeadIsMin
INVARIANT IdsDistinct
CHECK_DEADLOCK FALSE
