CONSTANTS MaxIdx = 65536
SPECIFICATION TraceSpec
INVARIANT TypeOK
INVARIANT Disjoint
POSTCONDITION TraceAccepted
CHECK_DEADLOCK FALSE
