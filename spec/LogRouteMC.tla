----------------------------- MODULE LogRouteMC -----------------------------
(* Design check of LogRoute: universes from LogRouteU. *)
EXTENDS LogRoute, LogRouteU
NoBugs == {}
(* the configurations without tag filters explore the target-side calls only *)
NextTargets == AOpen \/ AClose \/ AEnable \/ ADisable \/ AAdd \/ ARemove \/ AClearAll \/ ALog
SpecTargets == Init /\ [][NextTargets]_vars
BugKF1 == {"kf1"}
BugKF2 == {"kf2"}
BugKF3 == {"kf3"}
BugKF4 == {"kf4"}
(* cross-check of the trigger predicates: the mechanism with ALL recorded deviations switched on, minus
   exactly the steps the triggers describe, still satisfies the property *)
BugAll == {"kf1", "kf2", "kf3", "kf4"}
NextAsIsSkip == \E op \in Ops : OpOK(op) /\ ~KFTrigger({1, 2, 3, 4}, op) /\ Do(op)
SpecAsIsSkip == Init /\ [][NextAsIsSkip]_vars
=============================================================================
