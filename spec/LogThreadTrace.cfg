\* trace validation against the code as found (the check generates the configuration for the repairs it detects)
CONSTANTS NMsgs = 100000  Limit = 2  MaxInits = 1000
CONSTANT Fixes = {}
CONSTANT Skip = {}
SPECIFICATION TraceSpec
INVARIANT InOrderOnce
INVARIANT AllWrittenAtFini
INVARIANT DroppedReported
INVARIANT NeverOverReported
INVARIANT LockLive
INVARIANT InLoggerSafe
INVARIANT NoEmptyDequeue
INVARIANT MemConsistent
INVARIANT StopPathOK
POSTCONDITION TraceAccepted
CHECK_DEADLOCK FALSE
