------------------------------ MODULE IpcLifeMC ------------------------------
(* Closed model for the design check of property C04: the connection life-cycle code of
   lib/ipcs.c / lib/ipc_setup.c transcribed procedure by procedure (handle_new_connection,
   qb_ipcs_disconnect, qb_ipcs_connection_unref, qb_ipcs_dispatch_connection_request, the retry job,
   qb_ipcs_destroy, list iteration, sends, rate limit), run against EVERY application that makes at
   most MaxBody API calls per callback and MaxTop moves from its main loop, with the property-level
   module IpcLife as a monitor:  each time control crosses the library/application boundary the
   corresponding IpcLife event is taken if its guard (EOK) holds, otherwise `viol` is raised.
   Freed-memory accesses -- what ASan reports on the harness -- are the flag fl.uaf; use of a
   transport that was already torn down is fl.tornUse.

   Fix  \subseteq {1,2,3,4,6,7}: which of the proposed repairs are applied (the unchanged tree is Fix = {}):
        1 disconnect of a SHUTTING_DOWN connection does nothing; 2 the dispatcher holds a reference;
        3 the dispatcher stops delivering after a disconnect; 4 sends / flow control skip a connection whose
        transport was torn down before it was established; 6 qb_ipcs_destroy walks the list holding references;
        7 the rate limit leaves connections alone whose descriptors are closed (SHUTTING_DOWN).
   Skip \subseteq {1,2,3,4,6,7}: application moves left out because they fall under a recorded finding
        (the same predicates as the harness's --kf-skip).                                            *)
EXTENDS IpcLife
CONSTANTS MaxConn, MaxBody, MaxTop, MaxRetry, MaxSvcRef, Fix, Skip

VARIABLES im,      \* implementation state: [nc, ist, rc, freed, torn, lst, jobsq, retries, cur, svcRc, svcFreed]
          ex,      \* control stack of the single thread: frames [p, c, pc, x, k, r, d]
          retv,    \* value returned by the callback that returned last
          budget,  \* main-loop moves left
          viol,    \* an event happened that IpcLife does not allow
          fl       \* [uaf, tornUse]

mvars == <<im, ex, retv, budget, viol, fl>>
C == 1..MaxConn
(* connection states of the code *)
INACTIVE == 0  ACTIVE == 1  ESTABLISHED == 2  SHUTTING_DOWN == 3

F(p, c, pc, x) == [p |-> p, c |-> c, pc |-> pc, x |-> x, k |-> 0, r |-> 0, d |-> 0]
CB(c, k, r)    == [p |-> "cb", c |-> c, pc |-> 0, x |-> 0, k |-> k, r |-> r, d |-> 0]
TopF == ex[Len(ex)]
Goto(pc) == ex' = [ex EXCEPT ![Len(ex)].pc = pc]
CallFrom(pc, f) == ex' = Append([ex EXCEPT ![Len(ex)].pc = pc], f)
Ret == ex' = SubSeq(ex, 1, Len(ex) - 1)
Mon(ok, do) == IF ok THEN do /\ viol' = viol ELSE viol' = TRUE /\ UNCHANGED vars
NoObs == UNCHANGED vars /\ viol' = viol
TouchC(S) == fl' = [fl EXCEPT !.uaf = @ \/ (\E c \in S : im.freed[c])]
NextIn(l, c) == IF \E i \in 1..Len(l) : l[i] = c
                  THEN LET i == CHOOSE j \in 1..Len(l) : l[j] = c IN IF i < Len(l) THEN l[i + 1] ELSE 0
                  ELSE 0
Without(l, c) == SelectSeq(l, LAMBDA y : y # c)
Has(S, k) == k \in S

MCInit ==
  /\ Init
  /\ im = [nc |-> 0, ist |-> [c \in C |-> INACTIVE], rc |-> [c \in C |-> 0], freed |-> [c \in C |-> FALSE],
           torn |-> [c \in C |-> FALSE], lst |-> <<>>, jobsq |-> <<>>, retries |-> [c \in C |-> 0], cur |-> 0,
           svcRc |-> 1, svcFreed |-> FALSE]
  /\ ex = <<>> /\ retv = 0 /\ budget = MaxTop /\ viol = FALSE /\ fl = [uaf |-> FALSE, tornUse |-> FALSE]

-----------------------------------------------------------------------------
(* the application: one API call, made from the main loop (base = <<>>) or from inside a callback *)
SvcHeld == ~svcD \/ svcApp > 0
DestroyOuter == \* during qb_ipcs_destroy: the connection whose callback is the outermost one
  IF \E i \in 1..Len(stack) : stack[i][1] = KSvcDestroy
    THEN LET i == CHOOSE j \in 1..Len(stack) : stack[j][1] = KSvcDestroy IN IF Len(stack) > i THEN stack[i + 1][2] ELSE 0
    ELSE -1
KfDisc(c) == \/ Has(Skip, 1) /\ conn[c].ncl > 0
             \/ (Has(Skip, 2) \/ Has(Skip, 3)) /\ Open(KMsg, c)
             \/ Has(Skip, 6) /\ DestroyOuter >= 0 /\ c # DestroyOuter
KfUnref(c) == Has(Skip, 6) /\ DestroyOuter >= 0 /\ c # DestroyOuter
KfDestroy == Has(Skip, 1) /\ \E c \in Ids : Live(c) /\ conn[c].ncl > 0

AppDisc(c, base) ==
  /\ Live(c) /\ ~KfDisc(c)
  /\ Mon(DisconnectOK(c), DisconnectDo(c))
  /\ ex' = Append(base, F("disc", c, 0, 1))
  /\ UNCHANGED <<im, fl, retv>>
AppRef(c, base) ==
  /\ Live(c)
  /\ im' = [im EXCEPT !.rc[c] = @ + 1] /\ TouchC({c})
  /\ Mon(RefOK(c), RefDo(c))
  /\ ex' = base /\ UNCHANGED retv
AppUnref(c, base) ==
  /\ Live(c) /\ conn[c].app > 0 /\ ~KfUnref(c)
  /\ Mon(UnrefOK(c), UnrefDo(c))
  /\ ex' = Append(base, F("unref", c, 0, 1))
  /\ UNCHANGED <<im, fl, retv>>
AppSend(c, base) ==
  /\ Live(c) /\ ~(Has(Skip, 4) /\ im.torn[c])
  /\ fl' = [fl EXCEPT !.uaf = @ \/ im.freed[c], !.tornUse = @ \/ (im.torn[c] /\ ~Has(Fix, 4))]
  /\ Mon(TouchOK(c), UNCHANGED vars)
  /\ ex' = base /\ UNCHANGED <<im, retv>>
AppIterFirst(base) ==
  /\ SvcHeld
  /\ LET r == IF im.lst = <<>> THEN 0 ELSE Head(im.lst) IN
     /\ im' = IF r = 0 THEN [im EXCEPT !.cur = 0] ELSE [im EXCEPT !.cur = r, !.rc[r] = @ + 1]
     /\ Mon(IterFirstOK(r), IterDo(r))
  /\ fl' = [fl EXCEPT !.uaf = @ \/ im.svcFreed]
  /\ ex' = base /\ UNCHANGED retv
AppIterNext(base) ==
  /\ SvcHeld /\ im.cur # 0 /\ Live(im.cur) /\ conn[im.cur].app > 0
  /\ LET r == NextIn(im.lst, im.cur) IN
     /\ im' = IF r = 0 THEN [im EXCEPT !.cur = 0] ELSE [im EXCEPT !.cur = r, !.rc[r] = @ + 1]
     /\ Mon(IterNextOK(im.cur, r), IterDo(r))
  /\ TouchC({im.cur})
  /\ ex' = base /\ UNCHANGED retv
AppRate(base) ==
  /\ SvcHeld /\ ~(Has(Skip, 4) /\ \E i \in 1..Len(im.lst) : im.torn[im.lst[i]])
  /\ ~(Has(Skip, 7) /\ \E c \in Ids : Live(c) /\ conn[c].ncl > 0)
  /\ fl' = [fl EXCEPT !.uaf = @ \/ im.svcFreed,
                      !.tornUse = @ \/ (~Has(Fix, 4) /\ \E i \in 1..Len(im.lst) : im.torn[im.lst[i]])
                                    \/ (~Has(Fix, 7) /\ \E i \in 1..Len(im.lst) : im.ist[im.lst[i]] = SHUTTING_DOWN)]
  /\ NoObs /\ ex' = base /\ UNCHANGED <<im, retv>>
AppSvcRef(base) ==     \* qb_ipcs_ref / qb_ipcs_unref of a reference taken that way
  /\ SvcHeld /\ svcApp < MaxSvcRef
  /\ im' = [im EXCEPT !.svcRc = @ + 1]
  /\ fl' = [fl EXCEPT !.uaf = @ \/ im.svcFreed]
  /\ Mon(TRUE, SvcRef) /\ ex' = base /\ UNCHANGED retv
AppSvcUnref(base) ==
  /\ svcApp > 0
  /\ im' = [im EXCEPT !.svcRc = @ - 1, !.svcFreed = (im.svcRc = 1)]
  /\ fl' = [fl EXCEPT !.uaf = @ \/ im.svcFreed]
  /\ Mon(TRUE, SvcUnref) /\ ex' = base /\ UNCHANGED retv
AppDestroy ==
  /\ ~svcD /\ ~KfDestroy
  /\ Mon(SvcDestroyOK, SvcDestroyDo)
  /\ ex' = <<F("destroy", 0, 0, 0)>>
  /\ UNCHANGED <<im, fl, retv>>

AppOp(base) ==
  \/ \E c \in C : AppDisc(c, base) \/ AppRef(c, base) \/ AppUnref(c, base) \/ AppSend(c, base)
  \/ AppIterFirst(base) \/ AppIterNext(base) \/ AppRate(base) \/ AppSvcRef(base) \/ AppSvcUnref(base)

-----------------------------------------------------------------------------
(* the main loop *)
AtTop == ex = <<>> /\ ~viol
TConnect ==     \* a client's connection request is dispatched
  /\ AtTop /\ budget > 0 /\ im.nc < MaxConn /\ ~svcD
  /\ budget' = budget - 1 /\ ex' = <<F("hnc", im.nc + 1, 0, 0)>>
  /\ UNCHANGED <<im, retv, fl>> /\ NoObs
TRequests ==    \* the descriptor of an established connection is ready: x requests queued, or x = 0: the peer is gone
  /\ AtTop /\ budget > 0
  /\ \E c \in C, x \in 0..2 : c <= im.nc /\ im.ist[c] = ESTABLISHED /\ ~im.freed[c] /\ ex' = <<F("disp", c, 0, x)>>
  /\ budget' = budget - 1 /\ UNCHANGED <<im, retv, fl>> /\ NoObs
TJob ==         \* a queued job runs
  /\ AtTop /\ im.jobsq # <<>>
  /\ ex' = <<F("job", Head(im.jobsq), 0, 0)>> /\ im' = [im EXCEPT !.jobsq = Tail(@)]
  /\ UNCHANGED <<retv, fl, budget>> /\ NoObs
TApp ==         \* the application calls the API from its main loop
  /\ AtTop /\ budget > 0 /\ budget' = budget - 1
  /\ (AppOp(<<>>) \/ AppDestroy)

-----------------------------------------------------------------------------
(* inside a callback: up to MaxBody API calls, then return *)
InCb == ex # <<>> /\ ~viol /\ TopF.p = "cb"
CbOp == /\ InCb /\ TopF.d < MaxBody
        /\ AppOp([ex EXCEPT ![Len(ex)].d = @ + 1])
        /\ UNCHANGED budget
CbRet == /\ InCb
         /\ Mon(EndOK(TopF.k), EndDo(TopF.k))
         /\ retv' = TopF.r /\ Ret /\ UNCHANGED <<im, fl, budget>>

-----------------------------------------------------------------------------
(* lib/ipc_setup.c: handle_new_connection (run from the descriptor callback process_auth) *)
At(p, pc) == ex # <<>> /\ ~viol /\ TopF.p = p /\ TopF.pc = pc
Hnc0 == /\ At("hnc", 0) /\ Mon(LoopOK, FdDo) /\ Goto(1) /\ UNCHANGED <<im, retv, fl, budget>>
Hnc1 == \* qb_ipcs_connection_alloc (initial reference, service reference), connection_accept
  /\ At("hnc", 1)
  /\ \E ret \in {0, 1} :
       /\ Mon(AcceptOK(TopF.c, ret), AcceptDo(TopF.c, ret))
       /\ CallFrom(2, CB(TopF.c, KAccept, ret))
  /\ im' = [im EXCEPT !.nc = @ + 1, !.rc[TopF.c] = 1, !.ist[TopF.c] = INACTIVE, !.svcRc = @ + 1]
  /\ fl' = [fl EXCEPT !.uaf = @ \/ im.svcFreed]
  /\ UNCHANGED <<retv, budget>>
Hnc2 == \* refused -> failure path; otherwise connect, list, send the response (may fail), created under a temporary reference
  /\ At("hnc", 2)
  /\ LET c == TopF.c IN
     IF retv # 0 THEN Goto(6) /\ NoObs /\ UNCHANGED im
     ELSE \E fail \in BOOLEAN :
            IF fail THEN /\ im' = [im EXCEPT !.ist[c] = ACTIVE, !.lst = <<c>> \o @]
                         /\ Goto(6) /\ NoObs
            ELSE /\ im' = [im EXCEPT !.ist[c] = ACTIVE, !.lst = <<c>> \o @, !.rc[c] = @ + 1]
                 /\ Mon(CreatedOK(c), CreatedDo(c))
                 /\ CallFrom(3, CB(c, KCreated, 0))
  /\ UNCHANGED <<retv, fl, budget>>
Hnc3 == \* created returned: ACTIVE -> ESTABLISHED, drop the temporary reference
  /\ At("hnc", 3)
  /\ LET c == TopF.c IN
     /\ im' = [im EXCEPT !.ist[c] = IF @ = ACTIVE THEN ESTABLISHED ELSE @]
     /\ TouchC({c})
     /\ CallFrom(4, F("unref", c, 0, 0))
  /\ NoObs /\ UNCHANGED <<retv, budget>>
Hnc4 == /\ At("hnc", 4) /\ Mon(EndOK(KFd), EndDo(KFd)) /\ Ret /\ UNCHANGED <<im, retv, fl, budget>>
Hnc6 == \* failure: INACTIVE -> drop the initial reference; otherwise disconnect
  /\ At("hnc", 6)
  /\ LET c == TopF.c IN
     /\ TouchC({c})
     /\ IF im.ist[c] = INACTIVE THEN CallFrom(4, F("unref", c, 0, 0)) ELSE CallFrom(4, F("disc", c, 0, 0))
  /\ NoObs /\ UNCHANGED <<im, retv, budget>>

(* lib/ipcs.c: qb_ipcs_disconnect.  x = 1: called by the application, x = 2: the re-run job, x = 0: library internal *)
RetChoices(c) == IF im.retries[c] < MaxRetry THEN {0, 1} ELSE {0}
Disc0 ==
  /\ At("disc", 0)
  /\ LET c == TopF.c  st == im.ist[TopF.c] IN
     /\ TouchC({c})
     /\ IF im.freed[c] THEN Goto(9) /\ NoObs /\ UNCHANGED im
        ELSE IF st = ACTIVE
          THEN /\ im' = [im EXCEPT !.ist[c] = INACTIVE, !.torn[c] = TRUE]      \* transport torn down, initial reference dropped
               /\ CallFrom(9, F("unref", c, 0, 0)) /\ NoObs
        ELSE IF st = ESTABLISHED \/ (st = SHUTTING_DOWN /\ (~Has(Fix, 1) \/ TopF.x = 2))
          THEN \E ret \in RetChoices(c) :
                 /\ im' = [im EXCEPT !.ist[c] = SHUTTING_DOWN, !.retries[c] = IF ret # 0 THEN @ + 1 ELSE @]
                 /\ Mon(ClosedOK(c), ClosedDo(c, ret))
                 /\ CallFrom(2, CB(c, KClosed, ret))
        ELSE Goto(9) /\ NoObs /\ UNCHANGED im
  /\ UNCHANGED <<retv, budget>>
Disc2 == \* connection_closed returned: non-zero -> queue the re-run and keep the reference, else drop the initial reference
  /\ At("disc", 2)
  /\ LET c == TopF.c IN
     /\ TouchC({c})                            \* remove_tempdir(c->description)
     /\ IF retv # 0 THEN im' = [im EXCEPT !.jobsq = Append(@, c)] /\ Goto(9)
        ELSE UNCHANGED im /\ CallFrom(9, F("unref", c, 0, 0))
  /\ NoObs /\ UNCHANGED <<retv, budget>>
Disc9 == /\ At("disc", 9)
         /\ IF TopF.x = 1 THEN Mon(EndOK(KDisc), EndDo(KDisc)) ELSE NoObs
         /\ Ret /\ UNCHANGED <<im, retv, fl, budget>>

(* lib/ipcs.c: qb_ipcs_connection_unref.  x = 1: called by the application *)
Unref0 ==
  /\ At("unref", 0)
  /\ LET c == TopF.c IN
     IF im.freed[c] \/ im.rc[c] < 1 THEN fl' = [fl EXCEPT !.uaf = TRUE] /\ Goto(9) /\ NoObs /\ UNCHANGED im
     ELSE /\ fl' = fl
          /\ IF im.rc[c] = 1
               THEN /\ im' = [im EXCEPT !.rc[c] = 0, !.lst = Without(@, c)]
                    /\ Mon(DestroyedOK(c), DestroyedDo(c))
                    /\ CallFrom(1, CB(c, KDestroyed, 0))
               ELSE im' = [im EXCEPT !.rc[c] = @ - 1] /\ Goto(9) /\ NoObs
  /\ UNCHANGED <<retv, budget>>
Unref1 == \* connection_destroyed returned: transport disconnect, service reference, free
  /\ At("unref", 1)
  /\ LET c == TopF.c IN
     /\ im' = [im EXCEPT !.freed[c] = TRUE, !.svcRc = @ - 1, !.svcFreed = (im.svcRc = 1)]
     /\ fl' = [fl EXCEPT !.uaf = @ \/ im.svcFreed]
  /\ Goto(9) /\ NoObs /\ UNCHANGED <<retv, budget>>
Unref9 == /\ At("unref", 9)
          /\ IF TopF.x = 1 THEN Mon(EndOK(KUnref), EndDo(KUnref)) ELSE NoObs
          /\ Ret /\ UNCHANGED <<im, retv, fl, budget>>

(* lib/ipcs.c: qb_ipcs_dispatch_connection_request.  x = requests still queued (0 on entry: the peer is gone) *)
Disp0 ==
  /\ At("disp", 0)
  /\ LET c == TopF.c IN
     /\ Mon(LoopOK, FdDo) /\ TouchC({c})
     /\ im' = IF Has(Fix, 2) THEN [im EXCEPT !.rc[c] = @ + 1] ELSE im
     /\ IF TopF.x = 0 THEN CallFrom(8, F("disc", c, 0, 0)) ELSE Goto(1)
  /\ UNCHANGED <<retv, budget>>
Disp1 == \* _process_request_: msg_process
  /\ At("disp", 1)
  /\ LET c == TopF.c IN
     /\ TouchC({c}) /\ Mon(MsgOK(c), MsgDo(c))
     /\ ex' = Append([ex EXCEPT ![Len(ex)].pc = 2, ![Len(ex)].x = @ - 1], CB(c, KMsg, 0))
  /\ UNCHANGED <<im, retv, budget>>
Disp2 == \* reclaim, loop condition
  /\ At("disp", 2)
  /\ LET c == TopF.c IN
     /\ TouchC({c})
     /\ IF TopF.x > 0 /\ (~Has(Fix, 3) \/ im.ist[c] = ESTABLISHED) THEN Goto(1) ELSE Goto(3)
  /\ NoObs /\ UNCHANGED <<im, retv, budget>>
Disp3 == \* after the loop: the set-up socket is gone if the connection was disconnected meanwhile -> disconnect (again)
  /\ At("disp", 3)
  /\ LET c == TopF.c IN
     /\ TouchC({c})
     /\ IF ~im.freed[c] /\ im.ist[c] # ESTABLISHED THEN CallFrom(8, F("disc", c, 0, 0)) ELSE Goto(8)
  /\ NoObs /\ UNCHANGED <<im, retv, budget>>
Disp8 == /\ At("disp", 8)
         /\ IF Has(Fix, 2) THEN CallFrom(9, F("unref", TopF.c, 0, 0)) ELSE Goto(9)
         /\ NoObs /\ UNCHANGED <<im, retv, fl, budget>>
Disp9 == /\ At("disp", 9) /\ Mon(EndOK(KFd), EndDo(KFd)) /\ Ret /\ UNCHANGED <<im, retv, fl, budget>>

(* the job queued by qb_ipcs_disconnect when connection_closed returned non-zero *)
Job0 == /\ At("job", 0) /\ Mon(LoopOK, JobDo(TopF.c))
        /\ CallFrom(9, F("disc", TopF.c, 0, 2)) /\ UNCHANGED <<im, retv, fl, budget>>
Job9 == /\ At("job", 9) /\ Mon(EndOK(KJob), EndDo(KJob)) /\ Ret /\ UNCHANGED <<im, retv, fl, budget>>

(* lib/ipcs.c: qb_ipcs_destroy.  c = current list position, x = the saved next position *)
Des0 ==
  /\ At("destroy", 0)
  /\ IF im.lst = <<>> THEN Goto(8) /\ UNCHANGED im
     ELSE LET h == Head(im.lst) IN
          IF Has(Fix, 6)
            THEN /\ im' = [im EXCEPT !.rc[h] = @ + 1]
                 /\ ex' = [ex EXCEPT ![Len(ex)].pc = 1, ![Len(ex)].c = h]
            ELSE /\ UNCHANGED im
                 /\ ex' = [ex EXCEPT ![Len(ex)].pc = 1, ![Len(ex)].c = h, ![Len(ex)].x = NextIn(im.lst, h)]
  /\ NoObs /\ UNCHANGED <<retv, fl, budget>>
Des1 ==
  /\ At("destroy", 1)
  /\ IF Has(Fix, 6)
       THEN LET n == NextIn(im.lst, TopF.c) IN
            /\ im' = IF n = 0 THEN im ELSE [im EXCEPT !.rc[n] = @ + 1]
            /\ ex' = Append([ex EXCEPT ![Len(ex)].pc = 2, ![Len(ex)].x = n], F("disc", TopF.c, 0, 0))
       ELSE UNCHANGED im /\ CallFrom(2, F("disc", TopF.c, 0, 0))
  /\ NoObs /\ UNCHANGED <<retv, fl, budget>>
Des2 ==
  /\ At("destroy", 2)
  /\ IF Has(Fix, 6) THEN CallFrom(3, F("unref", TopF.c, 0, 0)) /\ UNCHANGED fl
     ELSE IF TopF.x = 0 THEN Goto(8) /\ UNCHANGED fl
     ELSE /\ TouchC({TopF.x})                                  \* n->next is read from the saved position
          /\ ex' = [ex EXCEPT ![Len(ex)].pc = 1, ![Len(ex)].c = TopF.x, ![Len(ex)].x = NextIn(im.lst, TopF.x)]
  /\ NoObs /\ UNCHANGED <<im, retv, budget>>
Des3 ==
  /\ At("destroy", 3)
  /\ IF TopF.x = 0 THEN Goto(8) ELSE ex' = [ex EXCEPT ![Len(ex)].pc = 1, ![Len(ex)].c = TopF.x, ![Len(ex)].x = 0]
  /\ NoObs /\ UNCHANGED <<im, retv, fl, budget>>
Des8 == \* withdraw the listening socket, drop the creator's reference
  /\ At("destroy", 8)
  /\ im' = [im EXCEPT !.svcRc = @ - 1, !.svcFreed = (im.svcRc = 1)]
  /\ Goto(9) /\ NoObs /\ UNCHANGED <<retv, fl, budget>>
Des9 == /\ At("destroy", 9) /\ Mon(EndOK(KSvcDestroy), EndDo(KSvcDestroy)) /\ Ret /\ UNCHANGED <<im, retv, fl, budget>>

-----------------------------------------------------------------------------
MCNext == \/ TConnect \/ TRequests \/ TJob \/ TApp \/ CbOp \/ CbRet
          \/ Hnc0 \/ Hnc1 \/ Hnc2 \/ Hnc3 \/ Hnc4 \/ Hnc6
          \/ Disc0 \/ Disc2 \/ Disc9 \/ Unref0 \/ Unref1 \/ Unref9
          \/ Disp0 \/ Disp1 \/ Disp2 \/ Disp3 \/ Disp8 \/ Disp9 \/ Job0 \/ Job9
          \/ Des0 \/ Des1 \/ Des2 \/ Des3 \/ Des8 \/ Des9
MCSpec == MCInit /\ [][MCNext]_<<vars, mvars>>

(* the monitor never objects; nothing freed is touched; no transport is used after its tear-down *)
Conforms == ~viol
NoUseAfterFree == ~fl.uaf
NoTornUse == ~fl.tornUse
(* the code's reference count is the library's plus the application's references whenever control is in the main loop
   (the dispatcher's own temporary reference of repair 2 is dropped before it returns) *)
RcAgrees == (ex = <<>> /\ ~viol) => \A c \in Ids : Live(c) => im.rc[c] = conn[c].lib + conn[c].app
(* the service object goes exactly when its creator and every connection have let go *)
SvcLifetime == (ex = <<>> /\ ~viol) => (im.svcFreed <=> (svcD /\ svcApp = 0 /\ \A c \in Ids : ~Live(c)))
=============================================================================
