CONSTANTS KFSkip = {"KF1", "KF2", "KF3"}  MaxFoot = 2000  MaxLog = 3  DevMC = 2
SPECIFICATION Spec
INVARIANT TypeOK
INVARIANT DumpIsSnapshot
INVARIANT NoCrashNoLeftover
INVARIANT RoundTrip
INVARIANT ValidIsJudged
INVARIANT ValidNeverTriggers
INVARIANT ValidIsReadable
INVARIANT TriggersNeedDamage
CHECK_DEADLOCK FALSE
