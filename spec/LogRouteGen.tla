---------------------------- MODULE LogRouteGen ----------------------------
(* Behaviour generator: LogRoute's own actions plus the history of the calls taken; every history of
   length IOEnv.DEPTH is printed as JSON for the C harness (h_log).
   IOEnv.KFACT lists the recorded findings still present in the implementation under test (digits, e.g.
   "1234", "0" = none): steps satisfying their trigger predicates are left out, everything else is kept.
   Open is generated for the lowest free slot (the harness reports the slot actually returned).
   REMOVE / TAG_CLEAR are generated for parameters that name exactly one stored rule, or none.
   Calls that address a slot that is not open (-EBADF, no effect) are kept, but at most IOEnv.JUNK of them
   per history, so that walks spend their steps on open targets.
   Every history is followed by a closing probe: enable every slot, then log from every call site of the
   universe, so that routing state the history left behind (also for disabled targets) is observed.     *)
EXTENDS LogRoute, LogRouteU, Json, IOUtils, SequencesExt
VARIABLES hist, done, junk
Depth == atoi(IOEnv.DEPTH)
Act == {d \in 1..4 : \E i \in 1..Len(IOEnv.KFACT) : SubSeq(IOEnv.KFACT, i, i) = ToString(d)}
NoBugs == {}
MaxJunk == atoi(IOEnv.JUNK)
IsJunk(op) == op[1] \in {"Close", "Enable", "Disable", "ClearAll", "Add", "Remove"} /\ ~Used(op[2])

FreeSlots == {t \in T : tstate[t] = S_UNUSED}
NCov(r, q) == Cardinality({i \in 1..Len(q) : Covered(r, q[i])})
GenOK(op) ==
  /\ OpOK(op)
  /\ (IsJunk(op) => junk < MaxJunk)
  /\ (op[1] = "Open" => \A t \in FreeSlots : op[2] <= t)
  /\ (op[1] = "Remove" /\ Used(op[2]) =>
        LET r == RuleAt(op, 3) IN NCov(r, rules[op[2]]) = 0 \/ (NCov(r, rules[op[2]]) = 1 /\ r \in Range(rules[op[2]])))
  /\ (op[1] = "TagClear" =>
        LET r == RuleAt(op, 2) q == [i \in 1..Len(tagRules) |-> tagRules[i][1]] IN
        NCov(r, q) = 0 \/ (NCov(r, q) = 1 /\ r \in Range(q)))
  /\ ~KFTrigger(Act, op)

GenInit == Init /\ hist = <<>> /\ done = FALSE /\ junk = 0
GenNext == \/ /\ Len(hist) < Depth /\ UNCHANGED done
              /\ \E op \in Ops : GenOK(op) /\ Do(op) /\ hist' = Append(hist, op) /\ junk' = IF IsJunk(op) THEN junk + 1 ELSE junk
           \/ /\ Len(hist) = Depth /\ ~done /\ done' = TRUE /\ UNCHANGED <<vars, hist, junk>>
GenSpec == GenInit /\ [][GenNext]_<<vars, hist, done, junk>>
(* random walks (TLC -simulate, one worker): per step the kind of call is drawn (weighted), then one of the
   admissible calls of that kind uniformly.  These are walks of GenNext with a call mix that does not depend
   on the size of the filter universe, and without enumerating every successor at every step.            *)
KindSeq == <<"Open", "Close", "Enable", "Enable", "Disable", "ClearAll", "Add", "Add", "Add", "Add", "Remove", "Remove",
             "TagSet", "TagSet", "TagClear", "TagClearAll", "Log", "Log", "Log", "Log", "Log">>
GenNextR == \/ /\ Len(hist) < Depth /\ UNCHANGED done
               /\ \E k \in {RandomElement(1..Len(KindSeq))} :      \* (sets, so that each draw is evaluated once)
                  LET C == {o \in Ops : o[1] = KindSeq[k] /\ GenOK(o)} IN
                  IF C = {} THEN UNCHANGED <<vars, hist, junk>>
                  ELSE \E op \in {RandomElement(C)} :
                       Do(op) /\ hist' = Append(hist, op) /\ junk' = IF IsJunk(op) THEN junk + 1 ELSE junk
            \/ /\ Len(hist) = Depth /\ ~done /\ done' = TRUE /\ UNCHANGED <<vars, hist, junk>>
GenSpecR == GenInit /\ [][GenNextR]_<<vars, hist, done, junk>>
Closing == [t \in 1..NT |-> <<"Enable", t>>] \o SetToSeq({<<"Log", s[1], s[2], s[3], s[4], s[5]>> : s \in Sites})
Emit == done => PrintT(<<"GEN", ToJson(hist \o Closing)>>)
=============================================================================
