---------------------------- MODULE RingBufferMC ----------------------------
(* Exhaustive exploration of RingBuffer: every interleaving of a writer doing
   NWrites chunk writes and a reader doing NReads operations, on a small ring. *)
EXTENDS RingBuffer
CONSTANTS Lens, Pats, NWrites, NReads, ReadMode
ReadOps == IF ReadMode = "read" THEN {<<"read", 1000>>, <<"read", 0>>} ELSE {<<"peek", 0>>, <<"reclaim", 0>>}
VARIABLES wleft, rleft
mcvars == <<vars, wleft, rleft>>
AnyWord(i) == IF Get(i) = UNK THEN {0, MAGIC, 8} ELSE {Get(i)}
MCInit == Init /\ wleft = NWrites /\ rleft = NReads
Wr == \/ (wleft > 0 /\ wleft' = wleft - 1 /\ \E len \in Lens, pat \in Pats : W_Call(len, pat, NWrites - wleft + 1))
      \/ (UNCHANGED wleft /\
            \/ W_SF_RD_WP(wp) \/ W_SF_RD_RP(rp) \/ W_SF_DONE(FreeWords) \/ W_AL_ZERO(wp) \/ W_AL_ALLOC(wp, REL)
            \/ W_WR_COPY(wop[1]) \/ W_CM_LEN(wp, wop[1]) \/ W_CM_WP(StepPt(wp, Get(wp))) \/ W_CM_MAGIC(wl.old, REL)
            \/ W_Ret(wl.rc))
Rd == \/ (rleft > 0 /\ rleft' = rleft - 1 /\ \E o \in ReadOps : R_Call(o[1], o[2]))
      \/ (UNCHANGED rleft /\
            \/ R_RD_WAIT(IF UseSem /\ sem = 0 THEN ETIMEDOUT ELSE 0)
            \/ (\E v \in AnyWord((rp + 1) % W) : R_RD_MAGIC(v, rp, ACQ))
            \/ R_RD_CHECK(IF rp # wp /\ rl.magic = MAGIC THEN 1 ELSE 0)
            \/ R_RD_REPOST(0) \/ R_RD_REPOST(1)
            \/ (\E v \in AnyWord(rp) : R_RD_SIZE(v))
            \/ R_RD_COPY(rl.size)
            \/ (\E v \in AnyWord((rp + 1) % W) : R_RC_MAGIC(v, rp, ACQ))
            \/ R_RC_CHECK(IF rp # wp /\ rl.magic = MAGIC THEN 1 ELSE 0)
            \/ (\E v \in AnyWord(rp) : R_RC_SIZE(v))
            \/ (\E v \in AnyWord(rp) : R_RC_STEP(StepPt(rp, IF v < 0 THEN 0 ELSE v)))
            \/ R_RC_ZERO(rp) \/ R_RC_DEAD(rp, REL) \/ R_RC_RP(rl.new)
            \/ R_RetData(rl.rc) \/ R_Ret(rl.rc))
MCNext == (Wr /\ UNCHANGED rleft) \/ (Rd /\ UNCHANGED wleft)
MCSpec == MCInit /\ [][MCNext]_mcvars
=============================================================================
