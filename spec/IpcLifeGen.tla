----------------------------- MODULE IpcLifeGen -----------------------------
(* Behaviour generator for property C04: the closed model IpcLifeMC plus a history of the choices that are
   the application's and the environment's to make -- main-loop moves, the API calls made inside each
   callback invocation, the values connection_accept / connection_closed return.  Every maximal
   behaviour is printed as JSON; vlib/checks/c04.py turns it into a program for harness/h_ipc_life.c
   (callback bodies keyed by kind, connection and invocation number), which executes it on the real
   library on both transports; the recorded run is validated against IpcLife like any other.           *)
EXTENDS IpcLifeMC, Json, IOUtils
VARIABLES hist, done

Ops == {<<"Disc", c>> : c \in C} \cup {<<"Ref", c>> : c \in C} \cup {<<"Unref", c>> : c \in C}
       \cup {<<"Send", c>> : c \in C} \cup {<<"IterFirst">>, <<"IterNext">>, <<"Rate">>, <<"SvcRef">>, <<"SvcUnref">>}
OpAct(op, base) ==
  CASE op[1] = "Disc"      -> AppDisc(op[2], base)
    [] op[1] = "Ref"       -> AppRef(op[2], base)
    [] op[1] = "Unref"     -> AppUnref(op[2], base)
    [] op[1] = "Send"      -> AppSend(op[2], base)
    [] op[1] = "IterFirst" -> AppIterFirst(base)
    [] op[1] = "IterNext"  -> AppIterNext(base)
    [] op[1] = "Rate"      -> AppRate(base)
    [] op[1] = "SvcRef"    -> AppSvcRef(base)
    [] op[1] = "SvcUnref"  -> AppSvcUnref(base)

(* a library step that enters a callback is recorded with the callback's kind, connection and return value *)
CbLbl == IF Len(ex') = Len(ex) + 1 /\ ex'[Len(ex')].p = "cb"
           THEN << <<"Cb", ex'[Len(ex')].k, ex'[Len(ex')].c, ex'[Len(ex')].r>> >> ELSE <<>>

GTop == \/ TConnect /\ hist' = Append(hist, <<"Connect">>)
        \/ TRequests /\ hist' = Append(hist, <<"Req", ex'[1].c, ex'[1].x>>)
        \/ TJob /\ hist' = Append(hist, <<"Job">>)
        \/ /\ AtTop /\ budget > 0 /\ budget' = budget - 1
           /\ \E op \in Ops : OpAct(op, <<>>) /\ hist' = Append(hist, op)
        \/ /\ AtTop /\ budget > 0 /\ budget' = budget - 1
           /\ AppDestroy /\ hist' = Append(hist, <<"Destroy">>)
GCb == \/ /\ InCb /\ TopF.d < MaxBody /\ UNCHANGED budget
          /\ \E op \in Ops : OpAct(op, [ex EXCEPT ![Len(ex)].d = @ + 1]) /\ hist' = Append(hist, op)
       \/ CbRet /\ hist' = Append(hist, <<"Ret">>)
GLib == /\ \/ Hnc0 \/ Hnc1 \/ Hnc2 \/ Hnc3 \/ Hnc4 \/ Hnc6 \/ Disc0 \/ Disc2 \/ Disc9 \/ Unref0 \/ Unref1 \/ Unref9
           \/ Disp0 \/ Disp1 \/ Disp2 \/ Disp3 \/ Disp8 \/ Disp9 \/ Job0 \/ Job9 \/ Des0 \/ Des1 \/ Des2 \/ Des3 \/ Des8 \/ Des9
        /\ hist' = hist \o CbLbl

Terminal == ex = <<>> /\ ~ENABLED (TConnect \/ TRequests \/ TJob \/ TApp)
GenInit == MCInit /\ hist = <<>> /\ done = FALSE
GenNext == \/ (GTop \/ GCb \/ GLib) /\ UNCHANGED done
           \/ Terminal /\ ~done /\ done' = TRUE /\ UNCHANGED <<vars, mvars, hist>>
GenSpec == GenInit /\ [][GenNext]_<<vars, mvars, hist, done>>
Emit == done => PrintT("GEN " \o ToJson(hist))
=============================================================================
