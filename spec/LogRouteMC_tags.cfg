\* tag filters: 1 slot, 1 target filter, 2 tag filters x 2 values
CONSTANTS NT = 1  TagVals = {1, 2}  MaxRules = 1  MaxTag = 2  MaxKnown = 3
CONSTANTS Sites <- U1Sites  Rules <- U1RulesB  TRules <- U1TRules  Bugs <- NoBugs
SPECIFICATION Spec
INVARIANT TypeOK
INVARIANT DeliveryIffSelected
INVARIANT Routing
INVARIANT TagRouting
INVARIANT Twins
INVARIANT UnusedClean
CHECK_DEADLOCK FALSE
