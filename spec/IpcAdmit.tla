------------------------------ MODULE IpcAdmit ------------------------------
(* IPC admission (lib/ipc_setup.c, ipcs.c, ipc_shm.c, ipc_socket.c, unix.c,
   ringbuffer.c) -- property C05.

   State is what the property talks about:
     * per connecting client: its kernel-reported effective credentials, what
       the server's accept callback was handed, what it decided (0 = accept,
       anything else = refuse with that value) and which owner/group/mode it
       authorised (qb_ipcs_connection_auth_set; by default the peer's ids and
       owner-only 0600), what the client's connect call returned, how many of
       its messages reached the message callback;
     * `res`: EVERYTHING that currently exists under the server's prefix in
       /dev/shm, as tuples <<client, class, owner, group, mode>>
       (class 0 = the per-connection directory, 1..6 = ring header/data files,
       7 = control file of the socket transport, 9 = anything else;
       client 0 = cannot be attributed to a known client).

   The specification is property-level: the environment action Observe(S)
   may replace `res` by any S; WHAT may exist at any moment is fixed by the
   invariants, which TLC evaluates in every state, i.e. at every observation
   point (the harness observes after every file-system related libc call the
   server makes), not only when the handshake is over.

   Status of a client:  idle -> conn (process exists, is connecting)
     -> acc | ref   (the accept callback has returned 0 | non-zero)
     -> est | gone  (the server has finished handling the connection request)

   Reading decisions (DESIGN.md 4.0): the per-connection directory is created
   0770 by the documented mechanism, so for the directory the rule is
   "owner/group = authorised, no access for other"; "never more permissive
   than the chosen mode" is applied to the files.  A file or directory is
   necessarily created with the server's own ids; until the server has
   finished handling the connection request it may still carry them (a file
   only while it is owner-only, i.e. private to the server), and the directory
   may carry the default authorisation (the peer's ids); once the request has
   been handled everything carries the authorised ids.  The ownership and mode
   sentences of the property speak about accepted connections: once the callback
   has refused, only "nothing remains" (and "no access for other" for the
   directory while it still exists) is required of that client's resources.   *)
EXTENDS Naturals, Integers, Sequences, FiniteSets, TLC

CONSTANTS Clients      \* client slots (positive integers)

VARIABLES transport,   \* 0 = no server, 1 = shared memory, 2 = socket
          srv,         \* <<uid, gid>> of the server process
          cl,          \* [Clients -> record], see NewClient
          res          \* set of <<client, class, owner, group, mode>>

vars == <<transport, srv, cl, res>>

OwnerOnly == 384       \* 0600
DirClass  == 0

NoClient == [st |-> "idle", cred |-> <<0, 0>>, args |-> <<>>, dec |-> 0, auth |-> <<0, 0, OwnerOnly>>,
             result |-> <<>>, msgs |-> 0]

Bit(x, i) == (x \div (2 ^ i)) % 2 = 1
SubMode(a, b) == \A i \in 0..11 : Bit(a, i) => Bit(b, i)     \* every permission bit of a is in b

Of(k)     == {e \in res : e[1] = k}
IsDir(e)  == e[2] = DirClass
Own(e)    == <<e[3], e[4]>>
Auth(k)   == <<cl[k].auth[1], cl[k].auth[2]>>
Chosen(k) == cl[k].auth[3]
Refused(k)  == cl[k].st \in {"ref", "gone"}
InHandshake(k) == cl[k].st \in {"conn", "acc"}

Init == transport = 0 /\ srv = <<0, 0>> /\ cl = [k \in Clients |-> NoClient] /\ res = {}

-----------------------------------------------------------------------------
(* Actions: one per observable event.                                        *)

Server(t, su, sg) ==
  /\ transport = 0 /\ t \in {1, 2}
  /\ transport' = t /\ srv' = <<su, sg>>
  /\ UNCHANGED <<cl, res>>

(* a client process with effective ids u:g exists and connects *)
Spawn(k, u, g) ==
  /\ transport # 0 /\ k \in Clients /\ cl[k].st = "idle"
  /\ cl' = [cl EXCEPT ![k] = [NoClient EXCEPT !.st = "conn", !.cred = <<u, g>>, !.auth = <<u, g, OwnerOnly>>]]
  /\ UNCHANGED <<transport, srv, res>>

(* the accept callback ran for k: it was handed uid:gid, returned ret and, if
   aset is not empty, called qb_ipcs_connection_auth_set(aset)               *)
AcceptCb(k, uid, gid, ret, aset) ==
  /\ k \in Clients /\ cl[k].st = "conn"
  /\ cl' = [cl EXCEPT ![k].st = IF ret = 0 THEN "acc" ELSE "ref",
                      ![k].args = <<uid, gid>>,
                      ![k].dec = ret,
                      ![k].auth = IF aset = <<>> THEN @ ELSE aset]
  /\ UNCHANGED <<transport, srv, res>>

(* the server has finished handling k's connection request *)
Handled(k) ==
  /\ k \in Clients /\ cl[k].st \in {"acc", "ref"}
  /\ cl' = [cl EXCEPT ![k].st = IF @ = "acc" THEN "est" ELSE "gone"]
  /\ UNCHANGED <<transport, srv, res>>

(* the client's connect call returned: ok = 1 a connection, ok = 0 failure with errno err *)
Result(k, ok, err) ==
  /\ k \in Clients /\ cl[k].st # "idle" /\ cl[k].result = <<>>
  /\ cl' = [cl EXCEPT ![k].result = <<ok, err>>]
  /\ UNCHANGED <<transport, srv, res>>

(* the message callback ran for a connection of client k *)
Msg(k) ==
  /\ k \in Clients /\ cl[k].st # "idle"
  /\ cl' = [cl EXCEPT ![k].msgs = @ + 1]
  /\ UNCHANGED <<transport, srv, res>>

(* environment: while the server sets up client k's connection, another user who may write into the connection
   directory created one of the channel files first (and keeps it open).  "Files created for an accepted
   connection ... are never more permissive than the mode it chose" cannot hold of a file somebody else created:
   the server must not adopt it (adopted = 1: the descriptor the server went on with is the planted file). *)
Plant(k, adopted) ==
  /\ k \in Clients /\ cl[k].st # "idle"
  /\ adopted = 0
  /\ UNCHANGED vars

(* environment: what exists under the server's prefix now *)
Observe(S) ==
  /\ res' = S
  /\ UNCHANGED <<transport, srv, cl>>

-----------------------------------------------------------------------------
(* The property.                                                             *)

(* "The user and group id handed to the accept callback are the kernel-reported
   effective credentials of the connecting process."                         *)
AcceptArgsAreKernelCreds == \A k \in Clients : cl[k].args # <<>> => cl[k].args = cl[k].cred

(* "If the accept callback refuses, the client's connect call fails with that error" *)
RefusalReported == \A k \in Clients :
  (cl[k].result # <<>> /\ cl[k].st # "conn" /\ cl[k].dec # 0) => cl[k].result = <<0, -cl[k].dec>>
(* ... and a connect call cannot have succeeded before (or without) an accepting decision *)
NoConnectionWithoutAccept == \A k \in Clients :
  (cl[k].result # <<>> /\ cl[k].result[1] = 1) => (cl[k].st \in {"acc", "est"} /\ cl[k].dec = 0)

(* "... nothing it sends ever reaches the message callback" *)
NoMsgFromRefused == \A k \in Clients : cl[k].msgs > 0 => cl[k].st \in {"acc", "est"}

(* "... no channel, shared file or directory remains for it" *)
RefusedLeavesNothing == \A k \in Clients : cl[k].st = "gone" => Of(k) = {}

(* everything under the prefix belongs to a known connection attempt *)
ResKnown == \A e \in res : e[1] \in Clients /\ cl[e[1]].st # "idle"

(* directory: never any access for "other" *)
DirNoOther == \A e \in res : IsDir(e) => e[5] % 8 = 0

(* files: "never more permissive than the mode it chose (by default owner-only),
   at any moment of their existence" *)
FileModeWithinChosen == \A e \in res : (e[1] \in Clients /\ ~IsDir(e) /\ ~Refused(e[1])) => SubMode(e[5], Chosen(e[1]))

(* "owned by the user/group the accept callback authorised (by default the peer's)" *)
OwnerAuthorised == \A e \in res : (e[1] \in Clients /\ ~Refused(e[1])) =>
  LET k == e[1] IN
    \/ Own(e) = Auth(k)
    \/ /\ InHandshake(k)
       /\ \/ Own(e) = srv /\ (IsDir(e) \/ SubMode(e[5], OwnerOnly))   \* not handed over yet
          \/ IsDir(e) /\ Own(e) = cl[k].cred                          \* default authorisation

TypeOK ==
  /\ transport \in 0..2
  /\ \A k \in Clients : cl[k].st \in {"idle", "conn", "acc", "ref", "est", "gone"}
  /\ \A e \in res : Len(e) = 5
=============================================================================
