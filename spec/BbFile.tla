------------------------------- MODULE BbFile -------------------------------
(* Blackbox dump files (lib/log_blackbox.c, lib/ringbuffer.c:qb_rb_write_to_file /
   qb_rb_create_from_file, tools/qb_blackbox.c) -- property C15.

   Two halves.

   ROUND TRIP.  State is what the property talks about: the records logged into
   the blackbox (six fields each), the records the last dump was taken from and
   how many of them the ring still retained.  Printing an undamaged dump must
   yield exactly the retained records, oldest first, every field as logged.

   ROBUSTNESS.  A file handed to the printer is abstracted to a CASE: classes of
   the file length, the marker block, the five header words and, relative to the
   pristine dump it was derived from, which chunk regions were changed and the
   class of the new value.  For every case the required outcome is: the call
   returns (no signal, no memory-error report, no abort, no hang) with a result
   code, and no qb-create_from_file* object is left in /dev/shm.  Only the
   undamaged cases say anything about what is printed (the property is silent
   about what a damaged file prints).

   A record is <<priority, function, line, tags, month, day, second-of-day,
   millisecond, message length, message checksum>> (all integers).

   A case is <<src, hdr, cd>>:
     src  where the file came from ("gen","trunc","rand","junk") -- informational
     hdr  <<trunc, marker, wsv, dlen, wp, rp, rpm, ver, hash>>
       trunc   "none" | "empty" | "mark" (< 20 bytes) | "w0".."w4" (cut in/before header word k)
       marker  "new" | "old" | "added" | "stripped" | "damaged" | "absent"
       wsv     word_size: "same" | "zero" | "less" | "lesswrap" | "more" | "any"
               (truncated header: "zero" | "tiny" (<= file size / 4) | "toobig") | "na"
       dlen    data length vs word_size: "exact" | "short" | "extra" | "na"
       wp, rp  pointer vs word_size: "same" | "in" | "eq" | "dbl" (inside the double mapping)
               | "beyond" (past the double mapping, <= file size in bytes)
               | "bmagic" (same, and the wrapped magic test succeeds) | "file" (> file size) | "na"
       rpm     what the magic test at read_pt finds: "none" | "chunk" (a chunk of the
               pristine dump) | "stray" | "na"
       ver     "ok" | "bad" | "na";   hash "ok" | "bad" | "na"
     cd   sequence of <<chunk number, region, kind>> for every changed region:
          size small|big|diff, magic x, field x, fnsize zero|big|diff, fn body|cut|term,
          msglen zero|big|diff, msg soft|hard, end magic|x, all misaligned

   Every public call is op = <<name, args...>> with a recorded result r;
   ResOK(op, r) is what the property requires of r, Do(op, r) the state change. *)
EXTENDS Naturals, Integers, Sequences, FiniteSets, TLC

CONSTANTS KFSkip,      \* recorded findings whose trigger classes are not judged (subset of {"KF1","KF2","KF3"})
          MaxFoot      \* upper bound on the ring bytes one record can occupy or reserve (636 for the real library)

VARIABLES on,        \* blackbox target open
          size,      \* QB_LOG_CONF_SIZE it was opened with
          logged,    \* records logged since it was opened, oldest first
          dumped,    \* value of logged when the last dump was written
          nret,      \* number of records the ring retained at that dump (-1: no dump)
          last       \* <<case, result>> of the last print (for the invariants)
vars == <<on, size, logged, dumped, nret, last>>

Min(a, b) == IF a < b THEN a ELSE b
(* ring geometry implied by the configured size: qb_rb_open adds the chunk margin and
   rounds up to whole pages; at least LowerK of the newest records always fit *)
Words(sz) == ((sz + 13 + 4095) \div 4096) * 1024
LowerK(ws) == (ws * 4 - MaxFoot - 1) \div MaxFoot

Init == on = FALSE /\ size = 0 /\ logged = <<>> /\ dumped = <<>> /\ nret = -1 /\ last = <<>>

Retained == SubSeq(dumped, Len(dumped) - nret + 1, Len(dumped))
OldRec(rec) == [rec EXCEPT ![8] = 0]     \* the old file format stores whole seconds only

-----------------------------------------------------------------------------
(* case accessors and classes *)
Hdr(c) == c[2]
Cd(c) == c[3]
Trunc(c) == Hdr(c)[1]
Marker(c) == Hdr(c)[2]
Wsv(c) == Hdr(c)[3]
Dlen(c) == Hdr(c)[4]
Wp(c) == Hdr(c)[5]
Rp(c) == Hdr(c)[6]
Rpm(c) == Hdr(c)[7]
Ver(c) == Hdr(c)[8]
Hash(c) == Hdr(c)[9]
HasCd(c, reg, kind) == \E i \in 1..Len(Cd(c)) : Cd(c)[i][2] = reg /\ Cd(c)[i][3] = kind

(* nothing that the format gives a meaning to was changed *)
Valid(c) == /\ c[1] # "junk"
            /\ Trunc(c) = "none" /\ Marker(c) \in {"new", "old"}
            /\ Wsv(c) = "same" /\ Dlen(c) = "exact" /\ Wp(c) = "same" /\ Rp(c) = "same"
            /\ Rpm(c) \in {"chunk", "none"}    \* the oldest retained chunk, or an empty ring
            /\ Ver(c) = "ok" /\ Hash(c) = "ok" /\ Cd(c) = <<>>

(* the header passes the checks the format itself defines (complete, version, hash,
   word_size consistent with the data present, pointers not past the file) *)
Readable(c) == /\ Trunc(c) = "none" /\ Wsv(c) \notin {"zero", "na"} /\ Dlen(c) \in {"exact", "extra"}
               /\ Wp(c) \notin {"file", "na"} /\ Rp(c) \notin {"file", "na"} /\ Ver(c) = "ok" /\ Hash(c) = "ok"

(* Recorded findings on the unchanged tree, as predicates over the abstract case.
   KF1: read_pt is only bounded by the file size in BYTES; beyond the ring's double
        mapping, with the (wrapped) magic test succeeding, the reader dereferences it.
   KF2: assert() on a short read of write_pt / read_pt (marker present, tiny word_size).
   KF3: the record decoder (qb_vsnprintf_deserialize and the field walk in
        qb_log_blackbox_print_from_file) is unbounded on both sides; it is reached with
        bytes other than an intact record whenever the message area, a size word, an
        in-range fn_size or the layout (marker/word_size/read_pt) was changed.       *)
KF1(c) == Readable(c) /\ Rp(c) = "bmagic"
KF2(c) == Marker(c) \in {"new", "added"} /\ Trunc(c) \in {"w1", "w2"} /\ Wsv(c) \in {"zero", "tiny"}
KF3(c) == /\ Readable(c) /\ Rp(c) # "bmagic" /\ Rpm(c) # "none"
          /\ \/ Marker(c) \in {"added", "stripped"}
             \/ Wsv(c) = "lesswrap"
             \/ Rpm(c) = "stray"
             \/ HasCd(c, "msg", "hard") \/ HasCd(c, "size", "diff") \/ HasCd(c, "fnsize", "diff")
             \/ HasCd(c, "end", "magic") \/ HasCd(c, "all", "misaligned")
Skipped(c) == \/ "KF1" \in KFSkip /\ KF1(c)
              \/ "KF2" \in KFSkip /\ KF2(c)
              \/ "KF3" \in KFSkip /\ KF3(c)

-----------------------------------------------------------------------------
(* required results *)
Expected(c) == IF Marker(c) = "old" THEN [i \in 1..nret |-> OldRec(Retained[i])] ELSE Retained

(* r = <<kind, rc, leftover, k, printed records>>; kind 0 = the call returned *)
PrintOK(c, r) ==
  IF Skipped(c) THEN TRUE
  ELSE /\ r[1] = 0                 \* never a crash: no signal, sanitizer report, abort or hang
       /\ r[2] <= 0                \* a result code (0 or a negative errno)
       /\ r[3] = 0                 \* no temporary shared-memory file left behind
       /\ IF Valid(c) THEN r[4] = nret /\ r[5] = Expected(c) ELSE TRUE

(* r = <<rc > 0, rc = file length, word_size, records retained>> *)
DumpOK(r) == /\ r[1] = 1
             /\ r[3] * 4 >= size        \* the ring is at least as large as configured (Words(size) in the real library)
             /\ r[4] <= Len(logged)
             /\ r[4] >= Min(Len(logged), LowerK(r[3]))

(* DumpAll: r = <<dump written and well-formed, word_size, <<priority, function, line, tags>> of this application's
   records found in the dump, in ring order>> -- "a dump taken at any moment contains an unbroken run of the latest
   log records ending with the very last one", whatever else the blackbox was told to take in between *)
DumpAllOK(r) ==
  /\ r[1] = 1 /\ r[2] * 4 >= size
  /\ LET own == r[3]  k == Len(r[3])  n == Len(logged) IN
     /\ k <= n /\ (n > 0 => k >= 1)
     /\ \A i \in 1..k : own[i] = <<logged[n - k + i][1], logged[n - k + i][2], logged[n - k + i][3], logged[n - k + i][4]>>

ResOK(op, r) ==
  CASE op[1] = "Init"  -> r = <<1>>
    [] op[1] = "DumpAll" -> DumpAllOK(r)
    [] op[1] = "Log"   -> r = <<>>
    [] op[1] = "Dump"  -> DumpOK(r)
    [] op[1] = "Print" -> (nret >= 0 \/ op[2] = "junk") /\ PrintOK(<<op[2], op[6], op[7]>>, r)

-----------------------------------------------------------------------------
(* state changes *)
DoInit(sz) == on' = TRUE /\ size' = sz /\ logged' = <<>> /\ dumped' = <<>> /\ nret' = -1 /\ last' = <<>>
DoLog(rec) == on /\ logged' = Append(logged, rec) /\ UNCHANGED <<on, size, dumped, nret, last>>
DoDump(k) == on /\ dumped' = logged /\ nret' = k /\ last' = <<>> /\ UNCHANGED <<on, size, logged>>
DoPrint(c, r) == (nret >= 0 \/ c[1] = "junk") /\ last' = <<c, r>> /\ UNCHANGED <<on, size, logged, dumped, nret>>

Do(op, r) ==
  CASE op[1] = "Init"  -> DoInit(op[2])
    [] op[1] = "DumpAll" -> on /\ dumped' = logged /\ nret' = -1 /\ last' = <<>> /\ UNCHANGED <<on, size, logged>>
    [] op[1] = "Log"   -> DoLog(op[4])
    [] op[1] = "Dump"  -> DoDump(r[4])
    [] op[1] = "Print" -> DoPrint(<<op[2], op[6], op[7]>>, r)

Step(op, r) == ResOK(op, r) /\ Do(op, r)

-----------------------------------------------------------------------------
(* The property, as invariants over the abstract state.                      *)
TypeOK == /\ on \in BOOLEAN /\ size \in Nat /\ nret \in -1..Len(dumped)
          /\ Len(dumped) <= Len(logged)

(* a dump is a snapshot: later logging does not change what it must print *)
DumpIsSnapshot == nret >= 0 => dumped = SubSeq(logged, 1, Len(dumped))

(* "never crashes, reads or writes out of bounds, or leaves temporary shared-memory files behind" *)
NoCrashNoLeftover == last # <<>> /\ ~Skipped(last[1]) => last[2][1] = 0 /\ last[2][3] = 0 /\ last[2][2] <= 0

(* "reproduces every retained record with the priority, function, line, tags, timestamp and message" *)
RoundTrip == last # <<>> /\ Valid(last[1]) =>
               /\ last[2][4] = nret
               /\ \A i \in 1..nret : last[2][5][i] =
                    (IF Marker(last[1]) = "old" THEN OldRec(dumped[Len(dumped) - nret + i]) ELSE dumped[Len(dumped) - nret + i])

(* the recorded findings never swallow an undamaged file *)
ValidIsJudged == last # <<>> /\ Valid(last[1]) => ~KF1(last[1]) /\ ~KF2(last[1]) /\ ~KF3(last[1])
=============================================================================
