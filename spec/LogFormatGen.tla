---------------------------- MODULE LogFormatGen ----------------------------
(* Behaviour generator: test vectors as histories of public calls (without
   results), printed as JSON for harness/h_logfmt.c.
   MODE "F": SetLimit, SetEllipsis, SetFormat, Format      (every vector of the alphabet)
   MODE "L": SetLimit, SetEllipsis, SetExtended, SetFormat, Log
   MODE "W": free walks over all calls (simulation), DEPTH calls long.
   The switches KF1..KF8 ("1" = leave out) keep the triggers of the recorded
   findings out of the generated behaviours; each is the exact input condition
   of one finding, written over the abstract vector.                         *)
EXTENDS LogFormatVec, Json, IOUtils
VARIABLES hist, done, pf, phase, setlim
gvars == <<hist, done, pf, phase, setlim>>
Depth == atoi(IOEnv.DEPTH)
Mode == IOEnv.MODE
KF1 == IOEnv.KF1 = "1"   KF2 == IOEnv.KF2 = "1"   KF3 == IOEnv.KF3 = "1"   KF4 == IOEnv.KF4 = "1"
KF5 == IOEnv.KF5 = "1"   KF6 == IOEnv.KF6 = "1"   KF7 == IOEnv.KF7 = "1"   KF8 == IOEnv.KF8 = "1"

Min(a, b) == IF a < b THEN a ELSE b
NoD == <<0, 1, <<7, 1>>, 6, TS1, -1>>
Digits(w) == IF w = 0 THEN 0 ELSE IF w < 10 THEN 1 ELSE IF w < 100 THEN 2 ELSE IF w < 1000 THEN 3 ELSE 4
(* length of the format string after qb_log_format_set expanded %N %H %P *)
RECURSIVE SLen(_, _)
SLen(f, e) == IF f = <<>> THEN 0 ELSE
  (IF IsLit(f[1]) THEN f[1][3]
   ELSE IF f[1][1] \in StaticDirs THEN RLen(TokTxt(f[1], NoD, <<>>, e))
   ELSE 1 + f[1][2] + Digits(f[1][3]) + (IF f[1][1] = 1 THEN 0 ELSE 1)) + SLen(Tail(f), e)
HasDyn(f) == \E k \in 1..Len(f) : ~IsLit(f[k]) /\ f[k][1] \notin StaticDirs
(* is the byte at position p of the line a literal of the format? *)
RECURSIVE LitAt(_, _, _, _, _)
LitAt(f, D, msg, e, p) ==
  IF f = <<>> THEN FALSE
  ELSE LET n == RLen(TokTxt(f[1], D, msg, e)) IN IF p <= n THEN IsLit(f[1]) ELSE LitAt(Tail(f), D, msg, e, p - n)

(* --- finding 6: qb_log_format_set keeps only the first limit-1 bytes of the expanded format string.
   CutFmt = the tokens that survive (a literal / static field shortened, a directive cut in the middle
   becomes the marker <<-1,0,0>>); the finding shows when the scan reaches the broken directive or the
   surviving tokens give a line the full format does not admit. *)
TokSLen(t, e) == IF IsLit(t) THEN t[3]
                 ELSE IF t[1] \in StaticDirs THEN RLen(TokTxt(t, NoD, <<>>, e))
                 ELSE 1 + t[2] + Digits(t[3]) + (IF t[1] = 1 THEN 0 ELSE 1)
RunsToLits(r) == [k \in 1..Len(r) |-> <<0, r[k][1], r[k][2]>>]
RECURSIVE CutFmt(_, _, _)
CutFmt(f, e, room) ==
  IF f = <<>> \/ room <= 0 THEN <<>>
  ELSE LET t == f[1]  n == TokSLen(t, e) IN
       IF n <= room THEN <<t>> \o CutFmt(Tail(f), e, room - n)
       ELSE IF IsLit(t) THEN << <<0, t[2], room>> >>
       ELSE IF t[1] \in StaticDirs THEN RunsToLits(Refit(t, NoD, <<>>, e, room))
       ELSE << <<-1, 0, 0>> >>
Broken(g) == IF g = <<>> THEN FALSE ELSE g[Len(g)][1] = -1
Whole(g) == IF Broken(g) THEN SubSeq(g, 1, Len(g) - 1) ELSE g
(* lines the property admits for format f (empty set: anything within the bounds) *)
AdmLines(f, D, msg, e) ==
  LET full == Full(f, D, msg, e)  cs == Cuts(f, D, msg, e, limit) IN
  IF RLen(full) <= limit - 1 THEN {Strip(full)}
  ELSE IF ell = 1 THEN {RCat(RTake(c, limit - 4), Rep(DOT, 3)) : c \in cs}
  ELSE cs \cup {Strip(c) : c \in cs}
(* the line the surviving tokens g give: per the property -- except that, while finding 7 stands,
   a full line is taken for a truncated one *)
CutLines(g, D, msg, e) ==
  LET c == CutRefit(g, <<>>, D, msg, e, limit) IN
  IF KF7 /\ ell = 1 /\ RLen(c) >= limit - 1 THEN {RCat(RTake(c, limit - 4), Rep(DOT, 3))} ELSE AdmLines(g, D, msg, e)
(* the findings' triggers for one formatting call (format in force: fmt; w = what finding 6 leaves of it) *)
NlUnder(f, full, D, msg) == RAt(full, limit - 1) = NL /\ LitAt(f, D, msg, env, limit - 1)
LineTrig(full, f, D, msg) ==
  LET cut == KF6 /\ SLen(fmt, env) > setlim - 1
      g == IF cut THEN CutFmt(fmt, env, setlim - 1) ELSE fmt
      w == Whole(g)
      fullw == Full(w, D, msg, env) IN
  \/ KF2 /\ (RLen(full) = 0 \/ RLen(fullw) = 0)                       \* empty line: buffer[idx-1] with idx = 0
  \/ KF4 /\ (limit = 1 \/ (ell = 1 /\ limit \in {2, 3} /\ (RLen(full) >= limit - 1 \/ RLen(fullw) >= limit - 1)))  \* limits below 4
  \/ KF7 /\ ell = 1 /\ limit >= 4 /\ RLen(full) = limit - 1             \* exact fit marked as truncated
  \/ KF8 /\ ell = 1 /\ limit >= 4                                      \* literal newline under the ellipsis
         /\ \/ RLen(full) > limit - 1 /\ NlUnder(f, full, D, msg)
            \/ cut /\ RLen(fullw) >= limit - 1 /\ NlUnder(w, fullw, D, msg)
  \/ cut /\ ell = 1 /\ limit < 4                                       \* format cut when set (tiny limit: not analysed further)
  \/ cut /\ limit >= 2 /\ (ell = 0 \/ limit >= 4)                       \* format cut when set, and it shows
         /\ \/ Broken(g) /\ RLen(fullw) < limit - 1
            \/ ~Unspecified(fmt, D) /\ ~(CutLines(w, D, msg, env) \subseteq AdmLines(fmt, D, msg, env))
FormatTrig(D, msg) == LineTrig(Full(fmt, D, msg, env), fmt, D, msg)
LogTrig(D, M) ==
  \/ KF1 /\ RLen(MsgTxt(M)) = 0                                        \* empty expansion: str[len-1] with len = 0
  \/ LET r == ModelRes(<<"Log", D, M>>) IN r[1] = 1 /\ LineTrig(Full(fmt, D, r[2], env), fmt, D, r[2])
SetFormatTrig(f, e) ==
  \/ KF3 /\ Min(SLen(f, e), limit - 1) >= 256                          \* 256 byte stack buffer in qb_log_format_set
  \/ KF5 /\ (IF f = <<>> THEN FALSE ELSE IF IsLit(f[Len(f)]) THEN FALSE ELSE f[Len(f)][1] = 1)  \* unfinished directive: scan passes the NUL
SetLimitTrig(n) ==
  \/ KF4 /\ n < 1                                                      \* accepted although no line can respect it

OpOK(op) ==
  CASE op[1] = "SetLimit"  -> ~SetLimitTrig(op[2])
    [] op[1] = "SetFormat" -> ~SetFormatTrig(op[2], <<op[3], op[4], op[5]>>)
    [] op[1] = "Format"    -> ~FormatTrig(op[2], op[3])
    [] op[1] = "Log"       -> ~LogTrig(op[2], op[3])
    [] OTHER               -> TRUE

GDo(op) == /\ OpOK(op) /\ Step(op, ModelRes(op)) /\ hist' = Append(hist, op)
           /\ setlim' = IF op[1] \in {"SetFormat", "SetFormatDefault"} THEN limit ELSE setlim
CanAdd == Len(pf) < MaxTok /\ (IF pf = <<>> THEN TRUE ELSE IF IsLit(pf[Len(pf)]) THEN TRUE ELSE pf[Len(pf)][1] # 1)
AddTok == /\ CanAdd /\ \E t \in Tokens : pf' = Append(pf, t)
          /\ UNCHANGED <<vars, hist, done, phase, setlim>>
EndFmt(nxt) == /\ \E e \in Envs(pf) : GDo(<<"SetFormat", pf, e[1], e[2], e[3]>>)
               /\ phase' = nxt /\ pf' = <<>> /\ UNCHANGED done

Staged ==
  \/ /\ phase = "limit" /\ \E n \in Limits : GDo(<<"SetLimit", n>>)
     /\ phase' = "ell" /\ UNCHANGED <<pf, done>>
  \/ /\ phase = "ell" /\ \E b \in {0, 1} : GDo(<<"SetEllipsis", b>>)
     /\ phase' = (IF Mode = "L" THEN "ext" ELSE "build") /\ UNCHANGED <<pf, done>>
  \/ /\ phase = "ext" /\ \E b \in {0, 1} : GDo(<<"SetExtended", b>>)
     /\ phase' = "build" /\ UNCHANGED <<pf, done>>
  \/ phase = "build" /\ AddTok
  \/ phase = "build" /\ EndFmt("call")
  \/ /\ phase = "call" /\ Mode = "F" /\ \E D \in CallData(fmt), m \in Msgs(fmt) : GDo(<<"Format", D, m>>)
     /\ phase' = "end" /\ UNCHANGED <<pf, done>>
  \/ /\ phase = "call" /\ Mode = "L" /\ \E D \in LogCalls, M \in LogMsgs : GDo(<<"Log", D, M>>)
     /\ phase' = "end" /\ UNCHANGED <<pf, done>>
  \/ phase = "end" /\ ~done /\ done' = TRUE /\ UNCHANGED <<vars, hist, pf, phase, setlim>>

Walk ==
  \/ /\ phase = "idle" /\ Len(hist) < Depth /\ UNCHANGED <<pf, done, phase>>
     /\ \/ \E n \in Limits : GDo(<<"SetLimit", n>>)
        \/ \E b \in {0, 1} : GDo(<<"SetEllipsis", b>>)
        \/ \E b \in {0, 1} : GDo(<<"SetExtended", b>>)
        \/ GDo(<<"SetFormatDefault">>)
        \/ \E D \in CallData(fmt), m \in Msgs(fmt) : GDo(<<"Format", D, m>>)
        \/ \E D \in LogCalls, M \in LogMsgs : GDo(<<"Log", D, M>>)
  \/ /\ phase = "idle" /\ Len(hist) < Depth /\ phase' = "build" /\ UNCHANGED <<vars, hist, done, pf, setlim>>
  \/ phase = "build" /\ AddTok
  \/ phase = "build" /\ EndFmt("idle")
  \/ phase = "idle" /\ Len(hist) = Depth /\ ~done /\ done' = TRUE /\ UNCHANGED <<vars, hist, pf, phase, setlim>>

GenInit == Init /\ hist = <<>> /\ done = FALSE /\ pf = <<>> /\ setlim = DefaultLimit
           /\ phase = (IF Mode = "W" THEN "idle" ELSE "limit")
GenNext == IF Mode = "W" THEN Walk ELSE Staged
GenSpec == GenInit /\ [][GenNext]_<<vars, gvars>>
Emit == done => PrintT(<<"GEN", ToJson(hist)>>)
=============================================================================
