---------------------------- MODULE IpcCrashMC ----------------------------
(* Design check for C03.  IpcCrash states WHAT must hold; this module adds a small model of the MECHANISM (the stages
   of the server's per-connection work, the client's handshake progress, the client's liveness rounds) whose every
   step is the Do-part of an IpcCrash action.  TLC then checks, for every reachable state and every point at which a
   client or the server can die,
     GuardsHold      whenever the mechanism is about to run a callback / report a census / return a call result, the
                     property-level guard of IpcCrash for that step holds,
     QuiescentClean  when the server has nothing left to do, every dead or departed client is fully released,
     FreedClean      after destroyed nothing is held,
   and under fairness of the server's loop and of the client's wait loop (FairSpec)
     EventuallyClean a dead client is eventually fully released, destroyed having run iff the connection had been
                     offered to accept,
     CallReturns     a wait-forever call in progress when the server dies eventually returns.                      *)
EXTENDS IpcCrash

CONSTANTS MaxPend,
          Bug      \* 0: the mechanism as intended; 1..3: seeded design errors used to show that the checks bite

VARIABLES sst,     \* server's stage per connection (see Stage names)
          hs,      \* client's handshake progress: 0 nothing, 1 socket connected, 2 part of the request written, 3 all of it
          pend,    \* requests queued by the client and not yet handled
          inCall,  \* server-death scenario: 0 or the wait-forever operation in progress
          rounds,  \* liveness rounds that call has completed since it started
          dataq    \* replies / events available to that call
mvars == <<sst, hs, pend, inCall, rounds, dataq>>
allvars == <<vars, mvars>>

SNone == 0  SSock == 1  SDir == 2  SOffered == 3  SRes == 4  SEst == 5  STorn == 6  SClosedS == 7  SNoDir == 8
SFinal == 9  SAuthGone == 10  SFailed == 11

MInit == Init /\ sst = [r \in Roles |-> SNone] /\ hs = [r \in Roles |-> 0] /\ pend = [r \in Roles |-> 0]
         /\ inCall = 0 /\ rounds = 0 /\ dataq = 0

Stage(r, s) == sst' = [sst EXCEPT ![r] = s]
Keep(v) == UNCHANGED v

(* ---------------- clients of a client-death scenario ---------------- *)
MBegin(k) == Begin(k) /\ Keep(mvars)
MSpawn(r) == Spawn(r) /\ Keep(mvars)
MCSock(r) == cst[r] = 1 /\ cphase[r] = PConn /\ hs[r] = 0 /\ hs' = [hs EXCEPT ![r] = 1] /\ Keep(<<vars, sst, pend, inCall, rounds, dataq>>)
MCWrite(r) == cst[r] = 1 /\ hs[r] \in {1, 2} /\ hs' = [hs EXCEPT ![r] = hs[r] + 1] /\ Keep(<<vars, sst, pend, inCall, rounds, dataq>>)
MCEstablished(r) == cphase[r] = PConn /\ hs[r] = 3 /\ sst[r] = SEst /\ Connected(r, 1) /\ Keep(mvars)
MCSend(r) == cphase[r] = PIdle /\ pend[r] < MaxPend /\ Phase(r, PIdle) /\ pend' = [pend EXCEPT ![r] = pend[r] + 1]
             /\ Keep(<<sst, hs, inCall, rounds, dataq>>)
MCOp(r, ph) == cphase[r] \in PIdle..PEvRecv /\ ph \in PIdle..PEvRecv /\ Phase(r, ph) /\ Keep(mvars)
MCDisconnect(r) == cphase[r] = PIdle /\ Disconnect(r) /\ Keep(mvars)
(* the crash: in every phase, at every handshake prefix *)
MClientDie(r) == ClientDie(r, cphase[r]) /\ Keep(mvars)

(* ---------------- the surviving server, one stage per step ---------------- *)
MSockAccept(r) == sst[r] = SNone /\ hs[r] >= 1 /\ DoStep(r, <<1, 0, 0>>) /\ Stage(r, SSock) /\ Keep(<<hs, pend, inCall, rounds, dataq>>)
(* hang-up (or garbage) before a complete request: close and forget *)
MAuthGone(r) == sst[r] = SSock /\ cst[r] = 2 /\ DoStep(r, Zero) /\ Stage(r, SAuthGone) /\ Keep(<<hs, pend, inCall, rounds, dataq>>)
MMkdir(r) == sst[r] = SSock /\ hs[r] = 3 /\ DoStep(r, <<1, 0, 1>>) /\ Stage(r, SDir) /\ Keep(<<hs, pend, inCall, rounds, dataq>>)
MAcceptCb(r) == sst[r] = SDir /\ DoCb(r, Accepted) /\ Stage(r, SOffered) /\ Keep(<<hs, pend, inCall, rounds, dataq>>)
MMkRes(r) == sst[r] = SOffered /\ DoStep(r, <<1, 1, 1>>) /\ Stage(r, SRes) /\ Keep(<<hs, pend, inCall, rounds, dataq>>)
MRespondOk(r) == sst[r] = SRes /\ DoCb(r, Created) /\ Stage(r, SEst) /\ Keep(<<hs, pend, inCall, rounds, dataq>>)
(* the response cannot be delivered to a dead client: undo everything, no created *)
MRespondFail(r) == sst[r] = SRes /\ cst[r] = 2 /\ DoStep(r, IF Bug = 2 THEN <<0, 0, 1>> ELSE Zero) /\ Stage(r, SFailed) /\ Keep(<<hs, pend, inCall, rounds, dataq>>)
MMsg(r) == sst[r] = SEst /\ pend[r] > 0 /\ pend' = [pend EXCEPT ![r] = pend[r] - 1] /\ Keep(<<vars, sst, hs, inCall, rounds, dataq>>)
MNotice(r) == Bug # 1 /\ sst[r] = SEst /\ Gone(r) /\ DoStep(r, <<0, 0, 1>>) /\ Stage(r, STorn) /\ Keep(<<hs, pend, inCall, rounds, dataq>>)
MClosedCb(r) == sst[r] = STorn /\ DoCb(r, Closed) /\ Stage(r, SClosedS) /\ Keep(<<hs, pend, inCall, rounds, dataq>>)
MRmdir(r) == sst[r] = SClosedS /\ DoStep(r, Zero) /\ Stage(r, SNoDir) /\ Keep(<<hs, pend, inCall, rounds, dataq>>)
MDestroyedCb(r) == sst[r] \in {SNoDir, SFailed} /\ DoCb(r, Destroyed) /\ Stage(r, SFinal) /\ Keep(<<hs, pend, inCall, rounds, dataq>>)

ServerStep(r) == \/ MSockAccept(r) \/ MAuthGone(r) \/ MMkdir(r) \/ MAcceptCb(r) \/ MMkRes(r) \/ MRespondOk(r)
                 \/ MRespondFail(r) \/ MMsg(r) \/ MNotice(r) \/ MClosedCb(r) \/ MRmdir(r) \/ MDestroyedCb(r)
ServerBusy(r) == ENABLED ServerStep(r)
ServerQuiet == \A r \in Roles : ~ServerBusy(r)

(* ---------------- server-death scenario: the client's liveness rounds ---------------- *)
MSrvDie == SrvDie /\ Keep(mvars)
MConnectOk == salive /\ CConnect(1, 0) /\ Keep(mvars)
MConnectDead == CConnect(0, 1) /\ Keep(mvars)
MCallStart(op) == kind = 3 /\ cconn = 1 /\ inCall = 0 /\ op \in {OpSendvRecv, OpEventRecv}
                  /\ inCall' = op /\ rounds' = 0 /\ Keep(<<vars, sst, hs, pend, dataq>>)
MSrvReply == kind = 3 /\ salive /\ inCall # 0 /\ dataq = 0 /\ dataq' = 1 /\ Keep(<<vars, sst, hs, pend, inCall, rounds>>)
MReturnData == inCall # 0 /\ dataq > 0 /\ CCall(inCall, 0 - 1, 1, rounds * RoundMs, IF salive THEN 0 ELSE 1)
               /\ inCall' = 0 /\ dataq' = 0 /\ rounds' = 0 /\ Keep(<<sst, hs, pend>>)
(* a round times out; with a dead server the liveness check that follows ends the call *)
MRoundDead == Bug # 3 /\ inCall # 0 /\ dataq = 0 /\ ~salive
              /\ CCall(inCall, 0 - 1, 0 - 107, (rounds + 1) * RoundMs, 1)
              /\ inCall' = 0 /\ rounds' = 0 /\ Keep(<<sst, hs, pend, dataq>>)
(* with a live server the rounds just repeat (not counted: the bound is on rounds after the death) *)
MFailFast(op) == kind = 3 /\ cconn = 2 /\ inCall = 0 /\ op \in OpSend..OpEventRecv /\ CCall(op, 0 - 1, 0 - 107, 0, 1) /\ Keep(mvars)
MTimedCall(op) == kind = 3 /\ cconn = 1 /\ inCall = 0 /\ op \in OpSend..OpEventRecv
                  /\ \E res \in {1, 0 - 110, 0 - 107} :
                       /\ (res = 1 => salive) /\ (res = 0 - 107 => ~salive)
                       /\ CCall(op, 1000, res, IF res = 0 - 110 THEN 1000 ELSE 0, IF salive THEN 0 ELSE 1)
                  /\ Keep(mvars)
MDisconnect == kind = 3 /\ inCall = 0 /\ \E f \in {0, 1} : (f = 1 => salive) /\ CDisconnect(f) /\ Keep(mvars)

ClientWait == MReturnData \/ MRoundDead

MNext ==
  \/ \E k \in 1..3 : MBegin(k)
  \/ \E r \in Roles : \/ MSpawn(r) \/ MCSock(r) \/ MCWrite(r) \/ MCEstablished(r) \/ MCSend(r) \/ MCDisconnect(r)
                      \/ MClientDie(r) \/ ServerStep(r)
                      \/ \E ph \in PIdle..PEvRecv : MCOp(r, ph)
  \/ MSrvDie \/ MConnectOk \/ MConnectDead \/ MSrvReply \/ MReturnData \/ MRoundDead \/ MDisconnect
  \/ \E op \in OpSend..OpEventRecv : MCallStart(op) \/ MFailFast(op) \/ MTimedCall(op)

MSpec == MInit /\ [][MNext]_allvars
(* the server's loop polls every descriptor: fairness per connection *)
FairSpec == MSpec /\ (\A r \in Roles : WF_allvars(ServerStep(r))) /\ WF_allvars(ClientWait)

(* ---------------- what is checked ---------------- *)
GuardsHold ==
  \A r \in Roles :
    /\ (sst[r] = SDir => GAccept(r))
    /\ (sst[r] = SRes => GCreated(r))
    /\ ((sst[r] = SEst /\ pend[r] > 0) => GMsg(r))
    /\ (sst[r] = STorn => GClosed(r))
    /\ (sst[r] \in {SNoDir, SFailed} => GDestroyed(r))
    /\ (sst[r] = SNone /\ hs[r] >= 1 => GStep(r, <<1, 0, 0>>, 0))
    /\ (sst[r] = SOffered => GStep(r, <<1, 1, 1>>, 0))
QuiescentClean == ServerQuiet => GQuiesce(0)
FreedClean == \A r \in Roles : cb[r] = Destroyed => held[r] = Zero
OnceOnly == \A r \in Roles : (sst[r] = SFinal <=> cb[r] = Destroyed) /\ (cb[r] \in {Closed} => sst[r] \in {SClosedS, SNoDir})
(* a call result the mechanism is about to return satisfies the property-level guard *)
CallGuards ==
  /\ ((inCall # 0 /\ dataq = 0 /\ ~salive) => GCCall(inCall, 0 - 1, 0 - 107, (rounds + 1) * RoundMs, 1))
  /\ ((inCall # 0 /\ dataq > 0) => GCCall(inCall, 0 - 1, 1, rounds * RoundMs, IF salive THEN 0 ELSE 1))
MTypeOK == TypeOK /\ sst \in [Roles -> SNone..SFailed] /\ hs \in [Roles -> 0..3] /\ pend \in [Roles -> 0..MaxPend]

EventuallyClean == \A r \in Roles : (cst[r] = 2) ~> (Released(r) /\ ~ServerBusy(r))
CallReturns == (inCall # 0 /\ ~salive) ~> (inCall = 0)
(* the death of one client changes nothing that belongs to another *)
OthersUntouched == [][\A r \in Roles : (cst[r] = 1 /\ cst'[r] = 2) =>
                        \A o \in Roles \ {r} : cst'[o] = cst[o] /\ cb'[o] = cb[o] /\ held'[o] = held[o] /\ sst'[o] = sst[o]]_allvars
=============================================================================
