CONSTANTS Sizes = {0, 2}  Ticks = {3}  MaxIdx = 2  MaxSplits = 4
SPECIFICATION GenSpec
CONSTRAINT Emit
CHECK_DEADLOCK FALSE
