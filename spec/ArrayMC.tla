------------------------------ MODULE ArrayMC ------------------------------
(* Thread-level model of qb_array_index / qb_array_grow at the granularity of
   the grow lock: each thread repeatedly picks a call; inside a call the steps are
   lock, the critical section (may replace the bin table: the old table is
   freed), unlock, and - in the code as found (Bug = TRUE) - a read of the bin
   table after the lock was released.  Checks that the locking discipline of
   Array.tla implies that no thread ever reads a freed table.               *)
EXTENDS Naturals, FiniteSets, TLC
CONSTANTS Threads, Bug, MaxGrow
VARIABLES tver,     \* current version of the bin table (a->bin)
          freed,    \* versions already released by realloc
          holder, pc, seen,  \* per thread: program counter, table version it loaded
          badRead
vars == <<tver, freed, holder, pc, seen, badRead>>
Init == tver = 1 /\ freed = {} /\ holder = 0 /\ pc = [t \in Threads |-> "idle"] /\ seen = [t \in Threads |-> 0] /\ badRead = FALSE
Call(t, kind) == pc[t] = "idle" /\ pc' = [pc EXCEPT ![t] = kind] /\ UNCHANGED <<tver, freed, holder, seen, badRead>>
Lock(t) == pc[t] \in {"index", "grow"} /\ holder = 0 /\ holder' = t
           /\ pc' = [pc EXCEPT ![t] = IF pc[t] = "index" THEN "index_cs" ELSE "grow_cs"] /\ UNCHANGED <<tver, freed, seen, badRead>>
(* critical section of grow / of index touching a bin beyond the table: the table may be reallocated *)
CsRealloc(t) == pc[t] \in {"index_cs", "grow_cs"} /\ holder = t /\ tver < MaxGrow
                /\ tver' = tver + 1 /\ freed' = freed \cup {tver} /\ UNCHANGED <<holder, pc, seen, badRead>>
(* the table pointer is loaded ... *)
LoadTable(t) == /\ \/ (pc[t] = "index_cs" /\ holder = t /\ ~Bug /\ pc' = [pc EXCEPT ![t] = "index_loaded"])
                   \/ (pc[t] = "index_unlocked" /\ Bug /\ pc' = [pc EXCEPT ![t] = "index_loaded_u"])
                /\ seen' = [seen EXCEPT ![t] = tver] /\ UNCHANGED <<tver, freed, holder, badRead>>
Unlock(t) == /\ holder = t
             /\ \/ (pc[t] = "grow_cs" /\ pc' = [pc EXCEPT ![t] = "idle"])
                \/ (pc[t] = "index_loaded" /\ pc' = [pc EXCEPT ![t] = "index_deref"])
                \/ (pc[t] = "index_cs" /\ Bug /\ pc' = [pc EXCEPT ![t] = "index_unlocked"])
             /\ holder' = 0 /\ UNCHANGED <<tver, freed, seen, badRead>>
(* ... and dereferenced (a->bin[b]): with the fix the bin pointer was already copied under the lock *)
Deref(t) == /\ \/ (pc[t] = "index_deref" /\ badRead' = badRead)                          \* uses the copied bin pointer only
               \/ (pc[t] = "index_loaded_u" /\ badRead' = (badRead \/ seen[t] \in freed)) \* reads the table it loaded
            /\ pc' = [pc EXCEPT ![t] = "idle"] /\ UNCHANGED <<tver, freed, holder, seen>>
Next == \E t \in Threads : Call(t, "index") \/ Call(t, "grow") \/ Lock(t) \/ CsRealloc(t) \/ LoadTable(t) \/ Unlock(t) \/ Deref(t)
Spec == Init /\ [][Next]_vars
NoFreedTableRead == ~badRead
LockedTableAccess == \A t \in Threads : pc[t] \in {"index_loaded"} => holder = t
=============================================================================
