CONSTANTS Threads = {1, 2, 3}  Bug = TRUE  MaxGrow = 3
SPECIFICATION Spec
INVARIANT NoFreedTableRead
INVARIANT LockedTableAccess
CHECK_DEADLOCK FALSE
