CONSTANTS MaxConn = 3  MaxBody = 1  MaxTop = 5  MaxRetry = 1  MaxSvcRef = 1
CONSTANTS Fix = {}  Skip = {1, 2, 3, 4, 6, 7}
SPECIFICATION MCSpec
INVARIANT TypeOK
INVARIANT WordOK
INVARIANT ClosedOnlyIfCreated
INVARIANT DestroyedAtZero
INVARIANT RetryKeepsRef
INVARIANT NoZombie
INVARIANT Conforms
INVARIANT NoUseAfterFree
INVARIANT NoTornUse
CHECK_DEADLOCK FALSE
