------------------------------- MODULE StrOps -------------------------------
(* strlcpy / strlcat as shipped in lib/strlcpy.c, lib/strlcat.c (used throughout
   the library on platforms whose libc lacks them) -- beyond the listed
   properties (DESIGN.md section 7).  Pure functions: the specification is the
   input/output relation the two header comments promise, over a destination
   buffer of Cap bytes (a sequence of byte values, 0 = NUL):

     strlcpy(dst, src, n): copies at most n-1 bytes of src and NUL-terminates,
       nothing is written when n = 0; returns Len(src).
     strlcat(dst, src, n): appends src to the string in dst so that the whole
       takes at most n bytes including the NUL; when the string already in dst
       is n bytes or longer nothing is written; returns Len(dst string) + Len(src).
   No byte outside dst[1..n] is ever written.                                  *)
EXTENDS Naturals, Sequences, TLC

Min(a, b) == IF a < b THEN a ELSE b
StrLen(buf) == (CHOOSE i \in 1..Len(buf) : buf[i] = 0 /\ \A j \in 1..(i - 1) : buf[j] # 0) - 1
HasNul(buf) == \E i \in 1..Len(buf) : buf[i] = 0

(* buf with src[1..k] and a NUL written at offset off (0-based) *)
Put(buf, off, src, k) == [i \in 1..Len(buf) |->
   IF i > off /\ i <= off + k THEN src[i - off] ELSE IF i = off + k + 1 THEN 0 ELSE buf[i]]

Cpy(buf, src, n) == IF n = 0 THEN buf ELSE Put(buf, 0, src, Min(n - 1, Len(src)))
CpyRet(buf, src, n) == Len(src)

Cat(buf, src, n) ==
  LET cur == StrLen(buf) IN
  IF cur >= n THEN buf ELSE Put(buf, cur, src, Min(n - cur - 1, Len(src)))
CatRet(buf, src, n) == StrLen(buf) + Len(src)

(* an observed call: the arguments, the buffer afterwards, the return value *)
CallOK(op, buf, src, n, after, ret) ==
  /\ HasNul(buf) /\ n <= Len(buf)
  /\ IF op = "Cpy" THEN after = Cpy(buf, src, n) /\ ret = CpyRet(buf, src, n)
                   ELSE after = Cat(buf, src, n) /\ ret = CatRet(buf, src, n)

(* properties of the relation itself (checked by TLC over a small universe, StrOpsMC) *)
Bounded(buf, src, n) ==
  /\ \A i \in (n + 1)..Len(buf) : Cpy(buf, src, n)[i] = buf[i] /\ Cat(buf, src, n)[i] = buf[i]
  /\ (n > 0 => HasNul(SubSeq(Cpy(buf, src, n), 1, n)))
  /\ (n > StrLen(buf) => HasNul(SubSeq(Cat(buf, src, n), 1, n)))
=============================================================================
