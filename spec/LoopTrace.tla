----------------------------- MODULE LoopTrace -----------------------------
(* Trace validation: a recorded run of the real qb_loop (virtual clock, scripted
   poll results) must be a behaviour of Loop.                                *)
EXTENDS Loop, Json, IOUtils
Tr == ndJsonDeserialize(IOEnv.TRACE)
VARIABLES l,
          nd       \* callbacks dispatched since the loop last polled
(* An iteration is what lies between two poll calls (the property's own observation point).  "Dispatched within a
   bounded number of iterations" presupposes that an iteration ends: a loop that goes on dispatching without ever
   polling again starves every descriptor and is rejected here.  The bound is generous on purpose: the mechanism
   (LoopImpl.tla, all schedules) dispatches at most 3 levels x 4 items per iteration.                             *)
IterCap == 64
IsCb(e) == e \in {"CbJob", "CbTimer", "CbFd", "CbSig"}
TraceInit == Init /\ l = 1 /\ nd = 0
ResetState ==
  /\ jobs' = <<>> /\ timers' = <<>> /\ fds' = <<>> /\ sigs' = <<>> /\ kreg' = {} /\ sigq' = <<>>
  /\ now' = BT(0, 1000, 0) /\ seqno' = 0 /\ running' = FALSE /\ stopReq' = FALSE
  /\ disp' = L3(FALSE) /\ dry' = L3(0) /\ turns' = L3(0) /\ elig' = L3(FALSE) /\ taint' = FALSE /\ lastTimeout' = 0
Ok(rc, should) == (rc = 0) <=> should
SeqToSet(s) == {s[i] : i \in 1..Len(s)}
TDo(ev) ==
  LET a == ev.a  r == ev.r IN
  CASE ev.e = "JobAdd"     -> r[1] = 0 /\ JobAdd(a[1], a[2])
    [] ev.e = "JobDel"     -> Ok(r[1], JobDelOk(a[1])) /\ JobDel(a[1])
    [] ev.e = "TimerAdd"   -> r[1] = 0 /\ TimerAdd(a[1], a[2], a[3])
    [] ev.e = "TimerDel"   -> Ok(r[1], TimerLive(a[1])) /\ TimerDel(a[1])
    [] ev.e = "TimerQuery" -> TimerQueryOK(a[1], r[1], r[2]) /\ UNCHANGED vars
    [] ev.e = "PollAdd"    -> Ok(r[1], PollAddOk(a[2])) /\ PollAdd(a[1], a[2], a[3], a[4], a[5])
    [] ev.e = "PollDel"    -> \* with the descriptor still polled by the kernel a delete of a live registration must succeed;
                              \* deleting something that is not registered has no effect (its return value is not constrained),
                              \* and for an already closed descriptor the kernel's answer is passed on while the registration goes anyway
                              (IF PollDelOk(a[1]) /\ a[1] \in kreg THEN r[1] = 0 ELSE TRUE) /\ PollDel(a[1])
    [] ev.e = "PollMod"    -> (IF PollModOk(a[1]) /\ a[1] \notin kreg THEN TRUE ELSE Ok(r[1], PollModOk(a[1]))) /\ PollModFn(a[1], a[2], a[3], a[4])
    [] ev.e = "FdClose"    -> FdClose(a[1])
    [] ev.e = "SigAdd"     -> r[1] = 0 /\ SigAdd(a[1], a[2], a[3])
    [] ev.e = "SigDel"     -> r[1] = 0 /\ SigDel(a[1])
    [] ev.e = "Stop"       -> Stop
    [] ev.e = "Tick"       -> Tick(a[1])
    [] ev.e = "RunBegin"   -> RunBegin
    [] ev.e = "RunEnd"     -> RunEnd
    [] ev.e = "Poll"       -> Poll(a[1], SeqToSet(a[2]), a[3], a[4]) /\ now' = r[1]
    [] ev.e = "CbJob"      -> CbJob(a[1])
    [] ev.e = "CbTimer"    -> CbTimer(a[1])
    [] ev.e = "CbFd"       -> CbFd(a[1], a[2]) /\ fds[a[1]].fn = a[3]
    [] ev.e = "CbFdRet"    -> CbFdRet(a[1])
    [] ev.e = "CbSig"      -> CbSig(a[1])
TraceNext ==
  /\ l <= Len(Tr) /\ l' = l + 1
  /\ IF Tr[l].e = "Reset" THEN ResetState ELSE TDo(Tr[l])
  /\ nd' = IF Tr[l].e \in {"Reset", "Poll", "RunBegin"} THEN 0 ELSE IF IsCb(Tr[l].e) THEN nd + 1 ELSE nd
  /\ nd' <= IterCap
TraceSpec == TraceInit /\ [][TraceNext]_<<vars, l, nd>>
TraceAccepted == TLCGet("stats").diameter - 1 = Len(Tr)
=============================================================================
