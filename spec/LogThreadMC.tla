---------------------------- MODULE LogThreadMC ----------------------------
(* Design check of LogThread: all interleavings of the application thread and the
   logging thread, all legal orders of init / set-threaded / start / control / log /
   fini / re-init, for small constants.  The configurations differ in `Fixes`
   (which repairs the modelled code has) and in the ACTION_CONSTRAINTs that leave
   out exactly the triggers of the findings not yet repaired.                   *)
EXTENDS LogThread
=============================================================================
