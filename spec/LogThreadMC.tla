---------------------------- MODULE LogThreadMC ----------------------------
(* Design check of LogThread: all interleavings of the application thread and the
   logging thread, all legal orders of init / set-threaded / start / control / log /
   fini / re-init, for small constants.  The configurations differ in `Fixes`
   (which repairs the modelled code has) and `Skip` (the findings whose trigger
   step is left out):
     LogThreadMC.cfg        the code as found, triggers of findings 11-13 left out
     LogThreadMC_fixed.cfg  the repaired design, nothing left out
     LogThreadMC_kf1N.cfg   the code as found with the trigger of finding 1N NOT left
                            out: must yield the counterexample
     LogThreadMC_live*.cfg  every call returns (qb_log_fini terminates) under weak fairness
   vlib/checks/c16.py generates the same configurations for the repairs it detects. *)
EXTENDS LogThread
=============================================================================
