------------------------------ MODULE BbCodec ------------------------------
(* Blackbox message codec (lib/log_format.c: qb_vsnprintf_serialize /
   qb_vsnprintf_deserialize, used by lib/log_blackbox.c) -- property C14.

   A format is a sequence of TOKENS (integer tuples, so that recorded traces
   compare without type errors):
     <<0, kind, n>>                              literal text of n >= 1 characters, no '%'
                                                 (kind 1: the text starts like a conversion, "d...")
     <<1>>                                       "%%"
     <<2, fl, wk, wv, pk, pv, lm, cv, ak, sl>>   one conversion directive
        fl  flag bits: 1 '-', 2 '0', 4 '+', 8 ' ', 16 '#', 32 '''
        wk  width:     0 none, 1 digits (value wv), 2 '*' (int argument wv)
        pk  precision: 0 none, 1 '.' digits (value pv), 2 ".*" (int argument pv, may be negative)
        lm  length modifier: 0 none, 1 l, 2 ll, 3 z, 4 t, 5 j
        cv  conversion: index into  d i o u x X c s p e E f F g G a A   (0..16)
        ak  which value of the argument menu was passed (the harness owns the menu)
        sl  for cv = s: strlen of the argument, -1 for a NULL pointer; 0 otherwise

   REQUIRED record ("format string, NUL, then the raw argument values in
   order"): for each directive an int (4 bytes) per '*', then the argument:
   4 bytes (int), 8 (long, long long, size_t, ptrdiff_t, intmax_t, double,
   pointer), 1 (%c), and for %s a NUL terminated copy that holds at least
   the characters printf would print (all of them, or the first `precision`),
   "(null)" for a NULL pointer.  "%%" and literals have no argument.  Nothing
   is carried from one directive to the next.

   Calls: Vec (fix the format/arguments under test, with libc's reference
   lengths), Enc(M) (serialize into M reserved bytes), Ext (how many record
   bytes the decoder reads), Dec(M, S) (deserialize the record made by Enc(M)
   into an S byte buffer), Bb (the whole blackbox path).

   The automata EncRun / DecRun transcribe the two directive loops over
   tokens.  With sw = {} they are the required behaviour; the switches
   "carry", "pct", "encs", "decb" reproduce the code as found (known findings
   KF-C14-1..5), so that the same module yields the model-level reproducers
   and the trigger predicates KF3 / KF4 used to tolerate exactly those.
   (KF-C14-8, a negative '*' precision rebuilt as ".-1", is about the text of the
   rebuilt directive and has no model switch: trigger predicate only.)      *)
EXTENDS Naturals, Integers, Sequences, FiniteSets, TLC

CONSTANTS AsIs,    \* switches applied to the model automata in the design check ({} = required)
          KF,      \* known-finding numbers whose trigger is excluded / tolerated
          Toks,    \* design check / generator: alphabet of <<token, printed length>> pairs
          MaxTok,  \* design check / generator: longest format explored
          Ms, Ss   \* design check: reserved sizes and decoder buffer sizes explored

VARIABLES vec,     \* the token sequence under test
          lens,    \* per token: number of characters printf prints for it (reference)
          encs     \* [M -> value returned by Enc(M)]
vars == <<vec, lens, encs>>

BIG == 100000
LineMax == 512                      \* QB_LOG_MAX_LEN: blackbox reservation and print buffer
Min(a, b) == IF a < b THEN a ELSE b
Max(a, b) == IF a > b THEN a ELSE b

IsLit(t) == t[1] = 0
IsPct(t) == t[1] = 1
IsConv(t) == t[1] = 2
Fl(t) == t[2]  Wk(t) == t[3]  Wv(t) == t[4]  Pk(t) == t[5]  Pv(t) == t[6]
Lm(t) == t[7]  Cv(t) == t[8]  Ak(t) == t[9]  Sl(t) == t[10]
IsInt(t) == Cv(t) \in 0..5
IsC(t) == Cv(t) = 6
IsS(t) == Cv(t) = 7
IsConvS(t) == IsConv(t) /\ IsS(t)
Has0(t) == (Fl(t) \div 2) % 2 = 1

Digits(v) == IF v < 10 THEN 1 ELSE IF v < 100 THEN 2 ELSE IF v < 1000 THEN 3 ELSE 4
P10(d) == IF d = 1 THEN 10 ELSE IF d = 2 THEN 100 ELSE IF d = 3 THEN 1000 ELSE 10000
Pop(f) == (f % 2) + ((f \div 2) % 2) + ((f \div 4) % 2) + ((f \div 8) % 2) + ((f \div 16) % 2) + ((f \div 32) % 2)
LmLen(m) == IF m = 0 THEN 0 ELSE IF m = 2 THEN 2 ELSE 1

WellFormed(t) ==
  \/ IsLit(t) /\ Len(t) = 3 /\ t[2] \in 0..1 /\ t[3] \in 1..BIG
  \/ IsPct(t) /\ Len(t) = 1
  \/ /\ IsConv(t) /\ Len(t) = 10 /\ Fl(t) \in 0..63 /\ Wk(t) \in 0..2 /\ Pk(t) \in 0..2
     /\ Lm(t) \in 0..5 /\ Cv(t) \in 0..16
     /\ (Wk(t) = 1 => Wv(t) \in 0..9999) /\ (Pk(t) = 1 => Pv(t) \in 0..9999)
     /\ (Wk(t) = 0 => Wv(t) = 0) /\ (Pk(t) = 0 => Pv(t) = 0)
     /\ (IsS(t) => Sl(t) >= -1) /\ (~IsS(t) => Sl(t) = 0)
     \* length modifiers: any on the integer conversions, l (no effect) on the floating ones
     /\ (Lm(t) # 0 => IsInt(t) \/ (Cv(t) >= 9 /\ Lm(t) = 1))

(* number of characters of the format string *)
TokFmtLen(t) ==
  IF IsLit(t) THEN t[3] ELSE IF IsPct(t) THEN 2
  ELSE 1 + Pop(Fl(t)) + (IF Wk(t) = 1 THEN Digits(Wv(t)) ELSE IF Wk(t) = 2 THEN 1 ELSE 0)
         + (IF Pk(t) = 1 THEN 1 + Digits(Pv(t)) ELSE IF Pk(t) = 2 THEN 2 ELSE 0) + LmLen(Lm(t)) + 1
SumTo(v, f(_)) == LET s[i \in 0..Len(v)] == IF i = 0 THEN 0 ELSE s[i - 1] + f(v[i]) IN s[Len(v)]
FmtLen(v) == SumTo(v, TokFmtLen)
Id(x) == x
Total(ls) == SumTo(ls, Id)

-----------------------------------------------------------------------------
(* The required record.                                                      *)
StarB(t) == (IF Wk(t) = 2 THEN 4 ELSE 0) + (IF Pk(t) = 2 THEN 4 ELSE 0)
FixB(t) == IF IsInt(t) THEN (IF Lm(t) = 0 THEN 4 ELSE 8) ELSE IF IsC(t) THEN 1 ELSE 8
Peff(t) == IF Pk(t) # 0 /\ Pv(t) >= 0 THEN Pv(t) ELSE BIG       \* a negative '*' precision counts as absent
ArgMin(t) == IF ~IsS(t) THEN FixB(t) ELSE IF Sl(t) = -1 THEN 7 ELSE Min(Sl(t), Peff(t)) + 1
ArgMax(t) == IF ~IsS(t) THEN FixB(t) ELSE IF Sl(t) = -1 THEN 7 ELSE Sl(t) + 1
TokMin(t) == IF IsConv(t) THEN StarB(t) + ArgMin(t) ELSE 0
TokMax(t) == IF IsConv(t) THEN StarB(t) + ArgMax(t) ELSE 0
RecMin(v) == FmtLen(v) + 1 + SumTo(v, TokMin)
RecMax(v) == FmtLen(v) + 1 + SumTo(v, TokMax)

(* Enc(M) returned ret.  A value below M announces a complete record; the
   caller (blackbox) treats ret >= M as "too long".  A record that fits is stored. *)
EncOK(v, M, ret) == /\ (ret < M => ret >= RecMin(v) /\ ret <= RecMax(v))
                    /\ (RecMax(v) < M => ret < M)

-----------------------------------------------------------------------------
(* Encoder automaton (qb_vsnprintf_serialize), one step per token.
   sw: "carry" precision digits are remembered across directives (reset only by %%)
       "pct"   "%%" stores a byte (and the second '%' is parsed again as a directive start)
       "encs"  %s does not test for exhausted space before computing the remaining room *)
Clamp(x) == Min(x, BIG)
Store(st, z, M) == IF st.stop THEN st
                   ELSE IF st.loc + z > M THEN [st EXCEPT !.stop = TRUE]
                   ELSE [st EXCEPT !.loc = @ + z, !.slots = Append(@, z)]
StoreStr(st, t, M, sw) ==
  LET L == IF Sl(t) = -1 THEN 6 ELSE Sl(t)
      want == IF Sl(t) = -1 THEN 6 ELSE IF st.plen > 0 THEN Min(L, st.plen) ELSE L
      need == IF Sl(t) = -1 THEN 6 ELSE Min(L, Peff(t))
  IN IF st.loc > M THEN (IF "encs" \in sw THEN [st EXCEPT !.oob = TRUE, !.loc = @ + want + 1]
                                          ELSE [st EXCEPT !.stop = TRUE])
     ELSE IF st.loc = M THEN (IF "encs" \in sw THEN [st EXCEPT !.loc = @ + L + 1] ELSE [st EXCEPT !.stop = TRUE])
     ELSE LET w == Min(want, M - st.loc - 1) IN
          [st EXCEPT !.loc = @ + w + 1, !.slots = Append(@, w + 1), !.enough = @ /\ w >= need]
EncTok(st, t, nxt, M, sw) ==
  IF st.stop \/ IsLit(t) THEN st
  ELSE IF IsPct(t) THEN
    LET r == [st EXCEPT !.pon = FALSE, !.plen = 0] IN
    IF "pct" \notin sw THEN r
    ELSE LET s1 == Store(r, 1, M) IN IF nxt[1] = 0 /\ nxt[2] = 1 THEN Store(s1, 4, M) ELSE s1
  ELSE
    LET a0 == IF "carry" \in sw THEN st ELSE [st EXCEPT !.pon = FALSE, !.plen = 0]
        a1 == IF a0.pon /\ Has0(t) THEN [a0 EXCEPT !.plen = Clamp(@ * 10)] ELSE a0
        a2 == IF Wk(t) = 1 THEN (IF a1.pon THEN [a1 EXCEPT !.plen = Clamp(Clamp(@) * P10(Digits(Wv(t))) + Wv(t))] ELSE a1)
              ELSE IF Wk(t) = 2 THEN Store(a1, 4, M) ELSE a1
        a3 == IF Pk(t) = 0 THEN a2
              ELSE IF Pk(t) = 1 THEN [a2 EXCEPT !.pon = TRUE, !.plen = Clamp(Clamp(@) * P10(Digits(Pv(t))) + Pv(t))]
              ELSE Store([a2 EXCEPT !.pon = TRUE], 4, M)
    IN IF a3.stop THEN a3 ELSE IF IsS(t) THEN StoreStr(a3, t, M, sw) ELSE Store(a3, FixB(t), M)
EncRun(v, M, sw) ==
  LET st0 == [loc |-> Min(FmtLen(v), M - 1) + 1, pon |-> FALSE, plen |-> 0, stop |-> FALSE, oob |-> FALSE,
              slots |-> <<>>, enough |-> TRUE]
      run[i \in 0..Len(v)] == IF i = 0 THEN st0
                              ELSE EncTok(run[i - 1], v[i], IF i < Len(v) THEN v[i + 1] ELSE <<1>>, M, sw)
      fin == run[Len(v)]
  IN [ret |-> IF fin.stop THEN M ELSE fin.loc, oob |-> fin.oob, slots |-> fin.slots, enough |-> fin.enough]

(* Decoder automaton (qb_vsnprintf_deserialize) over the same tokens, reading the
   slot list `slots`, printing ls[i] characters for token i into S bytes.
   sw: "decb" literal copies, "%%" and the position after an over-long directive are not bounded,
              and the text is not terminated after a literal / "%%"                             *)
DecFixB(t) == IF IsInt(t) THEN (IF Lm(t) = 0 THEN 4 ELSE 8) ELSE IF IsC(t) THEN 1 ELSE 8
Take(st, z) == [st EXCEPT !.cons = Append(@, z), !.di = @ + 1]
DecTok(st, t, ol, last, slots, S, sw) ==
  IF IsLit(t) THEN
    IF last THEN st                                    \* the tail is appended with a bounded strlcat
    ELSE IF "decb" \in sw THEN [st EXCEPT !.oob = @ \/ st.loc + ol > S, !.loc = @ + ol,
                                          !.term = IF st.loc < S THEN FALSE ELSE @]
    ELSE [st EXCEPT !.loc = Min(@ + ol, S - 1)]
  ELSE IF IsPct(t) THEN
    IF "decb" \in sw THEN [st EXCEPT !.oob = @ \/ st.loc >= S, !.loc = @ + 1, !.term = IF st.loc < S THEN FALSE ELSE @]
    ELSE [st EXCEPT !.loc = Min(@ + 1, S - 1)]
  ELSE
    LET c1 == IF Wk(t) = 2 THEN Take(st, 4) ELSE st
        c2 == IF Pk(t) = 2 THEN Take(c1, 4) ELSE c1
        c3 == IF IsS(t) THEN Take(c2, IF c2.di <= Len(slots) THEN slots[c2.di] ELSE -1) ELSE Take(c2, DecFixB(t))
    IN IF "decb" \in sw THEN [c3 EXCEPT !.oob = @ \/ st.loc > S, !.loc = @ + ol, !.term = IF st.loc < S THEN TRUE ELSE @]
       ELSE [c3 EXCEPT !.loc = Min(@ + ol, S - 1)]
DecRun(v, slots, ls, S, sw) ==
  LET st0 == [loc |-> 0, term |-> TRUE, oob |-> FALSE, cons |-> <<>>, di |-> 1]
      run[i \in 0..Len(v)] == IF i = 0 THEN st0 ELSE DecTok(run[i - 1], v[i], ls[i], i = Len(v), slots, S, sw)
      fin == run[Len(v)]
  IN [oob |-> fin.oob \/ ~fin.term, cons |-> fin.cons, loc |-> fin.loc]

-----------------------------------------------------------------------------
(* Known findings: trigger predicates.  1, 2, 5, 8 are properties of the format
   alone (used by the generator); 3, 4 depend on the sizes (evaluated on the
   recorded call); 6 concerns qb_log_blackbox_print_from_file.               *)
KF1(v) == \E i, j \in 1..Len(v) : /\ i < j /\ IsConv(v[i]) /\ Pk(v[i]) # 0 /\ IsConvS(v[j])
                                  /\ \A k \in (i + 1)..(j - 1) : ~IsPct(v[k])
KF2(v) == \E i \in 1..Len(v) : IsPct(v[i])
KF3(v, ls, S) == DecRun(v, <<>>, ls, S, {"decb"}).oob
KF4(v, M) == EncRun(v, M, {"encs"}).oob
KF5(v) == \E i \in 1..Len(v) : IsPct(v[i]) /\ \A k \in (i + 1)..Len(v) : IsLit(v[k])
KF6(v, ls) == Total(ls) >= LineMax - 1 /\ RecMin(v) < LineMax
KF8(v) == \E i \in 1..Len(v) : IsConv(v[i]) /\ Pk(v[i]) = 2 /\ Pv(v[i]) < 0
(* outside the quantifier: printf("%.3s", NULL) has no defined text (glibc prints "" where the stored "(null)" gives "(nu") *)
NullPrec(v) == \E i \in 1..Len(v) : IsConvS(v[i]) /\ Sl(v[i]) = -1 /\ Pk(v[i]) # 0

-----------------------------------------------------------------------------
(* The calls.                                                                *)
Init == vec = <<>> /\ lens = <<>> /\ encs = <<>>

(* Vec: the format/arguments under test with the reference lengths measured by libc *)
VecOK(v, ls, flen, reflen) ==
  /\ \A i \in 1..Len(v) : WellFormed(v[i])
  /\ Len(ls) = Len(v) /\ flen = FmtLen(v) /\ reflen = Total(ls)
  /\ \A i \in 1..Len(v) : /\ ls[i] >= 0
                          /\ (IsLit(v[i]) => ls[i] = v[i][3])
                          /\ (IsPct(v[i]) => ls[i] = 1)
Vec(v, ls) == vec' = v /\ lens' = ls /\ encs' = <<>>

Enc(M, ret) == encs' = (M :> ret) @@ encs /\ UNCHANGED <<vec, lens>>

Complete(M) == M \in DOMAIN encs /\ encs[M] < M
(* Ext: the decoder reads exactly the record the encoder produced *)
ExtOK(M, ext) == Complete(M) /\ ext = encs[M]

(* Dec(M, S) -> <<tl, eq>>: tl = length of the decoded text (S if unterminated), eq = 1 iff it equals printf's text.
   <<-3>>: the store beyond the buffer of known finding 3 was observed (tolerated only under its trigger) *)
DecOK(M, S, r) ==
  /\ Complete(M)
  /\ IF r = <<-3>> THEN 3 \in KF /\ KF3(vec, lens, S)
     ELSE Total(lens) < S => r[1] = Total(lens) /\ r[2] = 1

(* Enc tolerated outcome <<-4>> (store beyond the reservation observed) only under trigger 4 *)
EncSkipOK(M) == 4 \in KF /\ KF4(vec, M)

(* Bb -> <<eqref, eqnotice>> through _blackbox_vlogger, dump, qb_log_blackbox_print_from_file
   (reservation and print buffer are LineMax); <<-k>>: not run because trigger k applies *)
Notice == 78   \* "Log message too long to be stored in the blackbox.  Maximum is QB_LOG_MAX_LEN"
BbOK(r) ==
  IF r = <<-3>> THEN 3 \in KF /\ KF3(vec, lens, LineMax)
  ELSE IF r = <<-4>> THEN 4 \in KF /\ KF4(vec, LineMax)
  ELSE IF r = <<-6>> THEN 6 \in KF /\ KF6(vec, lens)
  ELSE /\ (RecMax(vec) < LineMax /\ Total(lens) < LineMax => r[1] = 1)
       /\ (RecMin(vec) >= LineMax => r[2] = 1)

-----------------------------------------------------------------------------
(* Design check: every format over the alphabet Toks, every M in Ms, S in Ss. *)
Add(p) == /\ Len(vec) < MaxTok /\ encs = <<>>
          /\ ~(Len(vec) > 0 /\ IsLit(vec[Len(vec)]) /\ IsLit(p[1]))     \* adjacent literals are one literal
          /\ vec' = Append(vec, p[1]) /\ lens' = Append(lens, p[2]) /\ UNCHANGED encs
ALit  == \E p \in Toks : IsLit(p[1]) /\ Add(p)
APct  == \E p \in Toks : IsPct(p[1]) /\ Add(p)
AConv == \E p \in Toks : IsConv(p[1]) /\ Add(p)
MaxM == CHOOSE M \in Ms : \A N \in Ms : N <= M
AEnc  == encs = <<>> /\ Len(vec) > 0 /\ Enc(MaxM, EncRun(vec, MaxM, AsIs).ret)   \* (the invariants cover every M in Ms)
ADec  == \E M \in Ms, S \in Ss : Complete(M) /\ UNCHANGED vars
Next == ALit \/ APct \/ AConv \/ AEnc \/ ADec
Spec == Init /\ [][Next]_vars

Tolerated(v) == (1 \in KF /\ KF1(v)) \/ (2 \in KF /\ KF2(v)) \/ (5 \in KF /\ KF5(v)) \/ (8 \in KF /\ KF8(v))

(* encoder: never stores beyond M; its return value obeys the contract; a complete record holds
   every character printf needs *)
InvEnc == ~Tolerated(vec) => \A M \in Ms : LET e == EncRun(vec, M, AsIs) IN
            /\ (~(4 \in KF /\ KF4(vec, M)) => ~e.oob)
            /\ EncOK(vec, M, e.ret) /\ (e.ret < M => e.enough)
(* slot agreement: the decoder consumes exactly the slots the encoder stored, for every token sequence *)
InvAgree == \A M \in Ms : LET e == EncRun(vec, M, AsIs) IN
            (e.ret < M /\ ~Tolerated(vec)) => DecRun(vec, e.slots, lens, LineMax, AsIs).cons = e.slots
(* decoder: never stores beyond S, text terminated inside the buffer *)
InvDec == \A S \in Ss : ~(3 \in KF /\ KF3(vec, lens, S)) /\ ~(5 \in KF /\ KF5(vec)) => ~DecRun(vec, <<>>, lens, S, AsIs).oob
TypeOK == /\ Len(vec) <= MaxTok /\ Len(lens) = Len(vec) /\ \A i \in 1..Len(vec) : WellFormed(vec[i])
          /\ DOMAIN encs \subseteq Ms
=============================================================================
