CONSTANTS Cap = 3  NCap = 2  MaxSends = 3  Lens = {16, 33}  MaxMsgMC = 32
SPECIFICATION Spec
INVARIANT TypeOK
INVARIANT ReqFifo
INVARIANT RespFifo
INVARIANT EvtFifo
INVARIANT DeliveredPrefix
INVARIANT Quiescent
INVARIANT SizesOK
INVARIANT SizesOKS
INVARIANT EvtCount
INVARIANT ReqCount
INVARIANT SockNoBytes
INVARIANT PollOutInv
INVARIANT ReqWake
INVARIANT ReadableNoDefer
INVARIANT ReadableExceptKF1
PROPERTY NoEffectOnError
CHECK_DEADLOCK FALSE
