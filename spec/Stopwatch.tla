----------------------------- MODULE Stopwatch -----------------------------
(* qb_util_stopwatch_* (lib/util.c, include/qb/qbutil.h) -- beyond the listed
   properties (DESIGN.md section 7).

   What the header promises, written as a sequential object over a clock the
   environment advances:
     - start sets the starting time and clears the splits; stop remembers the
       time; the elapsed time is stop - start, 0 unless started and stopped;
     - split_ctl(n, options) gives room for n splits; without OVERWRITE the
       (n+1)-th split is refused (0), with it the oldest is overwritten;
     - split records the current time (starting the watch if it never was) and
       returns the time since the previous split, or since the start for the
       first one;
     - split_last is the index of the newest split (0 when there is none);
     - time_split_get(recent, older) is the time from split `older` to split
       `recent` (from the start when they are equal); 0 when either index does
       not name a split that is still stored, or recent < older.
   Times are in microseconds; the harness's clock moves in whole microseconds. *)
EXTENDS Naturals, Integers, Sequences, TLC

CONSTANTS Sizes,     \* split_ctl sizes offered
          Ticks,     \* clock advances offered (microseconds)
          MaxIdx,    \* split indices asked for: 0..MaxIdx
          MaxSplits  \* bounded exploration: splits taken since the last start

VARIABLES now, started, stopped, size, ow, splits
vars == <<now, started, stopped, size, ow, splits>>

Init == now = 1000 /\ started = 0 /\ stopped = 0 /\ size = 0 /\ ow = FALSE /\ splits = <<>>

N == Len(splits)
Stored(i) == i < N /\ (ow /\ N > size => i >= N - size)     \* split i (0-based) is still in the ring

Res(op) ==
  CASE op[1] = "Tick" -> <<>>
    [] op[1] = "Start" -> <<>>
    [] op[1] = "Stop" -> <<>>
    [] op[1] = "Elapsed" -> <<IF started = 0 \/ stopped = 0 THEN 0 ELSE stopped - started>>
    [] op[1] = "SplitCtl" -> <<0>>
    [] op[1] = "Split" ->
         IF size = 0 \/ (~ow /\ N = size) THEN <<0>>
         ELSE <<now - (IF N = 0 THEN (IF started = 0 THEN now ELSE started) ELSE splits[N])>>
    [] op[1] = "SplitLast" -> <<IF N > 0 THEN N - 1 ELSE 0>>
    [] op[1] = "SplitGet" ->
         LET r == op[2]  o == op[3] IN
         IF started = 0 \/ ~Stored(r) \/ ~Stored(o) \/ r < o THEN <<0>>
         ELSE <<splits[r + 1] - (IF o = r THEN started ELSE splits[o + 1])>>

Do(op) ==
  CASE op[1] = "Tick" -> now' = now + op[2] /\ UNCHANGED <<started, stopped, size, ow, splits>>
    [] op[1] = "Start" -> started' = now /\ stopped' = 0 /\ splits' = <<>> /\ UNCHANGED <<now, size, ow>>
    [] op[1] = "Stop" -> stopped' = now /\ UNCHANGED <<now, started, size, ow, splits>>
    [] op[1] = "SplitCtl" -> size' = op[2] /\ ow' = (op[3] = 1) /\ UNCHANGED <<now, started, stopped, splits>>
    [] op[1] = "Split" ->
         IF size = 0 \/ (~ow /\ N = size) THEN UNCHANGED vars
         ELSE /\ splits' = Append(splits, now)
              /\ started' = IF started = 0 THEN now ELSE started
              /\ stopped' = IF started = 0 THEN 0 ELSE stopped
              /\ UNCHANGED <<now, size, ow>>
    [] op[1] \in {"Elapsed", "SplitLast", "SplitGet"} -> UNCHANGED vars

(* what the header leaves open: re-dimensioning while splits are stored *)
OpOK(op) == op[1] = "SplitCtl" => N = 0

Ops == {<<"Tick", d>> : d \in Ticks} \cup {<<"Start">>, <<"Stop">>, <<"Elapsed">>, <<"Split">>, <<"SplitLast">>}
       \cup {<<"SplitCtl", n, o>> : n \in Sizes, o \in {0, 1}}
       \cup {<<"SplitGet", r, o>> : r \in 0..MaxIdx, o \in 0..MaxIdx}
Next == \E op \in Ops : OpOK(op) /\ (op[1] = "Split" => N < MaxSplits) /\ Do(op)
Spec == Init /\ [][Next]_vars

TypeOK == now \in Nat /\ started \in Nat /\ stopped \in Nat /\ size \in Nat /\ ow \in BOOLEAN
(* splits are taken in time order, never before the start; a watch without OVERWRITE never holds more than it has room for *)
Ordered == /\ \A i \in 1..N : splits[i] >= started /\ splits[i] <= now
           /\ \A i \in 1..(N - 1) : splits[i] <= splits[i + 1]
Room == ~ow => N <= size
(* the newest split is always readable, and the lap returned by split equals what time_split_get reports for it *)
NewestReadable == (N > 0 /\ size > 0) => Stored(N - 1)
Bound == now < 1007        \* bounded exploration only
=============================================================================
