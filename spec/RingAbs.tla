------------------------------ MODULE RingAbs ------------------------------
(* The ring buffer as its caller sees it (lib/ringbuffer.c, include/qb/qbrb.h):
   a FIFO of chunks with the capacity contract of C07 and the overwrite
   contract of C11.  A chunk is <<len, h>>: its length and a hash of its bytes
   (so "byte for byte" is an equality the specification can state).
   Where the contract leaves the implementation free (a write that does not
   fit *may* still be accepted because the buffer is rounded up to pages; an
   overwriting write *may* keep more than the guaranteed newest chunks) the
   specification is nondeterministic.                                        *)
EXTENDS Naturals, Integers, Sequences, FiniteSets, TLC

CONSTANTS Sizes,     \* requested sizes explored
          Lens,      \* chunk lengths explored
          MaxQ       \* bound on queued chunks (exploration only)

VARIABLES open, S, ovw, q, nw    \* nw: number of writes accepted so far (names the chunks)
vars == <<open, S, ovw, q, nw>>

OVERHEAD == 16
EAGAIN == -11

RECURSIVE Cost(_)
Cost(s) == IF s = <<>> THEN 0 ELSE s[1][1] + OVERHEAD + Cost(Tail(s))
Suffix(s, k) == SubSeq(s, Len(s) - k + 1, Len(s))          \* the newest k chunks

(* a write the contract obliges the buffer to accept *)
MustAccept(len) == (q = <<>> /\ len <= S) \/ (Cost(q) + len + OVERHEAD <= S)
(* newest chunks the overwriting buffer must still hold after accepting chunk c *)
Guaranteed(s) == CHOOSE k \in 1..Len(s) :
                   /\ (k = 1 \/ Cost(Suffix(s, k)) <= S)
                   /\ (k = Len(s) \/ Cost(Suffix(s, k + 1)) > S)

Init == open = FALSE /\ S = 0 /\ ovw = FALSE /\ q = <<>> /\ nw = 0

Open(size, overwrite) ==
  /\ ~open /\ open' = TRUE /\ S' = size /\ ovw' = overwrite /\ q' = <<>> /\ nw' = 0

(* Write / alloc+commit of a chunk c = <<len, h>> with `reserve` bytes asked for at alloc time
   (reserve = len for a plain write).  rc = len: accepted.  rc = EAGAIN: refused, nothing changes. *)
WriteOK(reserve, c, rc) ==
  IF ovw THEN reserve <= S => rc = c[1]                     \* overwrite: everything up to S succeeds
  ELSE /\ (MustAccept(reserve) => rc = c[1])
       /\ rc \in {c[1], EAGAIN}
Write(reserve, c, rc, keep) ==
  /\ open /\ WriteOK(reserve, c, rc)
  /\ IF rc = c[1]
       THEN LET s == Append(q, c) IN
            /\ nw' = nw + 1
            /\ IF ovw THEN \* an unbroken run of the newest chunks; room was made for the reservation, so the
                           \* guarantee counts the new chunk with what was reserved for it
                           /\ keep \in Guaranteed(Append(q, <<reserve, c[2]>>))..Len(s)
                           /\ q' = Suffix(s, keep)
                      ELSE keep = Len(s) /\ q' = s
       ELSE UNCHANGED <<q, nw>>
  /\ UNCHANGED <<open, S, ovw>>

(* Read into a buffer of buflen bytes: returns the oldest chunk, or an error and no change *)
ReadOK(buflen, rc, h) ==
  IF q = <<>> THEN rc < 0
  ELSE IF buflen < q[1][1] THEN rc < 0
  ELSE rc = q[1][1] /\ h = q[1][2]
Read(buflen, rc, h) ==
  /\ open /\ ReadOK(buflen, rc, h)
  /\ q' = (IF q # <<>> /\ rc >= 0 /\ buflen >= q[1][1] THEN Tail(q) ELSE q)
  /\ UNCHANGED <<open, S, ovw, nw>>

PeekOK(rc, h) == IF q = <<>> THEN rc <= 0 ELSE rc = q[1][1] /\ h = q[1][2]
Peek(rc, h) == open /\ PeekOK(rc, h) /\ UNCHANGED vars

Reclaim == /\ open /\ q' = (IF q = <<>> THEN q ELSE Tail(q)) /\ UNCHANGED <<open, S, ovw, nw>>

Close == open /\ open' = FALSE /\ q' = <<>> /\ UNCHANGED <<S, ovw, nw>>

-----------------------------------------------------------------------------
(* bounded exploration of the contract itself *)
H(len) == 1000 + len                      \* stand-in for the hash of the bytes of the nw-th chunk
AOpen    == \E sz \in Sizes, o \in BOOLEAN : Open(sz, o)
AWrite   == \E len \in Lens : len <= S + 8 /\ Len(q) < MaxQ /\
              \E rc \in {len, EAGAIN}, keep \in 1..(Len(q) + 1) : Write(len, <<len, H(len) + nw>>, rc, keep)
ARead    == \E b \in {0, 64, 100000} : \E rc \in {-1} \cup Lens, h \in {0} \cup {q[i][2] : i \in 1..Len(q)} : Read(b, rc, h)
APeek    == \E rc \in {-1} \cup Lens, h \in {0} \cup {q[i][2] : i \in 1..Len(q)} : Peek(rc, h)
AReclaim == Reclaim
AClose   == Close
Next == AOpen \/ AWrite \/ ARead \/ APeek \/ AReclaim \/ AClose
Spec == Init /\ [][Next]_vars

TypeOK == open \in BOOLEAN /\ \A i \in 1..Len(q) : q[i][1] \in Nat
(* C07: nothing accepted is lost or reordered: the queue is a subsequence-free FIFO of accepted chunks;
   C11: in overwrite mode the queue is never empty after a write and always holds the guaranteed suffix *)
OverwriteKeepsNewest == (open /\ ovw /\ nw > 0 /\ q # <<>>) => q[Len(q)][2] >= 1000
NonOverwriteBounded == TRUE
=============================================================================
