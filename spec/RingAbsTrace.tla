--------------------------- MODULE RingAbsTrace ---------------------------
(* Trace validation of recorded sequential qb_rb_* calls against RingAbs.
   How many old chunks an overwriting write dropped is not observable at the
   time of the write: the trace specification branches over the admissible
   values and later reads decide.                                            *)
EXTENDS RingAbs, Json, IOUtils
Tr == ndJsonDeserialize(IOEnv.TRACE)
VARIABLE l
TraceInit == Init /\ l = 1
TDo(ev) ==
  LET a == ev.a  r == ev.r IN
  CASE ev.e = "Open"    -> r[1] = 0 /\ Open(a[1], a[2] = 1)
    [] ev.e = "Write"   -> \E keep \in 1..(Len(q) + 1) : Write(a[1], <<a[2], a[3]>>, r[1], keep)
    [] ev.e = "Read"    -> Read(a[1], r[1], r[2])
    [] ev.e = "Peek"    -> Peek(r[1], r[2])
    [] ev.e = "Reclaim" -> Reclaim
    [] ev.e = "Close"   -> Close
TraceNext ==
  /\ l <= Len(Tr) /\ l' = l + 1
  /\ IF Tr[l].e = "Reset" THEN (open' = FALSE /\ S' = 0 /\ ovw' = FALSE /\ q' = <<>> /\ nw' = 0) ELSE TDo(Tr[l])
TraceSpec == TraceInit /\ [][TraceNext]_<<vars, l>>
TraceAccepted == TLCGet("stats").diameter - 1 = Len(Tr)
=============================================================================
