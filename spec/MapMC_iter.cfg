CONSTANTS Impl = "skip"  Keys = {1, 2, 3}  NVal = 1  MaxIter = 1  Masks = {} UseFree = FALSE  Tags = {0}
SPECIFICATION Spec
INVARIANT TypeOK
INVARIANT IterBook
INVARIANT EndedComplete
CHECK_DEADLOCK FALSE
