CONSTANTS Expiries = {}  MaxTimers = 1000000
SPECIFICATION TraceSpec
INVARIANT HeapOrdered
INVARIANT HeadIsMin
POSTCONDITION TraceAccepted
CHECK_DEADLOCK FALSE
