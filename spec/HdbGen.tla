------------------------------ MODULE HdbGen ------------------------------
(* Behaviour generator: Hdb's own actions plus a history of the operations
   taken; every history of length Depth is printed as JSON for the C harness. *)
EXTENDS Hdb, Json, IOUtils
VARIABLES hist, done
Depth == atoi(IOEnv.DEPTH)
GenOps == {<<"Create", MinFree>>}
          \cup {<<o, h[1], h[2]>> : o \in {"Get", "Put", "Destroy", "Refcount"}, h \in HRefs}
          \cup {<<"IterReset">>, <<"IterNext">>}
GenInit == Init /\ hist = <<>> /\ done = FALSE
GenNext == \/ /\ Len(hist) < Depth /\ UNCHANGED done
              /\ \E op \in GenOps : OpOK(op) /\ (op[1] = "Create" => n < MaxObj) /\ Do(op) /\ hist' = Append(hist, op)
           \/ /\ Len(hist) = Depth /\ ~done /\ done' = TRUE /\ UNCHANGED <<vars, hist>>
GenSpec == GenInit /\ [][GenNext]_<<vars, hist, done>>
Emit == done => PrintT(<<"GEN", ToJson(hist)>>)
=============================================================================
