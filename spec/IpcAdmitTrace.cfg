CONSTANT Clients <- TrClients
SPECIFICATION TraceSpec
INVARIANT AcceptArgsAreKernelCreds
INVARIANT RefusalReported
INVARIANT NoConnectionWithoutAccept
INVARIANT NoMsgFromRefused
INVARIANT RefusedLeavesNothing
INVARIANT ResKnown
INVARIANT DirNoOther
INVARIANT FileModeWithinChosen
INVARIANT OwnerAuthorised
POSTCONDITION TraceAccepted
CHECK_DEADLOCK FALSE
