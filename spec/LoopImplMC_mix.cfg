CONSTANTS JobPrio <- MixJobs  TimerSpec <- MixTimers  ReAdd = TRUE  FdPrio = 1  MaxIds = 10  MaxIter = 10
SPECIFICATION MSpec
INVARIANT Refines
INVARIANT TypeOK
CHECK_DEADLOCK FALSE
