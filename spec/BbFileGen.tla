---------------------------- MODULE BbFileGen ----------------------------
(* Behaviour generator for C15.  BbFile's own state machine plus a history of
   the operations taken; every complete history is printed as JSON for
   harness/h_bbfile.c.  IOEnv.MODE selects what is enumerated:

   "rob"  the class product of damaged files: one Print request per history,
          every combination of at most IOEnv.DEV simultaneous deviations from the
          undamaged file over the request classes below (BFS = the complete
          product; the Python driver puts a logging prefix in front of each)
   "rt"   round-trip walks: Init, then Log / Dump / Print of the undamaged dump in
          both file formats, with a few single deviations mixed in (BFS for a
          small alphabet, simulation for long walks that wrap the ring)

   A Print request is <<"Print", trunc, marker, ws, wp, rp, ver, hash, cj, creg, ckind>>:
   the harness builds a concrete file with each field set to the named boundary
   value and reports the abstract case the file projects to.                    *)
EXTENDS BbFile, Json, IOUtils
VARIABLES hist, done, salt
Depth == atoi(IOEnv.DEPTH)
Dev == atoi(IOEnv.DEV)
Mode == IOEnv.MODE

TruncT == {"none", "empty", "mark", "w0", "w1", "w2", "w3", "w4", "e0", "e1", "e2", "e3", "e4",
           "data0", "datah", "data1", "extra"}
MarkerT == {"keep", "strip", "add", "dmg", "old"}
WsT == {"ok", "zero", "one", "half", "minus1", "plus1", "big", "huge"}
PtrT == {"same", "next", "mid", "eq", "dbl", "b2", "b3", "lmax", "lover", "huge"}
VerT == {"ok", "bad"}
HashT == {"ok", "bad", "stale"}
ChunkKinds ==
  {<<"size", k>> : k \in {"zero", "min1", "min", "trunc", "plus", "max", "big", "huge"}}
  \cup {<<"magic", k>> : k \in {"zero", "dead", "alloc", "flip"}}
  \cup {<<"field", k>> : k \in {"lineno", "tags", "prio", "ts"}}
  \cup {<<"fnsize", k>> : k \in {"zero", "one", "minus1", "plus1", "edge", "over", "huge"}}
  \cup {<<"fn", k>> : k \in {"body", "term"}}
  \cup {<<"msglen", k>> : k \in {"zero", "max", "over", "huge", "diff"}}
  \cup {<<"msg", k>> : k \in {"unterm", "fmtnul", "argcut", "pct", "longdir", "longmod", "width", "star", "soft"}}
NoChunk == <<0, "x", "x">>
ChunkT == {NoChunk} \cup {<<j, rk[1], rk[2]>> : j \in {1, 2, -1}, rk \in ChunkKinds}
          \cup {<<0, "end", "magic">>, <<0, "end", "x">>}

dv(x, nom) == IF x = nom THEN 0 ELSE 1
(* every request with at most D deviations (the budget prunes the product while it is built) *)
Requests(D) ==
  UNION { UNION { UNION { UNION { UNION { UNION { UNION {
    { <<"Print", t, m, w, p, q, v, h, c[1], c[2], c[3]>> :
        c \in {x \in ChunkT : /\ dv(t, "none") + dv(m, "keep") + dv(w, "ok") + dv(p, "same") + dv(q, "same") + dv(v, "ok") + dv(h, "ok") + dv(x, NoChunk) <= D
                              \* "%*d" with a width taken from arbitrary bytes makes the unchanged decoder pad for seconds:
                              \* requested alone only (it stays in the product as a single deviation)
                              /\ (x[3] = "star" => dv(t, "none") + dv(m, "keep") + dv(w, "ok") + dv(p, "same") + dv(q, "same") + dv(v, "ok") + dv(h, "ok") = 0)} }
    : h \in {x \in HashT : dv(t, "none") + dv(m, "keep") + dv(w, "ok") + dv(p, "same") + dv(q, "same") + dv(v, "ok") + dv(x, "ok") <= D} }
    : v \in {x \in VerT : dv(t, "none") + dv(m, "keep") + dv(w, "ok") + dv(p, "same") + dv(q, "same") + dv(x, "ok") <= D} }
    : q \in {x \in PtrT : dv(t, "none") + dv(m, "keep") + dv(w, "ok") + dv(p, "same") + dv(x, "same") <= D} }
    : p \in {x \in PtrT : dv(t, "none") + dv(m, "keep") + dv(w, "ok") + dv(x, "same") <= D} }
    : w \in {x \in WsT : dv(t, "none") + dv(m, "keep") + dv(x, "ok") <= D} }
    : m \in {x \in MarkerT : dv(t, "none") + dv(x, "keep") <= D} }
    : t \in TruncT }

(* ---- round-trip walks: the record logged at step n is a function of the walk's salt ---- *)
SizeT == <<0, 1, 3, 40, 200, 440>>
TagT == <<0, 5, 2147483647>>
LogOp(n, variant) ==
  LET x == salt * 31 + n * 17 + variant * 7 IN
  <<"Log", x % 9, (x \div 9) % 3, TagT[((x \div 27) % 3) + 1], (x \div 5) % 4, SizeT[((x \div 3 + variant * 2) % 6) + 1]>>
Undamaged(m) == <<"Print", "none", m, "ok", "same", "same", "ok", "ok", 0, "x", "x">>
RtOther == << <<"Print", "none", "keep", "ok", "same", "same", "ok", "ok", 0, "end", "x">>,
              <<"Print", "none", "keep", "ok", "same", "next", "ok", "ok", 0, "x", "x">>,
              <<"Print", "none", "keep", "ok", "same", "dbl", "ok", "ok", 0, "x", "x">>,
              <<"Print", "data1", "keep", "ok", "same", "same", "ok", "ok", 0, "x", "x">> >>
RtPrints == {Undamaged("keep"), Undamaged("old"), RtOther[(Len(hist) % 4) + 1]}
RtSizes == IF Mode = "rtx" THEN {1024} ELSE {1024, 5000, 9000}

(* state change of a request in the model: results are chosen by the model *)
GenDo(op) ==
  CASE op[1] = "Init"  -> DoInit(op[2])
    [] op[1] = "Log"   -> DoLog(<<op[2], op[3], Len(logged) + 1, op[4], 0, 0, 0, 0, op[6], op[5]>>)
    [] op[1] = "Dump"  -> DoDump(Len(logged))     \* (how many records the real ring retains is recorded, not generated)
    [] op[1] = "Print" -> nret >= 0 /\ UNCHANGED vars

GenOps ==
  IF Mode = "rob" THEN Requests(Dev)
  ELSE IF ~on THEN {<<"Init", s>> : s \in RtSizes}
  ELSE {LogOp(Len(hist), v) : v \in (IF Mode = "rtx" THEN {0} ELSE 0..8)}
       \cup {<<"Dump">>}
       \cup (IF nret >= 0 THEN (IF Mode = "rtx" THEN {Undamaged("keep"), Undamaged("old")} ELSE RtPrints) ELSE {})

GenInit ==
  /\ hist = <<>> /\ done = FALSE
  /\ salt \in (IF Mode = "rt" THEN 1..997 ELSE {1})
  /\ IF Mode = "rob"
       THEN on = TRUE /\ size = 1024 /\ logged = <<>> /\ dumped = <<>> /\ nret = 0 /\ last = <<>>
       ELSE Init
GenNext == \/ /\ Len(hist) < Depth /\ UNCHANGED <<done, salt>>
              /\ \E op \in GenOps : GenDo(op) /\ hist' = Append(hist, op)
           \/ /\ Len(hist) = Depth /\ ~done /\ done' = TRUE /\ UNCHANGED <<vars, hist, salt>>
GenSpec == GenInit /\ [][GenNext]_<<vars, hist, done, salt>>
Emit == done => PrintT(<<"GEN", ToJson(hist)>>)
=============================================================================
