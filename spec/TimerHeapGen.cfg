CONSTANTS Expiries = {1, 2, 3, 4}  MaxTimers = 7
SPECIFICATION GenSpec
CONSTRAINT Emit
CHECK_DEADLOCK FALSE
