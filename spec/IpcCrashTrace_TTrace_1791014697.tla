---- MODULE IpcCrashTrace_TTrace_1791014697 ----
EXTENDS Sequences, TLCExt, Toolbox, IpcCrashTrace, Naturals, TLC

_expression ==
    LET IpcCrashTrace_TEExpression == INSTANCE IpcCrashTrace_TEExpression
    IN IpcCrashTrace_TEExpression!expression
----

_trace ==
    LET IpcCrashTrace_TETrace == INSTANCE IpcCrashTrace_TETrace
    IN IpcCrashTrace_TETrace!trace
----

_inv ==
    ~(
        TLCGet("level") = Len(_TETrace)
        /\
        cphase = ((0 :> 2 @@ 1 :> 1 @@ 2 :> 7))
        /\
        cst = ((0 :> 1 @@ 1 :> 2 @@ 2 :> 1))
        /\
        held = ((0 :> <<0, 0, 0>> @@ 1 :> <<0, 0, 0>> @@ 2 :> <<2, 6, 1>>))
        /\
        kind = (1)
        /\
        l = (23)
        /\
        salive = (TRUE)
        /\
        cconn = (0)
        /\
        okAfter = (0)
        /\
        cb = ((0 :> 2 @@ 1 :> 0 @@ 2 :> 5))
    )
----

_init ==
    /\ cst = _TETrace[1].cst
    /\ cconn = _TETrace[1].cconn
    /\ cb = _TETrace[1].cb
    /\ l = _TETrace[1].l
    /\ kind = _TETrace[1].kind
    /\ cphase = _TETrace[1].cphase
    /\ salive = _TETrace[1].salive
    /\ okAfter = _TETrace[1].okAfter
    /\ held = _TETrace[1].held
----

_next ==
    /\ \E i,j \in DOMAIN _TETrace:
        /\ \/ /\ j = i + 1
              /\ i = TLCGet("level")
        /\ cst  = _TETrace[i].cst
        /\ cst' = _TETrace[j].cst
        /\ cconn  = _TETrace[i].cconn
        /\ cconn' = _TETrace[j].cconn
        /\ cb  = _TETrace[i].cb
        /\ cb' = _TETrace[j].cb
        /\ l  = _TETrace[i].l
        /\ l' = _TETrace[j].l
        /\ kind  = _TETrace[i].kind
        /\ kind' = _TETrace[j].kind
        /\ cphase  = _TETrace[i].cphase
        /\ cphase' = _TETrace[j].cphase
        /\ salive  = _TETrace[i].salive
        /\ salive' = _TETrace[j].salive
        /\ okAfter  = _TETrace[i].okAfter
        /\ okAfter' = _TETrace[j].okAfter
        /\ held  = _TETrace[i].held
        /\ held' = _TETrace[j].held

\* Uncomment the ASSUME below to write the states of the error trace
\* to the given file in Json format. Note that you can pass any tuple
\* to `JsonSerialize`. For example, a sub-sequence of _TETrace.
    \* ASSUME
    \*     LET J == INSTANCE Json
    \*         IN J!JsonSerialize("IpcCrashTrace_TTrace_1791014697.json", _TETrace)

=============================================================================

 Note that you can extract this module `IpcCrashTrace_TEExpression`
  to a dedicated file to reuse `expression` (the module in the 
  dedicated `IpcCrashTrace_TEExpression.tla` file takes precedence 
  over the module `IpcCrashTrace_TEExpression` below).

---- MODULE IpcCrashTrace_TEExpression ----
EXTENDS Sequences, TLCExt, Toolbox, IpcCrashTrace, Naturals, TLC

expression == 
    [
        \* To hide variables of the `IpcCrashTrace` spec from the error trace,
        \* remove the variables below.  The trace will be written in the order
        \* of the fields of this record.
        cst |-> cst
        ,cconn |-> cconn
        ,cb |-> cb
        ,l |-> l
        ,kind |-> kind
        ,cphase |-> cphase
        ,salive |-> salive
        ,okAfter |-> okAfter
        ,held |-> held
        
        \* Put additional constant-, state-, and action-level expressions here:
        \* ,_stateNumber |-> _TEPosition
        \* ,_cstUnchanged |-> cst = cst'
        
        \* Format the `cst` variable as Json value.
        \* ,_cstJson |->
        \*     LET J == INSTANCE Json
        \*     IN J!ToJson(cst)
        
        \* Lastly, you may build expressions over arbitrary sets of states by
        \* leveraging the _TETrace operator.  For example, this is how to
        \* count the number of times a spec variable changed up to the current
        \* state in the trace.
        \* ,_cstModCount |->
        \*     LET F[s \in DOMAIN _TETrace] ==
        \*         IF s = 1 THEN 0
        \*         ELSE IF _TETrace[s].cst # _TETrace[s-1].cst
        \*             THEN 1 + F[s-1] ELSE F[s-1]
        \*     IN F[_TEPosition - 1]
    ]

=============================================================================



Parsing and semantic processing can take forever if the trace below is long.
 In this case, it is advised to uncomment the module below to deserialize the
 trace from a generated binary file.

\*
\*---- MODULE IpcCrashTrace_TETrace ----
\*EXTENDS IOUtils, IpcCrashTrace, TLC
\*
\*trace == IODeserialize("IpcCrashTrace_TTrace_1791014697.bin", TRUE)
\*
\*=============================================================================
\*

---- MODULE IpcCrashTrace_TETrace ----
EXTENDS IpcCrashTrace, TLC

trace == 
    <<
    ([cphase |-> (0 :> 0 @@ 1 :> 0 @@ 2 :> 0),cst |-> (0 :> 0 @@ 1 :> 0 @@ 2 :> 0),held |-> (0 :> <<0, 0, 0>> @@ 1 :> <<0, 0, 0>> @@ 2 :> <<0, 0, 0>>),kind |-> 0,l |-> 1,salive |-> TRUE,cconn |-> 0,okAfter |-> 0,cb |-> (0 :> 0 @@ 1 :> 0 @@ 2 :> 0)]),
    ([cphase |-> (0 :> 0 @@ 1 :> 0 @@ 2 :> 0),cst |-> (0 :> 0 @@ 1 :> 0 @@ 2 :> 0),held |-> (0 :> <<0, 0, 0>> @@ 1 :> <<0, 0, 0>> @@ 2 :> <<0, 0, 0>>),kind |-> 1,l |-> 2,salive |-> TRUE,cconn |-> 0,okAfter |-> 0,cb |-> (0 :> 0 @@ 1 :> 0 @@ 2 :> 0)]),
    ([cphase |-> (0 :> 1 @@ 1 :> 0 @@ 2 :> 0),cst |-> (0 :> 1 @@ 1 :> 0 @@ 2 :> 0),held |-> (0 :> <<0, 0, 0>> @@ 1 :> <<0, 0, 0>> @@ 2 :> <<0, 0, 0>>),kind |-> 1,l |-> 3,salive |-> TRUE,cconn |-> 0,okAfter |-> 0,cb |-> (0 :> 0 @@ 1 :> 0 @@ 2 :> 0)]),
    ([cphase |-> (0 :> 1 @@ 1 :> 0 @@ 2 :> 0),cst |-> (0 :> 1 @@ 1 :> 0 @@ 2 :> 0),held |-> (0 :> <<0, 0, 0>> @@ 1 :> <<0, 0, 0>> @@ 2 :> <<0, 0, 0>>),kind |-> 1,l |-> 4,salive |-> TRUE,cconn |-> 0,okAfter |-> 0,cb |-> (0 :> 1 @@ 1 :> 0 @@ 2 :> 0)]),
    ([cphase |-> (0 :> 1 @@ 1 :> 0 @@ 2 :> 0),cst |-> (0 :> 1 @@ 1 :> 0 @@ 2 :> 0),held |-> (0 :> <<0, 0, 0>> @@ 1 :> <<0, 0, 0>> @@ 2 :> <<0, 0, 0>>),kind |-> 1,l |-> 5,salive |-> TRUE,cconn |-> 0,okAfter |-> 0,cb |-> (0 :> 2 @@ 1 :> 0 @@ 2 :> 0)]),
    ([cphase |-> (0 :> 2 @@ 1 :> 0 @@ 2 :> 0),cst |-> (0 :> 1 @@ 1 :> 0 @@ 2 :> 0),held |-> (0 :> <<0, 0, 0>> @@ 1 :> <<0, 0, 0>> @@ 2 :> <<0, 0, 0>>),kind |-> 1,l |-> 6,salive |-> TRUE,cconn |-> 0,okAfter |-> 0,cb |-> (0 :> 2 @@ 1 :> 0 @@ 2 :> 0)]),
    ([cphase |-> (0 :> 2 @@ 1 :> 0 @@ 2 :> 0),cst |-> (0 :> 1 @@ 1 :> 0 @@ 2 :> 0),held |-> (0 :> <<0, 0, 0>> @@ 1 :> <<0, 0, 0>> @@ 2 :> <<0, 0, 0>>),kind |-> 1,l |-> 7,salive |-> TRUE,cconn |-> 0,okAfter |-> 0,cb |-> (0 :> 2 @@ 1 :> 0 @@ 2 :> 0)]),
    ([cphase |-> (0 :> 2 @@ 1 :> 1 @@ 2 :> 0),cst |-> (0 :> 1 @@ 1 :> 1 @@ 2 :> 0),held |-> (0 :> <<0, 0, 0>> @@ 1 :> <<0, 0, 0>> @@ 2 :> <<0, 0, 0>>),kind |-> 1,l |-> 8,salive |-> TRUE,cconn |-> 0,okAfter |-> 0,cb |-> (0 :> 2 @@ 1 :> 0 @@ 2 :> 0)]),
    ([cphase |-> (0 :> 2 @@ 1 :> 1 @@ 2 :> 0),cst |-> (0 :> 1 @@ 1 :> 2 @@ 2 :> 0),held |-> (0 :> <<0, 0, 0>> @@ 1 :> <<0, 0, 0>> @@ 2 :> <<0, 0, 0>>),kind |-> 1,l |-> 9,salive |-> TRUE,cconn |-> 0,okAfter |-> 0,cb |-> (0 :> 2 @@ 1 :> 0 @@ 2 :> 0)]),
    ([cphase |-> (0 :> 2 @@ 1 :> 1 @@ 2 :> 0),cst |-> (0 :> 1 @@ 1 :> 2 @@ 2 :> 0),held |-> (0 :> <<0, 0, 0>> @@ 1 :> <<0, 0, 0>> @@ 2 :> <<0, 0, 0>>),kind |-> 1,l |-> 10,salive |-> TRUE,cconn |-> 0,okAfter |-> 0,cb |-> (0 :> 2 @@ 1 :> 0 @@ 2 :> 0)]),
    ([cphase |-> (0 :> 2 @@ 1 :> 1 @@ 2 :> 0),cst |-> (0 :> 1 @@ 1 :> 2 @@ 2 :> 0),held |-> (0 :> <<0, 0, 0>> @@ 1 :> <<0, 0, 0>> @@ 2 :> <<0, 0, 0>>),kind |-> 1,l |-> 11,salive |-> TRUE,cconn |-> 0,okAfter |-> 0,cb |-> (0 :> 2 @@ 1 :> 0 @@ 2 :> 0)]),
    ([cphase |-> (0 :> 2 @@ 1 :> 1 @@ 2 :> 0),cst |-> (0 :> 1 @@ 1 :> 2 @@ 2 :> 0),held |-> (0 :> <<0, 0, 0>> @@ 1 :> <<0, 0, 0>> @@ 2 :> <<0, 0, 0>>),kind |-> 1,l |-> 12,salive |-> TRUE,cconn |-> 0,okAfter |-> 0,cb |-> (0 :> 2 @@ 1 :> 0 @@ 2 :> 0)]),
    ([cphase |-> (0 :> 2 @@ 1 :> 1 @@ 2 :> 0),cst |-> (0 :> 1 @@ 1 :> 2 @@ 2 :> 0),held |-> (0 :> <<0, 0, 0>> @@ 1 :> <<0, 0, 0>> @@ 2 :> <<0, 0, 0>>),kind |-> 1,l |-> 13,salive |-> TRUE,cconn |-> 0,okAfter |-> 0,cb |-> (0 :> 2 @@ 1 :> 0 @@ 2 :> 0)]),
    ([cphase |-> (0 :> 2 @@ 1 :> 1 @@ 2 :> 1),cst |-> (0 :> 1 @@ 1 :> 2 @@ 2 :> 1),held |-> (0 :> <<0, 0, 0>> @@ 1 :> <<0, 0, 0>> @@ 2 :> <<0, 0, 0>>),kind |-> 1,l |-> 14,salive |-> TRUE,cconn |-> 0,okAfter |-> 0,cb |-> (0 :> 2 @@ 1 :> 0 @@ 2 :> 0)]),
    ([cphase |-> (0 :> 2 @@ 1 :> 1 @@ 2 :> 1),cst |-> (0 :> 1 @@ 1 :> 2 @@ 2 :> 1),held |-> (0 :> <<0, 0, 0>> @@ 1 :> <<0, 0, 0>> @@ 2 :> <<2, 0, 0>>),kind |-> 1,l |-> 15,salive |-> TRUE,cconn |-> 0,okAfter |-> 0,cb |-> (0 :> 2 @@ 1 :> 0 @@ 2 :> 0)]),
    ([cphase |-> (0 :> 2 @@ 1 :> 1 @@ 2 :> 1),cst |-> (0 :> 1 @@ 1 :> 2 @@ 2 :> 1),held |-> (0 :> <<0, 0, 0>> @@ 1 :> <<0, 0, 0>> @@ 2 :> <<2, 0, 0>>),kind |-> 1,l |-> 16,salive |-> TRUE,cconn |-> 0,okAfter |-> 0,cb |-> (0 :> 2 @@ 1 :> 0 @@ 2 :> 1)]),
    ([cphase |-> (0 :> 2 @@ 1 :> 1 @@ 2 :> 1),cst |-> (0 :> 1 @@ 1 :> 2 @@ 2 :> 1),held |-> (0 :> <<0, 0, 0>> @@ 1 :> <<0, 0, 0>> @@ 2 :> <<2, 0, 0>>),kind |-> 1,l |-> 17,salive |-> TRUE,cconn |-> 0,okAfter |-> 0,cb |-> (0 :> 2 @@ 1 :> 0 @@ 2 :> 2)]),
    ([cphase |-> (0 :> 2 @@ 1 :> 1 @@ 2 :> 1),cst |-> (0 :> 1 @@ 1 :> 2 @@ 2 :> 1),held |-> (0 :> <<0, 0, 0>> @@ 1 :> <<0, 0, 0>> @@ 2 :> <<2, 6, 1>>),kind |-> 1,l |-> 18,salive |-> TRUE,cconn |-> 0,okAfter |-> 0,cb |-> (0 :> 2 @@ 1 :> 0 @@ 2 :> 2)]),
    ([cphase |-> (0 :> 2 @@ 1 :> 1 @@ 2 :> 2),cst |-> (0 :> 1 @@ 1 :> 2 @@ 2 :> 1),held |-> (0 :> <<0, 0, 0>> @@ 1 :> <<0, 0, 0>> @@ 2 :> <<2, 6, 1>>),kind |-> 1,l |-> 19,salive |-> TRUE,cconn |-> 0,okAfter |-> 0,cb |-> (0 :> 2 @@ 1 :> 0 @@ 2 :> 2)]),
    ([cphase |-> (0 :> 2 @@ 1 :> 1 @@ 2 :> 2),cst |-> (0 :> 1 @@ 1 :> 2 @@ 2 :> 1),held |-> (0 :> <<0, 0, 0>> @@ 1 :> <<0, 0, 0>> @@ 2 :> <<2, 6, 1>>),kind |-> 1,l |-> 20,salive |-> TRUE,cconn |-> 0,okAfter |-> 0,cb |-> (0 :> 2 @@ 1 :> 0 @@ 2 :> 2)]),
    ([cphase |-> (0 :> 2 @@ 1 :> 1 @@ 2 :> 2),cst |-> (0 :> 1 @@ 1 :> 2 @@ 2 :> 1),held |-> (0 :> <<0, 0, 0>> @@ 1 :> <<0, 0, 0>> @@ 2 :> <<2, 6, 1>>),kind |-> 1,l |-> 21,salive |-> TRUE,cconn |-> 0,okAfter |-> 0,cb |-> (0 :> 2 @@ 1 :> 0 @@ 2 :> 2)]),
    ([cphase |-> (0 :> 2 @@ 1 :> 1 @@ 2 :> 7),cst |-> (0 :> 1 @@ 1 :> 2 @@ 2 :> 1),held |-> (0 :> <<0, 0, 0>> @@ 1 :> <<0, 0, 0>> @@ 2 :> <<2, 6, 1>>),kind |-> 1,l |-> 22,salive |-> TRUE,cconn |-> 0,okAfter |-> 0,cb |-> (0 :> 2 @@ 1 :> 0 @@ 2 :> 2)]),
    ([cphase |-> (0 :> 2 @@ 1 :> 1 @@ 2 :> 7),cst |-> (0 :> 1 @@ 1 :> 2 @@ 2 :> 1),held |-> (0 :> <<0, 0, 0>> @@ 1 :> <<0, 0, 0>> @@ 2 :> <<2, 6, 1>>),kind |-> 1,l |-> 23,salive |-> TRUE,cconn |-> 0,okAfter |-> 0,cb |-> (0 :> 2 @@ 1 :> 0 @@ 2 :> 5)])
    >>
----


=============================================================================

---- CONFIG IpcCrashTrace_TTrace_1791014697 ----
CONSTANTS
    Roles = { 0 , 1 , 2 }
    SlackMs = 1500
    ImmediateMs = 500
    RoundMs = 2000
    MaxRounds = 2
    MaxStale = 8

INVARIANT
    _inv

CHECK_DEADLOCK
    \* CHECK_DEADLOCK off because of PROPERTY or INVARIANT above.
    FALSE

INIT
    _init

NEXT
    _next

CONSTANT
    _TETrace <- _trace

ALIAS
    _expression
=============================================================================
\* Generated on Sat Oct 03 08:04:59 UTC 2026