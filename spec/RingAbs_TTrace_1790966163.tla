---- MODULE RingAbs_TTrace_1790966163 ----
EXTENDS Sequences, TLCExt, Toolbox, Naturals, TLC, RingAbs

_expression ==
    LET RingAbs_TEExpression == INSTANCE RingAbs_TEExpression
    IN RingAbs_TEExpression!expression
----

_trace ==
    LET RingAbs_TETrace == INSTANCE RingAbs_TETrace
    IN RingAbs_TETrace!trace
----

_inv ==
    ~(
        TLCGet("level") = Len(_TETrace)
        /\
        q = (<<>>)
        /\
        ovw = ()
        /\
        S = ()
        /\
        nw = ()
        /\
        open = ()
    )
----

_init ==
    /\ nw = _TETrace[1].nw
    /\ S = _TETrace[1].S
    /\ q = _TETrace[1].q
    /\ ovw = _TETrace[1].ovw
    /\ open = _TETrace[1].open
----

_next ==
    /\ \E i,j \in DOMAIN _TETrace:
        /\ \/ /\ j = i + 1
              /\ i = TLCGet("level")
        /\ nw  = _TETrace[i].nw
        /\ nw' = _TETrace[j].nw
        /\ S  = _TETrace[i].S
        /\ S' = _TETrace[j].S
        /\ q  = _TETrace[i].q
        /\ q' = _TETrace[j].q
        /\ ovw  = _TETrace[i].ovw
        /\ ovw' = _TETrace[j].ovw
        /\ open  = _TETrace[i].open
        /\ open' = _TETrace[j].open

\* Uncomment the ASSUME below to write the states of the error trace
\* to the given file in Json format. Note that you can pass any tuple
\* to `JsonSerialize`. For example, a sub-sequence of _TETrace.
    \* ASSUME
    \*     LET J == INSTANCE Json
    \*         IN J!JsonSerialize("RingAbs_TTrace_1790966163.json", _TETrace)

=============================================================================

 Note that you can extract this module `RingAbs_TEExpression`
  to a dedicated file to reuse `expression` (the module in the 
  dedicated `RingAbs_TEExpression.tla` file takes precedence 
  over the module `RingAbs_TEExpression` below).

---- MODULE RingAbs_TEExpression ----
EXTENDS Sequences, TLCExt, Toolbox, Naturals, TLC, RingAbs

expression == 
    [
        \* To hide variables of the `RingAbs` spec from the error trace,
        \* remove the variables below.  The trace will be written in the order
        \* of the fields of this record.
        nw |-> nw
        ,S |-> S
        ,q |-> q
        ,ovw |-> ovw
        ,open |-> open
        
        \* Put additional constant-, state-, and action-level expressions here:
        \* ,_stateNumber |-> _TEPosition
        \* ,_nwUnchanged |-> nw = nw'
        
        \* Format the `nw` variable as Json value.
        \* ,_nwJson |->
        \*     LET J == INSTANCE Json
        \*     IN J!ToJson(nw)
        
        \* Lastly, you may build expressions over arbitrary sets of states by
        \* leveraging the _TETrace operator.  For example, this is how to
        \* count the number of times a spec variable changed up to the current
        \* state in the trace.
        \* ,_nwModCount |->
        \*     LET F[s \in DOMAIN _TETrace] ==
        \*         IF s = 1 THEN 0
        \*         ELSE IF _TETrace[s].nw # _TETrace[s-1].nw
        \*             THEN 1 + F[s-1] ELSE F[s-1]
        \*     IN F[_TEPosition - 1]
    ]

=============================================================================



Parsing and semantic processing can take forever if the trace below is long.
 In this case, it is advised to uncomment the module below to deserialize the
 trace from a generated binary file.

\*
\*---- MODULE RingAbs_TETrace ----
\*EXTENDS IOUtils, TLC, RingAbs
\*
\*trace == IODeserialize("RingAbs_TTrace_1790966163.bin", TRUE)
\*
\*=============================================================================
\*

---- MODULE RingAbs_TETrace ----
EXTENDS TLC, RingAbs

trace == 
    <<
    ([q |-> <<>>,ovw |-> FALSE,S |-> 0,nw |-> 0,open |-> FALSE]),
    ([q |-> <<>>,ovw |-> FALSE,S |-> 64,nw |-> 0,open |-> TRUE]),
    ([q |-> <<>>,ovw |-> ,S |-> ,nw |-> ,open |-> ])
    >>
----


=============================================================================

---- CONFIG RingAbs_TTrace_1790966163 ----
CONSTANTS
    Sizes = { 64 , 100 }
    Lens = { 0 , 1 , 30 , 48 , 64 , 100 }
    MaxQ = 3

INVARIANT
    _inv

CHECK_DEADLOCK
    \* CHECK_DEADLOCK off because of PROPERTY or INVARIANT above.
    FALSE

INIT
    _init

NEXT
    _next

CONSTANT
    _TETrace <- _trace

ALIAS
    _expression
=============================================================================
\* Generated on Fri Oct 02 18:36:04 UTC 2026