---------------------------- MODULE IpcWireGen ----------------------------
(* Generator for C06: the class product of hostile inputs, concretised with
   boundary values, as schedules for harness/h_ipc_raw.c.  One behaviour = one
   history (TLC enumerates the initial states = the cases).  IOEnv.MODE:

   "short"  every proper prefix of the request record (0..RS-1 bytes) x written
            in one piece or split at every j x {the peer stalls while a good
            client is served and then leaves, leaves at once, half-closes}
            x {prefix of a well-formed record, seeded garbage}
   "full"   complete records (and longer strings): id field, size field,
            max_msg_size, total length, split point, ending, transport and the
            enforced server maximum at boundary values; every combination of at
            most IOEnv.DEV deviations from the well-formed request
   "rand"   IOEnv.NSEED strings of seeded garbage of RS / RS+16 / 1000 bytes
   "msg"    raw requests from an admitted client: transport x negotiated
            maximum x actual length x header length field (the complete
            product of the boundary values below, minus the recorded triggers
            in KFSkip); id, notification items, payload pattern, a truthful
            request before / after, and how the client leaves rotate with the case

   Every history ends with a well-behaved client's round trip and a census.  *)
EXTENDS IpcWire, Json, IOUtils
VARIABLES hist, done
Mode == IOEnv.MODE
Dev == atoi(IOEnv.DEV)
NSeed == atoi(IOEnv.NSEED)
Seed0 == atoi(IOEnv.SEED)

GoodRT(p) == << <<"GConnect", p, 8192>>, <<"GSend", p, 64>>, <<"GRecv", p>>, <<"GClose", p>> >>
Ending == GoodRT(9) \o << <<"Census">> >>
Writes(total, j) == IF total = 0 THEN <<>>
                    ELSE IF j = 0 \/ j >= total THEN << <<"Write", 1, total>> >>
                    ELSE << <<"Write", 1, j>>, <<"Write", 1, total - j>> >>
SeedOf(a, b, c) == 1 + (((Seed0 * 7919) + (a * 131) + (b * 31) + c) % 1000003)

(* ---- short prefixes ---- *)
Short(t, total, j, ending, form) ==
  << <<"Up", t, 0>>,
     IF form = 0 THEN <<"Connect", 1, "rec", AUTH, RS, 8192, total, SeedOf(total, j, 1)>>
                 ELSE <<"Connect", 1, "rand", total, SeedOf(total, j, 2)>> >>
  \o Writes(total, j)
  \o (CASE ending = "stall" -> GoodRT(2) \o << <<"Census">>, <<"Resp", 1>>, <<"Close", 1, 0>> >>
        [] ending = "close" -> << <<"Close", 1, 0>> >>
        [] ending = "half"  -> << <<"HalfClose", 1>>, <<"Resp", 1>>, <<"Close", 1, 0>> >>)
  \o Ending
ShortCases == { Short(t, total, j, e, (total + j) % 2) :
                  t \in {SOCK, SHM}, total \in 0..(RS - 1), j \in 0..(RS - 2), e \in {"stall", "close", "half"} }
              \* (j >= total writes in one piece: those duplicates collapse in the set)

(* ---- complete records ---- *)
IdVals == {AUTH, 0, 1, -2, -3, 2147483647, -2147483647}
SizeVals == {RS, 0, 1, RS - 1, RS + 1, 2147483647, -1, -2147483647}
MmsVals == {8192, 0, 1, 15, 16, 17, 4095, 4096, 12328, 1048576, 67108864}
TotalVals == {RS, RS + 1, RS + 16, RS + 4096, 60000}
JVals == {0, 1, 8, 15, 16, 17, 20, 23, 24, 30}
Endings == {"resp", "att0", "att1", "now", "stall", "half"}
EnfVals == {0, 16384}
dv(x, nom) == IF x = nom THEN 0 ELSE 1

Full(t, enf, id, size, mms, total, j, ending) ==
  << <<"Up", t, enf>>, <<"Connect", 1, "rec", id, size, mms, total, SeedOf(total, j, mms % 1000)>> >>
  \o (CASE ending = "now"   -> << <<"WriteClose", 1, total>> >>
        [] ending = "stall" -> (IF j = 0 THEN << <<"Write", 1, 12>> >> ELSE << <<"Write", 1, j>> >>)
                               \o GoodRT(2)
                               \o << <<"Write", 1, total>>, <<"Resp", 1>>, <<"Close", 1, 0>> >>
        [] ending = "resp"  -> Writes(total, j) \o << <<"Resp", 1>>, <<"Close", 1, 0>> >>
        [] ending = "att0"  -> Writes(total, j) \o << <<"Resp", 1>>, <<"Attach", 1>>, <<"Close", 1, 0>> >>
        [] ending = "att1"  -> Writes(total, j) \o << <<"Resp", 1>>, <<"Attach", 1>>, <<"Close", 1, 1>> >>
        [] ending = "half"  -> Writes(total, j) \o << <<"HalfClose", 1>>, <<"Resp", 1>>, <<"Close", 1, 0>> >>)
  \o Ending
FullCases(D) ==
  UNION { UNION { UNION { UNION { UNION { UNION { UNION {
    { Full(t, enf, id, size, mms, total, j, e) :
        e \in {x \in Endings : dv(t, SHM) + dv(enf, 0) + dv(id, AUTH) + dv(size, RS) + dv(mms, 8192) + dv(total, RS) + dv(j, 0) + dv(x, "resp") <= D} }
    : j \in {x \in JVals : dv(t, SHM) + dv(enf, 0) + dv(id, AUTH) + dv(size, RS) + dv(mms, 8192) + dv(total, RS) + dv(x, 0) <= D} }
    : total \in {x \in TotalVals : dv(t, SHM) + dv(enf, 0) + dv(id, AUTH) + dv(size, RS) + dv(mms, 8192) + dv(x, RS) <= D} }
    : mms \in {x \in MmsVals : dv(t, SHM) + dv(enf, 0) + dv(id, AUTH) + dv(size, RS) + dv(x, 8192) <= D} }
    : size \in {x \in SizeVals : dv(t, SHM) + dv(enf, 0) + dv(id, AUTH) + dv(x, RS) <= D} }
    : id \in {x \in IdVals : dv(t, SHM) + dv(enf, 0) + dv(x, AUTH) <= D} }
    : enf \in {x \in EnfVals : dv(t, SHM) + dv(x, 0) <= D} }
    : t \in {SOCK, SHM} }

RandCases == { << <<"Up", t, 0>>, <<"Connect", 1, "rand", total, SeedOf(k, total, 3)>> >>
               \o Writes(total, IF k % 3 = 0 THEN 0 ELSE 1 + (k % 23))
               \o << <<"Resp", 1>>, <<"Close", 1, 0>> >> \o Ending :
               t \in {SOCK, SHM}, total \in {RS, RS + 16, 1000}, k \in 1..NSeed }

(* ---- raw requests ---- *)
MaxCfg == {<<0, 0>>, <<1, 0>>, <<15, 0>>, <<16, 0>>, <<17, 0>>, <<100, 0>>, <<4096, 0>>, <<8192, 0>>, <<12328, 0>>, <<100, 16384>>}
ActVals(mx) == {0, 1, 8, 9, 11, 12, 15, 16, 17, 24} \cup {x \in {mx - 1, mx, mx + 1, 2 * mx + 5} : x >= 0}
HszVals(mx, a) == {-2147483647, -1, 0, 1, 15, 16, 17, 256, 65536, 2147483647} \cup {x \in {a - 1, a, a + 1, mx, mx + 1} : x >= 0}
IdSeq == <<5, 0, 1000000, -1, -2, 5, 7, 2147483647>>
Truthful(seq, len) == <<"Send", 1, seq, len, 5, len, 1, 0>>

MsgHist(t, mc, a, h) ==
  LET mx == Max(mc[1], mc[2])
      k == (((a % 100003) * 7) + (IF h < 0 THEN 3 + ((0 - (h + 1)) % 1009) ELSE h % 1009) + (mx % 100003) + t + (Seed0 * 37)) % 5040
      id == IdSeq[(k % 8) + 1]
      note == <<1, 1, 0, 3>>[((k \div 8) % 4) + 1]
      pat == (k \div 32) % 2
      pre == (k \div 64) % 2
      follow == (k \div 128) % 2
      how == (k \div 256) % 2
      plen == IF mx >= 3000 THEN 3000 ELSE IF mx >= HS THEN mx ELSE HS
  IN << <<"Up", t, mc[2]>>, <<"Connect", 1, "rec", AUTH, RS, mc[1], RS, 1>>, <<"Write", 1, RS>>, <<"Resp", 1>>, <<"Attach", 1>> >>
     \o (IF pre = 1 /\ ~Skipped(t, mx, plen, plen) THEN << Truthful(1, plen) >> ELSE <<>>)
     \o << <<"Send", 1, 2, a, id, h, note, pat>> >>
     \o (IF note = 0 THEN << <<"Kick", 1, 1>> >> ELSE <<>>)
     \o (IF follow = 1 /\ ~Skipped(t, mx, 24, 24) THEN << Truthful(3, 24) >> ELSE <<>>)
     \o << <<"Close", 1, how>> >>
     \o Ending
MsgCases ==
  UNION { UNION { { MsgHist(t, mc, a, h) : h \in {x \in HszVals(Max(mc[1], mc[2]), a) : ~Skipped(t, Max(mc[1], mc[2]), a, x)} }
                  : a \in ActVals(Max(mc[1], mc[2])) } : t \in {SOCK, SHM}, mc \in MaxCfg }
  \cup (* the disconnect request id; the largest explored maximum *)
  { << <<"Up", t, 0>>, <<"Connect", 1, "rec", AUTH, RS, 8192, RS, 1>>, <<"Write", 1, RS>>, <<"Resp", 1>>, <<"Attach", 1>>,
       <<"Send", 1, 2, a, -3, a, 1, 0>>, Truthful(3, 24), <<"Close", 1, 0>> >> \o Ending : t \in {SOCK, SHM}, a \in {16, 100} }
  \cup
  { << <<"Up", t, 0>>, <<"Connect", 1, "rec", AUTH, RS, 67108864, RS, 1>>, <<"Write", 1, RS>>, <<"Resp", 1>>, <<"Attach", 1>>,
       <<"Send", 1, 2, ah[1], 5, ah[2], 1, 0>>, <<"Close", 1, 1>> >> \o Ending :
       t \in {SOCK, SHM}, ah \in {<<100000, 16>>, <<100000, 100000>>, <<67108864, 100000>>, <<67108864, 67108864>>} }

Cases == CASE Mode = "short" -> ShortCases
           [] Mode = "full"  -> FullCases(Dev)
           [] Mode = "rand"  -> RandCases
           [] Mode = "msg"   -> MsgCases

GenInit == Init /\ done = FALSE /\ hist \in Cases
GenNext == ~done /\ done' = TRUE /\ UNCHANGED <<vars, hist>>
GenSpec == GenInit /\ [][GenNext]_<<vars, hist, done>>
Emit == done => PrintT("GEN " \o ToJson(hist))
=============================================================================
