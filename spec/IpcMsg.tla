------------------------------- MODULE IpcMsg -------------------------------
(* One established libqb IPC connection (lib/ipcc.c, lib/ipcs.c, lib/ipc_shm.c,
   lib/ipc_socket.c) -- property C02.

   State is what the property talks about: the three one-way channels as FIFO
   sequences of messages <<id, len, hash>>, the notification bytes in flight on
   the set-up socket in both directions (shared-memory transport only), the
   server's deferred event notifications, the flow-control word and the
   client's threshold for it, and ghost histories of what each send call
   accepted / each receiving side was handed.

   One named action per public call; a call's result is a parameter of the
   action (ok / refused), so that where the property leaves freedom (when a
   send may be refused because the peer is slow, whether the notification
   socket takes one more byte) the specification is nondeterministic and a
   recorded run binds the choice.  What is NOT left open:
     - a call that returns an error changes no channel (Refused branches),
     - a message longer than the negotiated maximum is refused,
     - a send to an EMPTY channel of a message that fits, with flow control
       off, is accepted,
     - the receiving side is handed exactly the head of the channel,
     - the counting discipline of the notification bytes (EvtCount, ReqCount),
     - Readable: events queued => the client's descriptor polls readable.   *)
EXTENDS Naturals, Integers, Sequences, FiniteSets, TLC

CONSTANTS Cap,       \* bounded exploration: a channel holds at most Cap messages
          NCap,      \* bounded exploration: notification bytes the socket takes per direction
          MaxSends,  \* bounded exploration: messages accepted per channel
          Lens,      \* bounded exploration: message lengths offered (relative to MaxMsgMC)
          MaxMsgMC   \* bounded exploration: negotiated maximum

VARIABLES shm,          \* TRUE: shared-memory transport (rings + notification bytes); FALSE: datagram sockets
          maxMsg,       \* negotiated maximum message size (0 = not connected)
          req, resp, evt,
          c2s, s2c,     \* notification bytes in flight client->server / server->client
          outstanding,  \* event notifications the server still owes (socket was full)
          pollOut,      \* server asked its loop for POLLOUT on the connection
          fc,           \* shared flow-control word 0..2
          fcMax,        \* client: highest flow-control value that blocks sends
          prio,         \* server: 0 fast, 1 normal, 2 slow/off (bounds one dispatch)
          disp,         \* 1 while the server's dispatch function runs
          cur,          \* <<m>> while msg_process runs on m, else <<>>
          got,          \* requests consumed by the running dispatch
          pendOut,      \* the running dispatch was told POLLOUT and has not yet written the owed notifications
          accReq, dlvReq, accResp, dlvResp, accEvt, dlvEvt,   \* ghost histories
          last,         \* result of the most recent call (0 when it has none)
          stall         \* <<m>> while a client send has queued m but its notification byte was refused (the call has
                        \* not returned: it retries until the server has read some), else <<>>

chans == <<req, resp, evt, accReq, dlvReq, accResp, dlvResp, accEvt, dlvEvt>>
notif == <<c2s, s2c, outstanding, pollOut>>
conf  == <<shm, maxMsg, stall>>     \* what no ordinary call changes
vars  == <<shm, maxMsg, req, resp, evt, c2s, s2c, outstanding, pollOut, fc, fcMax, prio, disp, cur, got, pendOut,
           accReq, dlvReq, accResp, dlvResp, accEvt, dlvEvt, last, stall>>

POLLIN == 1
POLLOUT == 4
HasOut(revents) == (revents \div 4) % 2 = 1

FcBlocks == fc > 0 /\ fc <= fcMax
ClientReadable == IF shm THEN s2c > 0 ELSE evt # <<>>
ServerReadable == IF shm THEN c2s > 0 ELSE req # <<>>
Connected == maxMsg > 0
ClientFree == stall = <<>>                   \* the client is not inside a blocked send
ServerMayCall == disp = 0 \/ cur # <<>>      \* the server application runs outside the dispatch function or inside msg_process

Fresh(s, mm) ==
  /\ shm = s /\ maxMsg = mm
  /\ req = <<>> /\ resp = <<>> /\ evt = <<>>
  /\ c2s = 0 /\ s2c = 0 /\ outstanding = 0 /\ pollOut = FALSE
  /\ fc = 0 /\ fcMax = 1 /\ prio = 1 /\ disp = 0 /\ cur = <<>> /\ got = 0 /\ pendOut = FALSE
  /\ accReq = <<>> /\ dlvReq = <<>> /\ accResp = <<>> /\ dlvResp = <<>> /\ accEvt = <<>> /\ dlvEvt = <<>>
  /\ last = 0 /\ stall = <<>>

Init == \E s \in BOOLEAN : Fresh(s, MaxMsgMC)

-----------------------------------------------------------------------------
(* deferred event notifications are written when the socket takes them again:
   k of them now.  The socket may refuse (k = 0) only while bytes are in flight. *)
Flush(k) ==
  /\ k \in 0..outstanding
  /\ (k = 0 /\ outstanding > 0) => s2c >= 1
  /\ s2c + k <= NCap
  /\ s2c' = s2c + k /\ outstanding' = outstanding - k /\ pollOut' = (outstanding - k > 0)
FlushSome == \E k \in 0..outstanding : Flush(k)

(* one more event was queued: its notification byte is written, or is owed *)
Notify ==
  IF ~shm THEN UNCHANGED notif
  ELSE IF outstanding = 0
    THEN \/ s2c < NCap /\ s2c' = s2c + 1 /\ UNCHANGED <<c2s, outstanding, pollOut>>
         \/ s2c >= 1 /\ outstanding' = 1 /\ pollOut' = TRUE /\ UNCHANGED <<c2s, s2c>>
    ELSE \E k \in 0..(outstanding + 1) :
            /\ k = 0 => s2c >= 1
            /\ s2c + k <= NCap
            /\ s2c' = s2c + k /\ outstanding' = outstanding + 1 - k /\ pollOut' = (outstanding + 1 - k > 0)
            /\ UNCHANGED c2s

-----------------------------------------------------------------------------
(* client calls *)
CSendOk(m) ==
  /\ m[2] <= maxMsg /\ ~FcBlocks /\ Len(req) < Cap
  /\ req' = Append(req, m) /\ accReq' = Append(accReq, m)
  /\ c2s' = IF shm THEN c2s + 1 ELSE c2s
  /\ UNCHANGED <<conf, resp, evt, s2c, outstanding, pollOut, fc, fcMax, prio, disp, cur, got, pendOut,
                 dlvReq, accResp, dlvResp, accEvt, dlvEvt>>
(* a send may be refused: too long, flow control, or the channel is not empty (the request msg_process is
   working on still occupies it: it is released only after the callback returned)                        *)
CSendMayRefuse(m) == m[2] > maxMsg \/ FcBlocks \/ req # <<>> \/ cur # <<>>

(* The notification byte of a queued request is refused (socket full: only possible while bytes are in flight).
   The request IS in the channel -- the server may even process it -- but the call has not returned: it
   retries the byte until the server has read some.  From here on the call can only succeed.                 *)
CStall(m) ==
  /\ Connected /\ shm /\ ClientFree /\ c2s >= 1
  /\ m[2] <= maxMsg /\ ~FcBlocks /\ Len(req) < Cap
  /\ req' = Append(req, m) /\ accReq' = Append(accReq, m) /\ stall' = <<m>> /\ last' = 0
  /\ UNCHANGED <<shm, maxMsg, resp, evt, notif, fc, fcMax, prio, disp, cur, got, pendOut,
                 dlvReq, accResp, dlvResp, accEvt, dlvEvt>>
CSendResume(m, rc) ==
  /\ stall = <<m>> /\ rc = m[2]
  /\ c2s' = c2s + 1 /\ stall' = <<>> /\ last' = rc
  /\ UNCHANGED <<shm, maxMsg, chans, s2c, outstanding, pollOut, fc, fcMax, prio, disp, cur, got, pendOut>>

(* qb_ipcc_send / qb_ipcc_sendv: rc is the call's return value *)
CSend(m, rc) ==
  /\ Connected
  /\ IF stall # <<>> THEN CSendResume(m, rc)
     ELSE /\ last' = rc
          /\ IF rc = m[2] THEN CSendOk(m)
             ELSE rc < 0 /\ CSendMayRefuse(m) /\ UNCHANGED <<conf, chans, notif, fc, fcMax, prio, disp, cur, got, pendOut>>

(* qb_ipcc_recv with a zero timeout: r = <<rc>> or <<rc, m>> *)
CRecv(r) ==
  /\ Connected /\ ClientFree /\ last' = r[1]
  /\ IF resp # <<>>
       THEN /\ r = <<Head(resp)[2], Head(resp)>>
            /\ resp' = Tail(resp) /\ dlvResp' = Append(dlvResp, Head(resp))
            /\ UNCHANGED <<conf, req, evt, notif, fc, fcMax, prio, disp, cur, got, pendOut, accReq, dlvReq, accResp, accEvt, dlvEvt>>
       ELSE Len(r) = 1 /\ r[1] < 0 /\ UNCHANGED <<conf, chans, notif, fc, fcMax, prio, disp, cur, got, pendOut>>

(* qb_ipcc_event_recv with a zero timeout: it first polls the descriptor *)
CEvRecv(r) ==
  /\ Connected /\ ClientFree /\ last' = r[1]
  /\ IF evt # <<>> /\ ClientReadable
       THEN /\ r = <<Head(evt)[2], Head(evt)>>
            /\ evt' = Tail(evt) /\ dlvEvt' = Append(dlvEvt, Head(evt))
            /\ s2c' = IF shm THEN s2c - 1 ELSE s2c
            /\ UNCHANGED <<conf, req, resp, c2s, outstanding, pollOut, fc, fcMax, prio, disp, cur, got, pendOut,
                           accReq, dlvReq, accResp, dlvResp, accEvt>>
       ELSE Len(r) = 1 /\ r[1] < 0 /\ UNCHANGED <<conf, chans, notif, fc, fcMax, prio, disp, cur, got, pendOut>>

(* qb_ipcc_sendv_recv with a zero timeout = sendv, then (if that was accepted) one recv;
   the single return value does not say which half failed                            *)
CSendvRecv(m, r) ==
  /\ Connected /\ ClientFree
  /\ \/ /\ Len(r) = 1 /\ r[1] < 0 /\ CSendMayRefuse(m) /\ last' = r[1]
        /\ UNCHANGED <<conf, chans, notif, fc, fcMax, prio, disp, cur, got, pendOut>>
     \/ /\ m[2] <= maxMsg /\ ~FcBlocks /\ Len(req) < Cap
        /\ last' = (IF r[1] < 0 THEN 0 ELSE r[1])    \* the request WAS queued: a negative value only says "no response yet"
        /\ req' = Append(req, m) /\ accReq' = Append(accReq, m)
        /\ c2s' = IF shm THEN c2s + 1 ELSE c2s
        /\ IF resp # <<>>
             THEN /\ r = <<Head(resp)[2], Head(resp)>>
                  /\ resp' = Tail(resp) /\ dlvResp' = Append(dlvResp, Head(resp))
             ELSE Len(r) = 1 /\ r[1] < 0 /\ UNCHANGED <<resp, dlvResp>>
        /\ UNCHANGED <<conf, evt, s2c, outstanding, pollOut, fc, fcMax, prio, disp, cur, got, pendOut,
                       dlvReq, accResp, accEvt, dlvEvt>>

(* qb_ipcc_fc_enable_max_set *)
CFcMax(n, rc) ==
  /\ Connected /\ ClientFree /\ last' = rc
  /\ IF n \in 0..2 THEN rc = 0 /\ fcMax' = n ELSE rc < 0 /\ UNCHANGED fcMax
  /\ UNCHANGED <<conf, chans, notif, fc, prio, disp, cur, got, pendOut>>

-----------------------------------------------------------------------------
(* server calls *)
(* qb_ipcs_response_send / qb_ipcs_response_sendv *)
SResp(m, rc) ==
  /\ Connected /\ ServerMayCall /\ last' = rc
  /\ IF rc = m[2]
       THEN /\ m[2] <= maxMsg /\ Len(resp) < Cap
            /\ resp' = Append(resp, m) /\ accResp' = Append(accResp, m)
            /\ UNCHANGED <<conf, req, evt, notif, fc, fcMax, prio, disp, cur, got, pendOut, accReq, dlvReq, dlvResp, accEvt, dlvEvt>>
       ELSE /\ rc < 0 /\ (m[2] > maxMsg \/ resp # <<>>)
            /\ UNCHANGED <<conf, chans, notif, fc, fcMax, prio, disp, cur, got, pendOut>>

(* qb_ipcs_event_send / qb_ipcs_event_sendv *)
SEvent(m, rc) ==
  /\ Connected /\ ServerMayCall /\ last' = rc
  /\ IF rc = m[2]
       THEN /\ m[2] <= maxMsg /\ Len(evt) < Cap
            /\ evt' = Append(evt, m) /\ accEvt' = Append(accEvt, m)
            /\ Notify
            /\ UNCHANGED <<conf, req, resp, fc, fcMax, prio, disp, cur, got, pendOut, accReq, dlvReq, accResp, dlvResp, dlvEvt>>
       ELSE /\ rc < 0 /\ (m[2] > maxMsg \/ evt # <<>>)
            /\ IF shm THEN FlushSome /\ UNCHANGED c2s ELSE UNCHANGED notif     \* owed notifications may be written on this occasion
            /\ UNCHANGED <<conf, chans, fc, fcMax, prio, disp, cur, got, pendOut>>

(* qb_ipcs_request_rate_limit: 0 FAST 1 NORMAL 2 SLOW 3 OFF 4 OFF_2 *)
SRate(rl) ==
  /\ Connected /\ ServerMayCall /\ last' = 0
  /\ prio' = (IF rl = 0 THEN 0 ELSE IF rl = 1 THEN 1 ELSE 2)
  /\ fc' = (IF rl = 3 THEN 1 ELSE IF rl = 4 THEN 2 ELSE 0)
  /\ UNCHANGED <<conf, chans, notif, fcMax, disp, cur, got, pendOut>>

(* the loop calls the connection's dispatch function (qb_ipcs_dispatch_connection_request).  Told POLLOUT,
   it first writes owed notifications; the effect is placed at the next step of this dispatch (the first
   msg_process or the return), which is where a recorded run can see it                                  *)
DispBegin(revents) ==
  /\ Connected /\ disp = 0 /\ disp' = 1 /\ got' = 0 /\ last' = 0
  /\ pendOut' = (shm /\ HasOut(revents))
  /\ UNCHANGED <<conf, chans, notif, fc, fcMax, prio, cur>>
DoPendOut == IF pendOut THEN FlushSome ELSE UNCHANGED <<s2c, outstanding, pollOut>>

(* msg_process is entered with the head of the request channel *)
CbBegin(m) ==
  /\ disp = 1 /\ cur = <<>> /\ req # <<>> /\ m = Head(req)
  /\ req' = Tail(req) /\ dlvReq' = Append(dlvReq, m) /\ cur' = <<m>> /\ last' = 0
  /\ DoPendOut /\ pendOut' = FALSE
  /\ UNCHANGED <<conf, resp, evt, c2s, fc, fcMax, prio, disp, got, accReq, accResp, dlvResp, accEvt, dlvEvt>>

(* msg_process returns ret (0, or negative = back off); the bytes it was handed are still m2 *)
CbEnd(ret, m2) ==
  /\ disp = 1 /\ cur = <<m2>> /\ cur' = <<>> /\ got' = got + 1 /\ last' = 0
  /\ UNCHANGED <<conf, chans, notif, fc, fcMax, prio, disp, pendOut>>

(* the dispatch function returns: it consumed one notification byte per request it consumed *)
DispEnd(rc) ==
  /\ disp = 1 /\ cur = <<>> /\ rc = 0
  /\ disp' = 0 /\ got' = 0 /\ last' = 0
  /\ c2s' = IF shm THEN c2s - got ELSE c2s
  /\ c2s' >= 0
  /\ DoPendOut /\ pendOut' = FALSE
  /\ UNCHANGED <<conf, chans, fc, fcMax, prio, cur>>

-----------------------------------------------------------------------------
(* bounded exploration (design check): small message universe, clip per dispatch *)
Clip == IF prio = 0 THEN 3 ELSE IF prio = 1 THEN 2 ELSE 1
MsgFor(acc, len) == <<Len(acc) + 1, len, 0>>
Errs == {-11}

ACSend     == \E len \in Lens : Len(accReq) < MaxSends /\ ClientFree /\
                 \E rc \in {len} \cup Errs : (rc = len /\ shm => c2s < NCap) /\ CSend(MsgFor(accReq, len), rc)
ACStall    == \E len \in Lens : Len(accReq) < MaxSends /\ c2s >= NCap /\ CStall(MsgFor(accReq, len))
ACResume   == stall # <<>> /\ CSend(stall[1], stall[1][2])
ACRecv     == \E r \in {<<-110>>} \cup (IF resp # <<>> THEN {<<Head(resp)[2], Head(resp)>>} ELSE {}) : CRecv(r)
ACEvRecv   == \E r \in {<<-11>>} \cup (IF evt # <<>> THEN {<<Head(evt)[2], Head(evt)>>} ELSE {}) : CEvRecv(r)
ACSendvRecv == \E len \in Lens : Len(accReq) < MaxSends /\
                 \E r \in {<<-110>>, <<-11>>} \cup (IF resp # <<>> THEN {<<Head(resp)[2], Head(resp)>>} ELSE {}) :
                    CSendvRecv(MsgFor(accReq, len), r)
ACFcMax    == \E n \in 0..2 : CFcMax(n, 0)
ASResp     == \E len \in Lens : Len(accResp) < MaxSends /\
                 \E rc \in {len} \cup Errs : SResp(MsgFor(accResp, len), rc)
ASEvent    == \E len \in Lens : Len(accEvt) < MaxSends /\
                 \E rc \in {len} \cup Errs : SEvent(MsgFor(accEvt, len), rc)
ASRate     == \E rl \in 0..4 : SRate(rl)
ADispBegin == \E rv \in {POLLIN, POLLOUT, POLLIN + POLLOUT} : (HasOut(rv) => pollOut) /\ DispBegin(rv)
ACbBegin   == fc = 0 /\ got < Clip /\ req # <<>> /\ CbBegin(Head(req))
ACbEnd     == cur # <<>> /\ \E ret \in {0, -105} : CbEnd(ret, cur[1])
ADispEnd   == DispEnd(0)

Next == ACSend \/ ACStall \/ ACResume \/ ACRecv \/ ACEvRecv \/ ACSendvRecv \/ ACFcMax \/ ASResp \/ ASEvent \/ ASRate
        \/ ADispBegin \/ ACbBegin \/ ACbEnd \/ ADispEnd

Spec == Init /\ [][Next]_vars

-----------------------------------------------------------------------------
(* The property.                                                            *)
IsMsgSeq(s) == \A i \in 1..Len(s) : Len(s[i]) = 3
TypeOK ==
  /\ shm \in BOOLEAN /\ maxMsg \in Nat
  /\ IsMsgSeq(req) /\ IsMsgSeq(resp) /\ IsMsgSeq(evt)
  /\ c2s \in Nat /\ s2c \in Nat /\ outstanding \in Nat /\ pollOut \in BOOLEAN
  /\ fc \in 0..2 /\ fcMax \in 0..2 /\ prio \in 0..2 /\ disp \in 0..1 /\ Len(cur) <= 1 /\ got \in Nat /\ pendOut \in BOOLEAN
  /\ Len(stall) <= 1

(* every accepted request is handed to msg_process exactly once, in order, intact (what is
   still queued is the rest); the same for responses and events                          *)
ReqFifo  == accReq = dlvReq \o req
RespFifo == accResp = dlvResp \o resp
EvtFifo  == accEvt = dlvEvt \o evt
(* ... in particular: delivered is a prefix of accepted, and equal at quiescence *)
Prefix(a, b) == Len(a) <= Len(b) /\ \A i \in 1..Len(a) : a[i] = b[i]
DeliveredPrefix == Prefix(dlvReq, accReq) /\ Prefix(dlvResp, accResp) /\ Prefix(dlvEvt, accEvt)
Quiescent == (req = <<>> => dlvReq = accReq) /\ (resp = <<>> => dlvResp = accResp) /\ (evt = <<>> => dlvEvt = accEvt)
(* nothing longer than the negotiated maximum is ever accepted *)
SizesOK == \A i \in 1..Len(accReq) : accReq[i][2] <= maxMsg
SizesOKS == /\ \A i \in 1..Len(accResp) : accResp[i][2] <= maxMsg
            /\ \A i \in 1..Len(accEvt) : accEvt[i][2] <= maxMsg

(* a call that reports an error changes no channel *)
NoEffectOnError == [][last' < 0 => UNCHANGED chans]_vars

(* counting discipline of the notification bytes (shared-memory transport) *)
EvtCount == shm => s2c + outstanding = Len(evt)
ReqCount == shm => c2s + Len(stall) = Len(req) + got + Len(cur)
SockNoBytes == ~shm => c2s = 0 /\ s2c = 0 /\ outstanding = 0
PollOutInv == pollOut <=> outstanding > 0
(* queued requests wake the server *)
ReqWake == (disp = 0 /\ Len(req) > Len(stall)) => ServerReadable    \* (a request whose send has not returned yet does not count)

(* "While at least one event is queued and unread, the descriptor the client polls is readable." *)
Readable == evt # <<>> => ClientReadable
(* known finding KF-C02-1 (DESIGN.md section 6, no. 20): exactly this state *)
KF1 == shm /\ outstanding > 0 /\ s2c = 0 /\ evt # <<>>
ReadableExceptKF1 == ~KF1 => Readable
ReadableNoDefer == (outstanding = 0 /\ evt # <<>>) => ClientReadable
NotKF1 == ~KF1
=============================================================================
