----------------------------- MODULE TimerHeapGen -----------------------------
EXTENDS TimerHeap, Json, IOUtils
VARIABLES hist, done
Depth == atoi(IOEnv.DEPTH)
GenInit == Init /\ hist = <<>> /\ done = FALSE
GenNext == \/ /\ Len(hist) < Depth /\ UNCHANGED done
              /\ \/ \E e \in Expiries : Add(e) /\ hist' = Append(hist, <<"Add", e>>)
                 \/ \E id \in 1..(nextId - 1) : Del(id) /\ hist' = Append(hist, <<"Del", id>>)
                 \/ Pop /\ hist' = Append(hist, <<"Pop">>)
           \/ /\ Len(hist) = Depth /\ ~done /\ done' = TRUE /\ UNCHANGED <<vars, hist>>
GenSpec == GenInit /\ [][GenNext]_<<vars, hist, done>>
Emit == done => PrintT(<<"GEN", ToJson(hist)>>)
=============================================================================
