CONSTANTS NMsgs = 8  Limit = 3  MaxInits = 3
CONSTANT Fixes = {}
CONSTANT Skip = {11, 12, 13}
SPECIFICATION GenSpec
CONSTRAINT Emit
CHECK_DEADLOCK FALSE
