--------------------------- MODULE LogFormatTrace ---------------------------
(* Trace validation: the recorded calls of the real library (h_logfmt) must be
   a behaviour of LogFormat: every event is one Step(op, r) with the recorded
   arguments and the recorded result.  "Reset" starts a new history; a "Crash"
   event (sanitizer abort / signal in the harness child) matches no call.    *)
EXTENDS LogFormat, Json, IOUtils
Tr == ndJsonDeserialize(IOEnv.TRACE)
VARIABLE l
TraceInit == Init /\ l = 1
ResetState == /\ limit' = DefaultLimit /\ ell' = 0 /\ ext' = 1 /\ fmt' = DefaultFmt
              /\ env' = <<0, 0, <<1, 1>>>> /\ last' = <<"Init", <<>>>>
TraceNext ==
  /\ l <= Len(Tr) /\ l' = l + 1
  /\ LET ev == Tr[l] IN
     IF ev.e = "Reset" THEN ResetState ELSE Step(<<ev.e>> \o ev.a, ev.r)
TraceSpec == TraceInit /\ [][TraceNext]_<<vars, l>>
TraceAccepted == TLCGet("stats").diameter - 1 = Len(Tr)
=============================================================================
