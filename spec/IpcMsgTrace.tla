---------------------------- MODULE IpcMsgTrace ----------------------------
(* Trace validation: a recorded run of harness/h_ipc_step.c (a real qb_ipcs
   service and a real qb_ipcc client stepped in one thread) must be a behaviour
   of IpcMsg.  Every event carries the call's arguments "a", its results "r",
   and "o", a projection of the real connection after the step:
     o = <<queued requests, queued responses, queued events, bytes in flight
           client->server, bytes in flight server->client, deferred notifications,
           POLLOUT registered, poll() on qb_ipcc_fd_get(), poll() on the server's
           descriptor, flow-control word, statistics: requests, responses, events>>
   The projection binds the specification's nondeterministic choices and must
   agree with the specification's state after every step.                   *)
EXTENDS IpcMsg, Json, IOUtils
Tr == ndJsonDeserialize(IOEnv.TRACE)
VARIABLE l
TraceInit == Fresh(TRUE, 0) /\ l = 1

B(x) == IF x THEN 1 ELSE 0
(* the projection is compared with the state AFTER the step (primed variables) *)
ObsOK(o) ==
  /\ Len(o) = 13
  /\ o[1] = Len(req') /\ o[2] = Len(resp') /\ o[3] = Len(evt')
  /\ o[4] = c2s' /\ o[5] = s2c' /\ o[6] = outstanding' /\ o[7] = B(pollOut')
  /\ o[8] = B(IF shm' THEN s2c' > 0 ELSE evt' # <<>>)      \* = ClientReadable'
  /\ o[9] = B(IF shm' THEN c2s' > 0 ELSE req' # <<>>)      \* = ServerReadable'
  /\ o[10] = fc'
  \* the connection's statistics count exactly what the histories hold: requests handed to msg_process,
  \* responses and events accepted by the send calls
  /\ o[11] = Len(dlvReq') /\ o[12] = Len(accResp') /\ o[13] = Len(accEvt')

Fresh2(s, mm) ==
  /\ shm' = s /\ maxMsg' = mm
  /\ req' = <<>> /\ resp' = <<>> /\ evt' = <<>> /\ c2s' = 0 /\ s2c' = 0 /\ outstanding' = 0 /\ pollOut' = FALSE
  /\ fc' = 0 /\ fcMax' = 1 /\ prio' = 1 /\ disp' = 0 /\ cur' = <<>> /\ got' = 0 /\ pendOut' = FALSE
  /\ accReq' = <<>> /\ dlvReq' = <<>> /\ accResp' = <<>> /\ dlvResp' = <<>> /\ accEvt' = <<>> /\ dlvEvt' = <<>>
  /\ last' = 0 /\ stall' = <<>>
Connect(s, mm, smm) ==
  /\ mm > 0 /\ smm = mm        \* both sides agree on the negotiated maximum
  /\ Fresh2(s = 1, mm)

TDo(ev) ==
  LET a == ev.a  r == ev.r IN
  CASE ev.e = "Connect"    -> Connect(a[1], a[2], r[1])
    [] ev.e = "CSend"      -> CSend(a[1], r[1])
    [] ev.e = "CSendv"     -> CSend(a[1], r[1])
    [] ev.e = "CStall"     -> CStall(a[1])
    [] ev.e = "CSendvRecv" -> CSendvRecv(a[1], r)
    [] ev.e = "CRecv"      -> CRecv(r)
    [] ev.e = "CEvRecv"    -> CEvRecv(r)
    [] ev.e = "CFcMax"     -> CFcMax(a[1], r[1])
    [] ev.e = "SResp"      -> SResp(a[1], r[1])
    [] ev.e = "SRespv"     -> SResp(a[1], r[1])
    [] ev.e = "SEvent"     -> SEvent(a[1], r[1])
    [] ev.e = "SEventv"    -> SEvent(a[1], r[1])
    [] ev.e = "SRate"      -> SRate(a[1])
    [] ev.e = "DispBegin"  -> DispBegin(a[1])
    [] ev.e = "CbBegin"    -> CbBegin(a[1])
    [] ev.e = "CbEnd"      -> CbEnd(a[1], a[2])
    [] ev.e = "DispEnd"    -> DispEnd(r[1])
    [] ev.e \in {"CRecvSmall", "CEvRecvSmall"} -> r[1] = 0 /\ UNCHANGED vars   \* never more bytes than the buffer holds
    [] ev.e = "Idle"       -> UNCHANGED vars     \* poll() reported nothing for the server's descriptor
    [] ev.e = "Skip"       -> UNCHANGED vars     \* the harness did not execute the scheduled call
    [] OTHER               -> FALSE              \* "Hang": a call did not return

TraceNext ==
  /\ l <= Len(Tr) /\ l' = l + 1
  /\ LET ev == Tr[l] IN
     IF ev.e = "Reset" THEN Fresh2(TRUE, 0) ELSE
     /\ TDo(ev)
     /\ ((maxMsg' > 0 /\ ev.o # <<>>) => ObsOK(ev.o))
TraceSpec == TraceInit /\ [][TraceNext]_<<vars, l>>
TraceAccepted == TLCGet("stats").diameter - 1 = Len(Tr)
=============================================================================
