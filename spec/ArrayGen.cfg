CONSTANTS MaxIdx = 65536
SPECIFICATION GenSpec
CONSTRAINT Emit
CHECK_DEADLOCK FALSE
