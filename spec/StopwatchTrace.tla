-------------------------- MODULE StopwatchTrace --------------------------
(* Trace validation: recorded calls of the real qb_util_stopwatch_* functions (virtual clock) must be a
   behaviour of Stopwatch, every logged result equal to Res(op). *)
EXTENDS Stopwatch, Json, IOUtils
Tr == ndJsonDeserialize(IOEnv.TRACE)
VARIABLE l
TraceInit == Init /\ l = 1
ResetState == now' = 1000 /\ started' = 0 /\ stopped' = 0 /\ size' = 0 /\ ow' = FALSE /\ splits' = <<>>
TraceNext ==
  /\ l <= Len(Tr) /\ l' = l + 1
  /\ LET ev == Tr[l] IN
     IF ev.e = "Reset" THEN ResetState
     ELSE LET op == <<ev.e>> \o ev.a IN OpOK(op) /\ Res(op) = ev.r /\ Do(op)
TraceSpec == TraceInit /\ [][TraceNext]_<<vars, l>>
TraceAccepted == TLCGet("stats").diameter - 1 = Len(Tr)
=============================================================================
