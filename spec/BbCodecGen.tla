---------------------------- MODULE BbCodecGen ----------------------------
(* Test-vector generator: every token sequence (format SHAPE) of MinLen..Depth tokens over the
   alphabet below, printed as JSON (exhaustively, or along random walks in simulation mode).
   The driver only fills in values from the menus (flags, width/precision numbers, the conversion
   letter inside its class, which argument of the menu).  Shapes that fall under a known finding
   listed in KF (1, 2, 5, 8: properties of the format alone) are left out, as are NULL strings
   printed with a precision (no defined printf text).                                          *)
EXTENDS BbCodec, Json, IOUtils
Depth == atoi(IOEnv.DEPTH)
MinLen == atoi(IOEnv.MINLEN)
(* pv = -1 in a shape: a negative '*' precision is to be passed *)
Shape(wk, pk, pv, lm, cv, sl) == <<2, 0, wk, 0, pk, pv, lm, cv, IF sl = -1 THEN 5 ELSE 0, sl>>
Small == IOEnv.SMALL = "1"            \* reduced alphabet for the exhaustive length-3 enumeration
Classes == {<<lm, 0, 0>> : lm \in (IF Small THEN 0..2 ELSE 0..5)}   \* integer conversions with the length modifiers
           \cup {<<0, 11, 0>>} \cup (IF Small THEN {} ELSE {<<1, 11, 0>>})   \* floating conversions, without / with l
           \cup {<<0, 6, 0>>, <<0, 7, 0>>, <<0, 7, -1>>, <<0, 8, 0>>}   \* c, s, s with NULL, p
Widths == IF Small THEN {0, 2} ELSE 0..2
Precs == {<<0, 0>>, <<1, 0>>, <<2, 0>>, <<2, -1>>}
GenToks == {<<<<0, 0, 1>>, 1>>, <<<<0, 1, 1>>, 1>>, <<<<1>>, 1>>}
           \cup {<<Shape(wk, p[1], p[2], c[1], c[2], c[3]), 0>> : wk \in Widths, p \in Precs, c \in Classes}
(* the format is printed when its state is expanded: once per state in exhaustive mode, once per visited
   state of a random walk in simulation mode *)
EmitHere == (Len(vec) >= MinLen /\ ~(5 \in KF /\ KF5(vec))) => PrintT("GEN " \o ToJson(vec))
GenNext == /\ EmitHere
           /\ \/ Len(vec) < Depth /\ (ALit \/ APct \/ AConv)
              \/ Len(vec) = Depth /\ UNCHANGED vars
GenSpec == Init /\ [][GenNext]_vars
(* prefix-closed exclusions cut the search; KF5 (last directive is "%%") is decided per emitted format *)
Prune == ~(1 \in KF /\ KF1(vec)) /\ ~(2 \in KF /\ KF2(vec)) /\ ~(8 \in KF /\ KF8(vec)) /\ ~NullPrec(vec)
=============================================================================
