----------------------------- MODULE StrOpsTrace -----------------------------
(* every recorded call of the real strlcpy / strlcat must be in the relation StrOps defines *)
EXTENDS StrOps, Json, IOUtils
Tr == ndJsonDeserialize(IOEnv.TRACE)
VARIABLE l
TraceInit == l = 1
TraceNext ==
  /\ l <= Len(Tr) /\ l' = l + 1
  /\ LET ev == Tr[l] IN
     IF ev.e = "Reset" THEN TRUE
     ELSE CallOK(ev.e, ev.a[1], ev.a[2], ev.a[3], ev.r[1], ev.r[2]) /\ Bounded(ev.a[1], ev.a[2], ev.a[3])
TraceSpec == TraceInit /\ [][TraceNext]_l
TraceAccepted == TLCGet("stats").diameter - 1 = Len(Tr)
=============================================================================
