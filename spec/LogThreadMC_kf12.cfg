\* model-level reproducer of finding 12 (expected: LockLive violated)
CONSTANTS NMsgs = 3  Limit = 2  MaxInits = 2
CONSTANT Fixes = {}
CONSTANT Skip = {11, 13}
SPECIFICATION Spec
INVARIANT TypeOK
INVARIANT InOrderOnce
INVARIANT AllWrittenAtFini
INVARIANT DroppedReported
INVARIANT NeverOverReported
INVARIANT LockLive
INVARIANT InLoggerSafe
INVARIANT NoEmptyDequeue
INVARIANT MemConsistent
INVARIANT StopPathOK
CHECK_DEADLOCK FALSE
