CONSTANTS MaxObj = 1000000  MaxRef = 1000000  MaxSlot = 1000000
SPECIFICATION TraceSpec
INVARIANT RefFormula
INVARIANT DtorExactlyOnce
INVARIANT SlotUnique
INVARIANT StaleInvalid
INVARIANT PendingRefusesGet
POSTCONDITION TraceAccepted
CHECK_DEADLOCK FALSE
