CONSTANTS Cap = 1000000  NCap = 1000000  MaxSends = 1000000  Lens = {16}  MaxMsgMC = 1
SPECIFICATION TraceSpec
INVARIANT TypeOK
INVARIANT ReqFifo
INVARIANT RespFifo
INVARIANT EvtFifo
INVARIANT DeliveredPrefix
INVARIANT Quiescent
INVARIANT SizesOK
INVARIANT SizesOKS
INVARIANT EvtCount
INVARIANT ReqCount
INVARIANT SockNoBytes
INVARIANT PollOutInv
INVARIANT ReqWake
INVARIANT ReadableNoDefer
INVARIANT ReadableExceptKF1
PROPERTY NoEffectOnError
POSTCONDITION TraceAccepted
CHECK_DEADLOCK FALSE
