----------------------------- MODULE LogThread -----------------------------
(* Threaded logging (lib/log_thread.c + the qb_log_ctl2 / qb_log_fini / qb_log_init
   paths of lib/log.c that touch it) -- property C16.

   Plain TLA+ with explicit program counters.  Two threads: the application
   thread A (producer and controller in one: the property speaks of "a producer")
   and the logging thread W.  Every action is the code between two consecutive
   hook points (QB_VP_LOGT_* in lib/verif_hook.h), so one granted step of the
   harness's scheduler is one action here and the pc values are the hook points.

   The model describes the code AS IT IS; `Fixes` says which of the proposed
   repairs the modelled code contains:
     11  the worker's exit test looks at the queue instead of the semaphore value
     12  qb_log_thread_stop resets its state (active, lock pointer, exit flag),
         qb_log_init resets the `threaded` flag of every slot, and
         pause/resume do nothing while no thread exists
     13  every control call, qb_log_custom_close and QB_LOG_CONF_THREADED included, waits for the
         logging thread whenever one exists (pause/resume keyed on the thread, not on the target's flag)
   The property itself (the invariants at the end) does not depend on Fixes.   *)
EXTENDS Naturals, Integers, Sequences, FiniteSets, TLC

CONSTANTS NMsgs,     \* messages the producer may log: ids 1..NMsgs, logged in this order
          Limit,     \* backlog limit in units of one record (real code: 512000 bytes)
          MaxInits,  \* number of qb_log_init calls (2 = one re-initialisation)
          Fixes,     \* subset of {11, 12, 13}
          Skip       \* subset of {11, 12, 13}: findings whose trigger step is left out (design check and
                     \* generation for unrepaired code; {} in trace validation, where nothing is left out)

VARIABLES
  (* lib/log.c, as far as the property talks about it *)
  inited,      \* logger_inited
  inits,       \* number of qb_log_init calls so far
  tstate,      \* state of the one custom target: "unused" | "disabled" | "enabled"
  threaded,    \* conf[t].threaded
  (* lib/log_thread.c statics *)
  active,      \* wthread_active
  shouldExit,  \* wthread_should_exit
  lockObj,     \* what logt_wthread_lock points to: "null" | "live" | "destroyed"
  lock,        \* holder of that lock: "free" | "A" | "W"
  sem,         \* value of logt_print_finished
  queue,       \* logt_print_finished_records: sequence of message ids
  memUsed,     \* logt_memory_used, in records
  dropped,     \* logt_dropped_messages
  (* threads *)
  wpc,         \* worker: "none" (no thread) | hook point | "exited" (terminated, not yet joined)
  wrec,        \* record the worker has dequeued (0 = none)
  apc,         \* application thread: "idle" | hook point inside a call
  acall,       \* the call it is in, <<name, argument>>
  (* ghost: what the property is about *)
  posted,      \* number of qb_log calls made on the threaded target (= id of the last one)
  lost,        \* ids dropped because the backlog limit was exceeded
  opt,         \* ids whose delivery the property no longer demands (target disabled / un-threaded / closed while pending)
  written,     \* sequence of ids the target's logger was called with
  reported,    \* sum of the "N messages lost" reports
  fin          \* TRUE exactly in the state where qb_log_fini has just returned

vars == <<inited, inits, tstate, threaded, active, shouldExit, lockObj, lock, sem, queue, memUsed, dropped,
          wpc, wrec, apc, acall, posted, lost, opt, written, reported, fin>>
libvars   == <<inited, inits, tstate, threaded>>
thrvars   == <<active, shouldExit, lockObj, lock, sem, queue, memUsed, dropped>>
ghostvars == <<posted, lost, opt, written, reported>>

Fixed(n) == n \in Fixes
NoCall == <<"none", 0>>
Range(s) == {s[i] : i \in DOMAIN s}
Pending == (1..posted) \ (Range(written) \cup lost)      \* logged, neither written nor dropped (yet)

Init ==
  /\ inited = FALSE /\ inits = 0 /\ tstate = "unused" /\ threaded = FALSE
  /\ active = FALSE /\ shouldExit = FALSE /\ lockObj = "null" /\ lock = "free" /\ sem = 0
  /\ queue = <<>> /\ memUsed = 0 /\ dropped = 0
  /\ wpc = "none" /\ wrec = 0 /\ apc = "idle" /\ acall = NoCall
  /\ posted = 0 /\ lost = {} /\ opt = {} /\ written = <<>> /\ reported = 0 /\ fin = FALSE

-----------------------------------------------------------------------------
(* Triggers of the recorded findings, as predicates on a step (DESIGN.md 3.7).  A step that satisfies
   KFnn is not taken when nn \in Skip (TLC evaluates invariants on successors that an ACTION_CONSTRAINT
   rejects, so the exclusion is part of the actions). *)
(* 11: the worker decides to exit although a record is still queued *)
KF11 == wpc = "locked" /\ wpc' = "exit" /\ queue # <<>>
(* 12: a call that takes the logging thread's lock is made while that lock does not exist
       (before qb_log_thread_start, or after a qb_log_fini that stopped the thread) *)
KF12 == apc = "idle" /\ apc' \in {"c_pause", "p_lock", "s_lock"} /\ lockObj # "live"
(* 13: the target is closed or disabled while the logging thread is inside its logger
       (qb_log_custom_close never waits for the thread; qb_log_ctl does not once threaded mode was switched off) *)
KF13 == wpc = "inlogger" /\ tstate = "enabled" /\ tstate' # "enabled"
NoKF(n, trig) == (n \in Skip) => ~trig
-----------------------------------------------------------------------------
(* Application thread: calls.  A call that contains no hook point is one step. *)

(* qb_log_init + qb_log_custom_open + filter + format: the target exists, disabled *)
CallInit ==
  /\ apc = "idle" /\ ~inited /\ inits < MaxInits
  /\ inited' = TRUE /\ inits' = inits + 1 /\ tstate' = "disabled"
  /\ threaded' = IF Fixed(12) THEN FALSE ELSE threaded
  /\ fin' = FALSE
  /\ UNCHANGED <<thrvars, wpc, wrec, apc, acall, ghostvars>>

(* qb_log_thread_start *)
CallStart ==
  /\ apc = "idle" /\ inited
  /\ IF active
       THEN UNCHANGED <<thrvars, wpc>>
       ELSE /\ active' = TRUE /\ sem' = 0 /\ lockObj' = "live" /\ lock' = "free" /\ wpc' = "wait"
            /\ UNCHANGED <<shouldExit, queue, memUsed, dropped>>
  /\ fin' = FALSE
  /\ UNCHANGED <<libvars, wrec, apc, acall, ghostvars>>

(* the body of a control call: enable/disable, reconfigure, switch threaded mode, close *)
Body(c) ==
  CASE c[1] = "Enable" ->
         /\ tstate' = (IF c[2] = 1 THEN "enabled" ELSE "disabled") /\ threaded' = threaded
         /\ opt' = IF c[2] = 1 THEN opt ELSE opt \cup Pending
    [] c[1] = "Conf" -> UNCHANGED <<tstate, threaded, opt>>
    [] c[1] = "SetThreaded" ->
         /\ threaded' = (c[2] = 1) /\ tstate' = tstate
         /\ opt' = IF c[2] = 1 THEN opt ELSE opt \cup Pending
    [] c[1] = "Close" -> tstate' = "unused" /\ threaded' = threaded /\ opt' = opt \cup Pending

(* does this call go through qb_log_thread_pause / resume (i.e. wait for the logging thread)?
   as found: only qb_log_ctl other than QB_LOG_CONF_THREADED, and only if the target's flag is set *)
Pauses(c) ==
  IF Fixed(13) THEN lockObj # "null"
  ELSE /\ threaded /\ c[1] \notin {"Close", "SetThreaded"}
       /\ (Fixed(12) => lockObj = "live")

(* qb_log_ctl(t, QB_LOG_CONF_ENABLED | QB_LOG_CONF_EXTENDED | QB_LOG_CONF_THREADED, v) | qb_log_custom_close(t) *)
Ctls == {<<"Enable", 0>>, <<"Enable", 1>>, <<"Conf", 0>>, <<"SetThreaded", 0>>, <<"SetThreaded", 1>>, <<"Close", 0>>}
CallCtl(c) ==
  /\ apc = "idle" /\ inited /\ tstate # "unused"
  /\ c \in Ctls
  /\ fin' = FALSE
  /\ IF Pauses(c)
       THEN /\ apc' = "c_pause" /\ acall' = c
            /\ UNCHANGED <<libvars, thrvars, wpc, wrec, ghostvars>>
       ELSE /\ Body(c)
            /\ UNCHANGED <<inited, inits, thrvars, wpc, wrec, apc, acall, posted, lost, written, reported>>
  /\ NoKF(12, KF12) /\ NoKF(13, KF13)

C_Lock ==
  /\ apc = "c_pause" /\ lock = "free"
  /\ lock' = "A" /\ apc' = "c_paused"
  /\ UNCHANGED <<libvars, active, shouldExit, lockObj, sem, queue, memUsed, dropped, wpc, wrec, acall, ghostvars, fin>>
C_Body ==
  /\ apc = "c_paused"
  /\ Body(acall) /\ apc' = "c_resume"
  /\ UNCHANGED <<inited, inits, thrvars, wpc, wrec, acall, posted, lost, written, reported, fin>>
C_Unlock ==
  /\ apc = "c_resume"
  /\ lock' = "free" /\ apc' = "idle" /\ acall' = NoCall
  /\ UNCHANGED <<libvars, active, shouldExit, lockObj, sem, queue, memUsed, dropped, wpc, wrec, ghostvars, fin>>

(* qb_log() on the enabled threaded target while the thread runs -> qb_log_thread_log_post *)
CallLog ==
  /\ apc = "idle" /\ inited /\ tstate = "enabled" /\ threaded /\ active
  /\ posted < NMsgs
  /\ posted' = posted + 1 /\ apc' = "p_lock" /\ acall' = <<"Log", posted + 1>>
  /\ fin' = FALSE
  /\ UNCHANGED <<libvars, thrvars, wpc, wrec, lost, opt, written, reported>>
  /\ NoKF(12, KF12)
(* qb_log() on the enabled target while it is NOT threaded: the caller writes it, inside the call (no hook point on
   the way).  Explored only while nothing is left in the logging thread's hands, so that the order of writes stays the
   order of the calls whatever happened to messages still queued when threaded mode was switched off. *)
CallLogSync ==
  /\ apc = "idle" /\ inited /\ tstate = "enabled" /\ ~threaded
  /\ queue = <<>> /\ wrec = 0
  /\ posted < NMsgs
  /\ posted' = posted + 1 /\ apc' = "a_inlogger" /\ acall' = <<"Log", posted + 1>>
  /\ fin' = FALSE
  /\ UNCHANGED <<libvars, thrvars, wpc, wrec, lost, opt, written, reported>>
(* ... the application thread is inside the target's logger, and returns *)
A_Logger ==
  /\ apc = "a_inlogger"
  /\ written' = Append(written, acall[2]) /\ apc' = "idle" /\ acall' = NoCall
  /\ UNCHANGED <<libvars, thrvars, wpc, wrec, posted, lost, opt, reported, fin>>
P_Lock ==
  /\ apc = "p_lock" /\ lock = "free"
  /\ lock' = "A" /\ apc' = "p_locked"
  /\ UNCHANGED <<libvars, active, shouldExit, lockObj, sem, queue, memUsed, dropped, wpc, wrec, acall, ghostvars, fin>>
P_Account ==
  /\ apc = "p_locked"
  /\ memUsed' = memUsed + 1
  /\ apc' = IF memUsed + 1 > Limit THEN "p_drop" ELSE "p_append"
  /\ UNCHANGED <<libvars, active, shouldExit, lockObj, lock, sem, queue, dropped, wpc, wrec, acall, ghostvars, fin>>
P_Append ==
  /\ apc = "p_append"
  /\ queue' = Append(queue, acall[2]) /\ apc' = "p_unlock"
  /\ UNCHANGED <<libvars, active, shouldExit, lockObj, lock, sem, memUsed, dropped, wpc, wrec, acall, ghostvars, fin>>
P_Drop ==
  /\ apc = "p_drop"
  /\ memUsed' = memUsed - 1 /\ dropped' = dropped + 1 /\ lost' = lost \cup {acall[2]} /\ apc' = "p_unlockd"
  /\ UNCHANGED <<libvars, active, shouldExit, lockObj, lock, sem, queue, wpc, wrec, acall, posted, opt, written, reported, fin>>
P_Unlock ==
  /\ apc = "p_unlock"
  /\ lock' = "free" /\ apc' = "p_post"
  /\ UNCHANGED <<libvars, active, shouldExit, lockObj, sem, queue, memUsed, dropped, wpc, wrec, acall, ghostvars, fin>>
P_UnlockD ==
  /\ apc = "p_unlockd"
  /\ lock' = "free" /\ apc' = "idle" /\ acall' = NoCall
  /\ UNCHANGED <<libvars, active, shouldExit, lockObj, sem, queue, memUsed, dropped, wpc, wrec, ghostvars, fin>>
P_Post ==
  /\ apc = "p_post"
  /\ sem' = sem + 1 /\ apc' = "idle" /\ acall' = NoCall
  /\ UNCHANGED <<libvars, active, shouldExit, lockObj, lock, queue, memUsed, dropped, wpc, wrec, ghostvars, fin>>

(* qb_log_fini -> qb_log_thread_stop, then the targets are disabled *)
AfterStop == IF tstate = "enabled" THEN "disabled" ELSE tstate
CallFini ==
  /\ apc = "idle" /\ inited
  /\ inited' = FALSE
  /\ IF ~active
       THEN /\ tstate' = AfterStop /\ fin' = TRUE
            /\ UNCHANGED <<apc, acall>>
       ELSE /\ apc' = "s_lock" /\ acall' = <<"Fini", 0>> /\ fin' = FALSE
            /\ UNCHANGED tstate
  /\ UNCHANGED <<inits, threaded, thrvars, wpc, wrec, ghostvars>>
  /\ NoKF(12, KF12)
S_Lock ==
  /\ apc = "s_lock" /\ lock = "free"
  /\ lock' = "A" /\ apc' = "s_locked"
  /\ UNCHANGED <<libvars, active, shouldExit, lockObj, sem, queue, memUsed, dropped, wpc, wrec, acall, ghostvars, fin>>
S_Set ==
  /\ apc = "s_locked"
  /\ shouldExit' = TRUE /\ apc' = "s_unlock"
  /\ UNCHANGED <<libvars, active, lockObj, lock, sem, queue, memUsed, dropped, wpc, wrec, acall, ghostvars, fin>>
S_Unlock ==
  /\ apc = "s_unlock"
  /\ lock' = "free" /\ apc' = "s_post"
  /\ UNCHANGED <<libvars, active, shouldExit, lockObj, sem, queue, memUsed, dropped, wpc, wrec, acall, ghostvars, fin>>
S_Post ==
  /\ apc = "s_post"
  /\ sem' = sem + 1 /\ apc' = "s_join"
  /\ UNCHANGED <<libvars, active, shouldExit, lockObj, lock, queue, memUsed, dropped, wpc, wrec, acall, ghostvars, fin>>
(* pthread_join returns once the worker has terminated; then lock and semaphores are destroyed,
   qb_log_thread_stop returns and qb_log_fini disables the targets and returns *)
S_Join ==
  /\ apc = "s_join" /\ wpc \in {"exited", "none"}
  /\ wpc' = "none"
  /\ IF Fixed(12)
       THEN active' = FALSE /\ lockObj' = "null" /\ shouldExit' = FALSE
       ELSE lockObj' = "destroyed" /\ UNCHANGED <<active, shouldExit>>
  /\ tstate' = AfterStop /\ apc' = "idle" /\ acall' = NoCall /\ fin' = TRUE
  /\ UNCHANGED <<inited, inits, threaded, lock, sem, queue, memUsed, dropped, wrec, ghostvars>>

(* one named action per control call (a one-item conjunction keeps the name in TLC's coverage and
   in the action labels of a dumped state graph, from which schedules are read) *)
CtlEnable0   == /\ CallCtl(<<"Enable", 0>>)
CtlEnable1   == /\ CallCtl(<<"Enable", 1>>)
CtlConf      == /\ CallCtl(<<"Conf", 0>>)
CtlThreaded0 == /\ CallCtl(<<"SetThreaded", 0>>)
CtlThreaded1 == /\ CallCtl(<<"SetThreaded", 1>>)
CtlClose     == /\ CallCtl(<<"Close", 0>>)
Ctl == CtlEnable0 \/ CtlEnable1 \/ CtlConf \/ CtlThreaded0 \/ CtlThreaded1 \/ CtlClose
ACall == CallInit \/ CallStart \/ CallLog \/ CallLogSync \/ CallFini \/ Ctl
AStep == \/ C_Lock \/ C_Body \/ C_Unlock \/ A_Logger
         \/ P_Lock \/ P_Account \/ P_Append \/ P_Drop \/ P_Unlock \/ P_UnlockD \/ P_Post
         \/ S_Lock \/ S_Set \/ S_Unlock \/ S_Post \/ S_Join
ANext == ACall \/ AStep

-----------------------------------------------------------------------------
(* Logging thread: qb_logt_worker_thread *)
Wk_SemWait ==
  /\ wpc = "wait" /\ sem > 0
  /\ sem' = sem - 1 /\ wpc' = "woken"
  /\ UNCHANGED <<libvars, active, shouldExit, lockObj, lock, queue, memUsed, dropped, wrec, apc, acall, ghostvars, fin>>
Wk_Lock ==
  /\ wpc = "woken" /\ lock = "free"
  /\ lock' = "W" /\ wpc' = "locked"
  /\ UNCHANGED <<libvars, active, shouldExit, lockObj, sem, queue, memUsed, dropped, wrec, apc, acall, ghostvars, fin>>
ExitDecision == IF Fixed(11) THEN shouldExit /\ queue = <<>> ELSE shouldExit /\ sem = 0
Wk_ExitTest ==
  /\ wpc = "locked"
  /\ wpc' = IF ExitDecision THEN "exit" ELSE "dequeue"
  /\ UNCHANGED <<libvars, thrvars, wrec, apc, acall, ghostvars, fin>>
  /\ NoKF(11, KF11)
Wk_Exit ==
  /\ wpc = "exit"
  /\ lock' = "free" /\ wpc' = "exited"
  /\ UNCHANGED <<libvars, active, shouldExit, lockObj, sem, queue, memUsed, dropped, wrec, apc, acall, ghostvars, fin>>
(* dequeue, un-account, take over and report the dropped count *)
Wk_Dequeue ==
  /\ wpc = "dequeue" /\ queue # <<>>
  /\ wrec' = Head(queue) /\ queue' = Tail(queue) /\ memUsed' = memUsed - 1
  /\ reported' = reported + dropped /\ dropped' = 0
  /\ wpc' = "write"
  /\ UNCHANGED <<libvars, active, shouldExit, lockObj, lock, sem, apc, acall, posted, lost, opt, written, fin>>
(* qb_log_thread_log_write: the target's logger is entered iff the target is enabled and threaded now *)
Wk_Write ==
  /\ wpc = "write"
  /\ wpc' = IF tstate = "enabled" /\ threaded THEN "inlogger" ELSE "unlock"
  /\ UNCHANGED <<libvars, thrvars, wrec, apc, acall, ghostvars, fin>>
Wk_Logger ==
  /\ wpc = "inlogger"
  /\ written' = Append(written, wrec) /\ wpc' = "unlock"
  /\ UNCHANGED <<libvars, thrvars, wrec, apc, acall, posted, lost, opt, reported, fin>>
Wk_Unlock ==
  /\ wpc = "unlock"
  /\ lock' = "free" /\ wrec' = 0 /\ wpc' = "wait"
  /\ UNCHANGED <<libvars, active, shouldExit, lockObj, sem, queue, memUsed, dropped, apc, acall, ghostvars, fin>>

WNext == Wk_SemWait \/ Wk_Lock \/ Wk_ExitTest \/ Wk_Exit \/ Wk_Dequeue \/ Wk_Write \/ Wk_Logger \/ Wk_Unlock

Next == \/ CallInit \/ CallStart \/ CallLog \/ CallLogSync \/ CallFini
        \/ CtlEnable0 \/ CtlEnable1 \/ CtlConf \/ CtlThreaded0 \/ CtlThreaded1 \/ CtlClose
        \/ C_Lock \/ C_Body \/ C_Unlock \/ A_Logger
        \/ P_Lock \/ P_Account \/ P_Append \/ P_Drop \/ P_Unlock \/ P_UnlockD \/ P_Post
        \/ S_Lock \/ S_Set \/ S_Unlock \/ S_Post \/ S_Join
        \/ Wk_SemWait \/ Wk_Lock \/ Wk_ExitTest \/ Wk_Exit \/ Wk_Dequeue \/ Wk_Write \/ Wk_Logger \/ Wk_Unlock

Spec     == Init /\ [][Next]_vars
FairSpec == Spec /\ WF_vars(ANext) /\ WF_vars(WNext)

-----------------------------------------------------------------------------
(* The property (C16) *)
TypeOK ==
  /\ inited \in BOOLEAN /\ inits \in 0..MaxInits /\ tstate \in {"unused", "disabled", "enabled"} /\ threaded \in BOOLEAN
  /\ active \in BOOLEAN /\ shouldExit \in BOOLEAN /\ lockObj \in {"null", "live", "destroyed"} /\ lock \in {"free", "A", "W"}
  /\ sem \in 0..(NMsgs + MaxInits) /\ memUsed \in 0..(Limit + 1) /\ dropped \in 0..NMsgs
  /\ wpc \in {"none", "wait", "woken", "locked", "exit", "dequeue", "write", "inlogger", "unlock", "exited"}
  /\ posted \in 0..NMsgs /\ lost \subseteq 1..NMsgs /\ opt \subseteq 1..NMsgs /\ reported \in 0..NMsgs /\ fin \in BOOLEAN

(* exactly once and in the order logged: the written ids are strictly increasing, and were logged *)
InOrderOnce ==
  /\ \A i \in 1..Len(written) : written[i] \in 1..posted /\ written[i] \notin lost
  /\ \A i, j \in 1..Len(written) : i < j => written[i] < written[j]
(* when qb_log_fini returns, everything logged was written, except what was dropped over the limit *)
AllWrittenAtFini == fin => ((1..posted) \ (lost \cup opt)) \subseteq Range(written)
(* ... and the number dropped has been reported *)
DroppedReported == fin => reported = Cardinality(lost)
NeverOverReported == reported <= Cardinality(lost)
(* the lock object exists whenever somebody holds it (no NULL / destroyed lock in any control order) *)
LockLive == lock # "free" => lockObj = "live"
(* the target stays enabled while the logging thread is inside its logger (control operations wait for it) *)
InLoggerSafe == wpc = "inlogger" => tstate = "enabled"
(* the worker never takes a record from an empty queue *)
NoEmptyDequeue == wpc = "dequeue" => queue # <<>>
(* qb_log_thread_stop's branch for "no thread but a lock" is never entered *)
StopPathOK == ~active => lockObj = "null"
MemConsistent == memUsed = Len(queue) + (IF apc \in {"p_append", "p_drop"} THEN 1 ELSE 0)
(* liveness: every call returns, in particular qb_log_fini *)
CallsReturn == (apc # "idle") ~> (apc = "idle")
FiniReturns == (acall[1] = "Fini") ~> fin

-----------------------------------------------------------------------------
=============================================================================
