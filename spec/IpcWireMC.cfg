CONSTANTS KFSkip = {"KF1", "KF2", "KF3"}  Impl = "asfound"  Big = FALSE
SPECIFICATION Spec
INVARIANT TypeOK
INVARIANT AdmittedWellFormed
INVARIANT SuccessOnlyIfAdmitted
INVARIANT NothingForStrangers
INVARIANT ReportedBounded
INVARIANT JudgeOK
INVARIANT TriggersExact
INVARIANT CanFinish
INVARIANT LeakRefused
CHECK_DEADLOCK FALSE
