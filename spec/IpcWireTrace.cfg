CONSTANTS KFSkip = {}
SPECIFICATION TraceSpec
INVARIANT TypeOK
INVARIANT AdmittedWellFormed
INVARIANT SuccessOnlyIfAdmitted
INVARIANT NothingForStrangers
INVARIANT ReportedBounded
POSTCONDITION TraceAccepted
CHECK_DEADLOCK FALSE
