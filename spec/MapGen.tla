------------------------------ MODULE MapGen ------------------------------
(* Behaviour generator for Map: histories of operations (no results) printed
   as JSON.  Mode "dict": the C17 operation set; mode "iter": C18.          *)
EXTENDS Map, Json, IOUtils
VARIABLES hist, done
Depth == atoi(IOEnv.DEPTH)
Mode == IOEnv.MODE
B01(b) == IF b THEN 1 ELSE 0
Stops == {0, 1, 2}
Prefs == {0} \cup (IF Impl = "trie" THEN Keys ELSE {})
DictOps == {<<"Put", k, v>> : k \in Keys, v \in 1..NVal} \cup {<<"Get", k>> : k \in Keys}
           \cup {<<"Rm", k>> : k \in Keys} \cup {<<"Count">>}
           \cup {<<"IterAll", s, p>> : s \in Stops, p \in Prefs}
           \cup {<<"NotifyAdd", s[1], s[2], B01(s[3]), B01(s[4]), t>> : s \in NotifShapes, t \in Tags}
           \cup {<<"NotifyDel", s[1], s[2], B01(s[3]), B01(s[4]), t>> : s \in NotifShapes, t \in Tags}
           \cup {<<"NotifyDelAny", s[1], s[2], B01(s[3]), B01(s[4])>> : s \in NotifShapes}
IterOps == {<<"Put", k, v>> : k \in Keys, v \in 1..NVal} \cup {<<"Get", k>> : k \in Keys}
           \cup {<<"Rm", k>> : k \in Keys} \cup {<<"Count">>}
           \cup {<<"IterCreate", i, p>> : i \in 1..MaxIter, p \in Prefs}
           \cup {<<"IterNext", i>> : i \in 1..MaxIter} \cup {<<"IterFree", i>> : i \in 1..MaxIter}
GenOps == IF Mode = "dict" THEN DictOps ELSE IterOps

(* the generator resolves IterNext deterministically: lowest admissible key, else end *)
NextKey(i) == LET c == {k \in iters[i].cand \ iters[i].seen : dict[k] # 0} IN
              IF c = {} THEN 0 ELSE CHOOSE k \in c : \A j \in c : k <= j

GDo(op) ==
  CASE op[1] = "Put"        -> Put(op[2], op[3])
    [] op[1] = "Get"        -> Get(op[2])
    [] op[1] = "Rm"         -> Rm(op[2])
    [] op[1] = "Count"      -> Count
    [] op[1] = "IterAll"    -> IterAll(op[2], op[3])
    [] op[1] = "NotifyAdd"  -> NotifyAdd(op[2], op[3], op[4] = 1, op[5] = 1, op[6])
    [] op[1] = "NotifyDel"  -> NotifyDel(op[2], op[3], op[4] = 1, op[5] = 1, op[6])
    [] op[1] = "NotifyDelAny" -> NotifyDelAny(op[2], op[3], op[4] = 1, op[5] = 1)
    [] op[1] = "IterCreate" -> IterCreate(op[2], op[3])
    [] op[1] = "IterNext"   -> iters[op[2]].open /\ ~iters[op[2]].ended /\ IterNext(op[2], NextKey(op[2]))
    [] op[1] = "IterFree"   -> IterFree(op[2])

GenInit == Init /\ hist = <<>> /\ done = FALSE
GenNext == \/ /\ Len(hist) < Depth /\ UNCHANGED done
              /\ \E op \in GenOps : GDo(op) /\ hist' = Append(hist, op)
           \/ /\ Len(hist) = Depth /\ ~done /\ done' = TRUE /\ UNCHANGED <<vars, hist>>
GenSpec == GenInit /\ [][GenNext]_<<vars, hist, done>>
Emit == done => PrintT(<<"GEN", ToJson(hist)>>)
=============================================================================
