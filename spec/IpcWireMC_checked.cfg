CONSTANTS KFSkip = {}  Impl = "checked"
SPECIFICATION Spec
INVARIANT TypeOK
INVARIANT AdmittedWellFormed
INVARIANT SuccessOnlyIfAdmitted
INVARIANT NothingForStrangers
INVARIANT ReportedBounded
INVARIANT JudgeOK
INVARIANT CanFinish
INVARIANT LeakRefused
CHECK_DEADLOCK FALSE
