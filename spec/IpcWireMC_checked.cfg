CONSTANTS KFSkip = {}  Impl = "checked"
SPECIFICATION Spec
CONSTRAINT JudgeOnly
INVARIANT JudgeOK
CHECK_DEADLOCK FALSE
