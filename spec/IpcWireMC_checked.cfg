CONSTANTS KFSkip = {}  Impl = "checked"  Big = FALSE
SPECIFICATION Spec
CONSTRAINT JudgeOnly
INVARIANT JudgeOK
CHECK_DEADLOCK FALSE
