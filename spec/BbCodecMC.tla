----------------------------- MODULE BbCodecMC -----------------------------
(* Design check alphabet for BbCodec: every combination below, as <<token, printed length>>. *)
EXTENDS BbCodec
CONSTANT Rich
Conv(wk, wv, pk, pv, lm, cv, sl) == <<2, 0, wk, wv, pk, pv, lm, cv, 0, sl>>
MCWidths == {<<0, 0>>, <<2, 3>>} \cup (IF Rich THEN {<<1, 3>>} ELSE {})
MCPrecs  == {<<0, 0>>, <<1, 2>>, <<2, 2>>}
MCArgs   == {<<0, 0, 0, 9>>, <<2, 0, 0, 3>>,                                       \* d (9 characters), lld
             <<0, 7, 0, 0>>, <<0, 7, 5, 2>>, <<0, 7, -1, 6>>}                      \* s: "", 5 characters, NULL
             \cup (IF Rich THEN {<<0, 0, 0, 1>>, <<0, 6, 0, 1>>} ELSE {})         \* d (1 character), c
MCToks == {<<<<0, 0, 1>>, 1>>, <<<<0, 1, 3>>, 3>>, <<<<1>>, 1>>}
          \cup {<<Conv(w[1], w[2], p[1], p[2], a[1], a[2], a[3]), a[4]>> : w \in MCWidths, p \in MCPrecs, a \in MCArgs}
=============================================================================
