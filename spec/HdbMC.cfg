CONSTANTS MaxObj = 3  MaxRef = 3  MaxSlot = 1
SPECIFICATION Spec
CONSTRAINT StateBound
INVARIANT TypeOK
INVARIANT RefFormula
INVARIANT DtorExactlyOnce
INVARIANT SlotUnique
INVARIANT StaleInvalid
INVARIANT PendingRefusesGet
INVARIANT IterVisitsLive
CHECK_DEADLOCK FALSE
