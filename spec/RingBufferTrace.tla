--------------------------- MODULE RingBufferTrace ---------------------------
(* Trace validation of a scheduled two-thread run of the real ring buffer
   (harness/h_rb_sched.c) against RingBuffer: every recorded step must be the
   step the model predicts for that thread in the current state, with the same
   values, and the chunks handed out must be the accepted ones (hash-equal).  *)
EXTENDS RingBuffer, Json, IOUtils
Tr == ndJsonDeserialize(IOEnv.TRACE)
VARIABLES l, hashes, wh
TraceInit == Init /\ l = 1 /\ hashes = <<>> /\ wh = 0
Kind(k) == CASE k = 1 -> "read" [] k = 2 -> "peek" [] k = 3 -> "reclaim"
P(t, pt, x, y, o) ==
  CASE pt = 200 -> t = 1 /\ W_SF_RD_WP(x)
    [] pt = 201 -> t = 1 /\ W_SF_RD_RP(x)
    [] pt = 202 -> t = 1 /\ W_SF_DONE(x)
    [] pt = 203 -> t = 1 /\ W_AL_ZERO(x)
    [] pt = 204 -> t = 1 /\ W_AL_ALLOC(x, o)
    [] pt = 205 -> t = 1 /\ W_WR_COPY(x)
    [] pt = 206 -> t = 1 /\ W_CM_LEN(x, y)
    [] pt = 207 -> t = 1 /\ W_CM_WP(x)
    [] pt = 208 -> t = 1 /\ W_CM_MAGIC(x, o)
    [] pt = 210 -> t = 2 /\ R_RC_MAGIC(x, y, o)
    [] pt = 211 -> t = 2 /\ R_RC_CHECK(x)
    [] pt = 212 -> t = 2 /\ R_RC_SIZE(x)
    [] pt = 213 -> t = 2 /\ R_RC_STEP(x)
    [] pt = 214 -> t = 2 /\ R_RC_ZERO(x)
    [] pt = 215 -> t = 2 /\ R_RC_DEAD(x, o)
    [] pt = 216 -> t = 2 /\ R_RC_RP(x)
    [] pt = 217 -> t = 2 /\ R_RD_WAIT(x)
    [] pt = 218 -> t = 2 /\ R_RD_MAGIC(x, y, o)
    [] pt = 219 -> t = 2 /\ R_RD_CHECK(x)
    [] pt = 220 -> t = 2 /\ R_RD_REPOST(x)
    [] pt = 221 -> t = 2 /\ R_RD_SIZE(x)
    [] pt = 222 -> t = 2 /\ R_RD_COPY(x)
TDo(ev) ==
  LET a == ev.a IN
  CASE ev.e = "P"     -> P(a[1], a[2], a[3], a[4], a[5]) /\ UNCHANGED wh
                         /\ hashes' = (IF a[2] = 208 THEN Append(hashes, wh) ELSE hashes)
    [] ev.e = "WCall" -> W_Call(a[1], a[2], a[3]) /\ wh' = a[4] /\ UNCHANGED hashes
    [] ev.e = "WRet"  -> W_Ret(a[1]) /\ UNCHANGED <<hashes, wh>>
    [] ev.e = "RCall" -> R_Call(Kind(a[1]), a[2]) /\ UNCHANGED <<hashes, wh>>
    [] ev.e = "RRet"  -> /\ IF rpc = "ret_data"
                              THEN R_RetData(a[1]) /\ nret < Len(hashes) /\ a[2] = hashes[nret + 1]   \* same bytes as written
                              ELSE R_Ret(a[1])
                         /\ UNCHANGED <<hashes, wh>>
    [] ev.e = "Ring"  -> a[2] = (IF UseSem THEN 0 ELSE 1) /\ UNCHANGED <<vars, hashes, wh>>
    [] ev.e = "Done"  -> wpc = "idle" /\ rpc = "idle" /\ UNCHANGED <<vars, hashes, wh>>
ResetAll ==
  /\ wp' = 0 /\ rp' = 0 /\ sem' = 0 /\ hw' = <<>> /\ ext' = <<>> /\ seq' = 0
  /\ wpc' = "idle" /\ wop' = <<0, 0, 0>> /\ wl' = [swp |-> 0, srp |-> 0, free |-> 0, old |-> 0, rc |-> 0]
  /\ rpc' = "idle" /\ rop' = <<"none", 0>> /\ rl' = [res |-> 0, magic |-> 0, size |-> 0, new |-> 0, rc |-> 0, did |-> FALSE]
  /\ accepted' = <<>> /\ nret' = 0 /\ lastRead' = <<>> /\ ok' = TRUE /\ hashes' = <<>> /\ wh' = 0
TraceNext ==
  /\ l <= Len(Tr) /\ l' = l + 1
  /\ IF Tr[l].e = "Reset" THEN ResetAll ELSE TDo(Tr[l])
TraceSpec == TraceInit /\ [][TraceNext]_<<vars, l, hashes, wh>>
TraceAccepted == TLCGet("stats").diameter - 1 = Len(Tr)
=============================================================================
