--------------------------- MODULE BbFileTrace ---------------------------
(* Trace validation: the recorded calls of the real qb_log_* / blackbox functions
   (harness/h_bbfile.c) must be a behaviour of BbFile, every recorded result
   satisfying ResOK.  One step per event; Reset re-initialises.                *)
EXTENDS BbFile, Json, IOUtils
Tr == ndJsonDeserialize(IOEnv.TRACE)
VARIABLE l
TraceInit == Init /\ l = 1
ResetState == on' = FALSE /\ size' = 0 /\ logged' = <<>> /\ dumped' = <<>> /\ nret' = -1 /\ last' = <<>>
TraceNext ==
  /\ l <= Len(Tr) /\ l' = l + 1
  /\ LET ev == Tr[l] IN
     IF ev.e = "Reset" THEN ResetState
     ELSE Step(<<ev.e>> \o ev.a, ev.r)
TraceSpec == TraceInit /\ [][TraceNext]_<<vars, l>>
TraceAccepted == TLCGet("stats").diameter - 1 = Len(Tr)
=============================================================================
