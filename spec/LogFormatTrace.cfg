SPECIFICATION TraceSpec
INVARIANT TypeOK
INVARIANT LimitSane
INVARIANT LineBounded
INVARIANT LogBounded
INVARIANT LineCanonical
INVARIANT NoRawMarker
POSTCONDITION TraceAccepted
CHECK_DEADLOCK FALSE
