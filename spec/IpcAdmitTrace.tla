--------------------------- MODULE IpcAdmitTrace ---------------------------
(* Trace validation for C05: a recorded run of the real server (stepped, every
   file-system related libc call observed) and real client processes must be a
   behaviour of IpcAdmit; its invariants are evaluated after every event, i.e.
   at every observation point.                                               *)
EXTENDS IpcAdmit, Json, IOUtils
Tr == ndJsonDeserialize(IOEnv.TRACE)
VARIABLE l
TrClients == 1..32
TraceInit == Init /\ l = 1
ResetState == transport' = 0 /\ srv' = <<0, 0>> /\ cl' = [k \in Clients |-> NoClient] /\ res' = {}
SeqToSet(s) == {s[i] : i \in 1..Len(s)}
TDo(ev) ==
  LET a == ev.a  r == ev.r IN
  CASE ev.e = "Server"  -> Server(a[1], a[2], a[3])
    [] ev.e = "Spawn"   -> Spawn(a[1], a[2], a[3])
    [] ev.e = "Accept"  -> AcceptCb(a[1], a[2], a[3], r[1], IF r[2] = 1 THEN <<r[3], r[4], r[5]>> ELSE <<>>)
    [] ev.e = "Handled" -> Handled(a[1])
    [] ev.e = "Result"  -> Result(a[1], r[1], r[2])
    [] ev.e = "Msg"     -> Msg(a[1])
    [] ev.e = "Obs"     -> Observe(SeqToSet(a[1]))
    [] ev.e = "Plant"   -> Plant(a[1], r[1])
    [] ev.e \in {"Env", "Sent", "Connected", "End"} -> UNCHANGED vars
    [] OTHER -> FALSE
TraceNext ==
  /\ l <= Len(Tr) /\ l' = l + 1
  /\ IF Tr[l].e = "Reset" THEN ResetState ELSE TDo(Tr[l])
TraceSpec == TraceInit /\ [][TraceNext]_<<vars, l>>
TraceAccepted == TLCGet("stats").diameter - 1 = Len(Tr)
=============================================================================
