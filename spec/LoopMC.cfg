SPECIFICATION Spec
CONSTRAINT Bound
INVARIANT TypeOK
INVARIANT NoStarvation
INVARIANT WeakPriority
CHECK_DEADLOCK FALSE
