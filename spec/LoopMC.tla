------------------------------ MODULE LoopMC ------------------------------
(* Bounded exploration of Loop (TLC simulation mode: random walks over API calls,
   callbacks and poll results in a small universe).  Checks that the specification is
   consistent (no deadlock: the loop can always make progress without breaking
   the sleep, starvation and ordering rules) and that its invariants hold.   *)
EXTENDS Loop
JobIds == 1..2
TimerIds == 1..1
Regs == 1..1
Durs == {BT(0, 0, 0), BT(0, 0, 5000000)}
Tmos == {-1, 0, 50}
AJobAdd   == ~running /\ \E id \in JobIds : JobAdd(id, IF id = 1 THEN 0 ELSE 2)
AJobDel   == running /\ \E id \in JobIds : JobDel(id)
ATimerAdd == ~running /\ \E id \in TimerIds, d \in Durs : TimerAdd(id, 1, d)
ATimerDel == running /\ \E id \in TimerIds : TimerDel(id)
APollAdd  == ~running /\ \E r \in Regs : PollAdd(r, 100, 0, 1, -1)
APollDel  == running /\ PollDel(100)
AFdClose  == running /\ FdClose(100)
ASigAdd   == ~running /\ SigAdd(1, 10, 2)
ASigDel   == running /\ SigDel(1)
AStop     == running /\ Stop
ACbJob    == \E id \in JobIds : CbJob(id)
ACbTimer  == \E id \in TimerIds : CbTimer(id)
ACbFd     == \E r \in Regs : r \in DOMAIN fds /\ CbFd(r, fds[r].pend) 
ACbFdRet  == \E r \in Regs : r \in DOMAIN fds /\ fds[r].ret < 0 /\ fds[r].st = "active" /\ fds[r].pend = 0 /\ CbFdRet(r)
ACbSig    == CbSig(1)
APoll     == \E tmo \in Tmos, ready \in SUBSET {<<100, 1>>}, full \in BOOLEAN,
                raised \in {<<>>, <<10>>} :
                Poll(tmo, ready, IF full /\ tmo > 0 THEN BMs(tmo) ELSE BZero, raised)
Next == AJobAdd \/ AJobDel \/ ACbJob \/ ATimerAdd \/ ATimerDel \/ ACbTimer
        \/ APollAdd \/ APollDel \/ AFdClose \/ ACbFd \/ ACbFdRet \/ ASigAdd \/ ASigDel \/ ACbSig
        \/ AStop \/ RunBegin \/ RunEnd \/ APoll
Spec == Init /\ [][Next]_vars
Bound == /\ \A j \in DOMAIN jobs : jobs[j].age <= 4
         /\ \A t \in DOMAIN timers : timers[t].age <= 4
         /\ \A r \in DOMAIN fds : fds[r].age <= 4
         /\ \A s \in DOMAIN sigs : sigs[s].age <= 4 /\ sigs[s].owed <= 2
         /\ Len(sigq) <= 1 /\ BLe(now, BT(0, 1000, 60000000))
         /\ \A p \in Prio : dry[p] <= 4 /\ turns[p] <= 2
         /\ seqno <= 3
=============================================================================
