CONSTANTS LimitBytes = 512000
SPECIFICATION TraceSpec
INVARIANT DeliveredAtFini
INVARIANT NeverOverReportedF
POSTCONDITION TraceAccepted
CHECK_DEADLOCK FALSE
