CONSTANTS LimitBytes = 512000
SPECIFICATION TraceSpec
INVARIANT DeliveredAtFini
INVARIANT DeliveredAtFini2
INVARIANT NeverOverReportedF
INVARIANT CounterOK
POSTCONDITION TraceAccepted
CHECK_DEADLOCK FALSE
