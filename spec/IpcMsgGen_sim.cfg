CONSTANTS Cap = 1000  NCap = 1000  MaxSends = 1000  Lens = {16}  MaxMsgMC = 12328
CONSTANTS GenLens = {16, 17, 4096, 12327, 12328, 12329}  GenRates = {0, 1, 2, 3, 4}  GenFcMax = {0, 1, 2, 3}
SPECIFICATION GenSpec
CONSTRAINT Emit
CHECK_DEADLOCK FALSE
