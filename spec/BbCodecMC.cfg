CONSTANTS AsIs = {}  KF = {}  MaxTok = 3  Ms = {1, 7, 12, 20, 64}  Ss = {1, 8, 512}  Rich = FALSE
CONSTANT Toks <- MCToks
SPECIFICATION Spec
INVARIANT TypeOK
INVARIANT InvEnc
INVARIANT InvAgree
INVARIANT InvDec
CHECK_DEADLOCK FALSE
