----------------------------- MODULE LoopImplMC -----------------------------
(* Workloads for the mechanism/property refinement check of the event loop. *)
EXTENDS LoopImpl
\* saturated: self re-adding jobs at every level plus an always-ready descriptor at LOW
SatJobs == (1 :> 0) @@ (2 :> 0) @@ (3 :> 1) @@ (4 :> 1) @@ (5 :> 2) @@ (6 :> 2) @@ (7 :> 2) @@ (8 :> 2) @@ (9 :> 2)
NoTimers == [x \in {} |-> <<0, 0>>]
\* timers of different delays competing with jobs (C09 sleep bound, expiry order)
MixJobs == (1 :> 0) @@ (2 :> 2)
MixTimers == (1 :> <<1, 0>>) @@ (2 :> <<1, 5>>) @@ (3 :> <<0, 5>>) @@ (4 :> <<2, 60>>)
\* one-shot items only
OneJobs == (1 :> 0) @@ (2 :> 0) @@ (3 :> 1) @@ (4 :> 2) @@ (5 :> 2)
OneTimers == (1 :> <<0, 0>>) @@ (2 :> <<2, 3>>)
=============================================================================
