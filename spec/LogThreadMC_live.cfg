\* liveness of the repaired design: every call returns (qb_log_fini in particular) under weak fairness of both threads
CONSTANTS NMsgs = 3  Limit = 2  MaxInits = 2
CONSTANT Fixes = {11, 12, 13}
CONSTANT Skip = {}
SPECIFICATION FairSpec
PROPERTY CallsReturn
PROPERTY FiniReturns
CHECK_DEADLOCK FALSE
