CONSTANTS Impl = "trie"  Keys = {1, 2, 3}  NVal = 2  MaxIter = 0  Masks = {7} UseFree = TRUE  Tags = {0, 1}
SPECIFICATION Spec
INVARIANT TypeOK
INVARIANT NotifScope
INVARIANT UdInjective
INVARIANT FreeOnlyGlobal
CHECK_DEADLOCK FALSE
