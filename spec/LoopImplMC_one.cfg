CONSTANTS JobPrio <- OneJobs  TimerSpec <- OneTimers  ReAdd = FALSE  FdPrio = 2  MaxIds = 0  MaxIter = 8
SPECIFICATION MSpec
INVARIANT Refines
INVARIANT TypeOK
CHECK_DEADLOCK FALSE
