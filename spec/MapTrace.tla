----------------------------- MODULE MapTrace -----------------------------
(* Trace validation of recorded qb_map_* calls against Map.
   Event: [e |-> name, a |-> args, r |-> results, c |-> notifier calls made during the call] *)
EXTENDS Map, Json, IOUtils
Tr == ndJsonDeserialize(IOEnv.TRACE)
VARIABLE l
TraceInit == Init /\ l = 1
ResetState == dict' = [k \in Keys |-> 0] /\ notif' = {} /\ live' = TRUE /\ iters' = [i \in 1..MaxIter |-> NoIter]
CallsAre(ev, expected) == /\ Len(ev.c) = Cardinality(expected)
                          /\ {ev.c[i] : i \in 1..Len(ev.c)} = expected
TDo(ev) ==
  LET a == ev.a  r == ev.r IN
  CASE ev.e = "Put"        -> CallsAre(ev, PutRes(a[1], a[2])[1]) /\ Put(a[1], a[2])
    [] ev.e = "Get"        -> r = GetRes(a[1]) /\ ev.c = <<>> /\ Get(a[1])
    [] ev.e = "Rm"         -> r[1] = RmRes(a[1])[1] /\ CallsAre(ev, RmRes(a[1])[2]) /\ Rm(a[1])
    [] ev.e = "Count"      -> r = CountRes /\ ev.c = <<>> /\ Count
    [] ev.e = "IterAll"    -> TraversalOK(r[1], a[1], a[2]) /\ ev.c = <<>> /\ IterAll(a[1], a[2])
    [] ev.e = "NotifyAdd"  -> r[1] = NotifyAddRc(a[1], a[2], a[3] = 1, a[4] = 1, a[5]) /\ ev.c = <<>>
                              /\ NotifyAdd(a[1], a[2], a[3] = 1, a[4] = 1, a[5])
    [] ev.e = "NotifyDel"  -> r[1] = NotifyDelRc(a[1], a[2], a[3] = 1, a[4] = 1, a[5]) /\ ev.c = <<>>
                              /\ NotifyDel(a[1], a[2], a[3] = 1, a[4] = 1, a[5])
    [] ev.e = "NotifyDelAny" -> r[1] = NotifyDelAnyRc(a[1], a[2], a[3] = 1, a[4] = 1) /\ ev.c = <<>>
                              /\ NotifyDelAny(a[1], a[2], a[3] = 1, a[4] = 1)
    [] ev.e = "Destroy"    -> CallsAre(ev, DestroyRes[1]) /\ Destroy
    [] ev.e = "IterCreate" -> ev.c = <<>> /\ IterCreate(a[1], a[2])
    [] ev.e = "IterNext"   -> IterNextOK(a[1], r[1], r[2]) /\ ev.c = <<>> /\ IterNext(a[1], r[1])
    [] ev.e = "IterFree"   -> ev.c = <<>> /\ IterFree(a[1])
TraceNext ==
  /\ l <= Len(Tr) /\ l' = l + 1
  /\ IF Tr[l].e = "Reset" THEN ResetState ELSE TDo(Tr[l])
TraceSpec == TraceInit /\ [][TraceNext]_<<vars, l>>
TraceAccepted == TLCGet("stats").diameter - 1 = Len(Tr)
=============================================================================
