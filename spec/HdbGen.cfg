CONSTANTS MaxObj = 3  MaxRef = 3  MaxSlot = 1
SPECIFICATION GenSpec
CONSTRAINT Emit
CHECK_DEADLOCK FALSE
