CONSTANTS Clients = {1, 2}  SrvUid = 0  SrvGid = 0
  CreateAsFound = FALSE
  ShmFiles = {1}  SockFiles = {7}
CONSTANT Uids <- MC2Uids
CONSTANT Gids <- MC2Gids
CONSTANT Modes <- MC2Modes
CONSTANT Errs <- MC2Errs
SPECIFICATION MSpec
INVARIANT TypeOK
INVARIANT AcceptArgsAreKernelCreds
INVARIANT RefusalReported
INVARIANT NoConnectionWithoutAccept
INVARIANT NoMsgFromRefused
INVARIANT RefusedLeavesNothing
INVARIANT ResKnown
INVARIANT DirNoOther
INVARIANT FileModeWithinChosen
INVARIANT OwnerAuthorised
CHECK_DEADLOCK FALSE
