----------------------------- MODULE RingAbsGen -----------------------------
(* Behaviour generator for the sequential ring buffer: operation sequences with
   sizes and lengths at real scale (the harness opens real rings).           *)
EXTENDS RingAbs, Json, IOUtils
VARIABLES hist, done
Depth == atoi(IOEnv.DEPTH)
Ovw == IOEnv.OVW = "1"
NoSem == IOEnv.NOSEM = "1"
Small == IOEnv.SMALL = "1"
Pats == IF Small THEN {0, 1} ELSE {0, 1, 2, 3}
Bufs == {0, 100000000}
GenOps == {<<"Write", len, p>> : len \in Lens, p \in Pats}
          \cup {<<"AllocCommit", len, len2, p>> : len \in Lens, len2 \in (IF Small THEN {7} ELSE {0, 7}), p \in (IF Small THEN {1} ELSE {0, 1})}
          \cup {<<"Read", b>> : b \in Bufs} \cup {<<"Peek">>} \cup (IF NoSem THEN {<<"Reclaim">>} ELSE {})
(* the generator's own idea of the queue only serves to bound the exploration *)
GDo(op) ==
  CASE op[1] = "Write"       -> \E rc \in {op[2], EAGAIN} : Write(op[2], <<op[2], 0>>, rc, IF ovw THEN Guaranteed(Append(q, <<op[2], 0>>)) ELSE Len(q) + 1)
    [] op[1] = "AllocCommit" -> \E rc \in {op[3], EAGAIN} : Write(op[2], <<IF op[3] > op[2] THEN op[2] ELSE op[3], 0>>, rc,
                                    IF ovw THEN Guaranteed(Append(q, <<op[2], 0>>)) ELSE Len(q) + 1)
    [] op[1] = "Read"        -> \E rc \in {-1} \cup {q[i][1] : i \in 1..Len(q)} : Read(op[2], rc, 0)
    [] op[1] = "Peek"        -> UNCHANGED vars
    [] op[1] = "Reclaim"     -> Reclaim
GenInit == open = TRUE /\ S \in Sizes /\ ovw = Ovw /\ q = <<>> /\ nw = 0 /\ hist = <<>> /\ done = FALSE
GenNext == \/ /\ Len(hist) < Depth /\ UNCHANGED done
              /\ \E op \in GenOps : (Len(q) >= MaxQ => op[1] \in {"Read", "Reclaim", "Peek"}) /\ GDo(op) /\ hist' = Append(hist, op)
           \/ /\ Len(hist) = Depth /\ ~done /\ done' = TRUE /\ UNCHANGED <<vars, hist>>
GenSpec == GenInit /\ [][GenNext]_<<vars, hist, done>>
Emit == done => PrintT(<<"GEN", ToJson(<<S, hist>>)>>)
=============================================================================
