------------------------------- MODULE Hdb -------------------------------
(* Handle database (lib/hdb.c, include/qb/qbhdb.h) -- property C20.

   State is what the property talks about: objects, their reference counts,
   "destroy pending", which slot of the table each occupies (the slot number is
   the low half of a handle and therefore observable), destructor runs, and
   the table iterator.  Objects are named by creation order 1,2,3,...

   A caller can present a handle value in four forms (HRef):
     <<"h",  id>>   the handle returned by the id-th create (possibly stale)
     <<"nc", slot>> the documented "nocheck" form for a slot
     <<"ni", slot>> a value whose check word was never issued for that slot
                    (positive check word, as every issued one is)
     <<"z",  slot>> check word zero: never issued, but equal to what an EMPTY
                    table entry holds (the encoding the zeroing relies on)
   Every public call is one action Do(op); Res(op) is the result the property
   requires for that call in the current state.                              *)
EXTENDS Naturals, Integers, Sequences, FiniteSets, TLC

CONSTANTS MaxObj,      \* bound on the number of creates explored
          MaxRef,      \* bound on a reference count explored
          MaxSlot      \* highest slot number used for out-of-range probes

VARIABLES obj,     \* [id -> [slot, ref, pending, gets, puts]] objects not yet released
          n,       \* number of creates so far
          nslots,  \* table length (handle_count): slots 0..nslots-1 exist
          dtor,    \* [id -> number of destructor runs]
          iter     \* next slot the iterator examines

vars == <<obj, n, nslots, dtor, iter>>

EBADF == -9

Alive == DOMAIN obj
SlotOf(s) == {i \in Alive : obj[i].slot = s}
Occupied == {obj[i].slot : i \in Alive}
FreeSlots == {s \in 0..nslots : s \notin Occupied}
MinFree == CHOOSE s \in FreeSlots : \A t \in FreeSlots : s <= t

(* which object does a presented handle value designate?  0 = none *)
Resolve(h) ==
  IF h[1] = "h" THEN (IF h[2] \in Alive THEN h[2] ELSE 0)
  ELSE IF h[1] = "nc" THEN (IF SlotOf(h[2]) # {} THEN CHOOSE i \in SlotOf(h[2]) : TRUE ELSE 0)
  ELSE 0

Init == obj = <<>> /\ n = 0 /\ nslots = 0 /\ dtor = <<>> /\ iter = 0

Restrict(f, S) == [x \in S |-> f[x]]

(* drop one reference of object i; at zero the destructor runs and the entry is released *)
PutObj(o, d, i) ==
  IF o[i].ref = 1
    THEN <<Restrict(o, DOMAIN o \ {i}), [d EXCEPT ![i] = @ + 1]>>
    ELSE <<[o EXCEPT ![i].ref = @ - 1, ![i].puts = @ + 1], d>>

Create(s) ==
  /\ n < MaxObj
  /\ s \in FreeSlots
  /\ n' = n + 1
  /\ obj' = [i \in Alive \cup {n + 1} |-> IF i = n + 1
                THEN [slot |-> s, ref |-> 1, pending |-> FALSE, gets |-> 0, puts |-> 0] ELSE obj[i]]
  /\ dtor' = [i \in 1..(n + 1) |-> IF i = n + 1 THEN 0 ELSE dtor[i]]
  /\ nslots' = IF s = nslots THEN nslots + 1 ELSE nslots
  /\ UNCHANGED iter

Get(h) ==
  LET i == Resolve(h) IN
  /\ IF i # 0 /\ ~obj[i].pending
       THEN obj' = [obj EXCEPT ![i].ref = @ + 1, ![i].gets = @ + 1]
       ELSE UNCHANGED obj
  /\ UNCHANGED <<n, nslots, dtor, iter>>
GetRes(h) == LET i == Resolve(h) IN IF i # 0 /\ ~obj[i].pending THEN <<0, i>> ELSE <<EBADF, 0>>

Put(h) ==
  LET i == Resolve(h) IN
  /\ IF i # 0 THEN /\ obj' = PutObj(obj, dtor, i)[1]
                   /\ dtor' = PutObj(obj, dtor, i)[2]
              ELSE UNCHANGED <<obj, dtor>>
  /\ UNCHANGED <<n, nslots, iter>>
(* result: return code and the list of objects whose destructor ran during the call *)
PutRes(h) == LET i == Resolve(h) IN
  IF i = 0 THEN <<EBADF, <<>>>> ELSE IF obj[i].ref = 1 THEN <<0, <<i>>>> ELSE <<0, <<>>>>

Destroy(h) ==
  LET i == Resolve(h) IN
  /\ IF i # 0 THEN LET o1 == [obj EXCEPT ![i].pending = TRUE] IN
                   /\ obj' = PutObj(o1, dtor, i)[1]
                   /\ dtor' = PutObj(o1, dtor, i)[2]
              ELSE UNCHANGED <<obj, dtor>>
  /\ UNCHANGED <<n, nslots, iter>>

Refcount(h) == UNCHANGED vars
RefcountRes(h) == LET i == Resolve(h) IN IF i = 0 THEN <<EBADF>> ELSE <<obj[i].ref>>

IterReset == iter' = 0 /\ UNCHANGED <<obj, n, nslots, dtor>>

(* first slot at or after the cursor that holds an object not being destroyed *)
IterCands == {s \in iter..(nslots - 1) : \E i \in SlotOf(s) : ~obj[i].pending}
IterHit == CHOOSE s \in IterCands : \A t \in IterCands : s <= t
IterNext ==
  /\ IF IterCands # {}
       THEN LET i == CHOOSE j \in SlotOf(IterHit) : TRUE IN
            /\ obj' = [obj EXCEPT ![i].ref = @ + 1, ![i].gets = @ + 1]
            /\ iter' = IterHit + 1
       ELSE /\ iter' = IF iter > nslots THEN iter ELSE nslots
            /\ UNCHANGED obj
  /\ UNCHANGED <<n, nslots, dtor>>
IterNextRes == IF IterCands # {} THEN <<0, CHOOSE j \in SlotOf(IterHit) : TRUE>> ELSE <<1, 0>>

-----------------------------------------------------------------------------
(* Uniform op interface used by the generator and the trace specification.   *)
HRefs == {<<"h", i>> : i \in 1..n} \cup {<<"nc", s>> : s \in Occupied}
         \cup {<<"ni", s>> : s \in 0..MaxSlot} \cup {<<"z", s>> : s \in 0..MaxSlot}

Do(op) ==
  CASE op[1] = "Create"    -> Create(op[2])
    [] op[1] = "Get"       -> Get(<<op[2], op[3]>>)
    [] op[1] = "Put"       -> Put(<<op[2], op[3]>>)
    [] op[1] = "Destroy"   -> Destroy(<<op[2], op[3]>>)
    [] op[1] = "Refcount"  -> Refcount(<<op[2], op[3]>>)
    [] op[1] = "IterReset" -> IterReset
    [] op[1] = "IterNext"  -> IterNext

Res(op) ==
  CASE op[1] = "Create"    -> <<0, op[2], n + 1>>
    [] op[1] = "Get"       -> GetRes(<<op[2], op[3]>>)
    [] op[1] = "Put"       -> PutRes(<<op[2], op[3]>>)
    [] op[1] = "Destroy"   -> PutRes(<<op[2], op[3]>>)
    [] op[1] = "Refcount"  -> RefcountRes(<<op[2], op[3]>>)
    [] op[1] = "IterReset" -> <<>>
    [] op[1] = "IterNext"  -> IterNextRes

RefOK(h) == \* keep reference counts finite in bounded exploration
  LET i == Resolve(h) IN IF i = 0 THEN TRUE ELSE obj[i].ref < MaxRef
IterBound == IterCands # {} => \A i \in SlotOf(IterHit) : obj[i].ref < MaxRef

ACreate    == \E s \in FreeSlots : Create(s)
AGet       == \E h \in HRefs : RefOK(h) /\ Get(h)
APut       == \E h \in HRefs : Put(h)
ADestroy   == \E h \in HRefs : Destroy(h)
ARefcount  == \E h \in HRefs : Refcount(h)
AIterReset == IterReset
AIterNext  == IterBound /\ IterNext

Next == ACreate \/ AGet \/ APut \/ ADestroy \/ ARefcount \/ AIterReset \/ AIterNext

(* the same calls as data, for the generator *)
OpOK(op) == /\ (op[1] = "Get" => RefOK(<<op[2], op[3]>>))
            /\ (op[1] = "IterNext" => IterBound)
Ops == {<<"Create", s>> : s \in FreeSlots}
       \cup {<<o, h[1], h[2]>> : o \in {"Get", "Put", "Destroy", "Refcount"}, h \in HRefs}
       \cup {<<"IterReset">>, <<"IterNext">>}

Spec == Init /\ [][Next]_vars

-----------------------------------------------------------------------------
(* The property, as invariants over the abstract state.                     *)
TypeOK ==
  /\ n \in 0..MaxObj /\ nslots \in 0..MaxObj /\ iter \in Nat
  /\ Alive \subseteq 1..n /\ DOMAIN dtor = 1..n
  /\ \A i \in Alive : obj[i].slot \in 0..(nslots - 1) /\ obj[i].ref \in 1..MaxRef

(* "The reference count reported equals one plus gets minus puts" (a destroy is a put) *)
RefFormula == \A i \in Alive : obj[i].ref = 1 + obj[i].gets - obj[i].puts

(* "the destructor runs exactly once per object, exactly when that count reaches zero" *)
DtorExactlyOnce == \A i \in 1..n : dtor[i] = (IF i \in Alive THEN 0 ELSE 1)

(* a slot holds at most one object: a reused slot never aliases a live object *)
SlotUnique == \A i, j \in Alive : obj[i].slot = obj[j].slot => i = j

(* stale / never-issued values designate nothing *)
StaleInvalid == \A i \in 1..n : i \notin Alive => Resolve(<<"h", i>>) = 0

(* "after the destroy call new gets are refused while outstanding references can still be put" *)
PendingRefusesGet == \A i \in Alive : obj[i].pending =>
                        GetRes(<<"h", i>>)[1] = EBADF /\ PutRes(<<"h", i>>)[1] = 0

(* "iteration visits precisely the objects that have not been destroyed" *)
IterVisitsLive == IterCands # {} => (LET r == IterNextRes IN r[2] \in Alive /\ ~obj[r[2]].pending)
=============================================================================
