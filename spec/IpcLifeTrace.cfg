SPECIFICATION TraceSpec
INVARIANT TypeOK
INVARIANT WordOK
INVARIANT ClosedOnlyIfCreated
INVARIANT DestroyedAtZero
INVARIANT RetryKeepsRef
INVARIANT NoZombie
POSTCONDITION TraceAccepted
CHECK_DEADLOCK FALSE
