---- MODULE ArrayMC_TTrace_1790971048 ----
EXTENDS Sequences, TLCExt, Toolbox, Naturals, TLC, ArrayMC

_expression ==
    LET ArrayMC_TEExpression == INSTANCE ArrayMC_TEExpression
    IN ArrayMC_TEExpression!expression
----

_trace ==
    LET ArrayMC_TETrace == INSTANCE ArrayMC_TETrace
    IN ArrayMC_TETrace!trace
----

_inv ==
    ~(
        TLCGet("level") = Len(_TETrace)
        /\
        pc = (<<"idle", "index_cs", "idle">>)
        /\
        tver = (2)
        /\
        holder = (2)
        /\
        freed = ({1})
        /\
        badRead = (TRUE)
        /\
        seen = (<<1, 0, 0>>)
    )
----

_init ==
    /\ holder = _TETrace[1].holder
    /\ seen = _TETrace[1].seen
    /\ freed = _TETrace[1].freed
    /\ badRead = _TETrace[1].badRead
    /\ tver = _TETrace[1].tver
    /\ pc = _TETrace[1].pc
----

_next ==
    /\ \E i,j \in DOMAIN _TETrace:
        /\ \/ /\ j = i + 1
              /\ i = TLCGet("level")
        /\ holder  = _TETrace[i].holder
        /\ holder' = _TETrace[j].holder
        /\ seen  = _TETrace[i].seen
        /\ seen' = _TETrace[j].seen
        /\ freed  = _TETrace[i].freed
        /\ freed' = _TETrace[j].freed
        /\ badRead  = _TETrace[i].badRead
        /\ badRead' = _TETrace[j].badRead
        /\ tver  = _TETrace[i].tver
        /\ tver' = _TETrace[j].tver
        /\ pc  = _TETrace[i].pc
        /\ pc' = _TETrace[j].pc

\* Uncomment the ASSUME below to write the states of the error trace
\* to the given file in Json format. Note that you can pass any tuple
\* to `JsonSerialize`. For example, a sub-sequence of _TETrace.
    \* ASSUME
    \*     LET J == INSTANCE Json
    \*         IN J!JsonSerialize("ArrayMC_TTrace_1790971048.json", _TETrace)

=============================================================================

 Note that you can extract this module `ArrayMC_TEExpression`
  to a dedicated file to reuse `expression` (the module in the 
  dedicated `ArrayMC_TEExpression.tla` file takes precedence 
  over the module `ArrayMC_TEExpression` below).

---- MODULE ArrayMC_TEExpression ----
EXTENDS Sequences, TLCExt, Toolbox, Naturals, TLC, ArrayMC

expression == 
    [
        \* To hide variables of the `ArrayMC` spec from the error trace,
        \* remove the variables below.  The trace will be written in the order
        \* of the fields of this record.
        holder |-> holder
        ,seen |-> seen
        ,freed |-> freed
        ,badRead |-> badRead
        ,tver |-> tver
        ,pc |-> pc
        
        \* Put additional constant-, state-, and action-level expressions here:
        \* ,_stateNumber |-> _TEPosition
        \* ,_holderUnchanged |-> holder = holder'
        
        \* Format the `holder` variable as Json value.
        \* ,_holderJson |->
        \*     LET J == INSTANCE Json
        \*     IN J!ToJson(holder)
        
        \* Lastly, you may build expressions over arbitrary sets of states by
        \* leveraging the _TETrace operator.  For example, this is how to
        \* count the number of times a spec variable changed up to the current
        \* state in the trace.
        \* ,_holderModCount |->
        \*     LET F[s \in DOMAIN _TETrace] ==
        \*         IF s = 1 THEN 0
        \*         ELSE IF _TETrace[s].holder # _TETrace[s-1].holder
        \*             THEN 1 + F[s-1] ELSE F[s-1]
        \*     IN F[_TEPosition - 1]
    ]

=============================================================================



Parsing and semantic processing can take forever if the trace below is long.
 In this case, it is advised to uncomment the module below to deserialize the
 trace from a generated binary file.

\*
\*---- MODULE ArrayMC_TETrace ----
\*EXTENDS IOUtils, TLC, ArrayMC
\*
\*trace == IODeserialize("ArrayMC_TTrace_1790971048.bin", TRUE)
\*
\*=============================================================================
\*

---- MODULE ArrayMC_TETrace ----
EXTENDS TLC, ArrayMC

trace == 
    <<
    ([pc |-> <<"idle", "idle", "idle">>,tver |-> 1,holder |-> 0,freed |-> {},badRead |-> FALSE,seen |-> <<0, 0, 0>>]),
    ([pc |-> <<"index", "idle", "idle">>,tver |-> 1,holder |-> 0,freed |-> {},badRead |-> FALSE,seen |-> <<0, 0, 0>>]),
    ([pc |-> <<"index_cs", "idle", "idle">>,tver |-> 1,holder |-> 1,freed |-> {},badRead |-> FALSE,seen |-> <<0, 0, 0>>]),
    ([pc |-> <<"index_unlocked", "idle", "idle">>,tver |-> 1,holder |-> 0,freed |-> {},badRead |-> FALSE,seen |-> <<0, 0, 0>>]),
    ([pc |-> <<"index_loaded_u", "idle", "idle">>,tver |-> 1,holder |-> 0,freed |-> {},badRead |-> FALSE,seen |-> <<1, 0, 0>>]),
    ([pc |-> <<"index_loaded_u", "index", "idle">>,tver |-> 1,holder |-> 0,freed |-> {},badRead |-> FALSE,seen |-> <<1, 0, 0>>]),
    ([pc |-> <<"index_loaded_u", "index_cs", "idle">>,tver |-> 1,holder |-> 2,freed |-> {},badRead |-> FALSE,seen |-> <<1, 0, 0>>]),
    ([pc |-> <<"index_loaded_u", "index_cs", "idle">>,tver |-> 2,holder |-> 2,freed |-> {1},badRead |-> FALSE,seen |-> <<1, 0, 0>>]),
    ([pc |-> <<"idle", "index_cs", "idle">>,tver |-> 2,holder |-> 2,freed |-> {1},badRead |-> TRUE,seen |-> <<1, 0, 0>>])
    >>
----


=============================================================================

---- CONFIG ArrayMC_TTrace_1790971048 ----
CONSTANTS
    Threads = { 1 , 2 , 3 }
    Bug = TRUE
    MaxGrow = 3

INVARIANT
    _inv

CHECK_DEADLOCK
    \* CHECK_DEADLOCK off because of PROPERTY or INVARIANT above.
    FALSE

INIT
    _init

NEXT
    _next

CONSTANT
    _TETrace <- _trace

ALIAS
    _expression
=============================================================================
\* Generated on Fri Oct 02 19:57:29 UTC 2026