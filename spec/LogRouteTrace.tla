--------------------------- MODULE LogRouteTrace ---------------------------
(* Trace validation: the recorded calls of the real qb_log_* functions and the recorded invocations of
   the custom targets' logger callbacks must be a behaviour of LogRoute (Bugs = {}): every recorded
   result must be admissible (ResOK) in the state reached so far.                                      *)
EXTENDS LogRoute, Json, IOUtils
Tr == ndJsonDeserialize(IOEnv.TRACE)
NoBugs == {}
Empty == {}
VARIABLE l
TraceInit == Init /\ l = 1
ResetState == /\ tstate' = [t \in T |-> S_UNUSED] /\ rules' = [t \in T |-> <<>>] /\ tagRules' = <<>>
              /\ bits' = <<>> /\ tagv' = <<>>
TraceNext ==
  /\ l <= Len(Tr) /\ l' = l + 1
  /\ LET ev == Tr[l] IN
     IF ev.e = "Reset" THEN ResetState
     ELSE LET op == <<ev.e>> \o ev.a IN ResOK(op, ev.r) /\ Do(op)
TraceSpec == TraceInit /\ [][TraceNext]_<<vars, l>>
TraceAccepted == TLCGet("stats").diameter - 1 = Len(Tr)
=============================================================================
