------------------------------- MODULE IpcWire -------------------------------
(* IPC wire robustness (lib/ipc_setup.c, lib/ipc_socket.c, lib/ipc_shm.c,
   lib/ipcs.c) -- property C06: bytes from a peer never corrupt the server.

   Property-level specification of a qb_ipcs server as its peers and its
   application see it.  The ENVIRONMENT is the peers: a raw peer connects to the
   service socket and writes an arbitrary byte string in arbitrary pieces
   (abstracted to: how many bytes, and the three fields a complete request
   record decodes to); once it holds a success response it may attach to the
   channels and emit raw requests (actual length, header id, header length
   field, notification items).  A well-behaved ("good") client uses the client
   library.  The SERVER is free to do anything the property allows: its
   callbacks (Accept, Created, Msg, Closed, Destroyed) and what the peers read
   back are actions whose guards ARE the property:

     H1  a peer is admitted (accept callback, success response) only after it
         wrote a complete request record whose id field says AUTHENTICATE
     H2  nothing reaches the message callback for a peer that was not admitted
     H3  once every peer is gone the server holds exactly what it held before
         they came: descriptors, heap bytes, /dev/shm entries; every admitted
         connection was destroyed
     H4  whatever the raw peers do, a well-behaved client connects, has its
         request processed and gets its response (the server keeps serving)
     H5  the server process never dies (sanitizer report, signal, assert, hang)
     M1  the length reported to the message callback never exceeds the number of
         bytes of that request actually received, nor the negotiated maximum
     M2  the reported range lies inside that connection's receive buffer / ring
         mapping, and every reported byte is a byte of that request

   What the property is silent about is left open: whether a well-formed
   handshake is admitted, what a refused peer reads back, whether a malformed
   request is delivered (shortened), dropped, or answered by a disconnect.

   Integers only (TLC cannot compare values of different types).  Lengths above
   2*10^9 are recorded as CAP.                                                *)
EXTENDS Naturals, Integers, Sequences, FiniteSets, TLC

CONSTANT KFSkip     \* recorded findings whose triggers are not generated (subset of {"KF1","KF2","KF3"})

RS      == 24           \* sizeof(struct qb_ipc_connection_request)
HS      == 16           \* sizeof(struct qb_ipc_request_header)
AUTH    == -1           \* QB_IPC_MSG_AUTHENTICATE
RespLen == 24           \* the response the harness's message callback sends to a good client
CAP     == 2000000000
SOCK    == 0
SHM     == 1

VARIABLES up,       \* the service is running
          tr,       \* its transport (SOCK / SHM)
          base,     \* census <<descriptors, heap bytes, shm entries>> taken before any peer came
          peers,    \* [peer id -> record], see NewPeer
          reading,  \* <<peer, size>>: a message callback is reading the range it was given, else <<>>
          last,     \* ghost: <<peer, reported size, actual, max>> of the latest message callback
          exited    \* the server process is gone (end of a history)
vars == <<up, tr, base, peers, reading, last, exited>>

Min(a, b) == IF a < b THEN a ELSE b
Max(a, b) == IF a < b THEN b ELSE a
Ext(f, k, v) == [x \in DOMAIN f \cup {k} |-> IF x = k THEN v ELSE f[x]]

Init == up = FALSE /\ tr = 0 /\ base = <<>> /\ peers = <<>> /\ reading = <<>> /\ last = <<>> /\ exited = FALSE

NewPeer(good, id, size, mms, total) ==
  [good |-> good,        \* 1: uses the client library
   id |-> id, size |-> size, mms |-> mms,     \* what the first RS bytes of its string decode to
   total |-> total,      \* length of the byte string it is going to write
   sent |-> 0,           \* bytes written so far
   open |-> TRUE,        \* the peer still exists (holds its end of the socket)
   acc |-> FALSE,        \* the accept callback ran for it
   created |-> FALSE, gone |-> FALSE,         \* created / destroyed callbacks
   resp |-> 0,           \* 0 nothing read back yet, 1 success response, 2 refused (error response or end of file)
   max |-> 0,            \* negotiated maximum (from the success response)
   att |-> FALSE,        \* attached to the request channel
   infl |-> <<>>,        \* the request in flight <<actual, header length field>>
   deliv |-> FALSE,      \* ... was handed to the message callback
   owed |-> 0]           \* requests sent without their notification item

Live == up /\ ~exited
Known(p) == p \in DOMAIN peers
WellFormed(p) == peers[p].sent >= RS /\ peers[p].id = AUTH           \* H1
AllGone == \A p \in DOMAIN peers : ~peers[p].open

-----------------------------------------------------------------------------
(* Recorded findings on the unchanged tree as predicates over one raw request
   (transport, negotiated max, actual length, header length field):
   KF1  the header's length field is handed to the message callback unchecked
        (lib/ipcs.c:_process_request_), both transports
   KF2  socket transport: the datagram is received with the header's length
        field as the bound, not the buffer's (lib/ipc_socket.c:qb_ipc_us_recv_at_most)
   KF3  socket transport: a negotiated maximum below the header size gives a
        receive buffer the 16-byte header peek does not fit in                *)
(* is the request handed to the callback at all (unchanged tree), and which length field does the server see:
   a shm chunk of at most 8 bytes does not contain the field (the server reads the ring behind it: zero in
   the rings of this check, which never wrap); a datagram shorter than the header, or one whose field is 0,
   is received as "0 bytes" and answered by a disconnect *)
Deliv(t, actual, hsz) == IF t = SHM THEN actual > 0 ELSE actual >= HS /\ hsz # 0
EffH(t, actual, hsz) == IF t = SHM /\ actual <= 8 THEN 0
                        ELSE IF t = SHM /\ actual < 12       \* the field is cut: its low bytes, zero above (little endian)
                               THEN hsz % (IF actual = 9 THEN 256 ELSE IF actual = 10 THEN 65536 ELSE 16777216)
                               ELSE hsz
KF1(t, mx, actual, hsz) == LET e == EffH(t, actual, hsz) IN Deliv(t, actual, e) /\ (e < 0 \/ e > Min(actual, mx))
KF2(t, mx, actual, hsz) == t = SOCK /\ actual >= HS /\ actual > mx /\ (hsz < 0 \/ hsz > mx)
KF3(t, mx, actual, hsz) == t = SOCK /\ Min(actual, HS) > mx
Skipped(t, mx, actual, hsz) == \/ "KF1" \in KFSkip /\ KF1(t, mx, actual, hsz)
                               \/ "KF2" \in KFSkip /\ KF2(t, mx, actual, hsz)
                               \/ "KF3" \in KFSkip /\ KF3(t, mx, actual, hsz)

-----------------------------------------------------------------------------
(* environment: the service starts; peers connect, write, close *)
Up(t, enf, census) ==
  /\ ~up /\ ~exited /\ t \in {SOCK, SHM}
  /\ up' = TRUE /\ tr' = t /\ base' = census
  /\ UNCHANGED <<peers, reading, last, exited>>

(* H4: the listening socket keeps taking connections, whatever the other peers did *)
Connect(p, good, id, size, mms, total, rc) ==
  /\ Live /\ ~Known(p) /\ p > 0 /\ rc = 0
  /\ peers' = Ext(peers, p, NewPeer(good, id, size, mms, total))
  /\ UNCHANGED <<up, tr, base, reading, last, exited>>

Write(p, n, w) ==
  /\ Live /\ Known(p) /\ peers[p].open /\ w <= n
  /\ peers' = [peers EXCEPT ![p].sent = @ + Max(w, 0)]
  /\ UNCHANGED <<up, tr, base, reading, last, exited>>

HalfClose(p) == Live /\ Known(p) /\ peers[p].open /\ UNCHANGED vars

Close(p) ==
  /\ Live /\ Known(p) /\ peers[p].open
  /\ peers' = [peers EXCEPT ![p].open = FALSE, ![p].infl = <<>>, ![p].att = FALSE]
  /\ UNCHANGED <<up, tr, base, reading, last, exited>>

(* what a raw peer reads back: kind 0 nothing yet, 1 end of file, 2 a complete response record, 3 part of one.
   A success response is only ever seen by an admitted peer, and names the service's transport. *)
Resp(p, kind, err, mx, typ) ==
  /\ Live /\ Known(p) /\ peers[p].open /\ kind \in 0..3
  /\ IF kind = 2 /\ err = 0
       THEN /\ peers[p].acc /\ typ = tr
            /\ peers' = [peers EXCEPT ![p].resp = 1, ![p].max = mx]
       ELSE IF kind \in {1, 2} /\ peers[p].resp # 1
              THEN peers' = [peers EXCEPT ![p].resp = 2]
              ELSE UNCHANGED peers
  /\ UNCHANGED <<up, tr, base, reading, last, exited>>

Attach(p, rc) ==
  /\ Live /\ Known(p) /\ peers[p].open /\ (rc = 0 => peers[p].resp = 1)
  /\ peers' = [peers EXCEPT ![p].att = (rc = 0)]
  /\ UNCHANGED <<up, tr, base, reading, last, exited>>

(* a request goes out on the raw request channel.  One request in flight at a time; a request sent
   without its notification item must be followed by the notification before the next one (an accepted
   client that breaks this stalls the server in a blocking read -- availability against ACCEPTED clients
   is outside C06, see the check's notes).  rc: what the channel said.  H4: a good client's send succeeds. *)
Send(p, actual, id, hsz, note, rc) ==
  /\ Live /\ Known(p) /\ peers[p].open /\ peers[p].att /\ peers[p].owed = 0
  /\ (peers[p].good = 1 => rc = actual)
  /\ IF rc >= 0
       THEN peers' = [peers EXCEPT ![p].infl = <<actual, hsz>>, ![p].deliv = FALSE,
                                   ![p].owed = IF note = 0 THEN 1 ELSE 0]
       ELSE UNCHANGED peers
  /\ UNCHANGED <<up, tr, base, reading, last, exited>>

Kick(p, n) ==
  /\ Live /\ Known(p) /\ peers[p].open /\ peers[p].att
  /\ peers' = [peers EXCEPT ![p].owed = IF n >= 1 THEN 0 ELSE @]
  /\ UNCHANGED <<up, tr, base, reading, last, exited>>

(* the accepted peer overwrites the length word of its request in the shared ring while msg_process runs on it:
   nothing the server was told changes; whatever it does next (drop the peer or go on) it stays inside its buffers *)
Rewrite(p) == Live /\ Known(p) /\ peers[p].att /\ UNCHANGED vars

(* H4: the library client's connect completes, its request is answered *)
GCont(p, rc, mx) ==
  /\ Live /\ Known(p) /\ peers[p].good = 1 /\ peers[p].open
  /\ rc = 0 /\ peers[p].acc
  /\ peers' = [peers EXCEPT ![p].resp = 1, ![p].max = mx, ![p].att = TRUE]
  /\ UNCHANGED <<up, tr, base, reading, last, exited>>

GRecv(p, rc) ==
  /\ Live /\ Known(p) /\ peers[p].good = 1 /\ peers[p].open
  /\ peers[p].deliv /\ rc = RespLen
  /\ UNCHANGED vars

-----------------------------------------------------------------------------
(* the server's callbacks *)
Accept(p) ==                                     \* H1
  /\ Live /\ Known(p) /\ ~peers[p].acc /\ WellFormed(p)
  /\ peers' = [peers EXCEPT ![p].acc = TRUE]
  /\ UNCHANGED <<up, tr, base, reading, last, exited>>

Created(p) ==
  /\ Live /\ Known(p) /\ peers[p].acc /\ ~peers[p].created /\ ~peers[p].gone
  /\ peers' = [peers EXCEPT ![p].created = TRUE]
  /\ UNCHANGED <<up, tr, base, reading, last, exited>>

(* M1, M2 (range), H2.  size: the reported length; off, buflen: where the reported pointer lies in the
   connection's receive buffer (socket) or ring mapping (shm), and how long that is *)
MsgOK(p, size, off, buflen) ==
  /\ size >= 0 /\ size <= Min(peers[p].infl[1], peers[p].max)
  /\ off >= 0 /\ off + size <= buflen
Msg(p, size, off, buflen) ==
  /\ Live /\ Known(p) /\ peers[p].acc /\ ~peers[p].gone /\ reading = <<>>
  /\ peers[p].infl # <<>> /\ ~peers[p].deliv
  /\ MsgOK(p, size, off, buflen)
  /\ peers' = [peers EXCEPT ![p].deliv = TRUE]
  /\ reading' = <<p, size>>
  /\ last' = <<p, size, peers[p].infl[1], peers[p].max>>
  /\ UNCHANGED <<up, tr, base, exited>>

(* M2 (content): of the bytes the callback was told it may read, nvalid leading ones are bytes of the request *)
MsgRead(p, nvalid) ==
  /\ Live /\ reading # <<>> /\ reading[1] = p /\ nvalid >= reading[2]
  /\ reading' = <<>>
  /\ UNCHANGED <<up, tr, base, peers, last, exited>>

Closed(p) == Live /\ Known(p) /\ peers[p].acc /\ ~peers[p].gone /\ UNCHANGED vars

Destroyed(p) ==
  /\ Live /\ Known(p) /\ peers[p].acc /\ ~peers[p].gone /\ reading = <<>>
  /\ peers' = [peers EXCEPT ![p].gone = TRUE]
  /\ UNCHANGED <<up, tr, base, reading, last, exited>>

(* H3: observed after the server was stepped until nothing was ready *)
Census(c) ==
  /\ Live /\ reading = <<>>
  /\ AllGone => (c = base /\ \A p \in DOMAIN peers : peers[p].acc => peers[p].gone)
  /\ UNCHANGED vars

(* H5: the only way a history ends is the harness taking the server down in an orderly way *)
Exit(kind, code) ==
  /\ ~exited /\ kind = 0 /\ code = 0 /\ reading = <<>>
  /\ exited' = TRUE
  /\ UNCHANGED <<up, tr, base, peers, reading, last>>

-----------------------------------------------------------------------------
(* the property as invariants over the recorded state *)
TypeOK ==
  /\ up \in BOOLEAN /\ exited \in BOOLEAN /\ tr \in {SOCK, SHM}
  /\ \A p \in DOMAIN peers : /\ peers[p].sent >= 0 /\ peers[p].resp \in 0..2
                             /\ peers[p].owed \in 0..1 /\ peers[p].good \in 0..1

AdmittedWellFormed == \A p \in DOMAIN peers : peers[p].acc => WellFormed(p)                    \* H1
SuccessOnlyIfAdmitted == \A p \in DOMAIN peers : peers[p].resp = 1 => peers[p].acc             \* H1
NothingForStrangers == \A p \in DOMAIN peers :                                                  \* H2
                          (peers[p].deliv \/ peers[p].created \/ peers[p].gone) => peers[p].acc
ReportedBounded == last # <<>> => (last[2] <= last[3] /\ last[2] <= last[4])                   \* M1
=============================================================================
