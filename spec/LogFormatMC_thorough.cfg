CONSTANTS Limits = {1, 2, 3, 4, 5, 8, 0, 4097}  Widths = {0, 1, 3, 10099, 10100, 10105}  Lens = {0, 1, 10099, 10100, 10105}
          Dirs = {110, 98, 78, 37, 1}  LitSyms = {120, 10}  MaxTok = 2
SPECIFICATION MCSpec
INVARIANT TypeOK
INVARIANT LimitSane
INVARIANT LineBounded
INVARIANT LogBounded
INVARIANT LineCanonical
INVARIANT NoRawMarker
INVARIANT StoreBound
INVARIANT LoadBound
INVARIANT AlgConforms
INVARIANT TruncFull
CHECK_DEADLOCK FALSE
