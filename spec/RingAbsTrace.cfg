CONSTANTS Sizes = {}  Lens = {}  MaxQ = 0
SPECIFICATION TraceSpec
INVARIANT TypeOK
POSTCONDITION TraceAccepted
CHECK_DEADLOCK FALSE
