----------------------------- MODULE RingBuffer -----------------------------
(* Word-level model of lib/ringbuffer.c for ONE writer and ONE reader running
   concurrently -- property C01.  One action per access to shared state, in the
   program order of the C code; the action names are the hook points
   QB_VP_RB_* of lib/verif_hook.h (a point is reported AFTER its access).

   Shared: write_pt, read_pt, the semaphore, and the data words.  The data
   words are kept as explicit header-word stores plus payload extents (so a
   1024-word ring does not need 1024-entry states); Get(i) is the most recent
   store covering word i.  A stale payload word can therefore be inspected as a
   chunk header exactly as in the real memory.

   Every action takes the values the real code reported (a, b) and requires
   them to equal what the model predicts, so a recorded execution is accepted
   iff it is this model's behaviour under the same schedule; the bounded
   exploration instantiates the same actions with the predicted values.      *)
EXTENDS Naturals, Integers, Sequences, FiniteSets, TLC

CONSTANTS W,        \* word_size of the ring
          UseSem,   \* notification semaphore present
          Flat,     \* TRUE: keep the data words as a plain array (small rings, exhaustive exploration merges equal memories)
          Full      \* TRUE: keep the words a read copies out (exploration); FALSE: rely on the recorded hash (trace validation)

MAGIC == -1583242847      \* 0xA1A1A1A1 as int32
DEAD  == -791621424       \* 0xD0D0D0D0
ALLOC == -1592734000      \* 0xA110CED0
UNK   == -2147483647      \* a word only partly overwritten (last word of a chunk whose length is not a multiple of 4)
REL == 3  ACQ == 2        \* enum qb_atomic_model
EAGAIN == -11  ETIMEDOUT == -110  EBADMSG == -74  ENOBUFS == -105
HDRW == 2
MARGIN == 12

VARIABLES wp, rp, sem, hw, ext, seq,
          wpc, wop, wl,       \* writer: pc, current op <<len, pat, id>>, locals
          rpc, rop, rl,       \* reader: pc, current op <<kind, buflen>>, locals
          accepted,           \* chunks written (published, so that the write will report success): <<len, pat, id>>
          nret,               \* number of chunks returned by reads so far
          lastRead,           \* words of the last chunk copied out (Full only)
          ok                  \* FALSE once a read handed out something that is not the next accepted chunk

vars == <<wp, rp, sem, hw, ext, seq, wpc, wop, wl, rpc, rop, rl, accepted, nret, lastRead, ok>>

Words(len) == (len + 3) \div 4
StepPt(p, len) == (p + HDRW + Words(len)) % W

PW(pat, id, off) ==
  CASE pat = 0 -> 1073741824 + id * 65536 + off
    [] pat = 1 -> MAGIC
    [] pat = 2 -> IF off % 2 = 0 THEN 8 ELSE MAGIC
    [] pat = 3 -> IF off % 2 = 0 THEN DEAD ELSE ALLOC

CovExt(i) == {k \in 1..Len(ext) : ((i - ext[k][1] + W) % W) < ext[k][2]}
BestExt(i) == CHOOSE k \in CovExt(i) : \A j \in CovExt(i) : ext[j][5] <= ext[k][5]
ExtVal(k, i) == LET off == (i - ext[k][1] + W) % W IN
                IF off = ext[k][2] - 1 /\ ext[k][6] % 4 # 0 THEN UNK ELSE PW(ext[k][3], ext[k][4], off)
Get(i) == LET hs == IF i \in DOMAIN hw THEN hw[i][2] ELSE 0
              hv == IF i \in DOMAIN hw THEN hw[i][1] ELSE 0 IN
          IF CovExt(i) = {} THEN hv
          ELSE IF ext[BestExt(i)][5] > hs THEN ExtVal(BestExt(i), i) ELSE hv
NS == IF Flat THEN 0 ELSE seq + 1
Put(i, v) == [x \in DOMAIN hw \cup {i} |-> IF x = i THEN <<v, NS>> ELSE hw[x]]

Init == /\ wp = 0 /\ rp = 0 /\ sem = 0 /\ hw = <<>> /\ ext = <<>> /\ seq = 0
        /\ wpc = "idle" /\ wop = <<0, 0, 0>> /\ wl = [swp |-> 0, srp |-> 0, free |-> 0, old |-> 0, rc |-> 0]
        /\ rpc = "idle" /\ rop = <<"none", 0>> /\ rl = [res |-> 0, magic |-> 0, size |-> 0, new |-> 0, rc |-> 0, did |-> FALSE]
        /\ accepted = <<>> /\ nret = 0 /\ lastRead = <<>> /\ ok = TRUE

WU == <<wp, rp, sem, hw, ext, seq>>
RVARS == <<rpc, rop, rl>>
WVARS == <<wpc, wop, wl>>
HIST == <<accepted, nret, lastRead, ok>>

-----------------------------------------------------------------------------
(* Writer: qb_rb_chunk_write(len) = space_free + alloc + memcpy + commit      *)
W_Call(len, pat, id) ==
  /\ wpc = "idle" /\ wop' = <<len, pat, id>> /\ wpc' = "sf_wp"
  /\ UNCHANGED <<WU, wl, RVARS, HIST>>
W_SF_RD_WP(a) ==       \* 200
  /\ wpc = "sf_wp" /\ a = wp /\ wl' = [wl EXCEPT !.swp = a] /\ wpc' = "sf_rp"
  /\ UNCHANGED <<WU, wop, RVARS, HIST>>
W_SF_RD_RP(a) ==       \* 201
  /\ wpc = "sf_rp" /\ a = rp /\ wl' = [wl EXCEPT !.srp = a] /\ wpc' = "sf_done"
  /\ UNCHANGED <<WU, wop, RVARS, HIST>>
FreeWords == IF wl.swp > wl.srp THEN (wl.srp + W - wl.swp) - 1
             ELSE IF wl.swp < wl.srp THEN (wl.srp - wl.swp) - 1
             ELSE IF UseSem /\ sem > 0 THEN 0 ELSE W
W_SF_DONE(a) ==        \* 202 (reads the semaphore value when the pointers are equal)
  /\ wpc = "sf_done" /\ a = FreeWords
  /\ wl' = [wl EXCEPT !.free = a, !.rc = IF a * 4 < wop[1] + MARGIN THEN EAGAIN ELSE 0]
  /\ wpc' = IF a * 4 < wop[1] + MARGIN THEN "ret" ELSE "al_zero"
  /\ UNCHANGED <<WU, wop, RVARS, HIST>>
W_AL_ZERO(a) ==        \* 203
  /\ wpc = "al_zero" /\ a = wp /\ hw' = Put(wp, 0) /\ seq' = NS /\ wpc' = "al_alloc"
  /\ UNCHANGED <<wp, rp, sem, ext, wop, wl, RVARS, HIST>>
W_AL_ALLOC(a, order) == \* 204
  /\ wpc = "al_alloc" /\ a = wp /\ order = REL
  /\ hw' = Put((wp + 1) % W, ALLOC) /\ seq' = NS /\ wpc' = "wr_copy"
  /\ UNCHANGED <<wp, rp, sem, ext, wop, wl, RVARS, HIST>>
W_WR_COPY(a) ==        \* 205
  /\ wpc = "wr_copy" /\ a = wop[1]
  /\ IF Flat
       THEN /\ ext' = ext
            /\ hw' = [x \in DOMAIN hw \cup {(wp + HDRW + o) % W : o \in 0..(Words(wop[1]) - 1)} |->
                        LET off == (x - (wp + HDRW) + 2 * W) % W IN
                        IF off < Words(wop[1])
                          THEN <<IF off = Words(wop[1]) - 1 /\ wop[1] % 4 # 0 THEN UNK ELSE PW(wop[2], wop[3], off), 0>>
                          ELSE hw[x]]
       ELSE /\ hw' = hw
            /\ ext' = IF Words(wop[1]) = 0 THEN ext
                       ELSE Append(ext, <<(wp + HDRW) % W, Words(wop[1]), wop[2], wop[3], seq + 1, wop[1]>>)
  /\ seq' = NS /\ wpc' = "cm_len"
  /\ UNCHANGED <<wp, rp, sem, wop, wl, RVARS, HIST>>
W_CM_LEN(a, b) ==      \* 206
  /\ wpc = "cm_len" /\ a = wp /\ b = wop[1]
  /\ hw' = Put(wp, wop[1]) /\ seq' = NS /\ wl' = [wl EXCEPT !.old = wp] /\ wpc' = "cm_wp"
  /\ UNCHANGED <<wp, rp, sem, ext, wop, RVARS, HIST>>
W_CM_WP(a) ==          \* 207: write_pt = chunk_step(old), which reads the length word just stored
  /\ wpc = "cm_wp" /\ a = StepPt(wp, Get(wp))
  /\ wp' = a /\ wpc' = "cm_magic"
  /\ UNCHANGED <<rp, sem, hw, ext, seq, wop, wl, RVARS, HIST>>
W_CM_MAGIC(a, order) == \* 208: the chunk becomes visible
  /\ wpc = "cm_magic" /\ a = wl.old /\ order = REL
  /\ hw' = Put((wl.old + 1) % W, MAGIC) /\ seq' = NS
  /\ wl' = [wl EXCEPT !.rc = wop[1]] /\ wpc' = "ret"
  /\ accepted' = Append(accepted, wop)       \* from here on a reader can take the chunk: the write has happened
  /\ UNCHANGED <<wp, rp, sem, ext, wop, RVARS, nret, lastRead, ok>>
(* return: the notifier is posted after the last hook point, i.e. together with the return *)
W_Ret(rc) ==
  /\ wpc = "ret" /\ rc = wl.rc
  /\ sem' = IF UseSem /\ rc >= 0 THEN sem + 1 ELSE sem
  /\ wpc' = "idle"
  /\ UNCHANGED <<wp, rp, hw, ext, seq, wop, wl, RVARS, HIST>>

-----------------------------------------------------------------------------
(* Reader: qb_rb_chunk_read(buflen) / qb_rb_chunk_peek / qb_rb_chunk_reclaim *)
R_Call(kind, buflen) ==
  /\ rpc = "idle" /\ kind \in {"read", "peek", "reclaim"}
  /\ rop' = <<kind, buflen>> /\ rpc' = IF kind = "reclaim" THEN "rc_magic" ELSE "rd_wait"
  /\ rl' = [rl EXCEPT !.rc = 0, !.did = FALSE]
  /\ UNCHANGED <<WU, WVARS, HIST>>
R_RD_WAIT(a) ==        \* 217: sem_trywait (timeout 0); without a semaphore nothing is waited for and 0 is reported
  /\ rpc = "rd_wait"
  /\ IF UseSem THEN IF sem > 0 THEN a = 0 /\ sem' = sem - 1 ELSE a = ETIMEDOUT /\ sem' = sem
     ELSE a = 0 /\ sem' = sem
  /\ rl' = [rl EXCEPT !.res = a, !.rc = IF a < 0 THEN (IF rop[1] = "peek" THEN 0 ELSE a) ELSE 0]
  /\ rpc' = IF a < 0 THEN "ret" ELSE "rd_magic"
  /\ UNCHANGED <<wp, rp, hw, ext, seq, WVARS, rop, HIST>>
(* a word whose bytes are only partly defined may read as anything: the recorded value decides *)
Reads(i, v) == Get(i) = UNK \/ v = Get(i)
R_RD_MAGIC(a, b, order) == \* 218
  /\ rpc = "rd_magic" /\ b = rp /\ order = ACQ /\ Reads((rp + 1) % W, a)
  /\ rl' = [rl EXCEPT !.magic = a] /\ rpc' = "rd_check"
  /\ UNCHANGED <<WU, WVARS, rop, HIST>>
R_RD_CHECK(a) ==       \* 219: reads write_pt; chunk present iff pointers differ and the magic is MAGIC
  /\ rpc = "rd_check" /\ a = (IF rp # wp /\ rl.magic = MAGIC THEN 1 ELSE 0)
  /\ rpc' = IF a = 1 THEN "rd_size" ELSE IF UseSem THEN "rd_repost0" ELSE "ret"
  /\ rl' = [rl EXCEPT !.rc = IF a = 1 THEN 0 ELSE IF UseSem THEN EBADMSG ELSE (IF rop[1] = "peek" THEN EBADMSG ELSE ETIMEDOUT)]
  /\ UNCHANGED <<WU, WVARS, rop, HIST>>
R_RD_REPOST(a) ==      \* 220: the notification is given back
  /\ \/ (rpc = "rd_repost0" /\ a = 0) \/ (rpc = "rd_repost1" /\ a = 1)
  /\ sem' = sem + 1 /\ rpc' = "ret"
  /\ UNCHANGED <<wp, rp, hw, ext, seq, WVARS, rop, rl, HIST>>
R_RD_SIZE(a) ==        \* 221
  /\ rpc = "rd_size" /\ Reads(rp, a)
  /\ rl' = [rl EXCEPT !.size = a, !.rc = IF rop[1] = "read" /\ rop[2] < a THEN ENOBUFS ELSE a]
  /\ rpc' = IF rop[1] = "peek" THEN "ret_data"
            ELSE IF rop[2] < a THEN (IF UseSem THEN "rd_repost1" ELSE "ret") ELSE "rd_copy"
  /\ UNCHANGED <<WU, WVARS, rop, HIST>>
CopyOut == [o \in 1..Words(rl.size) |-> Get((rp + HDRW + o - 1) % W)]
R_RD_COPY(a) ==        \* 222
  /\ rpc = "rd_copy" /\ a = rl.size
  /\ lastRead' = IF Full THEN CopyOut ELSE lastRead
  /\ rpc' = "rc_magic"
  /\ UNCHANGED <<WU, WVARS, rop, rl, accepted, nret, ok>>
(* _rb_chunk_reclaim *)
R_RC_MAGIC(a, b, order) == \* 210
  /\ rpc = "rc_magic" /\ b = rp /\ order = ACQ /\ Reads((rp + 1) % W, a)
  /\ rl' = [rl EXCEPT !.magic = a] /\ rpc' = "rc_check"
  /\ UNCHANGED <<WU, WVARS, rop, HIST>>
R_RC_CHECK(a) ==       \* 211
  /\ rpc = "rc_check" /\ a = (IF rp # wp /\ rl.magic = MAGIC THEN 1 ELSE 0)
  /\ rpc' = IF a = 1 THEN "rc_size" ELSE (IF rop[1] = "read" THEN "ret_data" ELSE "ret")
  /\ UNCHANGED <<WU, WVARS, rop, rl, HIST>>
R_RC_SIZE(a) ==        \* 212
  /\ rpc = "rc_size" /\ Reads(rp, a) /\ rpc' = "rc_step"
  /\ UNCHANGED <<WU, WVARS, rop, rl, HIST>>
R_RC_STEP(a) ==        \* 213: chunk_step reads the length word again
  /\ rpc = "rc_step" /\ (Get(rp) = UNK \/ a = StepPt(rp, Get(rp)))
  /\ rl' = [rl EXCEPT !.new = a] /\ rpc' = "rc_zero"
  /\ UNCHANGED <<WU, WVARS, rop, HIST>>
R_RC_ZERO(a) ==        \* 214
  /\ rpc = "rc_zero" /\ a = rp /\ hw' = Put(rp, 0) /\ seq' = NS /\ rpc' = "rc_dead"
  /\ UNCHANGED <<wp, rp, sem, ext, WVARS, rop, rl, HIST>>
R_RC_DEAD(a, order) == \* 215
  /\ rpc = "rc_dead" /\ a = rp /\ order = REL
  /\ hw' = Put((rp + 1) % W, DEAD) /\ seq' = NS /\ rpc' = "rc_rp"
  /\ UNCHANGED <<wp, rp, sem, ext, WVARS, rop, rl, HIST>>
R_RC_RP(a) ==          \* 216: only now may the writer reuse the words
  /\ rpc = "rc_rp" /\ a = rl.new /\ rp' = a /\ rl' = [rl EXCEPT !.did = TRUE]
  /\ rpc' = IF rop[1] = "read" THEN "ret_data" ELSE "ret"
  /\ UNCHANGED <<wp, sem, hw, ext, seq, WVARS, rop, HIST>>

(* the property, at the point where a chunk is handed to the caller: it is the next accepted chunk,
   same length and same bytes (h = recorded hash of the bytes; hw_ = hash recorded at the write)   *)
Payload(c) == [o \in 1..Words(c[1]) |-> IF o = Words(c[1]) /\ c[1] % 4 # 0 THEN UNK ELSE PW(c[2], c[3], o - 1)]
R_RetData(rc) ==
  /\ rpc = "ret_data" /\ rc = rl.rc
  /\ ok' = (ok /\ nret < Len(accepted)                            \* never a chunk that was not written
               /\ rc = accepted[nret + 1][1]                        \* in order, same length
               /\ ((Full /\ rop[1] = "read") => lastRead = Payload(accepted[nret + 1])))   \* untorn, byte for byte
  /\ nret' = IF rop[1] = "read" THEN nret + 1 ELSE nret
  /\ rpc' = "idle"
  /\ UNCHANGED <<WU, WVARS, rop, rl, accepted, lastRead>>
R_Ret(rc) ==
  /\ rpc = "ret" /\ rc = rl.rc
  /\ nret' = IF rop[1] = "reclaim" /\ rl.did THEN nret + 1 ELSE nret
  /\ ok' = (ok /\ nret' <= Len(accepted))
  /\ rpc' = "idle"
  /\ UNCHANGED <<WU, WVARS, rop, rl, accepted, lastRead>>

-----------------------------------------------------------------------------
(* invariants: C01 *)
TypeOK == wp \in 0..(W - 1) /\ rp \in 0..(W - 1) /\ sem \in Nat
FifoExactlyOnceUntorn == ok
(* a chunk that was accepted and not yet consumed is intact in memory whatever the other side is doing *)
Unread == {k \in (nret + 1)..Len(accepted) : TRUE}
SemBound == UseSem => sem <= Len(accepted) - nret + 1
=============================================================================
