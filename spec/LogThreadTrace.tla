--------------------------- MODULE LogThreadTrace ---------------------------
(* Trace validation for the controlled runs of harness/h_logthread.c: every recorded step of the
   real code (one granted step of one thread = the code between two hook points) must be the
   LogThread action of that thread at that program counter, must arrive at the hook point the
   action leads to, and the state read through the hooks (semaphore value, memory accounting,
   queue length, dropped count, what was written / reported in the step) must equal the
   specification's state.  All invariants of LogThread are evaluated on the way.            *)
EXTENDS LogThread, Json, IOUtils
Tr == ndJsonDeserialize(IOEnv.TRACE)
VARIABLES l,
          lk    \* id of the lock object used by the current logging thread (0 = not seen yet)

APc(p) == CASE p = 0   -> "idle"
            [] p = 407 -> "p_lock"   [] p = 408 -> "p_locked" [] p = 409 -> "p_append" [] p = 410 -> "p_drop"
            [] p = 411 -> "p_unlock" [] p = 412 -> "p_unlockd" [] p = 413 -> "p_post"
            [] p = 415 -> "c_pause"  [] p = 416 -> "c_paused" [] p = 417 -> "c_resume"
            [] p = 418 -> "s_lock"   [] p = 419 -> "s_locked" [] p = 420 -> "s_unlock" [] p = 421 -> "s_post"
            [] p = 423 -> "s_join"
            [] p = 490 -> "a_inlogger"
            [] OTHER   -> "?"
WPc(p) == CASE p = 400 -> "wait" [] p = 401 -> "woken" [] p = 402 -> "locked" [] p = 403 -> "exit"
            [] p = 404 -> "dequeue" [] p = 405 -> "write" [] p = 406 -> "unlock" [] p = 490 -> "inlogger"
            [] p = 499 -> "exited"
            [] OTHER   -> "?"
CtlName(o) == CASE o = 2 -> "SetThreaded" [] o = 3 -> "Enable" [] o = 4 -> "Conf" [] o = 5 -> "Close"
(* non-yielding hook points a step passes: "posted" after each sem_post, "joined" after pthread_join,
   "created" when qb_log_thread_start has created a logging thread *)
Via(from, newthread) == CASE from = 413 -> <<414>> [] from = 421 -> <<422>> [] from = 423 -> <<424>>
                          [] newthread -> <<425>> [] OTHER -> <<>>

Last(s) == s[Len(s)]
(* the observations taken after the step, against the successor state *)
Obs(r, from, newthread) ==
  /\ (r[5] >= 0 => sem' = r[5])
  /\ (r[6] # -1 => memUsed' = r[6])
  /\ (r[7] >= 0 => Len(queue') = r[7])
  /\ r[8] = (IF Len(written') > Len(written) THEN Last(written') ELSE 0)
  /\ r[9] = reported' - reported
  /\ (r[1] = 0 => r[11] = 0)                         \* the call that returned succeeded
  /\ (r[1] \in {404, 408, 410} => dropped' = r[3])  \* hooks that carry logt_dropped_messages
  /\ r[12] = Via(from, newthread)
  /\ (r[13] >= 0 => (r[13] = 1) = (lock' # "free"))  \* the logging thread's lock is really held iff somebody holds it here
(* every lock / unlock of one incarnation of the logging thread names the same, non-NULL lock object *)
LockId(r, newthread) ==
  IF r[4] >= 0                                       \* the arrival hook names the lock object
    THEN r[4] # 0 /\ (newthread \/ lk \in {0, r[4]}) /\ lk' = r[4]
    ELSE lk' = (IF newthread THEN 0 ELSE lk)

TStep(ev) ==
  LET a == ev.a  r == ev.r IN
  /\ IF a[1] = 1
       THEN /\ apc = APc(a[2])
            /\ CASE a[3] = 0 -> AStep
                 [] a[3] = 1 -> CallInit
                 [] a[3] = 6 -> CallStart
                 [] a[3] = 7 -> (IF threaded THEN CallLog ELSE CallLogSync) /\ posted' = a[4]
                 [] a[3] = 8 -> CallFini
                 [] a[3] \in {2, 3, 4, 5} -> CallCtl(<<CtlName(a[3]), a[4]>>)
            /\ apc' = APc(r[1])
       ELSE /\ a[1] = 2 /\ a[3] = 0
            /\ wpc = WPc(a[2])
            /\ WNext
            /\ wpc' = WPc(r[1])
  /\ LET newthread == (wpc = "none" /\ wpc' = "wait") IN                      \* a new logging thread: a new lock object
     Obs(r, a[2], newthread) /\ LockId(r, newthread)

ResetState ==
  /\ inited' = FALSE /\ inits' = 0 /\ tstate' = "unused" /\ threaded' = FALSE
  /\ active' = FALSE /\ shouldExit' = FALSE /\ lockObj' = "null" /\ lock' = "free" /\ sem' = 0
  /\ queue' = <<>> /\ memUsed' = 0 /\ dropped' = 0
  /\ wpc' = "none" /\ wrec' = 0 /\ apc' = "idle" /\ acall' = NoCall
  /\ posted' = 0 /\ lost' = {} /\ opt' = {} /\ written' = <<>> /\ reported' = 0 /\ fin' = FALSE
  /\ lk' = 0

TraceInit == Init /\ l = 1 /\ lk = 0
TraceNext ==
  /\ l <= Len(Tr) /\ l' = l + 1
  /\ LET ev == Tr[l] IN
     IF ev.e = "Reset" THEN ResetState
     ELSE ev.e = "Step" /\ TStep(ev)
TraceSpec == TraceInit /\ [][TraceNext]_<<vars, l, lk>>
TraceAccepted == TLCGet("stats").diameter - 1 = Len(Tr)
=============================================================================
