\* liveness of the code as found, the triggers of findings 11-13 left out
CONSTANTS NMsgs = 3  Limit = 2  MaxInits = 2
CONSTANT Fixes = {}
CONSTANT Skip = {11, 12, 13}
SPECIFICATION FairSpec
PROPERTY CallsReturn
PROPERTY FiniReturns
CHECK_DEADLOCK FALSE
