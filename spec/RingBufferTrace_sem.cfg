CONSTANTS W = 1024  UseSem = TRUE  Flat = FALSE  Full = FALSE
SPECIFICATION TraceSpec
INVARIANT TypeOK
INVARIANT FifoExactlyOnceUntorn
POSTCONDITION TraceAccepted
CHECK_DEADLOCK FALSE
