\* stand-alone shape generation (DEPTH, MINLEN, SMALL in the environment); c14.py writes its own copy with the recorded KF set.
CONSTANTS AsIs = {}  KF = {}  MaxTok = 100  Ms = {}  Ss = {}
CONSTANT Toks <- GenToks
SPECIFICATION GenSpec
CONSTRAINT Prune
CHECK_DEADLOCK FALSE
