--------------------------- MODULE IpcCrashTrace ---------------------------
(* Trace validation: every scenario recorded by harness/h_ipc_crash.c (callbacks of the surviving server, censuses of
   its descriptors and /dev/shm entries, results and latencies of the surviving client's calls) must be a behaviour of
   IpcCrash.  One step per recorded event.                                                                          *)
EXTENDS IpcCrash, Json, IOUtils
Tr == ndJsonDeserialize(IOEnv.TRACE)
VARIABLE l
TraceInit == Init /\ l = 1
ResetState ==
  /\ kind' = 0
  /\ cst' = [r \in Roles |-> 0] /\ cphase' = [r \in Roles |-> PNot]
  /\ cb' = [r \in Roles |-> None] /\ held' = [r \in Roles |-> Zero]
  /\ salive' = TRUE /\ cconn' = 0 /\ okAfter' = 0
TDo(ev) ==
  LET a == ev.a  r == ev.r IN
  CASE ev.e = "Start"       -> Begin(a[1])
    [] ev.e = "Spawn"       -> Spawn(a[1])
    [] ev.e = "Connect"     -> Connected(a[1], r[1])
    [] ev.e = "Serve"       -> Serve(a[1], r[1])
    [] ev.e = "Disconnect"  -> Disconnect(a[1])
    [] ev.e = "Phase"       -> Phase(a[1], a[2])
    [] ev.e = "ClientDied"  -> ClientDie(a[1], a[2])
    [] ev.e = "Accept"      -> EvAccept(a[1])
    [] ev.e = "Created"     -> EvCreated(a[1])
    [] ev.e = "Msg"         -> EvMsg(a[1])
    [] ev.e = "Closed"      -> EvClosedRet(a[1], a[2])
    [] ev.e = "Destroyed"   -> EvDestroyed(a[1])
    [] ev.e = "Step"        -> EvStep(a[1], <<a[2], a[3], a[4]>>, a[5])
    [] ev.e = "Quiesce"     -> EvQuiesce(a[1])
    [] ev.e = "End"         -> IF kind = 3 THEN EvEndS(r[3]) ELSE EvEndC(r[1], r[2], r[3], r[4])
    [] ev.e = "SrvDied"     -> SrvDie
    [] ev.e = "CConnect"    -> CConnect(r[1], r[3])
    [] ev.e = "CCall"       -> CCall(a[1], a[2], r[1], r[2], r[5])
    [] ev.e = "CDisconnect" -> CDisconnect(r[1])
    [] OTHER                -> FALSE          \* "Hang" and anything unknown is never a step
TraceNext ==
  /\ l <= Len(Tr) /\ l' = l + 1
  /\ IF Tr[l].e = "Reset" THEN ResetState ELSE TDo(Tr[l])
TraceSpec == TraceInit /\ [][TraceNext]_<<vars, l>>
TraceAccepted == TLCGet("stats").diameter - 1 = Len(Tr)
=============================================================================
