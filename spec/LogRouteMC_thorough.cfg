\* targets: 2 slots, 5 filters (exact list, comma list, substring, regex, '*'), twins; no tag filters
CONSTANTS NT = 2  TagVals = {1}  MaxRules = 2  MaxTag = 0  MaxKnown = 3
CONSTANTS Sites <- U1Sites  Rules <- U1Rules  TRules <- Empty  Bugs <- NoBugs
SPECIFICATION SpecTargets
INVARIANT TypeOK
INVARIANT DeliveryIffSelected
INVARIANT Routing
INVARIANT TagRouting
INVARIANT Twins
INVARIANT UnusedClean
CHECK_DEADLOCK FALSE
