------------------------------ MODULE TimerHeap ------------------------------
(* The binary heap of include/tlist.h (timerlist_add / timerlist_del /
   timerlist_expire's pop) transcribed: an array of timers ordered by expiry,
   sift-up on add, replace-with-last + sift-up-or-down on delete.  Part of C09:
   "timers of the same priority are dispatched in order of their expiry times ...
   for all add/delete histories of the timer heap".
   heap[i] = <<expiry, id>> (1-based here; C is 0-based).                      *)
EXTENDS Naturals, Sequences, FiniteSets, TLC
CONSTANTS Expiries, MaxTimers
VARIABLES heap, nextId
vars == <<heap, nextId>>

Parent(i) == i \div 2
Left(i) == 2 * i
Right(i) == 2 * i + 1
Swap(h, i, j) == [h EXCEPT ![i] = h[j], ![j] = h[i]]

RECURSIVE SiftUp(_, _)
SiftUp(h, i) == IF i > 1 /\ h[Parent(i)][1] > h[i][1] THEN SiftUp(Swap(h, i, Parent(i)), Parent(i)) ELSE h
RECURSIVE SiftDown(_, _)
SiftDown(h, i) ==
  LET n == Len(h)
      s1 == IF Left(i) <= n /\ h[Left(i)][1] < h[i][1] THEN Left(i) ELSE i
      s2 == IF Right(i) <= n /\ h[Right(i)][1] < h[s1][1] THEN Right(i) ELSE s1
  IN IF s2 = i THEN h ELSE SiftDown(Swap(h, i, s2), s2)

Init == heap = <<>> /\ nextId = 1
Add(e) == /\ Len(heap) < MaxTimers
          /\ heap' = SiftUp(Append(heap, <<e, nextId>>), Len(heap) + 1)
          /\ nextId' = nextId + 1
(* delete the entry at position pos (timerlist_heap_delete) *)
DelAt(h, pos) ==
  LET n == Len(h)
      repl == h[n]
      h1 == SubSeq([h EXCEPT ![pos] = repl], 1, n - 1)
  IN IF pos = n THEN SubSeq(h, 1, n - 1)
     ELSE IF repl[1] < h[pos][1] THEN SiftUp(h1, pos)
     ELSE IF repl[1] > h[pos][1] THEN SiftDown(h1, pos)
     ELSE h1
Del(id) == /\ \E p \in 1..Len(heap) : heap[p][2] = id
           /\ heap' = DelAt(heap, CHOOSE p \in 1..Len(heap) : heap[p][2] = id)
           /\ UNCHANGED nextId
Pop == heap # <<>> /\ heap' = DelAt(heap, 1) /\ UNCHANGED nextId

Next == (\E e \in Expiries : Add(e)) \/ (\E id \in 1..(nextId - 1) : Del(id)) \/ Pop
Spec == Init /\ [][Next]_vars

HeapOrdered == \A i \in 2..Len(heap) : heap[Parent(i)][1] <= heap[i][1]
HeadIsMin == heap # <<>> => \A i \in 1..Len(heap) : heap[1][1] <= heap[i][1]
IdsDistinct == \A i, j \in 1..Len(heap) : i # j => heap[i][2] # heap[j][2]
=============================================================================
