CONSTANTS Limits = {4, 8}  Widths = {0, 3, 10105}  Lens = {0, 10099, 10105}
          Dirs = {110, 98}  LitSyms = {120, 10}  MaxTok = 3
SPECIFICATION MCSpec
INVARIANT TypeOK
INVARIANT LimitSane
INVARIANT LineBounded
INVARIANT LogBounded
INVARIANT LineCanonical
INVARIANT NoRawMarker
INVARIANT StoreBound
INVARIANT LoadBound
INVARIANT AlgConforms
INVARIANT TruncFull
CHECK_DEADLOCK FALSE
