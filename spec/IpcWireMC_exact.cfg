CONSTANTS KFSkip = {}  Impl = "asfound"
SPECIFICATION Spec
CONSTRAINT JudgeOnly
INVARIANT TriggersExact
CHECK_DEADLOCK FALSE
