CONSTANTS KFSkip = {}  Impl = "asfound"  Big = FALSE
SPECIFICATION Spec
CONSTRAINT JudgeOnly
INVARIANT TriggersExact
CHECK_DEADLOCK FALSE
