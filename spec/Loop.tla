------------------------------- MODULE Loop -------------------------------
(* The qb_loop main loop (lib/loop.c, loop_job.c, loop_timerlist.c, loop_poll.c,
   loop_poll_epoll.c, include/tlist.h) -- properties C08, C09, C10.

   Property-level specification of the loop as its user sees it:
     * registrations (jobs, timers, descriptors, signals) with a status,
     * the environment: a monotonic clock that only moves while the loop
       sleeps in its poll call, descriptors becoming ready, signals arriving,
       the kernel's set of polled descriptors,
     * one action per API call and per callback invocation, plus Poll, the
       iteration boundary (exactly one poll call per loop iteration).
   WHEN the loop dispatches something is left open (any pending item may be
   dispatched between two polls); WHAT it may dispatch, in which order, how long
   it may sleep and how long a level may be left waiting are the properties:
     C08  exactly-once jobs/timers, fd and signal callbacks owed per readiness /
          delivery, nothing after a successful delete, stale handles rejected,
          FIFO jobs per priority, stop ends the run
     C09  no early fire, expiry order within a priority, bounded sleep, queries
     C10  no level with pending work is left without a dispatch for three
          consecutive iterations; higher levels get at least as many turns
   Time is a 3-limb number <<a,b,c>> = a*10^18 + b*10^9 + c nanoseconds because
   TLC integers are 32-bit and the API takes 64-bit nanoseconds.              *)
EXTENDS Naturals, Integers, Sequences, FiniteSets, TLC

G == 1000000000
BT(a, b, c) == <<a, b, c>>
BZero == <<0, 0, 0>>
BAdd(x, y) == LET c3 == x[3] + y[3]  k3 == c3 \div G
                  c2 == x[2] + y[2] + k3  k2 == c2 \div G
              IN <<x[1] + y[1] + k2, c2 % G, c3 % G>>
BLt(x, y) == \/ x[1] < y[1]
             \/ (x[1] = y[1] /\ x[2] < y[2])
             \/ (x[1] = y[1] /\ x[2] = y[2] /\ x[3] < y[3])
BLe(x, y) == x = y \/ BLt(x, y)
BSub(x, y) == \* x - y for y <= x
  LET b3 == IF x[3] < y[3] THEN 1 ELSE 0   d3 == x[3] + b3 * G - y[3]
      y2 == y[2] + b3
      b2 == IF x[2] < y2 THEN 1 ELSE 0     d2 == x[2] + b2 * G - y2
  IN <<x[1] - y[1] - b2, d2, d3>>
BMs(ms) == <<0, ms \div 1000, (ms % 1000) * 1000000>>      \* milliseconds (< 2^31) to time
U64MAX == <<18, 446744073, 709551615>>

VARIABLES jobs,    \* [id -> [p, st, seq, age]]       st: "wait" | "done" | "del"
          timers,  \* [id -> [p, st, exp, seq, age]]  st: "active" | "fired" | "del"
          fds,     \* [reg -> [fd, p, ev, ret, st, pend, age]]  st: "active" | "gone";  pend: owed revents (0 none)
          sigs,    \* [reg -> [signo, p, st, owed, age]]
          kreg,    \* descriptors the kernel is polling for this loop
          sigq,    \* signals raised, not yet read by the loop (the self-pipe)
          now,     \* monotonic clock
          seqno,   \* registration counter (order of addition)
          running, stopReq,
          disp,    \* [0..2 -> BOOLEAN] a dispatch happened at that priority since the last poll
          dry,     \* [0..2 -> Nat] consecutive completed iterations without a dispatch at that priority
          turns,   \* [0..2 -> Nat] iterations with a dispatch, over the current saturated span
          elig,    \* [0..2 -> BOOLEAN] the level had dispatchable work when the current iteration polled
          taint,   \* something was deleted/closed during the current iteration (turn counting is suspended)
          lastTimeout  \* timeout of the last poll call (ms), -1 = forever

vars == <<jobs, timers, fds, sigs, kreg, sigq, now, seqno, running, stopReq, disp, dry, turns, elig, taint, lastTimeout>>

Prio == 0..2
L3(x) == [p \in Prio |-> x]

Init == /\ jobs = <<>> /\ timers = <<>> /\ fds = <<>> /\ sigs = <<>>
        /\ kreg = {} /\ sigq = <<>> /\ now = BT(0, 1000, 0) /\ seqno = 0
        /\ running = FALSE /\ stopReq = FALSE
        /\ disp = L3(FALSE) /\ dry = L3(0) /\ turns = L3(0) /\ elig = L3(FALSE) /\ taint = FALSE /\ lastTimeout = 0

Ext(f, k, v) == [x \in DOMAIN f \cup {k} |-> IF x = k THEN v ELSE f[x]]

-----------------------------------------------------------------------------
(* what is pending (owed a dispatch) at a priority *)
WaitingJobs(p) == {j \in DOMAIN jobs : jobs[j].st = "wait" /\ jobs[j].p = p}
ExpiredTimers(p) == {t \in DOMAIN timers : timers[t].st = "active" /\ timers[t].p = p /\ BLt(timers[t].exp, now)}
ReadyFds(p) == {r \in DOMAIN fds : fds[r].st = "active" /\ fds[r].p = p /\ fds[r].pend # 0}
OwedSigs(p) == {s \in DOMAIN sigs : sigs[s].st = "active" /\ sigs[s].p = p /\ sigs[s].owed > 0}
ActiveTimers == {t \in DOMAIN timers : timers[t].st = "active"}

(* an item "old enough": it has been pending over more than three whole iterations *)
Overdue(p) == \/ \E j \in WaitingJobs(p) : jobs[j].age > 3
              \/ \E t \in ExpiredTimers(p) : timers[t].age > 3
              \/ \E r \in ReadyFds(p) : fds[r].age > 3
              \/ \E s \in OwedSigs(p) : sigs[s].age > 3
HasWork(p) == WaitingJobs(p) # {} \/ ExpiredTimers(p) # {} \/ ReadyFds(p) # {} \/ OwedSigs(p) # {}

-----------------------------------------------------------------------------
(* API calls.  rc = 0 success, rc < 0 refused; only that distinction is part of the property. *)
JobAdd(id, p) ==
  /\ id \notin DOMAIN jobs
  /\ jobs' = Ext(jobs, id, [p |-> p, st |-> "wait", seq |-> seqno, age |-> 0])
  /\ seqno' = seqno + 1
  /\ UNCHANGED <<timers, fds, sigs, kreg, sigq, now, running, stopReq, disp, dry, turns, elig, taint, lastTimeout>>

JobDelOk(id) == id \in DOMAIN jobs /\ jobs[id].st = "wait"
JobDel(id) ==
  /\ jobs' = IF JobDelOk(id) THEN [jobs EXCEPT ![id].st = "del"] ELSE jobs
  /\ taint' = TRUE /\ UNCHANGED <<timers, fds, sigs, kreg, sigq, now, seqno, running, stopReq, disp, dry, turns, elig, lastTimeout>>

(* expiry saturates at the largest representable time *)
Expiry(dur) == LET s == BAdd(now, dur) IN IF BLt(U64MAX, s) THEN U64MAX ELSE s
TimerAdd(id, p, dur) ==
  /\ id \notin DOMAIN timers
  /\ timers' = Ext(timers, id, [p |-> p, st |-> "active", exp |-> Expiry(dur), seq |-> seqno, age |-> 0])
  /\ seqno' = seqno + 1
  /\ UNCHANGED <<jobs, fds, sigs, kreg, sigq, now, running, stopReq, disp, dry, turns, elig, taint, lastTimeout>>

TimerLive(id) == id \in DOMAIN timers /\ timers[id].st = "active"
TimerDel(id) ==
  /\ timers' = IF TimerLive(id) THEN [timers EXCEPT ![id].st = "del"] ELSE timers
  /\ taint' = TRUE /\ UNCHANGED <<jobs, fds, sigs, kreg, sigq, now, seqno, running, stopReq, disp, dry, turns, elig, lastTimeout>>

(* is_running / time-remaining: non-zero exactly while pending (an expired timer has nothing remaining) *)
TimerQueryOK(id, isrun, rem) ==
  IF TimerLive(id) /\ BLt(now, timers[id].exp)
    THEN isrun = 1 /\ rem = BSub(timers[id].exp, now)
    ELSE IF TimerLive(id) THEN isrun \in {0, 1} /\ rem = BZero      \* expired, dispatch owed: nothing remains
    ELSE isrun = 0 /\ rem = BZero

ActiveReg(fd) == {r \in DOMAIN fds : fds[r].st = "active" /\ fds[r].fd = fd}
PollAddOk(fd) == fd \notin kreg
PollAdd(reg, fd, p, ev, ret) ==
  /\ reg \notin DOMAIN fds
  /\ IF PollAddOk(fd)
       THEN /\ fds' = Ext(fds, reg, [fd |-> fd, p |-> p, ev |-> ev, ret |-> ret, st |-> "active", pend |-> 0, age |-> 0, fn |-> 0])
            /\ kreg' = kreg \cup {fd}
       ELSE UNCHANGED <<fds, kreg>>
  /\ UNCHANGED <<jobs, timers, sigs, sigq, now, seqno, running, stopReq, disp, dry, turns, elig, taint, lastTimeout>>

PollDelOk(fd) == ActiveReg(fd) # {}
PollDel(fd) ==
  /\ IF PollDelOk(fd)
       THEN /\ fds' = [r \in DOMAIN fds |-> IF r \in ActiveReg(fd) THEN [fds[r] EXCEPT !.st = "gone", !.pend = 0] ELSE fds[r]]
            /\ kreg' = kreg \ {fd}
       ELSE UNCHANGED <<fds, kreg>>
  /\ taint' = TRUE /\ UNCHANGED <<jobs, timers, sigs, sigq, now, seqno, running, stopReq, disp, dry, turns, elig, lastTimeout>>

PollModOk(fd) == ActiveReg(fd) # {}
(* a registration whose priority changes while its callback is already queued is served from its old level:
   turn counting is suspended for that iteration *)
PollMod(fd, p, ev) ==
  /\ fds' = [r \in DOMAIN fds |-> IF r \in ActiveReg(fd) THEN [fds[r] EXCEPT !.p = p, !.ev = ev] ELSE fds[r]]
  /\ taint' = TRUE /\ UNCHANGED <<jobs, timers, sigs, kreg, sigq, now, seqno, running, stopReq, disp, dry, turns, elig, lastTimeout>>

(* qb_loop_poll_mod also replaces the callback (and its data): fn names which of the application's callbacks the
   registration has now; the callback that runs must be that one *)
PollModFn(fd, p, ev, fn) ==
  /\ fds' = [r \in DOMAIN fds |-> IF r \in ActiveReg(fd) THEN [fds[r] EXCEPT !.p = p, !.ev = ev, !.fn = fn] ELSE fds[r]]
  /\ taint' = TRUE /\ UNCHANGED <<jobs, timers, sigs, kreg, sigq, now, seqno, running, stopReq, disp, dry, turns, elig, lastTimeout>>

(* the application closes a descriptor: the kernel forgets it *)
FdClose(fd) ==
  /\ kreg' = kreg \ {fd}
  /\ taint' = TRUE /\ UNCHANGED <<jobs, timers, fds, sigs, sigq, now, seqno, running, stopReq, disp, dry, turns, elig, lastTimeout>>

SigAdd(reg, signo, p) ==
  /\ reg \notin DOMAIN sigs
  /\ sigs' = Ext(sigs, reg, [signo |-> signo, p |-> p, st |-> "active", owed |-> 0, age |-> 0])
  /\ UNCHANGED <<jobs, timers, fds, kreg, sigq, now, seqno, running, stopReq, disp, dry, turns, elig, taint, lastTimeout>>
SigLive(reg) == reg \in DOMAIN sigs /\ sigs[reg].st = "active"
SigDel(reg) ==
  /\ SigLive(reg)
  /\ sigs' = [sigs EXCEPT ![reg].st = "del", ![reg].owed = 0]
  /\ taint' = TRUE /\ UNCHANGED <<jobs, timers, fds, kreg, sigq, now, seqno, running, stopReq, disp, dry, turns, elig, lastTimeout>>

(* time passing while a callback runs *)
Tick(d) == /\ now' = BAdd(now, d)
           /\ UNCHANGED <<jobs, timers, fds, sigs, kreg, sigq, seqno, running, stopReq, disp, dry, turns, elig, taint, lastTimeout>>

Stop == /\ stopReq' = TRUE
        /\ UNCHANGED <<jobs, timers, fds, sigs, kreg, sigq, now, seqno, running, disp, dry, turns, elig, taint, lastTimeout>>

-----------------------------------------------------------------------------
(* the loop *)
RunBegin == /\ ~running /\ running' = TRUE /\ stopReq' = FALSE
            /\ disp' = L3(FALSE) /\ dry' = L3(0) /\ turns' = L3(0) /\ elig' = L3(FALSE) /\ taint' = FALSE
            /\ UNCHANGED <<jobs, timers, fds, sigs, kreg, sigq, now, seqno, lastTimeout>>

(* run returns: only after a stop request (the harness requests it when its script ends) *)
RunEnd == /\ running /\ stopReq /\ running' = FALSE
          /\ UNCHANGED <<jobs, timers, fds, sigs, kreg, sigq, now, seqno, stopReq, disp, dry, turns, elig, taint, lastTimeout>>

Marked(p) == [disp EXCEPT ![p] = TRUE]

CbJobOK(id) ==
  /\ running /\ id \in DOMAIN jobs /\ jobs[id].st = "wait"
  /\ \A j \in WaitingJobs(jobs[id].p) : jobs[j].seq >= jobs[id].seq          \* FIFO within a priority
CbJobEff(id) ==
  /\ jobs' = [jobs EXCEPT ![id].st = "done"]
  /\ disp' = Marked(jobs[id].p)
  /\ UNCHANGED <<timers, fds, sigs, kreg, sigq, now, seqno, running, stopReq, dry, turns, elig, taint, lastTimeout>>
CbJob(id) == CbJobOK(id) /\ CbJobEff(id)

CbTimerOK(id) ==
  /\ running /\ TimerLive(id)
  /\ BLe(timers[id].exp, now)                                                  \* never early
  /\ \A t \in ActiveTimers : timers[t].p = timers[id].p => BLe(timers[id].exp, timers[t].exp)   \* expiry order
CbTimerEff(id) ==
  /\ timers' = [timers EXCEPT ![id].st = "fired"]
  /\ disp' = Marked(timers[id].p)
  /\ UNCHANGED <<jobs, fds, sigs, kreg, sigq, now, seqno, running, stopReq, dry, turns, elig, taint, lastTimeout>>
CbTimer(id) == CbTimerOK(id) /\ CbTimerEff(id)

CbFdOK(reg, revents) ==
  /\ running /\ reg \in DOMAIN fds /\ fds[reg].st = "active" /\ fds[reg].pend # 0
  /\ revents = fds[reg].pend
CbFdEff(reg) ==
  /\ fds' = [fds EXCEPT ![reg].pend = 0, ![reg].age = 0]
  /\ disp' = Marked(fds[reg].p)
  /\ UNCHANGED <<jobs, timers, sigs, kreg, sigq, now, seqno, running, stopReq, dry, turns, elig, taint, lastTimeout>>
CbFd(reg, revents) == CbFdOK(reg, revents) /\ CbFdEff(reg)

(* the descriptor callback returns: a negative value ends the registration (the kernel keeps polling the
   descriptor until the application closes it) *)
CbFdRet(reg) ==
  /\ reg \in DOMAIN fds
  /\ fds' = IF fds[reg].ret < 0 /\ fds[reg].st = "active"
             THEN [fds EXCEPT ![reg].st = "gone", ![reg].pend = 0] ELSE fds
  /\ UNCHANGED <<jobs, timers, sigs, kreg, sigq, now, seqno, running, stopReq, disp, dry, turns, elig, taint, lastTimeout>>

CbSig(reg) ==
  /\ running /\ SigLive(reg) /\ sigs[reg].owed > 0
  /\ sigs' = [sigs EXCEPT ![reg].owed = @ - 1, ![reg].age = 0]
  /\ disp' = Marked(sigs[reg].p)
  /\ UNCHANGED <<jobs, timers, fds, kreg, sigq, now, seqno, running, stopReq, dry, turns, elig, taint, lastTimeout>>

(* C10: no starvation, weak priorities *)
NoStarvation == \A p \in Prio : ~(Overdue(p) /\ dry[p] >= 3)
WeakPriority == turns[2] >= turns[1] /\ turns[1] >= turns[0]
(* bounded sleep (C09): with a timer pending the timeout is finite and does not reach past the earliest
   expiry by more than the slack: 2 ms (tick + rounding), or the 50 ms job pause while jobs wait *)
Earliest == CHOOSE t \in ActiveTimers : \A u \in ActiveTimers : BLe(timers[t].exp, timers[u].exp)
SlackMs == IF \E j \in DOMAIN jobs : jobs[j].st = "wait" THEN 50 ELSE 2
TimeoutOK(tmo) ==
  IF ActiveTimers = {} THEN tmo >= -1
  ELSE /\ tmo >= 0
       /\ LET e == timers[Earliest].exp IN
          IF BLe(e, now) THEN tmo <= SlackMs
          ELSE BLe(BMs(tmo), BAdd(BSub(e, now), BMs(SlackMs)))
(* with work already queued the loop must not sleep at all *)
MustNotSleep == \E p \in Prio : ExpiredTimers(p) # {} \/ ReadyFds(p) # {} \/ OwedSigs(p) # {}
                                \/ \E j \in WaitingJobs(p) : jobs[j].age > 0

AgeUp(f, S) == [x \in DOMAIN f |-> IF x \in S THEN [f[x] EXCEPT !.age = @ + 1] ELSE f[x]]
EvMatch(want, got) == \* a reported event is delivered if asked for (POLLIN 1, POLLOUT 4); errors/hangup (8,16) always
  (IF want % 2 = 1 /\ got % 2 = 1 THEN 1 ELSE 0)
  + (IF (want \div 4) % 2 = 1 /\ (got \div 4) % 2 = 1 THEN 4 ELSE 0)
  + (IF (got \div 8) % 2 = 1 THEN 8 ELSE 0) + (IF (got \div 16) % 2 = 1 THEN 16 ELSE 0)
BitOr(a, b) == LET bit(x, k) == (x \div k) % 2 IN
  (IF bit(a, 1) + bit(b, 1) > 0 THEN 1 ELSE 0) + (IF bit(a, 4) + bit(b, 4) > 0 THEN 4 ELSE 0)
  + (IF bit(a, 8) + bit(b, 8) > 0 THEN 8 ELSE 0) + (IF bit(a, 16) + bit(b, 16) > 0 THEN 16 ELSE 0)

(* Poll: the loop calls poll with timeout tmo; the environment reports `ready` (a set of <<fd, events>>),
   lets `adv` time pass and `raised` signals arrive.  This is the iteration boundary.             *)
PollOK(tmo) == running /\ TimeoutOK(tmo) /\ (MustNotSleep => (tmo >= 0 /\ tmo <= 50))
PollEff(tmo, ready, adv, raised) ==
  /\ lastTimeout' = tmo
  /\ now' = BAdd(now, adv)
  /\ LET q == sigq \o raised IN
     IF q = <<>> THEN sigq' = q /\ sigs' = AgeUp(sigs, UNION {OwedSigs(p) : p \in Prio})
     ELSE /\ sigq' = Tail(q)
          /\ sigs' = [s \in DOMAIN sigs |->
                        IF sigs[s].st = "active" /\ sigs[s].signo = Head(q)
                          THEN [sigs[s] EXCEPT !.owed = @ + 1, !.age = IF sigs[s].owed > 0 THEN @ + 1 ELSE 0]
                          ELSE IF sigs[s].st = "active" /\ sigs[s].owed > 0 THEN [sigs[s] EXCEPT !.age = @ + 1] ELSE sigs[s]]
  /\ fds' = [r \in DOMAIN fds |->
               LET got == {e \in ready : e[1] = fds[r].fd}
                   gev == IF got = {} THEN 0 ELSE EvMatch(fds[r].ev, (CHOOSE e \in got : TRUE)[2]) IN
               IF fds[r].st # "active" \/ fds[r].fd \notin kreg THEN fds[r]
               ELSE IF fds[r].pend # 0 THEN [fds[r] EXCEPT !.pend = BitOr(@, gev), !.age = @ + 1]
               ELSE [fds[r] EXCEPT !.pend = gev, !.age = 0]]
  /\ jobs' = AgeUp(jobs, UNION {WaitingJobs(p) : p \in Prio})
  /\ timers' = AgeUp(timers, UNION {ExpiredTimers(p) : p \in Prio})
  /\ dry' = [p \in Prio |-> IF disp[p] THEN 0 ELSE dry[p] + 1]
  /\ turns' = IF taint \/ ~(\A p \in Prio : elig[p]) THEN L3(0)
               ELSE [p \in Prio |-> turns[p] + (IF disp[p] THEN 1 ELSE 0)]
  /\ elig' = [p \in Prio |-> \/ WaitingJobs(p) # {} \/ ExpiredTimers(p) # {}
                              \/ (\E r \in DOMAIN fds : (fds'[r].st = "active" /\ fds'[r].p = p /\ fds'[r].pend # 0))
                              \/ (\E x \in DOMAIN sigs : (sigs'[x].st = "active" /\ sigs'[x].p = p /\ sigs'[x].owed > 0))]
  /\ taint' = FALSE
  /\ disp' = L3(FALSE)
  /\ UNCHANGED <<kreg, seqno, running, stopReq>>

-----------------------------------------------------------------------------
PollPost == NoStarvation' /\ WeakPriority'
Poll(tmo, ready, adv, raised) == PollOK(tmo) /\ PollEff(tmo, ready, adv, raised) /\ PollPost

(* C08: status sanity *)
TypeOK == /\ \A j \in DOMAIN jobs : jobs[j].st \in {"wait", "done", "del"}
          /\ \A t \in DOMAIN timers : timers[t].st \in {"active", "fired", "del"}
          /\ \A r \in DOMAIN fds : fds[r].st = "gone" => fds[r].pend = 0
          /\ \A s \in DOMAIN sigs : sigs[s].owed >= 0 /\ (sigs[s].st = "del" => sigs[s].owed = 0)
OneRegPerFd == \A a, b \in DOMAIN fds : fds[a].st = "active" /\ fds[b].st = "active" /\ fds[a].fd = fds[b].fd
                                        /\ fds[a].fd \in kreg => a = b \/ fds[a].fd \notin kreg
=============================================================================
