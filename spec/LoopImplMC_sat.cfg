CONSTANTS JobPrio <- SatJobs  TimerSpec <- NoTimers  ReAdd = TRUE  FdPrio = 0  MaxIds = 30  MaxIter = 12
SPECIFICATION MSpec
INVARIANT Refines
INVARIANT TypeOK
CHECK_DEADLOCK FALSE
