\* targets: 2 slots (slot reuse), 4 filters (exact list, comma list, regex, '*'), twins; no tag filters
CONSTANTS NT = 2  TagVals = {1}  MaxRules = 2  MaxTag = 0  MaxKnown = 2
CONSTANTS Sites <- U1Sites  Rules <- U1RulesA  TRules <- Empty  Bugs <- NoBugs
SPECIFICATION SpecTargets
INVARIANT TypeOK
INVARIANT DeliveryIffSelected
INVARIANT Routing
INVARIANT TagRouting
INVARIANT Twins
INVARIANT UnusedClean
CHECK_DEADLOCK FALSE
