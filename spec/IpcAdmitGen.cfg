CONSTANT Clients <- GClients
SPECIFICATION GenSpec
CHECK_DEADLOCK FALSE
