CONSTANTS Clients = {1}  SrvUid = 0  SrvGid = 0
  CreateAsFound = TRUE
  ShmFiles = {1, 2, 3}  SockFiles = {7}
CONSTANT Uids <- MCUids
CONSTANT Gids <- MCGids
CONSTANT Modes <- MCModes
CONSTANT Errs <- MCErrs
SPECIFICATION MSpec
INVARIANT FileModeWithinChosen
CHECK_DEADLOCK FALSE
