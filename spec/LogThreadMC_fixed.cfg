\* the code with the three proposed repairs: nothing is left out, the property holds in every control order
CONSTANTS NMsgs = 3  Limit = 2  MaxInits = 2
CONSTANT Fixes = {11, 12, 13}
CONSTANT Skip = {}
SPECIFICATION Spec
INVARIANT TypeOK
INVARIANT InOrderOnce
INVARIANT AllWrittenAtFini
INVARIANT DroppedReported
INVARIANT NeverOverReported
INVARIANT LockLive
INVARIANT InLoggerSafe
INVARIANT NoEmptyDequeue
INVARIANT MemConsistent
INVARIANT StopPathOK
CHECK_DEADLOCK FALSE
