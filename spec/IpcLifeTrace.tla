--------------------------- MODULE IpcLifeTrace ---------------------------
(* Trace validation: a recorded run of the real qb_ipcs service under h_ipc_life
   (callbacks, application API calls, returns) must be a behaviour of IpcLife. *)
EXTENDS IpcLife, Json, IOUtils
Tr == ndJsonDeserialize(IOEnv.TRACE)
VARIABLE l
TraceInit == Init /\ l = 1
ResetState == conn' = <<>> /\ stack' = <<>> /\ svcD' = FALSE /\ svcApp' = 0
TDo(ev) ==
  LET a == ev.a  r == ev.r IN
  CASE ev.e = "Accept"     -> Accept(a[1], r[1])
    [] ev.e = "Created"    -> Created(a[1])
    [] ev.e = "Msg"        -> Msg(a[1])
    [] ev.e = "Closed"     -> Closed(a[1], r[1])
    [] ev.e = "Destroyed"  -> Destroyed(a[1])
    [] ev.e = "End"        -> End(a[1])
    [] ev.e = "Disconnect" -> Disconnect(a[1])
    [] ev.e = "Ref"        -> Ref(a[1])
    [] ev.e = "Unref"      -> Unref(a[1])
    [] ev.e = "Resp"       -> Touch(a[1])
    [] ev.e = "Event"      -> Touch(a[1])
    [] ev.e = "Stats"      -> Stats(a[1])
    [] ev.e = "IterFirst"  -> IterFirst(r[1])
    [] ev.e = "IterNext"   -> IterNext(a[1], r[1])
    [] ev.e = "SvcStats"   -> SvcStats(a[1], a[2])
    [] ev.e = "SvcRef"     -> SvcRef
    [] ev.e = "SvcUnref"   -> SvcUnref
    [] ev.e = "RateLimit"  -> RateLimit
    [] ev.e = "SvcDestroy" -> SvcDestroy
    [] ev.e = "Fd"         -> Fd
    [] ev.e = "Job"        -> Job(a[1])
    [] ev.e = "Svc"        -> UNCHANGED vars
    [] ev.e = "Env"        -> UNCHANGED vars
    [] ev.e = "Final"      -> FinalOK(r[1], r[2]) /\ UNCHANGED vars
    [] OTHER               -> FALSE
TraceNext ==
  /\ l <= Len(Tr) /\ l' = l + 1
  /\ IF Tr[l].e = "Reset" THEN ResetState ELSE TDo(Tr[l])
TraceSpec == TraceInit /\ [][TraceNext]_<<vars, l>>
TraceAccepted == TLCGet("stats").diameter - 1 = Len(Tr)
=============================================================================
