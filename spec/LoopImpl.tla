------------------------------ MODULE LoopImpl ------------------------------
(* The MECHANISM of qb_loop_run (lib/loop.c, loop_job.c, loop_timerlist.c,
   loop_poll*.c) written out: per-level wait and job lists, the rotating cut-off
   priority p_stop, the per-level budget of 4 dispatches, wait -> job list move and
   timer expiry at the top of an iteration, the timeout computation, descriptor
   entries with ACTIVE / JOBLIST states.  It runs JOINTLY with the property-level
   specification Loop (this module extends it): every mechanism step that
   corresponds to an abstract step (API call, poll, callback) performs the abstract
   step's effect on Loop's variables and records in `viol` whether the abstract
   step's guard -- i.e. the property -- allowed it.  `viol` staying FALSE over all
   reachable states of a workload is "the mechanism refines the property spec":
   exactly-once / FIFO / expiry order (C08, C09), bounded sleep (C09), no
   starvation and weak priority (C10), for every schedule of that workload.   *)
EXTENDS Loop

CONSTANTS JobPrio,      \* [initial job id -> priority]; every job re-adds itself (a new id) when ReAdd
          ReAdd,        \* BOOLEAN
          TimerSpec,    \* [initial timer id -> <<priority, duration ms>>]; timers re-add themselves when ReAdd
          FdPrio,       \* priority of the one descriptor (fd 100, always reported ready), or -1 for none
          MaxIds,       \* bound on job / timer ids created
          MaxIter       \* bound on loop iterations explored

VARIABLES mwait,    \* [Prio -> Seq(job id)]            level.wait_head
          mjobs,    \* [Prio -> Seq(<<kind, id>>)]      level.job_head (todo = its length)
          pstop, phase, runp, processed, remTodo, tmo, iter,
          fdst,     \* "EMPTY" | "ACTIVE" | "JOBLIST"
          nextJ, nextT,
          viol

mvars == <<mwait, mjobs, pstop, phase, runp, processed, remTodo, tmo, iter, fdst, nextJ, nextT, viol>>
allvars == <<vars, mvars>>

Budget == 4
INT32MAX == 2147483647
SeqOfSet(S, lt(_, _)) == \* S as a sequence ordered by lt
  LET RECURSIVE F(_)
      F(T) == IF T = {} THEN <<>> ELSE LET m == CHOOSE x \in T : \A y \in T : x = y \/ lt(x, y) IN <<m>> \o F(T \ {m})
  IN F(S)

MInit ==
  /\ Init
  /\ mwait = [p \in Prio |-> <<>>] /\ mjobs = [p \in Prio |-> <<>>]
  /\ pstop = 0 /\ phase = "setup" /\ runp = 2 /\ processed = 0 /\ remTodo = 0 /\ tmo = 0 /\ iter = 0
  /\ fdst = "EMPTY" /\ nextJ = 100 /\ nextT = 100 /\ viol = FALSE

(* ---- set-up: the application registers its items, then calls qb_loop_run ---- *)
SetupJob(id) ==
  /\ phase = "setup" /\ id \in DOMAIN JobPrio /\ id \notin DOMAIN jobs
  /\ \A j \in DOMAIN JobPrio : j < id => j \in DOMAIN jobs            \* fixed set-up order (it is irrelevant to the run)
  /\ JobAdd(id, JobPrio[id])
  /\ mwait' = [mwait EXCEPT ![JobPrio[id]] = Append(@, id)]
  /\ UNCHANGED <<mjobs, pstop, phase, runp, processed, remTodo, tmo, iter, fdst, nextJ, nextT, viol>>
SetupTimer(id) ==
  /\ phase = "setup" /\ id \in DOMAIN TimerSpec /\ id \notin DOMAIN timers
  /\ \A j \in DOMAIN JobPrio : j \in DOMAIN jobs
  /\ \A t \in DOMAIN TimerSpec : t < id => t \in DOMAIN timers
  /\ TimerAdd(id, TimerSpec[id][1], BMs(TimerSpec[id][2]))
  /\ UNCHANGED mvars
SetupFd ==
  /\ phase = "setup" /\ FdPrio >= 0 /\ fdst = "EMPTY"
  /\ \A j \in DOMAIN JobPrio : j \in DOMAIN jobs
  /\ \A t \in DOMAIN TimerSpec : t \in DOMAIN timers
  /\ PollAdd(1, 100, FdPrio, 1, 0)
  /\ fdst' = "ACTIVE"
  /\ UNCHANGED <<mwait, mjobs, pstop, phase, runp, processed, remTodo, tmo, iter, nextJ, nextT, viol>>
MRun ==
  /\ phase = "setup" /\ \A id \in DOMAIN JobPrio : id \in DOMAIN jobs
  /\ \A id \in DOMAIN TimerSpec : id \in DOMAIN timers
  /\ (FdPrio >= 0 => fdst = "ACTIVE")
  /\ RunBegin
  /\ phase' = "top" /\ pstop' = 0
  /\ UNCHANGED <<mwait, mjobs, runp, processed, remTodo, tmo, iter, fdst, nextJ, nextT, viol>>

(* ---- top of an iteration: rotate, move waiting jobs, expire timers, compute the timeout ---- *)
InJobs(kind, id) == \E p \in Prio : \E i \in 1..Len(mjobs[p]) : mjobs[p][i] = <<kind, id>>
HeapTimers == {t \in ActiveTimers : ~InJobs("T", t)}
Expiring == {t \in HeapTimers : BLt(timers[t].exp, now)}
TLt(a, b) == BLt(timers[a].exp, timers[b].exp) \/ (timers[a].exp = timers[b].exp /\ timers[a].seq < timers[b].seq)
ExpSeq == SeqOfSet(Expiring, TLt)
AddToLevel(js, p, items) == [js EXCEPT ![p] = @ \o items]
RemMs(t) == \* milliseconds until expiry, rounded down
  LET d == BSub(timers[t].exp, now) IN
  IF d[1] > 0 \/ d[2] >= 2147483 THEN INT32MAX ELSE d[2] * 1000 + d[3] \div 1000000
TimerTmo(H) == IF H = {} THEN -1
               ELSE LET m == CHOOSE t \in H : \A u \in H : BLe(timers[t].exp, timers[u].exp) IN
                    IF BLt(timers[m].exp, now) THEN 0 ELSE RemMs(m)
MTop ==
  /\ phase = "top" /\ iter < MaxIter
  /\ pstop' = IF pstop = 0 THEN 2 ELSE pstop - 1
  /\ LET jobTodo == Len(mwait[0]) + Len(mwait[1]) + Len(mwait[2])
         moved == [p \in Prio |-> mjobs[p] \o [i \in 1..Len(mwait[p]) |-> <<"J", mwait[p][i]>>]]
         withT == [p \in Prio |-> moved[p] \o SelectSeq([i \in 1..Len(ExpSeq) |-> <<"T", ExpSeq[i]>>], LAMBDA x : timers[x[2]].p = p)]
         timerTodo == Len(ExpSeq)
     IN /\ mjobs' = withT
        /\ tmo' = IF remTodo > 0 \/ timerTodo > 0 THEN 0
                  ELSE IF jobTodo > 0 THEN 50 ELSE TimerTmo(HeapTimers \ Expiring)
  /\ mwait' = [p \in Prio |-> <<>>]
  /\ phase' = "poll" /\ iter' = iter + 1
  /\ UNCHANGED <<vars, runp, processed, remTodo, fdst, nextJ, nextT, viol>>

(* ---- the poll call: the iteration boundary of the property-level specification ---- *)
MPoll ==
  /\ phase = "poll"
  /\ \E full \in BOOLEAN :
       LET adv == IF full /\ tmo > 0 THEN BMs(tmo + 1) ELSE IF full THEN BMs(1) ELSE BZero
           ready == IF FdPrio >= 0 THEN {<<100, 1>>} ELSE {} IN
       /\ PollEff(tmo, ready, adv, <<>>)
       /\ viol' = (viol \/ ~(PollOK(tmo) /\ PollPost))
  /\ IF fdst = "ACTIVE"
       THEN fdst' = "JOBLIST" /\ mjobs' = AddToLevel(mjobs, FdPrio, << <<"F", 1>> >>)
       ELSE UNCHANGED <<fdst, mjobs>>
  /\ phase' = "run" /\ runp' = 2 /\ processed' = 0
  /\ UNCHANGED <<mwait, pstop, remTodo, tmo, iter, nextJ, nextT>>

(* ---- run phase: levels HIGH..LOW at or above p_stop, at most Budget dispatches each ---- *)
Dispatch(p) ==
  LET x == Head(mjobs[p]) IN
  /\ mjobs' = [mjobs EXCEPT ![p] = Tail(@)]
  /\ processed' = processed + 1
  /\ CASE x[1] = "J" ->
            /\ viol' = (viol \/ ~CbJobOK(x[2]))
            /\ IF ReAdd /\ nextJ < 100 + MaxIds
                 THEN \* the callback re-adds a job at the same priority: abstract CbJob then JobAdd
                      /\ jobs' = [j \in DOMAIN jobs \cup {nextJ} |->
                                    IF j = nextJ THEN [p |-> jobs[x[2]].p, st |-> "wait", seq |-> seqno, age |-> 0]
                                    ELSE IF j = x[2] THEN [jobs[j] EXCEPT !.st = "done"] ELSE jobs[j]]
                      /\ seqno' = seqno + 1 /\ disp' = Marked(jobs[x[2]].p)
                      /\ mwait' = [mwait EXCEPT ![jobs[x[2]].p] = Append(@, nextJ)] /\ nextJ' = nextJ + 1
                      /\ UNCHANGED <<timers, fds, sigs, kreg, sigq, now, running, stopReq, dry, turns, elig, taint, lastTimeout, fdst, nextT>>
                 ELSE CbJobEff(x[2]) /\ UNCHANGED <<mwait, nextJ, fdst, nextT>>
       [] x[1] = "T" ->
            /\ viol' = (viol \/ ~CbTimerOK(x[2]))
            /\ IF ReAdd /\ nextT < 100 + MaxIds
                 THEN /\ timers' = [t \in DOMAIN timers \cup {nextT} |->
                                      IF t = nextT THEN [p |-> timers[x[2]].p, st |-> "active", exp |-> now, seq |-> seqno, age |-> 0]
                                      ELSE IF t = x[2] THEN [timers[t] EXCEPT !.st = "fired"] ELSE timers[t]]
                      /\ seqno' = seqno + 1 /\ disp' = Marked(timers[x[2]].p) /\ nextT' = nextT + 1
                      /\ UNCHANGED <<jobs, fds, sigs, kreg, sigq, now, running, stopReq, dry, turns, elig, taint, lastTimeout, mwait, nextJ, fdst>>
                 ELSE CbTimerEff(x[2]) /\ UNCHANGED <<mwait, nextJ, fdst, nextT>>
       [] x[1] = "F" ->
            /\ viol' = (viol \/ ~CbFdOK(1, 1))
            /\ CbFdEff(1) /\ fdst' = "ACTIVE"
            /\ UNCHANGED <<mwait, nextJ, nextT>>
MRunLevel ==
  /\ phase = "run"
  /\ IF runp >= pstop /\ mjobs[runp] # <<>> /\ processed < Budget
       THEN Dispatch(runp) /\ UNCHANGED <<pstop, phase, runp, remTodo, tmo, iter>>
       ELSE /\ IF runp > 0 THEN runp' = runp - 1 /\ phase' = phase /\ remTodo' = remTodo
               ELSE runp' = 2 /\ phase' = "top" /\ remTodo' = Len(mjobs[0]) + Len(mjobs[1]) + Len(mjobs[2])
            /\ processed' = 0
            /\ UNCHANGED <<vars, mwait, mjobs, pstop, tmo, iter, fdst, nextJ, nextT, viol>>

MNext == (\E id \in DOMAIN JobPrio : SetupJob(id)) \/ (\E id \in DOMAIN TimerSpec : SetupTimer(id)) \/ SetupFd \/ MRun
         \/ MTop \/ MPoll \/ MRunLevel
MSpec == MInit /\ [][MNext]_allvars

Refines == ~viol
=============================================================================
