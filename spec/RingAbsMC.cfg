CONSTANTS Sizes = {64, 100}  Lens = {0, 1, 30, 48, 64, 100}  MaxQ = 3
SPECIFICATION Spec
CONSTRAINT Bound
INVARIANT TypeOK
INVARIANT OverwriteKeepsNewest
CHECK_DEADLOCK FALSE
