CONSTANTS Sizes = {0, 1, 2}  Ticks = {1}  MaxIdx = 3  MaxSplits = 4
SPECIFICATION Spec
INVARIANT TypeOK
INVARIANT Ordered
INVARIANT Room
INVARIANT NewestReadable
CONSTRAINT Bound
CHECK_DEADLOCK FALSE
