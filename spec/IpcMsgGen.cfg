CONSTANTS Cap = 1000  NCap = 1000  MaxSends = 1000  Lens = {16}  MaxMsgMC = 12328
CONSTANTS GenLens = {16}  GenRates = {1, 3}  GenFcMax = {}
SPECIFICATION GenSpec
CONSTRAINT Emit
CHECK_DEADLOCK FALSE
