CONSTANTS Cap = 2  NCap = 1  MaxSends = 2  Lens = {16, 33}  MaxMsgMC = 32
SPECIFICATION Spec
INVARIANT TypeOK
INVARIANT ReqFifo
INVARIANT RespFifo
INVARIANT EvtFifo
INVARIANT DeliveredPrefix
INVARIANT Quiescent
INVARIANT SizesOK
INVARIANT SizesOKS
INVARIANT EvtCount
INVARIANT ReqCount
INVARIANT SockNoBytes
INVARIANT PollOutInv
INVARIANT ReqWake
INVARIANT ReadableNoDefer
INVARIANT Readable
PROPERTY NoEffectOnError
CHECK_DEADLOCK FALSE
