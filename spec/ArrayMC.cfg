CONSTANTS Threads = {1, 2, 3}  Bug = FALSE  MaxGrow = 3
SPECIFICATION Spec
INVARIANT NoFreedTableRead
INVARIANT LockedTableAccess
CHECK_DEADLOCK FALSE
