------------------------------ MODULE LogRouteU ------------------------------
(* Call-site / filter universes for LogRoute (TLC configuration files cannot hold tuples, so the
   universes are named here and substituted with `Sites <- U1Sites` etc.).  Text = sequence of ASCII
   codes.  The universes are chosen to alias: file names that are prefixes / substrings of each other,
   function names that differ only by a comma-list neighbour, formats that contain each other, priority
   windows that cut between the call sites, regular expressions that separate what the exact filters
   lump together.  Every universe contains twins: call sites with identical attributes on two lines.  *)
LOCAL INSTANCE Naturals
LOCAL INSTANCE Sequences

\* file names
s_ac   == <<97, 46, 99>>              \* "a.c"
s_abc  == <<97, 98, 46, 99>>          \* "ab.c"
s_bc   == <<98, 46, 99>>              \* "b.c"
\* function names
s_f    == <<102>>                     \* "f"
s_g    == <<103>>                     \* "g"
s_fg   == <<102, 103>>                \* "fg"
\* formats
s_xyz  == <<120, 121, 122>>           \* "xyz"
s_yz   == <<121, 122>>                \* "yz"
s_x    == <<120>>                     \* "x"
s_xz   == <<120, 32, 122>>            \* "x z"
\* filter texts
s_star     == <<42>>                      \* "*"
s_ac_bc    == <<97, 46, 99, 44, 98, 46, 99>>      \* "a.c,b.c"
s_bc_abc   == <<98, 46, 99, 44, 97, 98, 46, 99>>  \* "b.c,ab.c"
s_g_fg     == <<103, 44, 102, 103>>       \* "g,fg"
s_f_g      == <<102, 44, 103>>            \* "f,g"
s_x_f_fg   == <<120, 44, 102, 44, 102, 103>> \* "x,f,fg"
\* lists in which a name first occurs inside a longer alternative
s_fg_g     == <<102, 103, 44, 103>>       \* "fg,g"
s_abc_bc   == <<97, 98, 46, 99, 44, 98, 46, 99>>  \* "ab.c,b.c"
s_re_a     == <<94, 97>>                  \* "^a"
s_re_b     == <<98>>                      \* "b"      (unanchored: ab.c, b.c)
s_re_ddc   == <<94, 46, 46, 99, 36>>      \* "^..c$"  (a.c, b.c; not ab.c)
s_re_abs   == <<97, 98, 42, 46, 99>>      \* "ab*.c"  (a.c, ab.c)
s_re_fe    == <<94, 102, 36>>             \* "^f$"
s_re_g     == <<103, 36>>                 \* "g$"     (g, fg)
s_re_fs    == <<102, 46, 42>>             \* "f.*"    (f, fg)
s_re_ze    == <<122, 36>>                 \* "z$"     (xyz, yz, x z)
s_re_xdz   == <<94, 120, 46, 42, 122>>    \* "^x.*z"  (xyz, x z)
s_re_y     == <<121>>                     \* "y"
\* characters that are ordinary in POSIX basic syntax (the library compiles with cflags 0) and operators in extended syntax
s_xpz      == <<120, 43, 122>>            \* format "x+z"
s_xxz      == <<120, 120, 122>>           \* format "xxz"
s_re_xpz   == <<120, 43, 122>>            \* "x+z"   (basic: the three characters x + z; not "xxz")
s_re_xbar  == <<94, 120, 124, 121>>       \* "^x|y"  (basic: a text starting with x|y -- none here; extended would take xyz, x z, yz, ...)

FILE == 0  FUNC == 1  FORMAT == 2  FILE_RE == 3  FUNC_RE == 4  FORMAT_RE == 5

(* U1: design check (small) *)
U1Sites == { <<s_ac, s_f, 1, 4, s_xyz>>, <<s_ac, s_f, 2, 4, s_xyz>>,      \* twins
             <<s_bc, s_g, 1, 6, s_yz>>,  <<s_bc, s_g, 2, 6, s_yz>>,       \* twins
             <<s_abc, s_fg, 3, 2, s_x>> }
U1Rules == { <<FILE, s_star, 0, 7>>,
             <<FILE, s_ac_bc, 0, 4>>,
             <<FUNC, s_g_fg, 0, 7>>,
             <<FORMAT, s_yz, 3, 7>>,
             <<FILE_RE, s_re_a, 0, 7>> }
U1TRules == { <<FUNC, s_f, 0, 7>>, <<FORMAT_RE, s_re_ze, 0, 7>> }
U1RulesA == { <<FILE, s_star, 0, 7>>, <<FILE, s_ac_bc, 0, 4>>, <<FUNC, s_g_fg, 0, 7>>, <<FILE_RE, s_re_a, 0, 7>> }
U1RulesB == { <<FORMAT, s_yz, 3, 7>> }
Empty == {}

(* UX: tiny universe for exhaustive enumeration of short histories (one slot, overlapping filters, twins) *)
UXSites == { <<s_ac, s_f, 1, 4, s_xyz>>, <<s_ac, s_f, 2, 4, s_xyz>>, <<s_bc, s_g, 1, 6, s_yz>> }
UXRules == { <<FILE, s_star, 0, 4>>, <<FUNC_RE, s_re_fs, 0, 7>> }
UXTRules == { <<FORMAT, s_yz, 0, 7>> }

(* U2: exact / comma lists / windows *)
U2Sites == { <<s_ac, s_f, 1, 4, s_xyz>>, <<s_ac, s_f, 2, 4, s_xyz>>,
             <<s_ac, s_g, 3, 6, s_yz>>,
             <<s_abc, s_fg, 1, 2, s_x>>, <<s_abc, s_fg, 2, 2, s_x>>,
             <<s_bc, s_g, 1, 6, s_yz>>,
             <<s_bc, s_f, 5, 7, s_xz>> }
U2Rules == { <<FILE, s_star, 0, 5>>, <<FUNC, s_star, 3, 8>>,
             <<FILE, s_ac, 0, 7>>, <<FILE, s_ac, 0, 4>>, <<FILE, s_bc_abc, 0, 6>>, <<FILE, s_ac_bc, 5, 7>>,
             <<FUNC, s_f, 0, 7>>, <<FILE, s_f, 0, 7>>, <<FUNC, s_f_g, 0, 6>>, <<FUNC, s_x_f_fg, 2, 4>>, <<FUNC, s_g_fg, 0, 7>>,
             <<FUNC, s_fg_g, 0, 7>>, <<FILE, s_abc_bc, 0, 7>>,
             <<FORMAT, s_yz, 0, 7>>, <<FORMAT, s_x, 0, 7>>, <<FORMAT, s_xz, 0, 8>> }
U2TRules == { <<FUNC, s_fg_g, 0, 7>>, <<FILE, s_ac, 0, 7>>, <<FUNC, s_g_fg, 0, 6>>, <<FORMAT, s_yz, 0, 7>>, <<FILE, s_star, 0, 4>>, <<FILE, s_g_fg, 0, 6>> }

(* U3: regular expressions against the exact filters *)
U3Sites == { <<s_ac, s_f, 1, 4, s_xyz>>, <<s_ac, s_f, 2, 4, s_xyz>>,
             <<s_abc, s_fg, 1, 4, s_xz>>, <<s_abc, s_fg, 7, 4, s_xz>>,
             <<s_bc, s_g, 1, 6, s_yz>>, <<s_bc, s_g, 2, 6, s_yz>>,
             <<s_bc, s_fg, 3, 2, s_x>>,
             <<s_bc, s_f, 4, 4, s_xpz>>, <<s_abc, s_g, 5, 4, s_xxz>> }
U3Rules == { <<FILE_RE, s_re_a, 0, 7>>, <<FILE_RE, s_re_b, 0, 7>>, <<FILE_RE, s_re_ddc, 0, 5>>, <<FILE_RE, s_re_abs, 0, 7>>,
             <<FUNC_RE, s_re_fe, 0, 7>>, <<FUNC_RE, s_re_g, 0, 7>>, <<FUNC_RE, s_re_fs, 3, 7>>,
             <<FORMAT_RE, s_re_ze, 0, 7>>, <<FORMAT_RE, s_re_xdz, 0, 7>>, <<FORMAT_RE, s_re_y, 0, 5>>,
             <<FILE_RE, s_star, 0, 3>>,
             <<FORMAT_RE, s_re_xpz, 0, 7>>, <<FORMAT_RE, s_re_xbar, 0, 7>>,
             <<FILE, s_ac_bc, 0, 7>>, <<FUNC, s_fg, 0, 7>>, <<FORMAT, s_x, 0, 7>> }
U3TRules == { <<FORMAT_RE, s_re_xpz, 0, 7>>, <<FILE_RE, s_re_b, 0, 7>>, <<FUNC_RE, s_re_fs, 0, 7>>, <<FORMAT_RE, s_re_ze, 0, 5>>, <<FUNC, s_g, 0, 7>> }

(* U4: everything mixed, priorities 0..8 *)
U4Sites == { <<s_ac, s_f, 1, 0, s_xyz>>, <<s_ac, s_f, 2, 0, s_xyz>>,
             <<s_ac, s_g, 3, 8, s_yz>>, <<s_ac, s_g, 4, 8, s_yz>>,
             <<s_abc, s_f, 1, 3, s_x>>,
             <<s_abc, s_fg, 2, 5, s_xz>>, <<s_abc, s_fg, 3, 5, s_xz>>,
             <<s_bc, s_fg, 1, 7, s_xyz>>,
             <<s_bc, s_g, 2, 4, s_yz>>, <<s_bc, s_g, 4, 4, s_yz>> }
U4Rules == { <<FILE, s_star, 0, 8>>, <<FORMAT, s_star, 4, 8>>, <<FUNC_RE, s_star, 0, 4>>,
             <<FILE, s_ac, 0, 8>>, <<FILE, s_bc_abc, 0, 7>>, <<FUNC, s_f_g, 1, 8>>, <<FUNC, s_fg, 0, 8>>,
             <<FORMAT, s_yz, 0, 8>>, <<FORMAT, s_xz, 0, 8>>,
             <<FILE_RE, s_re_abs, 0, 8>>, <<FUNC_RE, s_re_g, 0, 8>>, <<FORMAT_RE, s_re_xdz, 0, 8>>, <<FORMAT_RE, s_re_ze, 4, 8>> }
U4TRules == { <<FILE, s_star, 0, 8>>, <<FUNC, s_f_g, 0, 8>>, <<FORMAT_RE, s_re_y, 0, 8>>, <<FILE_RE, s_re_a, 2, 8>>, <<FORMAT, s_x, 0, 5>> }
=============================================================================
