----------------------------- MODULE BbFileMC -----------------------------
(* Design check of BbFile: the call sequences Init / Log / Dump / Print over a small
   record alphabet, with Print ranging over the abstract cases within DevMC
   deviations of the undamaged file and over candidate outcomes; only outcomes the
   specification admits (ResOK) become states, and the property's invariants are
   checked on every reachable state.                                            *)
EXTENDS BbFile
CONSTANTS MaxLog, DevMC

R1 == <<6, 0, 10, 0, 8, 13, 100, 5, 3, 111>>
R2 == <<3, 2, 20, 5, 8, 14, 200, 250, 40, 222>>

TruncP == {"none", "empty", "mark", "w0", "w1", "w2", "w3", "w4"}
MarkerP == {"new", "old", "added", "stripped", "damaged", "absent"}
WsvP == {"same", "zero", "less", "lesswrap", "more", "any", "tiny", "toobig", "na"}
DlenP == {"exact", "short", "extra", "na"}
PtrP == {"same", "in", "eq", "dbl", "beyond", "bmagic", "file", "na"}
RpmP == {"chunk", "none", "stray", "na"}
OkP == {"ok", "bad", "na"}
CdKinds == {<<"size", "small">>, <<"size", "big">>, <<"size", "diff">>, <<"magic", "x">>, <<"field", "x">>,
            <<"fnsize", "zero">>, <<"fnsize", "big">>, <<"fnsize", "diff">>, <<"fn", "body">>, <<"fn", "cut">>, <<"fn", "term">>,
            <<"msglen", "zero">>, <<"msglen", "big">>, <<"msglen", "diff">>, <<"msg", "soft">>, <<"msg", "hard">>,
            <<"end", "magic">>, <<"end", "x">>, <<"all", "misaligned">>}
CdP == {<<>>} \cup {<< <<1, rk[1], rk[2]>> >> : rk \in CdKinds}

dv(x, nom) == IF x = nom THEN 0 ELSE 1
Cases(D) ==
  UNION { UNION { UNION { UNION { UNION { UNION { UNION { UNION { UNION {
    { <<"gen", <<t, m, w, d, p, q, g, v, h>>, c>> :
        c \in {x \in CdP : dv(t, "none") + dv(m, "new") + dv(w, "same") + dv(d, "exact") + dv(p, "same") + dv(q, "same") + dv(g, "chunk") + dv(v, "ok") + dv(h, "ok") + dv(x, <<>>) <= D} }
    : h \in {x \in OkP : dv(t, "none") + dv(m, "new") + dv(w, "same") + dv(d, "exact") + dv(p, "same") + dv(q, "same") + dv(g, "chunk") + dv(v, "ok") + dv(x, "ok") <= D} }
    : v \in {x \in OkP : dv(t, "none") + dv(m, "new") + dv(w, "same") + dv(d, "exact") + dv(p, "same") + dv(q, "same") + dv(g, "chunk") + dv(x, "ok") <= D} }
    : g \in {x \in RpmP : dv(t, "none") + dv(m, "new") + dv(w, "same") + dv(d, "exact") + dv(p, "same") + dv(q, "same") + dv(x, "chunk") <= D} }
    : q \in {x \in PtrP : dv(t, "none") + dv(m, "new") + dv(w, "same") + dv(d, "exact") + dv(p, "same") + dv(x, "same") <= D} }
    : p \in {x \in PtrP : dv(t, "none") + dv(m, "new") + dv(w, "same") + dv(d, "exact") + dv(x, "same") <= D} }
    : d \in {x \in DlenP : dv(t, "none") + dv(m, "new") + dv(w, "same") + dv(x, "exact") <= D} }
    : w \in {x \in WsvP : dv(t, "none") + dv(m, "new") + dv(x, "same") <= D} }
    : m \in {x \in MarkerP : dv(t, "none") + dv(x, "new") <= D} }
    : t \in TruncP }
MCCases == Cases(DevMC)

(* (a print is explored once per dump: last = <<>> guards the print actions, so the model
   stays small; later logging keeps `last`, which is what DumpIsSnapshot / RoundTrip need) *)
(* candidate outcomes of a print: returned / sanitizer report, result code, leftovers, count, records *)
Outcomes(c) == {<<k, rc, lf, n, recs>> : k \in {0, 2}, rc \in {-5, 1}, lf \in {0, 2}, n \in {nret},
                                        recs \in {<<>>, Retained, [i \in 1..nret |-> OldRec(Retained[i])]}}

AInit == ~on /\ Step(<<"Init", 1024>>, <<1>>)
ALog == Len(logged) < MaxLog /\ \E rec \in {R1, R2} : Step(<<"Log", 1, 0, rec>>, <<>>)
ADump == \E k \in 0..Len(logged) : Step(<<"Dump">>, <<1, 1, Words(size), k>>)
PrintStep(c, r) == Step(<<"Print", c[1], 0, 0, 0, c[2], c[3]>>, r)
APrintValid == last = <<>> /\ nret >= 0 /\ \E c \in MCCases : Valid(c) /\ \E r \in Outcomes(c) : PrintStep(c, r)
APrintDamaged == last = <<>> /\ nret >= 0 /\ \E c \in MCCases : ~Valid(c) /\ ~Skipped(c) /\ \E r \in Outcomes(c) : PrintStep(c, r)
APrintSkipped == last = <<>> /\ nret >= 0 /\ \E c \in MCCases : Skipped(c) /\ \E r \in Outcomes(c) : PrintStep(c, r)
Next == AInit \/ ALog \/ ADump \/ APrintValid \/ APrintDamaged \/ APrintSkipped
Spec == Init /\ [][Next]_vars

(* class-level facts over the whole case set (state independent: evaluated in the initial state only) *)
ValidNeverTriggers == ~on => \A c \in MCCases : Valid(c) => ~KF1(c) /\ ~KF2(c) /\ ~KF3(c)
ValidIsReadable == ~on => \A c \in MCCases : Valid(c) => Readable(c)
TriggersNeedDamage == ~on => \A c \in MCCases : (KF1(c) \/ KF3(c)) => Readable(c) /\ ~Valid(c)
=============================================================================
