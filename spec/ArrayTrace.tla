----------------------------- MODULE ArrayTrace -----------------------------
EXTENDS Array, Json, IOUtils
Tr == ndJsonDeserialize(IOEnv.TRACE)
VARIABLE l
TraceInit == Init /\ l = 1
TDo(ev) ==
  LET a == ev.a  r == ev.r IN
  CASE ev.e = "Create" -> r[1] = 0 /\ Create(a[1], a[2], a[3])
    [] ev.e = "Index"  -> IndexOK(a[1], r[1], r[2], r[3], r[4]) /\ Index(a[1], r[1], r[2])
    [] ev.e = "Write"  -> Write(a[1], a[2])
    [] ev.e = "Grow"   -> GrowOK(a[1], r[1]) /\ Grow(a[1], r[1])
    [] ev.e = "H"      -> CASE a[2] = 100 -> HLocked(a[1])
                            [] a[2] = 101 -> HUnlock(a[1])
                            [] a[2] \in {102, 103} -> HTable(a[1])
                            [] a[2] = 104 -> UNCHANGED vars
TraceNext ==
  /\ l <= Len(Tr) /\ l' = l + 1
  /\ IF Tr[l].e = "Reset"
       THEN created' = FALSE /\ elemSize' = 0 /\ maxE' = 0 /\ autogrow' = 0 /\ addr' = <<>> /\ content' = <<>> /\ holder' = 0
       ELSE TDo(Tr[l])
TraceSpec == TraceInit /\ [][TraceNext]_<<vars, l>>
TraceAccepted == TLCGet("stats").diameter - 1 = Len(Tr)
=============================================================================
