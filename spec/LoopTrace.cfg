SPECIFICATION TraceSpec
INVARIANT TypeOK
INVARIANT NoStarvation
INVARIANT WeakPriority
POSTCONDITION TraceAccepted
CHECK_DEADLOCK FALSE
