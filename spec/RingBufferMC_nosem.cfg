CONSTANTS W = 12  UseSem = FALSE  Flat = TRUE  Full = TRUE  Lens = {0, 4, 8, 12}  Pats = {0, 1}  NWrites = 3  NReads = 3  ReadMode = "read"
SPECIFICATION MCSpec
INVARIANT TypeOK
INVARIANT FifoExactlyOnceUntorn
INVARIANT SemBound
CHECK_DEADLOCK FALSE
