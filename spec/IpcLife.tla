------------------------------- MODULE IpcLife -------------------------------
(* IPC server: order of the service callbacks and lifetime of a connection
   (lib/ipcs.c, lib/ipc_setup.c, lib/ipc_shm.c, lib/ipc_socket.c) -- property C04.

   The state is what the property talks about, seen from the application:
     * per connection (named by the order of the accept callback 1,2,3,...) a
       phase, the references the property names -- the library's own ones
       (initial allocation reference, the temporary one around connection_created)
       and the application's (qb_ipcs_connection_ref, connection_first_get/next_get)
       --, the value the last connection_closed returned, and the state of the
       callback word  accept . created? . msg* . closed* . destroyed;
     * the stack of calls in progress: everything happens in one thread, so a
       callback runs inside a library call (qb_ipcs_disconnect, an unref, a
       descriptor callback, a job) and API calls run inside callbacks;
     * the service: destroyed or not, extra references of the application.
   One action per callback invocation and per API call the application makes;
   End(kind) is the return of the innermost call.  The guards are the property:
     - callback word per connection; closed only after created returned; closed again
       only after it returned non-zero; nothing after destroyed;
     - destroyed exactly once, only with no reference left (library or application) and not
       while the library is still inside a callback for that connection;
     - qb_ipcs_disconnect / qb_ipcs_destroy of an established connection invoke closed
       before they return;
     - whenever control is back in the application's main loop every connection that
       is not referenced by anybody has been destroyed (NoZombie), and at the end of a
       run every accepted connection has been destroyed (Final).
   WHEN the library notices a dead peer, whether a queued request is still delivered,
   and what the sends return are not this property's business: nothing is required.
   "Never touches freed state" is observed by ASan on the harness (an abort is a
   rejected history); in the closed model IpcLifeMC it is the invariant NoUseAfterFree. *)
EXTENDS Naturals, Integers, Sequences, FiniteSets, TLC

VARIABLES conn,    \* sequence of [ph, lib, app, aret, pend, ncl, ws]
          stack,   \* calls in progress, innermost last: <<kind, connection, value>>
          svcD,    \* qb_ipcs_destroy has been called
          svcApp   \* extra service references held by the application (qb_ipcs_ref)

vars == <<conn, stack, svcD, svcApp>>

(* kinds of calls in progress *)
KAccept == 1  KCreated == 2  KMsg == 3  KClosed == 4  KDestroyed == 5
KDisc == 6    KUnref == 7    KSvcDestroy == 8   KFd == 9   KJob == 10

(* phases of a connection *)
PAccepted == 1     \* connection_accept invoked (set-up may still fail)
PCreating == 2     \* inside connection_created
PEstablished == 3  \* connection_created returned, not disconnected
PClosing == 4      \* connection_closed invoked, the last call has not returned 0 (yet)
PClosed == 5       \* connection_closed returned 0
PDropped == 6      \* refused, set-up failed, or disconnected from inside connection_created
PDestroyed == 7

Ids == DOMAIN conn
Live(c) == c \in Ids /\ conn[c].ph < PDestroyed
Open(kind, c) == \E i \in 1..Len(stack) : stack[i][1] = kind /\ stack[i][2] = c
InCallbackOf(c) == Open(KAccept, c) \/ Open(KCreated, c) \/ Open(KMsg, c) \/ Open(KClosed, c)
Top == stack[Len(stack)]
Push(f) == stack' = Append(stack, f)

(* the callback word as an automaton: 0 start, 1 accept, 2 created/msg, 4 closed, 5 destroyed, 9 broken *)
WStep(s, x) ==
  CASE s = 0 /\ x = KAccept -> 1
    [] s = 1 /\ x = KCreated -> 2
    [] s = 1 /\ x = KDestroyed -> 5
    [] s = 2 /\ x = KMsg -> 2
    [] s = 2 /\ x = KClosed -> 4
    [] s = 2 /\ x = KDestroyed -> 5
    [] s = 4 /\ x = KClosed -> 4
    [] s = 4 /\ x = KDestroyed -> 5
    [] OTHER -> 9

Init == conn = <<>> /\ stack = <<>> /\ svcD = FALSE /\ svcApp = 0

-----------------------------------------------------------------------------
(* Every event E is split into EOK (its guard: what the property allows in the current state) and EDo (the
   state change), E == EOK /\ EDo, so that the closed model IpcLifeMC can use the guards as a monitor. *)
(* callbacks *)
AcceptOK(c, ret) == c = Len(conn) + 1
AcceptDo(c, ret) ==
  /\ conn' = Append(conn, [ph |-> PAccepted, lib |-> 1, app |-> 0, aret |-> ret, pend |-> FALSE, ncl |-> 0,
                           ws |-> WStep(0, KAccept)])
  /\ Push(<<KAccept, c, ret>>)
  /\ UNCHANGED <<svcD, svcApp>>
Accept(c, ret) == AcceptOK(c, ret) /\ AcceptDo(c, ret)

CreatedOK(c) == c \in Ids /\ conn[c].ph = PAccepted /\ conn[c].aret = 0 /\ ~Open(KAccept, c)
CreatedDo(c) ==
  /\ conn' = [conn EXCEPT ![c].ph = PCreating, ![c].lib = 2, ![c].ws = WStep(@, KCreated)]
  /\ Push(<<KCreated, c, 0>>)
  /\ UNCHANGED <<svcD, svcApp>>
Created(c) == CreatedOK(c) /\ CreatedDo(c)

MsgOK(c) == c \in Ids /\ conn[c].ph = PEstablished
MsgDo(c) ==
  /\ conn' = [conn EXCEPT ![c].ws = WStep(@, KMsg)]
  /\ Push(<<KMsg, c, 0>>)
  /\ UNCHANGED <<svcD, svcApp>>
Msg(c) == MsgOK(c) /\ MsgDo(c)

(* closed: first time for an established connection; again only after it returned non-zero *)
ClosedOK(c) == c \in Ids /\ (conn[c].ph = PEstablished \/ (conn[c].ph = PClosing /\ conn[c].pend))
ClosedDo(c, ret) ==
  /\ conn' = [conn EXCEPT ![c].ph = PClosing, ![c].pend = FALSE, ![c].ncl = @ + 1, ![c].ws = WStep(@, KClosed)]
  /\ Push(<<KClosed, c, ret>>)
  /\ UNCHANGED <<svcD, svcApp>>
Closed(c, ret) == ClosedOK(c) /\ ClosedDo(c, ret)

(* destroyed: nobody holds a reference, the library is not inside a callback for the connection *)
DestroyedOK(c) ==
  /\ c \in Ids /\ conn[c].app = 0 /\ ~InCallbackOf(c)
  /\ \/ conn[c].ph \in {PClosed, PDropped} /\ conn[c].lib = 0
     \/ conn[c].ph = PAccepted /\ conn[c].aret = 0        \* set-up failed after a successful accept
DestroyedDo(c) ==
  /\ conn' = [conn EXCEPT ![c].ph = PDestroyed, ![c].lib = 0, ![c].ws = WStep(@, KDestroyed)]
  /\ Push(<<KDestroyed, c, 0>>)
  /\ UNCHANGED <<svcD, svcApp>>
Destroyed(c) == DestroyedOK(c) /\ DestroyedDo(c)

-----------------------------------------------------------------------------
(* API calls of the application *)
DisconnectOK(c) == Live(c)
DisconnectDo(c) ==
  /\ conn' = IF conn[c].ph = PCreating THEN [conn EXCEPT ![c].ph = PDropped, ![c].lib = @ - 1] ELSE conn
  /\ Push(<<KDisc, c, 0>>)
  /\ UNCHANGED <<svcD, svcApp>>
Disconnect(c) == DisconnectOK(c) /\ DisconnectDo(c)

RefOK(c) == Live(c)
RefDo(c) == conn' = [conn EXCEPT ![c].app = @ + 1] /\ UNCHANGED <<stack, svcD, svcApp>>
Ref(c) == RefOK(c) /\ RefDo(c)

UnrefOK(c) == Live(c) /\ conn[c].app > 0
UnrefDo(c) ==
  /\ conn' = [conn EXCEPT ![c].app = @ - 1]
  /\ Push(<<KUnref, c, 0>>)
  /\ UNCHANGED <<svcD, svcApp>>
Unref(c) == UnrefOK(c) /\ UnrefDo(c)

(* response_send / event_send / stats: the connection must be one the application may still use *)
TouchOK(c) == Live(c)
Touch(c) == TouchOK(c) /\ UNCHANGED vars
(* "ForeignFd" (the library sent on a descriptor the loop has registered for another connection while the application
   was sending on this one) has no action here: a trace that contains it is rejected -- the descriptor number of a
   torn-down connection was used after it had been given to somebody else *)
Stats(c) == c \in Ids /\ (Live(c) \/ Open(KDestroyed, c)) /\ UNCHANGED vars

(* connection list: each call returns nothing or a live connection, referenced for the caller *)
IterFirstOK(r) == r = 0 \/ Live(r)
IterDo(r) ==
  /\ conn' = IF r = 0 THEN conn ELSE [conn EXCEPT ![r].app = @ + 1]
  /\ UNCHANGED <<stack, svcD, svcApp>>
IterFirst(r) == IterFirstOK(r) /\ IterDo(r)
IterNextOK(cur, r) == Live(cur) /\ conn[cur].app > 0 /\ (r = 0 \/ (Live(r) /\ r # cur))
IterNext(cur, r) == IterNextOK(cur, r) /\ IterDo(r)

(* the service's own statistics (qb_ipcs_stats_get), read from the application's main loop -- beyond C04 (check X03):
   active_connections is the number of connections that are established (created returned, not disconnected: a
   disconnect of an established connection invokes closed before it returns, so in the main loop "established" is a
   phase); closed_connections counts every connection that was disconnected after its set-up had succeeded: at least
   those whose closed callback ran, at most those plus the ones that were dropped after a successful accept
   (disconnected inside connection_created, or the answer to the client could not be written -- the events do not
   tell a set-up that failed before the connection was counted from one that failed after) *)
NEstablished == Cardinality({c \in Ids : conn[c].ph = PEstablished})
NClosedMin == Cardinality({c \in Ids : conn[c].ncl > 0})
NClosedMax == Cardinality({c \in Ids : conn[c].ncl > 0 \/ (conn[c].aret = 0 /\ conn[c].ph \in {PDropped, PDestroyed})})
SvcStatsOK(active, closed) == stack = <<>> /\ active = NEstablished /\ closed >= NClosedMin /\ closed <= NClosedMax
SvcStats(active, closed) == SvcStatsOK(active, closed) /\ UNCHANGED vars

SvcRef == svcApp' = svcApp + 1 /\ UNCHANGED <<conn, stack, svcD>>
SvcUnref == svcApp > 0 /\ svcApp' = svcApp - 1 /\ UNCHANGED <<conn, stack, svcD>>
RateLimit == UNCHANGED vars
SvcDestroyOK == ~svcD /\ stack = <<>>
SvcDestroyDo == svcD' = TRUE /\ Push(<<KSvcDestroy, 0, 0>>) /\ UNCHANGED <<conn, svcApp>>
SvcDestroy == SvcDestroyOK /\ SvcDestroyDo

(* the application's main loop runs a registered descriptor callback / a queued job *)
LoopOK == stack = <<>>
FdDo == Push(<<KFd, 0, 0>>) /\ UNCHANGED <<conn, svcD, svcApp>>
Fd == LoopOK /\ FdDo
JobDo(c) == Push(<<KJob, c, 0>>) /\ UNCHANGED <<conn, svcD, svcApp>>
Job(c) == LoopOK /\ JobDo(c)

-----------------------------------------------------------------------------
(* return of the innermost call *)
EndOK(kind) ==
  /\ stack # <<>> /\ Top[1] = kind
  /\ kind = KDisc => conn[Top[2]].ph # PEstablished                   \* closed was invoked before disconnect returned
  /\ kind = KSvcDestroy => \A c \in Ids : conn[c].ph # PEstablished    \* ... and before destroy returned, for every connection
EndDo(kind) ==
  /\ stack' = SubSeq(stack, 1, Len(stack) - 1)
  /\ LET c == Top[2]  v == Top[3] IN
     conn' = CASE kind = KAccept /\ v # 0 -> [conn EXCEPT ![c].ph = PDropped, ![c].lib = 0]
               [] kind = KCreated -> [conn EXCEPT ![c].lib = @ - 1, ![c].ph = IF @ = PCreating THEN PEstablished ELSE @]
               [] kind = KClosed /\ v = 0 -> [conn EXCEPT ![c].ph = PClosed, ![c].lib = @ - 1]
               [] kind = KClosed /\ v # 0 -> [conn EXCEPT ![c].pend = TRUE]
               [] kind = KFd -> \* a connection that was accepted but never created by now failed its set-up
                    [i \in Ids |-> IF conn[i].ph = PAccepted THEN [conn[i] EXCEPT !.ph = PDropped, !.lib = 0] ELSE conn[i]]
               [] OTHER -> conn
  /\ UNCHANGED <<svcD, svcApp>>
End(kind) == EndOK(kind) /\ EndDo(kind)

(* end of a run: clients gone, references dropped, service destroyed, loop drained *)
FinalOK(leftFds, leftJobs) == stack = <<>> /\ (\A c \in Ids : conn[c].ph = PDestroyed) /\ leftFds = 0 /\ leftJobs = 0

-----------------------------------------------------------------------------
(* the property as invariants *)
TypeOK == /\ \A c \in Ids : /\ conn[c].ph \in PAccepted..PDestroyed /\ conn[c].lib \in 0..2 /\ conn[c].app >= 0
                            /\ conn[c].ncl >= 0 /\ conn[c].pend \in BOOLEAN
          /\ svcApp >= 0
WordOK == \A c \in Ids : conn[c].ws # 9
ClosedOnlyIfCreated == \A c \in Ids : conn[c].ncl > 0 => conn[c].ws \in {4, 5}
DestroyedAtZero == \A c \in Ids : conn[c].ph = PDestroyed => conn[c].app = 0 /\ conn[c].lib = 0
RetryKeepsRef == \A c \in Ids : conn[c].ph = PClosing => conn[c].lib >= 1
NoZombie == stack = <<>> => \A c \in Ids : conn[c].ph < PDestroyed => conn[c].lib + conn[c].app > 0
=============================================================================
