"""Common machinery for the libqb TLA+ verification checks.

Roles (see DESIGN.md section 3):
  * build libqb from /repo's working tree with hooks on (bin/build-libqb)
  * run TLC: design check (BFS), behaviour generation (PrintT of a history
    variable), trace validation (TraceSpec + ndjson)
  * write evidence, handle known findings, print VIOLATION lines
No property semantics live here.
"""
import json, os, re, shutil, subprocess, sys, time, random, glob

VERIF = os.path.dirname(os.path.dirname(os.path.abspath(__file__)))
REPO = os.environ.get("VERIF_REPO", "/repo")
SPEC = os.path.join(VERIF, "spec")
HARNESS = os.path.join(VERIF, "harness")
TLA_CP = "/opt/veriftools/tla/tla2tools.jar:/opt/veriftools/tla/CommunityModules-deps.jar"
NCPU = os.cpu_count() or 4


class Infra(Exception):
    """Tool / build failure (exit 2, never a VIOLATION)."""


class Ctx:
    def __init__(self, pid, tier, seed):
        self.pid = pid
        self.tier = tier
        self.seed = seed
        self.t0 = time.time()
        self.work = os.path.join(VERIF, "build", pid + os.environ.get("VERIF_WORKTAG", ""))
        if os.path.isdir(self.work):
            shutil.rmtree(self.work, ignore_errors=True)
        os.makedirs(self.work, exist_ok=True)
        self.rng = random.Random(seed)
        self.violations = []      # list of (what, replay_path)
        self.known_hits = []      # known findings re-confirmed
        self.cov = {"states": 0, "transitions": 0, "traces_validated_against_impl": 0,
                    "samples": [], "model_runs": [], "actions_covered": {}}
        self.assumptions = []
        self.notes = []
        self.lib = {}

    quick = property(lambda s: s.tier == "quick")

    def log(self, *a):
        print("[%s %6.1fs]" % (self.pid, time.time() - self.t0), *a, flush=True)

    # ---------------------------------------------------------------- build
    def build_lib(self, variant="asan"):
        if variant in self.lib:
            return self.lib[variant]
        env = dict(os.environ, VERIF_BUILD=self.work, VERIF_REPO=REPO)
        p = subprocess.run([os.path.join(VERIF, "bin/build-libqb"), variant, REPO], env=env,
                           stdout=subprocess.PIPE, stderr=subprocess.PIPE, text=True)
        if p.returncode != 0:
            raise Infra("libqb build (%s) failed:\n%s" % (variant, p.stderr[-4000:]))
        self.lib[variant] = p.stdout.strip().splitlines()[-1]
        return self.lib[variant]

    def cc(self, src, variant="asan", extra=(), out=None, link_lib=True):
        """compile a harness against the freshly built archive"""
        lib = self.build_lib(variant) if link_lib else None
        out = out or os.path.join(self.work, os.path.splitext(os.path.basename(src))[0] + "." + variant)
        if variant == "asan":
            cc, fl = "clang-14", ["-O1", "-g", "-fno-omit-frame-pointer", "-fsanitize=address,undefined",
                                  "-fno-sanitize-recover=undefined"]
        elif variant == "tsan":
            cc, fl = "clang-14", ["-O1", "-g", "-fno-omit-frame-pointer", "-fsanitize=thread"]
        else:
            cc, fl = "gcc", ["-O1", "-g"]
        cmd = [cc] + fl + ["-w", "-DHAVE_CONFIG_H", "-D_GNU_SOURCE", "-DLIBQB_VERIF", "-pthread",
                           "-I%s/include" % REPO, "-I%s/include/qb" % REPO, "-I%s/lib" % REPO,
                           "-I%s/common" % HARNESS, src if os.path.isabs(src) else os.path.join(HARNESS, src)]
        cmd += list(extra)
        if lib:
            cmd += [lib]
        cmd += ["-o", out, "-lpthread", "-ldl", "-lrt"]
        p = subprocess.run(cmd, stdout=subprocess.PIPE, stderr=subprocess.STDOUT, text=True)
        if p.returncode != 0:
            raise Infra("harness build failed: %s\n%s" % (" ".join(cmd), p.stdout[-4000:]))
        self.exe_src = getattr(self, "exe_src", {})
        self.exe_src[out] = {"src": src, "variant": variant, "extra": list(extra)}
        return out

    def cfg(self, name, text):
        """write a generated TLC configuration into the work directory"""
        path = os.path.join(self.work, name)
        with open(path, "w") as f:
            f.write(text)
        return path

    # ------------------------------------------------------------------ TLC
    def _tlc(self, module, cfg, workers, extra=(), env=None, timeout=3600, jvm=(), tag=None):
        tag = tag or (os.path.splitext(os.path.basename(cfg))[0])
        meta = os.path.join(self.work, "tlc", tag + "-%d" % int(time.time() * 1000 % 1e9))
        os.makedirs(meta, exist_ok=True)
        cmd = ["java", "-XX:+UseParallelGC"] + list(jvm) + ["-cp", TLA_CP, "tlc2.TLC", "-workers", str(workers),
               "-metadir", meta, "-noGenerateSpecTE", "-config", cfg] + list(extra) + [module]
        e = dict(os.environ)
        e.pop("JAVA_TOOL_OPTIONS", None)
        if env:
            e.update(env)
        t = time.time()
        try:
            p = subprocess.run(cmd, cwd=SPEC, env=e, stdout=subprocess.PIPE, stderr=subprocess.STDOUT,
                               text=True, timeout=timeout)
            out, rc = p.stdout, p.returncode
        except subprocess.TimeoutExpired as ex:
            out = (ex.stdout.decode() if isinstance(ex.stdout, bytes) else (ex.stdout or "")) + "\nTLC TIMEOUT\n"
            rc = 124
        shutil.rmtree(meta, ignore_errors=True)
        return TlcOut(rc, out, time.time() - t, cmd)

    def model_check(self, module, cfg, workers=None, timeout=3600, jvm=("-Xmx8g",), expect_violation=None,
                    extra=(), count=True):
        """BFS design check with -coverage; returns TlcOut.  Invariant violation -> ctx violation
        unless expect_violation names the invariant (used by known-finding reproducer configs)."""
        workers = workers or NCPU
        r = self._tlc(module, os.path.join(SPEC, cfg), workers, extra=["-coverage", "1"] + list(extra),
                      timeout=timeout, jvm=jvm)
        r.parse()
        self.log("TLC %s/%s: %d distinct states, %d generated, depth %s, %.1fs, rc=%d%s" % (
            module, cfg, r.distinct, r.generated, r.depth, r.wall, r.rc,
            (" VIOLATED " + str(r.violated)) if r.violated else ""))
        if r.rc not in (0, 12, 13) or r.infra_error:
            raise Infra("TLC failed on %s/%s (rc=%d):\n%s" % (module, cfg, r.rc, r.out[-6000:]))
        if count:
            self.cov["states"] += r.distinct
            self.cov["transitions"] += r.generated
            self.cov["model_runs"].append({"module": module, "cfg": cfg, "distinct_states": r.distinct,
                                           "states_generated": r.generated, "depth": r.depth,
                                           "wall_s": round(r.wall, 1), "violated": r.violated,
                                           "actions": r.actions})
            for a, n in r.actions.items():
                self.cov["actions_covered"][a] = self.cov["actions_covered"].get(a, 0) + n
        if r.violated and (expect_violation is None or r.violated != expect_violation):
            path = self.save("model-violation-%s.txt" % cfg, r.out)
            self.violation("model %s/%s violates %s" % (module, cfg, r.violated), path)
        return r

    def check_vacuity(self, r, required_actions):
        """every named action must have been taken at least once"""
        def cnt(a):
            alts = [a, "A" + a] + ([a[1:]] if a.startswith("A") else [])
            return max(r.actions.get(x, 0) for x in alts)
        missing = [a for a in required_actions if cnt(a) == 0]
        if missing:
            raise Infra("vacuous model run: actions never taken: %s" % missing)

    def generate(self, module, cfg, mode="bfs", num=1000, depth=20, workers=None, timeout=1800,
                 consts=None, jvm=("-Xmx8g",), tag=None):
        """Run a *Gen module whose constraint PrintT's <<"GEN", ToJson(hist)>> ; returns list of histories."""
        workers = workers or min(NCPU, 8)
        extra = []
        if mode == "simulate":
            extra = ["-simulate", "num=%d" % max(1, num // workers), "-depth", str(depth), "-seed", str(self.seed)]
        env = {}
        if consts:
            env.update({k: str(v) for k, v in consts.items()})
        r = self._tlc(module, os.path.join(SPEC, cfg), workers, extra=extra, env=env, timeout=timeout, jvm=jvm,
                      tag=tag)
        r.parse()
        if (r.rc not in (0,) and not (mode == "simulate" and r.rc in (0, 124))) or r.infra_error:
            raise Infra("TLC generation failed on %s/%s (rc=%d):\n%s" % (module, cfg, r.rc, r.out[-6000:]))
        hs = []
        seen = set()
        for m in re.finditer(r'^<<\s*"GEN",\s*"((?:[^"\\\n]|\\.)*)"\s*>>', r.out, re.M):
            s = m.group(1)
            if s in seen:
                continue
            seen.add(s)
            hs.append(json.loads(json.loads('"' + s + '"')))
        self.log("generated %d distinct histories from %s/%s (%s, %.1fs)" % (len(hs), module, cfg, mode, r.wall))
        return hs

    def validate(self, module, cfg, trace_path, timeout=1800, jvm=("-Xmx3g",), env=None, dfs=False):
        """Trace validation of one ndjson file.  Returns Validation: accepted / rejected at event
        matched+1 / invariant violated.  Anything else is an infrastructure error."""
        e = {"TRACE": trace_path}
        if env:
            e.update(env)
        j = list(jvm) + ["-Xss64m"]
        if dfs:
            j.append("-Dtlc2.tool.queue.IStateQueue=StateDeque")
        for attempt in range(3):
            r = self._tlc(module, os.path.join(SPEC, cfg), 1, env=e, timeout=timeout, jvm=j,
                          tag="val-" + os.path.basename(trace_path))
            r.parse()
            decided = (r.rc == 0 and "No error has been found" in r.out) or \
                re.search(r"Postcondition TraceAccepted .* is false|Invariant (\S+) is violated|Action property (\S+) is violated", r.out)
            if decided:
                break
            time.sleep(2 + 3 * attempt)     # JVM start-up / resource failure under load: try again
        v = Validation()
        v.total = sum(1 for _ in open(trace_path))
        v.out = r.out
        v.wall = r.wall
        m = re.search(r"VALIDATION matched=(\d+)", r.out)
        v.matched = int(m.group(1)) if m else max(0, (r.depth or 1) - 1)
        if r.rc == 0 and "No error has been found" in r.out:
            v.accepted = True
        elif re.search(r"Invariant (\S+) is violated", r.out) or re.search(r"Action property (\S+) is violated", r.out):
            v.accepted = False
            v.violated = r.violated
        elif re.search(r"Postcondition TraceAccepted .* is false", r.out):
            v.accepted = False
        else:
            dump = self.save("infra-%s.txt" % os.path.basename(trace_path), r.out)
            errs = [x for x in r.out.splitlines() if "rror" in x or "xception" in x][:6]
            raise Infra("TLC trace validation infrastructure failure (rc=%d) on %s (full output %s):\n%s" % (
                r.rc, trace_path, dump, "\n".join(errs)))
        return v

    def exec_validate(self, exe, histories, to_lines, module, cfg, nshards=None, label="gen",
                      reset_line="Reset", harness_args=(), env=None, timeout=900, classify=None, max_report=8):
        """spec->code->spec: run each history (list of ops) on the real code through harness `exe`
        (schedule file in, ndjson out), then validate the recorded events with TLC.
        A rejected history is re-run alone to confirm and is reported (or matched against a
        known finding by `classify(history, events, failing_index) -> kf_id or None`);
        the rest of its shard is then validated without it, so one defect hides nothing else."""
        from concurrent.futures import ThreadPoolExecutor
        if not histories:
            return 0
        nshards = nshards or min(NCPU, max(1, len(histories) // 50))
        shards = shard(list(range(len(histories))), nshards)
        accepted_total = [0]
        skipped = [0]
        reports = []

        def run_shard(si, idxs, tagx=""):
            sched = os.path.join(self.work, "%s-%d%s.sched" % (label, si, tagx))
            tr = os.path.join(self.work, "%s-%d%s.ndjson" % (label, si, tagx))
            with open(sched, "w") as f:
                for k, hi in enumerate(idxs):
                    if k:
                        f.write(reset_line + "\n")
                    for ln in to_lines(histories[hi]):
                        f.write(ln + "\n")
            rc, so, se = self.run([exe, sched, tr] + list(harness_args), timeout=timeout, env=env)
            return sched, tr, rc, so, se

        def split_events(tr):
            """events per history (split at Reset events)"""
            per = [[]]
            for line in open(tr):
                if '"e":"Reset"' in line:
                    per.append([])
                else:
                    per[-1].append(line)
            return per

        def work(si):
            idxs = list(shards[si])
            rounds = 0
            while idxs and rounds < 6:
                rounds += 1
                sched, tr, rc, so, se = run_shard(si, idxs, "" if rounds == 1 else "r%d" % rounds)
                per = split_events(tr) if os.path.exists(tr) else [[]]
                crashed = rc != 0
                if crashed:
                    # harness died (sanitizer report / signal): the history being executed is the culprit
                    bad = min(len(per) - 1, len(idxs) - 1)
                    reports.append((idxs[bad], "harness exit %d: %s" % (rc, (se or so)[-1500:]), list(idxs[:bad + 1])))
                    good = idxs[:bad]
                    rest = idxs[bad + 1:]
                    # validate what completed before the crash
                    if good:
                        sched2, tr2, rc2, _, se2 = run_shard(si, good, "g%d" % rounds)
                        if rc2 == 0:
                            v = self.validate(module, cfg, tr2)
                            if v.accepted:
                                accepted_total[0] += len(good)
                            else:
                                rest = good + rest   # fall through to generic path next round
                    idxs = rest
                    continue
                v = self.validate(module, cfg, tr)
                if v.accepted:
                    accepted_total[0] += len(idxs)
                    return
                # locate failing history: event number matched+1 (1-based) in the file
                n = 0
                bad = None
                cnt = 0
                for k, evs in enumerate(per):
                    span = len(evs) + (1 if k else 0)      # the Reset line belongs to history k
                    if v.matched + 1 <= cnt + span:
                        bad = k
                        break
                    cnt += span
                if bad is None:
                    bad = len(per) - 1
                reports.append((idxs[bad], "trace rejected at event %d of history (%s)" % (
                    v.matched + 1 - cnt - (1 if bad else 0), v.violated or "no enabled spec action matches the recorded call/result"),
                    list(idxs[:bad + 1])))
                accepted_total[0] += bad
                idxs = idxs[bad + 1:]
            if idxs and rounds >= 6:
                skipped[0] += len(idxs)      # too many failing histories in this shard: the remainder was not examined

        t_ev = time.time()
        with ThreadPoolExecutor(max_workers=min(NCPU, len(shards))) as ex:
            list(ex.map(work, range(len(shards))))
        self.log("%s: executed+validated %d histories in %d shards, %.1fs, %d rejected" % (
            label, len(histories), len(shards), time.time() - t_ev, len(reports)))

        # confirm each report by re-running that history alone; if it only fails after the histories that preceded it in
        # its process (library state that survives the harness's Reset), confirm it in that context instead: the shortest
        # suffix of the preceding histories (1, 3, 7, ... of them) that reproduces the rejection in the last history
        def run_ctx(hs_idx, tag):
            sched = os.path.join(self.work, "%s-confirm-%s.sched" % (label, tag))
            tr = os.path.join(self.work, "%s-confirm-%s.ndjson" % (label, tag))
            with open(sched, "w") as f:
                for k, hi2 in enumerate(hs_idx):
                    if k:
                        f.write(reset_line + "\n")
                    for ln in to_lines(histories[hi2]):
                        f.write(ln + "\n")
            rc, so, se = self.run([exe, sched, tr] + list(harness_args), timeout=timeout if len(hs_idx) > 1 else 120, env=env)
            v = self.validate(module, cfg, tr) if rc == 0 else None
            return sched, tr, rc, se, v

        nrep = 0
        nctx = 0
        for hi, why, context in reports:
            h = histories[hi]
            sched, tr, rc, se, v = run_ctx([hi], str(hi))
            confirmed = True
            lines_out = to_lines(h)
            evs = [json.loads(x) for x in open(tr)] if os.path.exists(tr) else []
            fail_at = None
            if rc == 0:
                confirmed = not v.accepted
                fail_at = v.matched
                if v.violated:
                    why += " [" + v.violated + "]"
            if not confirmed and context and len(context) > 1 and nctx < 4:
                nctx += 1
                k = 1
                while not confirmed:
                    part = context[-(k + 1):]
                    sched, tr, rc, se, v = run_ctx(part, "%d-ctx%d" % (hi, k))
                    if rc != 0 or not v.accepted:
                        confirmed = True
                        why += " -- only after the %d histories that preceded it in the same process (the replay file holds them all)" % (len(part) - 1)
                        lines_out = []
                        for j, hi2 in enumerate(part):
                            lines_out += ([reset_line] if j else []) + list(to_lines(histories[hi2]))
                        evs, fail_at = [], None
                        break
                    if len(part) >= len(context):
                        break
                    k = 2 * k + 1
            if not confirmed:
                self.notes.append("unconfirmed rejection dropped (history %d): %s" % (hi, why))
                accepted_total[0] += 1
                continue
            kf = classify(h, evs, fail_at, rc, se) if classify else None
            if kf:
                self.known(kf, "")
                continue
            nrep += 1
            if nrep <= max_report:
                d = self.save("%s-%d.sched" % (label, hi), "\n".join(lines_out) + "\n")
                if os.path.exists(tr):
                    self.save_file(tr, "%s-%d.ndjson" % (label, hi))
                self.save("%s-%d.why.txt" % (label, hi), why + "\n" + (se or "")[-3000:])
                cfgp = cfg if os.path.isabs(cfg) else os.path.join(SPEC, cfg)
                info = dict(getattr(self, "exe_src", {}).get(exe, {}), harness_args=list(harness_args), module=module,
                            cfg_text=open(cfgp).read(), env=env or {}, property=self.pid)
                self.save("%s-%d.sched.replay.json" % (label, hi), json.dumps(info, indent=1))
                self.violation(why.split("\n")[0][:300], d)
        self.cov["traces_validated_against_impl"] += accepted_total[0]
        if skipped[0]:
            self.cov["histories_not_examined"] = self.cov.get("histories_not_examined", 0) + skipped[0]
            self.notes.append("%s: %d histories were not examined (more than 6 failing histories in a shard)" % (label, skipped[0]))
            if not reports or all(True for _ in reports) and nrep == 0:
                # nothing was confirmed, yet shards kept failing: that is a machinery problem, not a verdict
                raise Infra("%s: %d histories could not be examined and no rejection was confirmed (harness / TLC failing repeatedly)" % (label, skipped[0]))
        return accepted_total[0]

    # -------------------------------------------------------------- running
    def run(self, cmd, timeout=600, env=None, cwd=None, stdin=None):
        e = dict(os.environ)
        e.setdefault("ASAN_OPTIONS", "detect_leaks=0:abort_on_error=0:exitcode=99:allocator_may_return_null=1")
        e.setdefault("UBSAN_OPTIONS", "print_stacktrace=1:halt_on_error=1:exitcode=98")
        if env:
            e.update(env)
        try:
            p = subprocess.run(cmd, cwd=cwd or self.work, env=e, stdout=subprocess.PIPE, stderr=subprocess.PIPE,
                               text=True, timeout=timeout, input=stdin, errors="replace")
            return p.returncode, p.stdout, p.stderr
        except subprocess.TimeoutExpired as ex:
            so = ex.stdout.decode(errors="replace") if isinstance(ex.stdout, bytes) else (ex.stdout or "")
            se = ex.stderr.decode(errors="replace") if isinstance(ex.stderr, bytes) else (ex.stderr or "")
            return 124, so, se + "\nTIMEOUT"

    def save(self, name, text):
        d = os.path.join(VERIF, "build", "replay", self.pid + os.environ.get("VERIF_WORKTAG", ""))
        os.makedirs(d, exist_ok=True)
        path = os.path.join(d, name)
        with open(path, "w") as f:
            f.write(text)
        return path

    def save_file(self, src, name=None):
        d = os.path.join(VERIF, "build", "replay", self.pid + os.environ.get("VERIF_WORKTAG", ""))
        os.makedirs(d, exist_ok=True)
        path = os.path.join(d, name or os.path.basename(src))
        shutil.copyfile(src, path)
        return path

    # ------------------------------------------------------------- findings
    def violation(self, what, replay):
        self.violations.append((what, replay))
        self.log("VIOLATION candidate:", what, "replay=" + str(replay))

    def known(self, kf_id, what):
        self.known_hits.append((kf_id, what))

    def sample(self, s):
        if len(self.cov["samples"]) < 12:
            self.cov["samples"].append(s)

    # ------------------------------------------------------------- evidence
    def finish(self, level="model_checking", extra_cov=None, exhaustive=None):
        cov = self.cov
        if extra_cov:
            cov.update(extra_cov)
        if exhaustive is not None:
            cov["exhaustive"] = exhaustive
        if not cov["samples"]:
            cov["samples"] = ["(no sample recorded)"]
        ev = {"property_id": self.pid, "tier": self.tier, "seed": self.seed, "level": level, "coverage": cov,
              "assumptions": self.assumptions, "wall_s": round(time.time() - self.t0, 1),
              "violations": len(self.violations), "known_findings_reconfirmed": [k for k, _ in self.known_hits],
              "notes": self.notes}
        # checks beyond the listed properties (ids X..) keep their evidence apart from evidence/<property id>.json
        evdir = os.environ.get("VERIF_EVIDENCE", os.path.join(VERIF, "evidence" if not self.pid.startswith("X") else "evidence_extra"))
        os.makedirs(evdir, exist_ok=True)
        with open(os.path.join(evdir, self.pid + ".json"), "w") as f:
            json.dump(ev, f, indent=1, sort_keys=True)
        for k, what in self.known_hits:
            print("KNOWN-FINDING: property=%s %s %s" % (self.pid, k, what), flush=True)
        shutil.rmtree(self.work, ignore_errors=True)
        if self.violations:
            for what, replay in self.violations[:20]:
                print("VIOLATION property=%s replay=%s  (%s)" % (self.pid, replay, what), flush=True)
            return 1
        print("OK property=%s tier=%s states=%d traces=%d wall=%.1fs" % (
            self.pid, self.tier, cov["states"], cov["traces_validated_against_impl"], time.time() - self.t0), flush=True)
        return 0


class Validation:
    accepted = False
    matched = 0
    total = 0
    violated = None
    out = ""
    wall = 0.0


class TlcOut:
    def __init__(self, rc, out, wall, cmd):
        self.rc, self.out, self.wall, self.cmd = rc, out, wall, cmd
        self.distinct = self.generated = 0
        self.depth = None
        self.violated = None
        self.actions = {}
        self.infra_error = False

    def parse(self):
        o = self.out
        m = re.findall(r"(\d+) states generated, (\d+) distinct states found", o)
        if m:
            self.generated, self.distinct = int(m[-1][0]), int(m[-1][1])
        if not m:
            ms = re.search(r"The number of states generated: (\d+)", o)
            if ms:      # simulation mode: states visited by random walks (not deduplicated)
                self.generated = self.distinct = int(ms.group(1))
        m = re.search(r"depth of the complete state graph search is (\d+)", o)
        if m:
            self.depth = int(m.group(1))
        m = re.search(r"Invariant (\S+) is violated", o)
        if m:
            self.violated = m.group(1)
        m2 = re.search(r"(?:Temporal properties were violated|Action property (\S+) is violated|property (\S+) (?:is|was) violated)", o)
        if m2 and not self.violated:
            self.violated = m2.group(1) or m2.group(2) or "TemporalProperty"
        if re.search(r"Deadlock reached", o) and not self.violated:
            self.violated = "Deadlock"
        pm = re.search(r"Postcondition (\S+) .* is false", o)
        if pm and not self.violated:
            self.violated = "Post:" + pm.group(1)
        # coverage: "<Action line .. of module M>: distinct:generated"
        for mm in re.finditer(r"^<(\w+) line \d+, col \d+ to line \d+, col \d+ of module (\w+)(?: \([\d ]+\))?>: (\d+):(\d+)", o, re.M):
            name, dist, gen = mm.group(1), int(mm.group(3)), int(mm.group(4))
            self.actions[name] = self.actions.get(name, 0) + gen
        if re.search(r"Parsing or semantic analysis failed|java\.lang\.\w*Error|Exception in thread|TLC threw an unexpected exception|was unable to|Unknown operator|The exception was a", o):
            if not self.violated:
                self.infra_error = True
        if self.rc in (150, 151, 152, 153, 255, 1, 75) and not self.violated:
            self.infra_error = True
        return self


def shard(items, n):
    n = max(1, min(n, len(items)))
    out = [[] for _ in range(n)]
    for i, x in enumerate(items):
        out[i % n].append(x)
    return out


def load_known():
    p = os.path.join(VERIF, "known_findings.jsonl")
    out = []
    if os.path.exists(p):
        for line in open(p):
            line = line.strip()
            if line and not line.startswith("#"):
                out.append(json.loads(line))
    return out


def main(checks):
    import argparse
    ap = argparse.ArgumentParser()
    ap.add_argument("pid")
    ap.add_argument("--tier", default=os.environ.get("VERIF_TIER", "quick"))
    ap.add_argument("--seed", type=int, default=int(os.environ.get("VERIF_SEED", "1") or 1))
    ap.add_argument("--replay", default=None)
    a = ap.parse_args()
    if a.tier not in ("quick", "thorough"):
        a.tier = "quick"
    if a.pid not in checks:
        print("unknown property", a.pid, file=sys.stderr)
        return 2
    if a.replay:
        return replay(a.pid, a.replay)
    ctx = Ctx(a.pid, a.tier, a.seed)
    try:
        checks[a.pid](ctx)
        return ctx.finish()
    except Infra as e:
        print("INFRA-ERROR property=%s: %s" % (a.pid, e), file=sys.stderr, flush=True)
        return 2


def replay(pid, path):
    """bin/check <ID> --replay <saved .sched>: rebuild the harness from /repo's working tree, run that one history, validate it."""
    path = os.path.abspath(path)
    info_p = path + ".replay.json"
    if not os.path.exists(info_p):
        print("no replay information next to %s" % path)
        return 2
    info = json.load(open(info_p))
    os.environ["VERIF_WORKTAG"] = os.environ.get("VERIF_WORKTAG", "") + "replay%d" % os.getpid()
    ctx = Ctx(pid, "quick", 1)
    try:
        exe = ctx.cc(info["src"], info.get("variant", "asan"), extra=info.get("extra", ()))
        cfg = ctx.cfg("replay.cfg", info["cfg_text"])
        tr = os.path.join(ctx.work, "replay.ndjson")
        rc, so, se = ctx.run([exe, path, tr] + info.get("harness_args", []), timeout=300, env=info.get("env") or None)
        print(open(path).read())
        if os.path.exists(tr):
            print("--- recorded events")
            print(open(tr).read())
        if rc != 0:
            print("--- harness exit %d\n%s" % (rc, (se or so)[-3000:]))
            print("VIOLATION property=%s replay=%s" % (pid, path))
            return 1
        v = ctx.validate(info["module"], cfg, tr)
        if v.accepted:
            print("--- accepted by %s" % info["module"])
            return 0
        print("--- rejected at event %d (%s)" % (v.matched + 1, v.violated or "no enabled spec action matches"))
        print("VIOLATION property=%s replay=%s" % (pid, path))
        return 1
    finally:
        shutil.rmtree(ctx.work, ignore_errors=True)
