"""C02 -- IPC: requests, responses and events arrive exactly once, in order, intact; a failed send has no
effect; the client's descriptor is readable while events are queued.
Spec: spec/IpcMsg.tla (+ IpcMsgMC / IpcMsgGen / IpcMsgTrace), harness/h_ipc_step.c.  DESIGN.md section 4 (C02).

The oracle is IpcMsg.tla evaluated by TLC on the recorded events.  This driver only builds, picks seeds,
turns TLC-generated histories into schedule lines and moves files."""
import json, os, random, re, glob, shutil
from vlib import core
from vlib.checks import ipcgen

W = int(os.environ.get("VERIF_WORKERS", "4") or 4)

# Recorded findings: (harness switch that leaves exactly the trigger out, reproducers, text).
KF = {
    "KF-C02-1": ("--kf-skip1", [ipcgen.kf1_repro("shm")],
                 "shm: with event notifications deferred (notification socket full) the client can consume every "
                 "notification byte before the server handles POLLOUT: poll() on qb_ipcc_fd_get() is not readable "
                 "although events are queued (600 x qb_ipcs_event_send, then qb_ipcc_event_recv until -EAGAIN: 278 delivered, "
                 "322 events still queued, descriptor not readable until the server's next POLLOUT dispatch)"),
    "KF-C02-2": ("--kf-skip2", [ipcgen.kf2_repro(tr, call) for tr in ("shm", "sock") for call in ("SEventv", "SResp", "SRespv")],
                 "qb_ipcs_response_send, qb_ipcs_response_sendv and qb_ipcs_event_sendv accept a message longer than the "
                 "negotiated maximum (only qb_ipcs_event_send checks): with a receive buffer of the negotiated size the "
                 "shm client gets -ENOBUFS for this and every later message of that channel; the socket client is "
                 "handed more bytes than its buffer holds"),
}


def build(ctx):
    """libqb from the working tree (ASan+UBSan, hooks on) WITHOUT the alignment check: the request ring hands
    msg_process 4-byte aligned headers whose type asks for 8 (lib/ipcs.c:692, reported separately; not C02)."""
    out = os.path.join(ctx.work, "asan-noalign")
    os.makedirs(os.path.join(out, "obj"), exist_ok=True)
    repo = core.REPO
    script = r'''
set -e
SRCS=$(sed -n '/^source_to_lint/,/^$/p' "%(repo)s/lib/Makefile.am" | tr -d '\\' | sed 's/source_to_lint[ \t]*=//' | tr -s ' \t\n' ' ')
SRCS="$SRCS unix.c loop_poll_epoll.c strlcpy.c strlcat.c"
for s in $SRCS; do [ -f "%(repo)s/lib/$s" ] && echo $s; done | xargs -P 8 -I{} clang-14 -O1 -g -fno-omit-frame-pointer \
  -fsanitize=address,undefined -fno-sanitize-recover=undefined -fno-sanitize=alignment -w -DHAVE_CONFIG_H -D_GNU_SOURCE \
  -DLIBQB_VERIF -pthread -I%(repo)s/include -I%(repo)s/include/qb -I%(repo)s/lib -I%(h)s/common -c %(repo)s/lib/{} -o %(out)s/obj/{}.o
ar rcs %(out)s/libqb_verif.a %(out)s/obj/*.o
''' % {"repo": repo, "out": out, "h": core.HARNESS}
    rc, so, se = ctx.run(["bash", "-c", script], timeout=600)
    if rc != 0:
        raise core.Infra("libqb build (asan, no alignment check) failed:\n" + (se or so)[-3000:])
    return ctx.cc("h_ipc_step.c", "asan", extra=["-fno-sanitize=alignment", os.path.join(out, "libqb_verif.a")], link_lib=False)


def clean_shm(ctx):
    """the harness works in a private /dev/shm (mount namespace), so even a killed run leaves nothing behind.  Only if
    that is impossible here (not root) do its files land in the shared /dev/shm: remove those of processes that are gone."""
    rc, _, _ = ctx.run(["unshare", "-m", "true"], timeout=20)
    if rc == 0:
        return
    ctx.notes.append("/dev/shm could not be made private: leftovers of dead processes were removed after the run")
    for d in glob.glob("/dev/shm/qb-*-*-*-*"):
        m = re.match(r"/dev/shm/qb-(\d+)-(\d+)-", d)
        if m and not os.path.exists("/proc/" + m.group(1)) and not os.path.exists("/proc/" + m.group(2)):
            shutil.rmtree(d, ignore_errors=True)


def to_program(h):
    """TLC history (IpcMsgGen) -> schedule lines: the calls made inside one msg_process invocation become a
    'Cb <ret> <calls>' line placed before the SPoll that runs it"""
    out, i = [], 0
    while i < len(h):
        op = h[i]
        if op[0] != "SPoll":
            out.append(" ".join(op))
            i += 1
            continue
        scripts, curr, j = [], None, i + 1
        while j < len(h) and h[j][0] != "DispEnd":
            e = h[j]
            if e[0] == "CbBegin":
                curr = []
            elif e[0] == "CbEnd":
                scripts.append("Cb %s %s" % (e[1], " ; ".join(curr or [])))
                curr = None
            elif curr is not None:
                curr.append(" ".join(e))
            j += 1
        if curr is not None:
            scripts.append("Cb 0 " + " ; ".join(curr))
        out += scripts + ["SPoll"]
        i = j + 1
    return out + ["SRate 1", "CFcMax 1", "Until 60 SPoll", "Until 700 CEvRecv", "Until 700 CRecv"]


def gen(ctx, cfg, how, depth, num=0, tag=""):
    extra = []
    workers = W
    if how == "simulate":
        workers = 1       # every worker would draw the same walks
        extra = ["-simulate", "num=%d" % num, "-depth", str(depth + 3), "-seed", str(ctx.seed)]
    r = ctx._tlc("IpcMsgGen.tla", os.path.join(core.SPEC, cfg), workers, extra=extra, env={"DEPTH": str(depth)},
                 timeout=1500, jvm=("-Xmx8g",), tag="gen" + tag)
    r.parse()
    if (r.rc != 0 and not (how == "simulate" and r.rc == 124)) or r.infra_error:
        raise core.Infra("TLC generation failed (rc=%d):\n%s" % (r.rc, r.out[-4000:]))
    seen, hs = set(), []
    for m in re.finditer(r'^"GEN (.*)"$', r.out, re.M):
        if m.group(1) not in seen:
            seen.add(m.group(1))
            hs.append(json.loads(json.loads('"' + m.group(1) + '"')))
    ctx.log("generated %d distinct histories from IpcMsgGen/%s (%s, depth %d, %.1fs)" % (len(hs), cfg, how, depth, r.wall))
    return hs


def probe(ctx, exe):
    """which recorded findings does the implementation under test still have?  (directed reproducers, nothing skipped)
    returns (harness switches, trace configuration).  KF-C02-1 is not skipped: while it reproduces, runs are validated with
    the invariant Readable replaced by ReadableExceptKF1 (exactly the recorded state excepted), so what the connection does
    in and after that state is still checked -- in particular that handling POLLOUT makes the descriptor readable again."""
    status = {k["id"]: k.get("status") for k in core.load_known()}
    skip, cfg = [], "IpcMsgTrace.cfg"
    for kfid in sorted(KF):
        flag, scheds, what = KF[kfid]
        failing = False
        for i, lines in enumerate(scheds):
            s = os.path.join(ctx.work, "%s-%d.sched" % (kfid, i))
            t = os.path.join(ctx.work, "%s-%d.ndjson" % (kfid, i))
            open(s, "w").write("\n".join(lines) + "\n")
            rc, so, se = ctx.run([exe, s, t], timeout=120)
            if rc != 0 or not ctx.validate("IpcMsgTrace.tla", "IpcMsgTrace.cfg", t).accepted:
                failing = True
                if kfid == "KF-C02-1" and (rc != 0 or not ctx.validate("IpcMsgTrace.tla", "IpcMsgTrace_kf1.cfg", t).accepted):
                    p = ctx.save(kfid + "-beyond.sched", "\n".join(lines) + "\n")
                    ctx.violation("the reproducer of %s is rejected even with the recorded state excepted: a different violation" % kfid, p)
                break
        if not failing:
            ctx.notes.append("%s no longer reproduces: its trigger is not excluded" % kfid)
            continue
        if status.get(kfid) == "fixed":
            p = ctx.save(kfid + ".sched", "\n".join(scheds[0]) + "\n")
            ctx.violation("%s is recorded as fixed but its reproducer is rejected again" % kfid, p)
        else:
            ctx.known(kfid, what)
        if kfid == "KF-C02-1":
            cfg = "IpcMsgTrace_kf1.cfg"
        else:
            skip.append(flag)
    return skip, cfg


def run(ctx):
    q = ctx.quick
    exe = build(ctx)

    # (1) design check: every reachable state of the bounded model satisfies the property
    #     (outside the recorded trigger KF1; the as-found configuration must still show it)
    r = ctx.model_check("IpcMsgMC.tla", "IpcMsgMC.cfg" if q else "IpcMsgMC_thorough.cfg", workers=W, timeout=1500)
    ctx.check_vacuity(r, ["ACSend", "ACStall", "ACResume", "ACRecv", "ACEvRecv", "ACSendvRecv", "ACFcMax", "ASResp", "ASEvent", "ASRate",
                          "ADispBegin", "ACbBegin", "ACbEnd", "ADispEnd"])
    ra = ctx.model_check("IpcMsgMC.tla", "IpcMsgMC_asfound.cfg", workers=W, timeout=600, expect_violation="Readable", count=False)
    if ra.violated != "Readable":
        ctx.notes.append("model-level reproducer of KF-C02-1 (IpcMsgMC_asfound.cfg) no longer violates Readable")

    # (2) recorded findings still present? -> leave exactly their triggers out of the generated runs
    skip, tcfg = probe(ctx, exe)
    ctx.log("harness switches:", skip or "none", "; trace configuration:", tcfg)

    # (3) spec -> code: TLC-generated call sequences (all of a small depth over a small alphabet, then long random walks)
    hs = [to_program(h) for h in gen(ctx, "IpcMsgGen.cfg", "bfs", 3 if q else 5, tag="-bfs")]
    n_bfs = len(hs)
    hs += [to_program(h) for h in gen(ctx, "IpcMsgGen_sim.cfg", "simulate", 40 if q else 60, num=600 if q else 8000, tag="-sim")]
    n_sim = len(hs) - n_bfs
    # (4) code -> spec: directed scenarios and seeded random programs (bursts until the ring / the sockets refuse,
    #     flow control and rate limit toggled mid-stream, deferred notifications)
    progs = ipcgen.directed()
    n_dir = len(progs)
    rng = random.Random(ctx.seed * 7919 + 2)
    for prof, nq, nt in (("mix", 120, 3000), ("reqburst", 30, 600), ("big", 80, 1600), ("evburst", 10, 160)):
        progs += [ipcgen.program(rng, prof) for _ in range(nq if q else nt)]
    ctx.sample({"generated_history": hs[n_bfs][:30] if n_sim else hs[0]})
    ctx.sample({"directed_program": progs[n_dir - 3]})
    ctx.sample({"random_program": progs[n_dir][:40]})
    allp = hs + progs
    ctx.log("%d histories: %d TLC exhaustive, %d TLC random walks, %d directed, %d seeded random programs" % (
        len(allp), n_bfs, n_sim, n_dir, len(progs) - n_dir))
    # long histories last in each shard would serialise badly: interleave by shuffling with the seed
    order = list(range(len(allp)))
    random.Random(ctx.seed).shuffle(order)
    allp = [allp[i] for i in order]
    ctx.exec_validate(exe, allp, lambda p: p, "IpcMsgTrace.tla", tcfg, label="c02", harness_args=skip,
                      nshards=W if q else 2 * W, timeout=1500)
    clean_shm(ctx)
    ctx.cov.update({"histories_tlc_exhaustive": n_bfs, "histories_tlc_exhaustive_depth": 3 if q else 5,
                    "histories_tlc_random_walk": n_sim, "programs_directed": n_dir,
                    "programs_random": len(progs) - n_dir, "exhaustive": True})
    ctx.assumptions += [
        "one process, one thread: server and client calls are interleaved at call granularity (plus client calls placed inside "
        "msg_process, standing for the concurrently running client); interleavings INSIDE a library call of the other side are not executed "
        "(the rings' word-level interleavings are C01's subject)",
        "zero timeouts on every client call; the client's buffers have exactly the negotiated size (qb_ipcc_get_buffer_size)",
        "a top-level qb_ipcc_send/sendv whose notification byte is refused (socket full) is resolved as in a real system: the harness's send() "
        "records CStall and runs the server's dispatch function before the library retries; inside msg_process and for sendv_recv at most 200 "
        "requests are left undispatched so that the spin cannot arise there",
        "channel capacities are the real ones (rings / socket buffers for max_msg_size 12328..20001); when a send to a NON-empty channel is refused is left open by the property and by the spec",
        "projection read by the harness: queue lengths (funcs.q_len_get), FIONREAD on both ends of the set-up socket, "
        "outstanding_notifiers, the events registered through dispatch_mod, poll() on both descriptors, the flow-control word",
        "libqb is compiled without UBSan's alignment check for this harness (misaligned request headers in the shm ring, lib/ipcs.c:692, are not C02's subject)",
        "while KF-C02-1 reproduces, runs are validated with Readable replaced by ReadableExceptKF1 (the recorded state excepted, nothing skipped); "
        "steps falling under a recorded finding with a harness switch (--kf-skip2) are left out of generated runs while it reproduces; each finding has a directed reproducer",
        "bounded model: see model_runs constants",
    ]
