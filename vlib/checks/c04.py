"""C04 -- IPC server: callback order accept, created, msg*, closed*, destroyed; lifetime; no use of freed state.
Spec: spec/IpcLife.tla (property level, trace validation), spec/IpcLifeMC.tla (closed model of lib/ipcs.c's
life-cycle code with IpcLife as monitor).  Harness: harness/h_ipc_life.c (one process, one thread, real qb_ipcs
service on both transports, the harness's own poll-handler table, ASan)."""
import os, random, re
from vlib import core
from vlib.checks import ipclifegen as gen

ALL = [1, 2, 3, 4, 5, 6, 7]
# model-level names: 5 (send on a torn-down socket connection) is the same model defect as 4 (use of a torn-down transport)
MODEL = {1: 1, 2: 2, 3: 3, 4: 4, 5: 4, 6: 6, 7: 7}
WHAT = {
    1: "qb_ipcs_disconnect (also via qb_ipcs_destroy or the dispatcher) on a connection that is already SHUTTING_DOWN runs "
       "connection_closed again although it returned 0 (or while its re-run job is queued) and drops the initial reference a second "
       "time: connection_destroyed runs and the connection is freed under the application's reference / the queued job "
       "(history: created{Ref}; client disconnects; Step; Disconnect 1; Unref 1)",
    2: "qb_ipcs_disconnect from inside msg_process releases the connection while qb_ipcs_dispatch_connection_request is still "
       "using it (heap-use-after-free in _process_request_, ipcs.c:708) (history: msg{Disconnect self}; CSend 1; Step)",
    3: "after a disconnect from inside msg_process the dispatcher goes on: on shm the next queued request is delivered after "
       "connection_closed (history: created{Ref}; msg#1{Disconnect self}; CSend 2; Step)",
    4: "qb_ipcs_request_rate_limit while a connection that was disconnected inside connection_created is still listed (kept by a "
       "reference): flow control is set on its closed ring (NULL dereference in qb_ipc_shm_fc_set) "
       "(history: created{Ref; Disconnect self}; RateLimit 3)",
    5: "socket transport: response/event send to a connection that was disconnected inside connection_created and is kept by a "
       "reference uses its closed descriptor numbers and unmapped control page: once the numbers are reused the message is written "
       "into an unrelated connection and the send counter update faults (SEGV in qb_ipc_socket_send, ipc_socket.c:414) "
       "(history: created2{Disconnect self; Ref}; a third client connects; Resp 2)",
    6: "qb_ipcs_destroy keeps a pointer to the next list element while it disconnects the current one: a connection_closed callback "
       "that releases or disconnects that next connection leaves it dangling (heap-use-after-free in qb_ipcs_destroy) "
       "(history: created1{Ref}; closed2{Unref 1}; client 1 leaves; Step; SvcDestroy)",
    7: "socket transport: qb_ipcs_request_rate_limit re-registers (dispatch_mod) the closed descriptor numbers of a listed "
       "connection that is SHUTTING_DOWN (closed asked for a retry, or a reference is held); once a number is reused by a new "
       "connection that one's events are dispatched to the dead connection, also after it was freed "
       "(heap-use-after-free in qb_ipcs_dispatch_connection_request / qb_ipcs_disconnect) "
       "(history: closed2 returns 1; its client dies; a new client connects; RateLimit; Jobs; the new client sends)",
}
CON = ["CConnect 0", "Step", "Step", "CContinue 0"]
CON2 = CON + ["CConnect 1", "Step", "Step", "CContinue 1"]
REPRO = {
    1: (0, ["Body created 1 0 Ref self"] + CON + ["CDisc 0", "Step", "Disconnect 1", "Unref 1"]),
    2: (0, ["Body msg 1 0 Disconnect self"] + CON + ["CSend 0 1", "Step"]),
    3: (0, ["Body created 1 0 Ref self", "Body msg 1 1 Disconnect self"] + CON + ["CSend 0 2", "Step", "Unref 1"]),
    4: (0, ["Body created 1 0 Ref self ; Disconnect self"] + CON + ["RateLimit 3", "Unref 1"]),
    5: (1, ["Body msg 1 0 Resp 2", "Body created 2 0 Disconnect 2 ; Ref self", "CConnect 2", "Step", "Step", "CContinue 2",
            "Fork 1 1 0", "Wait 1", "CConnect 0", "CSend 2 2", "Step"]),
    6: (0, ["Body created 1 0 Ref self", "Body closed 2 0 Unref 1"] + CON2 + ["CDisc 0", "Step", "SvcDestroy"]),
    7: (1, ["ClosedRet 2 1", "CConnect 3", "Fork 0 1 0", "Wait 0", "Kill 0", "CContinue 3", "Step", "CConnect 2", "Step", "Step",
            "CContinue 2", "RateLimit 2", "Drain", "CSend 2 1"]),
}
INVS = ["TypeOK", "WordOK", "ClosedOnlyIfCreated", "DestroyedAtZero", "RetryKeepsRef", "NoZombie", "Conforms",
        "NoUseAfterFree", "NoTornUse"]
ACTIONS = ["TConnect", "TRequests", "TJob", "TApp", "CbOp", "CbRet", "Hnc0", "Hnc1", "Hnc2", "Hnc3", "Hnc4", "Hnc6",
           "Disc0", "Disc2", "Disc9", "Unref0", "Unref1", "Unref9", "Disp0", "Disp1", "Disp2", "Disp3", "Disp8", "Disp9",
           "Job0", "Job9", "Des0", "Des1", "Des2", "Des8", "Des9"]
SVCOPS = ["SvcRef", "SvcUnref"]


def mc_cfg(ctx, name, fix, skip, top, body, extra_inv=()):
    s = lambda xs: ", ".join(str(x) for x in sorted(set(xs)))
    return ctx.cfg(name, "CONSTANTS MaxConn = 2  MaxBody = %d  MaxTop = %d  MaxRetry = 1  MaxSvcRef = 1\nCONSTANTS Fix = {%s}  Skip = {%s}\n"
                   "SPECIFICATION MCSpec\n%sCHECK_DEADLOCK FALSE\n" % (body, top, s(fix), s(skip),
                                                                     "".join("INVARIANT %s\n" % i for i in list(INVS) + list(extra_inv))))


def run_one(ctx, exe, lines, tag, skip):
    """one program on the real code -> (failed, why)"""
    s = os.path.join(ctx.work, tag + ".sched")
    t = os.path.join(ctx.work, tag + ".ndjson")
    open(s, "w").write("\n".join(lines) + "\n")
    args = [exe, s, t] + (["--kf-skip=" + ",".join(map(str, skip))] if skip else [])
    rc, so, se = ctx.run(args, timeout=120)
    if rc != 0:
        m = re.search(r"ERROR: \w+Sanitizer: ([\w-]+)", se)
        return True, "harness exit %d (%s)" % (rc, m.group(1) if m else "abort")
    v = ctx.validate("IpcLifeTrace.tla", "IpcLifeTrace.cfg", t)
    return (not v.accepted), ("trace rejected at event %d%s" % (v.matched + 1, (" [" + v.violated + "]") if v.violated else ""))


def run(ctx):
    q = ctx.quick
    exe = ctx.cc("h_ipc_life.c", "asan")

    # 1. recorded findings: directed reproducers on the real code (no step is left out).  A finding that still
    #    reproduces is reported as KNOWN-FINDING and exactly its trigger is left out below; one that no longer
    #    reproduces (repaired tree) suppresses nothing.
    registered = {k["id"]: k for k in core.load_known() if k.get("property") == "C04"}
    still = []
    for k in ALL:
        T, lines = REPRO[k]
        kid = "KF-C04-%d" % k
        status = registered.get(kid, {}).get("status")
        failed, why = False, ""
        for attempt in range(3):          # two of the reproducers rely on descriptor numbers being reused
            failed, why = run_one(ctx, exe, ["Svc %d" % T] + lines, "%s-%d" % (kid, attempt), [])
            if failed:
                break
        if failed and status == "fixed":
            ctx.violation("%s is recorded as fixed but its reproducer fails again: %s" % (kid, why),
                          ctx.save(kid + ".sched", "\n".join(["Svc %d" % T] + lines) + "\n"))
        elif failed:
            still.append(k)
            ctx.known(kid, WHAT[k] + " -- " + why)
            if status is None:
                ctx.notes.append("%s reproduces but is not yet listed in known_findings.jsonl" % kid)
        elif status == "known":
            still.append(k)               # listed and not reproduced this time: its trigger stays out, nothing is claimed
            ctx.notes.append("%s is listed as known but did not reproduce in this run" % kid)
        else:
            ctx.notes.append("%s no longer reproduces" % kid)
    ctx.log("recorded findings that still reproduce: %s" % (["KF-C04-%d" % k for k in still] or "none"))
    mstill = sorted({MODEL[k] for k in still})
    mfix = sorted(set(MODEL.values()) - set(mstill))

    # 2. design check: the closed model of the code as it is now (repairs that are in the tree switched on), every
    #    application with <= MaxBody calls per callback and <= MaxTop main-loop moves, the recorded triggers left out
    top, body = (5, 1) if q else (6, 1)
    r = ctx.model_check("IpcLifeMC.tla", mc_cfg(ctx, "IpcLifeMC_now.cfg", mfix, mstill, top, body,
                                                ["RcAgrees", "SvcLifetime"] if not mstill else []),
                        workers=4, timeout=1500)
    ctx.check_vacuity(r, ACTIONS)
    ctx.cov["model_invariants"] = INVS
    if not q:
        # deeper callback bodies with fewer main-loop moves
        ctx.model_check("IpcLifeMC.tla", mc_cfg(ctx, "IpcLifeMC_body2.cfg", mfix, mstill, 4, 2), workers=4, timeout=1500)
    #    model-level reproducers: with one recorded trigger allowed again the model must fail
    for k in mstill:
        fix, skip = list(mfix), [x for x in mstill if x != k]
        if k in (2, 3):       # one trigger (disconnect inside msg_process), two defects
            skip = [x for x in mstill if x not in (2, 3)]
        if k == 3:            # let the dispatcher hold its reference (repair 2) so that the run reaches the second delivery
            fix = sorted(set(mfix) | {2})
        cfg = mc_cfg(ctx, "IpcLifeMC_kf%d.cfg" % k, fix, skip, 4, 1)
        rr = ctx._tlc("IpcLifeMC.tla", cfg, 4, timeout=900, jvm=("-Xmx8g",))
        rr.parse()
        if not rr.violated:
            ctx.violation("model-level reproducer of KF-C04-%d no longer fails (rc=%d)" % (k, rr.rc), ctx.save("model-kf%d.txt" % k, rr.out))
        else:
            ctx.cov["model_runs"].append({"module": "IpcLifeMC.tla", "cfg": "KF-C04-%d allowed" % k, "violated": rr.violated,
                                          "distinct_states": rr.distinct, "wall_s": round(rr.wall, 1)})

    # 3. code -> spec: directed scenarios and seeded random programs on the real library (both transports), every
    #    recorded run validated by TLC against IpcLife with all invariants evaluated at every step
    rng = random.Random(ctx.seed * 104729 + 4)
    progs = gen.directed()
    nd = len(progs)
    n = 5000 if q else 80000
    progs += [["Svc %d" % REPRO[k][0]] + REPRO[k][1] for k in ALL if k not in still]      # repaired: ordinary scenarios now
    nd = len(progs)
    progs += [gen.program(rng) for _ in range(n)]
    nr = len(progs) - nd
    # spec -> code: random walks of the closed model (the application's and the environment's choices), executed on the
    # real library on both transports
    import json
    gcfg = ctx.cfg("IpcLifeGen_sim.cfg", "CONSTANTS MaxConn = 3  MaxBody = 2  MaxTop = 7  MaxRetry = 2  MaxSvcRef = 2\nCONSTANTS Fix = {%s}  Skip = {%s}\n"
                   "SPECIFICATION GenSpec\nCONSTRAINT Emit\nCHECK_DEADLOCK FALSE\n" % (", ".join(map(str, mfix)), ", ".join(map(str, mstill))))
    seen = set()
    for rnd in range(2 if q else 12):
        g = ctx._tlc("IpcLifeGen.tla", gcfg, 1, extra=["-simulate", "num=%d" % 2500, "-depth", "600", "-seed", str(ctx.seed * 100 + rnd)],
                     timeout=900, jvm=("-Xmx4g",), tag="gen%d" % rnd)
        if g.rc != 0:
            raise core.Infra("TLC generation failed (rc=%d):\n%s" % (g.rc, g.out[-3000:]))
        for m in re.finditer(r'^"GEN (.*)"$', g.out, re.M):
            seen.add(m.group(1))
    hs = [json.loads(json.loads('"' + x + '"')) for x in sorted(seen)]
    hs = [h for h in hs if any(e[0] == "Connect" for e in h)]
    ctx.log("%d distinct model behaviours with at least one connection" % len(hs))
    ctx.cov["programs_from_model"] = len(hs)
    progs += [gen.from_model(h, i % 2) for i, h in enumerate(hs)]
    ctx.sample({"model_behaviour": hs[len(hs) // 2], "program": progs[-(len(hs) - len(hs) // 2)]})
    ctx.sample({"program": progs[4]})
    ctx.sample({"program": progs[nd]})
    ctx.log("%d programs (%d directed)" % (len(progs), nd))
    hargs = (["--kf-skip=" + ",".join(map(str, still))] if still else [])
    for b in range(0, len(progs), 8000):
        ctx.exec_validate(exe, progs[b:b + 8000], lambda p: p, "IpcLifeTrace.tla", "IpcLifeTrace.cfg", nshards=4,
                          label="c04-%d" % (b // 8000), harness_args=hargs, timeout=1500)
    ctx.cov["programs_directed"] = nd
    ctx.cov["programs_random"] = nr
    ctx.cov["exhaustive"] = True
    ctx.cov["model_bounds"] = "2 connections, %d API call(s) per callback, %d main-loop moves, 1 closed retry per connection" % (body, top)
    ctx.assumptions += [
        "one process, one thread: the application's main loop is the harness's own poll-handler table (descriptor callbacks run when poll() reports them, jobs when the program says so)",
        "clients are in-process (async connect, graceful disconnect) or forked children that die at a scripted point; what the library must notice and when is not constrained, only the order and lifetime rules",
        "use of freed connection/service memory is observed by ASan/UBSan on the harness (an abort is a rejected history); in the model it is the flag fl.uaf",
        "callback bodies are lists of calls from {disconnect, ref, unref of a reference taken earlier, response_send, event_send, list iteration, rate limit, service ref/unref}; the application never uses a handle after its connection_destroyed began and never drops a reference it does not hold",
        "steps falling under the recorded findings that still reproduce (%s) are left out of generated programs and of the registered model configuration; each has a directed reproducer on the real code and a model-level reproducer" % (", ".join("KF-C04-%d" % k for k in still) or "none"),
        "the closed model is bounded: 2 connections, short callback bodies, a handful of main-loop moves",
    ]
