"""C20 -- handle database.  Spec: spec/Hdb.tla.  See DESIGN.md section 4 (C20)."""
import os
from vlib import core


def to_lines(h):
    return [" ".join(str(x) for x in op) for op in h]


def run(ctx):
    q = ctx.quick
    exe = ctx.cc("h_hdb.c", "asan")
    # (1) design check: every reachable state of the bounded model satisfies the property
    r = ctx.model_check("HdbMC.tla", "HdbMC.cfg" if q else "HdbMC_thorough.cfg")
    ctx.check_vacuity(r, ["ACreate", "AGet", "APut", "ADestroy", "ARefcount", "IterReset", "AIterNext"])
    # (2) spec -> code: all model histories of a fixed depth, then long random walks of the model
    hs = ctx.generate("HdbGen.tla", "HdbGen.cfg", mode="bfs", consts={"DEPTH": 3 if q else 4})
    n1 = len(hs)
    hs += ctx.generate("HdbGen.tla", "HdbGen_sim.cfg", mode="simulate", num=4000 if q else 40000,
                       depth=44, consts={"DEPTH": 30 if q else 40})
    for h in (hs[:1] + hs[n1:n1 + 2]):
        ctx.sample({"history": to_lines(h)})
    ctx.exec_validate(exe, hs, to_lines, "HdbTrace.tla", "HdbTrace.cfg")
    ctx.cov["histories_exhaustive_depth"] = 3 if q else 4
    ctx.cov["histories_exhaustive"] = n1
    ctx.cov["histories_random_walk"] = len(hs) - n1
    ctx.cov["exhaustive"] = True
    ctx.assumptions += [
        "random() is scripted to return fresh positive values: a colliding check word (2^-31 by design) is outside the property",
        "bounded model: see model_runs constants; histories beyond the explored depth are sampled, not enumerated",
        "a second destroy of a destroy-pending handle counts as another put (DESIGN.md 4.0)",
    ]
