"""X03 (beyond the listed properties) -- the service's own statistics (qb_ipcs_stats_get): active_connections is the
number of established connections, closed_connections counts the connections that were disconnected after a successful
set-up.  Spec: spec/IpcLife.tla (SvcStats; the connection phases are C04's), spec/IpcLifeTrace.tla.
Harness: harness/h_ipc_life.c --svc-stats (the statistics are read after every main-loop step).  DESIGN.md section 7.
Same histories as C04's code -> spec stage: the directed scenarios, the histories of C04's repaired findings and seeded
random programs, both transports; TLC validates every event, i.e. C04's guards and the statistics at every step."""
import os, random, re, glob
from vlib import core
from vlib.checks import ipclifegen as gen
from vlib.checks import c04


def run(ctx):
    q = ctx.quick
    exe = ctx.cc("h_ipc_life.c", "asan")
    rng = random.Random(ctx.seed * 7919 + 3)
    con = ["CConnect 0", "Step", "Step", "CContinue 0"]
    con2 = con + ["CConnect 1", "Step", "Step", "CContinue 1"]
    progs = gen.directed()
    for T in (0, 1):
        S = ["Svc %d" % T]
        # the set-up succeeds and the connection is disconnected before it is established / the answer cannot be written
        progs.append(S + ["Body created 1 0 Disconnect self"] + con + ["Step", "CConnect 1", "Step", "Step", "CContinue 1", "CDisc 1", "Step"])
        progs.append(S + ["Body created 2 0 Disconnect self"] + con2 + ["Step", "CDisc 0", "Step"])
        progs.append(S + ["Body accept 1 0 Kill 0", "Fork 0 0 0", "Step", "Step", "Step"] + ["CConnect 1", "Step", "Step", "CContinue 1", "Step"])
        progs.append(S + ["Body created 1 0 Disconnect self ; Ref self"] + con + ["Step", "Unref 1", "Step"])
        # refused, established, closed with a retry, server-side disconnect
        progs.append(S + ["AcceptRet 1 -13", "ClosedRet 2 1"] + con2 + ["Step", "Disconnect 2", "Jobs", "Jobs", "CDisc 1", "Step"])
    progs += [["Svc %d" % c04.REPRO[k][0]] + c04.REPRO[k][1] for k in c04.ALL]
    nd = len(progs)
    progs += [gen.program(rng) for _ in range(1500 if q else 30000)]
    ctx.sample({"program": progs[nd - 6]})
    ctx.sample({"program": progs[nd]})
    ctx.log("%d programs (%d directed)" % (len(progs), nd))
    for b in range(0, len(progs), 8000):
        ctx.exec_validate(exe, progs[b:b + 8000], lambda p: p, "IpcLifeTrace.tla", "IpcLifeTrace.cfg", nshards=4,
                          timeout=1500, label="x03-%d" % (b // 8000), harness_args=["--svc-stats"])
    # census of what was read (guards against a vacuous run)
    n = act = clo = nev = 0
    for tr in glob.glob(os.path.join(ctx.work, "x03-*.ndjson")):
        for line in open(tr):
            nev += 1
            m = re.match(r'\{"e":"SvcStats","a":\[(-?\d+),(-?\d+)\]', line)
            if m:
                n += 1
                act += int(m.group(1)) > 0
                clo += int(m.group(2)) > 0
    # no closed model is explored here: the states / transitions are the steps of the recorded runs that TLC matched
    # against IpcLife's actions (one state per recorded event)
    ctx.cov["states"] += nev
    ctx.cov["transitions"] += nev
    ctx.cov["states_are"] = "recorded events matched by TLC (trace validation), not states of a closed model"
    ctx.cov["svc_stats_read"] = n
    ctx.cov["svc_stats_read_with_active_connections"] = act
    ctx.cov["svc_stats_read_with_closed_connections"] = clo
    if not ctx.violations and (n < 100 or act < 20 or clo < 20):
        raise core.Infra("vacuous run: %d SvcStats events (%d with active, %d with closed connections)" % (n, act, clo))
    ctx.cov["programs_directed"] = nd
    ctx.cov["programs_random"] = len(progs) - nd
    ctx.assumptions += [
        "the statistics are read from the application's main loop only (no callback in progress), with the service still held by the application",
        "closed_connections is checked within bounds: the events do not tell a set-up that failed before the connection was counted from one that failed after",
    ]
