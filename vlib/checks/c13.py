"""C13 -- log line formatting is bounded by the line limit and follows the format spec.
Spec: spec/LogFormat.tla (+ LogFormatVec / LogFormatMC / LogFormatGen / LogFormatTrace), harness/h_logfmt.c.
See DESIGN.md section 4 (C13), 4.0 (reading decision) and section 6 (findings 8, 9, 10)."""
import os
from vlib import core

# recorded findings: id -> (generator switch, directed reproducer, text)
LIM = lambda n: ["SetLimit", n]
ELL = lambda b: ["SetEllipsis", b]
D0 = [1, 1, [7, 1], 6, [1, 1, 0, 0, 0, 0], -1]
ENV = [1, 1, [7, 1]]
B = lambda n: ([[98, n]] if n else [])
KFS = {
    "KF-C13-1": (1, [LIM(32), ["Log", D0, [1, 0, 0, 0, 0]]],
                 "cs_format (lib/log.c) reads str[len-1] with len = 0 when a log call expands to the empty string: stack-buffer-overflow READ one byte before the message buffer (history: Log with \"%s\", \"\")"),
    "KF-C13-2": (2, [LIM(32), ["SetFormat", [], 1, 1, [7, 1]], ["Format", D0, B(1)]],
                 "qb_log_target_format (lib/log_format.c) evaluates output_buffer[idx-1] with unsigned idx = 0 when the line is empty (format \"\" , \"%g\" without tags, \"%b\" with an empty message): wild read 4 GiB beyond the buffer, SEGV (history: SetFormat \"\"; Format)"),
    "KF-C13-3": (3, [["SetFormat", [[0, 120, 256]], 1, 1, [7, 1]]],
                 "qb_log_format_set expands the format into char modified_format[256] bounded only by max_line_length (512 by default): stack-buffer-overflow WRITE for any format whose expansion reaches 256 bytes (history: SetFormat 256 x 'x')"),
    "KF-C13-4": (4, [LIM(0)],
                 "QB_LOG_CONF_MAX_LINE_LEN accepts 0, negative values and 1..3: with 0/negative no line can be terminated inside the limit (size_t wrap: unbounded copy, malloc(SIZE_MAX) in qb_log_real_va_ leaves in_logger set), with 1 the first literal overflows, with 2..3 the ellipsis is written at idx-3 < 0 (history: SetLimit 0)"),
    "KF-C13-5": (5, [LIM(32), ["SetFormat", [[98, 0, 0], [0, 32, 1], [1, 0, 0]], 1, 1, [7, 1]], ["Format", D0, B(1)]],
                 "a format string that ends inside a directive (\"%b %\", \"%b %-12\") makes both formatting loops step over the terminating NUL and keep scanning: heap-buffer-overflow READ (history: SetFormat \"%b %\")"),
    "KF-C13-6": (6, [LIM(8), ["SetFormat", [[110, 0, 1], [110, 0, 1], [110, 0, 1]], 1, 1, [7, 1]],
                     ["Format", [1, 1, [7, 1], 6, [1, 1, 0, 0, 0, 0], -1], B(1)]],
                 "qb_log_format_set keeps only the first max_line_length-1 BYTES OF THE FORMAT STRING (not of the line): later directives are lost or cut in the middle, which then reads past the stored format's NUL (history: limit 8; SetFormat \"%1n%1n%1n\"; Format -> heap-buffer-overflow READ, expected \"nnn\")"),
    "KF-C13-7": (7, [LIM(8), ELL(1), ["SetFormat", [[98, 0, 0]], 1, 1, [7, 1]], ["Format", D0, B(7)]],
                 "a line that fits exactly (limit-1 bytes) is treated as truncated: with the ellipsis option its last three bytes are overwritten by \"...\" although nothing was cut (history: limit 8, ellipsis on, \"%b\" with a 7 byte message -> \"bbbb...\")"),
    "KF-C13-8": (8, [LIM(8), ELL(1), ["SetFormat", [[0, 120, 6], [0, 10, 1], [0, 120, 1]], 1, 1, [7, 1]], ["Format", D0, B(1)]],
                 "ellipsis on a truncated line whose last kept byte is a literal newline of the format: the newline is replaced by NUL, then \"...\" overwrites that NUL and nothing terminates the line inside the limit (history: limit 8, ellipsis on, format \"xxxxxx\\nx\")"),
}


def flat(x):
    out = []
    for y in x:
        out += flat(y) if isinstance(y, list) else [y]
    return out


def line(op):
    n = op[0]
    if n == "SetFormat":
        return " ".join(map(str, [n, len(op[1])] + flat(op[1]) + [op[2], op[3]] + op[4]))
    if n == "Format":
        return " ".join(map(str, [n] + flat(op[1]) + [len(op[2])] + flat(op[2])))
    if n == "Log":
        return " ".join(map(str, [n] + flat(op[1]) + op[2]))
    return " ".join(map(str, op))


def to_lines(h):
    return [line(op) for op in h]


def kf_status():
    """a finding's trigger is left out of generation until known_findings.jsonl says it is fixed
    (VERIF_C13_FIXED=1,2,.. marks findings as fixed for trying out a proposed fix)"""
    st = {k["id"]: k.get("status") for k in core.load_known()}
    forced = {("KF-C13-" + x.strip()) for x in os.environ.get("VERIF_C13_FIXED", "").split(",") if x.strip()}
    return {k: (st.get(k) != "fixed" and k not in forced) for k in KFS}


CONSTS = "CONSTANTS Limits = {%s}  Widths = {%s}  Lens = {%s}\n          Dirs = {%s}  LitSyms = {%s}  MaxTok = %d\n"
ALLDIRS = [110, 102, 108, 112, 116, 84, 98, 103, 78, 80, 72, 37, 122, 1]


def consts(limits, widths, lens, dirs, lits, maxtok):
    j = lambda xs: ", ".join(map(str, xs))
    return CONSTS % (j(limits), j(widths), j(lens), j(dirs), j(lits), maxtok)


def run(ctx):
    q = ctx.quick
    W = 4
    exe = ctx.cc("h_logfmt.c", "asan")
    active = kf_status()
    sw = {"KF%d" % KFS[k][0]: ("1" if active[k] else "0") for k in KFS}

    # (1) design check: every vector of the bounded alphabet, formatted by the token-level transcription,
    #     gives a line the specification admits; stores/loads stay inside the buffer
    r = ctx.model_check("LogFormatMC.tla", "LogFormatMC.cfg" if q else "LogFormatMC_thorough.cfg", workers=W)
    if not q:
        ctx.model_check("LogFormatMC.tla", "LogFormatMC_thorough3.cfg", workers=W)      # three-token formats, smaller alphabet
    ctx.check_vacuity(r, ["ASetLimit", "ASetEllipsis", "ASetFormat", "ASetFormatDefault", "ACall", "ATokLit",
                          "ATokDir", "ATail", "AFormat", "ASetExtended", "ALog"])

    def gen(tag, cs, mode, how="bfs", num=0, depth=6):
        cfg = ctx.cfg("LogFormatGen_%s.cfg" % tag, cs + "SPECIFICATION GenSpec\nCONSTRAINT Emit\nCHECK_DEADLOCK FALSE\n")
        env = dict(sw, MODE=mode, DEPTH=depth)
        return ctx.generate("LogFormatGen.tla", cfg, mode=how, num=num, depth=60, workers=W, consts=env, tag="gen-" + tag)

    groups = []
    # (2a) every one-token format over ALL directives, every boundary width / field length, small limits
    groups.append(("fmt1", gen("fmt1", consts([1, 2, 3, 4, 5, 8, 0, 4097] if q else [1, 2, 3, 4, 5, 8, 16, 0, 4097],
                                              [0, 1, 3, 10099, 10100, 10105], [0, 1, 10099, 10100, 10105],
                                              ALLDIRS, [120, 10, 32], 1), "F")))
    # (2b) every two-token (thorough: three-token) format over representative directives
    if q:
        groups.append(("fmt2", gen("fmt2", consts([4, 8], [0, 3, 10105], [0, 10099, 10105], [110, 98, 78], [120, 10], 2), "F")))
    else:
        groups.append(("fmt2", gen("fmt2", consts([3, 4, 8], [0, 1, 3, 10099, 10100, 10105], [0, 1, 10099, 10100, 10105],
                                                  [110, 112, 84, 98, 78, 37, 1], [120, 10], 2), "F")))
        groups.append(("fmt3", gen("fmt3", consts([8], [0, 3, 10105], [0, 10099, 10105], [110, 98, 78], [120, 10], 3), "F")))
    # (2c) real log calls: message lengths 0, 1, limit-1, limit, limit+5, newline, extended marker, three printf shapes
    groups.append(("log", gen("log", consts([1, 4, 8, 0] if q else [1, 2, 4, 8, 16, 0], [0, 3, 10105],
                                            [0, 1, 10099, 10105] if q else [0, 1, 10099, 10100, 10105],
                                            [98, 110] if q else [98, 110, 112, 84, 78, 37], [120, 10], 1), "L")))
    # (2d) long walks over all calls with the limits real programs use (stack buffer / malloc switch at 512)
    real = consts([32, 255, 256, 257, 512, 513, 4096, 4097], [0, 3, 40, 10099, 10105], [0, 1, 10099, 10100, 10105],
                  ALLDIRS, [120, 10, 32], 4)
    groups.append(("walk", gen("walk", real, "W", how="simulate", num=80 if q else 400, depth=12 if q else 20)))

    total = 0
    for tag, hs in groups:
        if not hs:
            raise core.Infra("no behaviours generated for group " + tag)
        total += len(hs)
        ctx.cov["histories_" + tag] = len(hs)
        ctx.sample({"group": tag, "history": to_lines(hs[len(hs) // 2])})
        ctx.exec_validate(exe, hs, to_lines, "LogFormatTrace.tla", "LogFormatTrace.cfg", nshards=W, label="c13-" + tag)

    # (3) recorded findings: directed reproducers, run without any exclusion
    for kfid, (n, hist, what) in sorted(KFS.items()):
        if not active[kfid]:
            continue
        s = os.path.join(ctx.work, kfid + ".sched")
        t = os.path.join(ctx.work, kfid + ".ndjson")
        open(s, "w").write("\n".join(to_lines(hist)) + "\n")
        rc, so, se = ctx.run([exe, s, t], timeout=60)
        failing = rc != 0
        if not failing:
            failing = not ctx.validate("LogFormatTrace.tla", "LogFormatTrace.cfg", t).accepted
        if failing:
            ctx.known(kfid, what)
        else:
            ctx.notes.append("%s no longer reproduces (its trigger is still left out of generation until known_findings.jsonl marks it fixed)" % kfid)

    ctx.cov["exhaustive"] = True
    ctx.cov["kf_triggers_left_out"] = sorted(k for k in active if active[k])
    ctx.assumptions += [
        "token-level abstraction: texts are runs of one byte per field (function 'n'.., message 'b'..); field identity, length, pad/chop, order and the limit are exact, byte patterns inside a field are not varied",
        "the caller's buffer for qb_log_target_format has exactly max_line_length bytes (heap, ASan red zones on both sides); memory errors are observed by ASan/UBSan (an abort is a rejected history)",
        "unknown directives, a directive cut short by the end of the string and priorities above LOG_TRACE have no documented text: only the bounds are required there",
        "where a line is cut inside a right-flushed padded field, both the cut padded field and the field re-fitted into the remaining room are admitted (DESIGN 4.0 reading note in spec/LogFormat.tla)",
        "a truncated line / message may or may not lose a trailing newline that the cut happens to leave at its end",
        "hostname, pid, wall clock and tag stringifier are scripted by the harness; TZ=UTC; BUILDING_IN_PLACE (%f prints the file name as given; names without '/')",
        "triggers of the recorded findings KF-C13-1..8 are left out of generated behaviours (LogFormatGen switches KF1..KF8) until known_findings.jsonl marks them fixed; each has a directed reproducer",
        "one target; syslog / file / blackbox targets share qb_log_target_format and are not driven separately",
    ]
