"""Seeded generator of programs for harness/h_ipc_life (property C04).
A program = service type, per-connection callback return values and callback bodies, and a sequence of
client actions, main-loop steps and application API calls.  It only generates inputs; what the library
must do with them is decided by spec/IpcLife.tla."""

KINDS = ["accept", "created", "msg", "closed", "destroyed"]


def conn_ref(rng, n, self_ok=True):
    if self_ok and rng.random() < 0.6:
        return "self"
    return str(rng.randint(1, n))


def body_op(rng, kind, n):
    """one API call made from inside a callback: nothing / disconnect / ref / unref of a ref taken earlier /
    response_send / event_send (plus list iteration and stats, which only read)"""
    r = rng.random()
    if kind != "destroyed" and rng.random() < 0.06:
        return "Kill %d" % rng.randrange(4)          # a forked client dies while the server runs this callback
    if kind == "destroyed":
        # the connection itself is going away: only its statistics may still be read; other connections are fair game
        if r < 0.4:
            return "Stats self"
        c = str(rng.randint(1, n))
        return rng.choice(["Unref %s", "Disconnect %s", "Event %s", "Ref %s"]) % c
    if r < 0.30:
        return "Disconnect %s" % conn_ref(rng, n)
    if r < 0.50:
        return "Ref %s" % conn_ref(rng, n)
    if r < 0.70:
        return "Unref %s" % conn_ref(rng, n)
    if r < 0.80:
        return "Resp %s" % conn_ref(rng, n)
    if r < 0.90:
        return "Event %s" % conn_ref(rng, n)
    if r < 0.97:
        return "IterFirst ; IterNext ; UnrefPrev ; UnrefCur"
    return rng.choice(["SvcRef", "SvcUnref", "RateLimit %d" % rng.randint(0, 4)])


def program(rng, transport=None):
    T = rng.randint(0, 1) if transport is None else transport
    nk = rng.randint(1, 4)                 # client slots
    n = nk + rng.randint(0, 2)             # connection ordinals the bodies may refer to
    L = ["Svc %d" % T]
    for c in range(1, n + 1):
        if rng.random() < 0.12:
            L.append("AcceptRet %d %d" % (c, rng.choice([-13, -1, -11, 1])))
        if rng.random() < 0.35:
            L.append("ClosedRet %d %s" % (c, " ".join(str(rng.choice([1, 1, -1, 7])) for _ in range(rng.randint(1, 3)))))
        for kind in KINDS:
            if rng.random() < (0.45 if kind != "accept" else 0.15):
                nth = 0 if kind not in ("msg", "closed") or rng.random() < 0.5 else rng.randint(1, 3)
                ops = [body_op(rng, kind, n) for _ in range(rng.randint(1, 2))]
                L.append("Body %s %d %d %s" % (kind, c, nth, " ; ".join(ops)))
    state = {k: "idle" for k in range(nk)}       # idle / started / connected / forked / gone
    out = []

    def loop_ops():
        return rng.choice([["Step"], ["Step"], ["Step", "Step"], ["Jobs"], ["Step", "Jobs"], ["Drain"], []])

    def app_op():
        r = rng.random()
        c = rng.randint(1, n)
        if r < 0.18:
            return ["Disconnect %d" % c]
        if r < 0.33:
            return ["Ref %d" % c]
        if r < 0.50:
            return ["Unref %d" % c]
        if r < 0.58:
            return ["Event %d" % c]
        if r < 0.64:
            return ["Resp %d" % c]
        if r < 0.76:
            seq = ["IterFirst"]
            for _ in range(rng.randint(0, 3)):
                seq += ["IterNext"] + (["UnrefPrev"] if rng.random() < 0.8 else [])
                if rng.random() < 0.2:
                    seq += rng.choice([["Step"], ["Disconnect %d" % c], ["Jobs"]])
            if rng.random() < 0.8:
                seq += ["UnrefCur"]
            return seq
        if r < 0.82:
            return ["RateLimit %d" % rng.randint(0, 4)]
        if r < 0.88:
            return ["SvcRef"]
        if r < 0.93:
            return ["SvcUnref"]
        return ["SvcDestroy"]

    for _ in range(rng.randint(4, 16)):
        r = rng.random()
        k = rng.randrange(nk)
        st = state[k]
        if r < 0.55:
            if st == "idle":
                if rng.random() < 0.25:
                    mode = rng.choice([0, 1, 1, 1])
                    out += ["Fork %d %d %d" % (k, mode, rng.randint(0, 3))]
                    if mode == 1 and rng.random() < 0.85:
                        out += ["Wait %d" % k]
                    else:
                        out += loop_ops()
                    state[k] = "forked"
                else:
                    out += ["CConnect %d" % k]
                    state[k] = "started"
                    if rng.random() < 0.8:
                        out += ["Step", "Step"]
                        if rng.random() < 0.85:
                            out += ["CContinue %d" % k]
                            state[k] = "connected"
            elif st == "started":
                out += rng.choice([["Step"], ["Step", "Step", "CContinue %d" % k], ["CContinue %d" % k], ["CDisc %d" % k]])
                if out[-1].startswith("CContinue"):
                    state[k] = "connected"
                elif out[-1].startswith("CDisc"):
                    state[k] = "idle"
            elif st == "connected":
                x = rng.random()
                if x < 0.5:
                    out += ["CSend %d %d" % (k, rng.randint(1, 4))] + loop_ops()
                elif x < 0.65:
                    out += ["CRecv %d" % k]
                else:
                    out += ["CDisc %d" % k] + loop_ops()
                    state[k] = "idle"
            elif st == "forked":
                x = rng.random()
                if x < 0.5:
                    out += ["Kill %d" % k] + loop_ops()
                    state[k] = "idle"
                elif x < 0.75:
                    out += ["Wait %d" % k]
                else:
                    out += ["Step"]
        elif r < 0.85:
            out += app_op()
        else:
            out += loop_ops()
    return L + out


def directed():
    """hand-written scenarios (each one history), both transports; in the spirit of tests/check_ipc.c plus the
    lifetimes the unit tests do not reach"""
    P = []
    con = ["CConnect 0", "Step", "Step", "CContinue 0"]
    con2 = con + ["CConnect 1", "Step", "Step", "CContinue 1"]
    for T in (0, 1):
        S = ["Svc %d" % T]
        # connect, talk, disconnect
        P.append(S + con + ["CSend 0 3", "Step", "CRecv 0", "CDisc 0", "Step"])
        # refused by connection_accept
        P.append(S + ["AcceptRet 1 -13"] + con + ["Step"])
        # disconnect inside connection_created
        P.append(S + ["Body created 1 0 Disconnect self"] + con + ["Step"])
        # event inside connection_created
        P.append(S + ["Body created 1 0 Event self"] + con + ["CRecv 0", "CDisc 0", "Step"])
        # application reference outlives the peer
        P.append(S + ["Body created 1 0 Ref self"] + con + ["CDisc 0", "Step", "Event 1", "Unref 1"])
        # closed asks to be retried twice
        P.append(S + ["ClosedRet 1 1 1"] + con + ["CDisc 0", "Step", "Jobs", "Jobs", "Jobs"])
        # server-initiated disconnect from outside a callback, then the client notices
        P.append(S + con + ["Disconnect 1", "CSend 0 1", "CDisc 0", "Step"])
        # service destroyed with a live connection holding an application reference (tests' reference-count test)
        P.append(S + ["Body created 1 0 Ref self"] + con + ["SvcDestroy", "Event 1", "Event 1", "Unref 1", "Drain"])
        # destroy with two live connections, one asks for a retry
        P.append(S + ["ClosedRet 2 1"] + con2 + ["SvcDestroy", "Jobs", "Drain"])
        # list iteration while connections go away
        P.append(S + con2 + ["IterFirst", "CDisc 0", "CDisc 1", "Step", "IterNext", "UnrefPrev", "UnrefCur"])
        P.append(S + con2 + ["IterFirst", "Disconnect 1", "Disconnect 2", "IterNext", "UnrefPrev", "UnrefCur"])
        # a client that dies after connecting / before reading the answer / with requests queued
        P.append(S + ["Fork 0 1 2", "Wait 0", "Kill 0", "Step", "Step"])
        P.append(S + ["Fork 0 0 0", "Step", "Step", "Kill 0", "Step"])
        P.append(S + ["Fork 0 0 0", "Kill 0", "Step", "Step"])
        # a client that dies while the server is inside connection_accept / connection_created for it (the answer cannot be
        # written / the connection is established for a dead peer), alone and next to a healthy connection
        P.append(S + ["Body accept 1 0 Kill 0", "Fork 0 0 0", "Step", "Step", "Step"])
        P.append(S + ["Body accept 2 0 Kill 1"] + con + ["Fork 1 0 0", "Step", "Step", "CSend 0 1", "Step", "CDisc 0", "Step"])
        P.append(S + ["Body created 1 0 Kill 0", "Fork 0 1 1", "Step", "Step", "Step", "Step"])
        P.append(S + ["Body accept 1 0 Kill 0 ; Ref self", "Fork 0 0 0", "Step", "Step", "Unref 1", "Step"])
        # unref of the other connection from a closed callback
        P.append(S + ["Body created 2 0 Ref 1", "Body closed 2 0 Unref 1"] + con2 + ["CDisc 0", "Step", "CDisc 1", "Step"])
        # the statistics are read in connection_destroyed (as corosync does), after a normal close and after a retried one
        P.append(S + ["Body destroyed 1 0 Stats self", "Body destroyed 2 0 Stats self", "ClosedRet 2 1"] + con2 +
                 ["CSend 0 1", "Step", "CDisc 0", "CDisc 1", "Step", "Jobs"])
        # rate limit changes with live connections
        P.append(S + con2 + ["RateLimit 3", "CSend 0 2", "Step", "RateLimit 0", "Step", "RateLimit 1", "CSend 1 2", "Step", "Step"])
    return P


def kf_scenarios(T):
    """triggers of the recorded findings (run WITHOUT --kf-skip by the check's reproducer)"""
    S = ["Svc %d" % T]
    con = ["CConnect 0", "Step", "Step", "CContinue 0"]
    return {
        # disconnect of a connection that is already shutting down (application still holds a reference)
        "KF-C04-1": S + ["Body created 1 0 Ref self"] + con + ["CDisc 0", "Step", "Disconnect 1", "Unref 1"],
        # disconnect from inside msg_process, closed returns 0, nobody else holds a reference
        "KF-C04-2": S + ["Body msg 1 0 Disconnect self"] + con + ["CSend 0 1", "Step"],
        # disconnect from inside msg_process with a second request queued (the application holds a reference)
        "KF-C04-3": S + ["Body created 1 0 Ref self", "Body msg 1 1 Disconnect self"] + con + ["CSend 0 2", "Step", "Unref 1"],
    }


KIND = {1: "accept", 2: "created", 3: "msg", 4: "closed", 5: "destroyed"}


def from_model(h, T):
    """a behaviour of spec/IpcLifeGen.tla (choices of the application and the environment) -> program for h_ipc_life:
    callback bodies keyed by kind, connection and invocation number; Connect/Req/Job/Destroy -> client and loop steps"""
    top, bodies, acc, closed, cnt, stack = [], {}, {}, {}, {}, []
    nconn = 0
    sends = 0
    for e in h:
        tag = e[0]
        if tag == "Cb":
            kind, c, r = e[1], e[2], e[3]
            cnt[(kind, c)] = cnt.get((kind, c), 0) + 1
            stack.append((kind, c, cnt[(kind, c)]))
            if kind == 1 and r != 0:
                acc[c] = -13
            if kind == 4:
                closed.setdefault(c, []).append(r)
            continue
        if tag == "Ret":
            stack.pop()
            continue
        if tag == "Connect":
            k = nconn
            nconn += 1
            txt = ["CConnect %d" % k, "Step", "Step", "CContinue %d" % k]
        elif tag == "Req":
            k = e[1] - 1
            txt = ["CSend %d %d" % (k, e[2]), "Step"] if e[2] > 0 else ["CDisc %d" % k, "Step"]
        elif tag == "Job":
            txt = ["Jobs"]
        elif tag == "Destroy":
            txt = ["SvcDestroy"]
        elif tag == "Disc":
            txt = ["Disconnect %d" % e[1]]
        elif tag in ("Ref", "Unref"):
            txt = ["%s %d" % (tag, e[1])]
        elif tag == "Send":
            sends += 1
            txt = ["%s %d" % ("Event" if sends % 2 else "Resp", e[1])]
        elif tag == "Rate":
            sends += 1
            txt = ["RateLimit %d" % (3 if sends % 2 else 0)]
        else:
            txt = [tag]         # IterFirst, IterNext
        if stack:
            bodies.setdefault(stack[-1], []).extend(txt)
        else:
            top += txt
    L = ["Svc %d" % T]
    for c, v in sorted(acc.items()):
        L.append("AcceptRet %d %d" % (c, v))
    for c, v in sorted(closed.items()):
        if any(v):
            L.append("ClosedRet %d %s" % (c, " ".join(str(x) for x in v)))
    for (kind, c, nth), ops in sorted(bodies.items()):
        L.append("Body %s %d %d %s" % (KIND[kind], c, nth if kind in (3, 4) else 0, " ; ".join(ops)))
    return L + top
