"""C09 -- timers never fire early and the loop never sleeps past the next expiry.  Spec: spec/Loop.tla."""
from vlib.checks import loops


def heap(ctx):
    """the timer heap of include/tlist.h: exhaustive model check of the transcription (heap order, head = minimum over all
    add/delete/pop histories) and replay of model histories on the real header, array compared entry by entry"""
    q = ctx.quick
    exe = ctx.cc("h_tlist.c", "asan")
    r = ctx.model_check("TimerHeapMC.tla", "TimerHeapMC.cfg", workers=4, timeout=900)
    ctx.check_vacuity(r, ["Add", "Next", "Pop"])
    hs = ctx.generate("TimerHeapGen.tla", "TimerHeapGen.cfg", mode="bfs", workers=4, consts={"DEPTH": 5 if q else 6}, tag="heap-x")
    hs += ctx.generate("TimerHeapGen.tla", "TimerHeapGen.cfg", mode="simulate", workers=4, num=1500 if q else 20000, depth=42,
                       consts={"DEPTH": 40}, tag="heap-s")
    ctx.sample({"heap_history": [" ".join(map(str, op)) for op in hs[-1]][:20]})
    ctx.exec_validate(exe, hs, lambda h: [" ".join(map(str, op)) for op in h], "TimerHeapTrace.tla", "TimerHeapTrace.cfg", label="c09-heap")


def run(ctx):
    heap(ctx)
    loops.model(ctx)
    loops.run_profiles(ctx, ["c09", "c09big"], 2500, 15000, "c09")
