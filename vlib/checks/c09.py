"""C09 -- timers never fire early and the loop never sleeps past the next expiry.  Spec: spec/Loop.tla."""
from vlib.checks import loops


def run(ctx):
    loops.model(ctx)
    loops.run_profiles(ctx, ["c09", "c09big"], 2500, 15000, "c09")
