"""X02 (beyond the listed properties) -- the library's own strlcpy / strlcat: the relation their header comments promise.
Spec: spec/StrOps.tla (+ StrOpsTrace), harness/h_strops.c.  DESIGN.md section 7.
The driver only enumerates inputs (every source of length 0..3, every initial buffer of 6 bytes over {NUL, x, y} that
holds a NUL, every size 0..6); what each call must do is decided by StrOps.tla, evaluated by TLC on the recorded calls."""
import itertools
from vlib import core


def run(ctx):
    exe = ctx.cc("h_strops.c", "asan")
    srcs = ["-"] + ["".join(t) for k in (1, 2, 3) for t in itertools.product("12", repeat=k)]
    bufs = ["".join(t) for t in itertools.product("012", repeat=6) if "0" in t]
    if ctx.quick:
        bufs = [b for b in bufs if b.count("2") <= 2]
    hs = []
    for op in ("Cpy", "Cat"):
        for b in bufs:
            for s in srcs:
                for n in range(0, 7):
                    hs.append([op, n, s, b])
    ctx.sample({"calls": [" ".join(map(str, h)) for h in hs[:3]]})
    # one "history" = 400 independent calls (keeps the number of TLC runs small)
    chunks = [hs[i:i + 400] for i in range(0, len(hs), 400)]
    ctx.exec_validate(exe, chunks, lambda c: [" ".join(map(str, h)) for h in c], "StrOpsTrace.tla", "StrOpsTrace.cfg",
                      label="x02")
    ctx.cov["calls"] = len(hs)
    # no closed model is explored here: the states / transitions are the recorded calls TLC judged against StrOps
    ctx.cov["states"] += len(hs)
    ctx.cov["transitions"] += len(hs)
    ctx.cov["states_are"] = "recorded calls judged by TLC (trace validation), not states of a closed model"
    ctx.cov["exhaustive"] = True
    ctx.assumptions += ["destination buffers hold a NUL (a proper string) and the size argument does not exceed the buffer"]
