"""C10 -- event loop priorities are weak: no level is ever starved.  Spec: spec/Loop.tla."""
from vlib.checks import loops


def run(ctx):
    loops.model(ctx)
    loops.run_profiles(ctx, ["c10"], 1500, 8000, "c10")
