"""C19 -- growable array: stable, disjoint, zero-initialised elements; safe concurrent index/grow.  Spec: spec/Array.tla, ArrayMC.tla."""
from vlib import core

CONFIGS = [(0, 1, 0), (16, 8, 0), (17, 3, 16), (1, 4, 1), (65536, 2, 0), (100, 24, 16)]


def to_lines_cfg(cfg):
    def f(h):
        return ["Create %d %d %d" % cfg] + [" ".join(str(x) for x in op) for op in h]
    return f


def run(ctx):
    q = ctx.quick
    exe = ctx.cc("h_array.c", "asan")
    # (1) design check: with the locking discipline no interleaving of 3 threads reads a freed bin table ...
    r = ctx.model_check("ArrayMC.tla", "ArrayMC.cfg", workers=4)
    ctx.check_vacuity(r, ["Call", "Lock", "CsRealloc", "LoadTable", "Unlock", "Deref"])
    # ... and the model of the code as it was before the fix does (keeps the model honest)
    r2 = ctx.model_check("ArrayMC.tla", "ArrayMC_asfound.cfg", workers=4, expect_violation="NoFreedTableRead", count=False)
    if r2.violated != "NoFreedTableRead":
        raise core.Infra("as-found array model no longer yields the freed-table read")
    # (2) spec -> code -> spec for every creation profile: return codes, address stability/disjointness, contents,
    #     and the lock / table-access discipline on every call
    total = 0
    for ci, cfg in enumerate(CONFIGS if not q else CONFIGS[:4]):
        consts = {"MAXE": cfg[0], "ESIZE": cfg[1], "AG": cfg[2]}
        hs = ctx.generate("ArrayGen.tla", "ArrayGen.cfg", mode="bfs", workers=4, consts=dict(consts, DEPTH=2 if q else 3), tag="ag-x%d" % ci)
        hs += ctx.generate("ArrayGen.tla", "ArrayGen.cfg", mode="simulate", num=300 if q else 5000, depth=42, workers=4,
                           consts=dict(consts, DEPTH=40), tag="ag-s%d" % ci)
        if ci == 2:
            ctx.sample({"create": cfg, "history": to_lines_cfg(cfg)(hs[-1])[:25]})
        total += ctx.exec_validate(exe, hs, to_lines_cfg(cfg), "ArrayTrace.tla", "ArrayTrace.cfg", label="c19-%d" % ci, nshards=8)
    # (3) two real threads under a deterministic scheduler: they yield after every release of the grow lock and between
    #     calls, so index/grow calls interleave at the granularity of critical sections; every result is validated as above
    import random
    rng = random.Random(ctx.seed * 977 + 3)
    progs = []
    for cfg in [(0, 8, 16), (1, 4, 1), (17, 3, 16)]:
        for _ in range(150 if q else 4000):
            lines = ["Create %d %d %d" % cfg]
            idxs = rng.sample([0, 1, 5, 15, 16, 17, 20, 31, 32, 40, 255, 256, 4096], 3)
            for t in (1, 2):
                for _ in range(rng.randint(1, 4)):
                    r = rng.random()
                    if r < 0.65:
                        lines.append("T%d Index %d" % (t, rng.choice(idxs)))
                    elif r < 0.85:
                        lines.append("T%d Write %d %d" % (t, rng.choice(idxs), rng.randint(1, 2)))
                    else:
                        lines.append("T%d Grow %d" % (t, rng.choice([1, 17, 33, 300])))
            lines.append("S " + " ".join(str(rng.randint(1, 2)) for _ in range(rng.randint(0, 24))))
            lines.append("Seed %d" % rng.randint(1, 10 ** 6))
            lines.append("Go")
            for i in idxs:
                lines.append("Index %d" % i)
            progs.append(lines)
    ctx.sample({"two_thread_program": progs[0]})
    ctx.exec_validate(exe, progs, lambda p: p, "ArrayTrace.tla", "ArrayTrace.cfg", label="c19-mt", nshards=8)
    ctx.cov["exhaustive"] = True
    ctx.assumptions += [
        "the concurrency clause is decided by the locking discipline plus scheduled two-thread runs (interleaving at critical-section granularity): TLC shows (3 threads, all interleavings) that the discipline excludes reads of a freed bin table; every recorded call of the real code is checked to follow the discipline (hook events), independent of the schedule observed",
        "element sizes / initial sizes / auto-grow settings from a fixed list of creation profiles; indices from a boundary set over the full range",
    ]
