"""C01 -- ring buffer, one writer + one reader: FIFO, exactly-once, untorn chunks in every interleaving.
Spec: spec/RingBuffer.tla (word level, one action per shared access), RingBufferMC.tla, RingBufferTrace.tla."""
import random
from vlib import core

LENS = [0, 1, 4, 5, 8, 12, 16, 1357, 2721, 4060, 4066, 4067, 4068, 4083, 4084, 4090]


def program(rng, nosem):
    lines = ["Ring 4083 %d" % nosem]
    nw = rng.randint(1, 7)
    big = rng.random() < 0.5
    for _ in range(nw):
        ln = rng.choice(LENS if big else LENS[:7] + [1357])
        lines.append("W Write %d %d" % (ln, rng.choice([0, 0, 1, 2, 3])))
    nr = rng.randint(1, 9)
    mode = rng.random()
    for _ in range(nr):
        if mode < 0.6 or not nosem:
            lines.append("R Read %d" % rng.choice([100000, 100000, 100000, 0, 6]))
        else:
            lines.append(rng.choice(["R Peek", "R Reclaim", "R Read 100000"]))
    # schedule: bursts of random length per thread, then a seeded random tail
    toks = []
    for _ in range(rng.randint(0, 30)):
        toks += [rng.choice("wr")] * rng.randint(1, 12)
    for i in range(0, len(toks), 40):
        lines.append("S " + " ".join(toks[i:i + 40]))
    lines.append("Seed %d" % rng.randint(1, 10 ** 6))
    lines.append("Go")
    return lines


def directed(nosem):
    P = []
    # reader runs while the writer is between publishing write_pt and the magic word, and vice versa
    for k in range(0, 12):
        P.append(["Ring 4083 %d" % nosem, "W Write 8 1", "W Write 4060 0", "R Read 100000", "R Read 100000", "R Read 100000",
                  "S " + " ".join(["w"] * k + ["r"] * 12 + ["w"] * 14 + ["r"] * 20), "Seed 1", "Go"])
    # nearly full ring, writer's next chunk wraps over the words the reader is just releasing
    for k in range(0, 16):
        P.append(["Ring 4083 %d" % nosem, "W Write 2721 0", "W Write 1300 1", "W Write 2721 2", "R Read 100000", "R Read 100000", "R Read 100000",
                  "S " + " ".join(["w"] * 22 + ["r"] * k + ["w"] * 4 + ["r"] * 16 + ["w"] * 12), "Seed 2", "Go"])
    return P


def run(ctx):
    q = ctx.quick
    exe = ctx.cc("h_rb_sched.c", "asan")
    # (1) design check: every interleaving of the per-access steps on a small ring
    for name in ("sem", "nosem"):
        txt = open(core.os.path.join(core.SPEC, "RingBufferMC_%s.cfg" % name)).read()
        if q:
            txt = txt.replace("NWrites = 3", "NWrites = 2")
        cfg = ctx.cfg("RingBufferMC_%s.cfg" % name, txt)
        r = ctx.model_check("RingBufferMC.tla", cfg, workers=8, timeout=1500, extra=[])
        ctx.check_vacuity(r, ["MCNext"])
    if not q:
        for name in ("sem", "nosem"):
            txt = open(core.os.path.join(core.SPEC, "RingBufferMC_%s.cfg" % name)).read().replace('ReadMode = "read"', 'ReadMode = "peek"').replace("NWrites = 3", "NWrites = 2")
            if name == "nosem":
                ctx.model_check("RingBufferMC.tla", ctx.cfg("RingBufferMC_%s_peek.cfg" % name, txt), workers=8, timeout=1500)
    # (2) code -> spec: the real ring under a deterministic two-thread scheduler, every step validated
    rng = random.Random(ctx.seed * 104729 + 1)
    for nosem, name in ((0, "sem"), (1, "nosem")):
        progs = directed(nosem) + [program(rng, nosem) for _ in range(3000 if q else 30000)]
        if nosem == 0:
            ctx.sample({"program": progs[0]})
            ctx.sample({"program": progs[-1]})
        ctx.exec_validate(exe, progs, lambda p: p, "RingBufferTrace.tla", "RingBufferTrace_%s.cfg" % name, label="c01-" + name)
    ctx.cov["exhaustive"] = True
    ctx.assumptions += [
        "interleavings are sequentially consistent at the granularity of the hook points (one per access to write_pt, read_pt, a length word, a magic word, the semaphore; memcpy of a payload is one step on the real code, word by word only in the model)",
        "hardware reorderings weaker than x86-TSO cannot be executed here: the requested memory order of every atomic access is recorded and must be release (stores) / acquire (loads)",
        "real-ring schedules are seeded random plus directed bursts, not an enumeration; the exhaustive part is the 12-word model",
    ]
