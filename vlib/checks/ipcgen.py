"""Seeded generator of IPC programs for harness/h_ipc_step.c (C02).
A program is a list of schedule lines: Connect, then client calls, server steps (SPoll / SForce),
server calls and Cb scripts (what the next msg_process invocation does).  It only generates inputs;
what the connection must do with them is decided by spec/IpcMsg.tla."""

LENS = ["16", "16", "16", "17", "24", "1000", "4096", "4096", "M-1", "M", "M+1"]
SMALL = ["16", "16", "17", "24", "100"]
WANT = [8192, 8192, 16384, 20001]        # requested max_msg_size (the library negotiates max(requested, 12328))


def ln(rng, pool=LENS):
    return rng.choice(pool)


def nested_op(rng, pool):
    """a call made while msg_process runs: by the server application, or by the (concurrent) client"""
    r = rng.random()
    if r < 0.30:
        return "%s %s" % (rng.choice(["SResp", "SRespv"]), ln(rng, pool))
    if r < 0.55:
        return "%s %s" % (rng.choice(["SEvent", "SEventv"]), ln(rng, pool))
    if r < 0.63:
        return "SRate %d" % rng.randint(0, 4)
    if r < 0.80:
        return "%s %s" % (rng.choice(["CSend", "CSendv"]), ln(rng, pool))
    if r < 0.88:
        return "CRecv"
    if r < 0.96:
        return "CEvRecv"
    return "CSendvRecv %s" % ln(rng, pool)


def cb_line(rng, pool):
    ret = rng.choice([0, 0, 0, -105, -11])
    ops = [nested_op(rng, pool) for _ in range(rng.choice([0, 0, 1, 1, 2, 3]))]
    return "Cb %d %s" % (ret, " ; ".join(ops))


def top_op(rng, pool, w):
    """one top-level step; w = weights of (csend, crecv, cevrecv, spoll, sresp, sevent, srate, fcmax, cb, sendvrecv, force)"""
    k = rng.choices(range(len(w)), weights=w)[0]
    if k == 0:
        return "%s %s" % (rng.choice(["CSend", "CSendv"]), ln(rng, pool))
    if k == 1:
        return "CRecv"
    if k == 2:
        return "CEvRecv"
    if k == 3:
        return "SPoll"
    if k == 4:
        return "%s %s" % (rng.choice(["SResp", "SRespv"]), ln(rng, pool))
    if k == 5:
        return "%s %s" % (rng.choice(["SEvent", "SEventv"]), ln(rng, pool))
    if k == 6:
        return "SRate %d" % rng.randint(0, 4)
    if k == 7:
        return "CFcMax %d" % rng.choice([0, 1, 2, 2, 3])
    if k == 8:
        return cb_line(rng, pool)
    if k == 9:
        return "CSendvRecv %s" % ln(rng, pool)
    return "SForce %d" % rng.choice([1, 4, 5, 4])


def drain(rng):
    """tail: flow control off, everything queued is delivered (so that 'exactly once' is exercised to the end)"""
    t = ["SRate 1", "CFcMax 1"]
    for _ in range(3):
        t += ["Until 60 SPoll", "Until 700 CEvRecv", "Until 700 CRecv", "SForce 4"]
    t += ["Until 60 SPoll", "Until 700 CEvRecv", "Until 700 CRecv", "SPoll", "CEvRecv", "CRecv"]
    return t


def program(rng, prof):
    tr = rng.choice(["shm", "sock"])
    p = ["Connect %s %d" % (tr, rng.choice(WANT))]
    if prof == "mix":
        w = [20, 8, 10, 14, 8, 12, 4, 2, 8, 3, 2]
        for _ in range(rng.randint(20, 90)):
            p.append(top_op(rng, LENS, w))
        p += drain(rng)
    elif prof == "evburst":
        # event bursts until the notification socket / the ring / the datagram socket refuses, partial drains,
        # POLLOUT handled late or early
        w = [4, 2, 6, 6, 2, 10, 1, 0, 3, 1, 6]
        for _ in range(rng.randint(3, 8)):
            p.append("Rep %d %s %s" % (rng.choice([40, 150, 277, 278, 279, 300, 520, 700]), rng.choice(["SEvent", "SEvent", "SEventv"]),
                                       ln(rng, SMALL)))
            for _ in range(rng.randint(0, 6)):
                p.append(top_op(rng, SMALL + ["4096", "M"], w))
            p.append("Rep %d CEvRecv" % rng.choice([1, 5, 100, 276, 277, 278, 279, 400, 700]))
            if rng.random() < 0.7:
                p.append(rng.choice(["SPoll", "SForce 4", "SForce 5"]))
        p += drain(rng)
    elif prof == "reqburst":
        # request bursts against rate limiting / flow control switched on and off mid-stream
        w = [10, 2, 2, 12, 3, 3, 10, 3, 10, 1, 2]
        for _ in range(rng.randint(3, 7)):
            p.append("SRate %d" % rng.randint(0, 4))
            if rng.random() < 0.3:
                p.append("StallHold %d" % rng.choice([0, 3, 20, 100]))
            if rng.random() < 0.4:
                p.append("CFcMax %d" % rng.randint(0, 2))
            p.append("Rep %d %s %s" % (rng.choice([3, 7, 49, 50, 51, 120, 290]), rng.choice(["CSend", "CSendv"]), ln(rng, SMALL)))
            for _ in range(rng.randint(2, 14)):
                p.append(top_op(rng, SMALL + ["4096"], w))
        p += drain(rng)
    else:   # "big": long messages, channels full after one or two of them, wrap-around of the rings
        pool = ["4096", "M", "M-1", "M+1", "17", "6000", "3000", "16"]
        w = [22, 8, 8, 12, 10, 10, 1, 0, 10, 4, 1]
        for _ in range(rng.randint(40, 120)):
            p.append(top_op(rng, pool, w))
        p += drain(rng)
    return p


def directed():
    """hand-written scenarios (each is one history); both transports"""
    P = []
    for tr in ("shm", "sock"):
        c = "Connect %s 8192" % tr
        # every length, every send call, to an EMPTY channel (must be accepted unless longer than the maximum)
        for L in ["16", "17", "4096", "M-1", "M", "M+1"]:
            P.append([c, "CSend " + L, "SPoll", "CSendv " + L, "SPoll", "Cb 0 SResp %s ; SEvent %s" % (L, L), "CSendvRecv " + L, "SPoll",
                      "CRecv", "CEvRecv", "SRespv " + L, "CRecv", "SEventv " + L, "CEvRecv", "SResp " + L, "SEvent " + L, "CRecv", "CEvRecv",
                      "CRecv", "CEvRecv"])
        # event burst beyond what the notification socket takes; drained in two halves around the POLLOUT handling
        P.append([c, "Rep 600 SEvent 16", "Rep 300 CEvRecv", "SPoll", "Rep 400 CEvRecv", "SPoll", "SEvent 17", "CEvRecv", "CEvRecv"])
        P.append([c, "Rep 300 SEvent 16", "Rep 100 CEvRecv", "Rep 100 SEvent 24", "SForce 4", "Rep 100 CEvRecv", "SPoll", "Rep 50 SEventv 17",
                  "Rep 500 CEvRecv", "SPoll", "Rep 500 CEvRecv"])
        # deferred notifications flushed by a later event send, and by a refused one (ring full)
        P.append([c, "Rep 290 SEvent 16", "Rep 200 CEvRecv", "SEvent 16", "Rep 100 CEvRecv", "Rep 600 SEvent 16", "Rep 300 CEvRecv",
                  "Rep 3 SEvent 16", "SPoll", "Rep 900 CEvRecv"])
        # exactly one / two / three notifications owed when POLLOUT is handled, or when the next event is sent
        for k in (1, 2, 3):
            P.append([c, "Rep %d SEvent 16" % (278 + k), "Rep 250 CEvRecv", "SPoll", "Until 100 CEvRecv", "SPoll", "CEvRecv"])
            P.append([c, "Rep %d SEvent 16" % (278 + k), "Rep 250 CEvRecv", "SEvent 17", "Until 100 CEvRecv", "SPoll", "Until 100 CEvRecv"])
            P.append([c, "Rep %d SEvent 16" % (278 + k), "SEvent 17", "Rep 250 CEvRecv", "SForce 5", "SEvent 17", "Until 100 CEvRecv", "SPoll", "CEvRecv"])
        # request bursts under the three rates: 50 / 5 / 1 per dispatch
        for rl in (0, 1, 2):
            P.append([c, "SRate %d" % rl, "Rep 120 CSend 16", "Rep 8 SPoll", "Rep 60 CSendv 17", "Rep 130 SPoll", "SPoll"])
        # request bursts beyond what the notification socket takes (shm: ~278 one-byte writes): the send call blocks until the
        # server has read some -- and must then report success, the request being queued already
        for rl in (0, 1, 2):
            P.append([c, "SRate %d" % rl, "Rep 330 CSend 16", "Rep 12 SPoll", "Rep 200 CSendv 17", "Until 700 SPoll", "SPoll"])
        # ... also when the server stays busy for a while (the send sees dozens of refusals before it can complete)
        for hold in (17, 60, 300):
            P.append([c, "StallHold %d" % hold, "Rep 300 CSendv 16", "Rep 5 SPoll", "Rep 40 CSend 17", "Until 700 SPoll", "StallHold 0"])
        P.append([c, "Rep 285 CSend 16", "SRate 3", "Rep 3 SPoll", "SRate 0", "Rep 10 CSend 24", "Until 700 SPoll", "Rep 300 CSendv 16", "Until 700 SPoll"])
        # notifications owed, requests switched off, the client drains every byte: handling POLLOUT must still write them
        for off in (3, 4):
            P.append([c, "Rep 600 SEvent 24", "SRate %d" % off, "Until 700 CEvRecv", "SPoll", "Until 700 CEvRecv", "SPoll", "Until 700 CEvRecv",
                      "SForce 4", "Until 700 CEvRecv", "SRate 1", "SPoll", "Until 700 CEvRecv"])
            P.append([c, "Rep 400 SEvent 16", "Rep 260 CEvRecv", "SRate %d" % off, "SPoll", "Until 700 CEvRecv", "SForce 5", "Until 700 CEvRecv",
                      "SRate 1", "SPoll", "Until 700 CEvRecv"])
        # flow control: OFF blocks sends; OFF_2 blocks only a client that asked for it; the server does not dispatch meanwhile
        P.append([c, "CSend 16", "SRate 3", "CSend 16", "CSendv 16", "CSendvRecv 16", "SPoll", "CFcMax 0", "CSend 17", "SPoll", "SRate 4", "CSend 16",
                  "CFcMax 2", "CSend 16", "CFcMax 1", "CSend 24", "SPoll", "SRate 1", "SPoll", "SPoll", "CSend 16", "SPoll"])
        # flow control switched on inside msg_process: the dispatch stops after that request
        P.append([c, "SRate 0", "Rep 10 CSend 16", "Cb 0", "Cb 0 SRate 3", "SPoll", "CSend 16", "SPoll", "SRate 0", "SPoll", "SPoll"])
        # msg_process backs off (negative return): the request is still consumed exactly once
        P.append([c, "SRate 0", "Rep 6 CSend 17", "Cb -105", "Cb 0", "Cb -11 SResp 16", "SPoll", "SPoll", "SPoll", "CRecv", "CRecv"])
        # request ring full of long messages; the client keeps sending while msg_process runs (ring wraps onto the
        # space of the request being processed if it was released too early)
        P.append([c, "SRate 2", "Rep 5 CSend 4096"] + ["Cb 0 CSend 4096 ; CSend 4096 ; CSend 16"] * 6 + ["Rep 12 SPoll"])
        P.append([c, "SRate 2", "Rep 3 CSend 6000"] + ["Cb 0 CSend 6000 ; CSendv 3000 ; CSend 17"] * 6 + ["Rep 14 SPoll"])
        P.append([c, "SRate 2", "CSend M", "Cb 0 CSend M ; CSend M-1", "SPoll", "Cb 0 CSend 4096", "SPoll", "Rep 4 SPoll"])
        # responses queued while requests are in flight, fetched with sendv_recv
        P.append([c, "Cb 0 SResp 16 ; SResp 17", "Cb 0 SRespv 4096", "CSend 16", "CSend 16", "SPoll", "CSendvRecv 16", "CSendvRecv 16", "CSendvRecv 16",
                  "CSendvRecv 16", "SPoll", "SPoll"])
        # the combined call waits for a slow server (2.3 s of real time: longer than the library's internal 2 s wait slice):
        # the request is queued once, whatever the wait does
        P.append([c, "CSendvRecv 24 2300", "SPoll", "CRecv", "CSendvRecv 16", "SPoll", "CRecv", "CRecv"])
        # the application's receive buffer is smaller than the message that is waiting: whatever the call returns, it
        # writes nothing past the buffer (the schedule ends there)
        for n in (16, 64, 1000):
            P.append([c, "SResp 4096", "CRecvSmall %d" % n])
            P.append([c, "SEvent 4096", "CEvRecvSmall %d" % n])
            P.append([c, "SResp M", "SEvent M", "CEvRecvSmall %d" % n])
        # response channel full
        P.append([c, "Rep 5 SResp M", "Rep 4 SResp 4096", "Rep 3 CRecv", "Rep 3 SRespv M-1", "Rep 12 CRecv"])
        P.append([c, "Rep 700 SResp 16", "Rep 300 CRecv", "Rep 300 SRespv 17", "Rep 800 CRecv"])
    return P


def kf1_repro(tr="shm"):
    """KF-C02-1: the client drains every notification byte while the server still owes notifications"""
    # (does not depend on how many bytes the socket takes: the client reads until it is told there is nothing)
    return ["Connect %s 8192" % tr, "Rep 600 SEvent 16", "Until 700 CEvRecv", "CEvRecv", "SPoll", "Until 700 CEvRecv"]


def kf2_repro(tr, call):
    """KF-C02-2: a response / a vectored event longer than the negotiated maximum is accepted"""
    return ["Connect %s 8192" % tr, "%s M+1" % call, "SResp 16", "SEvent 16", "CRecv", "CEvRecv", "CRecv", "CEvRecv"]
