"""X01 (beyond the listed properties) -- qb_util_stopwatch: elapsed time, splits, overwrite ring.
Spec: spec/Stopwatch.tla (+ StopwatchGen / StopwatchTrace), harness/h_stopwatch.c.  DESIGN.md section 7."""
from vlib import core


def to_lines(h):
    return [" ".join(str(x) for x in op) for op in h]


def run(ctx):
    q = ctx.quick
    exe = ctx.cc("h_stopwatch.c", "asan")
    r = ctx.model_check("Stopwatch.tla", "StopwatchMC.cfg")
    hs = ctx.generate("StopwatchGen.tla", "StopwatchGen.cfg", mode="bfs", consts={"DEPTH": 4 if q else 5})
    n1 = len(hs)
    hs += ctx.generate("StopwatchGen.tla", "StopwatchGen_sim.cfg", mode="simulate", num=3000 if q else 30000,
                       depth=64, consts={"DEPTH": 40 if q else 60})
    for h in (hs[:1] + hs[n1:n1 + 1]):
        ctx.sample({"history": to_lines(h)})
    ctx.exec_validate(exe, hs, to_lines, "StopwatchTrace.tla", "StopwatchTrace.cfg", label="x01")
    ctx.cov["histories_exhaustive"] = n1
    ctx.cov["histories_random_walk"] = len(hs) - n1
    ctx.cov["exhaustive"] = True
    ctx.assumptions += [
        "the clock is virtual (clock_gettime defined by the harness) and moves in whole microseconds",
        "qb_util_stopwatch_split_ctl is generated only while no split is stored (the header does not say what re-dimensioning does to stored splits)",
    ]
