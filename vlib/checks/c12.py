"""C12 -- log routing.  Spec: spec/LogRoute.tla (+ LogRouteU universes).  See DESIGN.md section 4 (C12)."""
import os
from vlib import core

def tok(x):
    return ".".join(str(c) for c in x) if isinstance(x, list) else str(x)


def to_lines(h):
    """op tuples -> harness schedule lines; text = '.'-joined character codes; Open takes no argument
    (the harness reports the slot libqb returned)"""
    return [op[0] if op[0] == "Open" else " ".join(tok(x) for x in op) for op in h]


def T(s):
    return ".".join(str(ord(c)) for c in s)


FILE, FUNC, FORMAT, FILE_RE, FUNC_RE, FORMAT_RE = range(6)
S1 = "Log %s %s 1 4 %s" % (T("a.c"), T("f"), T("xyz"))      # call site a.c:1 f() prio 4 "xyz"

# Recorded findings: directed reproducers (schedules for h_log).  A finding is "active" while one of its
# reproducers is still rejected; generators then leave out exactly its trigger (LogRoute!KFn).
KF = {
    1: ("KF-C12-1",
        [["Open", "Add 1 %d %s 0 7" % (FILE, T("*")), S1, "Enable 1", S1]],
        "a call site first executed while a target is disabled never reaches that target after it is enabled: "
        "qb_log_callsite_get2 replays the stored filters only for ENABLED targets (Open; Add t '*'; Log s; Enable t; Log s -> not delivered)"),
    2: ("KF-C12-2",
        [["Open", "Add 1 %d %s 0 7" % (FILE, T("*")), "Close 1", "Open", "Enable 1", S1]],
        "a re-opened target slot inherits the closed target's filters: qb_log_target_free passes text=NULL to "
        "qb_log_filter_ctl(CLEAR_ALL), which qb_log_filter_ctl2 rejects with -EINVAL (Open; Add t '*'; Close t; Open; Enable; Log s -> delivered)"),
    3: ("KF-C12-3",
        [["Open", "Enable 1", "Add 1 %d %s 0 7" % (FILE, T("*")), "Add 1 %d %s 0 7" % (FUNC, T("f")), S1,
          "Remove 1 %d %s 0 7" % (FUNC, T("f")), S1],
         ["Open", "Enable 1", "Add 1 %d %s 0 7" % (FILE, T("*")), "TagSet 1 %d %s 0 7" % (FILE, T("*")),
          "TagSet 2 %d %s 0 7" % (FUNC, T("f")), S1, "TagClear %d %s 0 7" % (FUNC, T("f")), S1]],
        "REMOVE / TAG_CLEAR clear the bit (tag) of every existing call site the removed rule matches even when a remaining "
        "rule still selects it; a call site created later gets the remaining rules replayed, so routing depends on when the "
        "call site was first executed (Add t '*'; Add t func f; Log s; Remove t func f; Log s -> not delivered, its twin is)"),
    4: ("KF-C12-4",
        [["Open", "Enable 1", "Add 1 %d %s 0 7" % (FILE_RE, T("^a")), S1, "Remove 1 %d %s 0 7" % (FILE_RE, T("^a")), S1],
         ["Open", "Enable 1", "Add 1 %d %s 0 7" % (FILE, T("*")), "TagSet 1 %d %s 0 7" % (FORMAT_RE, T("z$")), S1,
          "TagClear %d %s 0 7" % (FORMAT_RE, T("z$")), S1]],
        "REMOVE / TAG_CLEAR of a regex rule deletes the stored rule but leaves existing call sites selected / tagged: "
        "qb_log_filter_ctl2 applies the removal with regex=NULL, which never matches (Add t file-regex ^a; Log s; Remove; Log s -> still delivered)"),
}


def trace_cfg(ctx):
    return os.path.join(core.SPEC, "LogRouteTrace.cfg")


def probe(ctx, exe):
    """which recorded findings does the implementation under test still have?"""
    from concurrent.futures import ThreadPoolExecutor
    status = {k["id"]: k.get("status") for k in core.load_known()}

    def rejected(job):
        kfid, i, lines = job
        s = os.path.join(ctx.work, "%s-%d.sched" % (kfid, i))
        t = os.path.join(ctx.work, "%s-%d.ndjson" % (kfid, i))
        open(s, "w").write("\n".join(lines) + "\n")
        rc, so, se = ctx.run([exe, s, t], timeout=60)
        return rc != 0 or not ctx.validate("LogRouteTrace.tla", trace_cfg(ctx), t).accepted

    jobs = [(KF[n][0], i, lines) for n in sorted(KF) for i, lines in enumerate(KF[n][1])]
    with ThreadPoolExecutor(max_workers=max(1, int(os.environ.get("VERIF_JOBS", "1") or 1))) as ex:
        res = list(ex.map(rejected, jobs))
    active = []
    for n, (kfid, scheds, what) in sorted(KF.items()):
        if not any(r for (k, _, _), r in zip(jobs, res) if k == kfid):
            ctx.notes.append("%s no longer reproduces: its trigger is not excluded from generation" % kfid)
            continue
        if status.get(kfid) == "fixed":
            # recorded as repaired, but the reproducer fails again: a regression, not a known finding
            p = ctx.save(kfid + ".sched", "\n".join(scheds[0]) + "\n")
            ctx.violation("%s is recorded as fixed but its reproducer is rejected again" % kfid, p)
        else:
            ctx.known(kfid, what)
        active.append(n)
    return active


def gen(ctx, uni, nt, tagvals, bounds, depth, how, act, num=0, tag="", junk=2, workers=None):
    cfg = ctx.cfg("LogRouteGen_%s%s.cfg" % (uni, tag),
                  "CONSTANTS NT = %d  TagVals = {%s}  MaxRules = %d  MaxTag = %d  MaxKnown = %d\n" % (
                      (nt, ", ".join(map(str, tagvals))) + tuple(bounds)) +
                  "CONSTANTS Sites <- %sSites  Rules <- %sRules  TRules <- %sTRules  Bugs <- NoBugs\n" % (uni, uni, uni) +
                  "SPECIFICATION %s\nCONSTRAINT Emit\nCHECK_DEADLOCK FALSE\n" % ("GenSpec" if how == "bfs" else "GenSpecR"))
    kfact = "".join(str(n) for n in act) or "0"
    # random walks: one worker (TLC's RandomElement stream is per run), step budget well above the history length
    return ctx.generate("LogRouteGen.tla", cfg, mode=how, num=num, depth=15 * depth, workers=workers if how == "bfs" else 1,
                        consts={"DEPTH": depth, "KFACT": kfact, "JUNK": junk}, tag="gen-%s%s" % (uni, tag))


def run(ctx):
    from concurrent.futures import ThreadPoolExecutor
    q = ctx.quick
    exe = ctx.cc("h_log.c", "asan")
    # TLC runs use 4 workers and run one after the other; VERIF_JOBS=n lets n independent runs go side by side
    jobs = max(1, int(os.environ.get("VERIF_JOBS", "1") or 1))
    pool = ThreadPoolExecutor(max_workers=jobs)

    # (2, submitted first because generation waits for it) which recorded findings are still present in this
    #     tree?  directed reproducers, nothing excluded
    f_probe = pool.submit(probe, ctx, exe)

    # (1) design check: the mechanism the property requires (Bugs = {}) satisfies the property in every
    #     reachable state of the bounded model
    f_main = pool.submit(ctx.model_check, "LogRouteMC.tla", "LogRouteMC.cfg" if q else "LogRouteMC_thorough.cfg", 4)
    f_tags = pool.submit(ctx.model_check, "LogRouteMC.tla", "LogRouteMC_tags.cfg", 4)
    # model-level reproducers: each recorded deviation, switched on in the model, must yield a counterexample
    base = open(os.path.join(core.SPEC, "LogRouteMC.cfg")).read().replace("INVARIANT TypeOK\n", "")
    f_kf = {}
    for n, inv in ((1, "Routing"), (2, "UnusedClean"), (3, "Routing"), (4, "Routing")):
        cfg = ctx.cfg("LogRouteMC_kf%d.cfg" % n, base.replace("NoBugs", "BugKF%d" % n))
        f_kf[n] = (inv, pool.submit(ctx.model_check, "LogRouteMC.tla", cfg, 2, expect_violation=inv, count=False))
    # and the model with all deviations on, minus exactly the trigger steps, satisfies the property:
    # the trigger predicates that steer generation are complete for the modelled deviations
    f_asis = [pool.submit(ctx.model_check, "LogRouteMC.tla", "LogRouteMC_asis%s.cfg" % v, 4, count=False) for v in ("", "_tags")]

    act = f_probe.result()
    ctx.log("recorded findings still reproducing:", act)

    # (3) spec -> code -> spec: model histories executed on the real library, every call validated by TLC
    #     (the generator appends a closing probe to every history: enable every slot, log from every call site)
    xd = 4 if q else 5
    f_x = pool.submit(gen, ctx, "UX", 1, [1], (2, 1, 3), xd, "bfs", act, junk=1, workers=4)
    plan = [("U1", 2, [1, 2], (3, 3, 5)), ("U2", 3, [1, 2], (4, 3, 7)), ("U3", 3, [1, 2, 3], (4, 3, 7)), ("U4", 3, [1, 2], (5, 4, 10)),
            ("U1", 3, [1], (5, 2, 5)), ("U2", 2, [1, 2, 3], (6, 4, 7)), ("U3", 2, [1, 2], (6, 4, 7)), ("U4", 2, [1, 2, 3], (6, 5, 10))]
    if q:
        plan = plan[:4]
    f_s = [pool.submit(gen, ctx, uni, nt, tv, bounds, 30 if q else 45, "simulate", act, num=(600 if q else 6000), tag="-%d" % i)
           for i, (uni, nt, tv, bounds) in enumerate(plan)]
    r = f_main.result()
    ctx.check_vacuity(r, ["Open", "Close", "SetState", "AAdd", "Remove", "ClearAll", "ALog"])
    r = f_tags.result()
    ctx.check_vacuity(r, ["ATagSet", "TagClear", "TagClearAll", "ALog"])
    for n, (inv, f) in f_kf.items():
        if f.result().violated != inv:
            raise core.Infra("model-level reproducer for KF-C12-%d found no counterexample" % n)
    for f in f_asis:
        f.result()
    hs = f_x.result()
    n1 = len(hs)
    for f in f_s:
        hs += f.result()
    pool.shutdown()
    for h in (hs[n1 // 2:n1 // 2 + 1] + hs[n1:n1 + 2]):
        ctx.sample({"history": to_lines(h)})
    # directed: the histories of the repaired findings (they must stay repaired), and regular expressions whose reading
    # differs between POSIX basic syntax (what the stored rule is compiled with) and extended syntax, added and removed
    # around call sites that exist already
    SP = "Log %s %s 4 4 %s" % (T("b.c"), T("f"), T("x+z"))
    SX = "Log %s %s 5 4 %s" % (T("ab.c"), T("g"), T("xxz"))
    directed = [sc for n in sorted(KF) for sc in KF[n][1]]
    for pat in ("x+z", "^x|y", "x?z", "x{2}z", "^x(x"):
        directed.append(["Open", "Enable 1", SP, SX, S1, "Add 1 %d %s 0 7" % (FORMAT_RE, T(pat)), SP, SX, S1,
                         "Remove 1 %d %s 0 7" % (FORMAT_RE, T(pat)), SP, SX, S1, "Add 1 %d %s 0 7" % (FILE, T("*")),
                         "TagSet 3 %d %s 0 7" % (FORMAT_RE, T(pat)), SP, SX, S1, "TagClear %d %s 0 7" % (FORMAT_RE, T(pat)), SP, SX, S1])
    # comma-separated lists in which the call site's name first occurs inside a longer alternative
    SG = "Log %s %s 6 4 %s" % (T("b.c"), T("g"), T("yz"))
    SFG = "Log %s %s 7 4 %s" % (T("ab.c"), T("fg"), T("x"))
    for typ, txt in ((FUNC, "fg,g"), (FUNC, "g,fg"), (FILE, "ab.c,b.c"), (FILE, "b.c,ab.c"), (FUNC, "xfg,fgx,fg"), (FILE, "b.cc,ab.c")):
        directed.append(["Open", "Enable 1", SG, "Add 1 %d %s 0 7" % (typ, T(txt)), SG, SFG, S1, "Remove 1 %d %s 0 7" % (typ, T(txt)), SG, SFG, S1])
    # a format-substring filter (and tag rule) whose text contains a comma is one substring, not a list
    SC = "Log %s %s 8 4 %s" % (T("b.c"), T("g"), T("x,z"))
    SZ = "Log %s %s 9 4 %s" % (T("b.c"), T("g"), T("z"))
    directed.append(["Open", "Enable 1", SC, SZ, S1, "Add 1 %d %s 0 7" % (FORMAT, T("x,z")), SC, SZ, S1, "Open", "Enable 2",
                     "Add 2 %d %s 0 7" % (FORMAT, T("z")), "TagSet 3 %d %s 0 7" % (FORMAT, T("x,z")), SC, SZ, S1,
                     "Remove 1 %d %s 0 7" % (FORMAT, T("x,z")), SC, SZ, S1, "TagClear %d %s 0 7" % (FORMAT, T("x,z")), SC, SZ, S1])
    # call sites that pass a tag of their own (line 105 = own tag 5) keep it whatever rules exist, whenever they first ran
    OA = "Log %s %s 105 4 %s" % (T("a.c"), T("f"), T("xyz"))
    OB = "Log %s %s 107 4 %s" % (T("b.c"), T("g"), T("xyz"))
    directed.append(["Open", "Enable 1", "Add 1 %d %s 0 7" % (FILE, T("*")), OA, "TagSet 3 %d %s 0 7" % (FORMAT, T("xyz")), OA, OB, S1,
                     "TagClear %d %s 0 7" % (FORMAT, T("xyz")), OA, OB, S1, "TagSet 2 %d %s 0 7" % (FILE, T("*")), OA, OB, S1])
    hs += [[ln.split() for ln in sc] for sc in directed]
    ctx.exec_validate(exe, hs, to_lines, "LogRouteTrace.tla", trace_cfg(ctx), label="c12", nshards=4 * min(jobs, 4))
    # (4) threaded targets: with the logging thread started and TWO threaded targets selected by the same call sites, each
    #     receives every message exactly once, in order (call-level events of free-running executions against LogThreadFree)
    import random
    from vlib.checks import c16
    exe_t = ctx.cc("h_logthread.c", "asan")
    progs = [p for p in c16.free_programs(random.Random(ctx.seed), 12 if q else 90, set()) if "Second" in p]
    ctx.sample({"threaded_program": progs[0]})
    ctx.exec_validate(exe_t, progs, lambda p: p, "LogThreadFreeTrace.tla", os.path.join(core.SPEC, "LogThreadFreeTrace.cfg"),
                      label="c12-threaded", nshards=4, timeout=900)
    ctx.cov["threaded_two_target_programs"] = len(progs)
    ctx.cov["histories_exhaustive_depth"] = xd
    ctx.cov["histories_exhaustive"] = n1
    ctx.cov["histories_random_walk"] = len(hs) - n1
    ctx.cov["findings_excluded_from_generation"] = [KF[n][0] for n in act]
    ctx.cov["exhaustive"] = True
    ctx.assumptions += [
        "targets are custom targets in the dynamic slots; the static targets (syslog, stderr, stdout, blackbox) stay disabled and unobserved",
        "call sites come from qb_log_from_external_source with tags argument 0 and a plain, non-empty format; (file, line) -> function is functional",
        "filter texts are well-formed (no empty comma tokens); regular expressions from the subset literal, '.', atom'*', leading '^', trailing '$'",
        "REMOVE / TAG_CLEAR are generated with parameters that name exactly one stored rule or none (which rule a wider REMOVE takes out is not stated by the property)",
        "return codes asserted: 0 on success, -EBADF on a closed slot; the code for re-adding an existing rule is left open",
        ("steps falling under the recorded findings %s are left out of generated behaviours (LogRoute!KFTrigger); each has a directed reproducer and a model-level reproducer" % ", ".join(KF[n][0] for n in act))
        if act else "no recorded finding reproduces on this tree: nothing is left out of generated behaviours",
        "bounded model: see model_runs constants; histories beyond the exhaustively enumerated depth are sampled, not enumerated",
        "routing histories are single-threaded (synchronous targets); threaded delivery is exercised separately with two threaded targets "
        "selected by every call (stage 4, LogThreadFree); memory errors are observed by ASan/UBSan on the harness",
    ]
