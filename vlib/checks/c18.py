"""C18 -- map iterators stay valid under removal/insertion.  Spec: spec/Map.tla (iterator part)."""
from vlib import core
from vlib.checks import maps

KF = {"hash": "KF-C18-1", "trie": "KF-C18-2"}
# recorded findings per implementation: their trigger steps are left out (harness --kf-skip) only while one is still "known"
KFS = {"hash": {"KF-C18-1": "--kf-skip-ghost"}, "skip": {"KF-C18-3": "--kf-skip-ghost"},
       "trie": {"KF-C18-2": "--kf-skip-ghost", "KF-C18-4": "--kf-skip-split"}}


def closing(keys, maxiter):
    """free every iterator, then probe the map like a dictionary (count, get of every key, full iteration)"""
    return [["IterFree", i] for i in range(1, maxiter + 1)] + [["Count"]] + [["Get", k] for k in keys] + [["IterAll", 0, 0]]


def run(ctx):
    q = ctx.quick
    exe = ctx.cc("h_map.c", "asan")
    for impl, keys, mi in (("hash", [1, 2, 3], 1), ("skip", [1, 2], 2), ("trie", [1, 2, 3], 1)):
        cfg = ctx.cfg("MapMC_iter_%s.cfg" % impl, maps.consts(impl, keys, 1, mi, [], False) +
                      "SPECIFICATION Spec\nINVARIANT TypeOK\nINVARIANT IterBook\nINVARIANT EndedComplete\nCHECK_DEADLOCK FALSE\n")
        r = ctx.model_check("Map.tla", cfg)
        ctx.check_vacuity(r, ["Put", "Rm", "AIterCreate", "AIterNext", "AIterFree"])
    keysets = [[1, 2, 3], [2, 3, 4, 5], [1, 6, 7], [2, 4, 8], [1, 2, 3, 4, 5, 6, 7, 8]]
    for impl in maps.IMPLS:
        hs = []
        for h in maps.gen(ctx, impl, [2, 3], 1, 2, [], False, "iter", 4 if q else 5, "bfs", tag="-x"):
            hs.append(h + closing([2, 3], 2))
        nx = len(hs)
        for i, ks in enumerate(keysets):
            for h in maps.gen(ctx, impl, ks, 2, 3 if i % 2 else 2, [], False, "iter", 24 if q else 40, "simulate",
                              num=(300 if q else 6000), tag="-s%d" % i):
                hs.append(h + closing(ks, 3))
        # directed: several removals while removed entries are still held by iterators (the history of the repaired
        # KF-C18-3, and the shape of tests/check_map.c:test_map_iter_safety), on every implementation
        hs.append([["IterCreate", 2, 0], ["Put", 3, 2], ["IterNext", 2], ["Rm", 3], ["Put", 1, 2], ["Rm", 1], ["IterNext", 2]] + closing([1, 3], 2))
        hs.append([["Put", 1, 1], ["Put", 2, 1], ["Put", 3, 1], ["IterCreate", 1, 0], ["IterCreate", 2, 0], ["IterNext", 1], ["IterNext", 1],
                   ["Rm", 2], ["Rm", 3], ["Rm", 1], ["Put", 5, 2], ["IterNext", 2], ["Put", 7, 2], ["IterNext", 2], ["IterNext", 2], ["IterFree", 2],
                   ["IterNext", 1], ["IterNext", 1], ["IterNext", 1]] + closing([1, 2, 3, 5, 7], 2))
        # the history of the repaired KF-C18-1 / KF-C18-2 (an entry removed under a parked iterator is gone at once)
        if True:
            hs.append([["Put", 1, 1], ["IterCreate", 1, 0], ["IterNext", 1], ["Rm", 1], ["Get", 1], ["Rm", 1], ["Count"], ["Put", 1, 2], ["Get", 1],
                       ["IterCreate", 2, 0], ["IterNext", 2], ["IterNext", 2], ["IterNext", 1]] + closing([1], 2))
        # the history of the repaired KF-C18-4 (trie: a put splits the node an iterator is parked on)
        hs.append([["Put", 3, 1], ["IterCreate", 2, 3 if impl == "trie" else 0], ["IterNext", 2], ["Put", 2, 1], ["IterFree", 2], ["Get", 2], ["Get", 3],
                   ["IterCreate", 1, 0], ["IterNext", 1], ["Put", 4, 1], ["Put", 1, 1], ["IterNext", 1], ["IterNext", 1]] + closing([1, 2, 3, 4], 2))
        # the entry under an iterator is removed while several smaller and larger entries stay: the iterator goes on
        # with exactly the larger ones (the successor of a removed entry is looked up again, from any depth of the list)
        for ks in ([1, 2, 3, 4, 5], [2, 3, 4, 5, 8], [1, 2, 3, 4, 5, 6, 7, 8]):
            for at in range(2, len(ks)):
                h = [["Put", k, 1] for k in ks] + [["IterCreate", 1, 0]] + [["IterNext", 1]] * at
                h += [["Rm", k] for k in ks[at - 1:at]] + [["IterNext", 1]] * (len(ks) - at + 1)
                hs.append(h + closing(ks, 2))
        if impl == "skip":
            ctx.sample({"impl": impl, "history": maps.to_lines(hs[nx])})
        ctx.log("%s: %d histories (%d exhaustive)" % (impl, len(hs), nx))
        # generated behaviours, with the steps that fall under the recorded finding left out (hashtable, trie)
        known = {k["id"] for k in core.load_known() if k.get("status") == "known"}
        skip = [flag for kfid, flag in KFS[impl].items() if kfid in known]
        ctx.exec_validate(exe, hs, maps.to_lines, "MapTrace.tla", maps.trace_cfg(ctx, impl),
                          harness_args=[impl] + skip + ["--seed", str(ctx.seed)], label="c18-" + impl)
    # recorded findings: directed reproducers (run without --kf-skip)
    maps.kf_repro(ctx, exe, "hash", "KF-C18-1", ["Put 1 1", "IterCreate 1 0", "IterNext 1", "Rm 1", "Get 1"],
                  "hashtable: an entry removed while an iterator is parked on it stays visible to get/rm/put and to other iterations until that iterator moves on (Put a; iter parked on a; Rm a; Get a returns the value)")
    maps.kf_repro(ctx, exe, "trie", "KF-C18-2", ["Put 1 1", "IterCreate 1 0", "IterNext 1", "Rm 1", "Get 1"],
                  "trie: an entry removed while an iterator is parked on it stays visible to get/rm/put and to other iterations until that iterator moves on")
    maps.kf_repro(ctx, exe, "skip", "KF-C18-3", ["IterCreate 2 0", "Put 3 2", "IterNext 2", "Rm 3", "Put 1 2", "Rm 1", "IterNext 2"],
                  "skiplist: a second removal while a removed entry is still held by an iterator frees the forward array both share (heap-use-after-free in skiplist_node_next)")
    maps.kf_repro(ctx, exe, "trie", "KF-C18-4", ["Put 3 1", "IterCreate 2 3", "IterNext 2", "Put 2 1", "IterFree 2", "Get 2"],
                  "trie: inserting a key that splits the node an iterator is parked on moves the entry to a new node; the iterator then releases the wrong node and the inserted key disappears")
    ctx.cov["exhaustive"] = True
    ctx.assumptions += [
        "the findings KF-C18-1..4 are repaired: nothing is left out of generated behaviours (a harness switch per trigger family exists and is passed only while a finding of that implementation is recorded as known)",
        "iterators are not advanced again after they reported the end",
        "values are non-NULL; keys from the 8-key aliasing alphabet",
        "memory errors are observed by ASan/UBSan on the harness (an abort is a rejected history)",
    ]
