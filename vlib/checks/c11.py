"""C11 -- overwrite ring / blackbox always keeps the newest records, intact.  Spec: spec/RingAbs.tla (overwrite mode)."""
from vlib import core
from vlib.checks import rings


def run(ctx):
    q = ctx.quick
    exe = ctx.cc("h_rb_seq.c", "asan")
    r = ctx.model_check("RingAbsMC.tla", "RingAbsMC.cfg", workers=4)
    ctx.check_vacuity(r, ["Open", "AWrite", "ARead", "APeek", "Reclaim", "Close"])
    hs = []
    for S, nosem, d in ([(4083, 1, 3), (100, 0, 3)] if q else [(4083, 1, 4), (4083, 0, 3), (4084, 1, 3), (100, 0, 4), (100, 1, 3), (8179, 0, 3)]):
        hs += rings.gen(ctx, S, True, nosem, d, "bfs", 0, True, "ox%d-%d" % (S, nosem))
    nx = len(hs)
    sizes = [1, 17, 4082, 4083, 4084, 4085, 8179, 8180, 12288] if q else \
            [1, 17, 100, 4082, 4083, 4084, 4085, 4087, 8179, 8180, 8183, 12288, 65536]
    for i, S in enumerate(sizes):
        hs += rings.gen(ctx, S, True, i % 2, 40 if q else 80, "simulate", 150 if q else 1200, False, "os%d" % S)
    for h in hs:
        h.extend(rings.drain(10))          # read the retained chunks back: they must be the newest ones, unbroken
    ctx.sample({"history": rings.to_lines(hs[0])})
    ctx.sample({"history": rings.to_lines(hs[nx])[:30]})
    ctx.log("%d histories (%d exhaustive)" % (len(hs), nx))
    ctx.exec_validate(exe, hs, rings.to_lines, "RingAbsTrace.tla", "RingAbsTrace.cfg", label="c11")
    # (3) the logging blackbox: numbered records mixing tiny and near-maximum sizes (long function names make the
    #     reservation matter), a dump + print after every few records: the printed records must be an unbroken run of
    #     the newest ones ending with the very last one (validated against spec/BbFile.tla, shared with C15)
    import random
    from vlib.checks import c15
    bexe = ctx.cc("h_bbfile.c", "asan")
    rng = random.Random(ctx.seed * 31 + 5)
    walks = []
    for size in ([1024, 4083] if q else [1024, 4083, 9000, 20000]):
        for _ in range(2 if q else 12):
            w = ["Init %d" % size]
            for i in range(120 if q else 300):
                if rng.random() < 0.3:
                    w.append("Log %d 2 %d %d %d" % (rng.randint(0, 7), rng.choice([0, 5]), rng.choice([1, 2]), rng.choice([440, 452, 460])))
                else:
                    w.append("Log %d %d 0 %d %d" % (rng.randint(0, 7), rng.randint(0, 2), rng.choice([0, 0, 1]), rng.choice([0, 1, 3])))
                if rng.random() < 0.6:
                    w += ["Dump", "Print none keep ok same same ok ok 0 x x"]
            walks.append(w)
    ctx.sample({"blackbox_walk": walks[0][:24]})
    ctx.exec_validate(bexe, walks, lambda x: x, "BbFileTrace.tla", c15.trace_cfg(ctx, "BbFileTrace_c11.cfg", c15.skipped_ids()),
                      label="c11-bb", nshards=4, timeout=1800)
    # (3b) the same with the blackbox configured differently: (i) it takes every message (filter "*" at LOG_TRACE, as
    #      daemons configure it), so the library's own trace messages land in it too -- a dump must still hold an unbroken
    #      run of the application's newest records ending with the very last one (DumpAll); (ii) a maximum line length
    #      above the default 512 with messages to match (dumps only: the printer stops at 512 characters by design)
    walks2 = []
    for size in ([1024, 6000] if q else [1024, 4083, 6000, 20000]):
        for _ in range(2 if q else 8):
            w = ["InitAll %d" % size]
            for i in range(90 if q else 250):
                w.append("Log %d %d %d %d %d" % (rng.randint(0, 7), rng.randint(0, 2), i + 1, rng.choice([0, 1, 1, 3]), rng.choice([0, 1, 3, 200, 440])))
                if rng.random() < 0.5:
                    w.append("DumpAll")
            walks2.append(w)
    for size, ml in ([(9000, 1500), (4083, 900)] if q else [(9000, 1500), (4083, 900), (20000, 3000), (1024, 700)]):
        for _ in range(2 if q else 6):
            w = ["Init %d %d" % (size, ml)]
            for i in range(80 if q else 250):
                w.append("Log %d %d %d %d %d" % (rng.randint(0, 7), rng.randint(0, 2), i + 1, rng.choice([1, 3]),
                                                 rng.choice([0, 3, 300, 520, 600, ml - 120, ml - 60])))
                if rng.random() < 0.5:
                    w.append(rng.choice(["Dump", "DumpAll"]))
            walks2.append(w)
    ctx.exec_validate(bexe, walks2, lambda x: x, "BbFileTrace.tla",
                      ctx.cfg("BbFileTrace_c11b.cfg", 'CONSTANTS KFSkip = {}  MaxFoot = 6400\nSPECIFICATION TraceSpec\nINVARIANT TypeOK\nINVARIANT DumpIsSnapshot\n'
                              'POSTCONDITION TraceAccepted\nCHECK_DEADLOCK FALSE\n'),
                      label="c11-bb2", nshards=4, timeout=1800)
    ctx.cov["exhaustive"] = True
    ctx.assumptions += [
        "one caller (sequential)",
        "a write whose reservation exceeds the requested size is outside 'every write of at most the requested size'",
        "bytes are compared through a 30-bit FNV hash of the payload written / returned",
        "how many old chunks an overwriting write dropped is not observable at write time: the trace specification branches and later reads decide",
    ]
