"""C11 -- overwrite ring / blackbox always keeps the newest records, intact.  Spec: spec/RingAbs.tla (overwrite mode)."""
from vlib import core
from vlib.checks import rings


def run(ctx):
    q = ctx.quick
    exe = ctx.cc("h_rb_seq.c", "asan")
    r = ctx.model_check("RingAbsMC.tla", "RingAbsMC.cfg", workers=4)
    ctx.check_vacuity(r, ["Open", "AWrite", "ARead", "APeek", "Reclaim", "Close"])
    hs = []
    for S, nosem, d in ([(4083, 1, 3), (100, 0, 3)] if q else [(4083, 1, 4), (4083, 0, 3), (4084, 1, 3), (100, 0, 4), (100, 1, 3), (8179, 0, 3)]):
        hs += rings.gen(ctx, S, True, nosem, d, "bfs", 0, True, "ox%d-%d" % (S, nosem))
    nx = len(hs)
    sizes = [1, 17, 4082, 4083, 4084, 4085, 8179, 8180, 12288] if q else \
            [1, 2, 17, 100, 4070, 4082, 4083, 4084, 4085, 4086, 4087, 4088, 8178, 8179, 8180, 8181, 8183, 12275, 12288, 65536]
    for i, S in enumerate(sizes):
        hs += rings.gen(ctx, S, True, i % 2, 40 if q else 80, "simulate", 150 if q else 3000, False, "os%d" % S)
    for h in hs:
        h.extend(rings.drain(10))          # read the retained chunks back: they must be the newest ones, unbroken
    ctx.sample({"history": rings.to_lines(hs[0])})
    ctx.sample({"history": rings.to_lines(hs[nx])[:30]})
    ctx.log("%d histories (%d exhaustive)" % (len(hs), nx))
    ctx.exec_validate(exe, hs, rings.to_lines, "RingAbsTrace.tla", "RingAbsTrace.cfg", label="c11")
    ctx.cov["exhaustive"] = True
    ctx.assumptions += [
        "one caller (sequential)",
        "a write whose reservation exceeds the requested size is outside 'every write of at most the requested size'",
        "bytes are compared through a 30-bit FNV hash of the payload written / returned",
        "how many old chunks an overwriting write dropped is not observable at write time: the trace specification branches and later reads decide",
    ]
