"""C16 -- threaded logging: every queued message written once, in order, before fini; drops reported;
control operations safe in every order.  Spec: spec/LogThread.tla (+ LogThreadMC / LogThreadGen / LogThreadTrace,
LogThreadFree / LogThreadFreeTrace), harness/h_logthread.c.  DESIGN.md section 3.3 and section 4 (C16).

The oracle is LogThread.tla evaluated by TLC.  This driver only (a) turns TLC's dumped state graph / simulated
behaviours into schedule files (which thread is granted the next step, which call the application thread begins),
(b) picks seeds and sizes, (c) moves files.  Which of the recorded findings the implementation under test still
has is decided by directed reproducers (schedules replayed on the real code and judged by TLC), and the
specification constant `Fixes` is set accordingly, so a repaired tree is checked against the repaired design and
the unrepaired tree against the design as found with exactly the trigger steps left out."""
import os, re, json, random, collections
from vlib import core

W = int(os.environ.get("VERIF_WORKERS", "4") or 4)

INVS = ("INVARIANT InOrderOnce\nINVARIANT AllWrittenAtFini\nINVARIANT DroppedReported\nINVARIANT NeverOverReported\n"
        "INVARIANT LockLive\nINVARIANT InLoggerSafe\nINVARIANT NoEmptyDequeue\nINVARIANT MemConsistent\nINVARIANT StopPathOK\n")

# ----------------------------------------------------------------------------------------------- findings
# directed reproducers: schedules for harness/h_logthread.c (controlled mode, backlog scaled to 2 records).  `A! call`
# runs a call to its end whatever number of steps it has, so the same scenario replays on repaired and unrepaired
# trees; each scenario ends at the step whose outcome differs.
SETUP = ["Backlog 2", "A! Init", "A! Start", "A! SetThreaded 1", "A! Enable 1"]
FINI = ["A Fini", "A", "A", "A", "A", "W", "W", "W", "W", "A"]     # stop: lock, set, unlock, post | worker: wait, lock, test, exit | join
INLOGGER = ["A! Log 1", "W", "W", "W", "W", "W"]                   # worker: wait, lock, test, dequeue, write -> inside the logger
KF = {
    11: ("KF-C16-1",
         # the worker takes the token of the last record, stop sets the exit flag, and the worker's exit test runs
         # before stop's own sem_post
         [SETUP + ["A! Log 1", "W", "A Fini", "A", "A", "A", "W", "W"]],
         "qb_logt_worker_thread exits when wthread_should_exit is set and the semaphore value is 0 although it has just "
         "consumed the token of a queued record: when qb_log_thread_stop's sem_post comes after the worker's exit test the "
         "last message is never written and qb_log_fini returns without it (schedule: post; worker sem_wait; stop lock/set/"
         "unlock; worker lock + exit test; stop sem_post + join)"),
    12: ("KF-C16-2",
         [["Backlog 2", "A! Init", "A! SetThreaded 1", "A! Enable 1"],                          # NULL lock before start
          SETUP + FINI + ["A! Init", "A! Enable 1"],                                            # dangling lock after fini + re-init
          SETUP + FINI + ["A! Init", "A! Start", "A! SetThreaded 1", "A! Enable 1", "A! Log 1",
                          "W", "W", "W", "W", "W", "W", "W"] + FINI],                           # re-init: a second thread must run
         "qb_log_ctl on a threaded target locks logt_wthread_lock while it is NULL (before qb_log_thread_start: NULL "
         "dereference in qb_thread_lock); qb_log_thread_stop leaves wthread_active, wthread_should_exit and the destroyed lock "
         "pointer behind and qb_log_init does not reset conf[].threaded, so after qb_log_fini + qb_log_init the first "
         "qb_log_ctl / qb_log / qb_log_fini uses the freed lock (heap-use-after-free) and qb_log_thread_start starts nothing"),
    13: ("KF-C16-3",
         [SETUP + INLOGGER + ["A Close"],                   # close while the worker is inside the logger
          SETUP + INLOGGER + ["A SetThreaded 0"]],          # un-thread without waiting: the next qb_log_ctl does not pause either
         "qb_log_custom_close (and so qb_log_file_close) never waits for the logging thread, and qb_log_ctl stops waiting once "
         "QB_LOG_CONF_THREADED was switched off: the target is closed/disabled (its close function runs) while the logging "
         "thread is inside the target's logger"),
}
# the consequence of each finding on the unrepaired tree, replayed in full and judged under the design as found
DEMO = {
    11: (SETUP + ["A! Log 1", "W", "A Fini", "A", "A", "A", "W", "W", "W", "A", "A"], "AllWrittenAtFini"),
    13: (SETUP + INLOGGER + ["A SetThreaded 0", "A Enable 0"], "InLoggerSafe"),
}


def tla_set(fx):
    return "{" + ", ".join(str(x) for x in sorted(fx)) + "}"


def trace_cfg(ctx, fixes, limit, name=None):
    name = name or "LogThreadTrace_%s_%d.cfg" % ("".join(map(str, sorted(fixes))) or "0", limit)
    return ctx.cfg(name, "CONSTANTS NMsgs = 100000  Limit = %d  MaxInits = 1000\nCONSTANT Fixes = %s\nCONSTANT Skip = {}\n"
                   "SPECIFICATION TraceSpec\n%sPOSTCONDITION TraceAccepted\nCHECK_DEADLOCK FALSE\n" % (
                       limit, tla_set(fixes), INVS))


def run_sched(ctx, exe, lines, tag):
    s = os.path.join(ctx.work, tag + ".sched")
    t = os.path.join(ctx.work, tag + ".ndjson")
    open(s, "w").write("\n".join(lines) + "\n")
    rc, so, se = ctx.run([exe, s, t], timeout=120)
    return rc, s, t, se


CANDIDATES = [{11, 12, 13}, {11, 12}, {12, 13}, {11}, {12}, set()]     # repair 13 presupposes repair 12


def probe(ctx, exe):
    """which of the recorded findings does the implementation under test still have?  Every reproducer is run once on
    the real code.  The tree's set of repairs is the largest F such that every reproducer of every finding in F runs
    to its end and is accepted by TLC under the design with repairs F; the findings outside F are still present."""
    status = {k["id"]: k.get("status") for k in core.load_known()}
    runs = {}
    for n, (kfid, scheds, what) in sorted(KF.items()):
        for i, lines in enumerate(scheds):
            rc, s, t, se = run_sched(ctx, exe, lines, "%s-%d" % (kfid, i))
            if rc not in (0, 99, 98) and rc < 128:
                raise core.Infra("reproducer %s-%d: harness failed (rc=%d): %s" % (kfid, i, rc, se[-2000:]))
            crash = ([x for x in se.splitlines() if "ERROR" in x or "runtime error" in x] or ["exit %d" % rc])[0][:160] if rc else None
            runs[(n, i)] = (crash, t)
    verdict = {}

    def ok(F, n, i):
        crash, t = runs[(n, i)]
        if crash:
            return False
        key = (tuple(sorted(F)), n, i)
        if key not in verdict:
            verdict[key] = ctx.validate("LogThreadTrace.tla", trace_cfg(ctx, F, 2), t).accepted
        return verdict[key]

    fixes = set()
    for F in CANDIDATES:
        if all(ok(F, n, i) for n in sorted(F) for i in range(len(KF[n][1]))):
            fixes = F
            break
    present = {11, 12, 13} - fixes
    for n in sorted(KF):
        kfid, scheds, what = KF[n]
        if n not in present:
            ctx.notes.append("%s does not reproduce: the implementation is checked against the design WITH repair %d" % (kfid, n))
            continue
        crashes = ["variant %d: %s" % (i, runs[(n, i)][0]) for i in range(len(scheds)) if runs[(n, i)][0]]
        hit = crashes[0] if crashes else "the replayed schedule is rejected by the repaired design"
        if n in DEMO and not (n == 13 and 12 in fixes and False):
            rc, s_, t_, se = run_sched(ctx, exe, DEMO[n][0], "%s-demo" % kfid)
            if rc == 0:
                v = ctx.validate("LogThreadTrace.tla", trace_cfg(ctx, fixes, 2), t_)
                if not v.accepted and v.violated == DEMO[n][1]:
                    hit = "replayed on the real code to the end: TLC reports %s violated at event %d" % (v.violated, v.matched + 1)
        if status.get(kfid) == "fixed":
            p = ctx.save(kfid + ".sched", "\n".join(scheds[0]) + "\n")
            ctx.violation("%s is recorded as fixed but its reproducer is rejected again (%s)" % (kfid, hit), p)
        else:
            if status.get(kfid) is None:
                ctx.notes.append("%s is not listed in known_findings.jsonl yet (proposed entry in the builder's report)" % kfid)
            ctx.known(kfid, what + " [" + hit + "]")
    return present


# ----------------------------------------------------------------------------------------------- schedules from TLC
CALL = {"CallInit": "A Init", "CallStart": "A Start", "CallFini": "A Fini", "CtlEnable0": "A Enable 0",
        "CtlEnable1": "A Enable 1", "CtlConf": "A Conf", "CtlThreaded0": "A SetThreaded 0",
        "CtlThreaded1": "A SetThreaded 1", "CtlClose": "A Close"}


def mc_cfg(ctx, name, fixes, skip, consts, spec="Spec", invs=True, props=()):
    return ctx.cfg(name, "CONSTANTS NMsgs = %d  Limit = %d  MaxInits = %d\nCONSTANT Fixes = %s\nCONSTANT Skip = %s\n"
                   "SPECIFICATION %s\n%s%sCHECK_DEADLOCK FALSE\n" % (
                       consts[0], consts[1], consts[2], tla_set(fixes), tla_set(skip), spec,
                       ("INVARIANT TypeOK\n" + INVS) if invs else "", "".join("PROPERTY %s\n" % p for p in props)))


def dump_graph(ctx, cfg, tag):
    """TLC -dump dot,actionlabels: returns (init, adj) with adj[u] = [(v, line)], line = schedule line of the edge"""
    dot = os.path.join(ctx.work, tag + ".dot")
    r = ctx._tlc("LogThreadMC.tla", cfg, W, extra=["-dump", "dot,actionlabels", dot], timeout=1800, jvm=("-Xmx8g",), tag=tag)
    r.parse()
    if r.rc != 0 or r.infra_error or r.violated:
        raise core.Infra("TLC graph dump failed (rc=%d, %s):\n%s" % (r.rc, r.violated, r.out[-3000:]))
    posted = {}
    adj = collections.defaultdict(list)
    init = None
    nedges = 0
    node_re = re.compile(r'^(-?\d+) \[label="(.*?)"[,\]]')
    edge_re = re.compile(r'^(-?\d+) -> (-?\d+) \[label="(\w+)"')
    for line in open(dot):
        m = edge_re.match(line)
        if m:
            u, v, lab = int(m.group(1)), int(m.group(2)), m.group(3)
            if u == v:
                continue            # a call that changes nothing (e.g. start while started): not part of the cover
            adj[u].append((v, lab))
            nedges += 1
            continue
        m = node_re.match(line)
        if m:
            u = int(m.group(1))
            pm = re.search(r'posted = (\d+)', m.group(2))
            posted[u] = int(pm.group(1))
            if init is None and "style = filled" in line:
                init = u
    os.unlink(dot)

    def line_of(v, lab):
        if lab in CALL:
            return CALL[lab]
        if lab in ("CallLog", "CallLogSync"):
            return "A Log %d" % posted[v]
        return "W" if lab.startswith("Wk_") else "A"

    g = {u: [(v, line_of(v, lab)) for v, lab in vs] for u, vs in adj.items()}
    ctx.log("state graph %s: %d states, %d edges (%d distinct generated, %.1fs)" % (tag, len(posted), nedges, r.distinct, r.wall))
    return init, g, r


def nearest_new(g, covered, start, depth):
    """shortest edge sequence (at most `depth` long) from `start` to a state with an edge not yet taken"""
    prev = {start: None}
    frontier = [start]
    for _ in range(depth):
        nxt = []
        for u in frontier:
            for k, (v, _) in enumerate(g.get(u, ())):
                if v in prev:
                    continue
                prev[v] = (u, k)
                if any((v, j) not in covered for j in range(len(g.get(v, ())))):
                    hop = []
                    x = v
                    while prev[x] is not None:
                        hop.append(prev[x])
                        x = prev[x][0]
                    hop.reverse()
                    return hop
                nxt.append(v)
        frontier = nxt
    return None


def edge_cover(init, g, rng, maxlen=400):
    """paths from the initial state that together take every edge of the graph at least once: shortest path (BFS tree)
    to an edge not yet taken, then onward along edges not yet taken for as long as there are any"""
    parent = {init: None}
    order = [init]
    for u in order:
        for k, (v, _) in enumerate(g.get(u, ())):
            if v not in parent:
                parent[v] = (u, k)
                order.append(v)
    covered = set()
    paths = []
    for u in order:                                   # sources in BFS order
        for k0 in range(len(g.get(u, ()))):
            if (u, k0) in covered:
                continue
            pre = []
            x = u
            while parent[x] is not None:
                pu, pk = parent[x]
                pre.append((pu, pk))
                x = pu
            pre.reverse()
            path = pre + [(u, k0)]
            covered.add((u, k0))
            cur = g[u][k0][0]
            while len(path) < maxlen:
                outs = [k for k in range(len(g.get(cur, ()))) if (cur, k) not in covered]
                if not outs:
                    # nothing new here: walk on to the nearest state (a few steps away) that still has a new edge
                    hop = nearest_new(g, covered, cur, 8)
                    if not hop:
                        break
                    path.extend(hop)
                    cur = g[hop[-1][0]][hop[-1][1]][0]
                    continue
                k = rng.choice(outs)
                covered.add((cur, k))
                path.append((cur, k))
                cur = g[cur][k][0]
            for e in pre:
                covered.add(e)
            paths.append([g[a][b][1] for a, b in path])
    return paths


def to_lines_limit(limit):
    def f(h):
        return ["Backlog %d" % limit] + list(h)
    return f


def simulate(ctx, fixes, skip, consts, num, depth, tag):
    """random walks of the model for constants beyond the covered graph (TLC -simulate on LogThreadGen)"""
    cfg = ctx.cfg("LogThreadGen_%s.cfg" % tag, "CONSTANTS NMsgs = %d  Limit = %d  MaxInits = %d\nCONSTANT Fixes = %s\nCONSTANT Skip = %s\n"
                  "SPECIFICATION GenSpec\nCONSTRAINT Emit\nCHECK_DEADLOCK FALSE\n" % (consts[0], consts[1], consts[2], tla_set(fixes), tla_set(skip)))
    r = ctx._tlc("LogThreadGen.tla", cfg, 1, extra=["-simulate", "num=%d" % num, "-depth", str(depth + 5), "-seed", str(ctx.seed)],
                 env={"DEPTH": str(depth)}, timeout=1200, jvm=("-Xmx4g",), tag="gen-" + tag)
    r.parse()
    if r.rc != 0 or r.infra_error:
        raise core.Infra("TLC simulation failed on LogThreadGen (rc=%d):\n%s" % (r.rc, r.out[-3000:]))
    hs, seen = [], set()
    for line in r.out.splitlines():
        if line.startswith('"GEN '):
            h = json.loads(json.loads(line)[4:])
            key = json.dumps(h)
            if key not in seen and h:
                seen.add(key)
                hs.append([" ".join(str(x) for x in st) for st in h])
    ctx.log("simulated %d distinct walks (NMsgs=%d Limit=%d MaxInits=%d, %.1fs)" % (len(hs), consts[0], consts[1], consts[2], r.wall))
    return hs


def free_programs(rng, n, present):
    """seeded free-running programs: message counts up to and beyond the real 512000-byte backlog limit"""
    progs = []
    for i in range(n):
        p = ["Free", "Init"]
        setup = ["Start", "SetThreaded 1", "Enable 1"]
        if 12 not in present:
            rng.shuffle(setup)                 # any order is legal once the NULL-lock finding is repaired
        p += setup
        if i % 3 == 1:
            p.append("Second")                 # a second threaded target selected by the same call sites
        kind = i % 5
        if kind == 4:                          # the target is closed while the logging thread still has a backlog for it
            p += ["Burst %d %d 0" % (rng.randint(20, 300), rng.choice([40, 200])), "Close", "Sleep 2000", "Fini"]
            progs.append(p)
            continue
        if kind == 0:                          # burst against a held worker: fills the backlog, drops, report
            ln = rng.choice([100, 250, 400, 500])
            fill = 512000 // (ln + 49) + 1
            p += ["Burst %d %d 0" % (rng.randint(1, 30), rng.choice([16, 80, 300])), "Hold",
                  "Burst %d %d 0" % (fill + rng.randint(-40, 300), ln), "Release",
                  "Burst %d %d %d" % (rng.randint(0, 200), rng.choice([40, 200]), rng.choice([0, 5]))]
        elif kind == 1:                        # free race of producer and logging thread, control calls in between
            for _ in range(rng.randint(2, 6)):
                p.append("Burst %d %d %d" % (rng.randint(1, 400), rng.choice([8, 60, 200, 509]), rng.choice([0, 0, 2, 20])))
                # (a QB_LOG_CONF_THREADED call next to a running thread is finding 13's unsynchronised store: left out while present)
                p.append(rng.choice(["Conf", "Enable 1", "Start", "Sleep 300"] + ([] if 13 in present else ["SetThreaded 1"])))
        elif kind == 2:                        # slow logging thread, fini while much is still queued
            p += ["Slow %d" % rng.choice([20, 100, 400]), "Burst %d %d %d" % (rng.randint(50, 900), rng.choice([100, 450]), 0)]
        else:                                  # exactly at the limit, twice
            ln = rng.choice([151, 463])
            fill = 512000 // (ln + 49)
            p += ["Hold", "Burst %d %d 0" % (fill + rng.choice([-1, 0, 1, 2]), ln), "Release", "Sleep 2000",
                  "Hold", "Burst %d %d 0" % (fill + rng.choice([0, 1, 5]), ln), "Release"]
        p.append("Fini")
        progs.append(p)
    return progs


def run_tsan(ctx, exe_t, progs, fcfg, tenv):
    """free-running programs under ThreadSanitizer.  A race report is timing dependent, so it counts at once (it is
    not re-run for confirmation like a trace rejection); the events of the executions without a report are validated."""
    from concurrent.futures import ThreadPoolExecutor
    shards = core.shard(list(range(len(progs))), 4)

    def work(si):
        idxs, good, reports = list(shards[si]), [], []
        while idxs:
            s = os.path.join(ctx.work, "tsan-%d-%d.sched" % (si, len(idxs)))
            t = s[:-6] + ".ndjson"
            open(s, "w").write("\nReset\n".join("\n".join(progs[i]) for i in idxs) + "\n")
            rc, so, se = ctx.run([exe_t, s, t], timeout=900, env=tenv)
            if rc == 0:
                good.append((t, len(idxs)))
                break
            done = open(t).read().count('"e":"Reset"') if os.path.exists(t) else 0      # histories completed before the failing one
            if "ThreadSanitizer" not in se:
                raise core.Infra("TSan harness failed (rc=%d): %s" % (rc, se[-1500:]))
            summ = [x for x in se.splitlines() if x.startswith("SUMMARY")]
            reports.append((idxs[done], (summ or ["ThreadSanitizer report"])[0], se))
            idxs = idxs[done + 1:]
        return good, reports

    with ThreadPoolExecutor(max_workers=4) as ex:
        res = list(ex.map(work, range(len(shards))))
    nrep = 0
    for good, reports in res:
        for t, n in good:
            v = ctx.validate("LogThreadFreeTrace.tla", fcfg, t)
            if v.accepted:
                ctx.cov["traces_validated_against_impl"] += n
            else:
                ctx.violation("free-running execution under TSan rejected at event %d (%s)" % (v.matched + 1, v.violated or "no matching action"),
                              ctx.save_file(t))
        for hi, summ, se in reports:
            nrep += 1
            d = ctx.save("c16-tsan-%d.sched" % hi, "\n".join(progs[hi]) + "\n")
            ctx.save("c16-tsan-%d.why.txt" % hi, se[-6000:])
            ctx.violation("ThreadSanitizer: %s" % summ[:200], d)
    ctx.log("c16-tsan: %d free-running programs under ThreadSanitizer, %d race reports" % (len(progs), nrep))


ACTIONS = ["CallInit", "CallStart", "CallLog", "CallLogSync", "CallFini", "CtlEnable0", "CtlEnable1", "CtlConf", "CtlThreaded0", "CtlThreaded1",
           "CtlClose", "C_Lock", "C_Body", "C_Unlock", "A_Logger", "P_Lock", "P_Account", "P_Append", "P_Drop", "P_Unlock", "P_UnlockD",
           "P_Post", "S_Lock", "S_Set", "S_Unlock", "S_Post", "S_Join", "Wk_SemWait", "Wk_Lock", "Wk_ExitTest", "Wk_Exit",
           "Wk_Dequeue", "Wk_Write", "Wk_Logger", "Wk_Unlock"]
EXPECT = {11: "AllWrittenAtFini", 12: "LockLive", 13: "InLoggerSafe"}


def run(ctx):
    q = ctx.quick
    hdr = os.path.join(core.REPO, "lib", "verif_hook.h")
    if not os.path.exists(hdr) or "QB_VP_LOGT_T_CREATED" not in open(hdr).read():
        raise core.Infra("lib/log_thread.c has no verification hook points in %s: apply /verif/proposed_fixes/C16-hooks.patch "
                         "(add-only, guard LIBQB_VERIF)" % core.REPO)
    exe = ctx.cc("h_logthread.c", "asan")
    # (0) which recorded findings does this tree still have?  -> Fixes / Skip of every configuration below
    present = probe(ctx, exe)
    fixes = {11, 12, 13} - present
    if 13 in fixes and 12 in present:
        raise core.Infra("repair 13 without repair 12 is not a modelled combination (13 tests the lock pointer that 12 resets)")
    ctx.cov["findings_present"] = sorted(present)
    consts = (3, 2, 2) if q else (4, 2, 2)
    # (1) design check: all interleavings, all control orders.  The design of the tree under test (trigger steps of its
    #     remaining findings left out) ...
    dot = os.path.join(ctx.work, "graph.dot")
    r = ctx.model_check("LogThreadMC.tla", mc_cfg(ctx, "LogThreadMC_tree.cfg", fixes, present, consts), workers=W)
    ctx.check_vacuity(r, ACTIONS)
    # ... the repaired design with nothing left out (what the proposed fixes must achieve), safety and liveness ...
    if present:
        ctx.model_check("LogThreadMC.tla", mc_cfg(ctx, "LogThreadMC_repaired.cfg", {11, 12, 13}, set(), consts), workers=W)
    rl = ctx.model_check("LogThreadMC.tla", mc_cfg(ctx, "LogThreadMC_live.cfg", {11, 12, 13}, set(), (3, 2, 2), spec="FairSpec",
                                                   invs=False, props=("CallsReturn", "FiniReturns")), workers=W)
    if present and not q:
        ctx.model_check("LogThreadMC.tla", mc_cfg(ctx, "LogThreadMC_live_tree.cfg", fixes, present, (3, 2, 2), spec="FairSpec",
                                                  invs=False, props=("CallsReturn", "FiniReturns")), workers=W, count=False)
    # ... and each remaining finding must still be a counterexample of the design as found (keeps the model honest)
    for n in sorted(present):
        r2 = ctx.model_check("LogThreadMC.tla", mc_cfg(ctx, "LogThreadMC_kf%d.cfg" % n, fixes, present - {n}, (3, 2, 2)),
                             workers=W, expect_violation=EXPECT[n], count=False)
        if r2.violated != EXPECT[n]:
            raise core.Infra("the model of the code as found no longer yields finding %d (%s)" % (n, r2.violated))
    # (2) spec -> code -> spec: an edge cover of the reachable graph of the tree's design, replayed step by step on the
    #     real threads under the hook scheduler; every step's observations are validated by TLC
    gc = (3, 2, 2) if q else (4, 2, 2)
    init, g, rg = dump_graph(ctx, mc_cfg(ctx, "LogThreadMC_graph.cfg", fixes, present, gc), "graph")
    paths = edge_cover(init, g, ctx.rng)
    nedges = sum(len(v) for v in g.values())
    ctx.cov["graph_edges"] = nedges
    ctx.cov["cover_paths_total"] = len(paths)
    if q and len(paths) > 2000:
        paths = ctx.rng.sample(paths, 2000)
    ctx.cov["edge_cover_complete"] = not q
    ctx.cov["cover_paths_replayed"] = len(paths)
    ctx.sample({"cover_path": paths[len(paths) // 2][:60]})
    tcfg = trace_cfg(ctx, fixes, gc[1])
    CH = 4000
    for c in range(0, len(paths), CH):
        ctx.exec_validate(exe, paths[c:c + CH], to_lines_limit(gc[1]), "LogThreadTrace.tla", tcfg, nshards=4,
                          label="c16-cover%d" % (c // CH), timeout=1500)
        if len(ctx.violations) >= 8:
            break
    if len(ctx.violations) >= 8:
        ctx.notes.append("the edge cover already produced %d rejections: random walks and free-running executions were not run" % len(ctx.violations))
        return
    # (3) random walks of a larger configuration (more messages, deeper backlog, more init cycles)
    big = (8, 3, 3) if q else (12, 4, 3)
    walks = simulate(ctx, fixes, present, big, 300 if q else 3000, 220 if q else 320, "sim")
    ctx.sample({"random_walk": walks[0][:60]})
    ctx.exec_validate(exe, walks, to_lines_limit(big[1]), "LogThreadTrace.tla", trace_cfg(ctx, fixes, big[1]), nshards=4,
                      label="c16-walk", timeout=1500)
    # (4) free-running executions (real timing, real 512000-byte limit): call-level events against LogThreadFree,
    #     under ASan/UBSan and again under ThreadSanitizer (data-race monitor)
    fcfg = os.path.join(core.SPEC, "LogThreadFreeTrace.cfg")
    progs = free_programs(ctx.rng, 16 if q else 240, present)
    ctx.sample({"free_program": progs[0]})
    ctx.exec_validate(exe, progs, lambda p: p, "LogThreadFreeTrace.tla", fcfg, nshards=4, label="c16-free", timeout=1500)
    tenv = {"TSAN_OPTIONS": "exitcode=66 halt_on_error=1 report_signal_unsafe=0"}
    try:
        exe_t = ctx.cc("h_logthread.c", "tsan")
        rc, s_, t_, se = None, None, None, None
        smoke = os.path.join(ctx.work, "tsan-smoke.sched")
        open(smoke, "w").write("Free\nInit\nFini\n")
        rc, so, se = ctx.run([exe_t, smoke, smoke + ".ndjson"], timeout=60, env=tenv)
        if rc != 0:
            raise core.Infra("ThreadSanitizer smoke run failed (rc=%d): %s" % (rc, se[-300:]))
    except core.Infra as e:
        ctx.notes.append("ThreadSanitizer variant not run: %s" % str(e).splitlines()[0][:200])
        exe_t = None
    if exe_t:
        run_tsan(ctx, exe_t, free_programs(ctx.rng, 12 if q else 120, present), fcfg, tenv)
    ctx.cov["exhaustive"] = True
    ctx.assumptions += [
        "one application thread is producer and controller (the property speaks of a producer; concurrent qb_log calls are discarded by in_logger by design)",
        "qb_log on the threaded target is generated only while the target is enabled + threaded and the thread was started (the property's precondition); logging to a threaded target before qb_log_thread_start also dereferences the NULL lock (same root cause as KF-C16-2) but is not part of the generated histories",
        "controlled runs are sequentially consistent interleavings at hook-point granularity (x86 host); the lock is a pthread spinlock on this configuration",
        "quick tier replays a seeded sample of the edge-cover paths (thorough: all of them, for 4 messages); data races are looked for by ThreadSanitizer on the free-running executions only",
        "controlled runs scale the 512000-byte backlog limit to a few records by offsetting logt_memory_used once through the pointer carried by the P_LOCKED hook; the free-running runs use the real limit unscaled",
        "delivery is not demanded of messages that were pending when the target was disabled, un-threaded or closed (the property is silent there); they must still be written at most once and in order",
        "start failures of the logging thread (pthread_create / scheduling parameters) are not generated",
        "messages have one fixed size per run in controlled mode; sizes 8..510 bytes in free-running mode",
    ] + (["trigger steps of the findings still present (%s) are left out of the generated schedules; each has directed reproducers" %
          ", ".join(KF[n][0] for n in sorted(present))] if present else [])
