"""C16 -- threaded logging: every queued message written once, in order, before fini; drops reported;
control operations safe in every order.  Spec: spec/LogThread.tla (+ LogThreadMC / LogThreadGen / LogThreadTrace,
LogThreadFree / LogThreadFreeTrace), harness/h_logthread.c.  DESIGN.md section 3.3 and section 4 (C16).

The oracle is LogThread.tla evaluated by TLC.  This driver only (a) turns TLC's dumped state graph / simulated
behaviours into schedule files (which thread is granted the next step, which call the application thread begins),
(b) picks seeds and sizes, (c) moves files.  Which of the recorded findings the implementation under test still
has is decided by directed reproducers (schedules replayed on the real code and judged by TLC), and the
specification constant `Fixes` is set accordingly, so a repaired tree is checked against the repaired design and
the unrepaired tree against the design as found with exactly the trigger steps left out."""
import os, re, json, random, collections
from vlib import core

W = int(os.environ.get("VERIF_WORKERS", "4") or 4)

INVS = ("INVARIANT InOrderOnce\nINVARIANT AllWrittenAtFini\nINVARIANT DroppedReported\nINVARIANT NeverOverReported\n"
        "INVARIANT LockLive\nINVARIANT InLoggerSafe\nINVARIANT NoEmptyDequeue\nINVARIANT MemConsistent\nINVARIANT StopPathOK\n")

# ----------------------------------------------------------------------------------------------- findings
# directed reproducers: schedules for harness/h_logthread.c (controlled mode, backlog scaled to 2 records)
PRE = ["Backlog 2", "A Init", "A Start", "A SetThreaded 1"]
ENABLE = ["A Enable 1", "A", "A", "A"]                      # pause, body, resume
LOG1 = ["A Log 1", "A", "A", "A", "A", "A"]                 # lock, account, append, unlock, post
KF = {
    11: ("KF-C16-1",
         # the worker takes the token of the last record, stop sets the exit flag, the worker's exit test runs
         # before stop's own sem_post: it sees should_exit and value 0 and exits with the record still queued
         [PRE + ENABLE + LOG1 + ["W", "A Fini", "A", "A", "A", "W", "W", "W", "A", "A"]],
         "qb_logt_worker_thread exits when wthread_should_exit is set and the semaphore value is 0 although it has just "
         "consumed the token of a queued record: if qb_log_thread_stop's sem_post comes after the worker's exit test the "
         "last message is never written and qb_log_fini returns without it (schedule: post; worker sem_wait; stop lock/set/"
         "unlock; worker lock + exit test; stop sem_post + join)"),
    12: ("KF-C16-2",
         [["Backlog 2", "A Init", "A SetThreaded 1", "A Enable 1", "A"],                      # NULL lock before start
          PRE + ENABLE + ["A Fini", "A", "A", "A", "A", "W", "W", "W", "W", "A", "A Init", "A Enable 1", "A"],  # dangling lock after fini + re-init
          PRE + ["A Fini", "A", "A", "A", "A", "W", "W", "W", "W", "A", "A Init", "A Start", "A SetThreaded 1", "A Enable 1",
                 "A", "A", "A", "A Log 1", "A", "A", "A", "A", "A", "W", "W", "W", "W", "W", "W", "W"]],            # re-init: thread not restarted
         "qb_log_ctl on a threaded target locks logt_wthread_lock while it is NULL (before qb_log_thread_start: SEGV in "
         "qb_thread_lock); qb_log_thread_stop leaves wthread_active, wthread_should_exit and the destroyed lock pointer behind "
         "and qb_log_init does not reset conf[].threaded, so after qb_log_fini + qb_log_init the first qb_log_ctl / qb_log / "
         "qb_log_fini uses the freed lock (heap-use-after-free) and qb_log_thread_start starts nothing"),
    13: ("KF-C16-3",
         [PRE + ENABLE + LOG1 + ["W", "W", "W", "W", "W", "A Close"],                        # close while the worker is inside the logger
          PRE + ENABLE + LOG1 + ["W", "W", "W", "W", "W", "A SetThreaded 0", "A Enable 0"]],  # un-thread, then disable unpaused
         "qb_log_custom_close (and so qb_log_file_close) never waits for the logging thread, and qb_log_ctl stops waiting once "
         "QB_LOG_CONF_THREADED was switched off: the target is closed/disabled (its close function runs) while the logging "
         "thread is inside the target's logger"),
}


def tla_set(fx):
    return "{" + ", ".join(str(x) for x in sorted(fx)) + "}"


def trace_cfg(ctx, fixes, limit, name=None):
    name = name or "LogThreadTrace_%s_%d.cfg" % ("".join(map(str, sorted(fixes))) or "0", limit)
    return ctx.cfg(name, "CONSTANTS NMsgs = 100000  Limit = %d  MaxInits = 1000\nCONSTANT Fixes = %s\nCONSTANT Skip = {}\n"
                   "SPECIFICATION TraceSpec\n%sPOSTCONDITION TraceAccepted\nCHECK_DEADLOCK FALSE\n" % (
                       limit, tla_set(fixes), INVS))


def run_sched(ctx, exe, lines, tag):
    s = os.path.join(ctx.work, tag + ".sched")
    t = os.path.join(ctx.work, tag + ".ndjson")
    open(s, "w").write("\n".join(lines) + "\n")
    rc, so, se = ctx.run([exe, s, t], timeout=120)
    return rc, s, t, se


def probe(ctx, exe):
    """which of the recorded findings does the implementation under test still have?  Each reproducer is judged
    against the REPAIRED design (Fixes = all): rejected = the finding is still there."""
    status = {k["id"]: k.get("status") for k in core.load_known()}
    cfg = trace_cfg(ctx, {11, 12, 13}, 2, "LogThreadTrace_probe.cfg")
    present = set()
    for n, (kfid, scheds, what) in sorted(KF.items()):
        hit = None
        for i, lines in enumerate(scheds):
            rc, s, t, se = run_sched(ctx, exe, lines, "%s-%d" % (kfid, i))
            if rc not in (0, 99, 98) and rc < 128:
                raise core.Infra("reproducer %s-%d: harness failed (rc=%d): %s" % (kfid, i, rc, se[-2000:]))
            if rc != 0:
                hit = "variant %d: %s" % (i, ([x for x in se.splitlines() if "ERROR" in x or "runtime error" in x] or ["exit %d" % rc])[0][:160])
            else:
                v = ctx.validate("LogThreadTrace.tla", cfg, t)
                if not v.accepted:
                    hit = "variant %d: trace rejected at event %d (%s)" % (i, v.matched + 1, v.violated or "no matching action")
            if hit:
                break
        if not hit:
            ctx.notes.append("%s does not reproduce: the implementation is checked against the design WITH repair %d" % (kfid, n))
            continue
        present.add(n)
        if status.get(kfid) == "fixed":
            p = ctx.save(kfid + ".sched", "\n".join(scheds[0]) + "\n")
            ctx.violation("%s is recorded as fixed but its reproducer is rejected again (%s)" % (kfid, hit), p)
        else:
            if status.get(kfid) is None:
                ctx.notes.append("%s is not listed in known_findings.jsonl yet (proposed entry in the builder's report)" % kfid)
            ctx.known(kfid, what + " [" + hit + "]")
    return present


# ----------------------------------------------------------------------------------------------- schedules from TLC
CALL = {"CallInit": "A Init", "CallStart": "A Start", "CallFini": "A Fini", "CtlEnable0": "A Enable 0",
        "CtlEnable1": "A Enable 1", "CtlConf": "A Conf", "CtlThreaded0": "A SetThreaded 0",
        "CtlThreaded1": "A SetThreaded 1", "CtlClose": "A Close"}


def mc_cfg(ctx, name, fixes, skip, consts, spec="Spec", invs=True, props=()):
    return ctx.cfg(name, "CONSTANTS NMsgs = %d  Limit = %d  MaxInits = %d\nCONSTANT Fixes = %s\nCONSTANT Skip = %s\n"
                   "SPECIFICATION %s\n%s%sCHECK_DEADLOCK FALSE\n" % (
                       consts[0], consts[1], consts[2], tla_set(fixes), tla_set(skip), spec,
                       ("INVARIANT TypeOK\n" + INVS) if invs else "", "".join("PROPERTY %s\n" % p for p in props)))


def dump_graph(ctx, cfg, tag):
    """TLC -dump dot,actionlabels: returns (init, adj) with adj[u] = [(v, line)], line = schedule line of the edge"""
    dot = os.path.join(ctx.work, tag + ".dot")
    r = ctx._tlc("LogThreadMC.tla", cfg, W, extra=["-dump", "dot,actionlabels", dot], timeout=1800, jvm=("-Xmx8g",), tag=tag)
    r.parse()
    if r.rc != 0 or r.infra_error or r.violated:
        raise core.Infra("TLC graph dump failed (rc=%d, %s):\n%s" % (r.rc, r.violated, r.out[-3000:]))
    posted = {}
    adj = collections.defaultdict(list)
    init = None
    nedges = 0
    node_re = re.compile(r'^(-?\d+) \[label="(.*?)"[,\]]')
    edge_re = re.compile(r'^(-?\d+) -> (-?\d+) \[label="(\w+)"')
    for line in open(dot):
        m = edge_re.match(line)
        if m:
            u, v, lab = int(m.group(1)), int(m.group(2)), m.group(3)
            if u == v:
                continue            # a call that changes nothing (e.g. start while started): not part of the cover
            adj[u].append((v, lab))
            nedges += 1
            continue
        m = node_re.match(line)
        if m:
            u = int(m.group(1))
            pm = re.search(r'posted = (\d+)', m.group(2))
            posted[u] = int(pm.group(1))
            if init is None and "style = filled" in line:
                init = u
    os.unlink(dot)

    def line_of(v, lab):
        if lab in CALL:
            return CALL[lab]
        if lab == "CallLog":
            return "A Log %d" % posted[v]
        return "W" if lab.startswith("Wk_") else "A"

    g = {u: [(v, line_of(v, lab)) for v, lab in vs] for u, vs in adj.items()}
    ctx.log("state graph %s: %d states, %d edges (%d distinct generated, %.1fs)" % (tag, len(posted), nedges, r.distinct, r.wall))
    return init, g, r


def edge_cover(init, g, rng, maxlen=400):
    """paths from the initial state that together take every edge of the graph at least once: shortest path (BFS tree)
    to an edge not yet taken, then onward along edges not yet taken for as long as there are any"""
    parent = {init: None}
    order = [init]
    for u in order:
        for k, (v, _) in enumerate(g.get(u, ())):
            if v not in parent:
                parent[v] = (u, k)
                order.append(v)
    covered = set()
    paths = []
    for u in order:                                   # sources in BFS order
        for k0 in range(len(g.get(u, ()))):
            if (u, k0) in covered:
                continue
            pre = []
            x = u
            while parent[x] is not None:
                pu, pk = parent[x]
                pre.append((pu, pk))
                x = pu
            pre.reverse()
            path = pre + [(u, k0)]
            covered.add((u, k0))
            cur = g[u][k0][0]
            while len(path) < maxlen:
                outs = [k for k in range(len(g.get(cur, ()))) if (cur, k) not in covered]
                if not outs:
                    break
                k = rng.choice(outs)
                covered.add((cur, k))
                path.append((cur, k))
                cur = g[cur][k][0]
            for e in pre:
                covered.add(e)
            paths.append([g[a][b][1] for a, b in path])
    return paths


def to_lines_limit(limit):
    def f(h):
        return ["Backlog %d" % limit] + list(h)
    return f
