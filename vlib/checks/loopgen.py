"""Seeded generator of qb_loop programs for h_loop (C08/C09/C10).
A program = body definitions, set-up calls, Run + scripted poll results, trailing calls.
It only generates inputs; what the loop must do with them is decided by spec/Loop.tla."""

G = 10 ** 9


def limbs(ns):
    return "%d %d %d" % (ns // G // G, (ns // G) % G, ns % G)


MS = 10 ** 6
DUR_SMALL = [0, 1, 999999, MS, 5 * MS, 20 * MS, 50 * MS, 51 * MS, 200 * MS]
DUR_BIG = [(2 ** 31 - 1) * MS, (2 ** 31) * MS, (2 ** 32 - 1) * MS, (2 ** 32) * MS, (2 ** 32 + 1) * MS, 2 ** 63, 2 ** 64 - 1]
FDS = [100, 101, 102]
SIGS = [10, 12]


def body_op(rng, prof, nid):
    """one API call made from inside a callback"""
    r = rng.random()
    ids = lambda: rng.randint(1, nid)
    if prof == "c10":
        return rng.choice(["JobAdd new %d same" % rng.randint(0, 2), "TimerAdd new %d 0 0 0 same" % rng.randint(0, 2),
                           "JobAdd new %d 0" % rng.randint(0, 2)])
    if r < 0.16:
        return "JobAdd new %d %s" % (rng.randint(0, 2), rng.choice(["0", "0", "same"]))
    if r < 0.28:
        return "JobDel %s" % rng.choice(["self", str(ids()), str(ids())])
    if r < 0.40:
        return "TimerAdd new %d %s %s" % (rng.randint(0, 2), limbs(rng.choice(DUR_SMALL)), rng.choice(["0", "0", "same"]))
    if r < 0.52:
        return "TimerDel %s" % rng.choice(["self", str(ids()), str(ids())])
    if r < 0.58:
        return "TimerQuery %s" % rng.choice(["self", str(ids())])
    if r < 0.68:
        return "PollDel %d" % rng.choice(FDS)
    if r < 0.76:
        return "PollAdd new %d %d %d %d %s" % (rng.choice(FDS), rng.randint(0, 2), rng.choice([1, 1, 4, 5]), rng.choice([0, 0, 0, -1]), rng.choice(["0", "same"]))
    if r < 0.80:
        return "FdClose %d" % rng.choice(FDS)
    if r < 0.84:
        return "PollMod %d %d %d" % (rng.choice(FDS), rng.randint(0, 2), rng.choice([1, 4, 5]))
    if r < 0.90:
        return "SigDel %d" % ids()
    if r < 0.94:
        return "Tick %s" % limbs(rng.choice([1, MS, 7 * MS, 60 * MS]))
    if r < 0.96:
        return "Stop"
    return "SigAdd new %d %d 0" % (rng.choice(SIGS), rng.randint(0, 2))


def program(rng, prof):
    nid = 4
    nb = rng.randint(1, 4)
    lines = []
    for b in range(1, nb + 1):
        ops = [body_op(rng, prof, nid) for _ in range(rng.randint(1, 2))]
        lines.append("Body %d %s" % (b, " ; ".join(ops)))
    bid = lambda: rng.choice([0] + list(range(1, nb + 1)))
    durs = DUR_SMALL if prof != "c09big" else DUR_SMALL + DUR_BIG + DUR_BIG
    n_items = 0

    def setup_op():
        r = rng.random()
        i = rng.randint(1, nid)
        if prof == "c10":
            k = rng.random()
            if k < 0.1:
                return "JobDel %d" % i
            if k < 0.5:
                return "JobAdd %d %d %d" % (i, rng.randint(0, 2), bid())
            if k < 0.7:
                return "TimerAdd %d %d 0 0 0 %d" % (i, rng.randint(0, 2), bid())
            return "PollAdd %d %d %d 1 0 %d" % (i, rng.choice(FDS), rng.randint(0, 2), rng.choice([0, 0, bid()]))
        if r < 0.25:
            return "JobAdd %d %d %d" % (i, rng.randint(0, 2), bid())
        if r < 0.50 or prof.startswith("c09"):
            return "TimerAdd %d %d %s %d" % (i, rng.randint(0, 2), limbs(rng.choice(durs)), bid())
        if r < 0.70:
            return "PollAdd %d %d %d %d %d %d" % (i, rng.choice(FDS), rng.randint(0, 2), rng.choice([1, 1, 4, 5]), rng.choice([0, 0, 0, -1]), bid())
        if r < 0.80:
            return "SigAdd %d %d %d %d" % (i, rng.choice(SIGS), rng.randint(0, 2), bid())
        if r < 0.85:
            return "JobDel %d" % i
        if r < 0.90:
            return "TimerDel %d" % i
        if r < 0.95:
            return "PollDel %d" % rng.choice(FDS)
        return "TimerQuery %d" % i

    for _ in range(rng.randint(3, 9 if prof != "c10" else 7)):
        lines.append(setup_op())
        n_items += 1
    lines.append("Run")
    npoll = rng.randint(4, 14) if prof != "c10" else rng.randint(20, 45)
    hot = [f for f in FDS if rng.random() < 0.5]          # always-ready descriptors (c10 workloads)
    for _ in range(npoll):
        mode = "T"
        adv = 0
        if rng.random() < (0.35 if prof.startswith("c09") else 0.15):
            mode = "A"
            adv = rng.choice([0, 1, MS // 2, MS, 3 * MS, 49 * MS, 500 * MS])
        ready = []
        if prof == "c10":
            ready = [(f, 1) for f in hot]
        else:
            for f in FDS:
                if rng.random() < 0.3:
                    ready.append((f, rng.choice([1, 1, 4, 5, 16, 9])))
        sig = []
        if prof != "c10" and rng.random() < 0.2:
            sig = [rng.choice(SIGS) for _ in range(rng.randint(1, 2))]
        ln = "Poll %s %s" % (mode, limbs(adv))
        if ready:
            ln += " R " + " ".join("%d %d" % e for e in ready)
        if sig:
            ln += " S " + " ".join(map(str, sig))
        lines.append(ln)
    # idle tail: enough iterations for everything pending to be dispatched
    for _ in range(3 * (n_items + 12) if prof != "c10" else 12):
        lines.append("Poll T 0 0 0")
    for i in range(1, nid + 1):
        lines.append("TimerQuery %d" % i)
    return lines


def directed():
    """hand-written scenarios in the spirit of tests/check_loop.c (each is one history)"""
    P = []
    # delete a queued job from a higher-priority callback; FIFO within a priority
    P.append(["Body 1 JobDel 3", "JobAdd 1 2 1", "JobAdd 2 0 0", "JobAdd 3 0 0", "JobAdd 4 0 0", "Run"] + ["Poll T 0 0 0"] * 12)
    # timer deletes another timer that expired in the same round
    P.append(["Body 1 TimerDel 2", "TimerAdd 1 2 0 0 1000000 1", "TimerAdd 2 0 0 0 1000000 0", "Run"] + ["Poll T 0 0 0"] * 12)
    # two deliveries of one signal queued at low priority; a high-priority descriptor callback then deletes the registration
    P.append(["Body 1 SigDel 1", "SigAdd 1 10 0 0", "PollAdd 2 100 2 1 0 1", "Run", "Poll T 0 0 0 S 10 10", "Poll T 0 0 0",
              "Poll T 0 0 0 R 100 1"] + ["Poll T 0 0 0"] * 12)
    P.append(["Body 1 SigDel 1", "SigAdd 1 10 0 0", "PollAdd 2 100 2 1 0 1", "Run", "Poll T 0 0 0 S 10 10 10", "Poll T 0 0 0 R 100 1",
              "Poll T 0 0 0"] + ["Poll T 0 0 0"] * 12)
    # two registrations of one signal; one is deleted (from outside / from its own callback): the other still gets every delivery
    P.append(["SigAdd 1 10 1 0", "SigAdd 2 10 0 0", "SigDel 1", "Run", "Poll T 0 0 0 S 10", "Poll T 0 0 0", "Poll T 0 0 0 S 10 10"] + ["Poll T 0 0 0"] * 6)
    P.append(["Body 1 SigDel 1", "SigAdd 1 12 2 1", "SigAdd 2 12 1 0", "Run", "Poll T 0 0 0 S 12", "Poll T 0 0 0", "Poll T 0 0 0 S 12", "Poll T 0 0 0"] +
             ["Poll T 0 0 0"] * 6)
    # descriptor callback returns negative, closes, number reused
    P.append(["Body 1 FdClose 100 ; PollAdd new 100 1 1 0 0", "PollAdd 1 100 1 1 -1 1", "Run", "Poll T 0 0 0 R 100 1", "Poll T 0 0 0 R 100 1",
              "Poll T 0 0 0 R 100 1"] + ["Poll T 0 0 0"] * 12)
    # del + add of another descriptor + negative return inside one callback (slot reuse)
    P.append(["Body 1 PollDel 100 ; PollAdd new 101 1 1 0 0", "PollAdd 1 100 1 1 -1 1", "Run", "Poll T 0 0 0 R 100 1", "Poll T 0 0 0 R 101 1",
              "Poll T 0 0 0 R 101 1"] + ["Poll T 0 0 0"] * 12)
    # a refused second add of a registered descriptor (EEXIST) reuses the tombstone slot of an earlier registration;
    # the delete that follows must still remove the live registration (repaired by 1d85c36)
    P.append(["Body 1 PollDel 101 ; SigAdd new 10 2 0", "Body 2 PollAdd new 101 2 1 0 0", "PollAdd 3 100 1 1 -1 3", "PollAdd 4 101 2 1 0 4",
              "PollDel 100", "PollAdd 1 100 2 1 0 1", "JobAdd 4 2 2", "Run", "Poll T 0 0 0 R 100 1 102 1", "Poll T 0 0 0 R 101 5 S 12"] +
             ["Poll T 0 0 0"] * 6)
    P.append(["PollAdd 1 100 1 1 0 0", "PollAdd 2 101 1 1 0 0", "PollDel 100", "Run", "Poll T 0 0 0", "Poll T 0 0 0",
              "PollAdd 3 101 2 1 0 0", "PollDel 101", "Run", "Poll T 0 0 0 R 101 1", "Poll T 0 0 0 R 101 1"] + ["Poll T 0 0 0"] * 4)
    # stale timer handle after the slot was reused
    P.append(["TimerAdd 1 1 0 0 1000000 0", "Run"] + ["Poll T 0 0 0"] * 6 + ["TimerAdd 2 1 0 5 0 0", "TimerQuery 1", "TimerDel 1", "TimerQuery 2",
              "Run"] + ["Poll T 0 0 0"] * 8)
    # heap: delete from the middle of the timer heap, later timers must still come in order
    P.append(["TimerAdd %d 1 0 0 %d 0" % (i + 1, d * MS) for i, d in enumerate([100, 900, 200, 950, 960, 400, 300])] + ["TimerDel 4", "Run"] +
             ["Poll T 0 0 0"] * 40)
    # cancel a job that is still waiting, then a single item at that level must still be served
    for p in (0, 1, 2):
        P.append(["JobAdd 1 %d 0" % p, "JobDel 1", "JobAdd 2 %d 0" % p, "JobAdd 3 2 0", "Run"] + ["Poll T 0 0 0"] * 14)
        P.append(["JobAdd 1 %d 0" % p, "JobDel 1", "TimerAdd 2 %d 0 0 0 0" % p, "Run"] + ["Poll T 0 0 0"] * 14)
    # large durations
    for d in DUR_BIG:
        P.append(["TimerAdd 1 1 %s 0" % limbs(d), "TimerQuery 1", "Run", "Poll A 0 0 0", "Poll A 0 0 0", "TimerQuery 1"])
    # saturated workload: five self re-adding jobs and an always-ready descriptor per level
    sat = ["Body 1 JobAdd new 0 same", "Body 2 JobAdd new 1 same", "Body 3 JobAdd new 2 same"]
    k = 1
    for p in (0, 1, 2):
        for _ in range(5):
            sat.append("JobAdd %d %d %d" % (k, p, p + 1)); k += 1
        sat.append("PollAdd %d %d %d 1 0 0" % (k, 100 + p, p)); k += 1
    sat.append("Run")
    sat += ["Poll T 0 0 0 R 100 1 101 1 102 1"] * 40
    P.append(sat)
    return P
