"""C06 -- IPC: bytes from a peer never corrupt the other side, whatever they say.
Spec: spec/IpcWire.tla (+ IpcWireMC / IpcWireGen / IpcWireTrace), harness/h_ipc_raw.c.  DESIGN.md section 4 (C06).

The oracle is IpcWire.tla evaluated by TLC on the recorded events (peer steps, server callbacks, censuses, fate of
the server process).  This driver builds, asks TLC for the cases, picks seeds / samples, moves files."""
import json, os, re
from vlib import core

# Recorded findings (trigger predicates KF1..KF3 live in spec/IpcWire.tla).  A finding listed as "fixed" in
# known_findings.jsonl is no longer skipped; one not listed yet is treated as known.
KF = {
    "KF-C06-1": ("KF1", "lib/ipcs.c:_process_request_ hands the peer's hdr->size to msg_process unchecked (both transports): "
                 "a 16-byte request whose header says 8000 is reported as 8000 bytes (stale buffer / ring contents), one that "
                 "says 100000 or -1 sends the callback past the buffer / ring mapping; a chunk shorter than the header is "
                 "dispatched on whatever follows it in the ring"),
    "KF-C06-2": ("KF2", "lib/ipc_socket.c:qb_ipc_us_recv_at_most receives hdr->size bytes into the max_msg_size buffer "
                 "without comparing them: a 20000-byte datagram whose header says 20000 (or -1) overflows the 8192-byte "
                 "receive buffer (heap-buffer-overflow WRITE in recv)"),
    "KF-C06-3": ("KF3", "lib/ipc_setup.c:handle_new_connection takes max_msg_size from the raw handshake without a lower "
                 "bound: max_msg_size = 0..15 gives a receive buffer the 16-byte header peek of qb_ipc_us_recv_at_most does "
                 "not fit in (heap-buffer-overflow WRITE in recv on the first datagram)"),
}
HEAD = ["Connect 1 rec -1 24 %d 24 1", "Write 1 24", "Resp 1", "Attach 1"]
TAIL = ["Close 1 0", "GConnect 9 8192", "GSend 9 64", "GRecv 9", "GClose 9", "Census"]
REPRO = {
    "KF-C06-1": ["Up 1 0"] + [x % 8192 if "%d" in x else x for x in HEAD] + ["Send 1 2 16 5 8000 1 0"] + TAIL,
    "KF-C06-2": ["Up 0 0"] + [x % 8192 if "%d" in x else x for x in HEAD] + ["Send 1 2 20000 5 20000 1 0"] + TAIL,
    "KF-C06-3": ["Up 0 0"] + [x % 0 if "%d" in x else x for x in HEAD] + ["Send 1 2 16 5 16 1 0"] + TAIL,
}
W = int(os.environ.get("VERIF_WORKERS", "4") or 4)
INVS = ("INVARIANT TypeOK\nINVARIANT AdmittedWellFormed\nINVARIANT SuccessOnlyIfAdmitted\nINVARIANT NothingForStrangers\n"
        "INVARIANT ReportedBounded\n")
ACTIONS = ["AUp", "AConnect", "AWrite", "AClose", "AResp", "AAttach", "ASend", "AKick", "AGCont", "AGRecv", "AAccept",
           "ACreated", "AMsg", "AMsgRead", "AClosed", "ADestroyed", "ACensus", "AExit", "AJudge"]


def to_lines(h):
    return [" ".join(str(x) for x in op) for op in h]


def skipped_ids():
    st = {k["id"]: k.get("status") for k in core.load_known() if k.get("property") == "C06"}
    if os.environ.get("VERIF_C06_NOSKIP"):       # experiment switch: generate everything (used to test proposed fixes)
        return []
    return [kid for kid in KF if st.get(kid, "known") == "known"]


def kfset(skip):
    return ", ".join('"%s"' % KF[k][0] for k in skip)


def build(ctx):
    """ASan/UBSan build of the working tree + harness.  lib/ipcs.c alone is compiled without UBSan's alignment
    check: ring chunks are 4-byte aligned while struct qb_ipc_request_header asks for 8, so the header of every
    request that follows one whose length is not a multiple of 8 is "misaligned" (an int32 load on a 4-byte
    boundary) -- not an out-of-bounds access, and reachable by a truthful client as well."""
    lib = ctx.build_lib("asan")
    obj = os.path.join(os.path.dirname(lib), "obj", "ipcs.c.o")
    R = core.REPO
    rc, so, se = ctx.run(["clang-14", "-O1", "-g", "-fno-omit-frame-pointer", "-fsanitize=address,undefined",
                          "-fno-sanitize-recover=undefined", "-fno-sanitize=alignment", "-w", "-DHAVE_CONFIG_H",
                          "-D_GNU_SOURCE", "-DLIBQB_VERIF", "-pthread", "-I%s/include" % R, "-I%s/include/qb" % R,
                          "-I%s/lib" % R, "-I%s/common" % core.HARNESS, "-c", "%s/lib/ipcs.c" % R, "-o", obj], timeout=300)
    if rc != 0:
        raise core.Infra("ipcs.c rebuild failed:\n" + (se or so)[-3000:])
    rc, so, se = ctx.run(["ar", "r", lib, obj], timeout=60)
    if rc != 0:
        raise core.Infra("ar failed:\n" + (se or so)[-2000:])
    return ctx.cc("h_ipc_raw.c", "asan")


def gen(ctx, skip, mode, dev=1, nseed=10, seed=1, tag=""):
    """cases from IpcWireGen.tla (one JSON string per history; long values, so parsed here rather than by core.generate)"""
    cfg = ctx.cfg("IpcWireGen%s.cfg" % tag, "CONSTANTS KFSkip = {%s}\nSPECIFICATION GenSpec\nCONSTRAINT Emit\nCHECK_DEADLOCK FALSE\n" % kfset(skip))
    r = ctx._tlc("IpcWireGen.tla", cfg, W, env={"MODE": mode, "DEV": str(dev), "NSEED": str(nseed), "SEED": str(seed)},
                 timeout=1200, jvm=("-Xmx8g",), tag="gen" + tag)
    r.parse()
    if r.rc != 0 or r.infra_error:
        raise core.Infra("TLC generation failed (rc=%d):\n%s" % (r.rc, r.out[-4000:]))
    seen, hs = set(), []
    for m in re.finditer(r'^"GEN (.*)"$', r.out, re.M):
        if m.group(1) not in seen:
            seen.add(m.group(1))
            hs.append(json.loads(json.loads('"' + m.group(1) + '"')))
    ctx.log("generated %d histories (mode %s, dev %s, seed %s, %.1fs)" % (len(hs), mode, dev, seed, r.wall))
    return hs


def run(ctx):
    q = ctx.quick
    exe = build(ctx)
    skip = skipped_ids()

    # (1) design check: protocol machine + request-class product against the as-found receive path (recorded triggers left out)
    mc = ctx.cfg("IpcWireMC_run.cfg", 'CONSTANTS KFSkip = {%s}  Impl = "%s"  Big = %s\nSPECIFICATION Spec\n%s'
                 "INVARIANT JudgeOK\nINVARIANT CanFinish\nINVARIANT LeakRefused\nCHECK_DEADLOCK FALSE\n"
                 % (kfset(skip), "asfound" if skip else "checked", "FALSE" if q else "TRUE", INVS))
    r = ctx.model_check("IpcWireMC.tla", mc, workers=W, timeout=1500)
    ctx.check_vacuity(r, ACTIONS)
    #     the bounds of the proposed fixes hold on the whole product; the triggers are exactly where the as-found path fails
    ctx.model_check("IpcWireMC.tla", "IpcWireMC_checked.cfg", workers=W, timeout=600)
    if skip:
        ctx.model_check("IpcWireMC.tla", "IpcWireMC_exact.cfg", workers=W, timeout=600)
        ra = ctx.model_check("IpcWireMC.tla", "IpcWireMC_asfound.cfg", workers=W, timeout=600, expect_violation="JudgeOK", count=False)
        if ra.violated != "JudgeOK":
            ctx.notes.append("model-level reproducer IpcWireMC_asfound.cfg no longer yields the counterexample")

    # (2) the class product, concretised by TLC, executed on the real server, validated by TLC
    short = gen(ctx, skip, "short", seed=ctx.seed, tag="-short")
    if q:   # every prefix length in one piece with every ending, and a seeded sample of the split points
        one = [h for h in short if sum(1 for op in h if op[0] == "Write" and op[1] == 1) <= 1]
        rest = [h for h in short if h not in one]
        ctx.rng.shuffle(rest)
        short_run = one + rest[:400]
    else:
        short_run = short
    full = gen(ctx, skip, "full", dev=2 if q else 3, seed=ctx.seed, tag="-full")
    rand = gen(ctx, skip, "rand", nseed=20 if q else 400, seed=ctx.seed, tag="-rand")
    msg = []
    for k in range(1 if q else 6):
        msg += gen(ctx, skip, "msg", seed=ctx.seed + k, tag="-msg%d" % k)
    seen, msgu = set(), []
    for h in msg:
        s = json.dumps(h)
        if s not in seen:
            seen.add(s)
            msgu.append(h)
    # directed: the histories of the repaired findings, and an accepted shm client that rewrites the length word of its
    # request while msg_process runs on it (0, small, larger than the ring, near 2^32, negative), then sends on
    directed = [[ln.split() for ln in REPRO[k]] for k in sorted(REPRO)]
    head = [x % 8192 if "%d" in x else x for x in HEAD]
    for word in (0, 1, 3, 4096, 70000, 2147483632, -16, -1):
        for fill in (0, 1):
            directed.append([ln.split() for ln in ["Up 1 0"] + head + ["RewriteNext 1 %d %d" % (word, fill), "Send 1 2 64 5 64 1 0",
                                                   "Send 1 3 32 5 32 1 0", "Send 1 4 16 5 16 1 0"] + TAIL])
    hs = short_run + full + rand + msgu + directed
    ctx.sample({"short_prefix": to_lines(short_run[len(short_run) // 2])})
    ctx.sample({"complete_record": to_lines(full[len(full) // 3])})
    ctx.sample({"raw_request": to_lines(msgu[len(msgu) // 2])})
    ctx.log("%d histories: %d short prefixes (of %d), %d complete records, %d garbage strings, %d raw-request cases; skipping %s"
            % (len(hs), len(short_run), len(short), len(full), len(rand), len(msgu), skip or "nothing"))
    env = {"ASAN_OPTIONS": "detect_leaks=0:abort_on_error=0:exitcode=99:allocator_may_return_null=1",
           "UBSAN_OPTIONS": "print_stacktrace=1:halt_on_error=1:exitcode=98"}
    ctx.exec_validate(exe, hs, to_lines, "IpcWireTrace.tla", "IpcWireTrace.cfg", label="c06", timeout=1500, env=env, nshards=W)

    # (3) recorded findings: directed reproducers, nothing skipped
    for kid in KF:
        if kid not in skip:
            continue
        s = os.path.join(ctx.work, kid + ".sched")
        t = os.path.join(ctx.work, kid + ".ndjson")
        with open(s, "w") as f:
            f.write("\n".join(REPRO[kid]) + "\n")
        rc, so, se = ctx.run([exe, s, t], timeout=180, env=env)
        failing = rc != 0 or not ctx.validate("IpcWireTrace.tla", "IpcWireTrace.cfg", t).accepted
        if failing:
            ctx.known(kid, KF[kid][1])
        else:
            ctx.notes.append("%s no longer reproduces" % kid)

    ctx.cov.update({"short_prefix_histories": len(short_run), "short_prefix_product": len(short), "complete_record_histories": len(full),
                    "complete_record_max_deviations": 2 if q else 3, "garbage_strings": len(rand), "raw_request_cases": len(msgu),
                    "exhaustive": True})
    ctx.assumptions += [
        "server and peers run in one forked process per history (ASan/UBSan build, single-threaded, server stepped by hand through its own qb_ipcs_poll_handlers table); a sanitizer report, signal, assert or hang (60 s) is the event Exit != (0,0), which the specification never allows",
        "memory errors are observed by ASan/UBSan; reads past the request ring's double mapping by an 8 GiB PROT_NONE tail (interposed mmap); UBSan's alignment check is off for lib/ipcs.c (ring chunks are 4-byte aligned, the header type asks for 8)",
        "hostile max_msg_size explored up to 64 MiB (DESIGN.md 4.0); raw requests go through the raw channels only (qb_rb_chunk_write + notification bytes / datagrams + the shared 'sent' counter): the ring's shared header words are not attacked",
        "one raw request in flight at a time, and a chunk sent without its notification byte is notified before the next one: an ACCEPTED client that withholds notification bytes stalls the server in a blocking read (qb_ipc_us_recv with timeout -1) -- availability against accepted clients is not part of C06",
        "release of memory is observed as the process's live heap bytes (ASan allocator statistics) returning to the value before the peer came; descriptors by /proc/self/fd; files by /dev/shm/qb-<pid>-*",
        "request classes for which a recorded finding's trigger predicate holds (KF1..KF3 in IpcWire.tla) are left out of generation while that finding is listed as known; each has a directed reproducer",
        "class product: complete-record handshakes bounded to <= 2 (quick) / 3 (thorough) simultaneous deviations from the well-formed request; the raw-request product transport x maximum x actual x header-length is complete, the other request dimensions rotate with the case",
    ]
