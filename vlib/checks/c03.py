"""C03 -- IPC: death of the peer at any point is detected and fully cleaned up.

Spec: spec/IpcCrash.tla (property level), spec/IpcCrashMC.tla (mechanism model, design check incl. liveness),
spec/IpcCrashTrace.tla (trace validation).  Harness: harness/h_ipc_crash.c + harness/shim/wrap_count.h.

The check is a FAULT ENUMERATION: the dying side runs the real library in a forked child under a call-counting
interposer and stops at the boundary of its N-th libc call; a dry run gives the number of calls of every operation
and every N in 1..total+1 is executed (quick tier: a seeded sample), for both transports, empty / non-empty queues,
and several schedules of the surviving server; plus raw clients that write every prefix of a handshake.  TLC validates
every recorded scenario against IpcCrash (callbacks, censuses of descriptors and /dev/shm, client call results and
latencies).  Python only builds the schedule lists, moves files and counts.
"""
import json, os, random, time
from concurrent.futures import ThreadPoolExecutor
from vlib import core

OPS = {0: "connect", 1: "send", 2: "sendv_recv", 3: "event_recv", 4: "disconnect"}
MODES = {0: "fresh", 1: "stale", 2: "drained", 3: "stale+1"}
HANDSHAKE = 24          # sizeof(struct qb_ipc_connection_request)
NPAR = 8                # harness processes at a time (they mostly sleep in poll)
NVAL = 4                # TLC validations at a time


def wraps():
    with open(os.path.join(core.HARNESS, "shim", "wrap.list")) as f:
        return ["-Wl,--wrap=" + x.strip() for x in f if x.strip()]


def line(sc):
    return " ".join(str(x) for x in sc)


def run_harness(ctx, exe, scs, tag, timeout=None):
    """run scenarios (list of tuples) in one harness process; returns (rc, list of event-lists per scenario)"""
    sched = os.path.join(ctx.work, tag + ".sched")
    out = os.path.join(ctx.work, tag + ".ndjson")
    with open(sched, "w") as f:
        f.write("\nReset\n".join(line(s) for s in scs) + "\n")
    t_start = time.time()
    rc, so, se = ctx.run([exe, sched, out], timeout=timeout or (60 + 8 * len(scs)))
    per = [[]]
    hpid = None
    if os.path.exists(out):
        for ln in open(out):
            if ln.startswith('{"e":"Hello"'):
                hpid = json.loads(ln)["a"][0]
            elif ln.startswith('{"e":"Reset"'):
                per.append([])
            elif ln.strip():
                per[-1].append(ln)
    if rc != 0 and hpid:
        sweep(hpid, t_start)
    return rc, per, se


def sweep(pid, since):
    """a harness process that stopped abnormally cannot clean /dev/shm itself: remove the entries that carry its pid as
    server pid (or, for its forked servers, as client pid) and were created after it started (nothing older, nothing of
    anybody else)"""
    import glob, shutil
    for p in glob.glob("/dev/shm/qb-%d-*" % pid) + glob.glob("/dev/shm/qb-*-%d-*" % pid):
        try:
            if os.lstat(p).st_mtime >= since - 1:
                shutil.rmtree(p) if os.path.isdir(p) else os.remove(p)
        except OSError:
            pass


def write_trace(path, per):
    with open(path, "w") as f:
        for k, evs in enumerate(per):
            if k:
                f.write('{"e":"Reset","a":[],"r":[]}\n')
            for ln in evs:
                if '"e":"Dry"' not in ln:
                    f.write(ln)


def validate_group(ctx, per, tag):
    """validate scenarios (list of event lists); returns list of (index, reason) rejected.  After a rejection the
    scenario is taken out and the rest is validated again, so one defect hides nothing else."""
    idx = list(range(len(per)))
    rejected = []
    rounds = 0
    while idx and rounds < 8:
        rounds += 1
        path = os.path.join(ctx.work, "%s-v%d.ndjson" % (tag, rounds))
        write_trace(path, [per[i] for i in idx])
        v = ctx.validate("IpcCrashTrace.tla", "IpcCrashTrace.cfg", path, timeout=600)
        if v.accepted:
            return rejected, True
        # failing event is line matched+1 of the file; find its scenario
        pos = 0
        bad = len(idx) - 1
        where = 0
        for k, i in enumerate(idx):
            n = len([x for x in per[i] if '"e":"Dry"' not in x]) + (1 if k else 0)
            if v.matched + 1 <= pos + n:
                bad = k
                where = v.matched + 1 - pos - (1 if k else 0)
                break
            pos += n
        evs = [x for x in per[idx[bad]] if '"e":"Dry"' not in x]
        ev = evs[where - 1].strip() if 0 < where <= len(evs) else "(end of scenario)"
        rejected.append((idx[bad], "rejected at event %d: %s%s" % (where, ev[:160], (" [" + v.violated + "]") if v.violated else "")))
        idx.pop(bad)
    return rejected, False


def run(ctx):
    finish0 = ctx.finish
    ctx.finish = lambda *a, **k: finish0(level="fault_enumeration")

    # ---------------------------------------------------------------- 1. design check (exhaustive, with liveness)
    r = ctx.model_check("IpcCrashMC.tla", "IpcCrashMC.cfg", workers=4, timeout=900)
    ctx.check_vacuity(r, ["MBegin", "MSpawn", "MCSock", "MCWrite", "MCEstablished", "MCSend", "MCOp", "MCDisconnect",
                          "MClientDie", "MSockAccept", "MAuthGone", "MMkdir", "MAcceptCb", "MMkRes", "MRespondOk",
                          "MRespondFail", "MMsg", "MNotice", "MClosedCb", "MRmdir", "MDestroyedCb", "MSrvDie",
                          "MConnectOk", "MConnectDead", "MCallStart", "MSrvReply", "MReturnData", "MRoundDead",
                          "MFailFast", "MTimedCall", "MDisconnect"])
    if "No error has been found" not in r.out:
        ctx.violation("design check IpcCrashMC did not complete cleanly", ctx.save("mc.txt", r.out))
    # the checks bite: three seeded design errors (HUP ignored; directory kept on a failed handshake; no liveness round)
    for b, want in ((1, "QuiescentClean"), (2, "QuiescentClean"), (3, "CallReturns")):
        rb = ctx.model_check("IpcCrashMC.tla", "IpcCrashMC_bug%d.cfg" % b, workers=4, timeout=600,
                             expect_violation=want, count=False)
        if rb.violated != want:
            raise core.Infra("seeded design error %d is not detected by the model check (got %s)" % (b, rb.violated))
    ctx.cov["exhaustive_design_check"] = True

    # ---------------------------------------------------------------- 2. harness, dry runs -> number of crash points
    exe = ctx.cc("h_ipc_crash.c", "asan", extra=wraps())
    dry = [("C", t, op, q, 0, 0) for t in (0, 1) for op in range(5) for q in (0, 1)] + \
          [("S", t, v, q, 0) for t in (0, 1) for v in (0, 1, 2) for q in (0, 1)]
    totals = {}
    calls = {}

    def do_dry(k):
        part = dry[k::4]
        rc, per, se = run_harness(ctx, exe, part, "dry%d" % k)
        if rc != 0 or len(per) != len(part):
            # the library does not even get through an undisturbed scenario (sanitizer report, hang)
            bad = part[min(len(per), len(part)) - 1]
            tr = ctx.save("dry-fail-%d.ndjson" % k, "".join(per[-1]) if per else "")
            ctx.save("dry-fail-%d.txt" % k, (se or "")[-6000:])
            ctx.violation("undisturbed scenario '%s' stopped the harness (exit %d): %s" % (
                line(bad), rc, " ".join((se or "").split())[:200]), tr)
            return None
        return [(sc, evs) for sc, evs in zip(part, per)]

    with ThreadPoolExecutor(max_workers=4) as ex:
        parts = list(ex.map(do_dry, range(4)))
    if any(p is None for p in parts):
        ctx.cov["evaluations"] = len(dry)
        ctx.cov["distinct_nontrivial"] = 0
        ctx.cov["rule"] = "dry runs failed; nothing was enumerated"
        return
    res = [x for part in parts for x in part]
    dry_traces = []
    for sc, evs in res:
        d = [json.loads(x) for x in evs if '"e":"Dry"' in x]
        if len(d) != 1:
            raise core.Infra("dry run of %s recorded no call log" % (sc,))
        totals[sc[:4]] = d[0]["r"][0]
        calls[sc[:4]] = d[0]["r"][1]
        dry_traces.append(evs)
    ctx.log("dry runs: client ops %s" % {"%s/%s/q%d" % ("shm" if k[1] == 0 else "sock", OPS[k[2]], k[3]): v
                                         for k, v in totals.items() if k[0] == "C"})
    ctx.log("dry runs: server scripts %s" % {"%s/v%d/q%d" % ("shm" if k[1] == 0 else "sock", k[2], k[3]): v
                                             for k, v in totals.items() if k[0] == "S"})
    ctx.cov["crash_points_per_operation"] = {line(k): v for k, v in totals.items()}

    # ---------------------------------------------------------------- 3. the enumeration
    scs = []
    for (kind, t, a, q), tot in sorted(totals.items()):
        if kind == "C":
            for n in range(1, tot + 2):
                for m in MODES:
                    scs.append(("C", t, a, q, m, n))
        else:
            for n in range(1, tot + 4):
                scs.append(("S", t, a, q, n))
    for t in (0, 1):
        for k in range(HANDSHAKE + 1):
            for m in MODES:
                scs.append(("R", t, k, m))
    space = len(scs)
    if ctx.quick:
        rng = random.Random(ctx.seed * 1000003 + 3)
        keep = set(rng.sample(range(space), max(60, space // 10)))
        # always keep a few directed points: the failed-handshake path and a server death inside a wait-forever call
        # ... and every stop point inside the server's own tear-down of the connection (variant 2: the last calls of its
        # script -- unlink of each ring's data and header file, close, rmdir), empty queues
        tear = [("S", t, 2, 0, n) for t in (0, 1) for n in range(max(1, totals[("S", t, 2, 0)] - 45), totals[("S", t, 2, 0)] + 2)]
        # ... and every stop point of the two short client operations that make the server answer (sendv_recv, event_recv),
        # both transports, queues empty, the server running only after the death (fresh / stale): its first response or
        # event on that connection then goes to a peer that is gone
        small = [("C", t, op, 0, m, n) for t in (0, 1) for op in (2, 3) for m in (0, 1) for n in range(1, totals[("C", t, op, 0)] + 2)]
        scs = [s for i, s in enumerate(scs) if i in keep] + tear + small + \
              [("R", 0, HANDSHAKE, 3), ("R", 1, HANDSHAKE, 3), ("C", 0, 0, 0, 2, 12), ("C", 1, 0, 0, 1, 20)]
        scs = list(dict.fromkeys(scs))
    ctx.log("%d scenarios to run (enumeration space %d)" % (len(scs), space))

    rng2 = random.Random(ctx.seed)
    order = list(range(len(scs)))
    rng2.shuffle(order)                       # spread slow (2 s liveness round) scenarios over the shards
    nsh = max(1, min(NPAR * 3, len(scs) // 12))
    shards = core.shard(order, nsh)
    results = [None] * len(scs)                # per scenario: list of event lines
    died = []                                  # (scenario index, text)

    def exec_shard(si):
        todo = list(shards[si])
        part = 0
        while todo:
            part += 1
            rc, per, se = run_harness(ctx, exe, [scs[i] for i in todo], "sh%d_%d" % (si, part))
            done = len(per) if rc == 0 else max(0, len(per) - 1)
            for k in range(min(done, len(todo))):
                results[todo[k]] = per[k]
            if rc == 0:
                break
            # the harness stopped (watchdog "Hang", sanitizer report, signal) inside scenario `done`
            if done < len(todo):
                results[todo[done]] = per[done] if done < len(per) else []
                died.append((todo[done], "harness exit %d: %s" % (rc, (se or "")[-1200:])))
            todo = todo[done + 1:]

    t0 = time.time()
    with ThreadPoolExecutor(max_workers=NPAR) as ex:
        list(ex.map(exec_shard, range(len(shards))))
    ctx.log("executed %d scenarios in %.1fs (%d harness stops)" % (len(scs), time.time() - t0, len(died)))

    # ---------------------------------------------------------------- 4. trace validation
    died_idx = {i for i, _ in died}
    rejected = list(died)

    def val_shard(si):
        idx = [i for i in shards[si] if results[i] is not None and i not in died_idx]
        if not idx:
            return 0
        rej, complete = validate_group(ctx, [results[i] for i in idx], "val%d" % si)
        for k, why in rej:
            rejected.append((idx[k], why))
        return len(idx) - len(rej) if complete else 0

    t0 = time.time()
    with ThreadPoolExecutor(max_workers=NVAL) as ex:
        accepted = sum(ex.map(val_shard, range(len(shards))))
    # the dry runs are complete scenarios too (stop point "idle after the operation")
    rej, _ = validate_group(ctx, dry_traces, "valdry")
    accepted += len(dry_traces) - len(rej)
    for k, why in rej:
        ctx.violation("dry-run scenario %s: %s" % (line(res[k][0]), why), ctx.save("dry-%d.ndjson" % k, "".join(dry_traces[k])))
    ctx.log("validated: %d accepted, %d rejected, %.1fs" % (accepted, len(rejected), time.time() - t0))

    # ---------------------------------------------------------------- 5. confirm rejections by re-running them alone
    nrep = 0
    for i, why in sorted(rejected)[:40]:
        confirmed = None
        for attempt in range(2):
            rc, per, se = run_harness(ctx, exe, [scs[i]], "confirm%d_%d" % (i, attempt), timeout=120)
            if rc != 0:
                confirmed = "harness exit %d on re-run: %s" % (rc, (se or "")[-600:])
                break
            rj, _ = validate_group(ctx, per[:1], "confirmv%d_%d" % (i, attempt))
            if rj:
                confirmed = rj[0][1]
                break
        if confirmed is None:
            ctx.notes.append("unconfirmed rejection dropped: scenario '%s': %s" % (line(scs[i]), why[:200]))
            accepted += 1
            continue
        nrep += 1
        if nrep <= 10:
            tr = ctx.save("scenario-%d.ndjson" % i, "".join(per[0]) if rc == 0 and per else "".join(results[i] or []))
            ctx.save("scenario-%d.sched" % i, line(scs[i]) + "\n")
            ctx.violation("scenario '%s' (%s): %s" % (line(scs[i]), describe(scs[i]), confirmed[:240]), tr)
    if len(rejected) > 40:
        ctx.violation("%d further rejected scenarios not re-run" % (len(rejected) - 40), None)
    ctx.cov["traces_validated_against_impl"] += accepted

    # ---------------------------------------------------------------- 6. what was covered (counted from the recordings)
    nontrivial = set()
    stops = {}
    observations = {"stats_active_after_everything_gone": 0, "dead_server_directory_left": 0,
                    "dead_server_unreachable_leftovers": 0, "watchdog_kills": 0, "liveness_rounds_2s": 0}
    for i, evs in enumerate(results):
        if not evs:
            continue
        sc = scs[i]
        E = [json.loads(x) for x in evs if '"e":"Dry"' not in x]
        for e in E:
            if e["e"] == "ClientDied":
                fn = e["r"][2]
                if sc[0] == "R" or e["r"][1] == 1:
                    nontrivial.add(sc)
                stops[fn] = stops.get(fn, 0) + 1
                if len(e["r"]) > 3 and e["r"][3] == 1:
                    observations["watchdog_kills"] += 1
            elif e["e"] == "SrvDied":
                if e["r"][0] == 9 and sc[0] == "S" and e["r"][2] == sc[4] - 1:
                    nontrivial.add(sc)
            elif e["e"] == "CDisconnect" and e["r"][1] > 0:
                observations["dead_server_directory_left"] += 1
            elif e["e"] == "End" and len(e["r"]) == 6 and (e["r"][4] or e["r"][5]) and not e["r"][2]:
                observations["dead_server_unreachable_leftovers"] += 1
            elif e["e"] == "CCall" and e["r"][1] >= 1500:
                observations["liveness_rounds_2s"] += 1
        q = [e for e in E if e["e"] == "Quiesce"]
        if sc[0] != "S" and q and q[-1]["r"][1] != 0:
            observations["stats_active_after_everything_gone"] += 1
    ctx.cov["evaluations"] = len(scs) + len(dry)
    ctx.cov["distinct_nontrivial"] = len(nontrivial)
    ctx.cov["rule"] = ("one evaluation = one scenario: (client death: transport x operation x queues x server schedule x N) / "
                       "(raw client: transport x handshake prefix length x server schedule) / (server death: transport x "
                       "timeout variant x queues x N), N = index of the libc call at whose boundary the dying process stops, "
                       "enumerated 1..total+1 from a dry run (quick tier: seeded sample of about 10%). Scenarios are distinct "
                       "by construction; one is counted non-trivial when the recording shows that the dying process really "
                       "stopped at that call inside the operation (client: stop point reached; raw: always; server: killed "
                       "by its own counter at call N), i.e. not the fall-back 'died idle after the script'.")
    ctx.cov["enumeration_space"] = space
    ctx.cov["exhaustive"] = (not ctx.quick) and not rejected
    ctx.cov["stop_calls"] = stops
    ctx.cov["observations_not_judged"] = observations
    for sc in (("C", 0, 0, 0, 1, 9), ("R", 0, HANDSHAKE, 3), ("S", 0, 1, 0, 66)):
        if sc in scs and results[scs.index(sc)]:
            ctx.sample({"scenario": line(sc), "events": [json.loads(x) for x in results[scs.index(sc)] if '"Step"' not in x][:40]})
    for i in order[:3]:
        if results[i]:
            ctx.sample({"scenario": line(scs[i]), "what": describe(scs[i]),
                        "events": [json.loads(x) for x in results[i] if '"Step"' not in x][:30]})
    # ---------------------------------------------------------------- 5. the dead client's connection outlives it
    # "... keeps serving its other clients": a client dies while the application still holds a reference on its connection
    # (or its connection_closed asks to be run again), a new client connects meanwhile, the reference is dropped, the
    # connection list is walked and the new client is talked to.  Harness and oracle of C04 (h_ipc_life.c, IpcLife.tla):
    # callback order, list contents, freed memory (ASan).
    from vlib.checks import ipclifegen
    lexe = ctx.cc("h_ipc_life.c", "asan")
    lprogs = []
    for T in (0, 1):
        S = ["Svc %d" % T]
        for killer in (["Fork 0 1 1", "Wait 0", "Kill 0"], ["CConnect 0", "Step", "Step", "CContinue 0", "CDisc 0"]):
            lprogs.append(S + ["Body created 1 0 Ref self"] + killer + ["Step", "Step", "CConnect 1", "Step", "Step", "CContinue 1", "Unref 1",
                               "IterFirst", "IterNext", "UnrefPrev", "UnrefCur", "Event 2", "CSend 1 2", "Step", "CRecv 1", "RateLimit 0", "CDisc 1", "Step"])
            lprogs.append(S + ["ClosedRet 1 1 1"] + killer + ["Step", "CConnect 1", "Step", "Step", "CContinue 1", "Jobs", "IterFirst", "IterNext",
                               "UnrefPrev", "UnrefCur", "Jobs", "Event 2", "CSend 1 1", "Step", "CRecv 1", "SvcDestroy", "Drain"])
    lprogs += [p for p in ipclifegen.directed() if any(x.startswith(("Fork", "Kill")) for x in p)]
    lrng = random.Random(ctx.seed * 77 + 1)
    lprogs += [ipclifegen.program(lrng) for _ in range(150 if ctx.quick else 1500)]
    ctx.exec_validate(lexe, lprogs, lambda p: p, "IpcLifeTrace.tla", "IpcLifeTrace.cfg", nshards=4, label="c03-life", timeout=1200)
    ctx.cov["outliving_connection_programs"] = len(lprogs)

    ctx.assumptions += [
        "crash points are the boundaries of the libc calls listed in harness/shim/wrap.list as made by the library inside the operation; a process can also stop between two instructions that are not separated by such a call (e.g. between two stores into the shared ring) - those points are covered only through the call before and after",
        "the surviving server is stepped by the harness through its own qb_ipcs_poll_handlers table (one thread); four schedules per crash point (fresh / stale / drained / stale+1), not every interleaving",
        "latencies are real CLOCK_MONOTONIC time on a shared machine: deadline slack 1500 ms, 'immediately' = 500 ms, at most two 2-second liveness rounds; a rejection is reported only if a re-run reproduces it",
        "reading decisions of spec/IpcCrash.tla: requests queued before the death may or may not be delivered; a plain receive with a positive timeout may use its timeout after a disconnect was reported; the directory of a dead server and connection statistics are recorded, not judged",
        "Linux abstract sockets (no filesystem sockets), max_msg_size 8192, root in the sandbox; TLC, clang ASan/UBSan and the harness projection (h_ipc_crash.c, wrap_count.h) are trusted",
    ]


def describe(sc):
    tr = lambda t: "shm" if t == 0 else "socket"
    if sc[0] == "C":
        return "client dies at call %d of %s, %s, queues %s, server schedule %s" % (
            sc[5], OPS[sc[2]], tr(sc[1]), "non-empty" if sc[3] else "empty", MODES[sc[4]])
    if sc[0] == "R":
        return "raw client writes %d of %d handshake bytes and dies, %s, server schedule %s" % (sc[2], HANDSHAKE, tr(sc[1]), MODES[sc[3]])
    return "server dies at its call %d, %s, %s timeouts, queues %s" % (sc[4], tr(sc[1]), {0: "finite", 1: "infinite", 2: "finite (server tears the connection down itself at the end)"}[sc[2]], "non-empty" if sc[3] else "empty")
