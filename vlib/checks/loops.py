"""Shared driver for C08 / C09 / C10 (spec/Loop.tla, harness/h_loop.c)."""
import os, random
from vlib import core
from vlib.checks import loopgen


def run_profiles(ctx, profiles, n_quick, n_thorough, label):
    exe = ctx.cc("h_loop.c", "asan")
    rng = random.Random(ctx.seed * 7919 + 13)
    progs = [p for p in loopgen.directed()]
    nd = len(progs)
    n = n_quick if ctx.quick else n_thorough
    for prof in profiles:
        for _ in range(n):
            progs.append(loopgen.program(rng, prof))
    ctx.sample({"program": progs[0]})
    ctx.sample({"program": progs[nd][:40]})
    ctx.log("%d programs (%d directed)" % (len(progs), nd))
    ctx.exec_validate(exe, progs, lambda p: p, "LoopTrace.tla", "LoopTrace.cfg", label=label)
    ctx.cov["programs_directed"] = nd
    ctx.cov["programs_random"] = len(progs) - nd
    ctx.assumptions += [
        "the clock is virtual and only advances inside the poll call or by explicit Tick steps in callbacks",
        "poll results, signal arrivals and the kernel's polled-descriptor set are scripted (fake epoll_ctl/epoll_wait in the harness)",
        "random() is scripted to return fresh values: a colliding check word (2^-31 by design) is outside the property",
    ]


def model(ctx):
    """design check: bounded exploration of the loop specification itself"""
    r = ctx.model_check("LoopMC.tla", "LoopMC.cfg", workers=4, timeout=900,
                        extra=["-simulate", "num=%d" % (300 if ctx.quick else 6000), "-depth", "60", "-seed", str(ctx.seed)])
    ctx.cov["model_exploration"] = ("Loop (property-level): TLC simulation mode, invariants in every state; LoopImpl (the transcribed mechanism: rotation, "
                                    "budget, wait->job move, timer expiry, timeout computation) joint with Loop: exhaustive BFS per workload, "
                                    "invariant Refines = every mechanism step is allowed by the property-level guards")
    # the mechanism refines the property-level specification, for every schedule of three workloads
    for wl in ("one", "mix", "sat"):
        r2 = ctx.model_check("LoopImplMC.tla", "LoopImplMC_%s.cfg" % wl, workers=4, timeout=900)
        ctx.check_vacuity(r2, ["MTop", "MPoll", "MRunLevel"])
    ctx.check_vacuity(r, ["JobAdd", "JobDel", "TimerAdd", "TimerDel", "PollAdd", "PollDel", "SigAdd", "SigDel", "RunBegin",
                          "RunEnd", "CbJob", "CbTimer", "ACbFd", "CbSig", "Poll"])
