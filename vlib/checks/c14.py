"""C14 -- blackbox records reproduce the logged message exactly as printf would.
Spec: spec/BbCodec.tla (+MC, Gen, Trace), harness/h_bbcodec.c.  See DESIGN.md section 4 (C14).

TLC enumerates format SHAPES (token sequences); this driver only fills in values from fixed menus by
seed and moves files.  The oracle is BbCodecTrace.tla; libc's vsnprintf (inside the harness) supplies
the reference text, as the property names printf as the reference."""
import os
from vlib import core

# findings of the unchanged tree (proposed known_findings.jsonl entries; see proposed_fixes/C14-*.patch)
KFS = {
    1: ("KF-C14-1", "encoder: precision digits are remembered across directives (reset only by %%), so a later %s is "
                    "stored truncated: \"%.3d %s\" decodes \"005 abc\" for (5, \"abcdefgh\")"),
    2: ("KF-C14-2", "encoder stores a byte for \"%%\" (and parses the second '%' again as a directive start) that the decoder "
                    "does not consume: \"%% %d\" decodes a wrong number, \"%%d\" reads a variadic argument that was never passed"),
    3: ("KF-C14-3", "decoder: literal copies, \"%%\" and the position after an over-long directive are not bounded by str_len "
                    "(location exceeds str_len, str_len - location wraps): \"%200d%200d%200d%200d\" writes 288 bytes past a 512 byte buffer"),
    4: ("KF-C14-4", "encoder: %s with the reservation exactly exhausted advances location past max_len; the next %s is copied with "
                    "max_len - location wrapped: \"%s%s%s\" with 300-character strings into 512 bytes writes past the reservation"),
    5: ("KF-C14-5", "decoder does not terminate the text after a literal / \"%%\": a format whose last directive is \"%%\" decodes with "
                    "the previous contents of the caller's buffer appended (qb-blackbox prints \"progress 100%ong message ...\")"),
    6: ("KF-C14-6", "qb_log_blackbox_print_from_file: message[len] = 0 with len = 512 when the decoded text has 511 or more characters "
                    "(one byte past char message[512])"),
    7: ("KF-C14-7", "decoder: the rebuilt one-directive format overflows char fmt[20] for \"%-0+ #*.*lld\" with a '*' precision of INT_MIN"),
    8: ("KF-C14-8", "decoder rebuilds a negative '*' precision as \".-1\", which is not a printf directive (printf takes a negative "
                    "precision as absent): \"%.*d\" with (-1, 42) does not decode to \"42\""),
}
# directed reproducer (harness Direct case) of each finding
REPRO = {1: 1, 2: 3, 3: 5, 4: 6, 5: 4, 6: 7, 7: 10, 8: 11}
TOLERATED_IN_HARNESS = (3, 4, 6)

JOBS = 4          # TLC workers / harness shards (the machine is shared)
FLAGS = [0, 0, 0, 0, 1, 2, 4, 8, 16, 32, 3, 5, 18, 21, 40, 63]
LM_FLOAT = (9, 10, 11, 12, 13, 14, 15, 16)


def kf_status():
    listed = {k["id"]: k.get("status") for k in core.load_known() if k.get("property") == "C14"}
    active, proposed = set(), []
    if "VERIF_C14_KF" in os.environ:      # e.g. VERIF_C14_KF="" : try a fix before known_findings.jsonl is edited
        return {int(x) for x in os.environ["VERIF_C14_KF"].replace(",", " ").split()}, []
    for n, (kid, _) in KFS.items():
        st = listed.get(kid)
        if st == "fixed":
            continue
        active.add(n)
        if st is None:
            proposed.append(kid)
    return active, proposed


def tla_set(s):
    return "{" + ", ".join(str(x) for x in sorted(s)) + "}"


def consts(asis=(), kf=(), maxtok=0, ms=(), ss=(), rich=None):
    t = "CONSTANTS AsIs = {%s}  KF = %s  MaxTok = %d  Ms = %s  Ss = %s%s\n" % (
        ", ".join('"%s"' % a for a in asis), tla_set(kf), maxtok, tla_set(ms), tla_set(ss),
        "" if rich is None else "  Rich = %s" % ("TRUE" if rich else "FALSE"))
    return t


def mc_cfg(ctx, name, asis, kf, maxtok, rich, invs):
    return ctx.cfg(name, consts(asis, kf, maxtok, (1, 7, 12, 20, 64), (1, 8, 512), rich) + "CONSTANT Toks <- MCToks\nSPECIFICATION Spec\n" +
                   "".join("INVARIANT %s\n" % i for i in invs) + "CHECK_DEADLOCK FALSE\n")


def trace_cfg(ctx, kf, name="BbCodecTrace.cfg"):
    return ctx.cfg(name, consts((), kf) + "CONSTANT Toks = {}\nSPECIFICATION TraceSpec\nPOSTCONDITION TraceAccepted\nCHECK_DEADLOCK FALSE\n")


def gen(ctx, kf, minlen, depth, how, num=0, tag="", small=False):
    """format shapes from BbCodecGen.tla.  (core.generate expects one-line <<"GEN", ..>> tuples, which TLC wraps
    for long values; this module prints a plain string per shape and is parsed here.)"""
    import json, re
    cfg = ctx.cfg("BbCodecGen%s.cfg" % tag, consts((), kf, 100) + "CONSTANT Toks <- GenToks\nSPECIFICATION GenSpec\n"
                  "CONSTRAINT Prune\nCHECK_DEADLOCK FALSE\n")
    workers = JOBS
    extra = []
    if how == "simulate":
        extra = ["-simulate", "num=%d" % max(1, num // workers), "-depth", str(depth + 1), "-seed", str(ctx.seed)]
    r = ctx._tlc("BbCodecGen.tla", cfg, workers, extra=extra, env={"DEPTH": str(depth), "MINLEN": str(minlen), "SMALL": "1" if small else "0"},
                 timeout=1200, jvm=("-Xmx8g",), tag="gen" + tag)
    r.parse()
    if r.rc != 0 or r.infra_error:
        raise core.Infra("TLC generation failed (rc=%d):\n%s" % (r.rc, r.out[-4000:]))
    seen, hs = set(), []
    for m in re.finditer(r'^"GEN (.*)"$', r.out, re.M):
        if m.group(1) not in seen:
            seen.add(m.group(1))
            hs.append(json.loads(m.group(1)))
    ctx.log("generated %d distinct shapes (%s, length %d..%d, %.1fs)" % (len(hs), how, minlen, depth, r.wall))
    return hs


def concretise(shape, rng):
    """fill the menus' free choices into a shape (no semantics: every choice is admissible for every shape)"""
    out = []
    for t in shape:
        if t[0] == 0:
            out.append([0, t[1], rng.choice([1, 3] if t[1] == 1 else [1, 2, 9, 40, 200])])
        elif t[0] == 1:
            out.append([1])
        else:
            _, _, wk, _, pk, _, lm, cv, ak, sl = t
            wv = 0 if wk == 0 else rng.choice([0, 1, 7, 200] if wk == 1 else [0, 1, 200, -5])
            _pv = t[5]
            pv = 0 if pk == 0 else rng.choice([0, 1, 3, 200] if pk == 1 else ([-1, -7] if _pv < 0 else [0, 1, 200]))
            if cv == 0:
                cv, ak = rng.randrange(0, 6), rng.randrange(0, 9)
            elif cv == 11:
                cv, ak = rng.choice(LM_FLOAT), rng.randrange(0, 10)
            elif cv == 6:
                ak = rng.randrange(0, 4)
            elif cv == 7:
                ak = 5 if sl == -1 else rng.choice([0, 1, 2, 3, 4, 6, 7])
            elif cv == 8:
                ak = rng.randrange(0, 4)
            out.append([2, rng.choice(FLAGS), wk, wv, pk, pv, lm, cv, ak])
    return out


def to_lines(h):
    if h[0] == "D":
        return ["Direct %d %d" % (h[1], h[2])]
    bb, toks = h
    return ["Vec %d %d %s" % (bb, len(toks), " ".join(" ".join(str(x) for x in t) for t in toks))]


def harness_kf(active):
    s = ",".join(str(n) for n in TOLERATED_IN_HARNESS if n in active)
    return ["--kf", s] if s else []


def kf_repro(ctx, exe, n, active):
    """directed reproducer of finding n: the real variadic call site, run with every OTHER active finding tolerated
    and finding n not.  Still failing -> KNOWN-FINDING line; no longer failing -> note."""
    kid, what = KFS[n]
    others = active - {n}
    s = os.path.join(ctx.work, kid + ".sched")
    t = os.path.join(ctx.work, kid + ".ndjson")
    open(s, "w").write("Direct %d 1\n" % REPRO[n])
    rc, so, se = ctx.run([exe, s, t] + harness_kf(others), timeout=60)
    failing = rc != 0
    if not failing:
        failing = not ctx.validate("BbCodecTrace.tla", trace_cfg(ctx, others, "BbCodecTrace_%s.cfg" % kid), t).accepted
    if failing:
        ctx.known(kid, what)
    else:
        ctx.notes.append("%s no longer reproduces (reproducer: harness Direct %d)" % (kid, REPRO[n]))


def run(ctx):
    q = ctx.quick
    active, proposed = kf_status()
    if proposed:
        ctx.notes.append("findings not yet listed in known_findings.jsonl, treated as known (proposed): " + ", ".join(proposed))
    exe = ctx.cc("h_bbcodec.c", "asan")
    invs = ["TypeOK", "InvEnc", "InvAgree", "InvDec"]
    # (1) design check of the REQUIRED automata: slot agreement, contract and bounds for every token sequence
    r = ctx.model_check("BbCodecMC.tla", mc_cfg(ctx, "BbCodecMC_req.cfg", (), (), 3, not q, invs), workers=JOBS)
    ctx.check_vacuity(r, ["ALit", "APct", "AConv", "AEnc", "ADec"])
    #     the code-as-found automata satisfy the same invariants outside the recorded triggers
    r = ctx.model_check("BbCodecMC.tla", mc_cfg(ctx, "BbCodecMC_asis.cfg", ("carry", "pct", "encs", "decb"), (1, 2, 3, 4, 5, 8), 2 if q else 3, q, invs), workers=JOBS)
    #     model-level reproducers: each as-found switch alone breaks its invariant
    for sw, inv, n in (("carry", "InvEnc", 1), ("pct", "InvAgree", 2), ("decb", "InvDec", 3), ("encs", "InvEnc", 4)):
        r = ctx.model_check("BbCodecMC.tla", mc_cfg(ctx, "BbCodecMC_%s.cfg" % sw, (sw,), (), 3, False, [inv]),
                            expect_violation=inv, count=False, workers=JOBS)
        if r.violated != inv:
            raise core.Infra("model-level reproducer '%s' no longer violates %s" % (sw, inv))
    # (2) spec -> code -> spec: every shape up to length 2 (thorough: a second, independent filling), random walks to length 8
    gen_kf = active & {1, 2, 5, 8}
    hs = []
    shapes = gen(ctx, gen_kf, 1, 2, "bfs", tag="-x")
    nshape = len(shapes)
    for rep in range(1 if q else 3):
        for i, s in enumerate(shapes):
            hs.append((1 if (i + rep) % (8 if q else 2) == 0 else 0, concretise(s, ctx.rng)))
    nshape3 = 0
    if not q:
        shapes3 = gen(ctx, gen_kf, 3, 3, "bfs", tag="-x3", small=True)
        nshape3 = len(shapes3)
        for i, s in enumerate(shapes3):
            hs.append((1 if i % 16 == 0 else 0, concretise(s, ctx.rng)))
    nx = len(hs)
    walks = gen(ctx, gen_kf, 3, 8, "simulate", num=(1000 if q else 10000), tag="-s")
    for i, s in enumerate(walks):
        hs.append((1 if i % 4 == 0 else 0, concretise(s, ctx.rng)))
    # compiled-in call sites (real variadic calls) that fall under no finding
    hs += [("D", 8, 1), ("D", 9, 1)]
    ctx.sample({"vector": to_lines(hs[7])[0]})
    ctx.sample({"vector": to_lines(hs[nx + 5])[0]})
    ctx.log("%d vectors (%d from %d exhaustive shapes of length <= 2%s)" % (
        len(hs), nx, nshape, "" if q else " and %d of length 3 over the reduced alphabet" % nshape3))
    tcfg = trace_cfg(ctx, active)
    CH = 60000           # per call: 4 shards of <= 15000 vectors (one TLC run each)
    for c in range(0, len(hs), CH):
        ctx.exec_validate(exe, hs[c:c + CH], to_lines, "BbCodecTrace.tla", tcfg, harness_args=harness_kf(active),
                          label="c14-%d" % (c // CH), nshards=JOBS)
    # (3) recorded findings: directed reproducers
    for n in sorted(active):
        kf_repro(ctx, exe, n, active)
    ctx.cov["shapes_exhaustive_len"] = 2 if q else 3
    ctx.cov["shapes_exhaustive"] = nshape + nshape3
    ctx.cov["vectors_exhaustive"] = nx
    ctx.cov["vectors_random_walk"] = len(hs) - nx - 2
    ctx.cov["exhaustive"] = True
    ctx.assumptions += [
        "x86-64 System V ABI: the harness builds va_lists by hand (checked against a real call at start-up); compiled-in real variadic call sites are used for the reproducers",
        "libc vsnprintf (glibc) on the same format and arguments is the reference text, as the property names printf",
        "length modifiers l ll z t j on the integer conversions and l on the floating ones; h hh L q, %lc %ls %n, positional arguments and the I flag are outside the quantifier",
        "a NULL string printed with a precision is left out (printf has no defined text: glibc prints \"\" where the stored \"(null)\" yields a prefix)",
        "'*' widths from {0, 1, 200, -5}, '*' precisions from {0, 1, 200, -1, -7}; the character 0 for %c is left out; arguments that are not NUL-terminated arrays are not tried",
    ] + ([
        "format shapes that fall under the recorded findings " + ", ".join(KFS[n][0] for n in sorted(active)) +
        " are excluded (1, 2, 5, 8: by the generator) or tolerated only under the finding's trigger predicate evaluated by TLC (3, 4, 6); "
        "7 lies outside the value menus; each has a directed reproducer"] if active else []) + [
        "memory errors are observed by ASan/UBSan on the harness (exact-size heap buffers), the decoder's read extent by a guard page",
        "the record contract (slot sizes, no slot for %%) is the one in spec/BbCodec.tla; a record counts as stored iff the encoder returns less than max_len",
    ]
