"""C05 -- IPC admission: credentials, refusal leaves nothing, files stay private.
Spec: spec/IpcAdmit.tla (+ IpcAdmitMC mechanism model, IpcAdmitGen scenarios, IpcAdmitTrace).
Harness: harness/h_ipc_admit.c.  See DESIGN.md section 4 (C05) and 4.0."""
import json, os, re
from vlib import core

WRAP = ("open openat creat mkdtemp mkstemp mkdir chmod fchmod fchmodat chown lchown fchown fchownat ftruncate truncate "
        "posix_fallocate mmap munmap close unlink unlinkat rmdir rename link symlink bind umask send").split()

INVARIANTS = ["AcceptArgsAreKernelCreds", "RefusalReported", "NoConnectionWithoutAccept", "NoMsgFromRefused",
              "RefusedLeavesNothing", "ResKnown", "DirNoOther", "FileModeWithinChosen", "OwnerAuthorised"]

# recorded findings: id -> (directed scenario, invariant it violates, text)
KF = {
    "KF-C05-1": ([[1, 1, 0, 0], [2, 1, 65534, 1, 1, 0, 0, 0, 0, 0, 0]], "AcceptArgsAreKernelCreds",
                 "connection_accept is handed the peer's REAL uid/gid (kernel-filled SCM_CREDENTIALS), not its effective ids: "
                 "a client with effective ids 65534:1 and real ids 0:0 is presented as 0:0 "
                 "(scenario: Server shm; Client setresgid(-1,1,-1) setresuid(-1,65534,-1) qb_ipcc_connect)"),
    "KF-C05-2": ([[1, 2, 0, 0], [2, 1, 1000, 1000, 0, 0, 0, 1, 0, 1000, 432]], "OwnerAuthorised",
                 "socket transport: after qb_ipcs_connection_auth_set(uid,gid,mode) in connection_accept the per-connection "
                 "directory keeps the peer's ids (only qb_ipcs_shm_connect re-chowns it): directory 1000:1000 while 0:1000 was authorised "
                 "(scenario: Server socket; Client 1000:1000, accept + auth_set(0,1000,0660))"),
    "KF-C05-3": ([[1, 1, 0, 0], [2, 1, 1000, 1000, 0, 0, 0, 1, 1000, 1000, 288]], "FileModeWithinChosen",
                 "files are created 0600 whatever mode connection_accept chose: with auth_set(...,0440) every ring file is owner-writable "
                 "(0600) from open() until the final chmod, also after it has been chowned to the authorised user "
                 "(scenario: Server shm; Client 1000:1000, accept + auth_set(1000,1000,0440))"),
}


def to_lines(h):
    out = []
    for op in h:
        if op[0] == 1:
            out.append("Server %d %d %d" % (op[1], op[2], op[3]))
        else:
            out.append("Client " + " ".join(str(x) for x in op[1:]))
    out.append("Run")
    return out


# findings still recorded as "known" (a "fixed" line in known_findings.jsonl makes its trigger family judged again)
ACTIVE = {kid for kid in ("KF-C05-1", "KF-C05-2", "KF-C05-3")
          if {k["id"]: k.get("status") for k in core.load_known() if k.get("property") == "C05"}.get(kid, "known") == "known"}


def gen(ctx, depth, sim, full, kfskip, num=0, tag="", seed=None):
    """scenarios from IpcAdmitGen.tla (it prints one plain line per scenario; parsed here because TLC wraps long tuples)"""
    extra = []
    workers = 4
    if sim:
        workers = 1      # RandomElement streams are per worker and identical across workers
        extra = ["-simulate", "num=%d" % num, "-depth", str(depth + 3), "-seed", str(seed if seed is not None else ctx.seed)]
    r = ctx._tlc("IpcAdmitGen.tla", os.path.join(core.SPEC, "IpcAdmitGen.cfg"), workers, extra=extra,
                 env={"DEPTH": str(depth), "SIM": "1" if sim else "0", "FULL": "1" if full else "0",
                      "KFSKIP": "1" if kfskip else "0", "KF1": "1" if "KF-C05-1" in ACTIVE else "0",
                      "KF2": "1" if "KF-C05-2" in ACTIVE else "0", "KF3": "1" if "KF-C05-3" in ACTIVE else "0"}, timeout=1200, jvm=("-Xmx6g",), tag="gen" + tag)
    r.parse()
    if r.rc != 0 or r.infra_error:
        raise core.Infra("TLC generation failed (rc=%d):\n%s" % (r.rc, r.out[-4000:]))
    seen, hs = set(), []
    for m in re.finditer(r'^"GEN (.*)"$', r.out, re.M):
        if m.group(1) not in seen:
            seen.add(m.group(1))
            hs.append(json.loads(m.group(1)))
    ctx.log("generated %d distinct scenarios (%s, depth %d, %.1fs)" % (len(hs), "simulate" if sim else "bfs", depth, r.wall))
    return hs


def kf_repro(ctx, exe, kfid):
    """directed reproducer of a recorded finding, run without the exclusion.  Still rejected (by the expected
    invariant) -> KNOWN-FINDING; no longer rejected -> nothing."""
    hist, inv, what = KF[kfid]
    s = os.path.join(ctx.work, kfid + ".sched")
    t = os.path.join(ctx.work, kfid + ".ndjson")
    with open(s, "w") as f:
        f.write("\n".join(to_lines(hist)) + "\n")
    rc, so, se = ctx.run([exe, s, t], timeout=120)
    if rc != 0:
        ctx.violation("%s reproducer: harness exit %d (%s)" % (kfid, rc, (se or so)[-300:]), s)
        return
    v = ctx.validate("IpcAdmitTrace.tla", "IpcAdmitTrace.cfg", t)
    m = re.search(r"Invariant (\S+) is violated", v.out)
    violated = m.group(1) if m else None
    if v.accepted:
        ctx.notes.append("%s no longer reproduces" % kfid)
    elif violated == inv:
        ctx.known(kfid, what)
    else:
        ctx.violation("%s reproducer rejected for a different reason (%s)" % (kfid, violated), s)


def run(ctx):
    q = ctx.quick
    kfskip = os.environ.get("C05_KFSKIP", "1") != "0"
    exe = ctx.cc("h_ipc_admit.c", "asan", extra=["-Wl,--wrap=" + w for w in WRAP])

    # (1) design check: the documented mechanism (as the code is, minus the recorded triggers) keeps every invariant in
    #     every state, for every credential / decision / auth_set / transport choice and every interleaving of handshakes
    need = ["MServer", "MSpawn", "MMkdir", "MChmodDir", "MChownDir", "MAccept", "MRmdir", "MHandledRef", "MRechownDir",
            "MCreate", "MChown", "MChmod", "MHandledAcc", "MResult", "MMsg", "MLeave", "MRemove", "MRmdirEnd"]
    r = ctx.model_check("IpcAdmitMC.tla", "IpcAdmitMC.cfg", workers=4, timeout=600)
    ctx.check_vacuity(r, need)
    r = ctx.model_check("IpcAdmitMC.tla", "IpcAdmitMC2.cfg", workers=4, timeout=900)
    ctx.check_vacuity(r, need)
    # model-level reproducers of the recorded findings: without the exclusion the mechanism model (the code as it is)
    # must violate the property
    for cfg, inv in (("IpcAdmitMC_asfound.cfg", "FileModeWithinChosen"),):
        r = ctx.model_check("IpcAdmitMC.tla", cfg, workers=4, timeout=600, count=False, expect_violation=inv)
        if not r.violated:
            ctx.notes.append("%s no longer yields a counterexample" % cfg)

    # (2) spec -> code -> spec: TLC enumerates the scenarios, the real library runs them, TLC validates every event
    hs = gen(ctx, 2, sim=False, full=not q, kfskip=kfskip, tag="1")
    if q:       # quick tier: a seeded half of the single-client scenarios (the thorough tier runs the full product)
        ctx.rng.shuffle(hs)
        hs = hs[:max(1, len(hs) // 2)]
    n1 = len(hs)
    hs += gen(ctx, 5, sim=True, full=False, kfskip=kfskip, num=300 if q else 4000, tag="2")
    hs += gen(ctx, 9, sim=True, full=False, kfskip=kfskip, num=40 if q else 600, tag="3", seed=ctx.seed + 77)
    if os.geteuid() != 0:
        # capability of the environment, not semantics: without root a client cannot take other ids and the server cannot
        # chown to other ids; every client keeps the caller's ids and auth_set keeps them too (recorded in the evidence)
        me = [os.geteuid(), os.getegid()]
        for h in hs:
            for op in h[1:]:
                op[2:4] = me
                op[4] = 0
                if op[7]:
                    op[8:10] = me
    # directed: somebody else creates a channel file first (12th field of a client line = 1), alone and next to an
    # undisturbed client, default and chosen owner/mode.  Needs root (the planted file belongs to a third user).
    if os.geteuid() == 0:
        for srv in ([1, 1, 0, 0], [1, 1, 0, 1]):
            hs.append([srv, [2, 1, 1000, 1000, 0, 0, 0, 0, 0, 0, 0, 1]])
            hs.append([srv, [2, 1, 1000, 1000, 0, 0, 0, 1, 1000, 1000, 432, 1], [2, 2, 1, 1, 0, 0, 0, 0, 0, 0, 0, 0]])
            hs.append([srv, [2, 1, 65534, 1, 1, 0, 0, 1, 0, 1, 416, 0], [2, 2, 1000, 1000, 0, 0, 0, 0, 0, 0, 0, 1]])
        # the scenarios of the findings that have been repaired stay in every run, judged like any other scenario
        hs += [[list(op) for op in KF[kid][0]] for kid in sorted(KF) if kid not in ACTIVE]
        for srv in ([1, 1, 0, 0], [1, 2, 0, 0]):          # chosen modes without an owner bit / without any bit, both transports
            for mode in (288, 256, 32, 0, 292):
                hs.append([srv, [2, 1, 1000, 1000, 0, 0, 0, 1, 1000, 1000, mode]])
    for h in (hs[:1] + hs[n1:n1 + 2]):
        ctx.sample({"scenario": to_lines(h)})
    ctx.exec_validate(exe, hs, to_lines, "IpcAdmitTrace.tla", "IpcAdmitTrace.cfg", nshards=4, timeout=1500)
    # event census of the recorded runs (counting only; guards against a vacuous run)
    import glob
    cnt = {}
    for tr in glob.glob(os.path.join(ctx.work, "gen-[0-9].ndjson")):
        for line in open(tr):
            m = re.match(r'\{"e":"(\w+)"', line)
            if m:
                key = m.group(1)
                if key == "Result":
                    key = "Result_connected" if line.rstrip().endswith('"r":[1,0]}') else "Result_failed"
                cnt[key] = cnt.get(key, 0) + 1
    ctx.cov["recorded_events"] = cnt
    for need_ev in ("Accept", "Handled", "Obs", "Msg", "Result_connected", "Result_failed") + (("Plant",) if os.geteuid() == 0 else ()):
        if not cnt.get(need_ev) and not ctx.violations:
            raise core.Infra("vacuous run: no %s event was recorded" % need_ev)
    ctx.cov["scenarios_single_client_enumerated"] = n1
    ctx.cov["scenarios_concurrent_mixes"] = len(hs) - n1
    ctx.cov["exhaustive"] = True
    ctx.cov["invariants_checked_at_every_observation"] = INVARIANTS

    # (3) recorded findings: directed reproducers (run without the exclusion)
    if kfskip:
        for kfid in sorted(KF):
            if kfid in ACTIVE:
                kf_repro(ctx, exe, kfid)

    # what was actually explored (projection of the harness's own Env event, no semantics)
    rc, so, se = ctx.run([exe, os.devnull, os.path.join(ctx.work, "env.ndjson")], timeout=30)
    try:
        env = json.loads(open(os.path.join(ctx.work, "env.ndjson")).readline())["a"]
    except Exception:
        env = [0, 0]
    ctx.cov["ran_as_root"] = bool(env[0])
    ctx.cov["private_dev_shm"] = bool(env[1])
    if not env[0]:
        ctx.assumptions.append("NOT run as root: client processes could not change ids, only the caller's own credentials were explored")
    ctx.assumptions += [
        "run as root: client processes take their ids from {0, 1, 65534, 1000} x {0, 1, 1000} with setresgid/setresuid "
        "(all three ids, or only the effective ones); the server runs as 0:0 with umask 0",
        "observation points = after every interposed file-system related libc call of the server process "
        "(%s); a change made and undone between two such calls would not be seen" % " ".join(WRAP),
        "the server is single-threaded and stepped by the harness (one ready descriptor callback per step, order chosen by a "
        "seeded policy); clients are real concurrent processes",
        "abstract-namespace sockets (no /etc/libqb/force-filesystem-sockets): the socket transport's only file is its control file",
        "reading decision (DESIGN.md 4.0): directory rule = owner/group authorised and no access for other; files: never a "
        "permission bit outside the chosen mode; while the connection request is still being handled a file may carry the server's "
        "ids only if it is owner-only, the directory may carry the server's or the peer's ids",
        "the result of an ACCEPTED client's connect call is not constrained by this property (an auth_set choice may lock the peer out)",
        "bounded model: see model_runs constants; scenarios with several clients are sampled (TLC simulation), single-client "
        "scenarios are enumerated",
    ]
