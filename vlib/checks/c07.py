"""C07 -- ring buffer capacity contract and loss-free sequential FIFO for all sizes.  Spec: spec/RingAbs.tla."""
from vlib import core
from vlib.checks import rings


def run(ctx):
    q = ctx.quick
    exe = ctx.cc("h_rb_seq.c", "asan")
    r = ctx.model_check("RingAbsMC.tla", "RingAbsMC.cfg", workers=4)
    ctx.check_vacuity(r, ["Open", "AWrite", "ARead", "APeek", "Reclaim", "Close"])
    hs = []
    # exhaustive operation sequences at two sizes (around a page multiple), both notification modes
    for S, nosem, d in ([(4083, 1, 3), (100, 0, 3)] if q else [(4083, 1, 4), (4083, 0, 3), (4084, 1, 3), (100, 0, 4), (100, 1, 3), (8179, 0, 3)]):
        hs += rings.gen(ctx, S, False, nosem, d, "bfs", 0, True, "x%d-%d" % (S, nosem), extra_lens=[S + 1])
    nx = len(hs)
    # long random walks of the model over sizes around page multiples
    sizes = [1, 17, 4082, 4083, 4084, 4085, 4087, 8178, 8179, 8180, 12288] if q else \
            [1, 17, 100, 4082, 4083, 4084, 4085, 4087, 8179, 8180, 8183, 12288, 65536]
    for i, S in enumerate(sizes):
        hs += rings.gen(ctx, S, False, i % 2, 40 if q else 80, "simulate", 150 if q else 1200, False, "s%d" % S, extra_lens=[S + 1, S + 9])
    for h in hs[nx:]:
        h.extend(rings.drain(6))           # read everything back at the end
    ctx.sample({"history": rings.to_lines(hs[0])})
    ctx.sample({"history": rings.to_lines(hs[nx])[:30]})
    ctx.log("%d histories (%d exhaustive)" % (len(hs), nx))
    ctx.exec_validate(exe, hs, rings.to_lines, "RingAbsTrace.tla", "RingAbsTrace.cfg", label="c07")
    ctx.cov["exhaustive"] = True
    ctx.assumptions += [
        "one caller (sequential); concurrency is C01",
        "bytes are compared through a 30-bit FNV hash of the payload written / returned",
        "out-of-range word indexes fault on an inaccessible tail mapped behind the ring (interposed mmap)",
        "with the notification semaphore a peek is always paired with a reclaim (a peek consumes the notification)",
    ]
