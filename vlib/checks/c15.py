"""C15 -- blackbox dump files: faithful round trip, and no crash on damaged files.
Spec: spec/BbFile.tla (+ BbFileMC / BbFileGen / BbFileTrace), harness/h_bbfile.c.  DESIGN.md section 4 (C15).

The oracle is BbFile.tla evaluated by TLC on the recorded events.  This driver only picks seeds,
builds schedule files from TLC-generated requests and moves files."""
import os
from vlib import core

# Recorded findings (trigger predicates KF1..KF3 live in spec/BbFile.tla).  A finding listed as
# "fixed" in known_findings.jsonl is no longer skipped; one not listed yet is treated as known.
KF = {
    "KF-C15-1": ("KF1", "qb_rb_create_from_file bounds read_pt/write_pt by the file size in BYTES, not by word_size: "
                 "a read_pt beyond the ring's double mapping whose wrapped magic test succeeds is dereferenced "
                 "(SEGV on the PROT_NONE tail behind the mapping; without the tail it reads/zeroes foreign memory)"),
    "KF-C15-2": ("KF2", "qb_rb_create_from_file assert()s on a short read of write_pt/read_pt: a marker block followed by a "
                 "tiny word_size and fewer than 12 more bytes aborts the process"),
    "KF-C15-3": ("KF3", "the record decoder trusts the chunk: qb_log_blackbox_print_from_file never checks that the timestamp, "
                 "msg_len, the format string and its arguments lie inside the bytes it read (heap-buffer-overflow in "
                 "qb_vsnprintf_deserialize on an unterminated format/argument, a shortened size word, an in-range wrong fn_size or a "
                 "marker/layout mismatch), and repeated length modifiers (%llll...d) overflow the decoder's one-directive buffer"),
}
REPRO = {
    "KF-C15-1": ["Init 1024", "Log 6 0 0 1 40", "Log 6 0 0 1 40", "Dump",
                 "Print none keep ok same b2 ok ok 0 x x"],
    "KF-C15-2": ["Init 1024", "Log 6 0 0 1 40", "Dump",
                 "Print w1 keep one same same ok ok 0 x x"],
    # one print per root cause: unterminated format, directive buffer, truncated chunk, layout mismatch
    "KF-C15-3": ["Init 1024", "Log 6 0 0 0 0", "Log 3 1 5 1 40", "Log 7 2 2147483647 2 100", "Log 8 0 1 3 200", "Dump",
                 "Print none keep ok same same ok ok -1 msg unterm",
                 "Print none keep ok same same ok ok -1 msg longmod",
                 "Print none keep ok same same ok ok 1 size trunc",
                 "Print none add ok same same ok ok 0 x x"],
}
# parallelism: TLC workers and harness shards (the build machine is shared; raise VERIF_WORKERS on an idle one)
W = int(os.environ.get("VERIF_WORKERS", "4") or 4)
INVS = ("INVARIANT TypeOK\nINVARIANT DumpIsSnapshot\nINVARIANT NoCrashNoLeftover\nINVARIANT RoundTrip\n"
        "INVARIANT ValidIsJudged\n")


def to_lines(h):
    return [" ".join(str(x) for x in op) for op in h]


def skipped_ids():
    st = {k["id"]: k.get("status") for k in core.load_known() if k.get("property") == "C15"}
    if os.environ.get("VERIF_C15_NOSKIP"):       # experiment switch: judge everything (used to test proposed fixes)
        return []
    return [kid for kid in KF if st.get(kid, "known") == "known"]


def trace_cfg(ctx, name, skip):
    return ctx.cfg(name, 'CONSTANTS KFSkip = {%s}  MaxFoot = 636\nSPECIFICATION TraceSpec\n%sPOSTCONDITION TraceAccepted\n'
                   'CHECK_DEADLOCK FALSE\n' % (", ".join('"%s"' % KF[k][0] for k in skip), INVS))


def prefix_of(h):
    """logging prefix of a round-trip walk: everything up to and including its last Dump"""
    last = max(i for i, op in enumerate(h) if op[0] == "Dump")
    return [op for op in h[:last + 1] if op[0] != "Print"]


def run(ctx):
    q = ctx.quick
    exe = ctx.cc("h_bbfile.c", "asan")
    skip = skipped_ids()

    # (1) design check: call sequences x abstract cases x candidate outcomes against the invariants
    r = ctx.model_check("BbFileMC.tla", "BbFileMC.cfg" if q else "BbFileMC_thorough.cfg", workers=W)
    ctx.check_vacuity(r, ["AInit", "ALog", "ADump", "APrintValid", "APrintDamaged", "APrintSkipped"])

    gcfg = ctx.cfg("BbFileGen.cfg", 'CONSTANTS KFSkip = {}  MaxFoot = 636\nSPECIFICATION GenSpec\nCONSTRAINT Emit\nCHECK_DEADLOCK FALSE\n')

    # (2) round trip: all short call sequences, then long walks that wrap the ring (three ring sizes, both formats)
    rtx = ctx.generate("BbFileGen.tla", gcfg, mode="bfs", workers=W, consts={"MODE": "rtx", "DEV": 0, "DEPTH": 5 if q else 6}, tag="gen-rtx")
    rt = ctx.generate("BbFileGen.tla", gcfg, mode="simulate", workers=W, num=600 if q else 8000, depth=112,
                      consts={"MODE": "rt", "DEV": 0, "DEPTH": 110}, tag="gen-rt")
    hs = rtx + rt
    n_rt = len(hs)
    ctx.sample({"round_trip_walk": to_lines(rt[0])[:30]})

    # (3) robustness: TLC enumerates the class product (<= DEV simultaneous deviations); each request is
    #     executed on top of several logging prefixes (no wrap / wrapped small ring / wrapped larger ring)
    small = [["Init", 1024], ["Log", 6, 0, 0, 0, 0], ["Log", 3, 1, 5, 1, 40], ["Log", 7, 2, 2147483647, 2, 100],
             ["Log", 8, 0, 1, 3, 200], ["Dump"]]
    nlogs = lambda p: sum(1 for op in p if op[0] == "Log")
    pres = sorted((prefix_of(h) for h in rt if any(op[0] == "Dump" for op in h)), key=nlogs, reverse=True)
    w1024 = [p for p in pres if p[0][1] == 1024 and nlogs(p) >= 35][:1 if q else 4]      # a one-page ring wraps after ~10-30 records
    wbig = [p for p in pres if p[0][1] != 1024 and nlogs(p) >= 65][:1 if q else 3]       # the larger rings after ~40-70
    if not w1024 or not wbig:
        ctx.notes.append("no wrapped logging prefix found for one ring size (seed %d)" % ctx.seed)
    profiles = [small] + w1024 + wbig
    reqs2 = ctx.generate("BbFileGen.tla", gcfg, mode="bfs", workers=W, consts={"MODE": "rob", "DEV": 2, "DEPTH": 1}, tag="gen-rob2")
    reqs2 = [h[0] for h in reqs2]
    nominal = ["none", "keep", "ok", "same", "same", "ok", "ok"]
    ndev = lambda x: sum(1 for a, b in zip(x[1:8], nominal) if a != b) + (1 if x[8:11] != [0, "x", "x"] else 0)
    reqs1 = [x for x in reqs2 if ndev(x) <= 1]
    reqs3 = []
    if not q:
        reqs3 = [h[0] for h in ctx.generate("BbFileGen.tla", gcfg, mode="bfs", workers=W, timeout=2400,
                                            consts={"MODE": "rob", "DEV": 3, "DEPTH": 1}, tag="gen-rob3")]
    n_rob = 0
    for pi, pre in enumerate(profiles):
        # first profile: the whole product; the others: the pairs in the thorough tier, else the single deviations
        if pi == 0:
            rq = reqs3 or reqs2
        elif not q:
            rq = reqs2
        else:
            rq = reqs1
        B = 25
        for i in range(0, len(rq), B):
            hs.append(pre + rq[i:i + B])
        n_rob += len(rq)
    ctx.sample({"robustness_requests": to_lines(reqs2[:3] + reqs2[len(reqs2) // 2:len(reqs2) // 2 + 3])})

    # (4) every truncation length of a valid dump (0 .. file length), on each profile
    n_tr = 0
    for pre in profiles[:2 if q else len(profiles)]:
        flen = 40 + ((pre[0][1] + 13 + 4095) // 4096) * 4096
        for a in range(0, flen + 1, 120):
            hs.append(pre + [["PrintTruncRange", a, min(a + 119, flen)]])
        n_tr += flen + 1

    # (5) seeded random multi-byte corruptions (mode 0 = tests/file_change_bytes.c: random bytes at random
    #     places; 1 = biased to header and chunk structure; 2 = whole words set to boundary values) and junk files
    n_rand = 0
    per = 40
    for pi, pre in enumerate(profiles):
        nb = 25 if q else 300
        for b in range(nb):
            ops = []
            for _ in range(per):
                mode = ctx.rng.choice([0, 0, 1, 1, 2, 2, 2])
                nbytes = ctx.rng.choice([1, 1, 2, 3, 4, 8, 16, 64, 1024] if mode == 0 else [1, 1, 2, 2, 3, 4, 6])
                ops.append(["PrintRand", ctx.rng.randrange(1, 2 ** 31 - 1), nbytes, mode])
            hs.append(pre + ops)
            n_rand += per
    n_junk = 0
    for b in range(10 if q else 100):
        ops = []
        for _ in range(per):
            kind = ctx.rng.choice([0, 1, 1, 2, 3, 3, 4, 4, 4, 4, 5])
            ln = ctx.rng.choice([0, 1, 19, 20, 21, 24, 27, 28, 31, 32, 36, 39, 40, 41, 44, 100, 1000, 4095, 4096, 4097,
                                 4136, 4137, 8232, 10000, ctx.rng.randrange(0, 20000)])
            ops.append(["PrintJunk", ctx.rng.randrange(1, 2 ** 31 - 1), kind, ln])
        hs.append(ops)
        n_junk += per

    tcfg = trace_cfg(ctx, "BbFileTrace.cfg", skip)
    ctx.log("%d histories: %d round-trip walks, %d class-product requests over %d prefixes, %d truncations, %d random corruptions, %d junk files; skipping %s"
            % (len(hs), n_rt, n_rob, len(profiles), n_tr, n_rand, n_junk, skip or "nothing"))
    # (stack traces of the expected reports in skipped classes are not symbolized: it only costs time)
    env = {"ASAN_OPTIONS": "detect_leaks=0:abort_on_error=0:exitcode=99:allocator_may_return_null=1:symbolize=0",
           "UBSAN_OPTIONS": "print_stacktrace=0:halt_on_error=1:exitcode=98:symbolize=0"}
    ctx.exec_validate(exe, hs, to_lines, "BbFileTrace.tla", tcfg, label="c15", timeout=1500, env=env, nshards=W)

    # (6) recorded findings: directed reproducers, judged with nothing skipped
    ncfg = trace_cfg(ctx, "BbFileTrace_noskip.cfg", [])
    for kid in KF:
        if kid not in skip:
            continue
        s = os.path.join(ctx.work, kid + ".sched")
        t = os.path.join(ctx.work, kid + ".ndjson")
        with open(s, "w") as f:
            f.write("\n".join(REPRO[kid]) + "\n")
        rc, so, se = ctx.run([exe, s, t], timeout=120)
        failing = rc != 0 or not ctx.validate("BbFileTrace.tla", ncfg, t).accepted
        if failing:
            ctx.known(kid, KF[kid][1])
        else:
            ctx.notes.append("%s no longer reproduces" % kid)

    ctx.cov.update({"round_trip_histories": n_rt, "class_product_requests": n_rob, "class_product_max_deviations": 3 if reqs3 else 2,
                    "logging_prefixes": len(profiles), "truncation_lengths": n_tr, "random_corruptions": n_rand,
                    "junk_files": n_junk, "damaged_files_printed": n_rob + n_tr + n_rand + n_junk, "exhaustive": True})
    ctx.assumptions += [
        "memory errors are observed by ASan/UBSan in a forked child; word indexes beyond the ring's double mapping by a 17 GiB PROT_NONE tail (interposed mmap)",
        "the harness runs in a private mount namespace (/dev/shm is a fresh tmpfs): the leftover census and the fixed name qb-create_from_file are per harness; two concurrent printers in one namespace are outside the property",
        "messages come from a fixed family of formats (%d %x %s and literals) with serialized length < 512; printf equivalence of arbitrary formats is C14's",
        "retained records: the dump must hold at least the newest LowerK(word_size) records and at most all logged ones (exact eviction is C11's); the printed records must be exactly the newest nret logged, nret = chunks in the dump",
        "abstract cases for which a recorded finding's trigger predicate holds (KF1..KF3 in BbFile.tla) are executed but not judged while that finding is listed as known",
        "what a damaged file prints is unconstrained (the property is silent); only the return, the result code <= 0 and the absence of leftovers are required",
        "class product bounded to <= 2 (quick) / 3 (thorough, first prefix) simultaneous deviations; random corruptions are seeded samples",
    ]
