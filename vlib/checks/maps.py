"""Shared driver for C17 / C18 (spec/Map.tla, harness/h_map.c)."""
import os
from vlib import core

IMPLS = ["hash", "skip", "trie"]


def consts(impl, keys, nval, maxiter, masks, usefree, tags=(0,)):
    return 'CONSTANTS Impl = "%s"  Keys = {%s}  NVal = %d  MaxIter = %d  Masks = {%s}  UseFree = %s  Tags = {%s}\n' % (
        impl, ", ".join(map(str, keys)), nval, maxiter, ", ".join(map(str, masks)), "TRUE" if usefree else "FALSE",
        ", ".join(map(str, tags)))


def to_lines(h):
    return [" ".join(str(x) for x in op) for op in h]


TRACE_INV = "INVARIANT TypeOK\nINVARIANT IterBook\nINVARIANT EndedComplete\nINVARIANT NotifScope\nINVARIANT UdInjective\nINVARIANT FreeOnlyGlobal\n"


def trace_cfg(ctx, impl):
    return ctx.cfg("MapTrace_%s.cfg" % impl, consts(impl, range(1, 9), 9, 4, [1, 2, 3, 4, 5, 6, 7], True, (0, 1, 2)) +
                   "SPECIFICATION TraceSpec\n" + TRACE_INV + "POSTCONDITION TraceAccepted\nCHECK_DEADLOCK FALSE\n")


def gen(ctx, impl, keys, nval, maxiter, masks, usefree, mode, depth, how, num=0, tag="", tags=(0,)):
    cfg = ctx.cfg("MapGen_%s_%s%s.cfg" % (impl, mode, tag), consts(impl, keys, nval, maxiter, masks, usefree, tags) +
                  "SPECIFICATION GenSpec\nCONSTRAINT Emit\nCHECK_DEADLOCK FALSE\n")
    return ctx.generate("MapGen.tla", cfg, mode=how, num=num, depth=depth + 2,
                        consts={"DEPTH": depth, "MODE": mode}, tag="gen-%s-%s%s" % (impl, mode, tag))


def kf_repro(ctx, exe, impl, kfid, lines, what):
    """directed reproducer of a recorded finding: run the trigger WITHOUT --kf-skip.  Still failing ->
    KNOWN-FINDING line; no longer failing -> nothing (a fixed finding suppresses nothing)."""
    import os
    known = {k["id"] for k in core.load_known() if k.get("status") == "known"}
    if kfid not in known:
        return
    s = os.path.join(ctx.work, kfid + ".sched")
    t = os.path.join(ctx.work, kfid + ".ndjson")
    open(s, "w").write("\n".join(lines) + "\n")
    rc, so, se = ctx.run([exe, s, t, impl, "--seed", "1"], timeout=60)
    failing = rc != 0
    if not failing:
        failing = not ctx.validate("MapTrace.tla", trace_cfg(ctx, impl), t).accepted
    if failing:
        ctx.known(kfid, what)
    else:
        ctx.notes.append("%s no longer reproduces" % kfid)
