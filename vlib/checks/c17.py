"""C17 -- maps behave like a dictionary; notifiers fire once.  Spec: spec/Map.tla."""
from vlib import core
from vlib.checks import maps


def run(ctx):
    q = ctx.quick
    exe = ctx.cc("h_map.c", "asan")
    # (1) design check of the dictionary + notifier part of the specification, per implementation profile
    for impl in maps.IMPLS:
        cfg = ctx.cfg("MapMC_notif_%s.cfg" % impl, maps.consts(impl, [1, 2, 3] if not q else [1, 2], 2, 0, [7], True, (0, 1)) +
                      "SPECIFICATION Spec\nINVARIANT TypeOK\nINVARIANT NotifScope\nINVARIANT UdInjective\nINVARIANT FreeOnlyGlobal\nCHECK_DEADLOCK FALSE\n")
        r = ctx.model_check("Map.tla", cfg)
        ctx.check_vacuity(r, ["Put", "Get", "Rm", "Count", "Destroy", "ANotifyAdd", "ANotifyDel", "ANotifyDelAny"])
    # (2) spec -> code -> spec
    total = 0
    keysets = [[1, 2, 3], [2, 3, 4, 5], [1, 6, 7], [2, 4, 8]]
    for impl in maps.IMPLS:
        hs = []
        # exhaustive short histories over a small alphabet (structural aliasing keys a, ab, abc)
        hs += maps.gen(ctx, impl, [1, 2, 3], 1, 0, [], False, "dict", 3 if q else 4, "bfs", tag="-x")
        nx = len(hs)
        for i, ks in enumerate(keysets):
            hs += maps.gen(ctx, impl, ks, 2, 0, [7, 1] if i % 2 == 0 else [4, 2], True, "dict", 24 if q else 40,
                           "simulate", num=(400 if q else 8000), tag="-s%d" % i, tags=(0, 1) if i < 2 else (0,))
        # notifier-heavy walks: few keys, one event mask, two subscribers sharing the handler
        hs += maps.gen(ctx, impl, [1, 2], 2, 0, [7], False, "dict", 16 if q else 24, "simulate", num=(300 if q else 4000),
                       tag="-n", tags=(0, 1))
        # every third history ends with destroy (values leaving the map at destroy)
        for i, h in enumerate(hs):
            if i % 3 == 0:
                h.append(["Destroy"])
        if impl == "hash":
            ctx.sample({"impl": impl, "history": maps.to_lines(hs[nx])})
        ctx.log("%s: %d histories (%d exhaustive)" % (impl, len(hs), nx))
        total += ctx.exec_validate(exe, hs, maps.to_lines, "MapTrace.tla", maps.trace_cfg(ctx, impl),
                                   harness_args=[impl, "--seed", str(ctx.seed)], label="c17-" + impl)
    ctx.cov["exhaustive"] = True
    ctx.assumptions += [
        "values are non-NULL (the trie represents absence as a NULL value)",
        "keys come from an 8-key alphabet chosen to alias structurally (prefixes, shared prefixes, byte >= 0x80, 40 characters)",
        "trie iteration order is asserted only where signed and unsigned byte order agree (DESIGN.md 4.0)",
        "notifier callbacks do not call back into the map",
    ]
