"""C08 -- event loop runs every job, timer and fd callback exactly as registered.  Spec: spec/Loop.tla."""
from vlib.checks import loops


def run(ctx):
    loops.model(ctx)
    loops.run_profiles(ctx, ["c08"], 5000, 30000, "c08")
