"""Shared driver for C07 / C11 (spec/RingAbs.tla, harness/h_rb_seq.c)."""
from vlib import core


def lens_for(S, small):
    base = [0, 5, S // 3, S - 16, S] if small else [0, 1, 5, 7, S // 3, 2 * S // 3, S - 17, S - 16, S - 15, S - 1, S]
    return sorted({x for x in base if x >= 0})


def gen(ctx, S, ovw, nosem, depth, how, num, small, tag, extra_lens=()):
    lens = sorted(set(lens_for(S, small)) | set(extra_lens))
    cfg = ctx.cfg("RingGen-%s.cfg" % tag, "CONSTANTS Sizes = {%d}  Lens = {%s}  MaxQ = 4\nSPECIFICATION GenSpec\nCONSTRAINT Emit\nCHECK_DEADLOCK FALSE\n" % (
        S, ", ".join(map(str, lens))))
    hs = ctx.generate("RingAbsGen.tla", cfg, mode=how, num=num, depth=depth + 2, workers=4,
                      consts={"DEPTH": depth, "OVW": "1" if ovw else "0", "NOSEM": "1" if nosem else "0", "SMALL": "1" if small else "0"},
                      tag="ringgen-" + tag)
    out = []
    for h in hs:
        out.append([["Open", h[0], 1 if ovw else 0, 1 if nosem else 0]] + h[1])
    return out


def to_lines(h):
    return [" ".join(str(x) for x in op) for op in h]


def drain(n):
    return [["Read", 100000000]] * n
