"""Registry of claimed properties -> MANIFEST.json (bin/gen-manifest)."""
import json, os

ALL = ["C%02d" % i for i in range(1, 21)]

loopnote = "Virtual clock and scripted poll results (the harness supplies clock_gettime/epoll_ctl/epoll_wait/random); programs are seeded random plus directed scenarios, not an exhaustive enumeration; TLC, sanitizers and the h_loop.c projection are trusted."
looptech = "TLA+ specification (TLC: bounded random exploration of the spec) + recorded executions of the real loop validated against it by TLC (trace validation)"

# id -> dict(text, note, technique, design_ref)
CHECKS = {
 "C20": dict(
   text="TLC exhaustively checks the handle-database specification (spec/Hdb.tla: objects, reference counts, "
        "destroy-pending, slots, destructor runs, iterator) for bounded constants against the property's invariants; "
        "the specification is bound to lib/hdb.c by executing every model history up to a fixed depth plus long random "
        "walks of the model on the real qb_hdb_* functions (ASan build of the working tree) and validating every recorded "
        "call and result with TLC against the same specification (HdbTrace.tla).",
   note="Bounded constants (objects, reference counts); scripted random() never repeats a check word; TLC, clang ASan/UBSan and the harness projection (h_hdb.c) are trusted.",
   technique="TLA+ model checking (TLC) + model-generated histories replayed on the C code + TLC trace validation",
   design_ref="DESIGN.md section 4, C20"),
 "C07": dict(
   text="spec/RingAbs.tla states the capacity contract and FIFO semantics of the ring buffer (must-accept rule with 16 bytes overhead, "
        "refused write and too-small read change nothing, reads return the accepted chunks byte for byte); TLC checks it exhaustively for "
        "small constants. Binding: all operation sequences up to a fixed depth and long random walks of the model, at real sizes around "
        "page multiples, lengths 0..S+9 incl. non-multiples of 4, payloads made of the ring's own marker words, with and without the "
        "semaphore, are executed on real rings (ASan, inaccessible tail behind the mapping) and every return value and payload hash is "
        "validated by TLC (RingAbsTrace.tla).",
   note="Sequential caller; payload equality via 30-bit FNV hash; sizes and lengths are sampled around page multiples, not all values; TLC, ASan and h_rb_seq.c trusted.",
   technique="TLA+ model checking (TLC) + model-generated histories replayed on the C code + TLC trace validation",
   design_ref="DESIGN.md section 4, C07"),
 "C11": dict(
   text="RingAbs.tla in overwrite mode: every write up to the requested size succeeds and the readable contents are an unbroken run of "
        "the newest chunks, at least the guaranteed suffix; the number of chunks dropped is left open and decided by later reads "
        "(the trace specification branches). Same binding as C07 with overwriting rings, each history ending with a full drain.",
   note="Ring-level binding (qb_rb_* with QB_RB_FLAG_OVERWRITE, incl. alloc+commit with a larger reservation as the blackbox does); the blackbox dump/print path itself is covered under C15; sequential caller.",
   technique="TLA+ model checking (TLC) + model-generated histories replayed on the C code + TLC trace validation (branching on unobserved drops)",
   design_ref="DESIGN.md section 4, C11"),
 "C08": dict(
   text="spec/Loop.tla is a property-level specification of qb_loop: registrations with status, the environment (clock, ready "
        "descriptors, signals, kernel poll set), one action per API call, callback invocation and poll call. It fixes WHAT may be "
        "dispatched (exactly-once jobs/timers, callbacks owed per readiness/delivery, nothing after a successful delete, stale handles "
        "refused, FIFO jobs per priority) and leaves WHEN open. Binding: seeded random programs and directed scenarios (API calls from "
        "inside callbacks, self/other deletion, slot and descriptor-number reuse, signals) run on the real loop under a virtual clock and "
        "scripted epoll; TLC validates every recorded API result, callback and poll call (LoopTrace.tla) and evaluates the invariants at every step.",
   note=loopnote, technique=looptech, design_ref="DESIGN.md section 4, C08"),
 "C09": dict(
   text="Loop.tla's timer rules: a timer callback only at or after its expiry, same-priority timers in expiry order, every poll timeout "
        "finite and within the slack of the earliest expiry while a timer is pending, is-running/remaining consistent with pending. Time is a "
        "3-limb integer so the full 64-bit nanosecond range (2^31 ms, 2^32 ms, 2^63, 2^64-1) is validated exactly. Binding as C08 with "
        "timer-heavy programs, partial sleeps and heap add/delete histories.",
   note=loopnote, technique=looptech, design_ref="DESIGN.md section 4, C09"),
 "C10": dict(
   text="Loop.tla's fairness rules, evaluated at every poll call of a recorded run: no priority level with work pending over three whole "
        "iterations goes without a dispatch, and over saturated spans higher levels get at least as many turns. Binding as C08 with "
        "saturating workloads (self re-adding jobs, always-ready descriptors, zero-delay timers at all three priorities, 20-45 iterations).",
   note=loopnote, technique=looptech, design_ref="DESIGN.md section 4, C10"),
 "C17": dict(
   text="spec/Map.tla specifies the three map implementations as a dictionary with map-wide, per-key, recursive-prefix and "
        "value-release notifiers (per-implementation profile as a constant); TLC checks its invariants exhaustively for bounded "
        "constants. Binding: every model history up to a fixed depth over structurally aliasing keys plus long random walks of the "
        "model are executed on the real hashtable, skiplist and trie (ASan/UBSan build of the working tree) and every recorded "
        "return value, traversal and notifier invocation is validated by TLC against the same specification (MapTrace.tla).",
   note="Bounded key alphabet (8 aliasing keys), non-NULL values, notifier callbacks do not re-enter the map; trie order asserted only where signed and unsigned byte order agree; TLC, sanitizers and h_map.c projection trusted.",
   technique="TLA+ model checking (TLC) + model-generated histories replayed on the C code + TLC trace validation",
   design_ref="DESIGN.md section 4, C17"),
 "C18": dict(
   text="The iterator part of spec/Map.tla states the C18 guarantees as bookkeeping per open iterator (keys present throughout, "
        "keys present at some time, keys already returned, removals-only flag); TLC checks it exhaustively for bounded constants. "
        "Binding: all interleavings of iterator create/next/free with put/rm/get up to a fixed depth, plus random walks with up to three "
        "iterators, are executed on the three real implementations under ASan and each history ends with the iterators freed and a full "
        "dictionary probe; TLC validates every recorded result (MapTrace.tla). Steps that fall under the four recorded findings are left "
        "out of generated behaviours and re-checked by directed reproducers.",
   note="Bounded histories and key alphabet; iterators are not advanced past their end; memory safety is observed by ASan/UBSan; known findings KF-C18-1..4 are excluded by trigger (harness --kf-skip).",
   technique="TLA+ model checking (TLC) + model-generated interleavings replayed on the C code + TLC trace validation + sanitizer monitor",
   design_ref="DESIGN.md section 4, C18"),
}

PENDING_REASON = "not claimed yet: specification and binding harness for this property are not built at this commit (see DESIGN.md section 4 for the plan)"


def manifest():
    checks = []
    for pid in ALL:
        if pid not in CHECKS:
            continue
        c = CHECKS[pid]
        checks.append({
            "property_id": pid,
            "quick_cmd": "bin/check %s --tier quick" % pid,
            "thorough_cmd": "bin/check %s --tier thorough" % pid,
            "evidence_file": "evidence/%s.json" % pid,
            "replay_cmd_template": "bin/check %s --replay {path}" % pid,
            "engine": "tlc",
            "level_claimed": {"category": c.get("category", "model_checking"), "text": c["text"], "design_ref": c["design_ref"]},
            "level_note": c["note"],
            "technique": c["technique"],
        })
    na = [{"property_id": p, "reason": NOT_APPLICABLE.get(p, PENDING_REASON)} for p in ALL if p not in CHECKS]
    return {
        "version": 1,
        "setup_cmd": "bin/setup",
        "hooks": {
            "guard": "LIBQB_VERIF",
            "enable": "bin/build-libqb compiles lib/*.c from /repo's working tree with -DLIBQB_VERIF into build/<check>/<variant>/libqb_verif.a; harnesses link that archive statically",
            "baseline_off_cmd": "make -C /repo -j8 && make -C /repo check",
            "source_commits": HOOK_COMMITS,
            "add_only": True,
        },
        "engines": [{"name": "tlc", "path": "/opt/veriftools/tla/tla2tools.jar", "serves_properties": sorted(CHECKS),
                     "kind_free_text": "TLC 1.8.0 explicit-state model checker: design check, behaviour generation, trace validation"}],
        "checks": checks,
        "not_applicable": na,
        "notes": "All checks: bin/check <ID> --tier quick|thorough [--seed N]; VERIF_TIER / VERIF_SEED honoured. Specifications in spec/, harnesses in harness/, known findings in known_findings.jsonl.",
    }

NOT_APPLICABLE = {}
HOOK_COMMITS = []
