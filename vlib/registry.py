"""Registry of claimed properties -> MANIFEST.json (bin/gen-manifest)."""
import json, os

ALL = ["C%02d" % i for i in range(1, 21)]

# id -> dict(text, note, technique, design_ref)
CHECKS = {
 "C20": dict(
   text="TLC exhaustively checks the handle-database specification (spec/Hdb.tla: objects, reference counts, "
        "destroy-pending, slots, destructor runs, iterator) for bounded constants against the property's invariants; "
        "the specification is bound to lib/hdb.c by executing every model history up to a fixed depth plus long random "
        "walks of the model on the real qb_hdb_* functions (ASan build of the working tree) and validating every recorded "
        "call and result with TLC against the same specification (HdbTrace.tla).",
   note="Bounded constants (objects, reference counts); scripted random() never repeats a check word; TLC, clang ASan/UBSan and the harness projection (h_hdb.c) are trusted.",
   technique="TLA+ model checking (TLC) + model-generated histories replayed on the C code + TLC trace validation",
   design_ref="DESIGN.md section 4, C20"),
 "C17": dict(
   text="spec/Map.tla specifies the three map implementations as a dictionary with map-wide, per-key, recursive-prefix and "
        "value-release notifiers (per-implementation profile as a constant); TLC checks its invariants exhaustively for bounded "
        "constants. Binding: every model history up to a fixed depth over structurally aliasing keys plus long random walks of the "
        "model are executed on the real hashtable, skiplist and trie (ASan/UBSan build of the working tree) and every recorded "
        "return value, traversal and notifier invocation is validated by TLC against the same specification (MapTrace.tla).",
   note="Bounded key alphabet (8 aliasing keys), non-NULL values, notifier callbacks do not re-enter the map; trie order asserted only where signed and unsigned byte order agree; TLC, sanitizers and h_map.c projection trusted.",
   technique="TLA+ model checking (TLC) + model-generated histories replayed on the C code + TLC trace validation",
   design_ref="DESIGN.md section 4, C17"),
 "C18": dict(
   text="The iterator part of spec/Map.tla states the C18 guarantees as bookkeeping per open iterator (keys present throughout, "
        "keys present at some time, keys already returned, removals-only flag); TLC checks it exhaustively for bounded constants. "
        "Binding: all interleavings of iterator create/next/free with put/rm/get up to a fixed depth, plus random walks with up to three "
        "iterators, are executed on the three real implementations under ASan and each history ends with the iterators freed and a full "
        "dictionary probe; TLC validates every recorded result (MapTrace.tla). Steps that fall under the four recorded findings are left "
        "out of generated behaviours and re-checked by directed reproducers.",
   note="Bounded histories and key alphabet; iterators are not advanced past their end; memory safety is observed by ASan/UBSan; known findings KF-C18-1..4 are excluded by trigger (harness --kf-skip).",
   technique="TLA+ model checking (TLC) + model-generated interleavings replayed on the C code + TLC trace validation + sanitizer monitor",
   design_ref="DESIGN.md section 4, C18"),
}

PENDING_REASON = "not claimed yet: specification and binding harness for this property are not built at this commit (see DESIGN.md section 4 for the plan)"


def manifest():
    checks = []
    for pid in ALL:
        if pid not in CHECKS:
            continue
        c = CHECKS[pid]
        checks.append({
            "property_id": pid,
            "quick_cmd": "bin/check %s --tier quick" % pid,
            "thorough_cmd": "bin/check %s --tier thorough" % pid,
            "evidence_file": "evidence/%s.json" % pid,
            "replay_cmd_template": "bin/check %s --replay {path}" % pid,
            "engine": "tlc",
            "level_claimed": {"category": c.get("category", "model_checking"), "text": c["text"], "design_ref": c["design_ref"]},
            "level_note": c["note"],
            "technique": c["technique"],
        })
    na = [{"property_id": p, "reason": NOT_APPLICABLE.get(p, PENDING_REASON)} for p in ALL if p not in CHECKS]
    return {
        "version": 1,
        "setup_cmd": "bin/setup",
        "hooks": {
            "guard": "LIBQB_VERIF",
            "enable": "bin/build-libqb compiles lib/*.c from /repo's working tree with -DLIBQB_VERIF into build/<check>/<variant>/libqb_verif.a; harnesses link that archive statically",
            "baseline_off_cmd": "make -C /repo -j8 && make -C /repo check",
            "source_commits": HOOK_COMMITS,
            "add_only": True,
        },
        "engines": [{"name": "tlc", "path": "/opt/veriftools/tla/tla2tools.jar", "serves_properties": sorted(CHECKS),
                     "kind_free_text": "TLC 1.8.0 explicit-state model checker: design check, behaviour generation, trace validation"}],
        "checks": checks,
        "not_applicable": na,
        "notes": "All checks: bin/check <ID> --tier quick|thorough [--seed N]; VERIF_TIER / VERIF_SEED honoured. Specifications in spec/, harnesses in harness/, known findings in known_findings.jsonl.",
    }

NOT_APPLICABLE = {}
HOOK_COMMITS = []
