"""Registry of claimed properties -> MANIFEST.json (bin/gen-manifest)."""
import json, os

ALL = ["C%02d" % i for i in range(1, 21)]

loopnote = "Virtual clock and scripted poll results (the harness supplies clock_gettime/epoll_ctl/epoll_wait/random); programs are seeded random plus directed scenarios, not an exhaustive enumeration; TLC, sanitizers and the h_loop.c projection are trusted."
looptech = "TLA+ specifications (TLC: exhaustive refinement check of the transcribed mechanism LoopImpl against the property-level Loop spec per workload; random exploration of Loop) + recorded executions of the real loop validated against Loop by TLC (trace validation)"

# id -> dict(text, note, technique, design_ref)
CHECKS = {
 "C20": dict(
   text="TLC exhaustively checks the handle-database specification (spec/Hdb.tla: objects, reference counts, "
        "destroy-pending, slots, destructor runs, iterator) for bounded constants against the property's invariants; "
        "the specification is bound to lib/hdb.c by executing every model history up to a fixed depth plus long random "
        "walks of the model on the real qb_hdb_* functions (ASan build of the working tree) and validating every recorded "
        "call and result with TLC against the same specification (HdbTrace.tla).",
   note="Bounded constants (objects, reference counts); scripted random() never repeats a check word; TLC, clang ASan/UBSan and the harness projection (h_hdb.c) are trusted.",
   technique="TLA+ model checking (TLC) + model-generated histories replayed on the C code + TLC trace validation",
   design_ref="DESIGN.md section 4, C20"),
 "C01": dict(
   text="spec/RingBuffer.tla is a word-level model of lib/ringbuffer.c for one writer and one reader: one action per access to write_pt, "
        "read_pt, a length word, a magic word or the semaphore, in the program order of the C code, with FIFO / exactly-once / untorn as an "
        "invariant evaluated where a chunk is handed to the caller. TLC explores every interleaving on a 12-word ring (with and without the "
        "semaphore, payloads made of the ring's own marker words, refusal and wrap). Binding: hook points after every shared access in "
        "lib/ringbuffer.c are yield points of a deterministic two-thread scheduler (harness/h_rb_sched.c); seeded and directed schedules run the "
        "real 1024-word ring and TLC validates every step (thread, point, value read or written, requested memory order) and every returned "
        "chunk (length, payload hash) against the same model (RingBufferTrace.tla).",
   note="Sequentially consistent interleavings at hook-point granularity (payload memcpy is one step on the real code); weaker-than-TSO reorderings are not executable here, only the requested release/acquire orders are bound; real-ring schedules are sampled, the exhaustive part is the small-ring model.",
   technique="TLA+ model checking (TLC, all interleavings of a word-level model) + deterministic schedule control of the real threads via hook points + TLC trace validation of every step",
   design_ref="DESIGN.md section 4, C01"),
 "C02": dict(
   text="spec/IpcMsg.tla models one IPC connection (shm or socket transport): request / response / event channels as FIFO sequences of "
        "<<id,len,hash>> with ghost accept/deliver histories, notification bytes in flight in both directions, deferred notifications, flow control "
        "and rate limit. TLC checks exhaustively for bounded constants: FIFO / exactly-once / intact on all three channels, a call that returns an "
        "error changes no channel, nothing over the negotiated maximum is accepted, notification counting, and 'events queued => client descriptor "
        "readable'. Binding: a real qb_ipcs service and a real qb_ipcc client in ONE thread (the harness owns the poll-handler table and decides "
        "when each dispatch runs; zero timeouts), driven by TLC-exhaustive short histories, TLC random walks, 60 directed scenarios (bursts past the "
        "ring / socket / datagram limits, deferred notifications, rate limit and flow control toggled mid-dispatch, sends from inside msg_process) and "
        "seeded random programs; every call result, every msg_process argument and a 10-field state projection is validated by TLC at every step.",
   note="Call-granularity interleavings in one thread (word-level interleavings are C01); zero timeouts; client buffers of the negotiated size; the refusal point of a send to a non-empty channel is left open; UBSan alignment check off for this harness; KF-C02-1 excluded by trigger with a directed reproducer.",
   technique="TLA+ model checking (TLC) + model-generated and seeded histories executed on a single-thread stepped real client/server pair + TLC trace validation",
   design_ref="DESIGN.md section 4, C02"),
 "C03": dict(
   category="fault_enumeration",
   text="spec/IpcCrash.tla states, as action guards, what may be observed around the death of an IPC peer (callback word accept, created?, msg*, "
        "closed?, destroyed, with closed iff created; nothing held after destroyed; at server quiescence every dead or departed client is fully "
        "released; other clients keep being served; finite timeouts are deadlines; wait-forever sendv_recv and event_recv return a disconnect error "
        "within two 2-second rounds; after a reported disconnect every call fails immediately; qb_ipcc_disconnect leaves no file of a dead server). "
        "IpcCrashMC.tla checks a stage-level mechanism model against those guards exhaustively for every crash point, including liveness under "
        "fairness. Binding: the dying side runs the real library in a forked child stopped at the boundary of its N-th libc call, every N from a dry "
        "run (thorough) or a seeded 10% sample plus directed points (quick), for connect / send / sendv_recv / event_recv / disconnect x shm / socket "
        "x empty / queued x four server schedules, plus every handshake prefix and the swapped server-death scenarios; every recorded scenario is "
        "validated by TLC (IpcCrashTrace.tla).",
   note="Crash points are libc-call boundaries; four server schedules per point, not all interleavings; real-time latencies with slack 1500 ms, 'immediately' = 500 ms, confirm-by-rerun; a dead server's directory and the statistics counters are observed but not judged; Linux abstract sockets, max_msg_size 8192; TLC, ASan/UBSan and the harness projection are trusted.",
   technique="TLA+ model checking (TLC, safety and liveness) + spec-driven fault enumeration on the C code (call-counting interposer, forked peers) + TLC trace validation",
   design_ref="DESIGN.md section 4, C03"),
 "C04": dict(
   text="spec/IpcLife.tla states the callback order and lifetime rules as guards over connection phases, the library's and the application's "
        "references and the stack of calls in progress (callbacks nest inside API calls and vice versa): the word accept.created?.msg*.closed*.destroyed; "
        "closed only after created returned and again only after a non-zero return; destroyed only at zero references and outside the connection's "
        "callbacks; no unreferenced connection survives a return to the main loop. IpcLifeMC.tla transcribes the lifecycle code of lib/ipcs.c and "
        "ipc_setup.c and is checked exhaustively by TLC with the property spec as a monitor, plus no-use-after-free and no-use-of-torn-transport, for "
        "every application with bounded callback bodies and main-loop moves (2 connections). Binding: a real qb_ipcs service on both transports in one "
        "thread (the harness owns the poll-handler table; in-process and forked dying clients; ASan), driven by 36 directed scenarios, seeded random "
        "programs and random walks of the model; every callback, API call and return is validated by TLC against IpcLife (IpcLifeTrace.tla).",
   note="Model bounded to 2 connections, 1-2 calls per callback, 4-6 main-loop moves; when the library notices a dead peer and what sends return are left open; freed-memory use is observed by ASan (use of a closed descriptor number only when it faults).",
   technique="TLA+ model checking (TLC) of a transcribed closed model with the property spec as monitor + model-generated and seeded programs on the stepped real server + TLC trace validation + ASan monitor",
   design_ref="DESIGN.md section 4, C04"),
 "C06": dict(
   text="spec/IpcWire.tla specifies a qb_ipcs server as its peers see it: peers write arbitrary handshake bytes in arbitrary pieces, admitted clients "
        "emit raw requests; the guards are the property (admission only after a complete record with id AUTHENTICATE; nothing to msg_process for "
        "strangers; descriptors, heap bytes and shm files back to baseline once peers are gone; a well-behaved client always served; reported length "
        "<= min(received, negotiated max) and inside the connection's buffer or ring; the server never dies). TLC checks the protocol machine "
        "exhaustively for small universes and the request-class product against class-level transcriptions of the receive path. TLC enumerates the "
        "case product (every prefix length x split point x ending, complete records with up to 2/3 boundary deviations, seeded garbage, transport x "
        "maximum x actual x header-length for raw requests); each case runs on the real server in a forked ASan child with an inaccessible tail behind "
        "the ring mapping, and TLC validates every recorded event (IpcWireTrace.tla).",
   note="Bounded class product with boundary values; max_msg_size up to 64 MiB; single-threaded stepped server; one raw request in flight; memory errors observed by ASan and the mmap guard, hangs by a 60 s alarm; UBSan alignment check off for ipcs.c in this harness.",
   technique="TLA+ model checking (TLC) + TLC-generated class product of hostile inputs executed on the C code + TLC trace validation + sanitizer / guard-page monitor",
   design_ref="DESIGN.md section 4, C06"),
 "C05": dict(
   text="spec/IpcAdmit.tla states admission as invariants over the accept arguments, decisions, client results, messages and everything that "
        "exists under the server's /dev/shm prefix (owner, group, mode of every file and directory), evaluated in every state. TLC checks a "
        "step-by-step model of the documented mechanism against them for every credential, decision, auth_set and transport choice and every "
        "interleaving of two handshakes. Binding: TLC enumerates scenarios; real client processes that changed their real/effective ids connect to "
        "a real single-threaded stepped qb_ipcs server (or speak the handshake on the wire and try to push requests through whatever they can reach); "
        "every file-system libc call of the server is followed by a stat snapshot of its /dev/shm prefix; TLC validates every event, evaluating the "
        "invariants at each observation (IpcAdmitTrace.tla).",
   note="Root sandbox (without root only the caller's own ids are explored, recorded in the evidence); ids from {0, 1, 65534, 1000} x {0, 1, 1000}; observation points are the interposed libc calls; the directory rule is 'owner/group authorised, no access for other' (DESIGN.md 4.0); all three findings (KF-C05-1..3) are repaired in /repo, nothing is excluded.",
   technique="TLA+ model checking (TLC) + TLC-generated scenarios executed with real client processes + TLC trace validation at every observation point",
   design_ref="DESIGN.md section 4, C05"),
 "C07": dict(
   text="spec/RingAbs.tla states the capacity contract and FIFO semantics of the ring buffer (must-accept rule with 16 bytes overhead, "
        "refused write and too-small read change nothing, reads return the accepted chunks byte for byte); TLC checks it exhaustively for "
        "small constants. Binding: all operation sequences up to a fixed depth and long random walks of the model, at real sizes around "
        "page multiples, lengths 0..S+9 incl. non-multiples of 4, payloads made of the ring's own marker words, with and without the "
        "semaphore, are executed on real rings (ASan, inaccessible tail behind the mapping) and every return value and payload hash is "
        "validated by TLC (RingAbsTrace.tla).",
   note="Sequential caller; payload equality via 30-bit FNV hash; sizes and lengths are sampled around page multiples, not all values; TLC, ASan and h_rb_seq.c trusted.",
   technique="TLA+ model checking (TLC) + model-generated histories replayed on the C code + TLC trace validation",
   design_ref="DESIGN.md section 4, C07"),
 "C11": dict(
   text="RingAbs.tla in overwrite mode: every write up to the requested size succeeds and the readable contents are an unbroken run of "
        "the newest chunks, at least the guaranteed suffix; the number of chunks dropped is left open and decided by later reads "
        "(the trace specification branches). Same binding as C07 with overwriting rings, each history ending with a full drain.",
   note="Ring level: qb_rb_* with QB_RB_FLAG_OVERWRITE incl. alloc+commit with a larger reservation; blackbox level: seeded walks of tiny and near-maximum records with long function names through the real QB_LOG_BLACKBOX target, dump + print after every few records, validated against spec/BbFile.tla (printed records = unbroken run of the newest ones ending with the last); sequential caller.",
   technique="TLA+ model checking (TLC) + model-generated histories replayed on the C code + TLC trace validation (branching on unobserved drops)",
   design_ref="DESIGN.md section 4, C11"),
 "C08": dict(
   text="spec/Loop.tla is a property-level specification of qb_loop: registrations with status, the environment (clock, ready "
        "descriptors, signals, kernel poll set), one action per API call, callback invocation and poll call. It fixes WHAT may be "
        "dispatched (exactly-once jobs/timers, callbacks owed per readiness/delivery, nothing after a successful delete, stale handles "
        "refused, FIFO jobs per priority) and leaves WHEN open. Binding: seeded random programs and directed scenarios (API calls from "
        "inside callbacks, self/other deletion, slot and descriptor-number reuse, signals) run on the real loop under a virtual clock and "
        "scripted epoll; TLC validates every recorded API result, callback and poll call (LoopTrace.tla) and evaluates the invariants at every step.",
   note=loopnote, technique=looptech, design_ref="DESIGN.md section 4, C08"),
 "C09": dict(
   text="Loop.tla's timer rules: a timer callback only at or after its expiry, same-priority timers in expiry order, every poll timeout "
        "finite and within the slack of the earliest expiry while a timer is pending, is-running/remaining consistent with pending. Time is a "
        "3-limb integer so the full 64-bit nanosecond range (2^31 ms, 2^32 ms, 2^63, 2^64-1) is validated exactly. Binding as C08 with "
        "timer-heavy programs, partial sleeps and heap add/delete histories. In addition spec/TimerHeap.tla transcribes the binary heap of "
        "include/tlist.h; TLC checks heap order and head = minimum over all add/delete/pop histories (7 timers, 4 expiries) and model histories are "
        "replayed on the real header with the heap array compared entry by entry after every call.",
   note=loopnote, technique=looptech, design_ref="DESIGN.md section 4, C09"),
 "C10": dict(
   text="Loop.tla's fairness rules, evaluated at every poll call of a recorded run: no priority level with work pending over three whole "
        "iterations goes without a dispatch, and over saturated spans higher levels get at least as many turns. Binding as C08 with "
        "saturating workloads (self re-adding jobs, always-ready descriptors, zero-delay timers at all three priorities, 20-45 iterations).",
   note=loopnote, technique=looptech, design_ref="DESIGN.md section 4, C10"),
 "C12": dict(
   text="spec/LogRoute.tla specifies log routing as the pure selection function of a target's filters over call-site attributes (priority "
        "window plus exact / comma-list / substring / POSIX-basic-regex subset / '*' matching) next to the mechanism the code keeps (per-call-site "
        "target bitmap and tag word, stored rules replayed onto new call sites). TLC checks exhaustively for bounded constants that delivery <=> "
        "enabled and selected holds for already-executed and not-yet-executed call sites alike (twins), likewise for tags, and that a closed slot is "
        "empty. Binding: every model history up to a fixed depth over an aliasing universe plus random walks over four larger universes run on the "
        "real qb_log_* API with custom targets; each history ends with an enable-everything, log-everything probe; TLC validates every return code "
        "and every logger-callback invocation (target, tag, call-site attributes, exactly once) against the same specification.",
   note="Bounded constants; custom dynamic targets only; well-formed filter texts and the regex subset; single-threaded; TLC, ASan/UBSan and the h_log.c projection are trusted.",
   technique="TLA+ model checking (TLC) + model-generated histories replayed on the C code + TLC trace validation",
   design_ref="DESIGN.md section 4, C12"),
 "C13": dict(
   text="spec/LogFormat.tla states the required line at token level (concatenation of padded/chopped fields, truncation to limit-1, ellipsis only "
        "on truncation, NUL inside the limit, message delivery with newline and extended-marker handling). TLC checks a token-level transcription of "
        "the formatter against it for every vector of a boundary alphabet (LogFormatMC). The same alphabets (all 14 directive kinds; widths and lengths "
        "0, 1, limit-1, limit, limit+5; limits 1..16, 32, 255..257, 512, 513, 4096, 4097) are executed on the real qb_log_ctl / qb_log_format_set / "
        "qb_log_target_format / qb_log_from_external_source under ASan with an exact-size buffer, and every result is validated by TLC (LogFormatTrace).",
   note="One byte value per field; unknown or unfinished directives and priorities above TRACE are checked for bounds only; a right-flushed field cut by the limit admits two texts; sanitizers, TLC and the harness projection are trusted.",
   technique="TLA+ model checking (TLC) of a token-level transcription + model-generated vectors executed on the C code + TLC trace validation + sanitizer monitor",
   design_ref="DESIGN.md section 4, C13"),
 "C14": dict(
   text="spec/BbCodec.tla gives the directive grammar as a token automaton shared by the blackbox encoder and decoder, the required slot list per "
        "directive and the space invariants. TLC proves for every token sequence of length <= 3 that encoder and decoder agree on slots, keep the "
        "record contract and stay in bounds. Every format shape of length <= 2 (thorough: <= 3) and random walks to length 8 are run on the real "
        "qb_vsnprintf_serialize / deserialize and on the full blackbox path under ASan/UBSan with reservations at and around the record size and decoder "
        "buffers of 1, 8, 512 and exact fit; TLC validates the return value against the slot contract, the decoder's read extent against the record "
        "length, and the decoded text against libc vsnprintf whenever it fits (the property names printf as the reference).",
   note="x86-64 SysV ABI; glibc vsnprintf is the reference text; length modifiers l ll z t j; excluded: h hh L, %lc, %ls, %n, NULL with precision; sanitizers, TLC and the harness projection trusted.",
   technique="TLA+ model checking (TLC) of encoder/decoder automata + model-generated format shapes executed on the C code + TLC trace validation (printf text as reference) + sanitizer monitor",
   design_ref="DESIGN.md section 4, C14"),
 "C19": dict(
   text="spec/Array.tla states the caller-visible contract (range errors, stable and pairwise-distinct element addresses at least one element apart, "
        "zero until written, contents kept across growth) and the locking discipline (the bin table is read or replaced only by the holder of the grow "
        "lock). spec/ArrayMC.tla model-checks all interleavings of three threads at lock granularity: with the discipline no thread reads a freed table; "
        "the as-found variant (table read after unlock) yields the counterexample. Binding: model histories (exhaustive short + long walks, six creation "
        "profiles, indices over the full range) run on the real qb_array_* under ASan; every result and every LOCKED/UNLOCK/TABLE_READ/TABLE_WRITE hook "
        "event is validated by TLC (ArrayTrace.tla), so an access outside the lock is rejected on any execution, whatever the schedule.",
   note="Concurrency is decided through the locking discipline (hooks in lib/array.c) plus the thread-level model, not by executing racing threads; creation profiles and index sets are fixed lists.",
   technique="TLA+ model checking (TLC, thread interleavings) + model-generated histories replayed on the C code + TLC trace validation of results and lock-discipline hook events",
   design_ref="DESIGN.md section 4, C19"),
 "C15": dict(
   text="spec/BbFile.tla: records logged, dump snapshot, retained count; abstract file cases (header/pointer/version/hash/chunk-field classes) "
        "and the required outcome per case (exact round trip of all record fields for an undamaged dump; return with rc <= 0, no crash, no "
        "leftover /dev/shm file otherwise). TLC checks it exhaustively for bounded call sequences x cases within 2 deviations. Binding: "
        "TLC-generated round-trip walks and the TLC-enumerated class product of damaged files are executed on the real blackbox (ASan/UBSan, "
        "forked children, PROT_NONE guard tail behind the ring mapping, /dev/shm census), plus every truncation length and seeded random "
        "corruptions and junk files projected to abstract cases; TLC validates every recorded outcome (BbFileTrace.tla).",
   note="Deviation bound 2/3 and seeded samples; message formats from a fixed family (printf equivalence is C14); retained set lower bound only (exact eviction is C11); output of damaged files unconstrained; sanitizers, guard tail and the h_bbfile.c projection are trusted.",
   technique="TLA+ model checking (TLC) + TLC-enumerated abstract file cases concretised and executed on the C code + TLC trace validation + sanitizer / guard-page monitor",
   design_ref="DESIGN.md section 4, C15"),
 "C16": dict(
   text="spec/LogThread.tla (explicit program counters, one action per hook point of lib/log_thread.c): TLC explores all interleavings of the "
        "application thread and the logging thread and all orders of init, set-threaded, start, enable/disable/reconfigure/close, log, fini and "
        "re-init (3-4 messages, backlog limit 2) against: written exactly once, in order, everything delivered when fini returns except what was "
        "dropped over the limit; dropped count reported; lock live whenever held; target enabled while the worker is in its logger; accounting "
        "consistent; every call returns (liveness under weak fairness). Binding: the hook points are yield points of a deterministic scheduler; an edge "
        "cover of the model's state graph (thorough: every edge) and random walks of larger models are replayed step by step on the real threads, and TLC "
        "validates semaphore value, accounting, queue length, dropped count, lock state and writes after each step (LogThreadTrace.tla); free-running "
        "programs at the real 512000-byte limit are validated against a call-level spec and run under ThreadSanitizer.",
   note="One producer/controller thread; Log only when the target is enabled, threaded and the thread started; sequentially consistent interleavings at hook granularity; the backlog limit is scaled to a few records in controlled runs; thread-start failures not generated.",
   technique="TLA+ model checking (TLC, safety + liveness, all interleavings) + edge-cover schedules replayed on the real threads via hook points + TLC trace validation + TSan free runs",
   design_ref="DESIGN.md section 4, C16"),
 "C17": dict(
   text="spec/Map.tla specifies the three map implementations as a dictionary with map-wide, per-key, recursive-prefix and "
        "value-release notifiers (per-implementation profile as a constant); TLC checks its invariants exhaustively for bounded "
        "constants. Binding: every model history up to a fixed depth over structurally aliasing keys plus long random walks of the "
        "model are executed on the real hashtable, skiplist and trie (ASan/UBSan build of the working tree) and every recorded "
        "return value, traversal and notifier invocation is validated by TLC against the same specification (MapTrace.tla).",
   note="Bounded key alphabet (8 aliasing keys), non-NULL values, notifier callbacks do not re-enter the map; trie order asserted only where signed and unsigned byte order agree; TLC, sanitizers and h_map.c projection trusted.",
   technique="TLA+ model checking (TLC) + model-generated histories replayed on the C code + TLC trace validation",
   design_ref="DESIGN.md section 4, C17"),
 "C18": dict(
   text="The iterator part of spec/Map.tla states the C18 guarantees as bookkeeping per open iterator (keys present throughout, "
        "keys present at some time, keys already returned, removals-only flag); TLC checks it exhaustively for bounded constants. "
        "Binding: all interleavings of iterator create/next/free with put/rm/get up to a fixed depth, plus random walks with up to three "
        "iterators, are executed on the three real implementations under ASan and each history ends with the iterators freed and a full "
        "dictionary probe; TLC validates every recorded result (MapTrace.tla). Steps that fall under the four recorded findings are left "
        "out of generated behaviours and re-checked by directed reproducers.",
   note="Bounded histories and key alphabet; iterators are not advanced past their end; memory safety is observed by ASan/UBSan; the four findings first recorded for C18 are repaired (known_findings.jsonl), so no step is excluded; should one return, its directed history fails.",
   technique="TLA+ model checking (TLC) + model-generated interleavings replayed on the C code + TLC trace validation + sanitizer monitor",
   design_ref="DESIGN.md section 4, C18"),
}

PENDING_REASON = "not claimed yet: specification and binding harness for this property are not built at this commit (see DESIGN.md section 4 for the plan)"


def manifest():
    checks = []
    for pid in ALL:
        if pid not in CHECKS:
            continue
        c = CHECKS[pid]
        checks.append({
            "property_id": pid,
            "quick_cmd": "bin/check %s --tier quick" % pid,
            "thorough_cmd": "bin/check %s --tier thorough" % pid,
            "evidence_file": "evidence/%s.json" % pid,
            "replay_cmd_template": "bin/check %s --replay {path}" % pid,
            "engine": "tlc",
            "level_claimed": {"category": c.get("category", "model_checking"), "text": c["text"], "design_ref": c["design_ref"]},
            "level_note": c["note"],
            "technique": c["technique"],
        })
    na = [{"property_id": p, "reason": NOT_APPLICABLE.get(p, PENDING_REASON)} for p in ALL if p not in CHECKS]
    return {
        "version": 1,
        "setup_cmd": "bin/setup",
        "hooks": {
            "guard": "LIBQB_VERIF",
            "enable": "bin/build-libqb compiles lib/*.c from /repo's working tree with -DLIBQB_VERIF into build/<check>/<variant>/libqb_verif.a; harnesses link that archive statically",
            "baseline_off_cmd": "make -C /repo -j8 && make -C /repo check",
            "source_commits": HOOK_COMMITS,
            "add_only": True,
        },
        "engines": [{"name": "tlc", "path": "/opt/veriftools/tla/tla2tools.jar", "serves_properties": sorted(CHECKS),
                     "kind_free_text": "TLC 1.8.0 explicit-state model checker: design check, behaviour generation, trace validation"}],
        "checks": checks,
        "not_applicable": na,
        "notes": "All checks: bin/check <ID> --tier quick|thorough [--seed N]; VERIF_TIER / VERIF_SEED honoured. Specifications in spec/, harnesses in harness/, known findings in known_findings.jsonl.",
    }

NOT_APPLICABLE = {}
HOOK_COMMITS = ["6403eeb", "060055a", "1defb0d", "133ca4e", "61475be", "bf28053", "4796a39"]
