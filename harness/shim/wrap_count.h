/* wrap_count.h -- call-counting interposer for the fault enumeration of C03.
 *
 * The harness is linked statically with the libqb archive and with
 *   -Wl,--wrap=<fn>  for every name in wrap.list
 * so every reference to <fn> from libqb's objects (and from the harness) lands
 * in __wrap_<fn> below, which counts the call while the counter is armed and
 * then calls the real function.  When the armed counter reaches the target the
 * process stops at the BOUNDARY of that call (calls 1..target-1 completed, call
 * `target` not executed): wc_crash() is supplied by the harness (the client
 * child reports and waits to be killed, the server child kills itself).
 *
 * The counter lives in a page shared with the parent so the parent can read how
 * far the child got, the name of the call it stopped at and whether the child is
 * blocked inside a waiting call (poll / sem_wait / sem_timedwait / nanosleep).
 */
#ifndef WRAP_COUNT_H
#define WRAP_COUNT_H
#include <sys/types.h>
#include <sys/socket.h>
#include <sys/mman.h>
#include <sys/stat.h>
#include <sys/uio.h>
#include <semaphore.h>
#include <signal.h>
#include <poll.h>
#include <fcntl.h>
#include <stdarg.h>
#include <time.h>
#include <unistd.h>

#define WC_FNS(X) \
	X(socket) X(connect) X(send) X(sendmsg) X(recv) X(recvmsg) X(poll) X(open) X(openat) \
	X(mkstemp) X(mkdtemp) X(ftruncate) X(posix_fallocate) X(mmap) X(munmap) X(unlink) X(unlinkat) \
	X(close) X(sem_init) X(sem_wait) X(sem_timedwait) X(sem_trywait) X(sem_post) X(sem_destroy) \
	X(sem_getvalue) X(bind) X(listen) X(accept) X(shutdown) X(setsockopt) X(getsockopt) X(fcntl) \
	X(chmod) X(chown) X(rmdir) X(writev) X(kill) X(nanosleep) X(usleep) X(truncate)

enum wc_fn {
#define X(n) WC_##n,
	WC_FNS(X)
#undef X
	WC_NFN
};
static const char *wc_names[] = {
#define X(n) #n,
	WC_FNS(X)
#undef X
};

#define WC_MAXLOG 8192
struct wc_shared {
	volatile int count;      /* armed calls seen so far */
	volatile int target;     /* stop at the boundary of this call (0 = never) */
	volatile int blocked;    /* child is inside a waiting call */
	volatile int phase;      /* phase label set by the driver (client op in progress) */
	volatile int reached;    /* 1 = stopped at target, 2 = script ended without reaching it */
	volatile int aux[8];
	unsigned char fn[WC_MAXLOG];   /* fn[i] = id of the i-th armed call (1-based) */
	unsigned char ph[WC_MAXLOG];   /* phase label at that call */
};
static struct wc_shared *wc_sh;    /* NULL in the surviving process: wrappers are pass-through */
static volatile int wc_armed;
static int wc_is_child;             /* set in the forked (dying) process: only it reports "blocked" */

static void wc_crash(int fn);      /* supplied by the harness */

static inline void wc_hit(int fn)
{
	if (!wc_armed || !wc_sh) return;
	int n = ++wc_sh->count;
	if (n < WC_MAXLOG) { wc_sh->fn[n] = (unsigned char)fn; wc_sh->ph[n] = (unsigned char)wc_sh->phase; }
	if (wc_sh->target && n == wc_sh->target) {
		wc_armed = 0;
		wc_sh->count = n - 1;   /* calls completed */
		wc_crash(fn);
	}
}
#define WC_BLOCK_BEGIN int wc_b_ = (wc_is_child && wc_sh); if (wc_b_) wc_sh->blocked = 1
#define WC_BLOCK_END   if (wc_b_) wc_sh->blocked = 0

#define R(n) __real_##n
int R(socket)(int, int, int);
int __wrap_socket(int a, int b, int c) { wc_hit(WC_socket); return R(socket)(a, b, c); }
int R(connect)(int, const struct sockaddr *, socklen_t);
int __wrap_connect(int a, const struct sockaddr *b, socklen_t c) { wc_hit(WC_connect); return R(connect)(a, b, c); }
ssize_t R(send)(int, const void *, size_t, int);
ssize_t __wrap_send(int a, const void *b, size_t c, int d) { wc_hit(WC_send); return R(send)(a, b, c, d); }
ssize_t R(sendmsg)(int, const struct msghdr *, int);
ssize_t __wrap_sendmsg(int a, const struct msghdr *b, int c) { wc_hit(WC_sendmsg); return R(sendmsg)(a, b, c); }
ssize_t R(recv)(int, void *, size_t, int);
ssize_t __wrap_recv(int a, void *b, size_t c, int d) { wc_hit(WC_recv); return R(recv)(a, b, c, d); }
ssize_t R(recvmsg)(int, struct msghdr *, int);
ssize_t __wrap_recvmsg(int a, struct msghdr *b, int c) { wc_hit(WC_recvmsg); return R(recvmsg)(a, b, c); }
int R(poll)(struct pollfd *, nfds_t, int);
int __wrap_poll(struct pollfd *a, nfds_t b, int c)
{
	wc_hit(WC_poll);
	WC_BLOCK_BEGIN;
	int r = R(poll)(a, b, c);
	WC_BLOCK_END;
	return r;
}
int R(open)(const char *, int, ...);
int __wrap_open(const char *p, int fl, ...)
{
	va_list ap; va_start(ap, fl); int mode = va_arg(ap, int); va_end(ap);
	wc_hit(WC_open);
	return R(open)(p, fl, mode);
}
int R(openat)(int, const char *, int, ...);
int __wrap_openat(int d, const char *p, int fl, ...)
{
	va_list ap; va_start(ap, fl); int mode = va_arg(ap, int); va_end(ap);
	wc_hit(WC_openat);
	return R(openat)(d, p, fl, mode);
}
int R(mkstemp)(char *);
int __wrap_mkstemp(char *a) { wc_hit(WC_mkstemp); return R(mkstemp)(a); }
char *R(mkdtemp)(char *);
char *__wrap_mkdtemp(char *a) { wc_hit(WC_mkdtemp); return R(mkdtemp)(a); }
int R(ftruncate)(int, off_t);
int __wrap_ftruncate(int a, off_t b) { wc_hit(WC_ftruncate); return R(ftruncate)(a, b); }
int R(posix_fallocate)(int, off_t, off_t);
int __wrap_posix_fallocate(int a, off_t b, off_t c) { wc_hit(WC_posix_fallocate); return R(posix_fallocate)(a, b, c); }
void *R(mmap)(void *, size_t, int, int, int, off_t);
void *__wrap_mmap(void *a, size_t b, int c, int d, int e, off_t f) { wc_hit(WC_mmap); return R(mmap)(a, b, c, d, e, f); }
int R(munmap)(void *, size_t);
int __wrap_munmap(void *a, size_t b) { wc_hit(WC_munmap); return R(munmap)(a, b); }
int R(unlink)(const char *);
int __wrap_unlink(const char *a) { wc_hit(WC_unlink); return R(unlink)(a); }
int R(unlinkat)(int, const char *, int);
int __wrap_unlinkat(int a, const char *b, int c) { wc_hit(WC_unlinkat); return R(unlinkat)(a, b, c); }
int R(close)(int);
int __wrap_close(int a) { wc_hit(WC_close); return R(close)(a); }
int R(sem_init)(sem_t *, int, unsigned);
int __wrap_sem_init(sem_t *a, int b, unsigned c) { wc_hit(WC_sem_init); return R(sem_init)(a, b, c); }
int R(sem_wait)(sem_t *);
int __wrap_sem_wait(sem_t *a)
{
	wc_hit(WC_sem_wait);
	WC_BLOCK_BEGIN;
	int r = R(sem_wait)(a);
	WC_BLOCK_END;
	return r;
}
int R(sem_timedwait)(sem_t *, const struct timespec *);
int __wrap_sem_timedwait(sem_t *a, const struct timespec *b)
{
	wc_hit(WC_sem_timedwait);
	WC_BLOCK_BEGIN;
	int r = R(sem_timedwait)(a, b);
	WC_BLOCK_END;
	return r;
}
int R(sem_trywait)(sem_t *);
int __wrap_sem_trywait(sem_t *a) { wc_hit(WC_sem_trywait); return R(sem_trywait)(a); }
int R(sem_post)(sem_t *);
int __wrap_sem_post(sem_t *a) { wc_hit(WC_sem_post); return R(sem_post)(a); }
int R(sem_destroy)(sem_t *);
int __wrap_sem_destroy(sem_t *a) { wc_hit(WC_sem_destroy); return R(sem_destroy)(a); }
int R(sem_getvalue)(sem_t *, int *);
int __wrap_sem_getvalue(sem_t *a, int *b) { wc_hit(WC_sem_getvalue); return R(sem_getvalue)(a, b); }
int R(bind)(int, const struct sockaddr *, socklen_t);
int __wrap_bind(int a, const struct sockaddr *b, socklen_t c) { wc_hit(WC_bind); return R(bind)(a, b, c); }
int R(listen)(int, int);
int __wrap_listen(int a, int b) { wc_hit(WC_listen); return R(listen)(a, b); }
int R(accept)(int, struct sockaddr *, socklen_t *);
int __wrap_accept(int a, struct sockaddr *b, socklen_t *c) { wc_hit(WC_accept); return R(accept)(a, b, c); }
int R(shutdown)(int, int);
int __wrap_shutdown(int a, int b) { wc_hit(WC_shutdown); return R(shutdown)(a, b); }
int R(setsockopt)(int, int, int, const void *, socklen_t);
int __wrap_setsockopt(int a, int b, int c, const void *d, socklen_t e) { wc_hit(WC_setsockopt); return R(setsockopt)(a, b, c, d, e); }
int R(getsockopt)(int, int, int, void *, socklen_t *);
int __wrap_getsockopt(int a, int b, int c, void *d, socklen_t *e) { wc_hit(WC_getsockopt); return R(getsockopt)(a, b, c, d, e); }
int R(fcntl)(int, int, ...);
int __wrap_fcntl(int a, int b, ...)
{
	va_list ap; va_start(ap, b); long arg = va_arg(ap, long); va_end(ap);
	wc_hit(WC_fcntl);
	return R(fcntl)(a, b, arg);
}
int R(chmod)(const char *, mode_t);
int __wrap_chmod(const char *a, mode_t b) { wc_hit(WC_chmod); return R(chmod)(a, b); }
int R(chown)(const char *, uid_t, gid_t);
int __wrap_chown(const char *a, uid_t b, gid_t c) { wc_hit(WC_chown); return R(chown)(a, b, c); }
int R(rmdir)(const char *);
int __wrap_rmdir(const char *a) { wc_hit(WC_rmdir); return R(rmdir)(a); }
ssize_t R(writev)(int, const struct iovec *, int);
ssize_t __wrap_writev(int a, const struct iovec *b, int c) { wc_hit(WC_writev); return R(writev)(a, b, c); }
int R(kill)(pid_t, int);
int __wrap_kill(pid_t a, int b) { wc_hit(WC_kill); return R(kill)(a, b); }
int R(nanosleep)(const struct timespec *, struct timespec *);
int __wrap_nanosleep(const struct timespec *a, struct timespec *b)
{
	wc_hit(WC_nanosleep);
	WC_BLOCK_BEGIN;
	int r = R(nanosleep)(a, b);
	WC_BLOCK_END;
	return r;
}
int R(usleep)(useconds_t);
int __wrap_usleep(useconds_t a)
{
	wc_hit(WC_usleep);
	WC_BLOCK_BEGIN;
	int r = R(usleep)(a);
	WC_BLOCK_END;
	return r;
}
int R(truncate)(const char *, off_t);
int __wrap_truncate(const char *a, off_t b) { wc_hit(WC_truncate); return R(truncate)(a, b); }
#undef R
#endif
