/* h_ipc_raw: a hostile peer that speaks libqb's IPC wire protocol directly, against a real
 * qb_ipcs service that is stepped by hand in the same (forked) process -- property C06.
 *
 * usage: h_ipc_raw <schedule> <trace-out> [--nofork]
 *
 * A schedule is a list of histories separated by "Reset" lines.  Every history is executed in a
 * forked child (server + all clients inside the child, ASan/UBSan build), so a memory-error
 * report, an assert or a hang ends that history only; the parent appends
 *   {"e":"Exit","a":[],"r":[kind,code]}      kind 0 = exited(code), 1 = killed by signal(code)
 * The server is a real qb_ipcs service with the harness's own qb_ipcs_poll_handlers table: after
 * every client step the harness polls the registered descriptors and calls the registered
 * callbacks / queued jobs until nothing is ready ("stepped to quiescence").
 *
 * ops (one per line; the server is stepped after every one of them):
 *   Up <transport 0 sock|1 shm> <enforced max>       start the service, warm it up, take the baseline census
 *   Connect <p> rec <id> <size> <mms> <total> <seed> raw peer p: byte string = the request record with these
 *                                                    fields, cut or extended (seeded garbage) to <total> bytes
 *   Connect <p> rand <total> <seed>                  raw peer p: <total> bytes of seeded garbage (the max_msg_size
 *                                                    field reduced modulo 64 MiB + 1: domain restriction)
 *   Write <p> <n>                                    write the next n bytes of the string (n <= what is left)
 *   WriteClose <p> <n>                               the same, and the peer leaves before the server runs again
 *   HalfClose <p>                                    shutdown(SHUT_WR)
 *   Resp <p>                                         read the response record without blocking
 *   Attach <p>                                       open the channels named in the response (library code)
 *   Send <p> <seq> <actual> <id> <hsz> <note> <pat>  raw request: <actual> bytes whose header says id, size=hsz;
 *                                                    note = notification items (shm: bytes on the socket,
 *                                                    sock: increments of the shared "sent" counter)
 *   Kick <p> <n>                                     n more notification items
 *   RewriteNext <p> <word> [<fill>]                  shm: while msg_process runs on this peer's next request the peer
 *                                                    overwrites the chunk's length word in the shared ring with <word>
 *   Close <p> <how>                                  0 = the peer dies (descriptors closed, mappings dropped)
 *                                                    1 = it closes the way the client library does
 *   GConnect <p> <mms>  GSend <p> <len>  GRecv <p>  GClose <p>    a well-behaved client (qb_ipcc_* API)
 *   Census                                           descriptors, heap bytes, /dev/shm entries of this server
 *
 * events: see spec/IpcWire.tla (one event per op, plus the server callbacks Accept, Created, Msg,
 * MsgRead, Closed, Destroyed that run while the server is stepped).
 *
 * mmap is interposed: the PROT_NONE reservation qb_sys_circular_mmap makes first gets a large
 * inaccessible tail, so a read past the ring's double mapping faults instead of reading a
 * neighbouring mapping (ASan does not shadow file mappings). */
#include "os_base.h"
#include <poll.h>
#include <dirent.h>
#include <dlfcn.h>
#include <signal.h>
#include <sys/mman.h>
#include <sys/socket.h>
#include <sys/un.h>
#include <sys/wait.h>
#include <sys/prctl.h>
#include <qb/qbdefs.h>
#include <qb/qbipcs.h>
#include <qb/qbipcc.h>
#include <qb/qbrb.h>
#include <qb/qbloop.h>
#include "ipc_int.h"
#include "ringbuffer_int.h"
#include "vtrace.h"

extern size_t __sanitizer_get_current_allocated_bytes(void);

/* ---- mmap guard (see h_rb_seq.c) ---- */
#define TAIL (1ULL << 33)
void *mmap(void *addr, size_t len, int prot, int flags, int fd, off_t off)
{
	static void *(*real)(void *, size_t, int, int, int, off_t);
	if (!real) real = dlsym(RTLD_NEXT, "mmap");
	if (addr == NULL && prot == PROT_NONE && (flags & MAP_ANONYMOUS) && fd == -1)
		return real(NULL, len + TAIL, PROT_NONE, flags | MAP_NORESERVE, -1, 0);
	return real(addr, len, prot, flags, fd, off);
}

#define CAP 2000000000LL          /* TLC integers are 32-bit: larger lengths are logged as CAP */
#define RS ((int)sizeof(struct qb_ipc_connection_request))
#define MAXPEER 16
#define MAXBYTES 70000
#define MAXMMS (64u << 20)

struct us_control { int32_t sent; int32_t flow_control; };   /* lib/ipc_socket.c: struct ipc_us_control */

/* ------------------------------------------------------------------ stepped server */
struct pent { int fd, events, live; void *data; qb_ipcs_dispatch_fn_t fn; unsigned gen; };
static struct pent ptab[256];
static int nptab;
struct jent { void *data; qb_loop_job_dispatch_fn fn; };
static struct jent jobs[64];
static int njobs;
static unsigned gen_ctr;
static qb_ipcs_service_t *svc;
static int transport;
static int in_acceptor;            /* the acceptor callback is running: a registration made now is a new stream connection */
static int connect_order[4096], n_connects, n_accepts;   /* k-th accepted descriptor belongs to the k-th connect() */
static int fd_peer[65536];

static struct pent *pfind(int fd)
{
	for (int i = 0; i < nptab; i++) if (ptab[i].live && ptab[i].fd == fd) return &ptab[i];
	return NULL;
}
static int32_t h_dispatch_add(enum qb_loop_priority p, int32_t fd, int32_t ev, void *data, qb_ipcs_dispatch_fn_t fn)
{
	if (pfind(fd)) return -EEXIST;
	struct pent *e = NULL;
	for (int i = 0; i < nptab; i++) if (!ptab[i].live) { e = &ptab[i]; break; }
	if (!e) { if (nptab == 256) return -ENOMEM; e = &ptab[nptab++]; }
	e->fd = fd; e->events = ev; e->data = data; e->fn = fn; e->live = 1; e->gen = ++gen_ctr;
	if (in_acceptor && fd >= 0 && fd < 65536)
		fd_peer[fd] = n_accepts < n_connects ? connect_order[n_accepts] : 0, n_accepts++;
	return 0;
}
static int32_t h_dispatch_mod(enum qb_loop_priority p, int32_t fd, int32_t ev, void *data, qb_ipcs_dispatch_fn_t fn)
{
	struct pent *e = pfind(fd);
	if (!e) return -ENOENT;
	e->events = ev; e->data = data; e->fn = fn;
	return 0;
}
static int32_t h_dispatch_del(int32_t fd)
{
	struct pent *e = pfind(fd);
	if (!e) return -ENOENT;
	e->live = 0;
	return 0;
}
static int32_t h_job_add(enum qb_loop_priority p, void *data, qb_loop_job_dispatch_fn fn)
{
	if (njobs == 64) return -ENOMEM;
	jobs[njobs].data = data; jobs[njobs].fn = fn; njobs++;
	return 0;
}

/* poll the registered descriptors and run what is ready, until nothing is */
static int step_server(void)
{
	int rounds = 0;
	for (; rounds < 400; rounds++) {
		int did = 0;
		while (njobs > 0) {
			struct jent j = jobs[0];
			memmove(jobs, jobs + 1, sizeof(jobs[0]) * (--njobs));
			j.fn(j.data);
			did = 1;
		}
		struct pollfd pf[256]; unsigned gens[256]; int idx[256]; int n = 0;
		for (int i = 0; i < nptab; i++)
			if (ptab[i].live) { pf[n].fd = ptab[i].fd; pf[n].events = ptab[i].events; pf[n].revents = 0; gens[n] = ptab[i].gen; idx[n] = i; n++; }
		int rc = n ? poll(pf, n, 0) : 0;
		if (rc > 0) {
			for (int k = 0; k < n; k++) {
				if (!pf[k].revents) continue;
				struct pent *e = &ptab[idx[k]];
				if (!e->live || e->gen != gens[k]) continue;     /* removed or replaced by an earlier callback */
				int isacc = (e->data == (void *)svc);
				in_acceptor = isacc;
				int32_t r = e->fn(e->fd, pf[k].revents, e->data);
				in_acceptor = 0;
				if (r < 0 && e->live && e->gen == gens[k]) e->live = 0;   /* qb_loop: a negative return removes the descriptor */
				did = 1;
			}
		}
		if (!did) break;
	}
	return rounds;
}

/* ------------------------------------------------------------------ peers */
struct peer {
	int used, good;
	int sock;
	unsigned char bytes[MAXBYTES];
	int total, sent;
	struct qb_ipc_connection_response resp;
	int resp_got, resp_eof;
	struct qb_ipcc_connection *cc;      /* raw peer: channels opened with the library's internal connect functions */
	qb_ipcc_connection_t *gc;           /* good peer */
	int glen;
};
static struct peer peers[MAXPEER];

/* the single request in flight (what the raw or good client sent last) */
static unsigned char *infl_buf;
static long infl_len = -1;
static int infl_peer;
static unsigned char *sendbuf;
#define SENDMAX (80u << 20)

static unsigned rnd_state;
static unsigned rnd(void) { rnd_state = rnd_state * 1103515245u + 12345u; return (rnd_state >> 8) & 0xffffff; }

/* ------------------------------------------------------------------ census */
static int count_fds(void)
{
	int n = 0; DIR *d = opendir("/proc/self/fd");
	if (!d) return -1;
	while (readdir(d)) n++;
	closedir(d);
	return n - 3;   /* ".", "..", the directory's own descriptor */
}
static int count_shm(pid_t pid)
{
	char pfx[64]; int n = 0;
	snprintf(pfx, sizeof(pfx), "qb-%d-", (int)pid);
	DIR *d = opendir("/dev/shm");
	if (!d) return -1;
	struct dirent *de;
	while ((de = readdir(d))) if (!strncmp(de->d_name, pfx, strlen(pfx))) n++;
	closedir(d);
	return n;
}
static void rm_shm_of(pid_t pid)   /* parent: remove what a dead child's server left behind (only that child's own files) */
{
	char pfx[64], path[PATH_MAX + 300], sub[PATH_MAX + 600];
	snprintf(pfx, sizeof(pfx), "qb-%d-", (int)pid);
	DIR *d = opendir("/dev/shm");
	if (!d) return;
	struct dirent *de;
	while ((de = readdir(d))) {
		if (strncmp(de->d_name, pfx, strlen(pfx))) continue;
		snprintf(path, sizeof(path), "/dev/shm/%s", de->d_name);
		DIR *s = opendir(path);
		if (s) {
			struct dirent *se;
			while ((se = readdir(s))) {
				if (!strcmp(se->d_name, ".") || !strcmp(se->d_name, "..")) continue;
				snprintf(sub, sizeof(sub), "%s/%s", path, se->d_name);
				unlink(sub);
			}
			closedir(s);
			rmdir(path);
		} else unlink(path);
	}
	closedir(d);
}
static void ev_census(const char *name, int a0, int a1, int nargs)
{
	vt_ev(name);
	if (nargs > 0) vt_i(a0);
	if (nargs > 1) vt_i(a1);
	vt_res();
	vt_i(count_fds()); vt_i((long long)__sanitizer_get_current_allocated_bytes()); vt_i(count_shm(getpid()));
	vt_end();
}

/* ------------------------------------------------------------------ server callbacks */
static int peer_of(qb_ipcs_connection_t *c) { return (int)(intptr_t)qb_ipcs_context_get(c); }

static int32_t s_accept(qb_ipcs_connection_t *c, uid_t uid, gid_t gid)
{
	int fd = c->setup.u.us.sock;
	int p = (fd >= 0 && fd < 65536) ? fd_peer[fd] : 0;
	qb_ipcs_context_set(c, (void *)(intptr_t)p);
	vt_ev("Accept"); vt_i(p); vt_res(); vt_end();
	return 0;
}
static void s_created(qb_ipcs_connection_t *c) { vt_ev("Created"); vt_i(peer_of(c)); vt_res(); vt_end(); }
static int32_t s_closed(qb_ipcs_connection_t *c) { vt_ev("Closed"); vt_i(peer_of(c)); vt_res(); vt_end(); return 0; }
static void s_destroyed(qb_ipcs_connection_t *c) { vt_ev("Destroyed"); vt_i(peer_of(c)); vt_res(); vt_end(); }

static volatile unsigned char sink;
static int rw_armed, rw_peer, rw_fill;
static uint32_t rw_value;
static int32_t s_msg(qb_ipcs_connection_t *c, void *data, size_t size)
{
	int p = peer_of(c);
	char *base; long long buflen;
	if (c->service->type == QB_IPC_SHM) {
		struct qb_ringbuffer_s *rb = c->request.u.shm.rb;
		base = (char *)rb->shared_data;
		buflen = 2LL * rb->shared_hdr->word_size * (long long)sizeof(uint32_t);   /* the double mapping */
	} else {
		base = (char *)c->receive_buf;
		buflen = (long long)c->request.max_msg_size;
	}
	long long off = (char *)data - base;
	if (off > CAP) off = CAP;
	if (off < -CAP) off = -CAP;
	vt_ev("Msg"); vt_i(p); vt_i(size > (size_t)CAP ? CAP : (long long)size); vt_res(); vt_i(off); vt_i(buflen); vt_end();
	vt_flush();
	/* touch every byte the callback was told it may read; count how many of them are bytes of the request in flight */
	const unsigned char *d = data;
	long long nvalid = 0; int matching = (infl_len >= 0 && infl_peer == p);
	unsigned char acc = 0;
	for (size_t i = 0; i < size; i++) {
		unsigned char b = d[i];
		acc ^= b;
		if (matching && (long long)i < infl_len && b == infl_buf[i]) nvalid = i + 1; else matching = 0;
	}
	sink = acc;
	vt_ev("MsgRead"); vt_i(p); vt_res(); vt_i(nvalid); vt_end();
	if (rw_armed && rw_peer == p && c->service->type == QB_IPC_SHM) {
		/* the client owns the other mapping of this ring: while the server is busy with the request it overwrites
		 * the length word of that very chunk (what the server validated is not what it will find when it releases it) */
		struct qb_ringbuffer_s *rb = c->request.u.shm.rb;
		uint32_t rp = rb->shared_hdr->read_pt;
		if (rw_fill) {
			/* ... and makes every other word of the ring look like the mark of a committed chunk, so that whatever
			 * position the server computes next passes its first test */
			for (uint32_t w = 0; w < rb->shared_hdr->word_size; w++) rb->shared_data[w] = 0xA1A1A1A1u;
		}
		rb->shared_data[rp] = rw_value;
		rw_armed = 0;
		vt_ev("Rewrite"); vt_i(p); vt_i((long long)(int32_t)rw_value); vt_res(); vt_end();
	}
	if (p > 0 && p < MAXPEER && peers[p].good) {
		struct qb_ipc_response_header r;
		memset(&r, 0, sizeof(r));
		r.id = 7; r.size = sizeof(r); r.error = 0;
		qb_ipcs_response_send(c, &r, sizeof(r));
	}
	return 0;
}

static char svcname[64];
static void server_up(int tr, unsigned enforce)
{
	struct qb_ipcs_service_handlers sh = { s_accept, s_created, s_msg, s_closed, s_destroyed };
	struct qb_ipcs_poll_handlers ph = { h_job_add, h_dispatch_add, h_dispatch_mod, h_dispatch_del };
	transport = tr;
	snprintf(svcname, sizeof(svcname), "vc06-%d", (int)getpid());
	svc = qb_ipcs_create(svcname, 0, tr ? QB_IPC_SHM : QB_IPC_SOCKET, &sh);
	if (!svc) { fprintf(stderr, "qb_ipcs_create failed\n"); exit(3); }
	qb_ipcs_poll_handlers_set(svc, &ph);
	if (enforce) qb_ipcs_enforce_buffer_size(svc, enforce);
	int rc = qb_ipcs_run(svc);
	if (rc != 0) { fprintf(stderr, "qb_ipcs_run: %d\n", rc); exit(3); }
}

/* ------------------------------------------------------------------ raw client pieces */
static int raw_connect(void)
{
	int s = socket(PF_UNIX, SOCK_STREAM | SOCK_NONBLOCK | SOCK_CLOEXEC, 0);
	if (s < 0) return -errno;
	struct sockaddr_un a;
	memset(&a, 0, sizeof(a));
	a.sun_family = AF_UNIX;
	snprintf(a.sun_path + 1, sizeof(a.sun_path) - 1, "%s", svcname);     /* abstract name, as lib/ipc_setup.c builds it */
	if (connect(s, (struct sockaddr *)&a, QB_SUN_LEN(&a)) < 0) { int e = errno; close(s); return -e; }
	int on = 1;
	setsockopt(s, SOL_SOCKET, SO_PASSCRED, &on, sizeof(on));
	return s;
}
static void note_connect(int p) { if (n_connects < 4096) connect_order[n_connects++] = p; }

static void rb_drop(struct qb_ringbuffer_s **prb)   /* what the kernel does for a dead client: mappings go, nothing else */
{
	struct qb_ringbuffer_s *rb = *prb;
	if (!rb) return;
	size_t bytes = (size_t)rb->shared_hdr->word_size * sizeof(uint32_t);
	munmap(rb->shared_data, bytes * 2);
	munmap(rb->shared_hdr, sizeof(struct qb_ringbuffer_shared_s) + sizeof(int32_t));
	free(rb);
	*prb = NULL;
}

static void peer_close(struct peer *P, int how)
{
	if (P->cc) {
		struct qb_ipcc_connection *c = P->cc;
		if (how == 1) {
			c->is_connected = QB_TRUE;
			c->funcs.disconnect(c);          /* the library's own orderly close (closes the setup socket too) */
			P->sock = -1;
		} else if (c->request.type == QB_IPC_SHM) {
			rb_drop(&c->request.u.shm.rb); rb_drop(&c->response.u.shm.rb); rb_drop(&c->event.u.shm.rb);
		} else {
			if (c->request.u.us.shared_data) munmap(c->request.u.us.shared_data, 3 * sizeof(struct us_control));
			if (c->request.u.us.sock >= 0) close(c->request.u.us.sock);
			if (c->event.u.us.sock >= 0) close(c->event.u.us.sock);
		}
		free(c->receive_buf);
		free(c);
		P->cc = NULL;
	}
	if (P->sock >= 0) { close(P->sock); P->sock = -1; }
}

/* ------------------------------------------------------------------ one history (runs in the child) */
static void run_history(char **lines, int nlines)
{
	struct vt_line L;
	for (int li = 0; li < nlines; li++) {
		strncpy(L.raw, lines[li], sizeof(L.raw) - 1); L.raw[sizeof(L.raw) - 1] = 0;
		L.n = 0; char *save = NULL;
		for (char *t = strtok_r(L.raw, " \t\r\n", &save); t && L.n < VT_MAXTOK; t = strtok_r(NULL, " \t\r\n", &save)) L.tok[L.n++] = t;
		if (!L.n) continue;
		const char *op = L.tok[0];
		int p = (int)vt_argi(&L, 1);
		struct peer *P = (p > 0 && p < MAXPEER) ? &peers[p] : NULL;
		if (!strcmp(op, "Connect") && P) {
			memset(P, 0, sizeof(*P)); P->used = 1; P->sock = -1;
			struct qb_ipc_connection_request rq;
			memset(&rq, 0, sizeof(rq));
			if (!strcmp(L.tok[2], "rec")) {
				rq.hdr.id = (int32_t)vt_argi(&L, 3); rq.hdr.size = (int32_t)vt_argi(&L, 4); rq.max_msg_size = (uint32_t)vt_argi(&L, 5);
				if (rq.max_msg_size > MAXMMS) rq.max_msg_size = MAXMMS;
				P->total = (int)vt_argi(&L, 6); rnd_state = (unsigned)vt_argi(&L, 7);
				for (int i = 0; i < MAXBYTES && i < P->total; i++) P->bytes[i] = rnd() & 0xff;
				/* the record's padding bytes keep their garbage; the three fields are set */
				memcpy(P->bytes + offsetof(struct qb_ipc_connection_request, hdr.id), &rq.hdr.id, 4);
				memcpy(P->bytes + offsetof(struct qb_ipc_connection_request, hdr.size), &rq.hdr.size, 4);
				memcpy(P->bytes + offsetof(struct qb_ipc_connection_request, max_msg_size), &rq.max_msg_size, 4);
			} else {
				P->total = (int)vt_argi(&L, 3); rnd_state = (unsigned)vt_argi(&L, 4);
				for (int i = 0; i < MAXBYTES && (i < P->total || i < RS); i++) P->bytes[i] = rnd() & 0xff;
				/* domain restriction (DESIGN.md 4.0): a hostile max_msg_size is explored up to 64 MiB */
				uint32_t m;
				memcpy(&m, P->bytes + offsetof(struct qb_ipc_connection_request, max_msg_size), 4);
				m %= MAXMMS + 1;
				memcpy(P->bytes + offsetof(struct qb_ipc_connection_request, max_msg_size), &m, 4);
			}
			if (P->total > MAXBYTES) P->total = MAXBYTES;
			memcpy(&rq, P->bytes, sizeof(rq));
			int s = raw_connect();
			if (s >= 0) { P->sock = s; note_connect(p); }
			/* the fields as the server will decode them from the first RS bytes (mms split: TLC integers are 32-bit) */
			vt_ev("Connect"); vt_i(p); vt_i(0); vt_i(rq.hdr.id); vt_i(rq.hdr.size);
			vt_i(rq.max_msg_size > (uint32_t)CAP ? CAP : (long long)rq.max_msg_size); vt_i(P->total);
			vt_res(); vt_i(s >= 0 ? 0 : s); vt_end();
		} else if (!strcmp(op, "Write") && P) {
			int n = (int)vt_argi(&L, 2);
			if (n > P->total - P->sent) n = P->total - P->sent;
			long w = (P->sock >= 0) ? send(P->sock, P->bytes + P->sent, n, MSG_NOSIGNAL) : -1;
			if (w < 0) w = -errno;
			if (w > 0) P->sent += w;
			vt_ev("Write"); vt_i(p); vt_i(n); vt_res(); vt_i(w); vt_end();
		} else if (!strcmp(op, "WriteClose") && P) {    /* write, then leave at once: the server sees data and hang-up together */
			int n = (int)vt_argi(&L, 2);
			if (n > P->total - P->sent) n = P->total - P->sent;
			long w = (P->sock >= 0) ? send(P->sock, P->bytes + P->sent, n, MSG_NOSIGNAL) : -1;
			if (w < 0) w = -errno;
			if (w > 0) P->sent += w;
			vt_ev("Write"); vt_i(p); vt_i(n); vt_res(); vt_i(w); vt_end();
			peer_close(P, 0);
			vt_ev("Close"); vt_i(p); vt_i(0); vt_res(); vt_end();
		} else if (!strcmp(op, "HalfClose") && P) {
			if (P->sock >= 0) shutdown(P->sock, SHUT_WR);
			vt_ev("HalfClose"); vt_i(p); vt_res(); vt_end();
		} else if (!strcmp(op, "Resp") && P) {
			int kind = 0;
			while (P->sock >= 0 && P->resp_got < (int)sizeof(P->resp)) {
				long r = recv(P->sock, (char *)&P->resp + P->resp_got, sizeof(P->resp) - P->resp_got, MSG_DONTWAIT);
				if (r > 0) { P->resp_got += r; continue; }
				if (r == 0 || (r < 0 && errno != EAGAIN && errno != EWOULDBLOCK && errno != EINTR)) P->resp_eof = 1;
				break;
			}
			if (P->resp_got == (int)sizeof(P->resp)) kind = 2;
			else if (P->resp_eof) kind = 1;
			else if (P->resp_got > 0) kind = 3;
			vt_ev("Resp"); vt_i(p); vt_res(); vt_i(kind);
			if (kind == 2) { vt_i(P->resp.hdr.error); vt_i(P->resp.max_msg_size > (uint32_t)CAP ? CAP : (long long)P->resp.max_msg_size); vt_i(P->resp.connection_type); }
			else { vt_i(0); vt_i(0); vt_i(0); }
			vt_end();
		} else if (!strcmp(op, "Attach") && P) {
			int rc = -EINVAL;
			if (P->resp_got == (int)sizeof(P->resp) && P->resp.hdr.error == 0 && !P->cc) {
				struct qb_ipcc_connection *c = calloc(1, sizeof(*c));
				strlcpy(c->name, svcname, NAME_MAX);
				c->setup.u.us.sock = P->sock;
				c->setup.max_msg_size = c->request.max_msg_size = c->response.max_msg_size = c->event.max_msg_size = P->resp.max_msg_size;
				c->setup.type = c->request.type = c->response.type = c->event.type = P->resp.connection_type;
				c->request.u.us.sock = c->event.u.us.sock = -1;
				c->server_pid = getpid();
				c->egid = getegid();
				P->resp.request[PATH_MAX - 1] = P->resp.response[PATH_MAX - 1] = P->resp.event[PATH_MAX - 1] = 0;
				if (P->resp.connection_type == QB_IPC_SHM) rc = qb_ipcc_shm_connect(c, &P->resp);
				else if (P->resp.connection_type == QB_IPC_SOCKET) rc = qb_ipcc_us_connect(c, &P->resp);
				if (rc == 0) P->cc = c; else free(c);
			}
			vt_ev("Attach"); vt_i(p); vt_res(); vt_i(rc); vt_end();
		} else if (!strcmp(op, "Send") && P) {
			int seq = (int)vt_argi(&L, 2); long long actual = vt_argi(&L, 3);
			int32_t id = (int32_t)vt_argi(&L, 4), hsz = (int32_t)vt_argi(&L, 5);
			int note = (int)vt_argi(&L, 6), pat = (int)vt_argi(&L, 7);
			long rc = -ENOTCONN;
			if (actual > (long long)SENDMAX) actual = SENDMAX;
			if (P->cc) {
				/* payload: position- and request-dependent bytes (pat 1: every word looks like a small truthful header) */
				for (long long i = 0; i < actual; i++)
					sendbuf[i] = pat == 1 ? ((i % 8) == 0 ? 16 : 0) : (unsigned char)((i * 131 + seq * 29 + 7) ^ (i >> 8));
				unsigned char hdr[16];
				for (int i = 0; i < 16; i++) hdr[i] = (unsigned char)(0xA0 + seq + i);
				memcpy(hdr + offsetof(struct qb_ipc_request_header, id), &id, 4);
				memcpy(hdr + offsetof(struct qb_ipc_request_header, size), &hsz, 4);
				memcpy(sendbuf, hdr, actual < 16 ? actual : 16);
				if (P->cc->request.type == QB_IPC_SHM) {
					rc = qb_rb_chunk_write(P->cc->request.u.shm.rb, sendbuf, actual);
					if (rc >= 0 && note > 0) { char nb[64]; memset(nb, 1, sizeof(nb)); send(P->sock, nb, note > 64 ? 64 : note, MSG_NOSIGNAL); }
				} else {
					rc = send(P->cc->request.u.us.sock, sendbuf, actual, MSG_NOSIGNAL);
					if (rc < 0) rc = -errno;
					if (rc >= 0 && note > 0) {
						struct us_control *ctl = P->cc->request.u.us.shared_data;
						for (int k = 0; k < note; k++) qb_atomic_int_inc(&ctl->sent);
					}
				}
				if (rc >= 0) { infl_buf = sendbuf; infl_len = actual; infl_peer = p; }
			}
			vt_ev("Send"); vt_i(p); vt_i(seq); vt_i(actual); vt_i(id); vt_i(hsz); vt_i(note); vt_res(); vt_i(rc); vt_end();
		} else if (!strcmp(op, "RewriteNext") && P) {
			/* arms the rewrite of the length word of this peer's next request while msg_process runs on it (no event of
			 * its own: the Rewrite event is recorded when it happens) */
			rw_armed = 1; rw_peer = p; rw_value = (uint32_t)vt_argi(&L, 2); rw_fill = L.n > 3 ? (int)vt_argi(&L, 3) : 0;
			continue;
		} else if (!strcmp(op, "Kick") && P) {
			int n = (int)vt_argi(&L, 2);
			if (P->cc && n > 0) {
				if (P->cc->request.type == QB_IPC_SHM) { char nb[64]; memset(nb, 1, sizeof(nb)); send(P->sock, nb, n > 64 ? 64 : n, MSG_NOSIGNAL); }
				else { struct us_control *ctl = P->cc->request.u.us.shared_data; for (int k = 0; k < n; k++) qb_atomic_int_inc(&ctl->sent); }
			}
			vt_ev("Kick"); vt_i(p); vt_i(n); vt_res(); vt_end();
		} else if (!strcmp(op, "Close") && P) {
			int how = (int)vt_argi(&L, 2);
			peer_close(P, how);
			if (infl_peer == p) infl_len = -1;
			vt_ev("Close"); vt_i(p); vt_i(how); vt_res(); vt_end();
		} else if (!strcmp(op, "GConnect") && P) {
			memset(P, 0, sizeof(*P)); P->used = 1; P->good = 1; P->sock = -1;
			int cfd = -1; long mms = vt_argi(&L, 2);
			P->gc = qb_ipcc_connect_async(svcname, mms, &cfd);
			if (P->gc) note_connect(p);
			long eff = QB_MAX(mms, (long)sizeof(struct qb_ipc_connection_response));   /* what qb_ipcc_connect_async asks for */
			vt_ev("Connect"); vt_i(p); vt_i(1); vt_i(QB_IPC_MSG_AUTHENTICATE); vt_i(RS); vt_i(eff); vt_i(RS); vt_res(); vt_i(P->gc ? 0 : -errno); vt_end();
			if (P->gc) { vt_ev("Write"); vt_i(p); vt_i(RS); vt_res(); vt_i(RS); vt_end(); }
			step_server();
			int rc = P->gc ? qb_ipcc_connect_continue(P->gc) : -ENOTCONN;
			if (rc != 0) P->gc = NULL;
			vt_ev("GCont"); vt_i(p); vt_res(); vt_i(rc); vt_i(P->gc ? (long long)P->gc->request.max_msg_size : 0); vt_end();
		} else if (!strcmp(op, "GSend") && P) {
			long len = vt_argi(&L, 2);
			if (len < 16) len = 16;
			for (long i = 0; i < len; i++) sendbuf[i] = (unsigned char)(i * 7 + 3);
			struct qb_ipc_request_header h; memset(&h, 0, sizeof(h)); h.id = 5; h.size = (int32_t)len;
			memcpy(sendbuf, &h, sizeof(h));
			long rc = P->gc ? qb_ipcc_send(P->gc, sendbuf, len) : -ENOTCONN;
			if (rc >= 0) { infl_buf = sendbuf; infl_len = len; infl_peer = p; }
			vt_ev("Send"); vt_i(p); vt_i(0); vt_i(len); vt_i(5); vt_i(len); vt_i(1); vt_res(); vt_i(rc); vt_end();
		} else if (!strcmp(op, "GRecv") && P) {
			char rbuf[256];
			long rc = P->gc ? qb_ipcc_recv(P->gc, rbuf, sizeof(rbuf), 0) : -ENOTCONN;
			vt_ev("GRecv"); vt_i(p); vt_res(); vt_i(rc); vt_end();
		} else if (!strcmp(op, "GClose") && P) {
			if (P->gc) { qb_ipcc_disconnect(P->gc); P->gc = NULL; }
			if (infl_peer == p) infl_len = -1;
			vt_ev("Close"); vt_i(p); vt_i(1); vt_res(); vt_end();
		} else if (!strcmp(op, "Census")) {
			step_server();
			ev_census("Census", 0, 0, 0);
			continue;
		} else {
			fprintf(stderr, "h_ipc_raw: bad line: %s\n", lines[li]);
			exit(2);
		}
		step_server();
	}
}

/* warm-up, so that one-time allocations are part of the baseline: a refused garbage handshake and a
 * complete round trip of a well-behaved client; its callbacks are not part of the record */
static void warm_up(void)
{
	FILE *keep = vt_out;
	vt_out = fopen("/dev/null", "w");
	int s = raw_connect(); note_connect(0);
	if (s >= 0) {   /* wrong id, sane max_msg_size (so that a server that wrongly admits it does not allocate gigabytes) */
		struct qb_ipc_connection_request junk;
		memset(&junk, 0, sizeof(junk));
		junk.hdr.id = 0x55; junk.hdr.size = sizeof(junk); junk.max_msg_size = 8192;
		send(s, &junk, sizeof(junk), MSG_NOSIGNAL); step_server(); close(s); step_server();
	}
	int cfd = -1;
	qb_ipcc_connection_t *g = qb_ipcc_connect_async(svcname, 8192, &cfd); note_connect(0);
	if (!g) { fprintf(stderr, "warm-up connect failed\n"); exit(3); }
	step_server();
	if (qb_ipcc_connect_continue(g) != 0) { fprintf(stderr, "warm-up connect_continue failed\n"); exit(3); }
	struct qb_ipc_request_header h; memset(&h, 0, sizeof(h)); h.id = 5; h.size = sizeof(h);
	qb_ipcc_send(g, &h, sizeof(h)); step_server();
	char rbuf[64]; qb_ipcc_recv(g, rbuf, sizeof(rbuf), 0);
	qb_ipcc_disconnect(g); step_server();
	fclose(vt_out);
	vt_out = keep;
}

static void child_main(char **lines, int nlines)
{
	int tr = 0; unsigned enf = 0;
	alarm(15);      /* a history takes milliseconds; a library call that does not return ends it (Exit by signal 14) */
	if (nlines < 1 || sscanf(lines[0], "Up %d %u", &tr, &enf) < 1) { fprintf(stderr, "history does not start with Up\n"); exit(2); }
	sendbuf = malloc(SENDMAX);
	server_up(tr, enf);
	warm_up();
	ev_census("Up", tr, (int)enf, 2);
	run_history(lines + 1, nlines - 1);
	vt_flush();
}

static volatile pid_t cur_child;
static void on_term(int sig)
{
	/* the driver's timeout: take the running child down and remove what its server left in /dev/shm */
	if (cur_child > 0) { kill(cur_child, SIGKILL); waitpid(cur_child, NULL, 0); rm_shm_of(cur_child); }
	_exit(124);
}

int main(int argc, char **argv)
{
	if (argc < 3) return 2;
	int nofork = argc > 3 && !strcmp(argv[3], "--nofork");
	FILE *f = fopen(argv[1], "r");
	if (!f) { perror(argv[1]); return 2; }
	vt_open(argv[2]);
	static char obuf[1 << 16];
	setvbuf(vt_out, obuf, _IOLBF, sizeof(obuf));    /* no heap allocation by the event writer after the baseline census */
	signal(SIGPIPE, SIG_IGN);
	signal(SIGTERM, on_term); signal(SIGINT, on_term);
	static char *lines[4096];
	char raw[4096];
	int n = 0, eof = 0, first = 1, abnormal = 0;
	while (!eof) {
		n = 0;
		for (;;) {
			if (!fgets(raw, sizeof(raw), f)) { eof = 1; break; }
			if (!strncmp(raw, "Reset", 5)) break;
			if (raw[0] == '\n' || raw[0] == '#') continue;
			if (n < 4096) lines[n++] = strdup(raw);
		}
		if (n == 0 && eof) break;
		if (!first) vt_simple("Reset");
		first = 0;
		vt_flush();
		if (nofork) { child_main(lines, n); vt_ev("Exit"); vt_res(); vt_i(0); vt_i(0); vt_end(); for (int i = 0; i < n; i++) free(lines[i]); return 0; }
		pid_t pid = fork();
		if (pid < 0) { perror("fork"); return 2; }
		if (pid == 0) {
			signal(SIGTERM, SIG_DFL); signal(SIGINT, SIG_DFL);
			prctl(PR_SET_PDEATHSIG, SIGKILL);
			child_main(lines, n); fflush(NULL); _exit(0);
		}
		cur_child = pid;
		int st = 0;
		while (waitpid(pid, &st, 0) < 0 && errno == EINTR) ;
		cur_child = 0;
		rm_shm_of(pid);
		int kind = WIFEXITED(st) ? 0 : 1, code = WIFEXITED(st) ? WEXITSTATUS(st) : WTERMSIG(st);
		vt_ev("Exit"); vt_res(); vt_i(kind); vt_i(code); vt_end();
		for (int i = 0; i < n; i++) free(lines[i]);
		/* histories that end by a signal (watchdog, crash) are rejected anyway: after three of them the rest of this
		 * file is left to the driver's next round instead of waiting for the watchdog thousands of times */
		if (kind == 1 && ++abnormal >= 3) break;
	}
	vt_close();
	return 0;
}
