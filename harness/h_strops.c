/* h_strops: calls the library's strlcpy / strlcat on a guarded buffer and records arguments, the buffer afterwards and
 * the return value (ndjson) for StrOpsTrace.tla.  usage: h_strops <schedule> <trace-out>
 * schedule lines: Cpy|Cat <n> <src bytes as digits, '-' = empty> <initial buffer bytes as digits (0 = NUL)>
 * (byte value d is stored as 'a'-1+d so that every non-zero value is printable; 0 is NUL)                         */
#include "os_base.h"
#include "vtrace.h"

size_t strlcpy(char *dest, const char *src, size_t maxlen);
size_t strlcat(char *dest, const char *src, size_t maxlen);

static char enc(char d) { return d == '0' ? 0 : (char)('a' - 1 + (d - '0')); }
static int dec(char c) { return c == 0 ? 0 : c - ('a' - 1); }

int main(int argc, char **argv)
{
	if (argc < 3) return 2;
	FILE *f = fopen(argv[1], "r");
	if (!f) { perror(argv[1]); return 2; }
	vt_open(argv[2]);
	struct vt_line L;
	while (vt_readline(f, &L)) {
		if (L.n && !strcmp(L.tok[0], "Reset")) { vt_simple("Reset"); continue; }
		if (L.n < 4) continue;
		const char *op = L.tok[0];
		size_t n = (size_t)atoi(L.tok[1]);
		const char *s = strcmp(L.tok[2], "-") ? L.tok[2] : "";
		const char *b = L.tok[3];
		size_t cap = strlen(b), sl = strlen(s);
		char *buf = malloc(cap);          /* exactly cap bytes: ASan sees any byte written past it */
		char *src = malloc(sl + 1);
		for (size_t i = 0; i < cap; i++) buf[i] = enc(b[i]);
		for (size_t i = 0; i < sl; i++) src[i] = enc(s[i]);
		src[sl] = 0;
		vt_ev(op);
		vt_lb(); for (size_t i = 0; i < cap; i++) vt_i(dec(buf[i])); vt_le();
		vt_lb(); for (size_t i = 0; i < sl; i++) vt_i(dec(src[i])); vt_le();
		vt_i((long long)n);
		size_t r = !strcmp(op, "Cpy") ? strlcpy(buf, src, n) : strlcat(buf, src, n);
		vt_res();
		vt_lb(); for (size_t i = 0; i < cap; i++) vt_i(dec(buf[i])); vt_le();
		vt_i((long long)r);
		vt_end();
		free(buf); free(src);
	}
	vt_close();
	return 0;
}
