/* h_logthread: threaded logging (lib/log_thread.c) under a deterministic scheduler -- property C16.
 *
 * usage: h_logthread <schedule> <trace-out>
 *
 * Every history (histories are separated by `Reset`) runs in a forked child, so the statics of
 * lib/log_thread.c start pristine, as LogThread.tla's Init says.
 *
 * CONTROLLED histories (default).  Lines:
 *     Backlog <n>            scale the 512000-byte backlog limit to n records (see below)
 *     A <Call> [arg]         grant the application thread one step that begins the call
 *                            (Init | SetThreaded v | Enable v | Conf | Close | Start | Log m | Fini)
 *     A                      grant the application thread one step inside its current call
 *     A! <Call> [arg]        begin the call and keep granting the application thread until it returned
 *                            (directed scenarios that must not depend on how many steps a call has)
 *     W                      grant the logging thread one step
 * The real logging thread and one application thread run the real code, but each blocks at every
 * hook point (QB_VP_LOGT_* via qb_verif_hook_fn, plus one point inside this harness's target logger)
 * until the scheduler grants it the next step; exactly one thread runs at a time.  One event per step:
 *   {"e":"Step","a":[tid,from,op,arg],"r":[to,ha,hb,lk,sem,mem,qlen,wrote,lostrep,closefn,rc,[via..],held]}
 *   tid 1 = application, 2 = logging thread; from/to = hook point ids (0 = between calls, 499 = thread
 *   terminated); ha/hb = the arrival hook's integer arguments; lk = small id of the lock object named by
 *   the arrival hook (0 = NULL, -1 = none); sem/mem/qlen = semaphore value, logt_memory_used in records,
 *   queue length, read through the pointers the hooks carry (-1 = not observable); wrote = sequence
 *   number the target's logger was called with in this step; lostrep = N of an "N messages lost" report
 *   in this step; closefn = calls of the target's close function; rc = result of the call that returned;
 *   via = non-yielding hook points passed; held = 1/0 whether the lock the logging thread was created with
 *   is held after the step (tried by the scheduler while every thread is parked; -1 = no such lock).
 * A thread that does not reach its next hook point within the watchdog time gives {"e":"Blocked",..},
 * a grant for a thread that is not waiting gives {"e":"Diverged",..}; neither is a step of the
 * specification, so the history is rejected, never hung.
 * Backlog scaling: all messages have the same size; when the first record is accounted the harness adds
 * 512000 - n*recordsize to logt_memory_used through the pointer the P_LOCKED hook carries, so the real
 * comparison against 512000 trips after n queued records.  `mem` is reported net of that offset.
 *
 * FREE-RUNNING histories (first line `Free`): no scheduler; the main thread is the producer/controller
 * and the logging thread runs freely, except that `Hold` keeps it from starting its next sem_wait
 * (where it holds no lock) until `Release`, and `Slow <us>` delays it there, so that a backlog can
 * build up to the real 512000-byte limit.  Lines: the calls above without the thread id, and
 * Burst <n> <len> <gap_us> | Hold | Release | Slow <us> | Sleep <us> | Second (open a second threaded target,
 * whose writes are recorded as Write2).
 * Call-level events, serialised by a mutex: Inv [op,arg,size] before a call, Ret [op] [rc] after it,
 * Write [m] from the target's logger, Lost [n] for an "n messages lost" report; Hung if the history does not
 * end within the watchdog time (e.g. a qb_log_fini that never returns).
 */
#include "os_base.h"
#include <pthread.h>
#include <semaphore.h>
#include <sys/wait.h>
#include <sys/syscall.h>
#include <fcntl.h>
#include <signal.h>
#include <dirent.h>
#include <qb/qbdefs.h>
#include <qb/qblist.h>
#include <qb/qblog.h>
#include "log_int.h"
#include "verif_hook.h"
#include "vtrace.h"

#define VP_IDLE 0
#define VP_INLOGGER 490
#define VP_TERMINATED 499
#define WATCHDOG_MS 4000

enum { OP_NONE, OP_INIT, OP_SETTHREADED, OP_ENABLE, OP_CONF, OP_CLOSE, OP_START, OP_LOG, OP_FINI, OP_SECOND, OP_QUIT = 99 };
static const char *opnames[] = { "", "Init", "SetThreaded", "Enable", "Conf", "Close", "Start", "Log", "Fini", "Second" };

static int opcode(const char *s)
{
	for (int i = 1; i <= OP_SECOND; i++) if (!strcmp(s, opnames[i])) return i;
	return -1;
}

/* ------------------------------------------------------------------ the real API calls */
static int32_t target = -1;
static int conf_toggle;
static int free_mode;
static int msg_len = 24;		/* controlled mode: every message has this length */

static void emit_lock(void);
static void emit_unlock(void);
static void hook(int point, const void *obj, long a, long b);

/* per-step observations (controlled mode) */
static struct { long wrote, lostrep, closefn; int via[8]; int nvia; } step;

/* free mode: gate and delay inside the logger */
static pthread_mutex_t gate_mx = PTHREAD_MUTEX_INITIALIZER;
static pthread_cond_t gate_cv = PTHREAD_COND_INITIALIZER;
static int gate_closed;
static long slow_us;

static void t_logger(int32_t t, struct qb_log_callsite *cs, struct timespec *ts, const char *msg)
{
	long seq = (msg && msg[0] == 'm') ? atol(msg + 1) : -1;
	if (free_mode) {
		emit_lock();
		vt_ev("Write"); vt_i(seq); vt_res(); vt_end();
		emit_unlock();
		return;
	}
	hook(VP_INLOGGER, NULL, seq, 0);	/* the thread is now inside the target's logger */
	step.wrote = seq;
}

/* free mode, `Second`: a second custom target selected by the same call sites, threaded and enabled from the
 * moment it is opened and never reconfigured: every message must reach it exactly once as well ("Write2") */
static int32_t target2 = -1;
static void t_logger2(int32_t t, struct qb_log_callsite *cs, struct timespec *ts, const char *msg)
{
	long seq = (msg && msg[0] == 'm') ? atol(msg + 1) : -1;
	emit_lock();
	vt_ev("Write2"); vt_i(seq); vt_res(); vt_end();
	emit_unlock();
}

static void t_close(int32_t t)
{
	if (free_mode) {
		/* the target's close function ran: from here on its logger must not be called any more.  It takes its time,
		 * as closing a file or a socket does, so a logging thread that was busy is by now waiting to go on. */
		emit_lock();
		vt_ev("CloseCb"); vt_res(); vt_end();
		emit_unlock();
		usleep(3000);
		return;
	}
	step.closefn++;
}

static long do_call(int op, long arg)
{
	switch (op) {
	case OP_INIT:
		qb_log_init("h_logthread", LOG_USER, LOG_EMERG);
		(void)qb_log_ctl(QB_LOG_SYSLOG, QB_LOG_CONF_ENABLED, QB_FALSE);
		target = qb_log_custom_open(t_logger, t_close, NULL, NULL);
		if (target < 0) return target;
		if (qb_log_filter_ctl(target, QB_LOG_FILTER_ADD, QB_LOG_FILTER_FILE, "h_logthread_src", LOG_TRACE) != 0) return -1;
		qb_log_format_set(target, "%b");
		return 0;
	case OP_SETTHREADED:
		return qb_log_ctl(target, QB_LOG_CONF_THREADED, arg ? QB_TRUE : QB_FALSE);
	case OP_ENABLE:
		return qb_log_ctl(target, QB_LOG_CONF_ENABLED, arg ? QB_TRUE : QB_FALSE);
	case OP_CONF:
		conf_toggle = !conf_toggle;
		return qb_log_ctl(target, QB_LOG_CONF_EXTENDED, conf_toggle);
	case OP_CLOSE:
		qb_log_custom_close(target);
		return 0;
	case OP_START:
		return qb_log_thread_start();
	case OP_LOG: {
		char text[QB_LOG_ABSOLUTE_MAX_LEN + 1];
		int len = msg_len;
		if (len < 8) len = 8;
		if (len > QB_LOG_MAX_LEN - 2) len = QB_LOG_MAX_LEN - 2;
		memset(text, '.', len);
		text[len] = 0;
		int n = snprintf(text, len, "m%ld", arg);
		text[n] = ' ';
		qb_log_from_external_source("h_logthread_fn", "h_logthread_src", "%s", LOG_INFO, 100, 0, text);
		return 0;
	}
	case OP_FINI:
		qb_log_fini();
		return 0;
	case OP_SECOND:
		target2 = qb_log_custom_open(t_logger2, NULL, NULL, NULL);
		if (target2 < 0) return target2;
		if (qb_log_filter_ctl(target2, QB_LOG_FILTER_ADD, QB_LOG_FILTER_FILE, "h_logthread_src", LOG_TRACE) != 0) return -1;
		qb_log_format_set(target2, "%b");
		if (qb_log_ctl(target2, QB_LOG_CONF_THREADED, QB_TRUE) != 0) return -2;
		return qb_log_ctl(target2, QB_LOG_CONF_ENABLED, QB_TRUE);
	}
	return -99;
}

/* ------------------------------------------------------------------ "N messages lost" on stdout */
static char so_buf[256];
static size_t so_len;
static ssize_t so_write(void *c, const char *buf, size_t n)
{
	for (size_t i = 0; i < n; i++) {
		if (buf[i] == '\n') {
			so_buf[so_len] = 0;
			long v = 0;
			if (sscanf(so_buf, "%ld messages lost", &v) == 1) {
				if (free_mode) {
					emit_lock();
					vt_ev("Lost"); vt_i(v); vt_res(); vt_end();
					emit_unlock();
				} else {
					step.lostrep += v;
				}
			}
			so_len = 0;
		} else if (so_len < sizeof(so_buf) - 1) {
			so_buf[so_len++] = buf[i];
		}
	}
	return n;
}
static void capture_stdout(void)
{
	cookie_io_functions_t io = { NULL, so_write, NULL, NULL };
	FILE *f = fopencookie(NULL, "w", io);
	if (!f) exit(2);
	setvbuf(f, NULL, _IOLBF, 0);
	stdout = f;
}

/* ------------------------------------------------------------------ controlled mode */
enum { ST_NONE, ST_RUNNING, ST_PARKED, ST_TERMINATED };
struct thr {
	sem_t go;
	volatile int status;
	volatile int point;
	volatile long a, b;
	const void *volatile obj;
	pthread_t id;
	volatile int op;
	volatile long arg, rc;
};
static struct thr T[3];
static sem_t evsem;
static pthread_key_t wkey;
static volatile int worker_known;
static pthread_t worker_id;

/* what the hooks let us see */
static sem_t *volatile semp;
static int *volatile memp;
static struct qb_list_head *volatile listp;
static volatile int thread_live;	/* semaphore initialised and not yet destroyed */
static long backlog;			/* 0 = real limit */
static long bias, recsize;
static int biased;
static volatile int threads_created, threads_met;
static qb_thread_lock_t *volatile wlockp;	/* the lock the logging thread was created with (T_CREATED hook) */
static const void *locks[16];
static int nlocks;

static int is_lock_point(int p)
{
	switch (p) {
	case QB_VP_LOGT_W_LOCKED: case QB_VP_LOGT_W_EXIT: case QB_VP_LOGT_W_UNLOCK:
	case QB_VP_LOGT_P_LOCK: case QB_VP_LOGT_P_UNLOCK: case QB_VP_LOGT_P_UNLOCK_DROP:
	case QB_VP_LOGT_C_PAUSE: case QB_VP_LOGT_C_PAUSED: case QB_VP_LOGT_C_RESUME:
	case QB_VP_LOGT_S_LOCK: case QB_VP_LOGT_S_LOCKED: case QB_VP_LOGT_S_UNLOCK:
		return 1;
	}
	return 0;
}
static int lock_id(const void *p)
{
	if (!p) return 0;
	for (int i = 0; i < nlocks; i++) if (locks[i] == p) return i + 1;
	if (nlocks < 16) locks[nlocks++] = p;
	return nlocks;
}

static void park(int t, int point, const void *obj, long a, long b)
{
	T[t].point = point; T[t].obj = obj; T[t].a = a; T[t].b = b;
	__sync_synchronize();
	T[t].status = ST_PARKED;
	sem_post(&evsem);
	while (sem_wait(&T[t].go) == -1 && errno == EINTR) ;
}

static void worker_gone(void *v)
{
	T[2].point = VP_TERMINATED; T[2].obj = NULL; T[2].a = T[2].b = 0;
	worker_known = 0;
	__sync_synchronize();
	T[2].status = ST_TERMINATED;
	sem_post(&evsem);
}

static void hook(int point, const void *obj, long a, long b)
{
	int t;
	if (point != VP_INLOGGER && (point < QB_VP_LOGT_W_WAIT || point > QB_VP_LOGT_T_CREATED)) return;
	if (pthread_equal(pthread_self(), T[1].id)) {
		t = 1;
	} else {
		t = 2;
		if (!worker_known) {
			worker_known = 1;
			worker_id = pthread_self();
			pthread_setspecific(wkey, (void *)1);
		}
	}
	switch (point) {
	case QB_VP_LOGT_W_WAIT: case QB_VP_LOGT_W_WOKEN: case QB_VP_LOGT_P_POST: case QB_VP_LOGT_S_POST:
		semp = (sem_t *)obj; thread_live = 1; break;
	case QB_VP_LOGT_P_LOCKED:
		memp = (int *)obj; recsize = a;
		if (backlog > 0 && !biased) {	/* scale the limit: n records of this size fill it exactly */
			bias = 512000 - backlog * recsize;
			*memp += (int)bias;
			biased = 1;
		}
		break;
	case QB_VP_LOGT_P_DROP: case QB_VP_LOGT_W_WRITE:
		memp = (int *)obj; break;
	case QB_VP_LOGT_P_APPEND: case QB_VP_LOGT_W_DEQUEUE:
		listp = (struct qb_list_head *)obj; break;
	case QB_VP_LOGT_S_JOINED:
		thread_live = 0;
		wlockp = NULL;
		T[2].status = ST_NONE;		/* the old logging thread is gone for good; a later one starts from scratch */
		break;
	}
	if (point == QB_VP_LOGT_T_CREATED) { threads_created++; wlockp = (qb_thread_lock_t *)obj; }	/* the scheduler waits for the new thread to reach its first hook */
	if (point == QB_VP_LOGT_P_POSTED || point == QB_VP_LOGT_S_POSTED || point == QB_VP_LOGT_S_JOINED || point == QB_VP_LOGT_T_CREATED) {
		if (step.nvia < 8) step.via[step.nvia++] = point;
		return;
	}
	park(t, point, obj, a, b);
}

static void *app_thread(void *v)
{
	long rc = 0;
	for (;;) {
		T[1].rc = rc;
		park(1, VP_IDLE, NULL, 0, 0);
		if (T[1].op == OP_QUIT) return NULL;
		rc = do_call(T[1].op, T[1].arg);
	}
}

static void emit_step(int tid, int from, int op, long arg)
{
	struct thr *t = &T[tid];
	int to = t->point;
	long sem = -1, mem = -1, qlen = -1;
	int lk = -1;
	if (semp && thread_live) { int v = -1; if (sem_getvalue(semp, &v) == 0) sem = v; }
	if (memp && recsize > 0) {
		long raw = (long)*memp - bias;
		mem = (raw % recsize == 0 && raw >= 0) ? raw / recsize : -2;
	}
	if (listp) {
		qlen = 0;
		for (struct qb_list_head *p = listp->next; p != listp && qlen < 100000; p = p->next) qlen++;
	}
	if (is_lock_point(to)) lk = lock_id(t->obj);
	/* is the logging thread's lock really held now?  (every thread is parked, so trying it disturbs nothing) */
	long held = -1;
	if (wlockp && thread_live) {
		if (qb_thread_trylock(wlockp) == 0) { held = 0; (void)qb_thread_unlock(wlockp); } else held = 1;
	}
	vt_ev("Step"); vt_i(tid); vt_i(from); vt_i(op); vt_i(arg);
	vt_res(); vt_i(to); vt_i(t->a); vt_i(t->b); vt_i(lk); vt_i(sem); vt_i(mem); vt_i(qlen);
	vt_i(step.wrote); vt_i(step.lostrep); vt_i(step.closefn); vt_i(to == VP_IDLE ? t->rc : 0);
	vt_lb(); for (int i = 0; i < step.nvia; i++) vt_i(step.via[i]); vt_le();
	vt_i(held);
	vt_end();
}

/* are all threads of this process other than the scheduler asleep (blocked in sem_wait / pthread_join / a
 * futex)?  Then nobody is left to wake the thread the scheduler waits for. */
static int all_others_sleeping(void)
{
	int self = (int)syscall(SYS_gettid);
	DIR *d = opendir("/proc/self/task");
	if (!d) return 0;
	struct dirent *e;
	int all = 1;
	while (all && (e = readdir(d)) != NULL) {
		int ktid = atoi(e->d_name);
		if (ktid <= 0 || ktid == self) continue;
		char path[64], buf[512];
		snprintf(path, sizeof(path), "/proc/self/task/%d/stat", ktid);
		int fd = open(path, O_RDONLY);
		if (fd < 0) continue;		/* gone meanwhile */
		ssize_t n = read(fd, buf, sizeof(buf) - 1);
		close(fd);
		if (n <= 0) continue;
		buf[n] = 0;
		char *p = strrchr(buf, ')');
		if (!(p && p[1] == ' ' && p[2] == 'S')) all = 0;
	}
	closedir(d);
	return all;
}

/* wait until thread tid has parked or terminated; 0 = ok, -1 = it does not get there.
 * The watchdog is WATCHDOG_MS; when every thread but the scheduler is seen asleep in SLEEP_POLLS consecutive
 * polls of POLL_MS nobody is left to wake the awaited thread, so the verdict comes much sooner. */
#define POLL_MS 10
#define SLEEP_POLLS 6
static int await(int tid)
{
	int asleep = 0;
	for (int waited = 0; waited < WATCHDOG_MS; waited += POLL_MS) {
		__sync_synchronize();
		if (T[tid].status == ST_PARKED || T[tid].status == ST_TERMINATED) return 0;
		struct timespec dl;
		clock_gettime(CLOCK_REALTIME, &dl);
		dl.tv_nsec += POLL_MS * 1000000L;
		if (dl.tv_nsec >= 1000000000L) { dl.tv_sec++; dl.tv_nsec -= 1000000000L; }
		if (sem_timedwait(&evsem, &dl) == 0 || errno == EINTR) { asleep = 0; continue; }
		__sync_synchronize();
		if (T[tid].status == ST_PARKED || T[tid].status == ST_TERMINATED) return 0;
		asleep = all_others_sleeping() ? asleep + 1 : 0;
		if (asleep >= SLEEP_POLLS) return -1;
	}
	__sync_synchronize();
	return (T[tid].status == ST_PARKED || T[tid].status == ST_TERMINATED) ? 0 : -1;
}

/* qb_log_thread_start created a logging thread in this step: let it run up to its first hook point, so that
 * the step ends with every thread parked again (qb_log_thread_start itself only waits for the start signal,
 * which the new thread gives before that point) */
static int meet_new_thread(void)
{
	while (threads_met < threads_created) {
		threads_met++;
		if (await(2) != 0) return -1;
	}
	return 0;
}

static void finish_child(int code)
{
	vt_flush();
	fflush(NULL);
	_exit(code);
}

static int run_controlled(char **lines, int n)
{
	sem_init(&evsem, 0, 0);
	sem_init(&T[1].go, 0, 0);
	sem_init(&T[2].go, 0, 0);
	pthread_key_create(&wkey, worker_gone);
	qb_verif_hook_fn = hook;
	T[1].status = ST_RUNNING;
	T[2].status = ST_NONE;
	if (pthread_create(&T[1].id, NULL, app_thread, NULL) != 0) return 2;
	/* pthread_create stores the id before the new thread can reach a hook only if we wait: */
	if (await(1) != 0) return 2;
	for (int i = 0; i < n; i++) {
		struct vt_line L;
		strncpy(L.raw, lines[i], sizeof(L.raw) - 1); L.raw[sizeof(L.raw) - 1] = 0;
		L.n = 0;
		char *save = NULL;
		for (char *t = strtok_r(L.raw, " \t\r\n", &save); t && L.n < VT_MAXTOK; t = strtok_r(NULL, " \t\r\n", &save)) L.tok[L.n++] = t;
		if (L.n == 0) continue;
		if (!strcmp(L.tok[0], "Backlog")) { backlog = vt_argi(&L, 1); continue; }
		if (!strcmp(L.tok[0], "MsgLen")) { msg_len = (int)vt_argi(&L, 1); continue; }
		int whole = !strcmp(L.tok[0], "A!");	/* begin the call and keep granting A until it has returned */
		int tid = (whole || !strcmp(L.tok[0], "A")) ? 1 : !strcmp(L.tok[0], "W") ? 2 : 0;
		if (!tid) { fprintf(stderr, "h_logthread: bad line '%s'\n", lines[i]); return 2; }
		int op = OP_NONE; long arg = 0;
		if (L.n > 1) { op = opcode(L.tok[1]); arg = vt_argi(&L, 2); if (op < 0) { fprintf(stderr, "h_logthread: bad call '%s'\n", lines[i]); return 2; } }
		struct thr *t = &T[tid];
		__sync_synchronize();
		/* a thread that is still on its way to its next hook point (the new logging thread right after
		 * qb_log_thread_start returned) is waited for; one that never gets there has diverged */
		if (t->status == ST_RUNNING || (tid == 2 && t->status == ST_NONE)) (void)await(tid);
		int idle = (t->status == ST_PARKED && t->point == VP_IDLE);
		if (t->status != ST_PARKED || (tid == 1 && (idle != (op != OP_NONE))) || (tid == 2 && op != OP_NONE)) {
			/* the schedule asks for a step the real thread is not in a position to take */
			vt_ev("Diverged"); vt_i(tid); vt_i(t->status == ST_PARKED ? t->point : (t->status == ST_TERMINATED ? VP_TERMINATED : -1)); vt_i(op);
			vt_res(); vt_end();
			finish_child(0);
		}
		int from = t->point;
		memset(&step, 0, sizeof(step));
		t->op = op; t->arg = arg;
		__sync_synchronize();
		t->status = ST_RUNNING;
		sem_post(&t->go);
		if (await(tid) != 0 || meet_new_thread() != 0) {
			vt_ev("Blocked"); vt_i(tid); vt_i(from); vt_i(op); vt_res(); vt_end();
			finish_child(0);
		}
		emit_step(tid, from, op, arg);
		for (int k = 0; whole && k < 64 && t->status == ST_PARKED && t->point != VP_IDLE; k++) {
			from = t->point;
			memset(&step, 0, sizeof(step));
			t->op = OP_NONE; t->arg = 0;
			__sync_synchronize();
			t->status = ST_RUNNING;
			sem_post(&t->go);
			if (await(tid) != 0 || meet_new_thread() != 0) {
				vt_ev("Blocked"); vt_i(tid); vt_i(from); vt_i(0); vt_res(); vt_end();
				finish_child(0);
			}
			emit_step(tid, from, 0, 0);
		}
	}
	finish_child(0);	/* threads may still be parked: the process ends here */
	return 0;
}

/* ------------------------------------------------------------------ free-running mode */
static pthread_mutex_t emit_mx = PTHREAD_MUTEX_INITIALIZER;
static void emit_lock(void) { pthread_mutex_lock(&emit_mx); }
static void emit_unlock(void) { pthread_mutex_unlock(&emit_mx); }

static void gate(int closed)
{
	pthread_mutex_lock(&gate_mx);
	gate_closed = closed;
	pthread_cond_broadcast(&gate_cv);
	pthread_mutex_unlock(&gate_mx);
}

static void free_call(int op, long arg, long size)
{
	emit_lock(); vt_ev("Inv"); vt_i(op); vt_i(arg); vt_i(size); vt_res(); vt_end(); emit_unlock();
	long rc = do_call(op, arg);
	emit_lock(); vt_ev("Ret"); vt_i(op); vt_res(); vt_i(rc); vt_end(); emit_unlock();
}

/* free mode: the only use of the hooks is to hold the logging thread back where the OS might as well
 * have descheduled it -- before sem_wait, holding no lock -- so that a backlog can build up */
static void free_hook(int point, const void *obj, long a, long b)
{
	if (point != QB_VP_LOGT_W_WAIT) return;
	pthread_mutex_lock(&gate_mx);
	while (gate_closed) pthread_cond_wait(&gate_cv, &gate_mx);
	long us = slow_us;
	pthread_mutex_unlock(&gate_mx);
	if (us) usleep(us);
}

/* free mode has no scheduler to notice a hang (a qb_log_fini that never returns): an alarm ends the history
 * with an event that is no step of the specification */
#define FREE_WATCHDOG_S 30
static int trace_fd = -1;
static void free_hung(int sig)
{
	static const char ev[] = "{\"e\":\"Hung\",\"a\":[],\"r\":[]}\n";
	if (trace_fd >= 0) (void)!write(trace_fd, ev, sizeof(ev) - 1);
	_exit(0);
}

static int run_free(char **lines, int n)
{
	long seq = 0;
	free_mode = 1;
	trace_fd = fileno(vt_out);
	signal(SIGALRM, free_hung);
	alarm(FREE_WATCHDOG_S);
	qb_verif_hook_fn = free_hook;
	for (int i = 0; i < n; i++) {
		struct vt_line L;
		strncpy(L.raw, lines[i], sizeof(L.raw) - 1); L.raw[sizeof(L.raw) - 1] = 0;
		L.n = 0;
		char *save = NULL;
		for (char *t = strtok_r(L.raw, " \t\r\n", &save); t && L.n < VT_MAXTOK; t = strtok_r(NULL, " \t\r\n", &save)) L.tok[L.n++] = t;
		if (L.n == 0 || !strcmp(L.tok[0], "Free")) continue;
		const char *op = L.tok[0];
		if (!strcmp(op, "Burst")) {
			long cnt = vt_argi(&L, 1), len = vt_argi(&L, 2), gap = vt_argi(&L, 3);
			if (len < 8) len = 8;
			if (len > QB_LOG_MAX_LEN - 2) len = QB_LOG_MAX_LEN - 2;
			msg_len = (int)len;
			for (long k = 0; k < cnt; k++) {
				free_call(OP_LOG, ++seq, (long)sizeof(struct qb_log_record) + len + 1);
				if (gap) usleep(gap);
			}
		} else if (!strcmp(op, "Hold")) gate(1);
		else if (!strcmp(op, "Release")) gate(0);
		else if (!strcmp(op, "Slow")) { pthread_mutex_lock(&gate_mx); slow_us = vt_argi(&L, 1); pthread_mutex_unlock(&gate_mx); }
		else if (!strcmp(op, "Sleep")) usleep(vt_argi(&L, 1));
		else {
			int c = opcode(op);
			if (c < 0 || c == OP_LOG) { fprintf(stderr, "h_logthread: bad free line '%s'\n", lines[i]); return 2; }
			if (c == OP_FINI) gate(0);
			free_call(c, vt_argi(&L, 1), 0);
		}
	}
	finish_child(0);
	return 0;
}

/* ------------------------------------------------------------------ driver */
int main(int argc, char **argv)
{
	if (argc < 3) { fprintf(stderr, "usage: h_logthread <schedule> <trace-out>\n"); return 2; }
	FILE *f = fopen(argv[1], "r");
	if (!f) { perror(argv[1]); return 2; }
	static char *lines[200000];
	int nl = 0;
	char raw[4096];
	while (fgets(raw, sizeof(raw), f) && nl < 200000) lines[nl++] = strdup(raw);
	fclose(f);
	vt_open(argv[2]);
	int start = 0, first = 1;
	while (start <= nl) {
		int end = start;
		while (end < nl && strncmp(lines[end], "Reset", 5) != 0) end++;
		if (!first) vt_simple("Reset");
		first = 0;
		vt_flush();
		int isfree = 0;
		for (int i = start; i < end; i++) {
			if (lines[i][0] == '\n' || lines[i][0] == '#') continue;
			isfree = !strncmp(lines[i], "Free", 4);
			break;
		}
		pid_t pid = fork();
		if (pid < 0) { perror("fork"); return 2; }
		if (pid == 0) {
			capture_stdout();
			int rc = isfree ? run_free(lines + start, end - start) : run_controlled(lines + start, end - start);
			finish_child(rc);
		}
		int st = 0;
		while (waitpid(pid, &st, 0) < 0 && errno == EINTR) ;
		if (WIFSIGNALED(st)) { fprintf(stderr, "h_logthread: history killed by signal %d\n", WTERMSIG(st)); vt_close(); return 128 + WTERMSIG(st); }
		if (WEXITSTATUS(st) != 0) { fprintf(stderr, "h_logthread: history exited with %d\n", WEXITSTATUS(st)); vt_close(); return WEXITSTATUS(st); }
		if (end >= nl) break;
		start = end + 1;
	}
	vt_close();
	return 0;
}
