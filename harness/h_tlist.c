/* h_tlist: replays add / delete / pop histories on the real timer heap of
 * include/tlist.h (header-only) and records the heap array after every call
 * (ndjson) for TimerHeapTrace.tla.   usage: h_tlist <schedule> <trace-out>   */
#include "os_base.h"
#include <qb/qbdefs.h>
#include <qb/qbutil.h>
#include "tlist.h"
#include "vtrace.h"

#define T0 (1000ULL * 1000000000ULL)
int clock_gettime(clockid_t c, struct timespec *ts) { ts->tv_sec = 1000; ts->tv_nsec = 0; return 0; }
int clock_getres(clockid_t c, struct timespec *ts) { ts->tv_sec = 0; ts->tv_nsec = 1; return 0; }

#define MAXT 4096
static struct timerlist tl;
static timer_handle handles[MAXT];
static int nids;
static void cb(void *d) { }

static void dump(const char *op, long long arg, int rc)
{
	vt_ev(op); if (arg >= 0) vt_i(arg); vt_res(); vt_i(rc);
	vt_lb();
	for (size_t i = 0; i < tl.size; i++) {
		struct timerlist_timer *t = tl.heap_entries[i];
		vt_lb(); vt_i((long long)((t->expire_time - T0) / 1000000ULL)); vt_i((long long)(intptr_t)t->data); vt_le();
	}
	vt_le();
	vt_i(timerlist_debug_is_valid_heap(&tl));
	vt_end();
}

int main(int argc, char **argv)
{
	if (argc < 3) return 2;
	FILE *f = fopen(argv[1], "r");
	if (!f) return 2;
	vt_open(argv[2]);
	timerlist_init(&tl);
	struct vt_line L;
	while (vt_readline(f, &L)) {
		const char *op = L.tok[0];
		if (!strcmp(op, "Reset")) {
			timerlist_destroy(&tl); timerlist_init(&tl); nids = 0; memset(handles, 0, sizeof(handles));
			vt_simple("Reset");
		} else if (!strcmp(op, "Add")) {
			long e = vt_argi(&L, 1);
			int id = ++nids;
			int rc = timerlist_add_duration(&tl, cb, (void *)(intptr_t)id, (uint64_t)e * 1000000ULL, &handles[id]);
			dump(op, e, rc);
		} else if (!strcmp(op, "Del")) {
			long id = vt_argi(&L, 1);
			if (id < 1 || id > nids || !handles[id]) continue;
			timerlist_del(&tl, handles[id]);
			dump(op, id, 0);
		} else if (!strcmp(op, "Pop")) {
			if (tl.size == 0) continue;
			timerlist_del(&tl, tl.heap_entries[0]);      /* same path as the expiry pop: timerlist_heap_delete of the head */
			dump(op, -1, 0);
		}
	}
	vt_close();
	return 0;
}
