/* h_ipc_crash.c -- C03: death of the IPC peer at any point (fault enumeration).
 *
 *   h_ipc_crash <schedule> <out.ndjson>
 *
 * schedule, one scenario per line ("Reset" lines separate them):
 *   C <transport> <op> <queued> <mode> <N>   client death: a forked client running the real qb_ipcc_* code stops at
 *                                            the boundary of its N-th counted libc call inside operation <op>
 *                                            (0 connect, 1 send x3, 2 sendv_recv, 3 event_recv x3, 4 disconnect);
 *                                            N = 0: dry run (never stops; the call log is emitted as a Dry event)
 *   R <transport> <k> <mode>                 raw client: connects, writes the first k bytes of a handshake, dies
 *   S <transport> <variant> <queued> <N>     server death: a forked qb_ipcs server stops at its N-th counted call
 *                                            made inside dispatch callbacks; the client runs in this process;
 *                                            variant 0: finite timeouts, 1: sendv_recv / event_recv wait forever,
 *                                            2: as 0, then the server itself disconnects the client (stop points inside its tear-down)
 *   transport 0 = QB_IPC_SHM, 1 = QB_IPC_SOCKET; queued 1 = queues are non-empty when the operation starts
 *   mode (what the surviving server had done when the client stopped):
 *     0 fresh   : the server only ran while the client was blocked waiting for it; polls after the death
 *     1 stale   : as 0, but the poll results taken just BEFORE the death are dispatched after it
 *     2 drained : the server first handles everything the client did, then the client dies
 *     3 stale+1 : as 1, after one more round of the server's loop (so the results are those of the next stage)
 *
 * The surviving server is a real qb_ipcs service in this process, single-threaded, stepped by the harness through
 * its own qb_ipcs_poll_handlers table.  The harness only projects: callbacks, return values, counts of descriptors
 * (/proc/self/fd) and of /dev/shm/qb-<server pid>-<client pid>-* entries, elapsed milliseconds.  All judgement is in
 * spec/IpcCrash.tla (trace validation by TLC).
 */
#include "vtrace.h"
#include "shim/wrap_count.h"
#include <errno.h>
#include <dirent.h>
#include <sys/wait.h>
#include <sys/un.h>
#include <sys/syscall.h>
#include <sys/prctl.h>
#include <sys/time.h>
#include <qb/qbdefs.h>
#include <qb/qbloop.h>
#include <qb/qbipcs.h>
#include <qb/qbipcc.h>
#include "ipc_int.h"

#define MAX_MSG 8192
static int g_log = 1;              /* 0 in forked children */
static int g_kind;                 /* 0 parent, 1 client child, 2 server child */
static int g_sync_w = -1;
static pid_t g_self;
static pid_t g_victim_pid = -1;
static int g_inproc_role = 0;      /* role of the in-process client currently connecting */
static int g_subject = -1;         /* role whose resources the Step census is attributed to */
static int g_seq;

static long long now_ms(void)
{
	struct timespec ts;
	clock_gettime(CLOCK_MONOTONIC, &ts);
	return (long long)ts.tv_sec * 1000 + ts.tv_nsec / 1000000;
}

/* ------------------------------------------------------------ stop point */
static void wc_crash(int fn)
{
	wc_sh->aux[0] = fn;
	wc_sh->reached = 1;
	if (g_kind == 2) {
		__real_kill(getpid(), SIGKILL);
	} else {
		char x = 'X';
		(void)!write(g_sync_w, &x, 1);
	}
	for (;;) pause();
}
static void child_end(void)
{
	char x = 'E';
	wc_armed = 0;
	wc_sh->reached = 2;
	(void)!write(g_sync_w, &x, 1);
	for (;;) pause();
}

/* ------------------------------------------------------------ censuses */
#define MAXFD 4096
typedef struct { unsigned char b[MAXFD]; } fdset_t;
static void fd_census(fdset_t *s)
{
	memset(s, 0, sizeof(*s));
	DIR *d = opendir("/proc/self/fd");
	if (!d) return;
	int self = dirfd(d);
	struct dirent *e;
	while ((e = readdir(d))) {
		if (e->d_name[0] < '0' || e->d_name[0] > '9') continue;
		int n = atoi(e->d_name);
		if (n != self && n >= 0 && n < MAXFD) s->b[n] = 1;
	}
	closedir(d);
}
static void fd_diff(const fdset_t *base, const fdset_t *now, int *extra, int *lost)
{
	*extra = *lost = 0;
	for (int i = 0; i < MAXFD; i++) {
		if (now->b[i] && !base->b[i]) (*extra)++;
		if (!now->b[i] && base->b[i]) (*lost)++;
	}
}
/* entries of /dev/shm that belong to connections between server pid sp and client pid cp (cp = -1: any client) */
static void shm_census(pid_t sp, pid_t cp, int *files, int *dirs)
{
	char pre[64];
	*files = *dirs = 0;
	if (cp >= 0) snprintf(pre, sizeof pre, "qb-%d-%d-", (int)sp, (int)cp);
	else snprintf(pre, sizeof pre, "qb-%d-", (int)sp);
	DIR *d = opendir("/dev/shm");
	if (!d) return;
	struct dirent *e;
	while ((e = readdir(d))) {
		if (strncmp(e->d_name, pre, strlen(pre))) continue;
		char p[512];
		struct stat st;
		snprintf(p, sizeof p, "/dev/shm/%s", e->d_name);
		if (lstat(p, &st)) continue;
		if (S_ISDIR(st.st_mode)) {
			(*dirs)++;
			DIR *d2 = opendir(p);
			struct dirent *e2;
			if (!d2) continue;
			while ((e2 = readdir(d2)))
				if (strcmp(e2->d_name, ".") && strcmp(e2->d_name, "..")) (*files)++;
			closedir(d2);
		} else {
			(*files)++;
		}
	}
	closedir(d);
}
/* /dev/shm hygiene: entries with our server-pid prefix that did not exist when the scenario started were created by
 * it; after the final census they are removed (only a broken library leaves any).  Older entries are never touched. */
static char g_names0[256][64];
static int g_nnames0;
static void shm_names_snapshot(pid_t sp)
{
	char pre[32];
	g_nnames0 = 0;
	snprintf(pre, sizeof pre, "qb-%d-", (int)sp);
	DIR *d = opendir("/dev/shm");
	struct dirent *e;
	if (!d) return;
	while ((e = readdir(d)))
		if (!strncmp(e->d_name, pre, strlen(pre)) && g_nnames0 < 256) snprintf(g_names0[g_nnames0++], 64, "%s", e->d_name);
	closedir(d);
}
static void shm_sweep_new(pid_t sp)
{
	char pre[32], cmd[256];
	snprintf(pre, sizeof pre, "qb-%d-", (int)sp);
	DIR *d = opendir("/dev/shm");
	struct dirent *e;
	if (!d) return;
	while ((e = readdir(d))) {
		if (strncmp(e->d_name, pre, strlen(pre)) || strchr(e->d_name, '\'')) continue;
		int old = 0;
		for (int i = 0; i < g_nnames0; i++) if (!strcmp(g_names0[i], e->d_name)) old = 1;
		if (old) continue;
		snprintf(cmd, sizeof cmd, "rm -rf '/dev/shm/%s'", e->d_name);
		(void)!system(cmd);
	}
	closedir(d);
}
static void shm_list(pid_t sp)
{
	char cmd[160];
	if (!getenv("C03_DEBUG")) return;
	snprintf(cmd, sizeof cmd, "ls -laR /dev/shm/qb-%d-* 1>&2", (int)sp);
	(void)!system(cmd);
}
static void close_inherited(int keep1, int keep2)
{
	fdset_t s;
	fd_census(&s);
	for (int i = 3; i < MAXFD; i++)
		if (s.b[i] && i != keep1 && i != keep2) __real_close(i);
}

/* ------------------------------------------------------------ the server's main loop, owned by the harness */
struct pent { int fd, events, live; void *data; qb_ipcs_dispatch_fn_t fn; };
static struct pent ptab[512];
static int npt;
struct jent { void *data; qb_loop_job_dispatch_fn fn; };
static struct jent jtab[128];
static int njob;
static int g_arm_dispatch;         /* server child: count calls made inside callbacks */

static struct pent *pfind(int fd)
{
	for (int i = 0; i < npt; i++) if (ptab[i].live && ptab[i].fd == fd) return &ptab[i];
	return NULL;
}
static int32_t h_dispatch_add(enum qb_loop_priority p, int32_t fd, int32_t ev, void *data, qb_ipcs_dispatch_fn_t fn)
{
	if (pfind(fd)) return -EEXIST;
	int i;
	for (i = 0; i < npt; i++) if (!ptab[i].live) break;
	if (i == npt) { if (npt == 512) return -ENOMEM; npt++; }
	ptab[i] = (struct pent){ fd, ev, 1, data, fn };
	return 0;
}
static int32_t h_dispatch_mod(enum qb_loop_priority p, int32_t fd, int32_t ev, void *data, qb_ipcs_dispatch_fn_t fn)
{
	struct pent *e = pfind(fd);
	if (!e) return -ENOENT;
	e->events = ev; e->data = data; e->fn = fn;
	return 0;
}
static int32_t h_dispatch_del(int32_t fd)
{
	struct pent *e = pfind(fd);
	if (!e) return -ENOENT;
	e->live = 0;
	return 0;
}
static int32_t h_job_add(enum qb_loop_priority p, void *data, qb_loop_job_dispatch_fn fn)
{
	if (njob == 128) return -ENOMEM;
	jtab[njob++] = (struct jent){ data, fn };
	return 0;
}
static void after_callback(void);

struct snap { int n; struct pollfd pf[512]; struct pent e[512]; };
static int srv_poll(struct snap *s, int timeout_ms)
{
	s->n = 0;
	for (int i = 0; i < npt; i++) {
		if (!ptab[i].live) continue;
		s->pf[s->n] = (struct pollfd){ ptab[i].fd, (short)ptab[i].events, 0 };
		s->e[s->n] = ptab[i];
		s->n++;
	}
	int r = __real_poll(s->pf, s->n, timeout_ms);
	return r < 0 ? 0 : r;
}
/* dispatch the poll results in s (possibly taken earlier); returns number of callbacks run */
static int srv_dispatch(struct snap *s)
{
	int ran = 0;
	for (int i = 0; i < s->n; i++) {
		if (!s->pf[i].revents) continue;
		struct pent *e = pfind(s->pf[i].fd);
		if (!e || e->fn != s->e[i].fn || e->data != s->e[i].data) continue;   /* deleted / replaced meanwhile */
		qb_ipcs_dispatch_fn_t fn = e->fn;
		void *data = e->data;
		int fd = e->fd;
		wc_armed = g_arm_dispatch;
		int32_t rc = fn(fd, s->pf[i].revents, data);
		wc_armed = 0;
		ran++;
		if (rc < 0) {          /* as qb_loop does: a negative return removes the descriptor from the loop */
			e = pfind(fd);
			if (e && e->fn == fn && e->data == data) e->live = 0;
		}
		after_callback();
	}
	return ran;
}
static int srv_jobs(void)
{
	int ran = 0;
	while (njob > 0) {
		struct jent j = jtab[0];
		memmove(&jtab[0], &jtab[1], sizeof(jtab[0]) * (njob - 1));
		njob--;
		wc_armed = g_arm_dispatch;
		j.fn(j.data);
		wc_armed = 0;
		ran++;
		after_callback();
	}
	return ran;
}
static struct snap g_snap;
static int srv_step(int timeout_ms)
{
	int ran = srv_jobs();
	if (srv_poll(&g_snap, ran ? 0 : timeout_ms) > 0) ran += srv_dispatch(&g_snap);
	return ran;
}
#define QUIESCE_CAP 400
/* step until two consecutive polls find nothing to do; returns callbacks run, or QUIESCE_CAP if it never settles */
static int srv_quiesce(void)
{
	int total = 0, idle = 0;
	while (idle < 2 && total < QUIESCE_CAP) {
		int n = srv_step(15);
		if (n == 0) idle++; else { idle = 0; total += n; }
	}
	return total;
}

/* ------------------------------------------------------------ service callbacks */
struct msg { struct qb_ipc_request_header hdr; int32_t seq; int32_t pad[3]; };
struct rsp { struct qb_ipc_response_header hdr; int32_t seq; int32_t pad[3]; };
#define ID_NOREPLY 100
#define ID_ECHO    101
#define ID_BURST   102     /* three events, then a reply */
#define ID_EVENTS  103     /* three events, no reply */
#define ID_DISC    104     /* server scenario, variant 2: the server disconnects this client from inside the callback */

static struct { qb_ipcs_connection_t *c; int role; } ctab[64];
static int nct;
static int role_lookup(qb_ipcs_connection_t *c)
{
	for (int i = 0; i < nct; i++) if (ctab[i].c == c) return ctab[i].role;
	return -1;
}
static int role_by_pid(qb_ipcs_connection_t *c)
{
	struct qb_ipcs_connection_stats st;
	qb_ipcs_connection_stats_get(c, &st, 0);
	return (st.client_pid == g_victim_pid) ? 1 : g_inproc_role;
}
/* Modes 2 and 3 run the server while the client is stopped but still alive.  The server may then block inside one
 * callback waiting for something the stopped client will never send (e.g. the wake-up byte after a queued request).
 * A timer then kills the client -- "it died while the server was waiting for it" -- and the death is logged by
 * whoever logs next, before its own event. */
static volatile sig_atomic_t g_wd_armed, g_wd_fired, g_wd_ticks, g_wd_seen;
static int g_died_logged;
static void log_died(int by_watchdog)
{
	if (g_died_logged) return;
	g_died_logged = 1;
	vt_ev("ClientDied"); vt_i(1); vt_i(wc_sh->phase); vt_res();
	vt_i(wc_sh->count); vt_i(wc_sh->reached); vt_s(wc_sh->reached == 1 ? wc_names[wc_sh->aux[0]] : "end"); vt_i(by_watchdog); vt_end();
}
static int g_last_phase;
/* called before anything is logged: first report what the dying client has meanwhile told us about itself */
static inline void log_sync(void)
{
	if (!g_log) return;
	if (g_victim_pid > 0 && !g_died_logged && wc_sh->phase != g_last_phase) {
		g_last_phase = wc_sh->phase;
		vt_ev("Phase"); vt_i(1); vt_i(g_last_phase); vt_res(); vt_end();
	}
	if (g_wd_fired) log_died(1);
}
static void ev_role(const char *name, int role) { if (!g_log) return; log_sync(); vt_ev(name); vt_i(role); vt_res(); vt_end(); }

static int32_t cb_accept(qb_ipcs_connection_t *c, uid_t uid, gid_t gid)
{
	int role = role_by_pid(c);
	if (nct < 64) { ctab[nct].c = c; ctab[nct].role = role; nct++; }
	ev_role("Accept", role);
	return 0;
}
static void cb_created(qb_ipcs_connection_t *c) { ev_role("Created", role_lookup(c)); }
static int32_t cb_msg(qb_ipcs_connection_t *c, void *data, size_t size)
{
	struct msg *m = data;
	struct rsp r;
	if (g_log) { log_sync(); vt_ev("Msg"); vt_i(role_lookup(c)); vt_i(m->hdr.id); vt_res(); vt_end(); }
	if (m->hdr.id == ID_DISC && g_kind == 2) {
		/* the (forked, dying) server tears the connection down itself: its stop points now include every call of
		 * that tear-down, e.g. between the removal of a ring's data file and of its header file */
		qb_ipcs_disconnect(c);
		if (wc_sh) wc_sh->aux[1] = 1;
		return 0;
	}
	memset(&r, 0, sizeof r);
	r.hdr.size = sizeof r;
	r.seq = m->seq;
	if (m->hdr.id == ID_BURST || m->hdr.id == ID_EVENTS) {
		for (int i = 0; i < 3; i++) {
			r.hdr.id = 200 + i;
			(void)qb_ipcs_event_send(c, &r, sizeof r);
		}
	}
	if (m->hdr.id == ID_ECHO || m->hdr.id == ID_BURST) {
		r.hdr.id = m->hdr.id;
		(void)qb_ipcs_response_send(c, &r, sizeof r);
	}
	return 0;
}
/* every other scenario (g_closed_retry) the application answers the first connection_closed of a connection with
 * "not yet" (non-zero): the library has to call it again, and only then connection_destroyed */
static int g_closed_retry;
static void *g_closed_seen[64];
static int g_nclosed_seen;
static int32_t cb_closed(qb_ipcs_connection_t *c)
{
	int ret = 0, seen = 0;
	for (int i = 0; i < g_nclosed_seen; i++) if (g_closed_seen[i] == (void *)c) seen = 1;
	if (g_closed_retry && !seen && g_nclosed_seen < 64) { g_closed_seen[g_nclosed_seen++] = c; ret = 1; }
	if (g_log) { log_sync(); vt_ev("Closed"); vt_i(role_lookup(c)); vt_i(ret); vt_res(); vt_end(); }
	return ret;
}
static void cb_destroyed(qb_ipcs_connection_t *c)
{
	int role = role_lookup(c);
	if (role < 0) role = role_by_pid(c);    /* destroyed without ever having been offered to accept */
	ev_role("Destroyed", role);
	for (int i = 0; i < g_nclosed_seen; i++) if (g_closed_seen[i] == (void *)c) { g_closed_seen[i] = g_closed_seen[--g_nclosed_seen]; break; }
	for (int i = 0; i < nct; i++) if (ctab[i].c == c) { ctab[i] = ctab[nct - 1]; nct--; break; }
}
static struct qb_ipcs_service_handlers g_sh = { cb_accept, cb_created, cb_msg, cb_closed, cb_destroyed };
static struct qb_ipcs_poll_handlers g_ph = { h_job_add, h_dispatch_add, h_dispatch_mod, h_dispatch_del };

static qb_ipcs_service_t *service_start(const char *name, int transport)
{
	npt = njob = nct = 0;
	qb_ipcs_service_t *s = qb_ipcs_create(name, 0, transport ? QB_IPC_SOCKET : QB_IPC_SHM, &g_sh);
	if (!s) return NULL;
	qb_ipcs_poll_handlers_set(s, &g_ph);
	if (qb_ipcs_run(s) != 0) return NULL;
	return s;
}

/* ------------------------------------------------------------ Step census (parent, client-death scenarios) */
static fdset_t g_b0, g_b1;
static int g_ofile0, g_odir0;          /* /dev/shm entries of the in-process clients at baseline 1 */
static int g_vfile0, g_vdir0;          /* entries that carried the victim's pid before it existed (pid reuse) */
static int g_last[5] = { -9, -9, -9, -9, -9 };
static void census_step(int force)
{
	if (!g_log || g_subject < 0) return;
	log_sync();
	fdset_t now;
	int extra, lost, f, d;
	fd_census(&now);
	fd_diff(&g_b1, &now, &extra, &lost);
	if (g_subject == 1) { shm_census(g_self, g_victim_pid, &f, &d); f -= g_vfile0; d -= g_vdir0; }
	else { shm_census(g_self, g_self, &f, &d); f -= g_ofile0; d -= g_odir0; }
	int cur[5] = { g_subject, extra, f, d, lost };
	if (!force && !memcmp(cur, g_last, sizeof cur)) return;
	memcpy(g_last, cur, sizeof cur);
	vt_ev("Step"); vt_i(g_subject); vt_i(extra); vt_i(f); vt_i(d); vt_i(lost); vt_res(); vt_end();
}
static void after_callback(void) { census_step(0); }

static void ev_quiesce(qb_ipcs_service_t *s)
{
	int steps = srv_quiesce();
	struct qb_ipcs_stats st = { 0, 0 };
	census_step(1);
	if (s) qb_ipcs_stats_get(s, &st, 0);
	vt_ev("Quiesce"); vt_i(steps >= QUIESCE_CAP ? 1 : 0); vt_res();
	vt_i(steps); vt_i(st.active_connections); vt_i(st.closed_connections); vt_end();
}

/* ------------------------------------------------------------ in-process clients (bystander, control) */
static qb_ipcc_connection_t *inproc_connect(const char *name, int role)
{
	int fd = -1;
	g_inproc_role = role;
	vt_ev("Spawn"); vt_i(role); vt_res(); vt_end();
	qb_ipcc_connection_t *c = qb_ipcc_connect_async(name, MAX_MSG, &fd);
	if (c) {
		srv_quiesce();
		if (qb_ipcc_connect_continue(c) != 0) c = NULL;   /* connect_continue frees c on failure */
	}
	vt_ev("Connect"); vt_i(role); vt_res(); vt_i(c ? 1 : 0); vt_end();
	return c;
}
static void inproc_roundtrip(qb_ipcc_connection_t *c, int role)
{
	struct msg m;
	struct rsp r;
	int ok = 0;
	memset(&m, 0, sizeof m);
	m.hdr.id = ID_ECHO; m.hdr.size = sizeof m; m.seq = ++g_seq;
	if (c) {
		ssize_t rc = qb_ipcc_send(c, &m, sizeof m);
		srv_quiesce();
		if (rc == sizeof m) {
			memset(&r, 0, sizeof r);
			rc = qb_ipcc_recv(c, &r, sizeof r, 0);
			ok = (rc == sizeof r && r.seq == m.seq && r.hdr.id == ID_ECHO);
		}
	}
	vt_ev("Serve"); vt_i(role); vt_res(); vt_i(ok); vt_end();
}
static void inproc_disconnect(qb_ipcc_connection_t *c, int role)
{
	if (c) qb_ipcc_disconnect(c);
	vt_ev("Disconnect"); vt_i(role); vt_res(); vt_end();
}

/* ------------------------------------------------------------ the dying client (child process) */
static void send_msg(qb_ipcc_connection_t *c, int id)
{
	struct msg m;
	memset(&m, 0, sizeof m);
	m.hdr.id = id; m.hdr.size = sizeof m; m.seq = ++g_seq;
	(void)qb_ipcc_send(c, &m, sizeof m);
}
static ssize_t sendv_recv_msg(qb_ipcc_connection_t *c, int id, int tmo)
{
	struct msg m;
	struct rsp r;
	struct iovec iov = { &m, sizeof m };
	memset(&m, 0, sizeof m);
	m.hdr.id = id; m.hdr.size = sizeof m; m.seq = ++g_seq;
	return qb_ipcc_sendv_recv(c, &iov, 1, &r, sizeof r, tmo);
}
static void victim_main(const char *name, int op, int queued)
{
	char buf[256];
	wc_sh->phase = 1;
	wc_armed = (op == 0);
	qb_ipcc_connection_t *c = qb_ipcc_connect(name, MAX_MSG);
	wc_armed = 0;
	if (!c) child_end();
	wc_sh->phase = 2;
	if (op == 0) child_end();
	if (queued) {
		/* three events stay unread in the event queue, two requests stay unhandled in the request queue */
		sendv_recv_msg(c, ID_BURST, 3000);
		send_msg(c, ID_NOREPLY);
		send_msg(c, ID_NOREPLY);
	}
	switch (op) {
	case 1:
		wc_sh->phase = 3; wc_armed = 1;
		send_msg(c, ID_NOREPLY); send_msg(c, ID_NOREPLY); send_msg(c, ID_NOREPLY);
		break;
	case 2:
		wc_sh->phase = 4; wc_armed = 1;
		sendv_recv_msg(c, ID_ECHO, 3000);
		break;
	case 3:
		send_msg(c, ID_EVENTS);
		wc_sh->phase = 5; wc_armed = 1;
		for (int i = 0; i < 3; i++) (void)qb_ipcc_event_recv(c, buf, sizeof buf, 3000);
		break;
	case 4:
		wc_sh->phase = 6; wc_armed = 1;
		qb_ipcc_disconnect(c);
		break;
	}
	wc_armed = 0;
	wc_sh->phase = (op == 4) ? 7 : 2;
	child_end();
}
static void raw_main(const char *name, int k)
{
	struct qb_ipc_connection_request req;
	struct sockaddr_un a;
	int fd = __real_socket(PF_UNIX, SOCK_STREAM, 0);
	memset(&a, 0, sizeof a);
	a.sun_family = AF_UNIX;
	snprintf(a.sun_path + 1, sizeof(a.sun_path) - 1, "%s", name);
	wc_sh->phase = 1;
	if (__real_connect(fd, (struct sockaddr *)&a, sizeof a) != 0) child_end();   /* libqb binds the abstract name with the full sockaddr length */
	memset(&req, 0, sizeof req);
	req.hdr.id = QB_IPC_MSG_AUTHENTICATE;
	req.hdr.size = sizeof req;
	req.max_msg_size = MAX_MSG;
	if (k > 0) (void)!write(fd, &req, k);
	wc_sh->count = k;
	child_end();
}

/* ------------------------------------------------------------ scenario: client death */
static struct wc_shared *shared_page(void)
{
	void *p = __real_mmap(NULL, sizeof(struct wc_shared), PROT_READ | PROT_WRITE, MAP_SHARED | MAP_ANONYMOUS, -1, 0);
	if (p == MAP_FAILED) { perror("mmap"); exit(2); }
	memset(p, 0, sizeof(struct wc_shared));
	return p;
}
static void emit_dry(const char *what, int a, int b, int c)
{
	int n = wc_sh->count < WC_MAXLOG ? wc_sh->count : WC_MAXLOG - 1;
	vt_ev("Dry"); vt_s(what); vt_i(a); vt_i(b); vt_i(c); vt_res(); vt_i(n);
	vt_lb(); for (int i = 1; i <= n; i++) vt_s(wc_names[wc_sh->fn[i]]); vt_le();
	vt_lb(); for (int i = 1; i <= n; i++) vt_i(wc_sh->ph[i]); vt_le();
	vt_end();
}

static void scenario_client(int raw, int transport, int op, int queued, int mode, int N)
{
	char name[64];
	int sync[2];
	snprintf(name, sizeof name, "c03-%d-%d", (int)g_self, ++g_seq);
	g_subject = -1; g_victim_pid = -1;
	g_closed_retry = (N % 2) == 1; g_nclosed_seen = 0;
	g_wd_armed = g_wd_fired = 0; g_died_logged = 0; g_last_phase = 1;
	memset(g_last, 0xff, sizeof g_last);
	fd_census(&g_b0);
	int f00, d00;                      /* stale entries of an earlier process that had our pid are not ours */
	shm_census(g_self, -1, &f00, &d00);
	shm_names_snapshot(g_self);
	vt_ev("Start"); vt_i(raw ? 2 : 1); vt_i(transport); vt_i(op); vt_i(queued); vt_i(mode); vt_i(N); vt_res(); vt_end();

	qb_ipcs_service_t *s = service_start(name, transport);
	if (!s) { fprintf(stderr, "service_start failed\n"); exit(2); }
	qb_ipcc_connection_t *by = inproc_connect(name, 0);
	ev_quiesce(s);
	fd_census(&g_b1);
	shm_census(g_self, g_self, &g_ofile0, &g_odir0);

	if (pipe(sync)) { perror("pipe"); exit(2); }
	g_b1.b[sync[0]] = g_b1.b[sync[1]] = 1;
	memset((void *)wc_sh, 0, sizeof *wc_sh);
	wc_sh->target = N;
	fflush(NULL);
	pid_t pid = fork();
	if (pid < 0) { perror("fork"); exit(2); }
	if (pid == 0) {
		g_kind = 1; g_log = 0; vt_out = NULL; g_sync_w = sync[1]; wc_is_child = 1;
		prctl(PR_SET_PDEATHSIG, SIGKILL);
		close_inherited(sync[1], -1);
		if (raw) raw_main(name, op); else victim_main(name, op, queued);
		_exit(0);
	}
	g_victim_pid = pid;
	shm_census(g_self, g_victim_pid, &g_vfile0, &g_vdir0);
	g_subject = 1;
	__real_close(sync[1]); g_b1.b[sync[1]] = 0;
	vt_ev("Spawn"); vt_i(1); vt_res(); vt_end();

	/* the client lives: the server runs only while the client is blocked waiting for it.  A 150 ms tick watches for
	 * "client stopped at its crash point while the server is stuck inside a callback waiting for it" (see log_died) */
	char ch = '?';
	long long t0 = now_ms();
	struct itimerval tick = { { 0, 150000 }, { 0, 150000 } }, off = { { 0, 0 }, { 0, 0 } };
	g_wd_ticks = g_wd_seen = 0;
	g_wd_armed = 1;
	setitimer(ITIMER_REAL, &tick, NULL);
	for (;;) {
		struct pollfd p = { sync[0], POLLIN, 0 };
		int blocked = wc_sh->blocked;
		if (blocked && !wc_sh->reached) srv_step(2);
		__real_poll(&p, 1, blocked ? 0 : 1);
		if (p.revents & POLLIN) { if (read(sync[0], &ch, 1) != 1) ch = '?'; break; }
		if (p.revents & (POLLHUP | POLLERR)) break;
		if (now_ms() - t0 > 20000) { ch = 'T'; break; }
	}
	if (ch == 'T' || ch == '?') {
		/* the client never reached its stop point (wedged, or died on its own) */
		__real_kill(pid, SIGKILL); waitpid(pid, NULL, 0);
		vt_ev("Hang"); vt_i(ch == 'T' ? 1 : 2); vt_res(); vt_end();
		exit(3);
	}
	static struct snap stale;
	int have_stale = 0;
	if (mode == 2 && !g_wd_fired) srv_quiesce();
	if (mode == 3 && !g_wd_fired) srv_step(0);   /* one round of progress (e.g. the accept), then stale results */
	g_wd_armed = 0;
	setitimer(ITIMER_REAL, &off, NULL);
	alarm(60);
	if ((mode == 1 || mode == 3) && !g_wd_fired) have_stale = srv_poll(&stale, 0) > 0;
	if (!g_wd_fired) __real_kill(pid, SIGKILL);
	waitpid(pid, NULL, 0);
	log_sync();
	log_died(g_wd_fired);
	if (have_stale) srv_dispatch(&stale);
	ev_quiesce(s);
	if (N == 0 && !raw) emit_dry("C", transport, op, queued);

	/* the other clients */
	inproc_roundtrip(by, 0);
	g_subject = 2;
	qb_ipcc_connection_t *ctl = inproc_connect(name, 2);
	inproc_roundtrip(ctl, 2);
	inproc_disconnect(ctl, 2);
	ev_quiesce(s);
	g_subject = -1;
	inproc_disconnect(by, 0);
	ev_quiesce(s);
	qb_ipcs_destroy(s);
	__real_close(sync[0]);
	{
		fdset_t now; int extra, lost, f, d;
		fd_census(&now); fd_diff(&g_b0, &now, &extra, &lost);
		shm_census(g_self, -1, &f, &d);
		f -= f00; d -= d00;
		if (f || d) shm_list(g_self);
		vt_ev("End"); vt_res(); vt_i(extra); vt_i(lost); vt_i(f); vt_i(d); vt_end();
		if (f || d) shm_sweep_new(g_self);
	}
}

/* ------------------------------------------------------------ scenario: server death */
static pid_t g_srv_pid;
static int g_srv_dead, g_srv_status;
static void server_child(const char *name, int transport, int readyfd)
{
	g_kind = 2; g_log = 0; vt_out = NULL; g_sync_w = readyfd;
	prctl(PR_SET_PDEATHSIG, SIGKILL);
	close_inherited(readyfd, -1);
	qb_ipcs_service_t *s = service_start(name, transport);
	if (!s) _exit(7);
	char x = 'R';
	(void)!write(readyfd, &x, 1);
	g_arm_dispatch = 1;
	for (;;) srv_step(-1);
}
/* returns 1 if the server is (now) known dead; emits SrvDied once */
static int srv_check(int wait_ms, int phase)
{
	long long t0 = now_ms();
	while (!g_srv_dead) {
		int st;
		pid_t r = waitpid(g_srv_pid, &st, WNOHANG);
		if (r == g_srv_pid) {
			g_srv_dead = 1; g_srv_status = st;
			vt_ev("SrvDied"); vt_i(phase); vt_res();
			vt_i(WIFSIGNALED(st) ? WTERMSIG(st) : 0); vt_i(WIFEXITED(st) ? WEXITSTATUS(st) : -1);
			vt_i(wc_sh->count); vt_end();
			break;
		}
		if (now_ms() - t0 >= wait_ms) break;
		struct timespec ts = { 0, 2000000 };
		__real_nanosleep(&ts, NULL);
	}
	return g_srv_dead;
}
enum { OP_SEND = 1, OP_RECV = 2, OP_SENDV_RECV = 3, OP_EVENT_RECV = 4 };
static int g_phase;
static void ccall(qb_ipcc_connection_t *c, int op, int id, int tmo)
{
	char buf[256];
	struct msg m;
	struct iovec iov = { &m, sizeof m };
	ssize_t res = 0;
	wc_sh->phase = ++g_phase;
	srv_check(0, g_phase);
	int pre = g_srv_dead;
	memset(&m, 0, sizeof m);
	m.hdr.id = id; m.hdr.size = sizeof m; m.seq = ++g_seq;
	long long t0 = now_ms();
	switch (op) {
	case OP_SEND: res = qb_ipcc_send(c, &m, sizeof m); break;
	case OP_RECV: res = qb_ipcc_recv(c, buf, sizeof buf, tmo); break;
	case OP_SENDV_RECV: res = qb_ipcc_sendv_recv(c, &iov, 1, buf, sizeof buf, tmo); break;
	case OP_EVENT_RECV: res = qb_ipcc_event_recv(c, buf, sizeof buf, tmo); break;
	}
	long long ms = now_ms() - t0;
	int isconn = c->is_connected;
	/* an error may be the first sign of a server that is just dying: give its exit a moment to become visible */
	int post = srv_check(res < 0 ? 150 : 0, g_phase);
	vt_ev("CCall"); vt_i(op); vt_i(tmo); vt_i(id); vt_res();
	vt_i(res); vt_i(ms); vt_i(isconn); vt_i(pre); vt_i(post); vt_end();
}
static void scenario_server(int transport, int variant, int queued, int N)
{
	char name[64];
	int rdy[2];
	fdset_t b0;
	int V = variant == 1 ? -1 : 1000;
	snprintf(name, sizeof name, "c03s-%d-%d", (int)g_self, ++g_seq);
	fd_census(&b0);
	vt_ev("Start"); vt_i(3); vt_i(transport); vt_i(variant); vt_i(queued); vt_i(0); vt_i(N); vt_res(); vt_end();
	if (pipe(rdy)) { perror("pipe"); exit(2); }
	memset((void *)wc_sh, 0, sizeof *wc_sh);
	wc_sh->target = N;
	g_srv_dead = 0; g_phase = 0;
	fflush(NULL);
	g_srv_pid = fork();
	if (g_srv_pid < 0) { perror("fork"); exit(2); }
	if (g_srv_pid == 0) { server_child(name, transport, rdy[1]); _exit(0); }
	int sf0, sd0, sfa0, sda0;
	shm_census(g_srv_pid, g_self, &sf0, &sd0);
	shm_census(g_srv_pid, -1, &sfa0, &sda0);
	__real_close(rdy[1]);
	char x = 0;
	if (read(rdy[0], &x, 1) != 1 || x != 'R') { fprintf(stderr, "server child did not start\n"); exit(2); }
	__real_close(rdy[0]);

	wc_sh->phase = ++g_phase;
	long long t0 = now_ms();
	qb_ipcc_connection_t *c = qb_ipcc_connect(name, MAX_MSG);
	long long ms = now_ms() - t0;
	int post = srv_check(c ? 0 : 150, g_phase);
	vt_ev("CConnect"); vt_res(); vt_i(c ? 1 : 0); vt_i(ms); vt_i(post); vt_end();
	if (c) {
		if (queued) {
			ccall(c, OP_SENDV_RECV, ID_BURST, 1000);
			ccall(c, OP_SEND, ID_NOREPLY, 0);
			ccall(c, OP_SEND, ID_NOREPLY, 0);
		}
		ccall(c, OP_SEND, ID_NOREPLY, 0);
		ccall(c, OP_SENDV_RECV, ID_ECHO, V);
		ccall(c, OP_SEND, ID_EVENTS, 0);
		for (int i = 0; i < 3; i++) ccall(c, OP_EVENT_RECV, 0, V);
		ccall(c, OP_RECV, 0, 0);
		if (variant == 2) {
			/* ask the server to disconnect us and give it time to get through (or to its stop point inside) that */
			ccall(c, OP_SEND, ID_DISC, 0);
			for (int i = 0; i < 500 && !wc_sh->aux[1] && !wc_sh->reached && !srv_check(0, g_phase); i++) {
				struct timespec ts = { 0, 2000000 };
				__real_nanosleep(&ts, NULL);
			}
		}
	}
	/* the server dies at the latest now (stop point "idle, after everything") */
	wc_sh->phase = ++g_phase;
	if (!g_srv_dead) { __real_kill(g_srv_pid, SIGKILL); srv_check(2000, g_phase); }
	if (N == 0) emit_dry("S", transport, variant, queued);
	if (c) {
		for (int i = 0; i < 5; i++) ccall(c, OP_EVENT_RECV, 0, V);
		ccall(c, OP_SEND, ID_NOREPLY, 0);
		ccall(c, OP_SENDV_RECV, ID_ECHO, V);
		ccall(c, OP_EVENT_RECV, 0, V);
		ccall(c, OP_RECV, 0, 0);
		ccall(c, OP_RECV, 0, 300);
		t0 = now_ms();
		qb_ipcc_disconnect(c);
		ms = now_ms() - t0;
		int f, d;
		shm_census(g_srv_pid, g_self, &f, &d);
		f -= sf0; d -= sd0;
		vt_ev("CDisconnect"); vt_res(); vt_i(f); vt_i(d); vt_i(ms); vt_end();
	}
	{
		fdset_t now; int extra, lost, f, d;
		fd_census(&now); fd_diff(&b0, &now, &extra, &lost);
		shm_census(g_srv_pid, -1, &f, &d);
		f -= sfa0; d -= sda0;
		vt_ev("End"); vt_res(); vt_i(extra); vt_i(lost); vt_i(c ? f : 0); vt_i(c ? d : 0); vt_i(f); vt_i(d); vt_end();
		/* whatever our dead server left for us and no client call could remove is swept here, not judged */
		if (f || d) {
			char cmd[128];
			snprintf(cmd, sizeof cmd, "rm -rf /dev/shm/qb-%d-%d-*", (int)g_srv_pid, (int)g_self);
			(void)!system(cmd);
		}
	}
}

static void on_alarm(int sig)
{
	if (g_wd_armed) {
		if (++g_wd_ticks < 200) {      /* 30 s */
			if (g_victim_pid > 0 && wc_sh->reached && !g_wd_fired && ++g_wd_seen >= 3) {
				g_wd_fired = 1;
				__real_kill(g_victim_pid, SIGKILL);
			}
			return;
		}
	}
	static const char m[] = "{\"e\":\"Hang\",\"a\":[0],\"r\":[]}\n";
	if (vt_out) (void)!write(fileno(vt_out), m, sizeof m - 1);
	if (g_victim_pid > 0) __real_kill(g_victim_pid, SIGKILL);
	if (g_srv_pid > 0) __real_kill(g_srv_pid, SIGKILL);
	_exit(3);
}

int main(int argc, char **argv)
{
	if (argc < 3) { fprintf(stderr, "usage: h_ipc_crash <schedule> <out.ndjson>\n"); return 2; }
	FILE *f = fopen(argv[1], "r");
	if (!f) { perror(argv[1]); return 2; }
	vt_open(argv[2]);
	g_self = getpid();
	signal(SIGPIPE, SIG_IGN);
	signal(SIGALRM, on_alarm);
	wc_sh = shared_page();
	vt_ev("Hello"); vt_i(g_self); vt_res(); vt_end();      /* not part of any scenario: lets the driver clean up after an abort */
	struct vt_line L;
	while (vt_readline(f, &L)) {
		alarm(60);
		if (!strcmp(L.tok[0], "Reset")) { vt_simple("Reset"); continue; }
		if (!strcmp(L.tok[0], "C"))
			scenario_client(0, vt_argi(&L, 1), vt_argi(&L, 2), vt_argi(&L, 3), vt_argi(&L, 4), vt_argi(&L, 5));
		else if (!strcmp(L.tok[0], "R"))
			scenario_client(1, vt_argi(&L, 1), vt_argi(&L, 2), 0, vt_argi(&L, 3), -1);
		else if (!strcmp(L.tok[0], "S"))
			scenario_server(vt_argi(&L, 1), vt_argi(&L, 2), vt_argi(&L, 3), vt_argi(&L, 4));
		else { fprintf(stderr, "bad schedule line: %s\n", L.tok[0]); return 2; }
		alarm(0);
	}
	vt_close();
	return 0;
}
