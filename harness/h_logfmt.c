/* h_logfmt: executes a schedule of log-formatting calls on the real library and
 * records every call with its observable result (ndjson) for LogFormatTrace.tla
 * (property C13).
 * usage: h_logfmt <schedule> <trace-out> [--fork]
 *
 * Schedule lines (all numbers; texts are described by lengths / run lists):
 *   SetLimit n | SetEllipsis b | SetExtended b | SetFormatDefault
 *   SetFormat ntok (k a b)*ntok nameLen hostLen pidDigit pidCount
 *        token <0, sym, n> = n literal bytes sym; <c, minus, width> = "%[-][width]c"
 *        (c = 1: the directive letter is missing, the string ends there)
 *   Format fn file ld lc prio mon mday hh mm ss ms tags nruns (sym cnt)*nruns
 *        direct qb_log_target_format() into a heap buffer of exactly `limit' bytes
 *   Log fn file ld lc prio mon mday hh mm ss ms tags kind pre xc post nl
 *        real log call (qb_log_from_external_source) whose printf format/arguments
 *        expand to: pre bytes, [QB_XC], post bytes 'c', [newline]
 *   Reset  new history (fresh library state; with --fork every history runs in
 *        its own child, a dead child is recorded as the event "Crash")
 *
 * The harness only builds the concrete strings and projects results (length,
 * run-length encoded bytes); what the results must be is decided by the
 * specification.  hostname, pid, wall clock and the tag stringifier are scripted. */
#include "os_base.h"
#include <sys/wait.h>
#include <sys/syscall.h>
#include <qb/qblog.h>
#include "vtrace.h"

static int tgt = -1;
static int cur_limit = QB_LOG_MAX_LEN;   /* what the target was last told (and accepted) */
static int host_len = 1;
static long pid_script = 0;
static int tags_len = -1;
static struct timespec clk;
static int use_fork;

/* ---- scripted environment ------------------------------------------------ */
int gethostname(char *name, size_t len)
{
	if ((size_t)host_len + 1 > len) { errno = ENAMETOOLONG; return -1; }
	memset(name, 'H', host_len);
	name[host_len] = 0;
	return 0;
}
pid_t getpid(void) { return pid_script ? (pid_t)pid_script : (pid_t)syscall(SYS_getpid); }
int clock_gettime(clockid_t id, struct timespec *ts)
{
	if ((id == CLOCK_REALTIME || id == CLOCK_REALTIME_COARSE) && clk.tv_sec) { *ts = clk; return 0; }
	return (int)syscall(SYS_clock_gettime, id, ts);
}
int gettimeofday(struct timeval *tv, void *tz)
{
	struct timespec ts;
	(void)tz;
	clock_gettime(CLOCK_REALTIME, &ts);
	tv->tv_sec = ts.tv_sec;
	tv->tv_usec = ts.tv_nsec / 1000;
	return 0;
}
static char tagbuf[8192];
static const char *tags_fn(uint32_t tags) { (void)tags; return tagbuf; }

/* ---- helpers --------------------------------------------------------------- */
static char *rep(int c, long n)
{
	if (n < 0) n = 0;
	char *s = malloc(n + 1);
	memset(s, c, n);
	s[n] = 0;
	return s;
}
static long repnum(int digit, int count)
{
	long v = 0;
	for (int i = 0; i < count; i++) v = v * 10 + digit;
	return v;
}
static void set_clock(const struct vt_line *L, int at, struct timespec *ts)
{
	struct tm tm;
	memset(&tm, 0, sizeof(tm));
	tm.tm_year = 120; /* 2020 */
	tm.tm_mon = (int)vt_argi(L, at) - 1;
	tm.tm_mday = (int)vt_argi(L, at + 1);
	tm.tm_hour = (int)vt_argi(L, at + 2);
	tm.tm_min = (int)vt_argi(L, at + 3);
	tm.tm_sec = (int)vt_argi(L, at + 4);
	ts->tv_sec = timegm(&tm);
	ts->tv_nsec = vt_argi(L, at + 5) * 1000000L;
}
static void set_tags(int n)
{
	tags_len = n;
	if (n < 0) { qb_log_tags_stringify_fn_set(NULL); return; }
	if (n > (int)sizeof(tagbuf) - 1) n = sizeof(tagbuf) - 1;
	memset(tagbuf, 'g', n);
	tagbuf[n] = 0;
	qb_log_tags_stringify_fn_set(tags_fn);
}
/* length of the C string within the first n bytes, -1 if it is not terminated there */
static long blen(const char *b, long n)
{
	for (long i = 0; i < n; i++) if (!b[i]) return i;
	return -1;
}
/* run-length encoded bytes b[0..n) as a nested list */
static void vt_runs(const char *b, long n)
{
	vt_lb();
	for (long i = 0; i < n;) {
		long j = i;
		while (j < n && b[j] == b[i]) j++;
		vt_lb(); vt_i((unsigned char)b[i]); vt_i(j - i); vt_le();
		i = j;
	}
	vt_le();
}
static void vt_flushev(void) { vt_flush(); }

/* ---- the custom target's logger ----------------------------------------------- */
static int got;
static char *got_msg;
static long got_len;
static char *got_out;
static void logger(int32_t t, struct qb_log_callsite *cs, struct timespec *ts, const char *msg)
{
	long n = cur_limit > 0 ? cur_limit : 0;
	got++;
	got_msg = strdup(msg);
	got_out = malloc(n);
	memset(got_out, 0xA5, n);
	qb_log_target_format(t, cs, ts, msg, got_out);
	got_len = blen(got_out, n);
}

static void fresh(void)
{
	qb_log_init("h_logfmt", LOG_USER, LOG_EMERG);
	qb_log_ctl(QB_LOG_SYSLOG, QB_LOG_CONF_ENABLED, QB_FALSE);
	tgt = qb_log_custom_open(logger, NULL, NULL, NULL);
	qb_log_filter_ctl(tgt, QB_LOG_FILTER_ADD, QB_LOG_FILTER_FILE, "*", LOG_TRACE);
	qb_log_ctl(tgt, QB_LOG_CONF_ENABLED, QB_TRUE);
	/* qb_log_init() does not reset a slot's ellipsis option left by an earlier init/fini cycle */
	qb_log_ctl(tgt, QB_LOG_CONF_ELLIPSIS, QB_FALSE);
	cur_limit = QB_LOG_MAX_LEN;
	host_len = 1; pid_script = 0; clk.tv_sec = 0;
	set_tags(-1);
}

static void do_op(struct vt_line *L)
{
	const char *op = L->tok[0];
	if (!strcmp(op, "SetLimit")) {
		int n = (int)vt_argi(L, 1);
		int rc = qb_log_ctl(tgt, QB_LOG_CONF_MAX_LINE_LEN, n);
		if (rc == 0) cur_limit = n;
		vt_ev(op); vt_i(n); vt_res(); vt_i(rc); vt_end();
	} else if (!strcmp(op, "SetEllipsis") || !strcmp(op, "SetExtended")) {
		int b = (int)vt_argi(L, 1);
		int rc = qb_log_ctl(tgt, op[3] == 'E' && op[4] == 'l' ? QB_LOG_CONF_ELLIPSIS : QB_LOG_CONF_EXTENDED, b);
		vt_ev(op); vt_i(b); vt_res(); vt_i(rc); vt_end();
	} else if (!strcmp(op, "SetFormatDefault")) {
		qb_log_format_set(tgt, NULL);
		vt_simple(op);
	} else if (!strcmp(op, "SetFormat")) {
		int nt = (int)vt_argi(L, 1), at = 2 + 3 * nt;
		size_t cap = 64, len = 0;
		for (int i = 0; i < nt; i++) cap += (vt_argi(L, 2 + 3 * i) == 0 ? vt_argi(L, 4 + 3 * i) : 16);
		char *f = malloc(cap);     /* exact heap string: ASan sees any scan past its NUL */
		for (int i = 0; i < nt; i++) {
			long k = vt_argi(L, 2 + 3 * i), a = vt_argi(L, 3 + 3 * i), b = vt_argi(L, 4 + 3 * i);
			if (k == 0) { memset(f + len, (int)a, b); len += b; }
			else {
				f[len++] = '%';
				if (a) f[len++] = '-';
				if (b > 0) len += sprintf(f + len, "%ld", b);
				if (k != 1) f[len++] = (char)k;
			}
		}
		f[len] = 0;
		char *fx = strdup(f);
		free(f);
		char *name = rep('N', vt_argi(L, at));
		qb_log_ctl2(tgt, QB_LOG_CONF_IDENT, QB_LOG_CTL2_S(name));
		host_len = (int)vt_argi(L, at + 1);
		pid_script = repnum((int)vt_argi(L, at + 2), (int)vt_argi(L, at + 3));
		qb_log_format_set(tgt, fx);
		free(fx); free(name);
		vt_ev(op);
		vt_lb();
		for (int i = 0; i < nt; i++) { vt_lb(); vt_i(vt_argi(L, 2 + 3 * i)); vt_i(vt_argi(L, 3 + 3 * i)); vt_i(vt_argi(L, 4 + 3 * i)); vt_le(); }
		vt_le();
		vt_i(vt_argi(L, at)); vt_i(host_len);
		vt_lb(); vt_i(vt_argi(L, at + 2)); vt_i(vt_argi(L, at + 3)); vt_le();
		vt_res(); vt_end();
	} else if (!strcmp(op, "Format") || !strcmp(op, "Log")) {
		int isfmt = op[0] == 'F';
		char *fn = rep('n', vt_argi(L, 1)), *file = rep('f', vt_argi(L, 2));
		long lineno = repnum((int)vt_argi(L, 3), (int)vt_argi(L, 4));
		int prio = (int)vt_argi(L, 5);
		struct timespec ts;
		set_clock(L, 6, &ts);
		set_tags((int)vt_argi(L, 12));
		/* the event's arguments: D (and the message) exactly as scheduled */
		vt_ev(op);
		vt_lb(); vt_i(vt_argi(L, 1)); vt_i(vt_argi(L, 2));
		vt_lb(); vt_i(vt_argi(L, 3)); vt_i(vt_argi(L, 4)); vt_le();
		vt_i(prio);
		vt_lb(); for (int i = 6; i < 12; i++) vt_i(vt_argi(L, i)); vt_le();
		vt_i(vt_argi(L, 12)); vt_le();
		if (isfmt) {
			int nr = (int)vt_argi(L, 13);
			long mlen = 0;
			for (int i = 0; i < nr; i++) mlen += vt_argi(L, 15 + 2 * i);
			char *msg = malloc(mlen + 1);
			long p = 0;
			vt_lb();
			for (int i = 0; i < nr; i++) {
				memset(msg + p, (int)vt_argi(L, 14 + 2 * i), vt_argi(L, 15 + 2 * i));
				p += vt_argi(L, 15 + 2 * i);
				vt_lb(); vt_i(vt_argi(L, 14 + 2 * i)); vt_i(vt_argi(L, 15 + 2 * i)); vt_le();
			}
			vt_le();
			msg[p] = 0;
			struct qb_log_callsite cs;
			memset(&cs, 0, sizeof(cs));
			cs.function = fn; cs.filename = file; cs.format = "%s";
			cs.priority = (uint8_t)prio; cs.lineno = (uint32_t)lineno;
			long n = cur_limit > 0 ? cur_limit : 0;
			char *out = malloc(n);
			memset(out, 0xA5, n);
			qb_log_target_format(tgt, &cs, &ts, msg, out);
			long l = blen(out, n);
			vt_res(); vt_i(l); vt_runs(out, l < 0 ? 0 : l); vt_end();
			free(out); free(msg);
		} else {
			int kind = (int)vt_argi(L, 13);
			long pre = vt_argi(L, 14), xc = vt_argi(L, 15), post = vt_argi(L, 16), nl = vt_argi(L, 17);
			vt_lb(); vt_i(kind); vt_i(pre); vt_i(xc); vt_i(post); vt_i(nl); vt_le();
			/* text after the first `pre' bytes */
			char *rest = malloc(post + 3);
			long p = 0;
			if (xc) rest[p++] = QB_XC;
			memset(rest + p, 'c', post); p += post;
			if (nl) rest[p++] = '\n';
			rest[p] = 0;
			char *head = rep('b', pre);
			char *all = malloc(pre + p + 1);
			memcpy(all, head, pre); memcpy(all + pre, rest, p + 1);
			clk = ts;
			got = 0; got_msg = NULL; got_out = NULL; got_len = 0;
			if (kind == 0)
				qb_log_from_external_source(fn, file, all, (uint8_t)prio, (uint32_t)lineno, 0);
			else if (kind == 1)
				qb_log_from_external_source(fn, file, "%s", (uint8_t)prio, (uint32_t)lineno, 0, all);
			else
				qb_log_from_external_source(fn, file, "%*d%s", (uint8_t)prio, (uint32_t)lineno, 0, (int)pre, 7, rest);
			vt_res();
			vt_i(got);
			if (got) {
				vt_runs(got_msg, (long)strlen(got_msg));
				vt_i(got_len); vt_runs(got_out, got_len < 0 ? 0 : got_len);
			} else {
				vt_lb(); vt_le(); vt_i(0); vt_lb(); vt_le();
			}
			vt_end();
			free(got_msg); free(got_out); free(rest); free(head); free(all);
		}
		free(fn); free(file);
	} else {
		fprintf(stderr, "h_logfmt: unknown op %s\n", op);
		exit(2);
	}
	vt_flushev();
}

#define MAXHIST 256
int main(int argc, char **argv)
{
	if (argc < 3) return 2;
	for (int i = 3; i < argc; i++) if (!strcmp(argv[i], "--fork")) use_fork = 1;
	setenv("TZ", "UTC", 1);
	tzset();
	FILE *f = fopen(argv[1], "r");
	if (!f) { perror(argv[1]); return 2; }
	vt_open(argv[2]);
	static struct vt_line H[MAXHIST];
	int first = 1, eof = 0;
	while (!eof) {
		/* read one history */
		int n = 0;
		for (;;) {
			if (!vt_readline(f, &H[n])) { eof = 1; break; }
			if (!strcmp(H[n].tok[0], "Reset")) break;
			if (++n >= MAXHIST) { fprintf(stderr, "h_logfmt: history too long\n"); return 2; }
		}
		if (eof && n == 0 && !first) break;
		if (!first) { vt_simple("Reset"); }
		first = 0;
		vt_flush();
		if (use_fork) {
			pid_t p = fork();
			if (p == 0) {
				fresh();
				for (int i = 0; i < n; i++) do_op(&H[i]);
				vt_flush();
				_exit(0);
			}
			int st = 0;
			waitpid(p, &st, 0);
			if (!(WIFEXITED(st) && WEXITSTATUS(st) == 0)) {
				/* continue after the child's output */
				fseek(vt_out, 0, SEEK_END);
				vt_ev("Crash"); vt_i(WIFSIGNALED(st) ? 1000 + WTERMSIG(st) : WEXITSTATUS(st)); vt_res(); vt_end();
				vt_flush();
			} else {
				fseek(vt_out, 0, SEEK_END);
			}
		} else {
			fresh();
			for (int i = 0; i < n; i++) do_op(&H[i]);
			qb_log_fini();
		}
	}
	vt_close();
	return 0;
}
