/* vtrace.h -- tiny ndjson event writer + schedule reader shared by the harnesses.
 * One event per executed specification action:
 *   {"e":"<action>","a":[int|list,...],"r":[int|list,...]}
 * Everything is an integer or a (nested) list of integers so that TLC can
 * compare values without type errors. */
#ifndef VTRACE_H
#define VTRACE_H
#include <stdio.h>
#include <stdlib.h>
#include <string.h>
#include <stdarg.h>
#include <stdint.h>
#include <unistd.h>

static FILE *vt_out;
static char vt_buf[1 << 16];
static size_t vt_len;
static int vt_first;

static inline void vt_open(const char *path)
{
	vt_out = fopen(path, "w");
	if (!vt_out) { perror(path); exit(2); }
	setvbuf(vt_out, NULL, _IOLBF, 1 << 16); /* line buffered: a crash loses nothing */
}
static inline void vt_close(void) { if (vt_out) { fflush(vt_out); fclose(vt_out); vt_out = NULL; } }
static inline void vt_flush(void) { if (vt_out) fflush(vt_out); }

static inline void vt_put(const char *fmt, ...)
{
	va_list ap;
	va_start(ap, fmt);
	int n = vsnprintf(vt_buf + vt_len, sizeof(vt_buf) - vt_len, fmt, ap);
	va_end(ap);
	if (n < 0 || (size_t)n >= sizeof(vt_buf) - vt_len) { fprintf(stderr, "vtrace: event too long\n"); exit(2); }
	vt_len += n;
}
static inline void vt_sep(void) { if (!vt_first) vt_put(","); vt_first = 0; }
/* begin event */
static inline void vt_ev(const char *name) { vt_len = 0; vt_put("{\"e\":\"%s\",\"a\":[", name); vt_first = 1; }
static inline void vt_i(long long v) { vt_sep(); vt_put("%lld", v); }
static inline void vt_lb(void) { vt_sep(); vt_put("["); vt_first = 1; }
static inline void vt_le(void) { vt_put("]"); vt_first = 0; }
static inline void vt_s(const char *s) { vt_sep(); vt_put("\"%s\"", s); }
/* switch from args to results */
static inline void vt_res(void) { vt_put("],\"r\":["); vt_first = 1; }
static inline void vt_end(void) { vt_put("]}\n"); fwrite(vt_buf, 1, vt_len, vt_out); }
static inline void vt_simple(const char *name) { vt_ev(name); vt_res(); vt_end(); }

/* schedule reader: lines of whitespace separated tokens; first token is the op */
#define VT_MAXTOK 64
struct vt_line { int n; char *tok[VT_MAXTOK]; char raw[4096]; };
static inline int vt_readline(FILE *f, struct vt_line *L)
{
	for (;;) {
		if (!fgets(L->raw, sizeof(L->raw), f)) return 0;
		L->n = 0;
		char *save = NULL;
		for (char *t = strtok_r(L->raw, " \t\r\n", &save); t && L->n < VT_MAXTOK; t = strtok_r(NULL, " \t\r\n", &save))
			L->tok[L->n++] = t;
		if (L->n > 0) return 1;
	}
}
static inline long long vt_argi(const struct vt_line *L, int i) { return i < L->n ? atoll(L->tok[i]) : 0; }
#endif
