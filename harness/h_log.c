/* h_log: executes a schedule of log configuration calls and log calls on the real library and
 * records every call with its observable outcome (ndjson) for LogRouteTrace.tla (property C12).
 * usage: h_log <schedule> <trace-out>
 *
 * Targets are custom targets (qb_log_custom_open); their logger callback records every invocation
 * (target, tag word, call-site attributes, message).  Log calls go through
 * qb_log_from_external_source, so call sites are arbitrary (file, function, line, priority, format)
 * tuples.  Text travels as '.'-separated character codes ("97.46.99" = "a.c") in the schedule and as
 * a list of character codes in the events.  Slot numbers are libqb target numbers minus 3
 * (QB_LOG_TARGET_DYNAMIC_START - 1), so the dynamic slots are 1..28.
 *
 * schedule lines:
 *   Open | Close t | Enable t | Disable t | ClearAll t
 *   Add t type text hi lo | Remove t type text hi lo
 *   TagSet v type text hi lo | TagClear type text hi lo | TagClearAll
 *   Log file func line prio fmt
 *   Reset                       (qb_log_fini + qb_log_init: a fresh logging system)
 * Histories are executed in batches of BATCH per forked child: within a batch every Reset is a real
 * qb_log_fini + qb_log_init; a new child bounds what fini leaves behind (lib/log_dcs.c keeps counting
 * call-site slots across fini/init, so one process cannot re-initialise for ever).  A child that dies
 * (sanitizer report, assertion) makes the harness exit non-zero.
 * The harness only projects: no routing decision is made here.                                     */
#include "os_base.h"
#include <syslog.h>
#include <sys/wait.h>
#include <qb/qblog.h>
#include "vtrace.h"

#define SLOT0 (QB_LOG_TARGET_DYNAMIC_START - 1)
#define MAXD 256
#define MAXS 512

struct deliv {
	int t;
	unsigned tags;
	char file[MAXS], func[MAXS], fmt[MAXS], msg[MAXS];
	unsigned line;
	int prio;
};
static struct deliv dl[MAXD];
static int ndl;
static int closes;

/* nothing may reach the real syslog */
void openlog(const char *ident, int option, int facility) { (void)ident; (void)option; (void)facility; }
void closelog(void) { }
void syslog(int pri, const char *fmt, ...) { (void)pri; (void)fmt; }
void vsyslog(int pri, const char *fmt, va_list ap) { (void)pri; (void)fmt; (void)ap; }

static void cp(char *dst, const char *src) { snprintf(dst, MAXS, "%s", src ? src : "\x01NULL"); }

static void logger(int32_t t, struct qb_log_callsite *cs, struct timespec *ts, const char *msg)
{
	(void)ts;
	if (ndl >= MAXD) { fprintf(stderr, "h_log: too many deliveries\n"); exit(2); }
	struct deliv *d = &dl[ndl++];
	d->t = t - SLOT0;
	d->tags = cs->tags;
	cp(d->file, cs->filename); cp(d->func, cs->function); cp(d->fmt, cs->format); cp(d->msg, msg);
	d->line = cs->lineno;
	d->prio = cs->priority;
}
static void closer(int32_t t) { (void)t; closes++; }

/* "97.46.99" -> "a.c" */
static void dec(const char *tok, char *out)
{
	int n = 0;
	while (*tok && n < MAXS - 1) {
		out[n++] = (char)strtol(tok, (char **)&tok, 10);
		if (*tok == '.') tok++;
	}
	out[n] = 0;
}
static void vt_text(const char *s)
{
	vt_lb();
	for (; *s; s++) vt_i((unsigned char)*s);
	vt_le();
}

static void fresh(void)
{
	qb_log_init("h_log", LOG_USER, LOG_INFO);
	/* the static targets stay out of the picture: syslog is the only one enabled by qb_log_init */
	qb_log_ctl(QB_LOG_SYSLOG, QB_LOG_CONF_ENABLED, QB_FALSE);
}

static int32_t filter(int32_t t, enum qb_log_filter_conf c, int type, const char *text, int hi, int lo)
{
	/* the classic entry point has an implicit window top of LOG_EMERG (0) */
	if (hi == 0) return qb_log_filter_ctl(t, c, (enum qb_log_filter_type)type, text, (uint8_t)lo);
	return qb_log_filter_ctl2(t, c, (enum qb_log_filter_type)type, text, (uint8_t)hi, (uint8_t)lo);
}

#define BATCH 200

static int is_reset(const char *line) { return !strncmp(line, "Reset", 5); }

static void tokenize(const char *line, struct vt_line *L)
{
	char *save = NULL;
	snprintf(L->raw, sizeof(L->raw), "%s", line);
	L->n = 0;
	for (char *t = strtok_r(L->raw, " \t\r\n", &save); t && L->n < VT_MAXTOK; t = strtok_r(NULL, " \t\r\n", &save))
		L->tok[L->n++] = t;
}

/* execute lines[from, to) in this (fresh) process, appending the events to `out` */
static int run(char **lines, long from, long to, const char *out)
{
	static struct vt_line L;
	static char a[MAXS], b[MAXS], c[MAXS];
	vt_out = fopen(out, "a");
	if (!vt_out) { perror(out); return 2; }
	setvbuf(vt_out, NULL, _IOFBF, 1 << 20);
	fresh();
	for (long k = from; k < to; k++) {
		tokenize(lines[k], &L);
		if (L.n == 0) continue;
		const char *op = L.tok[0];
		ndl = 0;
		if (!strcmp(op, "Reset")) {
			if (k > from) {           /* at the start of a batch the process itself is fresh */
				qb_log_fini();
				fresh();
			}
			vt_simple("Reset");
			vt_flush();
		} else if (!strcmp(op, "Open")) {
			int32_t t = qb_log_custom_open(logger, closer, NULL, NULL);
			vt_ev(op); vt_i(t >= 0 ? t - SLOT0 : t - 1000); vt_res(); vt_i(t >= 0 ? 0 : t); vt_end();
		} else if (!strcmp(op, "Close")) {
			qb_log_custom_close((int32_t)vt_argi(&L, 1) + SLOT0);
			vt_ev(op); vt_i(vt_argi(&L, 1)); vt_res(); vt_end();
		} else if (!strcmp(op, "Enable") || !strcmp(op, "Disable")) {
			int32_t rc = qb_log_ctl((int32_t)vt_argi(&L, 1) + SLOT0, QB_LOG_CONF_ENABLED, op[0] == 'E' ? QB_TRUE : QB_FALSE);
			vt_ev(op); vt_i(vt_argi(&L, 1)); vt_res(); vt_i(rc); vt_end();
		} else if (!strcmp(op, "ClearAll")) {
			int32_t rc = qb_log_filter_ctl((int32_t)vt_argi(&L, 1) + SLOT0, QB_LOG_FILTER_CLEAR_ALL, QB_LOG_FILTER_FILE, "*", LOG_TRACE);
			vt_ev(op); vt_i(vt_argi(&L, 1)); vt_res(); vt_i(rc); vt_end();
		} else if (!strcmp(op, "Add") || !strcmp(op, "Remove")) {
			dec(L.tok[3], a);
			int32_t rc = filter((int32_t)vt_argi(&L, 1) + SLOT0, op[0] == 'A' ? QB_LOG_FILTER_ADD : QB_LOG_FILTER_REMOVE,
					    (int)vt_argi(&L, 2), a, (int)vt_argi(&L, 4), (int)vt_argi(&L, 5));
			vt_ev(op); vt_i(vt_argi(&L, 1)); vt_i(vt_argi(&L, 2)); vt_text(a); vt_i(vt_argi(&L, 4)); vt_i(vt_argi(&L, 5));
			vt_res(); vt_i(rc); vt_end();
		} else if (!strcmp(op, "TagSet")) {
			dec(L.tok[3], a);
			int32_t rc = filter((int32_t)vt_argi(&L, 1), QB_LOG_TAG_SET, (int)vt_argi(&L, 2), a, (int)vt_argi(&L, 4), (int)vt_argi(&L, 5));
			vt_ev(op); vt_i(vt_argi(&L, 1)); vt_i(vt_argi(&L, 2)); vt_text(a); vt_i(vt_argi(&L, 4)); vt_i(vt_argi(&L, 5));
			vt_res(); vt_i(rc); vt_end();
		} else if (!strcmp(op, "TagClear")) {
			dec(L.tok[2], a);
			int32_t rc = filter(0, QB_LOG_TAG_CLEAR, (int)vt_argi(&L, 1), a, (int)vt_argi(&L, 3), (int)vt_argi(&L, 4));
			vt_ev(op); vt_i(vt_argi(&L, 1)); vt_text(a); vt_i(vt_argi(&L, 3)); vt_i(vt_argi(&L, 4));
			vt_res(); vt_i(rc); vt_end();
		} else if (!strcmp(op, "TagClearAll")) {
			int32_t rc = qb_log_filter_ctl(0, QB_LOG_TAG_CLEAR_ALL, QB_LOG_FILTER_FILE, "*", LOG_TRACE);
			vt_ev(op); vt_res(); vt_i(rc); vt_end();
		} else if (!strcmp(op, "Log")) {
			dec(L.tok[1], a); dec(L.tok[2], b); dec(L.tok[5], c);
			/* the format carries no conversion: the message is the format itself */
			if (strchr(c, '%') || !c[0]) { fprintf(stderr, "h_log: format must be plain and non-empty\n"); return 2; }
			/* line numbers from 100 on: the call site passes a tag of its own (line - 100) */
			qb_log_from_external_source(b, a, c, (uint8_t)vt_argi(&L, 4), (uint32_t)vt_argi(&L, 3),
						    vt_argi(&L, 3) >= 100 ? (uint32_t)(vt_argi(&L, 3) - 100) : 0);
			vt_ev(op); vt_text(a); vt_text(b); vt_i(vt_argi(&L, 3)); vt_i(vt_argi(&L, 4)); vt_text(c);
			vt_res();
			vt_lb();
			for (int i = 0; i < ndl; i++) {
				struct deliv *d = &dl[i];
				vt_lb();
				vt_i(d->t); vt_i(d->tags); vt_text(d->file); vt_text(d->func); vt_i(d->line); vt_i(d->prio);
				vt_text(d->fmt); vt_text(d->msg);
				vt_le();
			}
			vt_le();
			vt_end();
		} else {
			fprintf(stderr, "h_log: unknown op %s\n", op); return 2;
		}
		/* a logger callback outside a log call is never allowed */
		if (ndl && strcmp(op, "Log")) { vt_ev("UnexpectedDelivery"); vt_res(); vt_end(); }
	}
	qb_log_fini();
	vt_close();
	return 0;
}

int main(int argc, char **argv)
{
	if (argc < 3) return 2;
	FILE *f = fopen(argv[1], "r");
	if (!f) { perror(argv[1]); return 2; }
	char **lines = NULL;
	long n = 0, cap = 0;
	static char buf[4096];
	while (fgets(buf, sizeof(buf), f)) {
		if (n == cap) { cap = cap ? 2 * cap : 1024; lines = realloc(lines, cap * sizeof(*lines)); if (!lines) return 2; }
		lines[n++] = strdup(buf);
	}
	fclose(f);
	f = fopen(argv[2], "w");
	if (!f) { perror(argv[2]); return 2; }
	fclose(f);
	long i = 0;
	while (i < n) {
		long j = i + 1;
		int resets = 0;
		while (j < n) {
			if (is_reset(lines[j]) && ++resets == BATCH) break;
			j++;
		}
		fflush(NULL);
		pid_t pid = fork();
		if (pid < 0) { perror("fork"); return 2; }
		if (pid == 0) exit(run(lines, i, j, argv[2]));
		int st = 0;
		if (waitpid(pid, &st, 0) < 0) { perror("waitpid"); return 2; }
		if (!WIFEXITED(st)) return 100 + (WIFSIGNALED(st) ? WTERMSIG(st) : 0);
		if (WEXITSTATUS(st) != 0) return WEXITSTATUS(st);
		i = j;
	}
	return 0;
}
