/* h_ipc_life: ONE process, ONE thread.  A real qb_ipcs service (QB_IPC_SHM or
 * QB_IPC_SOCKET) whose qb_ipcs_poll_handlers are this harness's own table, so the
 * program decides when each registered descriptor callback and each queued job
 * runs.  Clients are in-process (qb_ipcc_connect_async + stepping the server +
 * qb_ipcc_connect_continue; qb_ipcc_disconnect) or forked children that connect
 * and die (_exit) when told.  The five service callbacks execute the body the
 * program prescribes and log themselves; every API call the application makes
 * and every callback is one ndjson event for IpcLifeTrace.tla (property C04).
 * The harness only executes and projects: connection pointers -> ordinals
 * (order of the accept callback), its own reference bookkeeping (so that it
 * never uses a handle it has no right to use).  What may happen when is decided
 * by spec/IpcLife.tla; freed-memory accesses are observed by ASan.
 *
 * usage: h_ipc_life <schedule> <trace-out> [--kf-skip=1,2,...]
 *   --kf-skip=<list>: do not execute the steps that fall under the recorded findings KF-C04-<n> (see kf() below); each
 *   finding has a directed reproducer in vlib/checks/c04.py that runs without this switch.
 *
 * schedule (one history; histories are separated by "Reset"):
 *   Svc <0 shm|1 sock>
 *   AcceptRet <conn> <v>              value returned by connection_accept for that connection (default 0)
 *   ClosedRet <conn> <v1> <v2> ...    values returned by successive connection_closed calls (then 0)
 *   Body <accept|created|msg|closed|destroyed> <conn> <nth|0> op ; op ; ...
 *   top-level ops: CConnect k | CContinue k | CSend k n | CRecv k | CDisc k | Fork k mode nmsg | Wait k | Kill k
 *                  Step | Jobs | Drain | and every body op
 *   body ops:      Kill k | Disconnect c | Ref c | Unref c | Resp c | Event c | Stats self (destroyed only) | IterFirst | IterNext | UnrefPrev | UnrefCur
 *                  SvcRef | SvcUnref | RateLimit rl | SvcDestroy (top level only)
 *   c = self | ordinal.  Ops the application has no right to make (no handle, no reference to drop) are not executed.
 */
#include "os_base.h"
#include <poll.h>
#include <signal.h>
#include <sched.h>
#include <dirent.h>
#include <sys/wait.h>
#include <sys/mount.h>
#include <qb/qbdefs.h>
#include <qb/qbloop.h>
#include <qb/qbipc_common.h>
#include <qb/qbipcs.h>
#include <qb/qbipcc.h>
#include "vtrace.h"

/* libqb's server side sleeps 10 x 100 ms when an event is sent before the client finished connecting (the client is
 * this very thread): make that wait free.  Statically linked, so this definition wins over libc's. */
int usleep(useconds_t u) { (void)u; return 0; }

extern int32_t qb_ipcs_dispatch_connection_request(int32_t fd, int32_t revents, void *data);

#define MAXMSG 8192
static unsigned kf_mask;         /* bit n: leave out the steps that fall under recorded finding KF-C04-n */
/* KF-C04-1  qb_ipcs_disconnect (also through qb_ipcs_destroy) of a connection whose connection_closed was already invoked
 * KF-C04-2  qb_ipcs_disconnect of a connection from inside its own msg_process (released under the dispatcher)
 * KF-C04-3  same trigger: the dispatcher goes on delivering requests / disconnects a second time
 * KF-C04-4  qb_ipcs_request_rate_limit while a connection that was disconnected inside connection_created is still listed
 * KF-C04-5  response/event send to such a connection on the socket transport
 * KF-C04-6  during qb_ipcs_destroy a callback releases or disconnects ANOTHER connection (the list walk's saved next)
 * KF-C04-7  socket transport: qb_ipcs_request_rate_limit while a connection whose connection_closed was invoked is still listed */
static int kf(int n) { return (kf_mask >> n) & 1; }
static int hist_no;

/* ---------------------------------------------------------------- program text */
#define MAXLINES 2048
static struct vt_line *prog;
static int nprog;
enum { CB_ACCEPT = 1, CB_CREATED, CB_MSG, CB_CLOSED, CB_DESTROYED, FR_DISC, FR_UNREF, FR_SVCDESTROY, FR_FD, FR_JOB };
static const char *cbname[] = { "", "accept", "created", "msg", "closed", "destroyed" };

/* ---------------------------------------------------------------- connections (server side view) */
#define MAXC 64
struct conn {
	qb_ipcs_connection_t *ptr;
	int id, app_refs, destroyed, in_destroyed, closed_calls, msgs, created, in_created, in_msg, torn;
};
static struct conn conns[MAXC];
static int nconn;
static struct conn *by_ptr(qb_ipcs_connection_t *p)
{
	for (int i = nconn - 1; i >= 0; i--) if (conns[i].ptr == p) return &conns[i];
	return NULL;
}
static struct conn *by_id(int id) { return (id >= 1 && id <= nconn) ? &conns[id - 1] : NULL; }

/* ---------------------------------------------------------------- service */
static qb_ipcs_service_t *svc;
static int svc_own_refs;        /* references this application holds on the service (creator + SvcRef) */
static int svc_destroyed, in_svc_destroy;
static struct conn *destroy_outer;   /* connection whose callback is the outermost one inside qb_ipcs_destroy */
static char svc_name[64];
static int svc_type;
static int cb_depth;            /* > 0 while inside a service callback */
static struct conn *cur, *prev; /* connection-list cursor */

/* ---------------------------------------------------------------- the application's main loop stand-in */
struct pent { int fd, ev, live; unsigned gen; void *data; qb_ipcs_dispatch_fn_t fn; };
static struct pent pt[512];
static int npt;
static unsigned pgen;
struct jent { void *data; qb_loop_job_dispatch_fn fn; };
static struct jent jobs[512];
static int njobs;

static struct pent *pfind(int fd) { for (int i = 0; i < npt; i++) if (pt[i].live && pt[i].fd == fd) return &pt[i]; return NULL; }
static int32_t h_dispatch_add(enum qb_loop_priority p, int32_t fd, int32_t ev, void *data, qb_ipcs_dispatch_fn_t fn)
{
	if (pfind(fd)) return -EEXIST;
	struct pent *e = NULL;
	for (int i = 0; i < npt; i++) if (!pt[i].live) { e = &pt[i]; break; }
	if (!e) { if (npt >= 512) return -ENOMEM; e = &pt[npt++]; }
	e->fd = fd; e->ev = ev; e->data = data; e->fn = fn; e->live = 1; e->gen = ++pgen;
	return 0;
}
static void *sending_for;      /* connection the application is sending on right now */
ssize_t send(int fd, const void *buf, size_t n, int flags)
{
	if (sending_for) {
		struct pent *e = pfind(fd);
		if (e && e->fn == qb_ipcs_dispatch_connection_request && e->data != sending_for) {
			int e_ = errno;
			vt_ev("ForeignFd"); vt_i(fd); vt_res(); vt_end();
			errno = e_;
		}
	}
	return sendto(fd, buf, n, flags, NULL, 0);
}
static int32_t h_dispatch_mod(enum qb_loop_priority p, int32_t fd, int32_t ev, void *data, qb_ipcs_dispatch_fn_t fn)
{
	struct pent *e = pfind(fd);
	if (!e) return -ENOENT;
	e->ev = ev; e->data = data; e->fn = fn;
	return 0;
}
static int32_t h_dispatch_del(int32_t fd)
{
	struct pent *e = pfind(fd);
	if (!e) return -ENOENT;
	e->live = 0;
	return 0;
}
static int32_t h_job_add(enum qb_loop_priority p, void *data, qb_loop_job_dispatch_fn fn)
{
	if (njobs >= 512) return -ENOMEM;
	jobs[njobs].data = data; jobs[njobs].fn = fn; njobs++;
	return 0;
}

static void ev_begin(const char *name, int c) { vt_ev(name); vt_i(c); vt_res(); vt_end(); }
static void ev_end(int kind) { vt_ev("End"); vt_i(kind); vt_res(); vt_end(); }

/* one poll round: every registered descriptor that is ready gets its callback once */
static int step(void)
{
	struct pollfd pf[512];
	unsigned g[512];
	int n = 0, ran = 0;
	for (int i = 0; i < npt; i++) if (pt[i].live) { pf[n].fd = pt[i].fd; pf[n].events = pt[i].ev; pf[n].revents = 0; g[n] = pt[i].gen; n++; }
	if (n == 0 || poll(pf, n, 0) <= 0) return 0;
	for (int k = 0; k < n; k++) {
		if (!pf[k].revents) continue;
		struct pent *e = pfind(pf[k].fd);
		if (!e || e->gen != g[k]) continue;     /* registration went away (or was replaced) during this round */
		int kind = 0, cid = 0;
		if (e->fn == qb_ipcs_dispatch_connection_request) { struct conn *c = by_ptr(e->data); kind = 2; cid = c ? c->id : 0; }
		else if (e->data == svc) kind = 0; else kind = 1;
		vt_ev("Fd"); vt_i(kind); vt_i(cid); vt_i(pf[k].revents); vt_res(); vt_end();
		int32_t rc = e->fn(pf[k].fd, pf[k].revents, e->data);
		ev_end(FR_FD);
		ran++;
		if (rc < 0) { struct pent *e2 = pfind(pf[k].fd); if (e2 && e2->gen == g[k]) e2->live = 0; }
	}
	return ran;
}
static int run_jobs(void)
{
	struct jent batch[512];
	int n = njobs;
	memcpy(batch, jobs, sizeof(struct jent) * n);
	njobs = 0;
	for (int i = 0; i < n; i++) {
		struct conn *c = by_ptr(batch[i].data);
		vt_ev("Job"); vt_i(c ? c->id : 0); vt_res(); vt_end();
		batch[i].fn(batch[i].data);
		ev_end(FR_JOB);
	}
	return n;
}
static void drain(void)
{
	for (int r = 0; r < 64; r++) {
		int a = step();
		int b = run_jobs();
		if (!a && !b) break;
	}
}

/* ---------------------------------------------------------------- clients */
#define MAXK 16
struct client { qb_ipcc_connection_t *c; int fd, connected; pid_t pid; int to_child, from_child, mode, reported; };
static struct client cl[MAXK];
static void env(const char *what, int k, long long v) { vt_ev("Env"); vt_s(what); vt_i(k); vt_i(v); vt_res(); vt_end(); }

static void close_all_but(int a, int b)
{
	DIR *d = opendir("/proc/self/fd");
	int fds[1024], n = 0;
	if (!d) return;
	struct dirent *de;
	while ((de = readdir(d)) && n < 1024) { int fd = atoi(de->d_name); if (fd > 2 && fd != a && fd != b && fd != dirfd(d)) fds[n++] = fd; }
	closedir(d);
	for (int i = 0; i < n; i++) close(fds[i]);
}
static void child_main(int mode, int nmsg, int rd, int wr)
{
	char b;
	int fd = -1;
	vt_out = NULL;
	close_all_but(rd, wr);
	qb_ipcc_connection_t *c = qb_ipcc_connect_async(svc_name, MAXMSG, &fd);
	if (!c) { (void)!write(wr, "F", 1); _exit(0); }
	(void)!write(wr, "A", 1);
	if (mode >= 1) {
		struct pollfd p = { fd, POLLIN, 0 };
		poll(&p, 1, 5000);
		if (qb_ipcc_connect_continue(c) != 0) { (void)!write(wr, "F", 1); (void)!read(rd, &b, 1); _exit(0); }
		struct { struct qb_ipc_request_header h; char pad[16]; } m;
		memset(&m, 0, sizeof(m));
		for (int i = 0; i < nmsg; i++) { m.h.id = 100 + i; m.h.size = sizeof(m); qb_ipcc_send(c, &m, sizeof(m)); }
		(void)!write(wr, "S", 1);
	}
	(void)!read(rd, &b, 1);         /* wait to be told to die (or for the parent to go away) */
	_exit(0);
}
static int child_wait_byte(struct client *k, int ms)
{
	struct pollfd p = { k->from_child, POLLIN, 0 };
	char b = 0;
	if (poll(&p, 1, ms) == 1 && read(k->from_child, &b, 1) == 1) return b;
	return 0;
}
static void kill_child(struct client *k)
{
	if (!k->pid) return;
	close(k->to_child);
	kill(k->pid, SIGKILL);          /* dies wherever it is (possibly in the middle of the handshake) */
	int st;
	waitpid(k->pid, &st, 0);
	close(k->from_child);
	k->pid = 0;
}

/* ---------------------------------------------------------------- callbacks */
static void exec_op(struct vt_line *L, int t0, int n, struct conn *self);
static struct vt_line *find_body(int kind, int cid, int nth)
{
	struct vt_line *any = NULL;
	for (int i = 0; i < nprog; i++) {
		struct vt_line *L = &prog[i];
		if (strcmp(L->tok[0], "Body") || L->n < 4 || strcmp(L->tok[1], cbname[kind]) || atoi(L->tok[2]) != cid) continue;
		if (atoi(L->tok[3]) == nth) return L;
		if (atoi(L->tok[3]) == 0) any = L;
	}
	return any;
}
static void run_body(int kind, struct conn *c, int nth)
{
	struct vt_line *L = find_body(kind, c->id, nth);
	if (!L) return;
	int s = 4;
	for (int i = 4; i <= L->n; i++)
		if (i == L->n || !strcmp(L->tok[i], ";")) { if (i > s) exec_op(L, s, i - s, c); s = i + 1; }
}
static long long list_val(const char *key, int cid, int nth)
{
	for (int i = 0; i < nprog; i++) {
		struct vt_line *L = &prog[i];
		if (!strcmp(L->tok[0], key) && L->n >= 3 && atoi(L->tok[1]) == cid) return (2 + nth - 1 < L->n) ? atoll(L->tok[2 + nth - 1]) : 0;
	}
	return 0;
}
static struct conn *unknown(qb_ipcs_connection_t *p)
{
	/* a callback for a pointer the application was never told about: ordinal 0, which the specification never allows */
	static struct conn z;
	memset(&z, 0, sizeof(z)); z.ptr = p;
	return &z;
}

static int32_t cb_accept(qb_ipcs_connection_t *p, uid_t uid, gid_t gid)
{
	if (nconn >= MAXC) { fprintf(stderr, "h_ipc_life: too many connections\n"); exit(2); }
	struct conn *c = &conns[nconn];
	memset(c, 0, sizeof(*c));
	c->ptr = p; c->id = ++nconn;
	int32_t ret = (int32_t)list_val("AcceptRet", c->id, 1);
	vt_ev("Accept"); vt_i(c->id); vt_res(); vt_i(ret); vt_end();
	cb_depth++;
	run_body(CB_ACCEPT, c, 1);
	cb_depth--;
	ev_end(CB_ACCEPT);
	return ret;
}
static void cb_created(qb_ipcs_connection_t *p)
{
	struct conn *c = by_ptr(p);
	if (!c) c = unknown(p);
	c->created = 1; c->in_created = 1;
	ev_begin("Created", c->id);
	cb_depth++;
	if (c->id) run_body(CB_CREATED, c, 1);
	cb_depth--;
	c->in_created = 0;
	ev_end(CB_CREATED);
}
static int32_t cb_msg(qb_ipcs_connection_t *p, void *data, size_t size)
{
	struct conn *c = by_ptr(p);
	if (!c) c = unknown(p);
	c->msgs++;
	ev_begin("Msg", c->id);
	cb_depth++; c->in_msg++;
	if (c->id) run_body(CB_MSG, c, c->msgs);
	cb_depth--; c->in_msg--;
	ev_end(CB_MSG);
	return 0;
}
static int32_t cb_closed(qb_ipcs_connection_t *p)
{
	struct conn *c = by_ptr(p);
	if (!c) c = unknown(p);
	c->closed_calls++;
	int32_t ret = c->id ? (int32_t)list_val("ClosedRet", c->id, c->closed_calls) : 0;
	vt_ev("Closed"); vt_i(c->id); vt_res(); vt_i(ret); vt_end();
	struct conn *outer = destroy_outer;
	if (in_svc_destroy && !destroy_outer) destroy_outer = c;
	cb_depth++;
	if (c->id) run_body(CB_CLOSED, c, c->closed_calls);
	cb_depth--;
	destroy_outer = outer;
	ev_end(CB_CLOSED);
	return ret;
}
static void cb_destroyed(qb_ipcs_connection_t *p)
{
	struct conn *c = by_ptr(p);
	if (!c) c = unknown(p);
	c->destroyed = 1; c->in_destroyed = 1;
	ev_begin("Destroyed", c->id);
	struct conn *outer = destroy_outer;
	if (in_svc_destroy && !destroy_outer) destroy_outer = c;
	cb_depth++;
	if (c->id) run_body(CB_DESTROYED, c, 1);
	cb_depth--;
	destroy_outer = outer;
	c->in_destroyed = 0;
	ev_end(CB_DESTROYED);
}

/* ---------------------------------------------------------------- operations */
static struct conn *carg(struct vt_line *L, int t, struct conn *self)
{
	if (t >= L->n) return NULL;
	if (!strcmp(L->tok[t], "self")) return self;
	return by_id(atoi(L->tok[t]));
}
static int usable(struct conn *c) { return c && c->id && !c->destroyed; }
static int svc_stats;       /* --svc-stats: record qb_ipcs_stats_get after every main-loop step (check X03; off for C04 / C03) */
static int svc_usable(void) { return svc && svc_own_refs > 0; }
static void app_unref(struct conn *c)
{
	c->app_refs--;
	ev_begin("Unref", c->id);
	qb_ipcs_connection_unref(c->ptr);
	ev_end(FR_UNREF);
}
static void do_svc_destroy(void)
{
	if (!svc_usable() || svc_destroyed || cb_depth) return;
	if (kf(1)) /* qb_ipcs_destroy disconnects every listed connection, including those already shutting down */
		for (int i = 0; i < nconn; i++) if (!conns[i].destroyed && conns[i].closed_calls) return;
	svc_destroyed = 1; svc_own_refs--;
	ev_begin("SvcDestroy", 0);
	in_svc_destroy = 1; destroy_outer = NULL;
	qb_ipcs_destroy(svc);
	in_svc_destroy = 0;
	ev_end(FR_SVCDESTROY);
}

static void exec_op(struct vt_line *L, int t0, int n, struct conn *self)
{
	const char *op = L->tok[t0];
	struct conn *c;
	int k = (t0 + 1 < L->n) ? atoi(L->tok[t0 + 1]) : 0;
	if (!strcmp(op, "Disconnect")) {
		c = carg(L, t0 + 1, self);
		if (!usable(c)) return;
		if (kf(1) && c->closed_calls) return;
		if ((kf(2) || kf(3)) && c->in_msg) return;
		if (kf(6) && in_svc_destroy && c != destroy_outer) return;
		if (c->in_created) c->torn = 1;
		ev_begin("Disconnect", c->id);
		qb_ipcs_disconnect(c->ptr);
		ev_end(FR_DISC);
	} else if (!strcmp(op, "Ref")) {
		c = carg(L, t0 + 1, self);
		if (!usable(c)) return;
		c->app_refs++;
		ev_begin("Ref", c->id);
		qb_ipcs_connection_ref(c->ptr);
	} else if (!strcmp(op, "Unref")) {
		c = carg(L, t0 + 1, self);
		if (!usable(c) || c->app_refs <= 0) return;
		if (kf(6) && in_svc_destroy && c != destroy_outer) return;
		app_unref(c);
	} else if (!strcmp(op, "UnrefPrev") || !strcmp(op, "UnrefCur")) {
		c = op[5] == 'P' ? prev : cur;
		if (!usable(c) || c->app_refs <= 0) return;
		if (kf(6) && in_svc_destroy && c != destroy_outer) return;
		app_unref(c);
	} else if (!strcmp(op, "Resp") || !strcmp(op, "Event")) {
		c = carg(L, t0 + 1, self);
		if (!usable(c)) return;
		if (kf(5) && c->torn && svc_type == 1) return;
		struct { struct qb_ipc_response_header h; char pad[16]; } m;
		memset(&m, 0, sizeof(m));
		m.h.id = 7; m.h.size = sizeof(m);
		ev_begin(op, c->id);
		/* while the call runs, every send() the library makes on a descriptor that the loop has registered for ANOTHER
		 * connection is recorded (ForeignFd: the descriptor number of a connection that was torn down, reused since) */
		void *keep = sending_for;
		sending_for = c->ptr;
		if (op[0] == 'R') qb_ipcs_response_send(c->ptr, &m, sizeof(m)); else qb_ipcs_event_send(c->ptr, &m, sizeof(m));
		sending_for = keep;
	} else if (!strcmp(op, "Stats")) {
		c = carg(L, t0 + 1, self);
		/* only where corosync-like servers read them: in connection_destroyed of a connection that was established and
		 * closed (on the socket transport the statistics of a never-established or half-torn-down connection read unmapped
		 * memory -- outside this property, reported separately) */
		if (!c || !c->id || !c->in_destroyed || !c->closed_calls) return;
		ev_begin("Stats", c->id);
		struct qb_ipcs_connection_stats_2 *st = qb_ipcs_connection_stats_get_2(c->ptr, 0);
		free(st);
	} else if (!strcmp(op, "IterFirst")) {
		if (!svc_usable()) return;
		qb_ipcs_connection_t *p = qb_ipcs_connection_first_get(svc);
		c = p ? by_ptr(p) : NULL;
		if (p && !c) c = unknown(p);
		vt_ev("IterFirst"); vt_res(); vt_i(c ? c->id : 0); vt_end();
		if (c) c->app_refs++;
		prev = NULL; cur = c;
	} else if (!strcmp(op, "IterNext")) {
		if (!svc_usable() || !usable(cur) || cur->app_refs <= 0) return;
		qb_ipcs_connection_t *p = qb_ipcs_connection_next_get(svc, cur->ptr);
		c = p ? by_ptr(p) : NULL;
		if (p && !c) c = unknown(p);
		vt_ev("IterNext"); vt_i(cur->id); vt_res(); vt_i(c ? c->id : 0); vt_end();
		if (c) c->app_refs++;
		prev = cur; cur = c;
	} else if (!strcmp(op, "SvcRef")) {
		if (!svc_usable()) return;
		svc_own_refs++;
		ev_begin("SvcRef", 0);
		qb_ipcs_ref(svc);
	} else if (!strcmp(op, "SvcUnref")) {
		if (!svc_usable() || svc_own_refs <= (svc_destroyed ? 0 : 1)) return;     /* only references taken with SvcRef */
		svc_own_refs--;
		ev_begin("SvcUnref", 0);
		qb_ipcs_unref(svc);
	} else if (!strcmp(op, "RateLimit")) {
		if (!svc_usable()) return;
		if (kf(4)) for (int i = 0; i < nconn; i++) if (conns[i].torn && !conns[i].destroyed) return;
		if (kf(7) && svc_type == 1) for (int i = 0; i < nconn; i++) if (conns[i].closed_calls && !conns[i].destroyed) return;
		ev_begin("RateLimit", k);
		qb_ipcs_request_rate_limit(svc, (enum qb_ipcs_rate_limit)k);
	} else if (!strcmp(op, "SvcDestroy")) {
		do_svc_destroy();
	} else if (!strcmp(op, "Kill")) {
		/* also inside a callback: the client process dies while the server is busy with it (e.g. in connection_accept,
		 * between the server reading the connect request and writing the answer) */
		if (k < 0 || k >= MAXK || !cl[k].pid) return;
		kill_child(&cl[k]);
		env("Kill", k, 0);
	} else if (cb_depth) {
		fprintf(stderr, "h_ipc_life: op %s not allowed inside a callback\n", op); exit(2);
	} else if (!strcmp(op, "Step")) {
		step();
	} else if (!strcmp(op, "Jobs")) {
		run_jobs();
	} else if (!strcmp(op, "Drain")) {
		drain();
	} else if (!strcmp(op, "CConnect")) {
		if (k < 0 || k >= MAXK || cl[k].c || cl[k].pid) return;
		cl[k].c = qb_ipcc_connect_async(svc_name, MAXMSG, &cl[k].fd);
		cl[k].connected = 0;
		env("CConnect", k, cl[k].c != NULL);
	} else if (!strcmp(op, "CContinue")) {
		if (k < 0 || k >= MAXK || !cl[k].c || cl[k].connected) return;
		int rc = qb_ipcc_connect_continue(cl[k].c);
		if (rc != 0) cl[k].c = NULL; else cl[k].connected = 1;     /* on failure the library has released the handle */
		env("CContinue", k, rc);
	} else if (!strcmp(op, "CSend")) {
		if (k < 0 || k >= MAXK || !cl[k].c || !cl[k].connected) return;
		int cnt = atoi(L->tok[t0 + 2]), ok = 0;
		struct { struct qb_ipc_request_header h; char pad[16]; } m;
		memset(&m, 0, sizeof(m));
		for (int i = 0; i < cnt; i++) { m.h.id = 100 + i; m.h.size = sizeof(m); if (qb_ipcc_send(cl[k].c, &m, sizeof(m)) == sizeof(m)) ok++; }
		env("CSend", k, ok);
	} else if (!strcmp(op, "CRecv")) {
		if (k < 0 || k >= MAXK || !cl[k].c || !cl[k].connected) return;
		char buf[256]; int got = 0;
		while (got < 600 && qb_ipcc_recv(cl[k].c, buf, sizeof(buf), 0) > 0) got++;
		while (got < 600 && qb_ipcc_event_recv(cl[k].c, buf, sizeof(buf), 0) > 0) got++;
		env("CRecv", k, got);
	} else if (!strcmp(op, "CDisc")) {
		if (k < 0 || k >= MAXK || !cl[k].c) return;
		if (!cl[k].connected) {
			/* the handshake was never completed: the public API offers qb_ipcc_connect_continue to finish (or fail) it */
			int rc = qb_ipcc_connect_continue(cl[k].c);
			env("CContinue", k, rc);
			if (rc != 0) { cl[k].c = NULL; return; }
		}
		qb_ipcc_disconnect(cl[k].c);
		cl[k].c = NULL; cl[k].connected = 0;
		env("CDisc", k, 0);
	} else if (!strcmp(op, "Fork")) {
		if (k < 0 || k >= MAXK || cl[k].c || cl[k].pid) return;
		int mode = atoi(L->tok[t0 + 2]), nmsg = atoi(L->tok[t0 + 3]);
		int p1[2], p2[2];
		if (pipe(p1) || pipe(p2)) { perror("pipe"); exit(2); }
		vt_flush();
		pid_t pid = fork();
		if (pid < 0) { perror("fork"); exit(2); }
		if (pid == 0) { close(p1[1]); close(p2[0]); child_main(mode, nmsg, p1[0], p2[1]); }
		close(p1[0]); close(p2[1]);
		cl[k].pid = pid; cl[k].to_child = p1[1]; cl[k].from_child = p2[0]; cl[k].mode = mode; cl[k].reported = 0;
		int b = child_wait_byte(&cl[k], 10000);       /* 'A': the connect request is on its way */
		env("Fork", k, b);
		if (b != 'A') kill_child(&cl[k]);
	} else if (!strcmp(op, "Wait")) {
		/* serve the child until it reports that it is connected and has sent its messages (or failed) */
		if (k < 0 || k >= MAXK || !cl[k].pid || cl[k].mode < 1 || cl[k].reported) return;
		int b = 0;
		for (int r = 0; r < 400 && !b; r++) { step(); b = child_wait_byte(&cl[k], 5); if (b == 'A') b = 0; }
		cl[k].reported = b;
		env("Wait", k, b);
	} else {
		fprintf(stderr, "h_ipc_life: unknown op %s\n", op); exit(2);
	}
}

/* ---------------------------------------------------------------- one history */
static struct qb_ipcs_service_handlers sh = {
	.connection_accept = cb_accept, .connection_created = cb_created, .msg_process = cb_msg,
	.connection_closed = cb_closed, .connection_destroyed = cb_destroyed,
};
static struct qb_ipcs_poll_handlers ph = { .job_add = h_job_add, .dispatch_add = h_dispatch_add, .dispatch_mod = h_dispatch_mod, .dispatch_del = h_dispatch_del };

static void start(int type)
{
	nconn = 0; npt = 0; njobs = 0; cur = prev = NULL; cb_depth = 0; svc_destroyed = 0; in_svc_destroy = 0; destroy_outer = NULL; svc_type = type;
	memset(cl, 0, sizeof(cl));
	snprintf(svc_name, sizeof(svc_name), "vq%d_%d", (int)getpid(), hist_no);
	svc = qb_ipcs_create(svc_name, 4, type ? QB_IPC_SOCKET : QB_IPC_SHM, &sh);
	if (!svc) { fprintf(stderr, "h_ipc_life: qb_ipcs_create failed\n"); exit(2); }
	svc_own_refs = 1;
	qb_ipcs_poll_handlers_set(svc, &ph);
	int rc = qb_ipcs_run(svc);
	if (rc != 0) { fprintf(stderr, "h_ipc_life: qb_ipcs_run: %d\n", rc); exit(2); }
	vt_ev("Svc"); vt_i(type); vt_res(); vt_end();
}
static void sweep_shm(void);
/* end of a history: every client goes away, the loop runs until nothing is left to do, the application drops what it
 * still holds and destroys the service; all of it through the same logged operations */
static void finish(void)
{
	for (int k = 0; k < MAXK; k++) {
		if (cl[k].pid) { kill_child(&cl[k]); env("Kill", k, 0); }
		if (cl[k].c) {
			if (!cl[k].connected && qb_ipcc_connect_continue(cl[k].c) != 0) { cl[k].c = NULL; continue; }
			qb_ipcc_disconnect(cl[k].c); cl[k].c = NULL; env("CDisc", k, 0);
		}
	}
	drain();
	for (int i = 0; i < nconn; i++)
		while (!conns[i].destroyed && conns[i].app_refs > 0) app_unref(&conns[i]);
	drain();
	do_svc_destroy();
	drain();
	while (svc_own_refs > 0 && svc_destroyed) { svc_own_refs--; ev_begin("SvcUnref", 0); qb_ipcs_unref(svc); }
	drain();
	int left = 0;
	for (int i = 0; i < npt; i++) if (pt[i].live) left++;
	vt_ev("Final"); vt_res(); vt_i(left); vt_i(njobs); vt_end();
	svc = NULL;
	sweep_shm();
}

static int shm_private;
/* fallback when no private /dev/shm could be set up: remove what this server (pid) left there */
static void sweep_shm(void)
{
	if (shm_private) return;
	char pre[64], path[512];
	snprintf(pre, sizeof(pre), "qb-%d-", (int)getpid());
	DIR *d = opendir("/dev/shm");
	if (!d) return;
	struct dirent *de;
	while ((de = readdir(d))) {
		if (strncmp(de->d_name, pre, strlen(pre))) continue;
		snprintf(path, sizeof(path), "/dev/shm/%s", de->d_name);
		DIR *e = opendir(path);
		if (e) {
			struct dirent *fe;
			char fp[1024];
			while ((fe = readdir(e))) if (fe->d_name[0] != '.') { snprintf(fp, sizeof(fp), "%s/%s", path, fe->d_name); unlink(fp); }
			closedir(e);
			rmdir(path);
		} else unlink(path);
	}
	closedir(d);
}
static void private_shm(void)
{
	/* connection files live in /dev/shm: give this process (and its children) a private, empty one, so that nothing
	 * is left behind whatever happens (works as root; otherwise files are removed by name at exit) */
	if (unshare(CLONE_NEWNS) == 0) {
		mount("none", "/", NULL, MS_REC | MS_PRIVATE, NULL);
		if (mount("tmpfs", "/dev/shm", "tmpfs", 0, "size=2g") == 0) { shm_private = 1; return; }
	}
	fprintf(stderr, "h_ipc_life: private /dev/shm not available\n");
}

int main(int argc, char **argv)
{
	if (argc < 3) return 2;
	for (int i = 3; i < argc; i++)
		if (!strcmp(argv[i], "--svc-stats")) svc_stats = 1;
		else if (!strncmp(argv[i], "--kf-skip=", 10))
			for (char *q = argv[i] + 10; *q; q++) if (*q >= '1' && *q <= '9') kf_mask |= 1u << (*q - '0');
	FILE *f = fopen(argv[1], "r");
	if (!f) { perror(argv[1]); return 2; }
	signal(SIGPIPE, SIG_IGN);
	private_shm();
	prog = calloc(MAXLINES, sizeof(*prog));
	vt_open(argv[2]);
	int eof = 0;
	while (!eof) {
		nprog = 0;
		for (;;) {
			if (!vt_readline(f, &prog[nprog])) { eof = 1; break; }
			if (!strcmp(prog[nprog].tok[0], "Reset")) break;
			if (++nprog >= MAXLINES - 1) { fprintf(stderr, "h_ipc_life: history too long\n"); return 2; }
		}
		if (nprog == 0) { if (!eof) vt_simple("Reset"); continue; }
		hist_no++;
		int type = 0;
		for (int i = 0; i < nprog; i++) if (!strcmp(prog[i].tok[0], "Svc")) type = atoi(prog[i].tok[1]);
		start(type);
		for (int i = 0; i < nprog; i++) {
			struct vt_line *L = &prog[i];
			const char *o = L->tok[0];
			if (!strcmp(o, "Svc") || !strcmp(o, "Body") || !strcmp(o, "AcceptRet") || !strcmp(o, "ClosedRet")) continue;
			exec_op(L, 0, L->n, NULL);
			if (svc_stats && svc_usable() && !cb_depth) {
				/* back in the application's main loop: the service's own statistics (qb_ipcs_stats_get) */
				struct qb_ipcs_stats st;
				memset(&st, 0, sizeof(st));
				if (qb_ipcs_stats_get(svc, &st, QB_FALSE) == 0) {
					vt_ev("SvcStats"); vt_i((long long)(int32_t)st.active_connections); vt_i((long long)(int32_t)st.closed_connections); vt_res(); vt_end();
				}
			}
		}
		finish();
		if (!eof) vt_simple("Reset");
	}
	vt_close();
	return 0;
}
