/* h_bbcodec: executes format/argument vectors on the real blackbox codec
 * (qb_vsnprintf_serialize / qb_vsnprintf_deserialize, lib/log_format.c) and on the whole
 * blackbox path (qb_log -> _blackbox_vlogger -> qb_log_blackbox_write_to_file ->
 * qb_log_blackbox_print_from_file), and records every call with its observable result
 * (ndjson, integers only) for BbCodecTrace.tla.  libc's vsnprintf on the same format and
 * arguments is the reference text (the property names printf as the reference).
 *
 * usage: h_bbcodec <schedule> <trace-out> [--kf 3,4,6]
 * schedule lines:
 *   Vec <bb> <ntok> <tok>...     tok = "0 kind n" | "1" | "2 fl wk wv pk pv lm cv ak"
 *   Direct <k> <bb>              compiled-in call site k (a real variadic call, no constructed va_list)
 *   Reset
 * events:
 *   Vec  a=[[tok]..]  r=[fmtlen, reflen, [per-token printed lengths]]     (tok gets a 10th field: strlen / -1 for NULL)
 *   Enc  a=[M]        r=[ret]          serialize into exactly M bytes (ASan redzone behind them)
 *   Ext  a=[M]        r=[extent]       number of record bytes the decoder needs (guard page probing), -1: reads far beyond
 *   Dec  a=[M,S]      r=[tl, eq]       deserialize record of Enc(M) into exactly S bytes (pre-filled 0xAA);
 *                                      tl = strnlen(out,S), eq = 1 iff out is byte-equal to libc's text
 *   Bb   a=[]         r=[eqref, eqnotice]   text printed by qb_log_blackbox_print_from_file
 * With --kf the corresponding known findings are TOLERATED, which only means: the buffer gets a canary
 * tail instead of a redzone and a store into the tail is logged as r=[-3] / r=[-4] (the specification
 * accepts that only under the finding's trigger); Bb is not run (r=[-k]) where 3, 4 or 6 was seen / applies.
 */
#include "os_base.h"
#include <stdarg.h>
#include <limits.h>
#include <math.h>
#include <signal.h>
#include <setjmp.h>
#include <sched.h>
#include <sys/mman.h>
#include <sys/mount.h>
#include <qb/qblog.h>
#include "vtrace.h"

extern size_t qb_vsnprintf_serialize(char *serialize, size_t max_len, const char *fmt, va_list ap);
extern size_t qb_vsnprintf_deserialize(char *string, size_t str_len, const char *buf);

#if !defined(__x86_64__)
#error "h_bbcodec builds its va_list by hand for the x86-64 System V ABI"
#endif

#define MAXTOK 32
#define FMTMAX 16384
#define REFMAX 65536
#define M0 4096
#define PAD 32768
#define NOTICE "Log message too long to be stored in the blackbox.  Maximum is QB_LOG_MAX_LEN"

struct tok { int kind, lkind, n, fl, wk, wv, pk, pv, lm, cv, ak, sl; int fstart, flen, a0, na; };
static struct tok T[MAXTOK];
static int ntok;
static char fmt[FMTMAX];
static int fmtlen;
static uint64_t *argmem;        /* exact-size heap block: one 8-byte slot per variadic argument */
static int nargs;
static char *ref;               /* libc's text */
static int reflen;
static int kf3, kf4, kf6;
static int ns_done;

/* ---- argument menus (the specification only sees the index and, for strings, the length) ---- */
static const long long int_menu[] = { 0, 1, -1, INT_MIN, INT_MAX, LLONG_MIN, LLONG_MAX, 1234567, -4294967296LL };
static const int chr_menu[] = { 'A', '%', 0xE9, ' ' };
static const double dbl_menu[] = { 0.0, 1.0, -1.5, 1e300, INFINITY, NAN, 1e-300, 123456.789, -0.0, 0.1 };
static void *const ptr_menu[] = { NULL, (void *)1, (void *)0x7fffdeadbeefULL, (void *)-1 };
#define NSTR 8
static char *str_menu[NSTR];
static void mk_strings(void)
{
	static const int lens[NSTR] = { 0, 1, 5, 300, -2, -1, 600, 40 };
	for (int i = 0; i < NSTR; i++) {
		if (lens[i] == -1) { str_menu[i] = NULL; continue; }
		const char *lit = lens[i] == -2 ? "100%d%s%% %n%" : NULL;
		int n = lit ? (int)strlen(lit) : lens[i];
		char *s = malloc(n + 1);          /* exact size: an over-read hits the redzone */
		for (int k = 0; k < n; k++) s[k] = lit ? lit[k] : "abcdefghijklmnopqrstuvwxyz0123456789 _"[(k * 7 + i) % 38];
		s[n] = 0;
		str_menu[i] = s;
	}
}

/* va_list over argmem[from..]: everything is fetched from the overflow area (x86-64 SysV) */
static void mkva(va_list ap, int from)
{
	ap[0].gp_offset = 48; ap[0].fp_offset = 304;
	ap[0].overflow_arg_area = argmem + from; ap[0].reg_save_area = NULL;
}
/* a vector's arguments either live in argmem or in a real va_list (Direct call sites) */
static int use_real; static va_list real_ap;
static void get_ap(va_list ap) { if (use_real) va_copy(ap, real_ap); else mkva(ap, 0); }

static void selftest_va(void)
{
	char a[128], b[128]; double d = -2.5;
	argmem = malloc(8 * 5);
	argmem[0] = (uint32_t)-7; memcpy(&argmem[1], &d, 8); argmem[2] = (uint64_t)(uintptr_t)"str";
	argmem[3] = (uint64_t)LLONG_MIN; argmem[4] = 'c';
	va_list ap; mkva(ap, 0);
	vsnprintf(a, sizeof a, "%d %f %s %lld %c", ap);
	snprintf(b, sizeof b, "%d %f %s %lld %c", -7, d, "str", LLONG_MIN, 'c');
	free(argmem); argmem = NULL;
	if (strcmp(a, b) != 0) {
		fprintf(stderr, "h_bbcodec: constructed va_list does not work on this platform: [%s] vs [%s]\n", a, b);
		exit(2);
	}
}

/* ---- building the format string and the arguments from the tokens ---- */
static const char CONVS[] = "diouxXcspeEfFgGaA";
static const char *LMS[] = { "", "l", "ll", "z", "t", "j" };
static void build(void)
{
	int p = 0, na = 0;
	uint64_t tmp[3 * MAXTOK];
	for (int i = 0; i < ntok; i++) {
		struct tok *t = &T[i];
		t->fstart = p; t->a0 = na; t->sl = 0;
		if (t->kind == 0) {
			for (int k = 0; k < t->n && p < FMTMAX - 64; k++)
				fmt[p++] = (t->lkind == 1 && k == 0) ? 'd' : "lorem ipsum,dolor:sit=amet/"[(k + i) % 27];
		} else if (t->kind == 1) {
			fmt[p++] = '%'; fmt[p++] = '%';
		} else {
			fmt[p++] = '%';
			for (int b = 0; b < 6; b++) if (t->fl & (1 << b)) fmt[p++] = "-0+ #'"[b];
			if (t->wk == 1) p += sprintf(fmt + p, "%d", t->wv);
			else if (t->wk == 2) { fmt[p++] = '*'; tmp[na++] = (uint32_t)t->wv; }
			if (t->pk == 1) p += sprintf(fmt + p, ".%d", t->pv);
			else if (t->pk == 2) { fmt[p++] = '.'; fmt[p++] = '*'; tmp[na++] = (uint32_t)t->pv; }
			p += sprintf(fmt + p, "%s%c", LMS[t->lm], CONVS[t->cv]);
			if (t->cv <= 5) {
				long long v = int_menu[t->ak % (int)(sizeof int_menu / sizeof int_menu[0])];
				tmp[na++] = t->lm == 0 ? (uint64_t)(uint32_t)(int)v : (uint64_t)v;
			} else if (t->cv == 6) {
				tmp[na++] = (uint64_t)chr_menu[t->ak % 4];
			} else if (t->cv == 7) {
				char *s = str_menu[t->ak % NSTR];
				tmp[na++] = (uint64_t)(uintptr_t)s;
				t->sl = s ? (int)strlen(s) : -1;
			} else if (t->cv == 8) {
				tmp[na++] = (uint64_t)(uintptr_t)ptr_menu[t->ak % 4];
			} else {
				double d = dbl_menu[t->ak % (int)(sizeof dbl_menu / sizeof dbl_menu[0])];
				memcpy(&tmp[na++], &d, 8);
			}
		}
		t->flen = p - t->fstart; t->na = na - t->a0;
	}
	fmt[p] = 0; fmtlen = p; nargs = na;
	free(argmem);
	argmem = malloc(na ? na * 8 : 1);
	memcpy(argmem, tmp, na * 8);
}

static void log_tok(const struct tok *t)
{
	vt_lb();
	if (t->kind == 0) { vt_i(0); vt_i(t->lkind); vt_i(t->n); }
	else if (t->kind == 1) vt_i(1);
	else { vt_i(2); vt_i(t->fl); vt_i(t->wk); vt_i(t->wv); vt_i(t->pk); vt_i(t->pv); vt_i(t->lm); vt_i(t->cv); vt_i(t->ak); vt_i(t->sl); }
	vt_le();
}

/* reference: libc on the whole format, and on each directive alone (its printed length) */
static void reference(int *lens)
{
	va_list ap;
	get_ap(ap);
	reflen = vsnprintf(ref, REFMAX, fmt, ap);
	va_end(ap);
	if (reflen < 0 || reflen >= REFMAX) { fprintf(stderr, "h_bbcodec: reference text too long\n"); exit(2); }
	for (int i = 0; i < ntok; i++) {
		struct tok *t = &T[i];
		if (t->kind == 0) lens[i] = t->n;
		else if (t->kind == 1) lens[i] = 1;
		else if (use_real) lens[i] = -1;          /* filled in by the Direct table */
		else {
			char one[64];
			memcpy(one, fmt + t->fstart, t->flen); one[t->flen] = 0;
			mkva(ap, t->a0);
			lens[i] = vsnprintf(NULL, 0, one, ap);
		}
	}
}

/* ---- guard page probing: how many bytes of the record does the decoder read ---- */
static sigjmp_buf jb;
static volatile sig_atomic_t armed;
static char *gregion; static size_t gsize;
static struct sigaction old_sa;
static void on_segv(int s, siginfo_t *si, void *u)
{
	char *a = (char *)si->si_addr;
	if (armed && a >= gregion + gsize && a < gregion + gsize + 4096) siglongjmp(jb, 1);
	if ((old_sa.sa_flags & SA_SIGINFO) && old_sa.sa_sigaction) old_sa.sa_sigaction(s, si, u);   /* the sanitizer's report */
	signal(s, SIG_DFL); raise(s);
}
static void guard_init(void)
{
	gsize = 16 * 4096;
	gregion = mmap(NULL, gsize + 4096, PROT_READ | PROT_WRITE, MAP_PRIVATE | MAP_ANONYMOUS, -1, 0);
	if (gregion == MAP_FAILED || mprotect(gregion + gsize, 4096, PROT_NONE)) { perror("guard"); exit(2); }
	struct sigaction sa; memset(&sa, 0, sizeof sa);
	sa.sa_sigaction = on_segv; sa.sa_flags = SA_SIGINFO | SA_NODEFER;
	sigaction(SIGSEGV, &sa, &old_sa);
}
static char *bigout;
/* 1 = decoding the first `avail` bytes placed right before the guard page faults */
static int faults(const char *rec, size_t reclen, size_t avail)
{
	char *p = gregion + gsize - avail;
	memset(p, 0xCC, avail);
	memcpy(p, rec, avail < reclen ? avail : reclen);
	int f = 0;
	armed = 1;
	if (sigsetjmp(jb, 1) == 0) (void)qb_vsnprintf_deserialize(bigout, REFMAX, p);
	else f = 1;
	armed = 0;
	return f;
}
static long extent(const char *rec, size_t reclen)
{
	size_t hi = reclen + 64, lo = 1;
	if (faults(rec, reclen, hi)) return -1;
	while (lo < hi) {                       /* smallest avail that does not fault */
		size_t mid = (lo + hi) / 2;
		if (faults(rec, reclen, mid)) lo = mid + 1; else hi = mid;
	}
	return (long)lo;
}

/* ---- the calls ---- */
static int canary_ok(const unsigned char *p, size_t n) { for (size_t i = 0; i < n; i++) if (p[i] != 0xCD) return 0; return 1; }

/* Enc(M): returns ret, or -4 when (tolerating finding 4) a store beyond M was seen; *recp = malloc'd copy of the record */
static long do_enc(size_t M, int tolerate, char **recp)
{
	size_t alloc = tolerate ? M + PAD : M;
	char *buf = malloc(alloc);
	memset(buf, 0xBB, M);
	if (tolerate) memset(buf + M, 0xCD, PAD);
	va_list ap; get_ap(ap);
	size_t ret = qb_vsnprintf_serialize(buf, M, fmt, ap);
	va_end(ap);
	long r = (long)ret;
	if (tolerate && !canary_ok((unsigned char *)buf + M, PAD)) r = -4;
	vt_ev("Enc"); vt_i((long long)M); vt_res(); vt_i(r); vt_end();
	if (recp) {
		*recp = NULL;
		if (r >= 0 && ret < M) { *recp = malloc(ret); memcpy(*recp, buf, ret); }   /* exact size: over-reads hit the redzone */
	}
	free(buf);
	return r;
}

/* Dec(M,S) on record rec: returns 1 if the known store beyond the buffer was seen.
 * Tolerating finding 3: [0,S) buffer, [S,S+PAD) canary, one NUL (stops the library's unbounded strlen),
 * TAIL more canary bytes (the library's strlcat then appends there). */
#define TAIL 4096
static int do_dec(size_t M, size_t S, const char *rec)
{
	size_t alloc = kf3 ? S + PAD + 1 + TAIL : S;
	char *out = malloc(alloc);
	memset(out, 0xAA, S);
	if (kf3) { memset(out + S, 0xCD, alloc - S); out[S + PAD] = 0; }
	(void)qb_vsnprintf_deserialize(out, S, rec);
	int seen = 0;
	size_t tl = strnlen(out, S);
	vt_ev("Dec"); vt_i((long long)M); vt_i((long long)S); vt_res();
	if (kf3 && (tl == S || !canary_ok((unsigned char *)out + S, PAD) || out[S + PAD] != 0 ||
		    !canary_ok((unsigned char *)out + S + PAD + 1, TAIL))) { vt_i(-3); seen = 1; }
	else {
		vt_i((long long)tl);
		vt_i(tl == (size_t)reflen && memcmp(out, ref, reflen) == 0);
	}
	vt_end();
	free(out);
	return seen;
}

/* whole blackbox path */
static void ns_isolate(void)
{
	/* qb_rb_create_from_file() uses the fixed name /dev/shm/qb-create_from_file-*: give this process its own /dev/shm */
	if (ns_done) return;
	if (unshare(CLONE_NEWNS) || mount(NULL, "/", NULL, MS_REC | MS_PRIVATE, NULL) || mount("none", "/dev/shm", "tmpfs", 0, NULL)) {
		perror("h_bbcodec: private /dev/shm"); exit(2);
	}
	ns_done = 1;
	qb_log_init("h_bbcodec", LOG_USER, LOG_EMERG);
	qb_log_ctl(QB_LOG_SYSLOG, QB_LOG_CONF_ENABLED, QB_FALSE);
	qb_log_filter_ctl(QB_LOG_BLACKBOX, QB_LOG_FILTER_ADD, QB_LOG_FILTER_FILE, "bbfile.c", LOG_TRACE);
	qb_log_ctl(QB_LOG_BLACKBOX, QB_LOG_CONF_SIZE, 1024 * 16);
}
static char dumpname[128], capname[128];
static void do_bb(void)
{
	ns_isolate();
	if (qb_log_ctl(QB_LOG_BLACKBOX, QB_LOG_CONF_ENABLED, QB_TRUE) != 0) { fprintf(stderr, "h_bbcodec: cannot enable blackbox\n"); exit(2); }
	va_list ap; get_ap(ap);
	qb_log_from_external_source_va("bbfn", "bbfile.c", fmt, LOG_INFO, 77, 0, ap);
	va_end(ap);
	unlink(dumpname);
	/* capture what the dump and the printer write to stdout (stderr is left alone: sanitizer reports go there) */
	vt_flush(); fflush(stdout);
	int so = dup(1);
	int cf = open(capname, O_CREAT | O_TRUNC | O_RDWR, 0600);
	dup2(cf, 1);
	ssize_t w = qb_log_blackbox_write_to_file(dumpname);
	qb_log_ctl(QB_LOG_BLACKBOX, QB_LOG_CONF_ENABLED, QB_FALSE);       /* closes the ring: next vector starts empty */
	int prc = (w > 0) ? qb_log_blackbox_print_from_file(dumpname) : -1;
	fflush(stdout);
	dup2(so, 1); close(so);
	static char cap[REFMAX + 4096];
	ssize_t n = pread(cf, cap, sizeof cap - 1, 0);
	close(cf);
	if (n < 0) n = 0;
	cap[n] = 0;
	(void)prc;
	int eqref = 0, eqnot = 0;
	const char *mark = "bbfn(77):0: ";
	char *m = NULL;
	for (char *q = cap; q + strlen(mark) <= cap + n; q++) if (!memcmp(q, mark, strlen(mark))) { m = q + strlen(mark); break; }
	if (m) {
		size_t tl = (cap + n) - m;
		if (tl && m[tl - 1] == '\n') tl--;              /* the printer's own line end */
		eqref = tl == (size_t)reflen && memcmp(m, ref, reflen) == 0;
		eqnot = tl == strlen(NOTICE) && memcmp(m, NOTICE, tl) == 0;
	}
	vt_ev("Bb"); vt_res(); vt_i(eqref); vt_i(eqnot); vt_end();
}

static void run_vector(int bb, const int *direct_lens)
{
	int lens[MAXTOK];
	reference(lens);
	if (direct_lens) for (int i = 0; i < ntok; i++) if (lens[i] < 0) lens[i] = direct_lens[i];
	vt_ev("Vec");
	for (int i = 0; i < ntok; i++) log_tok(&T[i]);
	vt_res(); vt_i(fmtlen); vt_i(reflen);
	vt_lb(); for (int i = 0; i < ntok; i++) vt_i(lens[i]); vt_le();
	vt_end();

	char *rec0 = NULL;
	long ret0 = do_enc(M0, 0, &rec0);
	int dec512_bad = 0, enc512_bad = 0;
	if (rec0) {
		vt_ev("Ext"); vt_i(M0); vt_res(); vt_i(extent(rec0, ret0)); vt_end();
		size_t Ss[5] = { 1, 8, 512, (size_t)reflen + 1, (size_t)reflen };
		for (int i = 0; i < 5; i++) {
			int dup_ = Ss[i] == 0;
			for (int k = 0; k < i; k++) if (Ss[k] == Ss[i]) dup_ = 1;
			if (dup_) continue;
			int bad = do_dec(M0, Ss[i], rec0);
			if (Ss[i] == 512) dec512_bad = bad;
		}
		long Ms[9] = { ret0 + 1, ret0, ret0 - 1, ret0 - 4, fmtlen + 2, fmtlen + 1, fmtlen, 512, 1 };
		for (int i = 0; i < 9; i++) {
			int dup_ = Ms[i] < 1 || Ms[i] == M0;
			for (int k = 0; k < i; k++) if (Ms[k] == Ms[i]) dup_ = 1;
			if (dup_) continue;
			char *rec = NULL;
			long r = do_enc((size_t)Ms[i], kf4 && Ms[i] <= ret0, i == 0 ? &rec : NULL);
			if (Ms[i] == 512 && r == -4) enc512_bad = 1;
			if (rec) { do_dec((size_t)Ms[i], 512, rec); free(rec); }
		}
		free(rec0);
	}
	if (bb) {
		if (dec512_bad) { vt_ev("Bb"); vt_res(); vt_i(-3); vt_end(); }
		else if (enc512_bad) { vt_ev("Bb"); vt_res(); vt_i(-4); vt_end(); }
		else if (kf6 && reflen >= 511 && ret0 >= 0 && ret0 < 512) { vt_ev("Bb"); vt_res(); vt_i(-6); vt_end(); }
		else do_bb();
	}
}

/* ---- compiled-in call sites: real variadic calls (no constructed va_list) ---- */
static void direct_call(int bb, const int *lens, const char *f, ...)
{
	strcpy(fmt, f); fmtlen = (int)strlen(f);
	use_real = 1;
	va_start(real_ap, f);
	run_vector(bb, lens);
	va_end(real_ap);
	use_real = 0;
}
static void lit(int i, int lkind, int n) { memset(&T[i], 0, sizeof T[i]); T[i].kind = 0; T[i].lkind = lkind; T[i].n = n; }
static void pct(int i) { memset(&T[i], 0, sizeof T[i]); T[i].kind = 1; }
static void conv(int i, int fl, int wk, int wv, int pk, int pv, int lm, char c, int sl)
{
	memset(&T[i], 0, sizeof T[i]);
	T[i].kind = 2; T[i].fl = fl; T[i].wk = wk; T[i].wv = wv; T[i].pk = pk; T[i].pv = pv; T[i].lm = lm;
	T[i].cv = (int)(strchr(CONVS, c) - CONVS); T[i].ak = 99; T[i].sl = sl;
}
static void direct(int k, int bb)
{
	static char s300[301];
	if (!s300[0]) memset(s300, 'y', 300);
	switch (k) {
	case 1: { int l[] = { 3, 1, 8 }; ntok = 3; conv(0, 0, 0, 0, 1, 3, 0, 'd', 0); lit(1, 0, 1); conv(2, 0, 0, 0, 0, 0, 0, 's', 8);
		direct_call(bb, l, "%.3d %s", 5, "abcdefgh"); break; }
	case 2: { int l[] = { 5, 1, 6 }; ntok = 3; conv(0, 0, 1, 5, 1, 2, 0, 's', 6); lit(1, 0, 1); conv(2, 0, 0, 0, 0, 0, 0, 's', 6);
		direct_call(bb, l, "%5.2s|%s", "abcdef", "ghijkl"); break; }
	case 3: { int l[] = { 1, 1, 1 }; ntok = 3; pct(0); lit(1, 0, 1); conv(2, 0, 0, 0, 0, 0, 0, 'd', 0);
		direct_call(bb, l, "%% %d", 7); break; }
	case 4: { int l[] = { 12, 1 }; ntok = 2; lit(0, 0, 12); pct(1);
		direct_call(bb, l, "progress 100%%"); break; }
	case 5: { int l[] = { 200, 200, 200, 200 }; ntok = 4; for (int i = 0; i < 4; i++) conv(i, 0, 1, 200, 0, 0, 0, 'd', 0);
		direct_call(bb, l, "%200d%200d%200d%200d", 1, 2, 3, 4); break; }
	case 6: { int l[] = { 300, 300, 300 }; ntok = 3; for (int i = 0; i < 3; i++) conv(i, 0, 0, 0, 0, 0, 0, 's', 300);
		direct_call(bb, l, "%s%s%s", s300, s300, s300); break; }
	case 7: { int l[] = { 200, 200, 111 }; ntok = 3; conv(0, 0, 1, 200, 0, 0, 0, 'd', 0); conv(1, 0, 1, 200, 0, 0, 0, 'd', 0); conv(2, 0, 1, 111, 0, 0, 0, 'd', 0);
		direct_call(bb, l, "%200d%200d%111d", 1, 2, 3); break; }
	case 8: { int l[] = { 6, 1, 1, 1, 5, 1, 5, 1, 2, 1, 20 }; ntok = 11;
		conv(0, 0, 0, 0, 0, 0, 0, 's', -1); lit(1, 0, 1); conv(2, 0, 0, 0, 0, 0, 0, 'c', 0); lit(3, 0, 1);
		conv(4, 0, 0, 0, 0, 0, 0, 'p', 0); lit(5, 0, 1); conv(6, 0, 1, 5, 1, 1, 0, 'f', 0); lit(7, 0, 1);
		conv(8, 0, 0, 0, 0, 0, 1, 'u', 0); lit(9, 0, 1); conv(10, 0, 0, 0, 0, 0, 2, 'd', 0);
		direct_call(bb, l, "%s|%c|%p|%5.1f|%lu|%lld", (char *)NULL, 'x', (void *)0, 2.5, 77UL, LLONG_MIN); break; }
	case 9: { int l[] = { 7, 1, 3 }; ntok = 3; conv(0, 1, 2, 7, 2, 2, 0, 's', 6); lit(1, 0, 1); conv(2, 0, 0, 0, 0, 0, 0, 's', 3);
		direct_call(bb, l, "%-*.*s|%s", 7, 2, "abcdef", "xyz"); break; }
	/* 10: mini-format overflow in the decoder: "%-+ #0*.*lld" with a large negative '*' precision (absent by printf's rules) */
	case 10: { int l[] = { 200 }; ntok = 1; conv(0, 1 | 2 | 4 | 8 | 16, 2, 200, 2, INT_MIN, 2, 'd', 0);
		direct_call(bb, l, "%-0+ #*.*lld", 200, INT_MIN, 5LL); break; }
	/* 11: a negative '*' precision counts as absent */
	case 11: { int l[] = { 2 }; ntok = 1; conv(0, 0, 0, 0, 2, -1, 0, 'd', 0);
		direct_call(bb, l, "%.*d", -1, 42); break; }
	default: fprintf(stderr, "h_bbcodec: unknown direct case %d\n", k); exit(2);
	}
}

static int next_int(char **p, long *v)
{
	while (**p == ' ' || **p == '\t') (*p)++;
	if (!**p || **p == '\n' || **p == '\r') return 0;
	*v = strtol(*p, p, 10);
	return 1;
}

int main(int argc, char **argv)
{
	if (argc < 3) return 2;
	for (int i = 3; i < argc; i++)
		if (!strcmp(argv[i], "--kf") && i + 1 < argc) {
			for (char *q = argv[++i]; *q; q++) { if (*q == '3') kf3 = 1; if (*q == '4') kf4 = 1; if (*q == '6') kf6 = 1; }
		}
	FILE *f = fopen(argv[1], "r");
	if (!f) { perror(argv[1]); return 2; }
	vt_open(argv[2]);
	snprintf(dumpname, sizeof dumpname, "%s.bbdump", argv[2]);
	snprintf(capname, sizeof capname, "%s.bbout", argv[2]);
	selftest_va();
	mk_strings();
	guard_init();
	ref = malloc(REFMAX);
	bigout = malloc(REFMAX);
	static char line[1 << 16];
	while (fgets(line, sizeof line, f)) {
		char *p = line;
		while (*p == ' ') p++;
		if (!strncmp(p, "Reset", 5)) { vt_simple("Reset"); vt_flush(); continue; }
		if (!strncmp(p, "Direct", 6)) {
			p += 6; long k = 0, bb = 0;
			next_int(&p, &k); next_int(&p, &bb);
			direct((int)k, (int)bb);
			continue;
		}
		if (strncmp(p, "Vec", 3)) { if (*p && *p != '\n') { fprintf(stderr, "h_bbcodec: bad line %s", line); return 2; } continue; }
		p += 3;
		long bb = 0, n = 0, v[9];
		if (!next_int(&p, &bb) || !next_int(&p, &n) || n < 0 || n > MAXTOK) { fprintf(stderr, "h_bbcodec: bad Vec\n"); return 2; }
		ntok = (int)n;
		for (int i = 0; i < ntok; i++) {
			memset(&T[i], 0, sizeof T[i]);
			if (!next_int(&p, &v[0])) { fprintf(stderr, "h_bbcodec: short Vec\n"); return 2; }
			int need = v[0] == 0 ? 2 : v[0] == 1 ? 0 : 8;
			for (int k = 1; k <= need; k++) if (!next_int(&p, &v[k])) { fprintf(stderr, "h_bbcodec: short token\n"); return 2; }
			T[i].kind = (int)v[0];
			if (v[0] == 0) { T[i].lkind = (int)v[1]; T[i].n = (int)v[2]; }
			else if (v[0] == 2) {
				T[i].fl = (int)v[1]; T[i].wk = (int)v[2]; T[i].wv = (int)v[3]; T[i].pk = (int)v[4]; T[i].pv = (int)v[5];
				T[i].lm = (int)v[6]; T[i].cv = (int)v[7]; T[i].ak = (int)v[8];
				if (T[i].cv < 0 || T[i].cv > 16 || T[i].lm < 0 || T[i].lm > 5) { fprintf(stderr, "h_bbcodec: bad token\n"); return 2; }
			}
		}
		build();
		run_vector((int)bb, NULL);
	}
	vt_close();
	unlink(dumpname); unlink(capname);
	return 0;
}
