/* h_loop: runs the real qb_loop under a virtual clock and a scripted poll
 * (the harness defines clock_gettime, clock_getres, epoll_ctl, epoll_wait,
 * random, usleep itself; libqb is linked statically so these win over libc),
 * executes a program of API calls, callback bodies and poll results, and records
 * every API call, callback invocation and poll call (ndjson) for LoopTrace.tla.
 * usage: h_loop <schedule> <trace-out>                                      */
#include "os_base.h"
#include <signal.h>
#include <poll.h>
#include <sys/epoll.h>
#include <qb/qbloop.h>
#include "vtrace.h"

#define G 1000000000ULL
static uint64_t vnow;
static long rnd_ctr;
static qb_loop_t *lp;

int clock_gettime(clockid_t c, struct timespec *ts) { ts->tv_sec = vnow / G; ts->tv_nsec = vnow % G; return 0; }
int clock_getres(clockid_t c, struct timespec *ts) { ts->tv_sec = 0; ts->tv_nsec = 1; return 0; }
long random(void) { return 5000 + (++rnd_ctr); }
int usleep(useconds_t u) { return 0; }

static void vt_t3(uint64_t v) { vt_lb(); vt_i(v / G / G); vt_i((v / G) % G); vt_i(v % G); vt_le(); }
static uint64_t from3(long long a, long long b, long long c) { return (uint64_t)a * G * G + (uint64_t)b * G + (uint64_t)c; }

/* ---- program text ---- */
#define MAXLINES 4096
static struct vt_line *prog;
static int nprog;
#define MAXBODY 256
static int body_line[MAXBODY];          /* index into prog of the Body definition */

/* ---- registrations ---- */
#define MAXI 4096
struct item { int kind, id, p, bid, fd, ev, ret, signo, live, reg, fnv; qb_loop_timer_handle th; qb_loop_signal_handle sh; };
static struct item items[MAXI];
static int nitems;
static int fresh_id = 1000;
static struct item *find(int kind, int id) { for (int i = nitems - 1; i >= 0; i--) if (items[i].kind == kind && items[i].id == id) return &items[i]; return NULL; }
static struct item *mk(int kind, int id) { struct item *it = &items[nitems++]; memset(it, 0, sizeof(*it)); it->kind = kind; it->id = id; it->live = 1; return it; }
enum { K_JOB = 1, K_TIMER, K_FD, K_SIG };
static int live_sig(int signo) { for (int i = 0; i < nitems; i++) if (items[i].kind == K_SIG && items[i].live && items[i].signo == signo) return 1; return 0; }

/* ---- fake epoll ---- */
struct ereg { int fd; uint32_t events; uint64_t data; };
static struct ereg etab[256];
static int netab;
int epoll_ctl(int epfd, int op, int fd, struct epoll_event *ev)
{
	int i;
	for (i = 0; i < netab; i++) if (etab[i].fd == fd) break;
	if (op == EPOLL_CTL_ADD) {
		if (i < netab) { errno = EEXIST; return -1; }
		etab[netab].fd = fd; etab[netab].events = ev->events; etab[netab].data = ev->data.u64; netab++;
		return 0;
	}
	if (i == netab) { errno = ENOENT; return -1; }
	if (op == EPOLL_CTL_MOD) { etab[i].events = ev->events; etab[i].data = ev->data.u64; return 0; }
	etab[i] = etab[--netab];
	return 0;
}
static void kernel_forget(int fd) { for (int i = 0; i < netab; i++) if (etab[i].fd == fd) { etab[i] = etab[--netab]; return; } }

static int script_pos, script_end;      /* Poll lines of the current Run */
static int stop_logged;
static void exec_op(struct vt_line *L, int t0, int n, struct item *self, int self_bid);

int epoll_wait(int epfd, struct epoll_event *events, int maxevents, int timeout)
{
	struct vt_line *L = NULL;
	if (script_pos < script_end) L = &prog[script_pos++];
	else if (!stop_logged) { vt_ev("Stop"); vt_res(); vt_end(); qb_loop_stop(lp); stop_logged = 1; }
	char mode = 'T'; uint64_t adv = 0; int n = 0;
	int rfd[16], rev[16], nr = 0, sg[8], ns = 0;
	if (L) {
		mode = L->tok[1][0];
		adv = from3(atoll(L->tok[2]), atoll(L->tok[3]), atoll(L->tok[4]));
		int i = 5, sec = 0;
		while (i < L->n) {
			if (!strcmp(L->tok[i], "R")) { sec = 1; i++; continue; }
			if (!strcmp(L->tok[i], "S")) { sec = 2; i++; continue; }
			if (sec == 1 && i + 1 < L->n && nr < 16) { rfd[nr] = atoi(L->tok[i]); rev[nr] = atoi(L->tok[i + 1]); nr++; i += 2; continue; }
			if (sec == 2 && ns < 8) { sg[ns++] = atoi(L->tok[i]); i++; continue; }
			i++;
		}
	}
	/* a signal nobody handles would kill the process: the environment only delivers handled signals */
	/* a signal is raised only while the application (this harness's own bookkeeping of its add / delete calls) has a
	 * registration for it -- not "while the library happens to have a handler installed": a registration whose handler
	 * the library lost must show (SIGUSR1/2 then take their default action) */
	{ int w = 0; for (int i = 0; i < ns; i++) if (live_sig(sg[i])) sg[w++] = sg[i]; ns = w; }
	for (int i = 0; i < ns; i++) raise(sg[i]);
	uint64_t tmo_ns = timeout > 0 ? (uint64_t)timeout * 1000000ULL : 0;
	/* 'T': sleep the whole timeout; like a real poll call it returns a little after the deadline */
	if (mode == 'T') adv = tmo_ns + 1001000; else if (timeout >= 0 && adv > tmo_ns) adv = tmo_ns;
	if (adv > UINT64_MAX - vnow) adv = UINT64_MAX - vnow;
	vnow += adv;
	for (int i = 0; i < nr && n < maxevents; i++)
		for (int k = 0; k < netab; k++)
			if (etab[k].fd == rfd[i]) {
				uint32_t e = ((uint32_t)rev[i] & etab[k].events & (EPOLLIN | EPOLLOUT)) | ((uint32_t)rev[i] & (EPOLLERR | EPOLLHUP));
				if (e) { events[n].events = e; events[n].data.u64 = etab[k].data; n++; }
			}
	/* the loop's own signal pipe is a real descriptor: report it when it really is readable */
	for (int k = 0; k < netab && n < maxevents; k++)
		if (etab[k].fd < 100) {
			struct pollfd pf = { etab[k].fd, POLLIN, 0 };
			if (poll(&pf, 1, 0) == 1 && (pf.revents & POLLIN)) { events[n].events = EPOLLIN; events[n].data.u64 = etab[k].data; n++; }
		}
	vt_ev("Poll"); vt_i(timeout);
	vt_lb(); for (int i = 0; i < nr; i++) { vt_lb(); vt_i(rfd[i]); vt_i(rev[i]); vt_le(); } vt_le();
	vt_t3(adv);
	vt_lb(); for (int i = 0; i < ns; i++) vt_i(sg[i]); vt_le();
	vt_res(); vt_t3(vnow); vt_end();
	errno = 0;
	return n;
}

/* ---- callbacks ---- */
static void run_body(int bid, struct item *self)
{
	if (bid <= 0 || bid >= MAXBODY || body_line[bid] < 0) return;
	struct vt_line *L = &prog[body_line[bid]];
	int s = 2;
	for (int i = 2; i <= L->n; i++)
		if (i == L->n || !strcmp(L->tok[i], ";")) { if (i > s) exec_op(L, s, i - s, self, bid); s = i + 1; }
}
static void job_cb(void *data) { struct item *it = data; it->live = 0; vt_ev("CbJob"); vt_i(it->id); vt_res(); vt_end(); run_body(it->bid, it); }
static void timer_cb(void *data) { struct item *it = data; it->live = 0; vt_ev("CbTimer"); vt_i(it->id); vt_res(); vt_end(); run_body(it->bid, it); }
/* two descriptor callbacks that differ only in their name: qb_loop_poll_mod switches a registration from one to the
 * other, and the event says which of them the loop called */
static int32_t fd_cb_which(int which, int32_t revents, void *data)
{
	struct item *it = data;
	vt_ev("CbFd"); vt_i(it->id); vt_i(revents); vt_i(which); vt_res(); vt_end();
	run_body(it->bid, it);
	vt_ev("CbFdRet"); vt_i(it->id); vt_res(); vt_end();
	if (it->ret < 0) it->reg = 0;
	return it->ret;
}
static int32_t fd_cb(int32_t fd, int32_t revents, void *data) { return fd_cb_which(0, revents, data); }
static int32_t fd_cb1(int32_t fd, int32_t revents, void *data) { return fd_cb_which(1, revents, data); }
static int32_t sig_cb(int32_t signo, void *data) { struct item *it = data; vt_ev("CbSig"); vt_i(it->id); vt_res(); vt_end(); run_body(it->bid, it); return 0; }

static int idarg(struct vt_line *L, int t, struct item *self) {
	if (!strcmp(L->tok[t], "new")) return nitems > 400 ? -7 : fresh_id++;   /* bound run-away self-multiplying workloads */
	if (!strcmp(L->tok[t], "self")) return self ? self->id : -1;
	return atoi(L->tok[t]);
}
static int bidarg(struct vt_line *L, int t, int self_bid) { return !strcmp(L->tok[t], "same") ? self_bid : atoi(L->tok[t]); }
#define A(i) atoll(L->tok[t0 + (i)])

static void exec_op(struct vt_line *L, int t0, int n, struct item *self, int self_bid)
{
	const char *op = L->tok[t0];
	if (!strcmp(op, "JobAdd")) {
		int id = idarg(L, t0 + 1, self);
		if (id == -7) return;
		if (find(K_JOB, id)) return;
		struct item *it = mk(K_JOB, id); it->p = A(2); it->bid = bidarg(L, t0 + 3, self_bid);
		int rc = qb_loop_job_add(lp, it->p, it, job_cb);
		vt_ev(op); vt_i(id); vt_i(it->p); vt_res(); vt_i(rc); vt_end();
	} else if (!strcmp(op, "JobDel")) {
		struct item *it = find(K_JOB, idarg(L, t0 + 1, self)); if (!it) return;
		int rc = qb_loop_job_del(lp, it->p, it, job_cb);
		if (rc == 0) it->live = 0;
		vt_ev(op); vt_i(it->id); vt_res(); vt_i(rc); vt_end();
	} else if (!strcmp(op, "TimerAdd")) {
		int id = idarg(L, t0 + 1, self);
		if (id == -7) return;
		if (find(K_TIMER, id)) return;
		struct item *it = mk(K_TIMER, id); it->p = A(2); it->bid = bidarg(L, t0 + 6, self_bid);
		uint64_t d = from3(A(3), A(4), A(5));
		int rc = qb_loop_timer_add(lp, it->p, d, it, timer_cb, &it->th);
		vt_ev(op); vt_i(id); vt_i(it->p); vt_t3(d); vt_res(); vt_i(rc); vt_end();
	} else if (!strcmp(op, "TimerDel")) {
		struct item *it = find(K_TIMER, idarg(L, t0 + 1, self)); if (!it) return;
		int rc = qb_loop_timer_del(lp, it->th);
		vt_ev(op); vt_i(it->id); vt_res(); vt_i(rc); vt_end();
	} else if (!strcmp(op, "TimerQuery")) {
		struct item *it = find(K_TIMER, idarg(L, t0 + 1, self)); if (!it) return;
		int run = qb_loop_timer_is_running(lp, it->th);
		uint64_t rem = qb_loop_timer_expire_time_remaining(lp, it->th);
		vt_ev(op); vt_i(it->id); vt_res(); vt_i(run ? 1 : 0); vt_t3(rem); vt_end();
	} else if (!strcmp(op, "PollAdd")) {
		int id = idarg(L, t0 + 1, self);
		if (id == -7) return;
		if (find(K_FD, id)) return;
		struct item *it = mk(K_FD, id); it->fd = A(2); it->p = A(3); it->ev = A(4); it->ret = A(5); it->bid = bidarg(L, t0 + 6, self_bid);
		int rc = qb_loop_poll_add(lp, it->p, it->fd, it->ev, it, fd_cb);
		it->reg = (rc == 0);
		vt_ev(op); vt_i(id); vt_i(it->fd); vt_i(it->p); vt_i(it->ev); vt_i(it->ret); vt_res(); vt_i(rc); vt_end();
	} else if (!strcmp(op, "PollDel")) {
		int fd = A(1);
		int rc = qb_loop_poll_del(lp, fd);
		for (int i = 0; i < nitems; i++) if (items[i].kind == K_FD && items[i].fd == fd) items[i].reg = 0;
		vt_ev(op); vt_i(fd); vt_res(); vt_i(rc); vt_end();
	} else if (!strcmp(op, "PollMod")) {
		int fd = A(1), p = A(2), ev = A(3);
		struct item *it = NULL;
		for (int i = nitems - 1; i >= 0; i--) if (items[i].kind == K_FD && items[i].fd == fd && items[i].reg) { it = &items[i]; break; }
		if (!it) return;
		int nf = !it->fnv;
		int rc = qb_loop_poll_mod(lp, p, fd, ev, it, nf ? fd_cb1 : fd_cb);
		it->fnv = nf;      /* (the library stores the new callback, data and priority before it asks the kernel: a refusal
		                    * there -- a descriptor closed meanwhile -- leaves them replaced, like the priority) */
		vt_ev(op); vt_i(fd); vt_i(p); vt_i(ev); vt_i(nf); vt_res(); vt_i(rc); vt_end();
	} else if (!strcmp(op, "FdClose")) {
		int fd = A(1);
		/* closing a descriptor that is still registered (without deleting it or returning a negative value from
		 * its own callback) is an application error outside the property: such steps are not executed */
		for (int i = 0; i < nitems; i++)
			if (items[i].kind == K_FD && items[i].fd == fd && items[i].reg && !(self == &items[i] && items[i].ret < 0)) return;
		kernel_forget(fd);
		vt_ev(op); vt_i(fd); vt_res(); vt_end();
	} else if (!strcmp(op, "SigAdd")) {
		int id = idarg(L, t0 + 1, self);
		if (id == -7) return;
		if (find(K_SIG, id)) return;
		struct item *it = mk(K_SIG, id); it->signo = A(2); it->p = A(3); it->bid = bidarg(L, t0 + 4, self_bid);
		int rc = qb_loop_signal_add(lp, it->p, it->signo, it, sig_cb, &it->sh);
		if (rc != 0) it->live = 0;
		vt_ev(op); vt_i(id); vt_i(it->signo); vt_i(it->p); vt_res(); vt_i(rc); vt_end();
	} else if (!strcmp(op, "SigDel")) {
		struct item *it = find(K_SIG, idarg(L, t0 + 1, self)); if (!it || !it->live) return;
		int rc = qb_loop_signal_del(lp, it->sh);
		it->live = 0;
		vt_ev(op); vt_i(it->id); vt_res(); vt_i(rc); vt_end();
	} else if (!strcmp(op, "Stop")) {
		qb_loop_stop(lp);
		vt_ev(op); vt_res(); vt_end();
	} else if (!strcmp(op, "Tick")) {
		uint64_t d = from3(A(1), A(2), A(3));
		if (d > UINT64_MAX - vnow) d = UINT64_MAX - vnow;
		vnow += d;
		vt_ev(op); vt_t3(d); vt_res(); vt_end();
	} else {
		fprintf(stderr, "h_loop: unknown op %s\n", op); exit(2);
	}
}

static void fresh(void)
{
	if (lp) qb_loop_destroy(lp);
	vnow = 1000ULL * G; rnd_ctr = 0; nitems = 0; fresh_id = 1000; netab = 0;
	signal(SIGUSR1, SIG_DFL); signal(SIGUSR2, SIG_DFL);
	lp = qb_loop_create();
}

int main(int argc, char **argv)
{
	if (argc < 3) return 2;
	FILE *f = fopen(argv[1], "r");
	if (!f) { perror(argv[1]); return 2; }
	prog = calloc(MAXLINES, sizeof(*prog));
	vt_open(argv[2]);
	int eof = 0;
	while (!eof) {
		/* read one history */
		nprog = 0;
		for (int i = 0; i < MAXBODY; i++) body_line[i] = -1;
		for (;;) {
			if (!vt_readline(f, &prog[nprog])) { eof = 1; break; }
			/* tokens point into prog[nprog].raw which stays put */
			if (!strcmp(prog[nprog].tok[0], "Reset")) break;
			if (!strcmp(prog[nprog].tok[0], "Body")) body_line[atoi(prog[nprog].tok[1])] = nprog;
			if (++nprog >= MAXLINES - 1) { fprintf(stderr, "h_loop: history too long\n"); return 2; }
		}
		fresh();
		for (int i = 0; i < nprog; i++) {
			struct vt_line *L = &prog[i];
			if (!strcmp(L->tok[0], "Body") || !strcmp(L->tok[0], "Poll")) continue;
			if (!strcmp(L->tok[0], "Run")) {
				script_pos = i + 1; script_end = script_pos;
				while (script_end < nprog && !strcmp(prog[script_end].tok[0], "Poll")) script_end++;
				stop_logged = 0;
				vt_ev("RunBegin"); vt_res(); vt_end();
				qb_loop_run(lp);
				vt_ev("RunEnd"); vt_res(); vt_end();
				i = script_end - 1;
				continue;
			}
			exec_op(L, 0, L->n, NULL, 0);
		}
		if (!eof) vt_simple("Reset");
	}
	vt_close();
	return 0;
}
