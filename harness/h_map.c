/* h_map: executes a schedule of qb_map_* calls on one of the three real map
 * implementations and records every call, its result and the notifier calls it
 * caused (ndjson) for MapTrace.tla.
 * usage: h_map <schedule> <trace-out> <hash|skip|trie> [--kf-skip] [--seed N]
 *
 * --kf-skip: do not execute steps that fall under the recorded known finding
 * "entry removed while an iterator is parked on it stays visible" (hashtable,
 * trie): while such a ghost entry exists the harness skips operations that
 * would touch it.  Skipped steps produce no event.                          */
#include "os_base.h"
#include <qb/qbmap.h>
#include "vtrace.h"

#define NKEYS 8
#define MAXIT 4
static char keys[NKEYS + 1][48];
static qb_map_t *m;
static const char *impl;
static int kf_skip;
static unsigned long lcg = 12345;

/* scripted random(): deterministic skiplist levels per run */
long random(void) { lcg = lcg * 6364136223846793005UL + 1442695040888963407UL; return (long)((lcg >> 33) & 0x7fffffff); }

static int keyidx(const char *k)
{
	if (!k) return -1;
	for (int i = 1; i <= NKEYS; i++) if (!strcmp(keys[i], k)) return i;
	return -2;
}

/* notifier calls observed during the current API call */
static long long calls[256][5];
static int ncalls;
static void notify_cb(uint32_t event, char *key, void *old_value, void *value, void *user_data)
{
	if (ncalls >= 256) return;
	calls[ncalls][0] = event;
	calls[ncalls][1] = keyidx(key);
	calls[ncalls][2] = (intptr_t)old_value;
	calls[ncalls][3] = (event == QB_MAP_NOTIFY_FREE) ? 0 : (intptr_t)value;
	calls[ncalls][4] = (intptr_t)user_data;
	ncalls++;
}
static void end_ev(void)
{
	vt_put("],\"c\":["); vt_first = 1;
	for (int i = 0; i < ncalls; i++) { vt_lb(); for (int j = 0; j < 5; j++) vt_i(calls[i][j]); vt_le(); }
	vt_put("]}\n"); fwrite(vt_buf, 1, vt_len, vt_out);
}

static qb_map_iter_t *its[MAXIT + 1];
static int park[MAXIT + 1];   /* key the iterator last returned (0 none) */
static int ended[MAXIT + 1];
static int ghost[NKEYS + 1];  /* key removed while an iterator was parked on it */
static char *curkey[NKEYS + 1]; /* the key buffer the most recent put of that key handed to the map */
static int ghosty_any(void) { for (int k = 1; k <= NKEYS; k++) if (ghost[k]) return 1; return 0; }

static void fresh(void)
{
	if (!strcmp(impl, "hash")) m = qb_hashtable_create(8);
	else if (!strcmp(impl, "skip")) m = qb_skiplist_create();
	else m = qb_trie_create();
	memset(its, 0, sizeof(its)); memset(park, 0, sizeof(park)); memset(ended, 0, sizeof(ended)); memset(ghost, 0, sizeof(ghost)); memset(curkey, 0, sizeof(curkey));
}
static int any_ghost(void) { for (int k = 1; k <= NKEYS; k++) if (ghost[k]) return 1; return 0; }
static void reghost(void)
{
	for (int k = 1; k <= NKEYS; k++) {
		if (!ghost[k]) continue;
		int held = 0;
		for (int i = 1; i <= MAXIT; i++) if (its[i] && park[i] == k) held = 1;
		if (!held) ghost[k] = 0;
	}
}
struct stopctx { int stop, n; };
static long long trav[64][2];
static int ntrav;
static int32_t trav_cb(const char *key, void *value, void *ud)
{
	struct stopctx *c = ud;
	if (ntrav < 64) { trav[ntrav][0] = keyidx(key); trav[ntrav][1] = (intptr_t)value; ntrav++; }
	c->n++;
	return (c->stop && c->n >= c->stop) ? 1 : 0;
}

int main(int argc, char **argv)
{
	if (argc < 4) return 2;
	impl = argv[3];
	for (int i = 4; i < argc; i++) {
		if (!strcmp(argv[i], "--kf-skip")) kf_skip = 3;           /* both trigger families below */
		if (!strcmp(argv[i], "--kf-skip-ghost")) kf_skip |= 1;    /* operations on / next to an entry removed under a parked iterator */
		if (!strcmp(argv[i], "--kf-skip-split")) kf_skip |= 2;    /* trie: a put that may split the node an iterator is parked on */
		if (!strcmp(argv[i], "--seed") && i + 1 < argc) lcg = strtoul(argv[++i], NULL, 10) * 2654435761UL + 1;
	}
	strcpy(keys[1], "a"); strcpy(keys[2], "ab"); strcpy(keys[3], "abc"); strcpy(keys[4], "abd");
	strcpy(keys[5], "b"); strcpy(keys[6], "\x80z"); strcpy(keys[7], "~");
	strcpy(keys[8], "ab"); for (int i = 2; i < 40; i++) keys[8][i] = 'q'; keys[8][40] = 0;
	if (!strcmp(impl, "hash")) {
		/* the hashtable knows nothing of prefixes; what matters there is which keys share a bucket chain.  With the
		 * 16 buckets of qb_hashtable_create(8): keys 1-4 share one chain, 5 and 6 another, 7 and 8 are alone */
		strcpy(keys[1], "a"); strcpy(keys[2], "e"); strcpy(keys[3], "ao"); strcpy(keys[4], "br");
		strcpy(keys[5], "b"); strcpy(keys[6], "l"); strcpy(keys[7], "\x80z");
	}
	int ghosty = strcmp(impl, "skip") != 0;   /* the recorded finding concerns hashtable and trie */
	FILE *f = fopen(argv[1], "r");
	if (!f) { perror(argv[1]); return 2; }
	vt_open(argv[2]);
	struct vt_line L;
	fresh();
	while (vt_readline(f, &L)) {
		const char *op = L.tok[0];
		long long a1 = vt_argi(&L, 1), a2 = vt_argi(&L, 2), a3 = vt_argi(&L, 3), a4 = vt_argi(&L, 4), a5 = vt_argi(&L, 5);
		ncalls = 0;
		int g = (kf_skip & 1) && ghosty && any_ghost();
		if (!strcmp(op, "Reset")) {
			/* abandon the old map (leak-checking is off) so a damaged map cannot poison the next history */
			fresh();
			vt_ev("Reset"); vt_res(); end_ev();
		} else if (!strcmp(op, "Put")) {
			if (g && ghost[a1]) continue;
			if ((kf_skip & 2) && !strcmp(impl, "trie") && qb_map_get(m, keys[a1]) == NULL) {
				/* recorded finding: inserting a key that may split the node an iterator is parked on */
				int sk = 0;
				for (int i = 1; i <= MAXIT; i++) if (its[i] && park[i] && keys[park[i]][0] == keys[a1][0]) sk = 1;
				if (sk) continue;
			}
			{
				/* keys belong to the caller: every put hands the map its own copy, and the copy an earlier put of the
				 * same key handed over is the caller's again once that put has been replaced ("it gets replaced by the
				 * new key", qbmap.h) -- it is overwritten here, as a caller that recycles its buffers would */
				int was = qb_map_get(m, keys[a1]) != NULL;
				char *nk = strdup(keys[a1]);
				qb_map_put(m, nk, (void *)(intptr_t)a2);
				if (was && curkey[a1] && !ghosty_any()) memset(curkey[a1], 0x01, strlen(curkey[a1]));
				curkey[a1] = nk;
			}
			vt_ev(op); vt_i(a1); vt_i(a2); vt_res(); end_ev();
		} else if (!strcmp(op, "Get")) {
			if (g && ghost[a1]) continue;
			void *v = qb_map_get(m, keys[a1]);
			vt_ev(op); vt_i(a1); vt_res(); vt_i((intptr_t)v); end_ev();
		} else if (!strcmp(op, "Rm")) {
			if (g && ghost[a1]) continue;
			/* recorded finding (skiplist): a removal while a removed entry is still held by an iterator */
			if ((kf_skip & 1) && !ghosty && any_ghost()) continue;
			int rc = qb_map_rm(m, keys[a1]);
			if (rc) for (int i = 1; i <= MAXIT; i++) if (its[i] && park[i] == a1) ghost[a1] = 1;

			vt_ev(op); vt_i(a1); vt_res(); vt_i(rc); end_ev();
		} else if (!strcmp(op, "Count")) {
			size_t n = qb_map_count_get(m);
			vt_ev(op); vt_res(); vt_i((long long)n); end_ev();
		} else if (!strcmp(op, "IterAll")) {
			if (g) continue;
			ntrav = 0;
			if (a2 == 0) {
				struct stopctx c = { (int)a1, 0 };
				qb_map_foreach(m, trav_cb, &c);
			} else {
				/* prefix traversal: complete or abandoned after a1 entries */
				qb_map_iter_t *it = qb_map_pref_iter_create(m, keys[a2]);
				void *v; const char *k; int n = 0;
				while ((k = qb_map_iter_next(it, &v)) != NULL) {
					if (ntrav < 64) { trav[ntrav][0] = keyidx(k); trav[ntrav][1] = (intptr_t)v; ntrav++; }
					if (a1 && ++n >= a1) break;
				}
				qb_map_iter_free(it);
			}
			vt_ev(op); vt_i(a1); vt_i(a2); vt_res(); vt_lb();
			for (int i = 0; i < ntrav; i++) { vt_lb(); vt_i(trav[i][0]); vt_i(trav[i][1]); vt_le(); }
			vt_le(); end_ev();
		} else if (!strcmp(op, "NotifyAdd") || !strcmp(op, "NotifyDel") || !strcmp(op, "NotifyDelAny")) {
			/* a5 = user-data tag: the same callback and events registered once per tag; NotifyDel = qb_map_notify_del_2
			 * (that tag only), NotifyDelAny = qb_map_notify_del (whatever the user data) */
			if (g && a1 && ghost[a1]) continue;
			int events = (int)a2 | (a3 ? QB_MAP_NOTIFY_RECURSIVE : 0) | (a4 ? QB_MAP_NOTIFY_FREE : 0);
			int any = !strcmp(op, "NotifyDelAny");
			if (any || a5 < 0) a5 = 0;
			long long ud = a1 * 1000 + a5 * 100 + a2 * 10 + (a3 ? 1 : 0) + (a4 ? 5 : 0);
			int rc = !strcmp(op, "NotifyAdd")
				? qb_map_notify_add(m, a1 ? keys[a1] : NULL, notify_cb, events, (void *)(intptr_t)ud)
				: any ? qb_map_notify_del(m, a1 ? keys[a1] : NULL, notify_cb, events)
				: qb_map_notify_del_2(m, a1 ? keys[a1] : NULL, notify_cb, events, (void *)(intptr_t)ud);
			vt_ev(op); vt_i(a1); vt_i(a2); vt_i(a3); vt_i(a4); if (!any) vt_i(a5); vt_res(); vt_i(rc); end_ev();
		} else if (!strcmp(op, "Destroy")) {
			int open = 0; for (int i = 1; i <= MAXIT; i++) if (its[i]) open = 1;
			if (open) continue;
			qb_map_destroy(m);
			/* the skiplist announces its internal header node (NULL key, NULL value) at destroy: not a value leaving the map */
			int w = 0;
			for (int i = 0; i < ncalls; i++) if (!(calls[i][1] == -1 && calls[i][2] == 0)) { memcpy(calls[w], calls[i], sizeof(calls[0])); w++; }
			ncalls = w;
			vt_ev(op); vt_res(); end_ev();
			fresh();   /* a new map for whatever follows; the trace spec requires Reset next */
		} else if (!strcmp(op, "IterCreate")) {
			if (g || its[a1]) continue;
			its[a1] = a2 ? qb_map_pref_iter_create(m, keys[a2]) : qb_map_iter_create(m);
			park[a1] = 0; ended[a1] = 0;
			vt_ev(op); vt_i(a1); vt_i(a2); vt_res(); end_ev();
		} else if (!strcmp(op, "IterNext")) {
			if (!its[a1] || ended[a1]) continue;
			if (g && !(park[a1] && ghost[park[a1]])) continue;
			void *v = NULL;
			const char *k = qb_map_iter_next(its[a1], &v);
			int ki = k ? keyidx(k) : 0;
			park[a1] = ki > 0 ? ki : 0;
			if (!k) ended[a1] = 1;
			reghost();
			vt_ev(op); vt_i(a1); vt_res(); vt_i(ki); vt_i(k ? (intptr_t)v : 0); end_ev();
		} else if (!strcmp(op, "IterFree")) {
			if (!its[a1]) continue;
			qb_map_iter_free(its[a1]);
			its[a1] = NULL; park[a1] = 0; ended[a1] = 0;
			reghost();
			vt_ev(op); vt_i(a1); vt_res(); end_ev();
		} else {
			fprintf(stderr, "h_map: unknown op %s\n", op); return 2;
		}
	}
	vt_close();
	return 0;
}
