/* h_rb_seq: executes a schedule of ring buffer calls (one caller, sequential) on
 * the real qb_rb_* API and records calls and results (ndjson) for RingAbsTrace.tla.
 * usage: h_rb_seq <schedule> <trace-out>
 * ops:  Open <S> <overwrite 0|1> <nosem 0|1>
 *       Write <len> <pattern>            AllocCommit <reserve> <len> <pattern>
 *       Read <buflen>   Peek   Reclaim   Close   Reset
 * The harness interposes mmap so that the circular double mapping is followed by
 * a large inaccessible area: a word index outside the buffer faults instead of
 * silently reading a neighbouring mapping (ASan does not shadow mmap'ed files). */
#include "os_base.h"
#include <sys/mman.h>
#include <dlfcn.h>
#include <qb/qbrb.h>
#include "vtrace.h"

/* ---- mmap guard: enlarge the PROT_NONE reservation made by qb_sys_circular_mmap ---- */
#define TAIL (1ULL << 35)
static struct { void *base; size_t len; } resv[8];
void *mmap(void *addr, size_t len, int prot, int flags, int fd, off_t off)
{
	static void *(*real)(void *, size_t, int, int, int, off_t);
	if (!real) real = dlsym(RTLD_NEXT, "mmap");
	if (addr == NULL && prot == PROT_NONE && (flags & MAP_ANONYMOUS) && fd == -1) {
		void *p = real(NULL, len + TAIL, PROT_NONE, flags | MAP_NORESERVE, -1, 0);
		if (p != MAP_FAILED)
			for (int i = 0; i < 8; i++) if (!resv[i].base) { resv[i].base = p; resv[i].len = len + TAIL; break; }
		return p;
	}
	return real(addr, len, prot, flags, fd, off);
}
/* the library unmaps what it asked for; the inaccessible tail added above goes with it */
int munmap(void *addr, size_t len)
{
	static int (*real)(void *, size_t);
	if (!real) real = dlsym(RTLD_NEXT, "munmap");
	for (int i = 0; i < 8; i++)
		if (resv[i].base == addr) { size_t l = resv[i].len; resv[i].base = NULL; return real(addr, l); }
	return real(addr, len);
}

static qb_ringbuffer_t *rb;
static int seq;          /* names the written chunks: payloads differ per chunk */
static unsigned char *buf;
#define BUFMAX (1 << 22)

static unsigned h31(const unsigned char *p, size_t n)
{
	unsigned h = 2166136261u;
	for (size_t i = 0; i < n; i++) { h ^= p[i]; h *= 16777619u; }
	return (h ^ (h >> 31)) & 0x3fffffff;
}
/* payload patterns: 0 unique bytes; 1 every word = chunk MAGIC; 2 words alternate small length / MAGIC
 * (imitates a chunk header); 3 DEAD / ALLOC marker words */
static void fill(unsigned char *p, size_t n, int pat, int id)
{
	uint32_t w;
	for (size_t i = 0; i < n; i++) {
		size_t k = i / 4;
		switch (pat) {
		case 1: w = 0xA1A1A1A1u; break;
		case 2: w = (k % 2 == 0) ? 8u : 0xA1A1A1A1u; break;
		case 3: w = (k % 2 == 0) ? 0xD0D0D0D0u : 0xA110CED0u; break;
		default: w = (uint32_t)(id * 2654435761u + k * 40503u + 77u); break;
		}
		p[i] = ((unsigned char *)&w)[i % 4];
	}
	if (pat != 0 && n >= 4) { /* keep chunks distinguishable: last word carries the id unless the chunk is tiny */
		if (n >= 12) { w = 0x5eed0000u + id; memcpy(p + (n / 4 - 1) * 4, &w, 4); }
	}
}

int main(int argc, char **argv)
{
	if (argc < 3) return 2;
	FILE *f = fopen(argv[1], "r");
	if (!f) { perror(argv[1]); return 2; }
	vt_open(argv[2]);
	buf = malloc(BUFMAX);
	char name[64];
	int nopen = 0, nosem = 0;
	struct vt_line L;
	while (vt_readline(f, &L)) {
		const char *op = L.tok[0];
		if (!strcmp(op, "Reset") || !strcmp(op, "Close")) {
			if (rb) { qb_rb_close(rb); rb = NULL; }
			if (!strcmp(op, "Reset")) vt_simple("Reset"); else { vt_simple("Close"); }
			continue;
		}
		if (!strcmp(op, "Open")) {
			long S = vt_argi(&L, 1); int ovw = vt_argi(&L, 2); nosem = vt_argi(&L, 3);
			if (rb) qb_rb_close(rb);
			snprintf(name, sizeof(name), "vrb-%d-%d", getpid(), nopen++);
			uint32_t fl = QB_RB_FLAG_CREATE | (ovw ? QB_RB_FLAG_OVERWRITE : 0) | (nosem ? QB_RB_FLAG_NO_SEMAPHORE : 0);
			rb = qb_rb_open(name, S, fl, 0);
			seq = 0;
			vt_ev(op); vt_i(S); vt_i(ovw); vt_i(nosem); vt_res(); vt_i(rb ? 0 : -1); vt_end();
			if (!rb) { fprintf(stderr, "open failed\n"); return 3; }
			continue;
		}
		if (!rb) continue;
		if (!strcmp(op, "Write")) {
			size_t len = vt_argi(&L, 1); int pat = vt_argi(&L, 2);
			fill(buf, len, pat, ++seq);
			unsigned h = h31(buf, len);
			ssize_t rc = qb_rb_chunk_write(rb, buf, len);
			vt_ev(op); vt_i(len); vt_i(len); vt_i(h); vt_res(); vt_i(rc); vt_end();
		} else if (!strcmp(op, "AllocCommit")) {
			size_t reserve = vt_argi(&L, 1), len = vt_argi(&L, 2); int pat = vt_argi(&L, 3);
			if (len > reserve) len = reserve;
			fill(buf, len, pat, ++seq);
			unsigned h = h31(buf, len);
			void *dst = qb_rb_chunk_alloc(rb, reserve);
			long rc;
			if (!dst) rc = -errno;
			else { memcpy(dst, buf, len); rc = qb_rb_chunk_commit(rb, len); if (rc == 0) rc = len; }
			vt_ev("Write"); vt_i(reserve); vt_i(len); vt_i(h); vt_res(); vt_i(rc); vt_end();
		} else if (!strcmp(op, "Read")) {
			size_t bl = vt_argi(&L, 1);
			if (bl > BUFMAX) bl = BUFMAX;
			unsigned char *b = malloc(bl ? bl : 1);      /* exact size: an overrun is an ASan event */
			ssize_t rc = qb_rb_chunk_read(rb, b, bl, 0);
			vt_ev(op); vt_i(bl); vt_res(); vt_i(rc); vt_i(rc >= 0 ? h31(b, rc) : 0); vt_end();
			free(b);
		} else if (!strcmp(op, "Peek")) {
			void *p = NULL;
			ssize_t rc = qb_rb_chunk_peek(rb, &p, 0);
			unsigned h = 0;
			if (rc > 0 && rc <= BUFMAX && p) h = h31(p, rc); else if (rc == 0) h = h31((unsigned char *)"", 0);
			vt_ev(op); vt_res(); vt_i(rc); vt_i(h); vt_end();
			if (!nosem && rc >= 0) {   /* with the semaphore a peek consumes the notification: it has to be paired with a reclaim
						    * (0 is returned both for "nothing there" and for a zero-length chunk; reclaiming an
						    * empty ring does nothing) */
				qb_rb_chunk_reclaim(rb);
				vt_simple("Reclaim");
			}
		} else if (!strcmp(op, "Reclaim")) {
			if (!nosem) continue;     /* see Peek */
			qb_rb_chunk_reclaim(rb);
			vt_simple("Reclaim");
		} else { fprintf(stderr, "h_rb_seq: unknown op %s\n", op); return 2; }
	}
	if (rb) qb_rb_close(rb);
	vt_close();
	return 0;
}
