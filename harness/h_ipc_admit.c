/* h_ipc_admit: C05 (IPC admission).  Runs scenarios on the REAL library:
 *   - a real qb_ipcs service in this process, single threaded and stepped: the
 *     qb_ipcs_poll_handlers are this harness's own table; one registered fd
 *     callback is called per step when poll() says ready, queued jobs run after it;
 *   - real client processes (fork) that change their effective/real/saved ids with
 *     setresgid/setresuid and then call the real qb_ipcc_connect (kind 0) or speak
 *     the handshake themselves and then try to push a request through whatever they
 *     can reach (kind 1);
 *   - every file-system related libc call the library makes in the server process is
 *     interposed (-Wl,--wrap=...): after each one everything under /dev/shm that belongs
 *     to this server is stat()ed and, when it differs from the previous observation,
 *     logged as an "Obs" event (client, class, uid, gid, mode).  That is the
 *     "at any moment of their existence" quantifier made finite.
 * The harness only projects; what is admissible is decided by spec/IpcAdmit.tla (TLC).
 *
 * schedule (one op per line):
 *   Server <transport 1=shm 2=socket> <umask> <policy 0=first ready 1=last ready 2..=seeded>
 *   Client <k> <uid> <gid> <cvar 0: real=eff=saved, 1: only effective ids change> <kind>
 *          <ret> <has_aset> <auid> <agid> <amode> [<plant>]
 *          plant = 1: while the server sets up this client's connection, somebody else who may write into the
 *          connection directory (it is handed to the peer's group before the files are made) creates the request
 *          data file first, world-accessible, and keeps it open.  The server must not make that file the channel:
 *          event Plant [k] -> [adopted]; the planter removes its file again if the server refused it.
 *   Run
 *   Reset
 * usage: h_ipc_admit <schedule> <trace-out>
 * exit: 0 ok, 2 usage, 3 scenario could not be completed (time-out / set-up failure).       */
#include "os_base.h"
#include <poll.h>
#include <dirent.h>
#include <grp.h>
#include <sched.h>
#include <signal.h>
#include <sys/mount.h>
#include <sys/prctl.h>
#include <sys/wait.h>
#include <sys/un.h>
#include <sys/socket.h>
#include <sys/stat.h>
#include <sys/mman.h>
#include <qb/qbdefs.h>
#include <qb/qbipcs.h>
#include <qb/qbipcc.h>
#include <qb/qbrb.h>
#include "ipc_int.h"
#include "vtrace.h"

/* ------------------------------------------------------------------ observation */
static pid_t srv_pid;
static int obs_on;          /* inside library code of the server */
static int in_obs;
static int private_shm;     /* /dev/shm is a private tmpfs: everything in it is ours */
static char last_obs[1 << 15];
static long n_calls, n_obs;

#define MAXC 32
struct client {
	int k, uid, gid, cvar, kind, ret, has, auid, agid, amode, plant;
	pid_t pid;
	int rfd, wfd;
	char buf[512]; int blen;
	int got_c, got_r, got_s, got_d, reaped, ok, euid, egid;
};
static struct client cls[MAXC];
static int ncl;

static int k_of_pid(pid_t p)
{
	for (int i = 0; i < ncl; i++) if (cls[i].pid == p) return cls[i].k;
	return 0;
}

static int plant_for(int k)
{
	for (int i = 0; i < ncl; i++) if (cls[i].k == k) return cls[i].plant;
	return 0;
}

struct oent { int k, cls, uid, gid, mode; };
static int oent_cmp(const void *a, const void *b)
{
	const struct oent *x = a, *y = b;
	if (x->k != y->k) return x->k - y->k;
	if (x->cls != y->cls) return x->cls - y->cls;
	if (x->uid != y->uid) return x->uid - y->uid;
	if (x->gid != y->gid) return x->gid - y->gid;
	return x->mode - y->mode;
}
static int ends_with(const char *s, const char *suf)
{
	size_t a = strlen(s), b = strlen(suf);
	return a >= b && !strcmp(s + a - b, suf);
}
static int class_of(const char *name)
{
	int base = 0;
	if (!strncmp(name, "qb-request-", 11)) base = 1;
	else if (!strncmp(name, "qb-response-", 12)) base = 3;
	else if (!strncmp(name, "qb-event-", 9)) base = 5;
	else if (!strncmp(name, "qb-control-", 11)) return 7;
	else return 9;
	if (ends_with(name, "-header")) return base;
	if (ends_with(name, "-data")) return base + 1;
	return 9;
}

static void observe(int force)
{
	static struct oent e[512];
	int n = 0;
	if (in_obs || getpid() != srv_pid) return;
	in_obs = 1;
	DIR *d = opendir("/dev/shm");
	struct dirent *de;
	char pfx[64];
	snprintf(pfx, sizeof pfx, "qb-%d-", (int)srv_pid);
	while (d && (de = readdir(d)) && n < 500) {
		if (!strcmp(de->d_name, ".") || !strcmp(de->d_name, "..")) continue;
		int mine = !strncmp(de->d_name, pfx, strlen(pfx));
		if (!mine && !private_shm) continue;
		char path[PATH_MAX];
		struct stat st;
		snprintf(path, sizeof path, "/dev/shm/%s", de->d_name);
		if (lstat(path, &st) != 0) continue;          /* vanished meanwhile */
		int k = 0, sp = 0, cp = 0, fd = 0;
		if (mine && sscanf(de->d_name, "qb-%d-%d-%d-", &sp, &cp, &fd) == 3) k = k_of_pid(cp);
		if (!S_ISDIR(st.st_mode)) {
			e[n++] = (struct oent){k, 9, st.st_uid, st.st_gid, st.st_mode & 07777};
			continue;
		}
		e[n++] = (struct oent){k, 0, st.st_uid, st.st_gid, st.st_mode & 07777};
		DIR *d2 = opendir(path);
		struct dirent *f;
		while (d2 && (f = readdir(d2)) && n < 500) {
			if (!strcmp(f->d_name, ".") || !strcmp(f->d_name, "..")) continue;
			struct stat s2;
			if (fstatat(dirfd(d2), f->d_name, &s2, AT_SYMLINK_NOFOLLOW) != 0) continue;
			e[n++] = (struct oent){k, S_ISREG(s2.st_mode) ? class_of(f->d_name) : 9,
					       s2.st_uid, s2.st_gid, s2.st_mode & 07777};
		}
		if (d2) closedir(d2);
	}
	if (d) closedir(d);
	qsort(e, n, sizeof e[0], oent_cmp);
	static char cur[1 << 15];
	size_t len = 0;
	cur[0] = 0;
	for (int i = 0; i < n && len < sizeof cur - 80; i++)
		len += snprintf(cur + len, sizeof cur - len, "%s[%d,%d,%d,%d,%d]", i ? "," : "",
				e[i].k, e[i].cls, e[i].uid, e[i].gid, e[i].mode);
	if (force || strcmp(cur, last_obs)) {
		strcpy(last_obs, cur);
		vt_len = 0;
		vt_put("{\"e\":\"Obs\",\"a\":[[%s]],\"r\":[]}\n", cur);
		fwrite(vt_buf, 1, vt_len, vt_out);
		n_obs++;
	}
	in_obs = 0;
}

#define AFTER() do { if (obs_on && !in_obs) { int e_ = errno; n_calls++; observe(0); errno = e_; } } while (0)
#define WRAP(ret, name, params, args) \
	ret __real_##name params; \
	ret __wrap_##name params { ret r_ = __real_##name args; AFTER(); return r_; }

static int disp_k;
static int plant_for(int k);
static int planted_fd = -1;
int __real_fchown(int fd, uid_t u, gid_t g);
int __real_fchmod(int fd, mode_t m);
int __real_unlink(const char *p);
int __real_open(const char *p, int fl, ...);
int __wrap_open(const char *p, int fl, ...)
{
	mode_t m = 0;
	if (fl & (O_CREAT | O_TMPFILE)) { va_list ap; va_start(ap, fl); m = va_arg(ap, int); va_end(ap); }
	const char *base = strrchr(p, '/');
	base = base ? base + 1 : p;
	if (obs_on && !in_obs && getpid() == srv_pid && (fl & O_CREAT) && planted_fd < 0 && plant_for(disp_k) &&
	    !strncmp(base, "qb-request-", 11) && ends_with(base, "-data")) {
		/* the other party gets there first */
		struct stat s1, s2;
		int k = disp_k, adopted = 0;
		planted_fd = __real_open(p, O_CREAT | O_EXCL | O_RDWR, 0666);
		if (planted_fd >= 0) { (void)!__real_fchown(planted_fd, 4243, (gid_t)-1); (void)!__real_fchmod(planted_fd, 0666); }
		int r = __real_open(p, fl, m);
		if (planted_fd >= 0 && r >= 0 && fstat(planted_fd, &s1) == 0 && fstat(r, &s2) == 0 && s1.st_ino == s2.st_ino) adopted = 1;
		if (planted_fd >= 0 && !adopted) { int e_ = errno; __real_unlink(p); errno = e_; }
		{ int e_ = errno; vt_ev("Plant"); vt_i(k); vt_res(); vt_i(planted_fd >= 0 ? adopted : -1); vt_end(); errno = e_; }
		AFTER();
		return r;
	}
	int r = __real_open(p, fl, m);
	AFTER();
	return r;
}
int __real_openat(int dfd, const char *p, int fl, ...);
int __wrap_openat(int dfd, const char *p, int fl, ...)
{
	mode_t m = 0;
	if (fl & (O_CREAT | O_TMPFILE)) { va_list ap; va_start(ap, fl); m = va_arg(ap, int); va_end(ap); }
	int r = __real_openat(dfd, p, fl, m);
	AFTER();
	return r;
}
WRAP(int, creat, (const char *p, mode_t m), (p, m))
WRAP(char *, mkdtemp, (char *t), (t))
WRAP(int, mkstemp, (char *t), (t))
WRAP(int, mkdir, (const char *p, mode_t m), (p, m))
WRAP(int, chmod, (const char *p, mode_t m), (p, m))
WRAP(int, fchmod, (int fd, mode_t m), (fd, m))
WRAP(int, fchmodat, (int dfd, const char *p, mode_t m, int fl), (dfd, p, m, fl))
WRAP(int, chown, (const char *p, uid_t u, gid_t g), (p, u, g))
WRAP(int, lchown, (const char *p, uid_t u, gid_t g), (p, u, g))
WRAP(int, fchown, (int fd, uid_t u, gid_t g), (fd, u, g))
WRAP(int, fchownat, (int dfd, const char *p, uid_t u, gid_t g, int fl), (dfd, p, u, g, fl))
WRAP(int, ftruncate, (int fd, off_t l), (fd, l))
WRAP(int, truncate, (const char *p, off_t l), (p, l))
WRAP(int, posix_fallocate, (int fd, off_t o, off_t l), (fd, o, l))
WRAP(void *, mmap, (void *a, size_t l, int pr, int fl, int fd, off_t o), (a, l, pr, fl, fd, o))
WRAP(int, munmap, (void *a, size_t l), (a, l))
WRAP(int, close, (int fd), (fd))
WRAP(int, unlink, (const char *p), (p))
WRAP(int, unlinkat, (int dfd, const char *p, int fl), (dfd, p, fl))
WRAP(int, rmdir, (const char *p), (p))
WRAP(int, rename, (const char *a, const char *b), (a, b))
WRAP(int, link, (const char *a, const char *b), (a, b))
WRAP(int, symlink, (const char *a, const char *b), (a, b))
WRAP(int, bind, (int fd, const struct sockaddr *a, socklen_t l), (fd, a, l))
WRAP(mode_t, umask, (mode_t m), (m))
WRAP(ssize_t, send, (int fd, const void *b, size_t l, int fl), (fd, b, l, fl))

/* ------------------------------------------------------------------ stepped server */
struct pent { int fd, events, live; void *data; qb_ipcs_dispatch_fn_t fn; };
static struct pent pt[512];
static int npt;
struct job { void *data; qb_loop_job_dispatch_fn fn; };
static struct job jobs[256];
static int njobs;
static int policy;
static unsigned long rstate;
/* disp_k (declared above): client whose accept callback ran during the current dispatch */

static int32_t ph_job_add(enum qb_loop_priority p, void *data, qb_loop_job_dispatch_fn fn)
{
	if (njobs >= 256) return -ENOMEM;
	jobs[njobs++] = (struct job){data, fn};
	return 0;
}
static int32_t ph_add(enum qb_loop_priority p, int32_t fd, int32_t ev, void *data, qb_ipcs_dispatch_fn_t fn)
{
	for (int i = 0; i < npt; i++) if (pt[i].live && pt[i].fd == fd) return -EEXIST;
	for (int i = 0; i < npt; i++) if (!pt[i].live) { pt[i] = (struct pent){fd, ev, 1, data, fn}; return 0; }
	if (npt >= 512) return -ENOMEM;
	pt[npt++] = (struct pent){fd, ev, 1, data, fn};
	return 0;
}
static int32_t ph_mod(enum qb_loop_priority p, int32_t fd, int32_t ev, void *data, qb_ipcs_dispatch_fn_t fn)
{
	for (int i = 0; i < npt; i++) if (pt[i].live && pt[i].fd == fd) { pt[i].events = ev; pt[i].data = data; pt[i].fn = fn; return 0; }
	return -ENOENT;
}
static int32_t ph_del(int32_t fd)
{
	for (int i = 0; i < npt; i++) if (pt[i].live && pt[i].fd == fd) { pt[i].live = 0; return 0; }
	return -ENOENT;
}
static struct qb_ipcs_poll_handlers ph = { ph_job_add, ph_add, ph_mod, ph_del };

static void run_jobs(void)
{
	while (njobs > 0) {
		struct job j = jobs[0];
		memmove(jobs, jobs + 1, sizeof(jobs[0]) * (--njobs));
		obs_on = 1;
		j.fn(j.data);
		obs_on = 0;
	}
}

/* one step: at most one ready descriptor callback.  returns 1 if something ran */
static int step(int timeout_ms, struct pollfd *extra, int nextra)
{
	struct pollfd pf[600];
	int idx[600], n = 0;
	for (int i = 0; i < npt; i++) if (pt[i].live) { pf[n].fd = pt[i].fd; pf[n].events = pt[i].events; pf[n].revents = 0; idx[n++] = i; }
	int ns = n;
	for (int i = 0; i < nextra; i++) { pf[n] = extra[i]; pf[n].revents = 0; n++; }
	int rc = poll(pf, n, njobs ? 0 : timeout_ms);
	for (int i = 0; i < nextra; i++) extra[i].revents = pf[ns + i].revents;
	int ready[600], nr = 0;
	if (rc > 0) for (int i = 0; i < ns; i++) if (pf[i].revents) ready[nr++] = i;
	int ran = 0;
	if (nr > 0) {
		int pick = 0;
		if (policy == 1) pick = nr - 1;
		else if (policy >= 2) { rstate = rstate * 6364136223846793005UL + 1442695040888963407UL; pick = (rstate >> 33) % nr; }
		struct pent *e = &pt[idx[ready[pick]]];
		int fd = e->fd;
		qb_ipcs_dispatch_fn_t fn = e->fn;
		disp_k = 0;
		obs_on = 1;
		int32_t r = fn(fd, pf[ready[pick]].revents, e->data);
		obs_on = 0;
		if (r < 0 && e->live && e->fd == fd && e->fn == fn) e->live = 0;   /* qb_loop semantics */
		if (disp_k) { vt_ev("Handled"); vt_i(disp_k); vt_res(); vt_end(); disp_k = 0; }
		ran = 1;
	}
	if (njobs) { run_jobs(); ran = 1; }
	return ran;
}

/* ------------------------------------------------------------------ service callbacks */
static int32_t cb_accept(qb_ipcs_connection_t *c, uid_t uid, gid_t gid)
{
	struct qb_ipcs_connection_stats st;
	memset(&st, 0, sizeof st);
	qb_ipcs_connection_stats_get(c, &st, QB_FALSE);
	int k = k_of_pid(st.client_pid);
	struct client *cl = NULL;
	for (int i = 0; i < ncl; i++) if (cls[i].k == k) cl = &cls[i];
	int ret = cl ? cl->ret : -EACCES;
	if (cl && cl->has) qb_ipcs_connection_auth_set(c, cl->auid, cl->agid, cl->amode);
	qb_ipcs_context_set(c, (void *)(intptr_t)k);
	vt_ev("Accept"); vt_i(k); vt_i((long long)uid); vt_i((long long)gid); vt_res();
	vt_i(ret); vt_i(cl ? cl->has : 0); vt_i(cl ? cl->auid : 0); vt_i(cl ? cl->agid : 0); vt_i(cl ? cl->amode : 0); vt_end();
	disp_k = k;
	return ret;
}
static void cb_created(qb_ipcs_connection_t *c) { }
static int32_t cb_msg(qb_ipcs_connection_t *c, void *data, size_t size)
{
	int k = (int)(intptr_t)qb_ipcs_context_get(c);
	vt_ev("Msg"); vt_i(k); vt_res(); vt_end();
	return 0;
}
static int32_t cb_closed(qb_ipcs_connection_t *c) { return 0; }
static void cb_destroyed(qb_ipcs_connection_t *c) { }
static struct qb_ipcs_service_handlers sh = { cb_accept, cb_created, cb_msg, cb_closed, cb_destroyed };

/* ------------------------------------------------------------------ clients */
static void say(int fd, const char *fmt, ...)
{
	char b[128];
	va_list ap;
	va_start(ap, fmt);
	int n = vsnprintf(b, sizeof b, fmt, ap);
	va_end(ap);
	if (write(fd, b, n) != n) _exit(7);
}
static void wait_byte(int fd) { char ch; while (read(fd, &ch, 1) < 0 && errno == EINTR) ; }

static int raw_fd = -1;
/* kind 1: speak the handshake on the wire, then try to get a request to the server anyway */
static void raw_client(struct client *me, const char *name, int out)
{
	struct sockaddr_un a;
	int fd = socket(PF_UNIX, SOCK_STREAM, 0);
	memset(&a, 0, sizeof a);
	a.sun_family = AF_UNIX;
	snprintf(a.sun_path + 1, sizeof(a.sun_path) - 1, "%s", name);
	if (connect(fd, (struct sockaddr *)&a, sizeof a) != 0) {
		say(out, "R 0 %d\n", errno); say(out, "S 0\n"); return;
	}
	struct qb_ipc_connection_request req;
	static struct qb_ipc_connection_response resp;
	memset(&req, 0, sizeof req);
	req.hdr.id = QB_IPC_MSG_AUTHENTICATE;
	req.hdr.size = sizeof req;
	req.max_msg_size = 8192;
	if (send(fd, &req, sizeof req, MSG_NOSIGNAL) != sizeof req) { say(out, "R 0 %d\n", errno); say(out, "S 0\n"); return; }
	size_t got = 0;
	while (got < sizeof resp) {
		ssize_t r = recv(fd, (char *)&resp + got, sizeof resp - got, 0);
		if (r < 0 && errno == EINTR) continue;
		if (r <= 0) break;
		got += r;
	}
	if (got < sizeof resp) { say(out, "R 0 %d\n", ENOTCONN); say(out, "S 0\n"); return; }
	say(out, "R %d %d\n", resp.hdr.error == 0, -resp.hdr.error);
	/* whatever it has: the set-up socket, and any file it can find for itself */
	int n = 0;
	struct { struct qb_ipc_request_header h; char pad[16]; } m;
	memset(&m, 0, sizeof m);
	m.h.id = QB_IPC_MSG_USER_START + 2;
	m.h.size = sizeof m;
	for (int i = 0; i < 3; i++) if (send(fd, &m, sizeof m, MSG_NOSIGNAL | MSG_DONTWAIT) == sizeof m) n++;
	DIR *d = opendir("/dev/shm");
	struct dirent *de;
	char pfx[64];
	snprintf(pfx, sizeof pfx, "qb-%d-%d-", (int)getppid(), (int)getpid());
	while (d && (de = readdir(d))) {
		if (strncmp(de->d_name, pfx, strlen(pfx))) continue;
		char dir[PATH_MAX];
		snprintf(dir, sizeof dir, "/dev/shm/%s", de->d_name);
		n += 100;
		DIR *d2 = opendir(dir);
		struct dirent *f;
		while (d2 && (f = readdir(d2))) {
			if (strncmp(f->d_name, "qb-request-", 11) || !ends_with(f->d_name, "-header")) continue;
			char base[PATH_MAX];
			snprintf(base, sizeof base, "%s/%s", dir, f->d_name);
			base[strlen(base) - 7] = 0;
			qb_ringbuffer_t *rb = qb_rb_open(base, 8192, QB_RB_FLAG_SHARED_PROCESS, sizeof(int32_t));
			if (rb && qb_rb_chunk_write(rb, &m, sizeof m) == sizeof m) n += 1000;
		}
		if (d2) closedir(d2);
	}
	if (d) closedir(d);
	(void)send(fd, "x", 1, MSG_NOSIGNAL | MSG_DONTWAIT);
	say(out, "S %d\n", n);
	raw_fd = fd;        /* stays open until told to finish */
}

static void child_main(struct client *me, const char *name, int in, int out)
{
	srv_pid = 0; obs_on = 0;
	if (geteuid() == 0) {
		if (setgroups(0, NULL) != 0) _exit(8);
		if (me->cvar == 0) {
			if (setresgid(me->gid, me->gid, me->gid) != 0 || setresuid(me->uid, me->uid, me->uid) != 0) _exit(8);
		} else {  /* only the effective ids differ from the server's: real and saved ids stay */
			if (setresgid(-1, me->gid, -1) != 0 || setresuid(-1, me->uid, -1) != 0) _exit(8);
		}
	}
	prctl(PR_SET_PDEATHSIG, SIGKILL);
	say(out, "C %d %d\n", (int)geteuid(), (int)getegid());
	wait_byte(in);
	qb_ipcc_connection_t *c = NULL;
	if (me->kind == 0) {
		errno = 0;
		c = qb_ipcc_connect(name, 8192);
		int e = errno;
		say(out, "R %d %d\n", c != NULL, c ? 0 : e);
		if (c) {
			struct { struct qb_ipc_request_header h; char pad[16]; } m;
			memset(&m, 0, sizeof m);
			m.h.id = QB_IPC_MSG_USER_START + 1;
			m.h.size = sizeof m;
			ssize_t r = qb_ipcc_send(c, &m, sizeof m);
			say(out, "S %d\n", (int)r);
		}
	} else {
		raw_client(me, name, out);
	}
	wait_byte(in);
	if (c) qb_ipcc_disconnect(c);
	say(out, "D\n");
	_exit(0);
}

static void on_line(struct client *c, char *ln)
{
	int a = 0, b = 0;
	if (ln[0] == 'C' && sscanf(ln + 1, "%d %d", &a, &b) == 2) { c->got_c = 1; c->euid = a; c->egid = b; }
	else if (ln[0] == 'R' && sscanf(ln + 1, "%d %d", &a, &b) == 2) {
		c->got_r = 1; c->ok = a;
		vt_ev("Result"); vt_i(c->k); vt_res(); vt_i(a); vt_i(b); vt_end();
		if (!a && c->kind == 0) c->got_s = 1;       /* nothing to send with */
	} else if (ln[0] == 'S' && sscanf(ln + 1, "%d", &a) == 1) {
		c->got_s = 1;
		vt_ev("Sent"); vt_i(c->k); vt_i(a); vt_res(); vt_end();
	} else if (ln[0] == 'D') c->got_d = 1;
}
static void drain(struct client *c)
{
	for (;;) {
		ssize_t r = read(c->rfd, c->buf + c->blen, sizeof(c->buf) - 1 - c->blen);
		if (r <= 0) break;
		c->blen += r;
		c->buf[c->blen] = 0;
		char *nl;
		while ((nl = strchr(c->buf, '\n'))) {
			*nl = 0;
			on_line(c, c->buf);
			c->blen -= (nl + 1 - c->buf);
			memmove(c->buf, nl + 1, c->blen + 1);
		}
	}
}
static void reap(void)
{
	for (int i = 0; i < ncl; i++) {
		int st;
		if (cls[i].reaped || cls[i].pid <= 0) continue;
		if (waitpid(cls[i].pid, &st, WNOHANG) == cls[i].pid) {
			cls[i].reaped = 1;
			drain(&cls[i]);
			if (!(WIFEXITED(st) && WEXITSTATUS(st) == 0)) {
				vt_ev("ChildDied"); vt_i(cls[i].k); vt_i(st); vt_res(); vt_end();
				cls[i].got_r = cls[i].got_s = cls[i].got_d = 1;
			}
		}
	}
}
static double now_s(void) { struct timespec t; clock_gettime(CLOCK_MONOTONIC, &t); return t.tv_sec + t.tv_nsec / 1e9; }
static void die(const char *what)
{
	fprintf(stderr, "h_ipc_admit: %s\n", what);
	for (int i = 0; i < ncl; i++) if (cls[i].pid > 0 && !cls[i].reaped) kill(cls[i].pid, SIGKILL);
	vt_close();
	exit(3);
}

/* step the server and read the clients' reports until pred() holds */
static void pump(int (*pred)(void), const char *what)
{
	double t0 = now_s();
	while (!pred()) {
		struct pollfd ex[MAXC];
		for (int i = 0; i < ncl; i++) { ex[i].fd = cls[i].rfd; ex[i].events = POLLIN; }
		step(2, ex, ncl);
		for (int i = 0; i < ncl; i++) drain(&cls[i]);
		reap();
		if (now_s() - t0 > 30.0) die(what);
	}
}
static void settle(void)
{
	int idle = 0;
	double t0 = now_s();
	while (idle < 3 && now_s() - t0 < 10.0) {
		struct pollfd ex[MAXC];
		for (int i = 0; i < ncl; i++) { ex[i].fd = cls[i].rfd; ex[i].events = POLLIN; }
		int ran = step(3, ex, ncl);
		for (int i = 0; i < ncl; i++) drain(&cls[i]);
		reap();
		idle = ran ? 0 : idle + 1;
	}
}
static int all_c(void) { for (int i = 0; i < ncl; i++) if (!cls[i].got_c) return 0; return 1; }
static int all_rs(void) { for (int i = 0; i < ncl; i++) if (!cls[i].got_r || !cls[i].got_s) return 0; return 1; }
static int all_gone(void) { for (int i = 0; i < ncl; i++) if (!cls[i].reaped) return 0; return 1; }

static int transport = 1, um = 0, nscen;

static void run_scenario(void)
{
	char name[64];
	snprintf(name, sizeof name, "c05-%d-%d", (int)getpid(), ++nscen);
	umask(um);
	npt = njobs = 0;
	last_obs[0] = 0;
	rstate = 88172645463325252UL + (unsigned long)policy * 7919;
	obs_on = 1;
	qb_ipcs_service_t *s = qb_ipcs_create(name, 0, transport == 1 ? QB_IPC_SHM : QB_IPC_SOCKET, &sh);
	if (s) qb_ipcs_poll_handlers_set(s, &ph);
	int rc = s ? qb_ipcs_run(s) : -1;
	obs_on = 0;
	if (rc != 0) die("cannot start the service");
	vt_ev("Server"); vt_i(transport); vt_i(geteuid()); vt_i(getegid()); vt_res(); vt_end();
	observe(1);

	for (int i = 0; i < ncl; i++) {
		int p1[2], p2[2];
		if (pipe(p1) || pipe(p2)) die("pipe");
		vt_flush();
		pid_t p = fork();
		if (p < 0) die("fork");
		if (p == 0) {
			for (int j = 0; j < i; j++) { __real_close(cls[j].rfd); __real_close(cls[j].wfd); }
			__real_close(p1[0]); __real_close(p2[1]);
			child_main(&cls[i], name, p2[0], p1[1]);
			_exit(0);
		}
		__real_close(p1[1]); __real_close(p2[0]);
		cls[i].pid = p; cls[i].rfd = p1[0]; cls[i].wfd = p2[1];
		fcntl(cls[i].rfd, F_SETFL, O_NONBLOCK);
	}
	pump(all_c, "clients did not start");
	for (int i = 0; i < ncl; i++) {
		vt_ev("Spawn"); vt_i(cls[i].k); vt_i(cls[i].euid); vt_i(cls[i].egid); vt_res(); vt_end();
	}
	for (int i = 0; i < ncl; i++) if (write(cls[i].wfd, "g", 1) != 1) die("go");
	pump(all_rs, "handshakes did not complete");
	settle();
	observe(1);
	vt_simple("Connected");
	for (int i = 0; i < ncl; i++) (void)!write(cls[i].wfd, "f", 1);
	pump(all_gone, "clients did not finish");
	settle();
	observe(1);
	vt_simple("End");
	obs_on = 1;
	qb_ipcs_destroy(s);
	obs_on = 0;
	run_jobs();
	observe(1);
	for (int i = 0; i < ncl; i++) { __real_close(cls[i].rfd); __real_close(cls[i].wfd); }
	if (planted_fd >= 0) { __real_close(planted_fd); planted_fd = -1; }
	/* leave nothing behind for the next scenario (and nothing at all when /dev/shm is shared) */
	DIR *d = opendir("/dev/shm");
	struct dirent *de;
	char pfx[64];
	snprintf(pfx, sizeof pfx, "qb-%d-", (int)srv_pid);
	while (d && (de = readdir(d))) {
		if (strncmp(de->d_name, pfx, strlen(pfx))) continue;
		char cmd[PATH_MAX];
		snprintf(cmd, sizeof cmd, "/dev/shm/%s", de->d_name);
		DIR *d2 = opendir(cmd);
		struct dirent *f;
		while (d2 && (f = readdir(d2))) if (f->d_name[0] != '.') unlinkat(dirfd(d2), f->d_name, 0);
		if (d2) closedir(d2);
		__real_rmdir(cmd);
	}
	if (d) closedir(d);
	ncl = 0;
}

int main(int argc, char **argv)
{
	if (argc < 3) return 2;
	FILE *f = fopen(argv[1], "r");
	if (!f) { perror(argv[1]); return 2; }
	signal(SIGPIPE, SIG_IGN);
	srv_pid = getpid();
	/* a private /dev/shm: nothing of other processes is seen or touched */
	if (geteuid() == 0 && unshare(CLONE_NEWNS) == 0 &&
	    mount(NULL, "/", NULL, MS_REC | MS_PRIVATE, NULL) == 0 &&
	    mount("tmpfs", "/dev/shm", "tmpfs", 0, "mode=1777,size=512m") == 0)
		private_shm = 1;
	vt_open(argv[2]);
	vt_ev("Env"); vt_i(geteuid() == 0); vt_i(private_shm); vt_res(); vt_end();
	struct vt_line L;
	while (vt_readline(f, &L)) {
		const char *op = L.tok[0];
		if (!strcmp(op, "Reset")) { vt_simple("Reset"); ncl = 0; }
		else if (!strcmp(op, "Server")) { transport = vt_argi(&L, 1); um = vt_argi(&L, 2); policy = vt_argi(&L, 3); }
		else if (!strcmp(op, "Client") && ncl < MAXC) {
			struct client *c = &cls[ncl++];
			memset(c, 0, sizeof *c);
			c->k = vt_argi(&L, 1); c->uid = vt_argi(&L, 2); c->gid = vt_argi(&L, 3); c->cvar = vt_argi(&L, 4);
			c->kind = vt_argi(&L, 5); c->ret = vt_argi(&L, 6); c->has = vt_argi(&L, 7);
			c->auid = vt_argi(&L, 8); c->agid = vt_argi(&L, 9); c->amode = vt_argi(&L, 10);
			c->plant = L.n > 11 ? (int)vt_argi(&L, 11) : 0;
		} else if (!strcmp(op, "Run")) run_scenario();
		else { fprintf(stderr, "h_ipc_admit: unknown op %s\n", op); return 2; }
	}
	fprintf(stderr, "h_ipc_admit: %d scenarios, %ld interposed calls, %ld observations logged\n", nscen, n_calls, n_obs);
	vt_close();
	return 0;
}
