/* h_hdb: executes a schedule of qb_hdb_* calls on the real library and records
 * every call with its observable result (ndjson) for HdbTrace.tla.
 * usage: h_hdb <schedule> <trace-out>                                        */
#include "os_base.h"
#include <qb/qbhdb.h>
#include "vtrace.h"

#define MAXH 4096
static struct qb_hdb db;
static qb_handle_t handles[MAXH];
static int nh;
static int dl[64], ndl;
static long rnd_ctr;

/* scripted random(): fresh, never repeating, positive check words (a repeated
 * check word is a 2^-31 event the design accepts; it is outside the property) */
long random(void) { return 1000 + (++rnd_ctr); }

static void dtor(void *inst) { if (ndl < 64) dl[ndl++] = *(int *)inst; }

static qb_handle_t mk(const char *form, long long x)
{
	if (!strcmp(form, "h")) return (x >= 1 && x <= nh) ? handles[x] : (((uint64_t)0x6fffffff) << 32);
	if (!strcmp(form, "nc")) return qb_hdb_nocheck_convert((uint32_t)x);
	if (!strcmp(form, "ni")) return (((uint64_t)(0x70000000u + (uint32_t)x)) << 32) | (uint32_t)x;
	return (uint64_t)(uint32_t)x; /* "z": check word 0 */
}

static void fresh(void)
{
	memset(&db, 0, sizeof(db));
	qb_hdb_create(&db);
	db.destructor = dtor;
	nh = 0; rnd_ctr = 0;
}

int main(int argc, char **argv)
{
	if (argc < 3) return 2;
	FILE *f = fopen(argv[1], "r");
	if (!f) { perror(argv[1]); return 2; }
	vt_open(argv[2]);
	struct vt_line L;
	fresh();
	while (vt_readline(f, &L)) {
		const char *op = L.tok[0];
		ndl = 0;
		if (!strcmp(op, "Reset")) {
			qb_hdb_destroy(&db);
			fresh();
			vt_simple("Reset");
		} else if (!strcmp(op, "Create")) {
			qb_handle_t h = 0; void *inst = NULL;
			int rc = qb_hdb_handle_create(&db, sizeof(int), &h);
			int id = 0, slot = -1;
			if (rc == 0) {
				id = ++nh; handles[id] = h; slot = (int)qb_hdb_base_convert(h);
				/* tag the instance with its id so later results can name the object */
				if (qb_hdb_handle_get(&db, h, &inst) == 0 && inst) { *(int *)inst = id; qb_hdb_handle_put(&db, h); }
				else rc = -999;
				if ((int32_t)(h >> 32) <= 0) rc = -998;
			}
			vt_ev("Create"); vt_i(slot); vt_res(); vt_i(rc); vt_i(slot); vt_i(id); vt_end();
		} else if (!strcmp(op, "Get")) {
			void *inst = NULL;
			int rc = qb_hdb_handle_get(&db, mk(L.tok[1], vt_argi(&L, 2)), &inst);
			vt_ev("Get"); vt_s(L.tok[1]); vt_i(vt_argi(&L, 2)); vt_res(); vt_i(rc); vt_i(rc == 0 && inst ? *(int *)inst : 0); vt_end();
		} else if (!strcmp(op, "Put") || !strcmp(op, "Destroy")) {
			qb_handle_t h = mk(L.tok[1], vt_argi(&L, 2));
			int rc = !strcmp(op, "Put") ? qb_hdb_handle_put(&db, h) : qb_hdb_handle_destroy(&db, h);
			vt_ev(op); vt_s(L.tok[1]); vt_i(vt_argi(&L, 2)); vt_res(); vt_i(rc);
			vt_lb(); for (int i = 0; i < ndl; i++) vt_i(dl[i]); vt_le(); vt_end();
		} else if (!strcmp(op, "Refcount")) {
			int rc = qb_hdb_handle_refcount_get(&db, mk(L.tok[1], vt_argi(&L, 2)));
			vt_ev(op); vt_s(L.tok[1]); vt_i(vt_argi(&L, 2)); vt_res(); vt_i(rc); vt_end();
		} else if (!strcmp(op, "IterReset")) {
			qb_hdb_iterator_reset(&db);
			vt_simple("IterReset");
		} else if (!strcmp(op, "IterNext")) {
			void *inst = NULL; qb_handle_t h = 0;
			int rc = qb_hdb_iterator_next(&db, &inst, &h);
			int id = 0;
			if (rc == 0 && inst) { id = *(int *)inst; if (id < 1 || id > nh || handles[id] != h) id = -1; }
			vt_ev(op); vt_res(); vt_i(rc != 0); vt_i(id); vt_end();
		} else {
			fprintf(stderr, "h_hdb: unknown op %s\n", op); return 2;
		}
		if (ndl && strcmp(op, "Put") && strcmp(op, "Destroy")) { vt_ev("UnexpectedDtor"); vt_res(); vt_end(); }
	}
	vt_close();
	return 0;
}
