/* h_array: executes qb_array_* calls on the real library, records results and the
 * lock / bin-table hook events (ndjson) for ArrayTrace.tla.
 * usage: h_array <schedule> <trace-out>
 * ops: Create <max> <esize> <autogrow> | Index <idx> | Write <idx> <v> | Grow <n> | Reset */
#include "os_base.h"
#include <qb/qbarray.h>
#include "verif_hook.h"
#include "vtrace.h"

static qb_array_t *arr;
static size_t esize;
#define MAXP 8192
static char *ptrs[MAXP];
static int idx_of[MAXP];
static int nptrs;
static int in_call;

static void hook(int point, const void *obj, long a, long b)
{
	if (obj != arr && arr != NULL) return;
	if (point < QB_VP_ARRAY_LOCKED || point > QB_VP_ARRAY_TABLE_WRITE) return;
	/* events inside an API call are written directly (the call's own event follows them) */
	FILE *o = vt_out;
	fprintf(o, "{\"e\":\"H\",\"a\":[1,%d],\"r\":[]}\n", point);
}

int main(int argc, char **argv)
{
	if (argc < 3) return 2;
	FILE *f = fopen(argv[1], "r");
	if (!f) { perror(argv[1]); return 2; }
	vt_open(argv[2]);
	qb_verif_hook_fn = hook;
	struct vt_line L;
	while (vt_readline(f, &L)) {
		const char *op = L.tok[0];
		if (!strcmp(op, "Reset")) {
			if (arr) { qb_verif_hook_fn = NULL; qb_array_free(arr); qb_verif_hook_fn = hook; arr = NULL; }
			nptrs = 0;
			vt_simple("Reset");
		} else if (!strcmp(op, "Create")) {
			long mx = vt_argi(&L, 1); esize = vt_argi(&L, 2); long ag = vt_argi(&L, 3);
			qb_verif_hook_fn = NULL;
			arr = qb_array_create_2(mx, esize, ag);
			qb_verif_hook_fn = hook;
			nptrs = 0;
			vt_ev(op); vt_i(mx); vt_i(esize); vt_i(ag); vt_res(); vt_i(arr ? 0 : -1); vt_end();
			if (!arr) return 3;
		} else if (!arr) {
			continue;
		} else if (!strcmp(op, "Index")) {
			long idx = vt_argi(&L, 1);
			void *e = NULL;
			int rc = qb_array_index(arr, (int32_t)idx, &e);
			long pid = 0, dist = 0, val = 0;
			if (rc == 0 && e) {
				int k;
				for (k = 0; k < nptrs; k++) if (ptrs[k] == (char *)e) break;
				if (k == nptrs && nptrs < MAXP) { ptrs[nptrs] = e; idx_of[nptrs] = idx; nptrs++; }
				pid = k + 1;
				for (int j = 0; j < nptrs; j++) {
					if (j == k) continue;
					long d = labs((long)(ptrs[j] - (char *)e));
					if (dist == 0 || d < dist) dist = d;
				}
				unsigned char *b = e; val = b[0];
				for (size_t i = 1; i < esize; i++) if (b[i] != b[0]) val = -1;
			}
			vt_ev(op); vt_i(idx); vt_res(); vt_i(rc); vt_i(pid); vt_i(dist); vt_i(val); vt_end();
		} else if (!strcmp(op, "Write")) {
			long idx = vt_argi(&L, 1), v = vt_argi(&L, 2);
			int k;
			for (k = 0; k < nptrs; k++) if (idx_of[k] == idx) break;
			if (k == nptrs) continue;
			memset(ptrs[k], (int)v, esize);
			vt_ev(op); vt_i(idx); vt_i(v); vt_res(); vt_end();
		} else if (!strcmp(op, "Grow")) {
			long n = vt_argi(&L, 1);
			int rc = qb_array_grow(arr, (size_t)n);
			vt_ev(op); vt_i(n); vt_res(); vt_i(rc); vt_end();
		} else { fprintf(stderr, "h_array: unknown op %s\n", op); return 2; }
	}
	vt_close();
	return 0;
}
