/* h_array: executes qb_array_* calls on the real library, records results and the
 * lock / bin-table hook events (ndjson) for ArrayTrace.tla.
 * usage: h_array <schedule> <trace-out>
 * ops: Create <max> <esize> <autogrow> | Index <idx> | Write <idx> <v> | Grow <n> | Reset */
#include "os_base.h"
#include <qb/qbarray.h>
#include "verif_hook.h"
#include "vtrace.h"
#include <pthread.h>
#include <semaphore.h>

static qb_array_t *arr;
static size_t esize;
#define MAXP 8192
static char *ptrs[MAXP];
static int idx_of[MAXP];
static int nptrs;
static int in_call;

/* ---- optional two-thread mode: "T<n> <op...>" lines build per-thread programs, "S 1 2 .." is the schedule, "Go" runs them.
 * Threads yield to the controller after every release of the grow lock (QB_VP_ARRAY_UNLOCKED) and between calls, so the
 * interleaving is controlled at the granularity of critical sections. ---- */
#define MAXTOPS 64
static struct vt_line tprog[3][MAXTOPS];
static int ntprog[3];
static char tsched[4096]; static int ntsched, tspos;
static unsigned long trng = 1;
static sem_t tgo[3], tback;
static int tfin[3];
static __thread int tme;
static void tyield(void) { sem_post(&tback); sem_wait(&tgo[tme]); }

static int in_op;
static void hook(int point, const void *obj, long a, long b)
{
	int ev;
	/* lock events come from qb_thread_lock/unlock themselves (any call site, hooked or not); table accesses from array.c */
	if (point == QB_VP_THREAD_LOCKED) ev = 100;
	else if (point == QB_VP_THREAD_UNLOCKED) ev = 101;
	else if ((point == QB_VP_ARRAY_TABLE_READ || point == QB_VP_ARRAY_TABLE_WRITE) && (obj == arr || arr == NULL)) ev = point;
	else return;
	if (!in_op && !tme) return;
	FILE *o = vt_out;
	fprintf(o, "{\"e\":\"H\",\"a\":[%d,%d],\"r\":[]}\n", tme ? tme : 1, ev);
	if (tme && point == QB_VP_THREAD_UNLOCKED) tyield();      /* scheduling point: outside every critical section */
}

static void do_op(struct vt_line *Lp, int t0);
static void *tmain(void *arg)
{
	tme = (int)(intptr_t)arg;
	sem_wait(&tgo[tme]);
	for (int i = 0; i < ntprog[tme]; i++) {
		do_op(&tprog[tme][i], 1);
		if (i + 1 < ntprog[tme]) tyield();
	}
	tfin[tme] = 1;
	sem_post(&tback);
	return NULL;
}
static void trun(void)
{
	pthread_t th[3];
	sem_init(&tback, 0, 0);
	for (int t = 1; t <= 2; t++) { tfin[t] = ntprog[t] == 0; sem_init(&tgo[t], 0, 0); if (!tfin[t]) pthread_create(&th[t], NULL, tmain, (void *)(intptr_t)t); }
	while (!tfin[1] || !tfin[2]) {
		int t;
		if (tspos < ntsched) t = tsched[tspos++] == '1' ? 1 : 2;
		else { trng = trng * 6364136223846793005UL + 1442695040888963407UL; t = ((trng >> 33) & 1) ? 1 : 2; }
		if (tfin[t]) t = 3 - t;
		struct timespec ts; clock_gettime(CLOCK_REALTIME, &ts); ts.tv_sec += 20;
		sem_post(&tgo[t]);
		if (sem_timedwait(&tback, &ts) != 0) { fprintf(vt_out, "{\"e\":\"Stuck\",\"a\":[%d],\"r\":[]}\n", t); fflush(vt_out); _exit(4); }
	}
	for (int t = 1; t <= 2; t++) if (ntprog[t]) pthread_join(th[t], NULL);
	ntprog[1] = ntprog[2] = 0; ntsched = tspos = 0;
}

static void do_op(struct vt_line *Lp, int t0)
{
	struct vt_line *LL = Lp;
#define L (*LL)
	const char *op = L.tok[t0];
	if (!arr) return;
	in_op = 1;
	if (!strcmp(op, "Index")) {
		long idx = atoll(L.tok[t0 + 1]);
		void *e = NULL;
		int rc = qb_array_index(arr, (int32_t)idx, &e);
		long pid = 0, dist = 0, val = 0;
		if (rc == 0 && e) {
			int k;
			for (k = 0; k < nptrs; k++) if (ptrs[k] == (char *)e) break;
			if (k == nptrs && nptrs < MAXP) { ptrs[nptrs] = e; idx_of[nptrs] = idx; nptrs++; }
			pid = k + 1;
			for (int j = 0; j < nptrs; j++) {
				if (j == k) continue;
				long d = labs((long)(ptrs[j] - (char *)e));
				if (dist == 0 || d < dist) dist = d;
			}
			unsigned char *b = e; val = b[0];
			for (size_t i = 1; i < esize; i++) if (b[i] != b[0]) val = -1;
		}
		vt_ev(op); vt_i(idx); vt_res(); vt_i(rc); vt_i(pid); vt_i(dist); vt_i(val); vt_end();
	} else if (!strcmp(op, "Write")) {
		long idx = atoll(L.tok[t0 + 1]), v = atoll(L.tok[t0 + 2]);
		int k;
		for (k = 0; k < nptrs; k++) if (idx_of[k] == idx) break;
		if (k == nptrs) { in_op = 0; return; }
		memset(ptrs[k], (int)v, esize);
		vt_ev(op); vt_i(idx); vt_i(v); vt_res(); vt_end();
	} else if (!strcmp(op, "Grow")) {
		long n = atoll(L.tok[t0 + 1]);
		int rc = qb_array_grow(arr, (size_t)n);
		vt_ev(op); vt_i(n); vt_res(); vt_i(rc); vt_end();
	} else { fprintf(stderr, "h_array: unknown op %s\n", op); exit(2); }
	in_op = 0;
#undef L
}

int main(int argc, char **argv)
{
	if (argc < 3) return 2;
	FILE *f = fopen(argv[1], "r");
	if (!f) { perror(argv[1]); return 2; }
	vt_open(argv[2]);
	qb_verif_hook_fn = hook;
	struct vt_line L;
	while (vt_readline(f, &L)) {
		const char *op = L.tok[0];
		if (!strcmp(op, "Reset")) {
			if (arr) { qb_verif_hook_fn = NULL; qb_array_free(arr); qb_verif_hook_fn = hook; arr = NULL; }
			nptrs = 0; ntprog[1] = ntprog[2] = 0; ntsched = tspos = 0;
			vt_simple("Reset");
		} else if (!strcmp(op, "Create")) {
			long mx = vt_argi(&L, 1); esize = vt_argi(&L, 2); long ag = vt_argi(&L, 3);
			qb_verif_hook_fn = NULL;
			arr = qb_array_create_2(mx, esize, ag);
			qb_verif_hook_fn = hook;
			nptrs = 0;
			vt_ev(op); vt_i(mx); vt_i(esize); vt_i(ag); vt_res(); vt_i(arr ? 0 : -1); vt_end();
			if (!arr) return 3;
		} else if (op[0] == 'T' && (op[1] == '1' || op[1] == '2') && !op[2]) {
			int t = op[1] - '0';
			if (ntprog[t] < MAXTOPS) {
				struct vt_line *d = &tprog[t][ntprog[t]++];
				*d = L;      /* the tokens point into the line buffer: re-base them onto the copy */
				for (int i = 0; i < L.n; i++) d->tok[i] = d->raw + (L.tok[i] - L.raw);
			}
		} else if (!strcmp(op, "S")) {
			for (int i = 1; i < L.n && ntsched < (int)sizeof(tsched); i++) tsched[ntsched++] = L.tok[i][0];
		} else if (!strcmp(op, "Seed")) {
			trng = vt_argi(&L, 1) * 2654435761UL + 12345;
		} else if (!strcmp(op, "Go")) {
			trun();
		} else {
			do_op(&L, 0);
		}
	}
	vt_close();
	return 0;
}
