/* h_rb_sched: one writer thread and one reader thread use a real ring buffer
 * concurrently under a deterministic scheduler: every QB_VP_RB_* hook point (one
 * per access to shared state) is a yield point; the controller grants one thread
 * one step at a time, following the schedule it is given (or a seeded random one).
 * Every granted step is recorded (ndjson) for RingBufferTrace.tla.
 * usage: h_rb_sched <schedule> <trace-out>
 * schedule lines:  Ring <S> <nosem>
 *                  W Write <len> <pat>            (writer program, in order)
 *                  R Read <buflen> | R Peek | R Reclaim   (reader program, in order)
 *                  S w r r w ...                  (who gets the next step; optional)
 *                  Seed <n>                       (random choice when the S list is used up)
 *                  Go                             (run the programs), Reset                  */
#include "os_base.h"
#include <pthread.h>
#include <semaphore.h>
#include <qb/qbrb.h>
#include "verif_hook.h"
#include "vtrace.h"

#define MAXOPS 256
struct op { int kind; long a, b; };      /* kind: 1 write 2 read 3 peek 4 reclaim */
static struct op prog[3][MAXOPS];
static int nprog[3];
static char sched[65536]; static int nsched, spos;
static unsigned long rng = 1;

static qb_ringbuffer_t *rb;
static sem_t go[3], back;
static int finished[3];
static __thread int me;
static int last_order[3];
static unsigned char *wbuf, *rbuf;
#define BUFMAX (1 << 20)

static unsigned h31(const unsigned char *p, size_t n) { unsigned h = 2166136261u; for (size_t i = 0; i < n; i++) { h ^= p[i]; h *= 16777619u; } return (h ^ (h >> 31)) & 0x3fffffff; }
static uint32_t pw(int pat, int id, size_t off)
{
	switch (pat) {
	case 1: return 0xA1A1A1A1u;
	case 2: return (off % 2 == 0) ? 8u : 0xA1A1A1A1u;
	case 3: return (off % 2 == 0) ? 0xD0D0D0D0u : 0xA110CED0u;
	default: return 0x40000000u + (uint32_t)id * 65536u + (uint32_t)off;
	}
}
static void fill(unsigned char *p, size_t n, int pat, int id) { for (size_t i = 0; i < n; i++) { uint32_t w = pw(pat, id, i / 4); p[i] = ((unsigned char *)&w)[i % 4]; } }

static void yield_to_controller(void) { sem_post(&back); sem_wait(&go[me]); }

static void hook(int point, const void *obj, long a, long b)
{
	if (!me) return;                                   /* not one of the two scheduled threads */
	if (point == QB_VP_ATOMIC_LOAD || point == QB_VP_ATOMIC_STORE) { last_order[me] = (int)b; return; }
	if (point < QB_VP_RB_SF_RD_WP || point > QB_VP_RB_RD_COPY || obj != rb) return;
	int order = -1;
	if (point == QB_VP_RB_AL_ALLOC || point == QB_VP_RB_CM_MAGIC || point == QB_VP_RB_RC_DEAD ||
	    point == QB_VP_RB_RC_MAGIC || point == QB_VP_RB_RD_MAGIC) order = last_order[me];
	vt_ev("P"); vt_i(me); vt_i(point); vt_i((int32_t)a); vt_i((int32_t)b); vt_i(order); vt_res(); vt_end();
	yield_to_controller();
}

static void *thread_main(void *arg)
{
	me = (int)(intptr_t)arg;
	sem_wait(&go[me]);
	int nid = 0;
	for (int i = 0; i < nprog[me]; i++) {
		struct op *o = &prog[me][i];
		if (o->kind == 1) {
			size_t len = o->a; int pat = o->b; nid++;
			fill(wbuf, len, pat, nid);
			vt_ev("WCall"); vt_i(len); vt_i(pat); vt_i(nid); vt_i(h31(wbuf, len)); vt_res(); vt_end();
			ssize_t rc = qb_rb_chunk_write(rb, wbuf, len);
			vt_ev("WRet"); vt_i(rc); vt_i(h31(wbuf, len)); vt_res(); vt_end();
		} else if (o->kind == 2) {
			size_t bl = o->a > BUFMAX ? BUFMAX : o->a;
			vt_ev("RCall"); vt_i(1); vt_i(o->a); vt_res(); vt_end();
			ssize_t rc = qb_rb_chunk_read(rb, rbuf, bl, 0);
			vt_ev("RRet"); vt_i(rc); vt_i(rc >= 0 ? h31(rbuf, rc) : 0); vt_res(); vt_end();
		} else if (o->kind == 3) {
			void *p = NULL;
			vt_ev("RCall"); vt_i(2); vt_i(0); vt_res(); vt_end();
			ssize_t rc = qb_rb_chunk_peek(rb, &p, 0);
			vt_ev("RRet"); vt_i(rc); vt_i(rc > 0 && rc <= BUFMAX && p ? h31(p, rc) : rc == 0 ? h31((unsigned char *)"", 0) : 0); vt_res(); vt_end();
		} else {
			vt_ev("RCall"); vt_i(3); vt_i(0); vt_res(); vt_end();
			qb_rb_chunk_reclaim(rb);
			vt_ev("RRet"); vt_i(0); vt_i(0); vt_res(); vt_end();
		}
		if (i + 1 < nprog[me]) yield_to_controller();     /* a call boundary is a scheduling point too */
	}
	finished[me] = 1;
	sem_post(&back);
	return NULL;
}

static void run(void)
{
	pthread_t th[3];
	finished[1] = nprog[1] == 0; finished[2] = nprog[2] == 0;
	sem_init(&back, 0, 0);
	for (int t = 1; t <= 2; t++) { sem_init(&go[t], 0, 0); if (!finished[t]) pthread_create(&th[t], NULL, thread_main, (void *)(intptr_t)t); }
	int started[3] = {0, finished[1], finished[2]};
	while (!finished[1] || !finished[2]) {
		int t;
		if (spos < nsched) t = sched[spos++] == 'w' ? 1 : 2;
		else { rng = rng * 6364136223846793005UL + 1442695040888963407UL; t = ((rng >> 33) & 1) ? 1 : 2; }
		if (finished[t]) t = 3 - t;
		(void)started;
		struct timespec ts; clock_gettime(CLOCK_REALTIME, &ts); ts.tv_sec += 20;
		sem_post(&go[t]);
		if (sem_timedwait(&back, &ts) != 0) { vt_ev("Stuck"); vt_i(t); vt_res(); vt_end(); vt_flush(); _exit(4); }
	}
	for (int t = 1; t <= 2; t++) if (nprog[t]) pthread_join(th[t], NULL);
}

int main(int argc, char **argv)
{
	if (argc < 3) return 2;
	FILE *f = fopen(argv[1], "r");
	if (!f) { perror(argv[1]); return 2; }
	vt_open(argv[2]);
	wbuf = malloc(BUFMAX); rbuf = malloc(BUFMAX);
	qb_verif_hook_fn = hook;
	struct vt_line L; char name[64]; int nopen = 0;
	while (vt_readline(f, &L)) {
		const char *op = L.tok[0];
		if (!strcmp(op, "Reset")) {
			if (rb) { qb_rb_close(rb); rb = NULL; }
			nprog[1] = nprog[2] = 0; nsched = spos = 0; rng = 1;
			vt_simple("Reset");
		} else if (!strcmp(op, "Ring")) {
			long S = vt_argi(&L, 1); int nosem = vt_argi(&L, 2);
			snprintf(name, sizeof(name), "vrbs-%d-%d", getpid(), nopen++);
			rb = qb_rb_open(name, S, QB_RB_FLAG_CREATE | (nosem ? QB_RB_FLAG_NO_SEMAPHORE : 0), 0);
			if (!rb) return 3;
			vt_ev("Ring"); vt_i(S); vt_i(nosem); vt_res(); vt_end();
		} else if (!strcmp(op, "W") && nprog[1] < MAXOPS) {
			prog[1][nprog[1]++] = (struct op){1, vt_argi(&L, 2), vt_argi(&L, 3)};
		} else if (!strcmp(op, "R") && nprog[2] < MAXOPS) {
			int k = !strcmp(L.tok[1], "Read") ? 2 : !strcmp(L.tok[1], "Peek") ? 3 : 4;
			prog[2][nprog[2]++] = (struct op){k, vt_argi(&L, 2), 0};
		} else if (!strcmp(op, "S")) {
			for (int i = 1; i < L.n && nsched < (int)sizeof(sched); i++) sched[nsched++] = L.tok[i][0];
		} else if (!strcmp(op, "Seed")) {
			rng = vt_argi(&L, 1) * 2654435761UL + 12345;
		} else if (!strcmp(op, "Go")) {
			run();
			vt_simple("Done");
		}
	}
	if (rb) qb_rb_close(rb);
	vt_close();
	return 0;
}
